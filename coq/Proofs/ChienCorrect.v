(* Proofs/ChienCorrect.v -- chien_search of Model/RSDec.v reports exactly the inverses of the roots of the locator
   polynomial [w, 1] among the powers of alpha. *)
From Coq Require Import Arith NArith List Bool Lia Ring Field.
From DM Require Import Spec.GF256 Spec.Poly Model.Outcome Model.GF Model.RSEnc Model.RSDec Proofs.GFTie Proofs.RSEncProofs
  Proofs.RSDecProofs Proofs.RSTotal Proofs.LDMath Proofs.LDBridge Proofs.ErrLoc.
Import ListNotations.
Local Open Scope nat_scope.

(* the indices at which the running sum vanishes *)
Fixpoint hits (fuel : nat) (i : N) (gamma pw : list N) : list N :=
  match fuel with
  | O => []
  | Datatypes.S f => (if N.eqb (gsum gamma) 0 then [i] else []) ++ hits f (i + 1)%N (zipw GF.mul gamma pw) pw
  end.

Lemma chien_go_hits : forall fuel i gamma pw out, chien_go fuel i gamma pw out = out ++ map GF.alog (hits fuel i gamma pw).
Proof.
  induction fuel as [|f IH]; intros i gamma pw out; cbn [chien_go hits map]; [rewrite app_nil_r; reflexivity|].
  rewrite IH. destruct (N.eqb (gsum gamma) 0); cbn [app map]; [rewrite <- app_assoc; reflexivity|reflexivity].
Qed.

Fixpoint scaled (gamma pw : list N) (n : nat) : list N :=
  match n with O => gamma | Datatypes.S n' => zipw GF.mul (scaled gamma pw n') pw end.

Lemma scaled_S gamma pw n : scaled (zipw GF.mul gamma pw) pw n = scaled gamma pw (Datatypes.S n).
Proof. induction n as [|n IH]; [reflexivity|]. cbn [scaled]. rewrite IH. reflexivity. Qed.

Lemma hits_spec gamma pw : forall fuel n j,
  In j (hits fuel (N.of_nat n) (scaled gamma pw n) pw) <->
  exists m, n <= m < n + fuel /\ j = N.of_nat m /\ gsum (scaled gamma pw m) = 0%N.
Proof.
  induction fuel as [|f IH]; intros n j; cbn [hits].
  - split; [intros []|intros (m & Hm & _); lia].
  - rewrite in_app_iff. replace (N.of_nat n + 1)%N with (N.of_nat (Datatypes.S n)) by lia.
    change (zipw GF.mul (scaled gamma pw n) pw) with (scaled gamma pw (Datatypes.S n)). rewrite IH. split.
    + intros [H|(m & Hm & E & Z)].
      * destruct (N.eqb_spec (gsum (scaled gamma pw n)) 0) as [Z|NZ]; [|destruct H]. destruct H as [<-|[]]. exists n. split; [lia|]. split; [reflexivity|exact Z].
      * exists m. split; [lia|]. split; assumption.
    + intros (m & Hm & E & Z). destruct (Nat.eq_dec m n) as [->|NE].
      * left. rewrite Z. cbn. left. symmetry. exact E.
      * right. exists m. split; [lia|]. split; assumption.
Qed.

Lemma hits_NoDup gamma pw : forall fuel n, NoDup (hits fuel (N.of_nat n) (scaled gamma pw n) pw).
Proof.
  induction fuel as [|f IH]; intros n; cbn [hits]; [constructor|].
  replace (N.of_nat n + 1)%N with (N.of_nat (Datatypes.S n)) by lia.
  change (zipw GF.mul (scaled gamma pw n) pw) with (scaled gamma pw (Datatypes.S n)).
  destruct (N.eqb (gsum (scaled gamma pw n)) 0); cbn [app]; [|apply IH]. constructor; [|apply IH].
  intros Hin. apply hits_spec in Hin. destruct Hin as (m & Hm & E & _). lia.
Qed.

Lemma zipF_step' (G : list F) : forall (P : list F) j,
  zipF Fmul (zipF (fun g p => Fmul g (Fpow p j)) G P) P = zipF (fun g p => Fmul g (Fpow p (Datatypes.S j))) G P.
Proof. induction G as [|g r IH]; intros [|p r2] j; cbn [zipF]; try reflexivity. rewrite IH. f_equal. cbn [Fpow]. ring. Qed.

(* the running sum is the value of the coefficient list (read highest degree first) at alpha^n *)
Lemma scaled_toF (gamma pw : list N) : Forall byte gamma -> Forall byte pw -> length gamma = length pw -> forall n,
  Forall byte (scaled gamma pw n) /\ length (scaled gamma pw n) = length gamma /\
  map toF (scaled gamma pw n) = zipF (fun g p => Fmul g (Fpow p n)) (map toF gamma) (map toF pw).
Proof.
  intros Bg Bp L. induction n as [|n (B & Ln & E)].
  - split; [exact Bg|]. split; [reflexivity|]. cbn [scaled]. rewrite zipF_pow0 by (rewrite !map_length; exact L). reflexivity.
  - cbn [scaled]. destruct (zipw_mul_toF _ _ B Bp) as [Z1 Z2]. split; [exact Z1|]. split; [rewrite zipw_length; lia|].
    rewrite Z2, E. apply zipF_step'.
Qed.

Lemma rev_powers_eval (c : list F) j :
  Fsum (zipF (fun g p => Fmul g (Fpow p j)) (rev c) (map (fun i => Fpow Falpha i) (seq 0 (length c)))) = peval c (Fpow Falpha j).
Proof.
  rewrite <- (Fsum_rev_powers c (Fpow Falpha j)). f_equal.
  set (R := rev c). assert (length R = length c) as LR by (unfold R; apply rev_length).
  rewrite <- LR. clear. generalize 0. induction R as [|g r IH]; intros s; [reflexivity|].
  cbn [length seq map zipF]. rewrite IH. f_equal. f_equal. rewrite !Fpow_mul. f_equal. lia.
Qed.

Lemma chien_sum_toF c n : Forall byte c ->
  byte (gsum (scaled (rev c) (powers (length c)) n)) /\
  toF (gsum (scaled (rev c) (powers (length c)) n)) = peval (map toF c) (Fpow Falpha n).
Proof.
  intros Bc. destruct (powers_toF (length c)) as [P1 P2].
  destruct (scaled_toF (rev c) (powers (length c)) (Forall_rev Bc) P1) with (n := n) as (B & _ & E).
  { unfold powers. rewrite rev_length, map_length, seq_length. reflexivity. }
  destruct (gsum_toF _ B) as [Bg Eg]. split; [exact Bg|]. rewrite Eg, E, P2, map_rev.
  rewrite <- (rev_powers_eval (map toF c) n). rewrite map_length. reflexivity.
Qed.

(* coefficient lists read low degree first: x^(n-1) * p(1/x) *)
Lemma peval_low_first T n x xi : Fmul x xi = F1 -> 1 <= n ->
  peval (map T (seq 0 n)) x = Fmul (Fpow x (n - 1)) (wpoly T n xi).
Proof.
  intros HI Hn. induction n as [|n IH]; [lia|]. destruct n as [|n'].
  - cbn [seq map Nat.sub]. rewrite peval_cons, peval_nil. unfold wpoly. cbn [fsum Fpow length]. ring.
  - rewrite seq_S, map_app. cbn [map Nat.add]. rewrite peval_snoc, IH by lia. unfold wpoly. cbn [fsum].
    replace (Datatypes.S (Datatypes.S n') - 1) with (Datatypes.S n') by lia. replace (Datatypes.S n' - 1) with n' by lia.
    assert (forall k, Fmul (Fpow x k) (Fpow xi k) = F1) as PI.
    { induction k as [|k IHk]; cbn [Fpow]; [ring|]. transitivity (Fmul (Fmul x xi) (Fmul (Fpow x k) (Fpow xi k))); [ring|]. rewrite HI, IHk. ring. }
    set (sm := fsum (Datatypes.S n') (fun j => Fmul (T j) (Fpow xi j))).
    transitivity (Fadd (Fmul (Fpow x (Datatypes.S n')) sm) (Fmul (T (Datatypes.S n')) (Fmul (Fpow x (Datatypes.S n')) (Fpow xi (Datatypes.S n'))))).
    + rewrite PI. unfold sm. cbn [fsum Fpow]. ring.
    + unfold sm. cbn [fsum Fpow]. ring.
Qed.

Lemma map_nth_seq (l : list N) : map toF l = map (vf l) (seq 0 (length l)).
Proof.
  induction l as [|a r IH] using rev_ind; [reflexivity|]. rewrite app_length, map_app. cbn [length map]. rewrite Nat.add_1_r, seq_S, map_app. cbn [map Nat.add].
  f_equal.
  - rewrite IH. apply map_ext_in. intros j Hj. apply in_seq in Hj. unfold vf. rewrite app_nth1 by lia. reflexivity.
  - unfold vf. rewrite app_nth2 by lia. rewrite Nat.sub_diag. reflexivity.
Qed.

Lemma Falpha_inverse j : j < 255 -> Fmul (Fpow Falpha j) (Fpow Falpha ((255 - j) mod 255)) = F1.
Proof.
  intros H. assert (Fpow Falpha 255 = F1) as O by (apply F_eq; rewrite Fval_pow; destruct alpha_order as [O _]; exact O).
  destruct j as [|j']; [cbn; ring|]. rewrite Nat.mod_small by lia. rewrite <- Fpow_add. replace (Datatypes.S j' + (255 - Datatypes.S j')) with 255 by lia. exact O.
Qed.

Lemma toF_alog j : (j < 255)%N -> toF (GF.alog j) = Fpow Falpha (N.to_nat j).
Proof.
  intros H. pose proof (primitive_power_toF (N.to_nat j)) as P. unfold GF.primitive_power in P. rewrite N2Nat.id in P.
  rewrite N.mod_small in P by exact H. exact P.
Qed.

Lemma toF_ginv z : byte z -> z <> 0%N -> toF (RSTotal.ginv z) = Finv (toF z).
Proof.
  intros Bz NZ. destruct (gdiv_toF _ _ _ byte_1 Bz (gdiv_ginv z NZ)) as (_ & _ & E). rewrite E. change (toF 1%N) with F1. ring.
Qed.

Lemma Finv_unique x y : Fmul x y = F1 -> Finv x = y.
Proof.
  intros H. assert (x <> F0) as NZ by (intros ->; assert (Fval F0 = Fval F1) as C by (rewrite <- H; f_equal; ring); discriminate C).
  transitivity (Fmul (Finv x) (Fmul x y)); [rewrite H; ring|]. field. exact NZ.
Qed.

(* the general case of chien_search (three or more coefficients): membership in the list of inverted results *)
Theorem chien_general lam : Forall byte lam -> 3 <= length lam -> last lam 1%N <> 0%N -> forall z, chien_search lam = Ok z ->
  z = map GF.alog (hits 255 0%N (rev lam) (powers (length lam))) /\
  forall x, In x (map toF (map RSTotal.ginv z)) <->
            exists m, m < 255 /\ x = Fpow Falpha m /\ wpoly (vf lam) (length lam) x = F0.
Proof.
  intros Bl L3 Last z H. unfold chien_search in H. destruct lam as [|c0 [|c1 [|c2 r]]]; try (cbn in L3; lia).
  set (lam := c0 :: c1 :: c2 :: r) in *. destruct (N.eqb_spec (last lam 1%N) 0) as [E|_]; [contradiction|].
  apply Ok_inj in H. subst z. rewrite chien_go_hits. cbn [app]. split; [reflexivity|]. intros x.
  change 0%N with (N.of_nat 0). change (rev lam) with (scaled (rev lam) (powers (length lam)) 0).
  rewrite !map_map. rewrite in_map_iff. split.
  - intros (j & <- & Hj). apply hits_spec in Hj. destruct Hj as (m & Hm & -> & Z).
    destruct (chien_sum_toF lam m Bl) as [_ E]. rewrite Z in E. change (toF 0%N) with F0 in E.
    assert (N.of_nat m < 255)%N as Hm' by lia.
    pose proof (Falpha_inverse m ltac:(lia)) as INV. set (m' := (255 - m) mod 255) in *.
    exists m'. split; [unfold m'; apply Nat.mod_upper_bound; lia|].
    assert (toF (RSTotal.ginv (GF.alog (N.of_nat m))) = Fpow Falpha m') as EX.
    { rewrite toF_ginv; [|apply alog_byte|apply alog_nz; exact Hm']. rewrite toF_alog by exact Hm'. rewrite Nat2N.id. apply Finv_unique. exact INV. }
    split; [exact EX|]. rewrite map_nth_seq in E. rewrite (peval_low_first _ _ _ _ INV) in E by (cbn [length]; lia).
    symmetry in E. apply Fmul_integral in E. destruct E as [E|E]; [|rewrite EX; exact E].
    exfalso. exact (Fpow_nonzero _ _ (Fpow_nonzero _ _ Falpha_nonzero) E).
  - intros (m & Hm & -> & Z). set (j := (255 - m) mod 255).
    assert (j < 255) as Hj by (unfold j; apply Nat.mod_upper_bound; lia).
    assert (Fmul (Fpow Falpha j) (Fpow Falpha m) = F1) as INV.
    { destruct m as [|m']; [unfold j; cbn; ring|]. unfold j. rewrite Nat.mod_small by lia. rewrite <- Fpow_add.
      replace (255 - Datatypes.S m' + Datatypes.S m') with 255 by lia. apply F_eq. rewrite Fval_pow. destruct alpha_order as [O _]. exact O. }
    exists (N.of_nat j). split.
    + rewrite toF_ginv; [|apply alog_byte|apply alog_nz; lia]. rewrite toF_alog by lia. rewrite Nat2N.id. apply Finv_unique. exact INV.
    + apply hits_spec. exists j. split; [lia|]. split; [reflexivity|].
      destruct (chien_sum_toF lam j Bl) as [B E]. apply (proj1 (toF_zero_iff _ B)).
      rewrite E, map_nth_seq, (peval_low_first _ _ _ _ INV) by (cbn [length]; lia). rewrite Z. ring.
Qed.
