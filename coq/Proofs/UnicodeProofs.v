(* Proofs/UnicodeProofs.v -- property C17, Bitmap::unicode: the text consists of ceil((h+2)/2) lines of w + 2 block
   characters and a line feed; the character in line r, column j shows module (2r - 1, j - 1) in its upper half and
   module (2r, j - 1) in its lower half, where modules outside the bitmap (the one-module border) are light. *)
From Coq Require Import ZArith List Bool Lia Arith.
From DM Require Import Model.Outcome Model.Path.
Import ListNotations.
Local Open Scope Z_scope.

Definition block (upper lower : bool) : Z :=
  if upper then (if lower then 9608 else 9600) else (if lower then 9604 else 32).   (* U+2588, U+2580, U+2584, space *)

Lemma nth_flat_map_const {A} (f : A -> list Z) (n : nat) (da : A) : (forall a, length (f a) = n) ->
  forall L i k, (i < length L)%nat -> (k < n)%nat -> nth (i * n + k) (flat_map f L) 0 = nth k (f (nth i L da)) 0.
Proof.
  intros HL. induction L as [|a L IH]; intros i k Hi Hk; [cbn in Hi; lia|]. cbn [flat_map]. destruct i as [|i].
  - cbn [Nat.mul Nat.add nth]. rewrite app_nth1 by (rewrite HL; exact Hk). reflexivity.
  - cbn [length] in Hi. rewrite app_nth2 by (rewrite HL; cbn [Nat.mul]; lia). rewrite HL. replace (S i * n + k - n)%nat with (i * n + k)%nat by (cbn [Nat.mul]; lia).
    cbn [nth]. apply IH; lia.
Qed.
Lemma length_flat_map_const {A} (f : A -> list Z) (n : nat) : (forall a, length (f a) = n) -> forall L, length (flat_map f L) = (length L * n)%nat.
Proof. intros HL. induction L as [|a L IH]; [reflexivity|]. cbn [flat_map length]. rewrite app_length, HL, IH. cbn [Nat.mul]. reflexivity. Qed.

Theorem unicode_spec (l : list bool) (w : Z) (cps : list Z) : 0 < w -> unicode l w = Ok cps ->
  let h := Z.of_nat (length l) / w in
  let rows := (h + 3) / 2 in
  Z.of_nat (length cps) = rows * (w + 3) /\
  forall r, 0 <= r < rows ->
    nth (Z.to_nat (r * (w + 3) + (w + 2))) cps 0 = 10 /\
    forall j, 0 <= j < w + 2 ->
      nth (Z.to_nat (r * (w + 3) + j)) cps 0 = block (dark (bits_map l) w h (2 * r - 1) (j - 1)) (dark (bits_map l) w h (2 * r) (j - 1)).
Proof.
  intros Hw H h rows. unfold unicode, bitmap_new in H. destruct (Z.eqb_spec w 0); [lia|]. destruct (negb _); [discriminate|]. cbn [bind] in H. fold h in H.

  assert (0 <= h) as Hh by (apply Z.div_pos; lia).
  set (line := fun i : Z => map (fun jn : nat => let j := Z.of_nat jn in
      uchar (2 * (if dark (bits_map l) w h (i - 1) (j - 1) then 1 else 0) + (if dark (bits_map l) w h (i + 1 - 1) (j - 1) then 1 else 0))) (seq 0 (Z.to_nat (w + 2))) ++ [10]).
  replace ((h + 2 + 1) / 2) with rows in H by (unfold rows; f_equal; lia).
  set (L := map (fun r : nat => 2 * Z.of_nat r) (seq 0 (Z.to_nat rows))).
  assert (flat_map line L = cps) as E by (injection H as E; exact E).
  assert (forall a, length (line a) = Z.to_nat (w + 3)) as LL by (intros a; unfold line; rewrite app_length, map_length, seq_length; cbn [length]; lia).
  assert (length L = Z.to_nat rows) as LN by (unfold L; rewrite map_length, seq_length; reflexivity).
  assert (0 <= rows) as Hr by (apply Z.div_pos; lia).
  split; [rewrite <- E, (length_flat_map_const line _ LL), LN; nia|].
  intros r Hrr. assert (nth (Z.to_nat r) L 0 = 2 * r) as NL.
  { unfold L. change 0 with ((fun r : nat => 2 * Z.of_nat r) 0%nat). rewrite map_nth, seq_nth by lia. cbn [Nat.add]. lia. }
  assert (forall k, 0 <= k < w + 3 -> nth (Z.to_nat (r * (w + 3) + k)) cps 0 = nth (Z.to_nat k) (line (2 * r)) 0) as NK.
  { intros k Hk. replace (Z.to_nat (r * (w + 3) + k)) with (Z.to_nat r * Z.to_nat (w + 3) + Z.to_nat k)%nat by nia.
    rewrite <- E, (nth_flat_map_const line _ 0 LL) by lia. rewrite NL. reflexivity. }
  split.
  - rewrite NK by lia. unfold line. rewrite app_nth2 by (rewrite map_length, seq_length; lia). rewrite map_length, seq_length, Nat.sub_diag. reflexivity.
  - intros j Hj. rewrite NK by lia. unfold line. rewrite app_nth1 by (rewrite map_length, seq_length; lia).
    set (f := fun jn : nat => _). rewrite (nth_indep _ 0 (f 0%nat)) by (rewrite map_length, seq_length; lia).
    rewrite map_nth, seq_nth by lia. unfold f. cbn [Nat.add]. rewrite Z2Nat.id by lia.
    replace (2 * r + 1 - 1) with (2 * r) by lia. unfold block, uchar.
    destruct (dark (bits_map l) w h (2 * r - 1) (j - 1)), (dark (bits_map l) w h (2 * r) (j - 1)); reflexivity.
Qed.
Print Assumptions unicode_spec.
