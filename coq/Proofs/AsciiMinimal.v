(* Proofs/AsciiMinimal.v -- property C10 as a theorem for the ASCII-only configuration: the greedy ASCII encodation
   (digit pairs wherever two digits meet) uses the fewest codewords among ALL legal ASCII encodings of the message,
   hence the symbol returned is the smallest listed symbol into which any legal ASCII-only stream for the input fits. *)
From Coq Require Import Arith NArith List Bool Lia.
From DM Require Import Generated.Symbols Generated.ModeTables Model.Outcome Model.SymbolList Model.Planner Model.PlannerRun Model.Enc Model.Api
  Spec.Stream16022 Proofs.SymbolListProofs Proofs.EncLocal Proofs.EncTop Proofs.EncAscii Proofs.PlanAscii.
Import ListNotations.
Local Open Scope nat_scope.

Definition cost (items : list aitem) : nat := length (flat_map aitem_cw items).
Definition g (d : list N) : nat := cost (greedy d).

Lemma cost_cons i r : cost (i :: r) = length (aitem_cw i) + cost r.
Proof. unfold cost. cbn [flat_map]. now rewrite app_length. Qed.
Lemma item_cost_pos i : 1 <= length (aitem_cw i).
Proof. destruct i; cbn; lia. Qed.
Lemma item_of_cost a : length (aitem_cw (item_of a)) = if (a <=? 127)%N then 1 else 2.
Proof. unfold item_of. destruct (a <=? 127)%N; reflexivity. Qed.

Lemma g_cons2 a b t : g (a :: b :: t) = if is_digit a && is_digit b then 1 + g t else length (aitem_cw (item_of a)) + g (b :: t).
Proof. unfold g. rewrite greedy_cons2. destruct (is_digit a && is_digit b); rewrite cost_cons; reflexivity. Qed.
Lemma g_one a : g [a] = length (aitem_cw (item_of a)).
Proof. unfold g. cbn [greedy]. rewrite cost_cons. unfold cost. cbn. lia. Qed.

Lemma digit_small a : is_digit a = true -> (a <=? 127)%N = true.
Proof. unfold is_digit. rewrite andb_true_iff, !N.leb_le. intros [_ H]. lia. Qed.

(* dropping the first character never makes the greedy encodation longer, and a leading one-codeword character costs
   at most one codeword more than the rest *)
Lemma g_mono_step : forall n t, length t <= n ->
  (forall b, g t <= g (b :: t)) /\ (forall c, (c <=? 127)%N = true -> g (c :: t) <= 1 + g t).
Proof.
  induction n as [|n IH]; intros t Hn.
  - destruct t; [|cbn in Hn; lia]. split; [intros b; unfold g; cbn; lia|intros c Hc; rewrite g_one, item_of_cost, Hc; unfold g; cbn; lia].
  - destruct t as [|x t']; [split; [intros b; unfold g; cbn; lia|intros c Hc; rewrite g_one, item_of_cost, Hc; unfold g; cbn; lia]|].
    cbn [length] in Hn. destruct (IH t' ltac:(lia)) as [M1 S1]. split.
    + intros b. rewrite (g_cons2 b x t'). destruct (is_digit b && is_digit x) eqn:DG.
      * apply andb_true_iff in DG. destruct DG as [_ Dx]. pose proof (S1 x (digit_small x Dx)). lia.
      * pose proof (item_cost_pos (item_of b)). lia.
    + intros c Hc. rewrite (g_cons2 c x t'). destruct (is_digit c && is_digit x).
      * pose proof (M1 x). lia.
      * rewrite item_of_cost, Hc. lia.
Qed.
Lemma g_mono b t : g t <= g (b :: t).
Proof. apply (proj1 (g_mono_step (length t) t (le_n _))). Qed.
Lemma g_step c t : (c <=? 127)%N = true -> g (c :: t) <= 1 + g t.
Proof. apply (proj2 (g_mono_step (length t) t (le_n _))). Qed.

(* greedy is optimal among all legal item sequences for the same bytes *)
Theorem greedy_optimal items : forallb aitem_ok items = true -> g (flat_map aitem_data items) <= cost items.
Proof.
  induction items as [|i r IH]; intros OK; [unfold g, cost; cbn; lia|].
  cbn [forallb] in OK. apply andb_true_iff in OK. destruct OK as [Oi Or]. specialize (IH Or).
  rewrite cost_cons. cbn [flat_map]. destruct i as [b|d1 d2|b]; cbn [aitem_ok aitem_data aitem_cw app length] in *.
  - apply N.ltb_lt in Oi. pose proof (g_step b (flat_map aitem_data r) ltac:(apply N.leb_le; lia)). lia.
  - unfold is_dig in Oi. rewrite (g_cons2 d1 d2). unfold is_digit. rewrite Oi. lia.
  - rewrite andb_true_iff, N.leb_le, N.ltb_lt in Oi.
    set (t := flat_map aitem_data r) in *. destruct t as [|x t'] eqn:ET.
    + rewrite g_one, item_of_cost. destruct (N.leb_spec b 127); [lia|]. unfold g, cost in IH. cbn in IH. lia.
    + rewrite (g_cons2 b x t'). assert (is_digit b = false) as ->.
      { unfold is_digit. apply andb_false_iff. right. apply N.leb_gt. lia. }
      cbn [andb]. rewrite item_of_cost. destruct (N.leb_spec b 127); lia.
Qed.

(* C10 for the ASCII-only configuration *)
Theorem ascii_only_minimal sorter data symbols cw s : wf symbols ->
  (forall k l l', sorter symbols k l = Ok l' -> incl l' l) -> bytes_ok data = true ->
  encode_data_internal (optimize_fn sorter) data symbols None 1 false false = Ok (cw, s) ->
  forall items, forallb aitem_ok items = true -> flat_map aitem_data items = data ->
  forall s', In s' symbols -> (N.of_nat (cost items) <= num_data_codewords s')%N -> s' = s \/ ss_ltP s s'.
Proof.
  intros W HS OK H items IO ID s' Hin Hfit.
  pose proof (ascii_only_first_fit sorter data symbols cw s HS H) as FF.
  apply (first_fit_spec symbols _ s W) in FF. destruct FF as (_ & _ & MIN).
  apply MIN; [exact Hin|]. pose proof (greedy_optimal items IO) as GO. rewrite ID in GO. unfold g, cost in *. lia.
Qed.

(* C13 for the ASCII-only configuration: no codeword of the data part of the stream is a latch *)
Local Open Scope N_scope.
Lemma ascii_items_no_latch items : forallb aitem_ok items = true ->
  Forall (fun c => ~ In c [230; 231; 238; 239; 240]) (flat_map aitem_cw items).
Proof.
  induction items as [|i r IH]; intros OK; [constructor|]. cbn [forallb] in OK. apply andb_true_iff in OK. destruct OK as [Oi Or].
  cbn [flat_map]. apply Forall_app. split; [|apply IH; exact Or].
  destruct i as [b|d1 d2|b]; cbn [aitem_ok aitem_cw] in *.
  - apply N.ltb_lt in Oi. constructor; [|constructor]. cbn [In]. lia.
  - unfold is_dig in Oi. rewrite !andb_true_iff, !N.leb_le in Oi. constructor; [|constructor]. cbn [In]. lia.
  - rewrite andb_true_iff, N.leb_le, N.ltb_lt in Oi. constructor; [cbn [In]; lia|]. constructor; [|constructor]. cbn [In]. lia.
Qed.

Theorem ascii_only_no_latch sorter data symbols cw s :
  (forall k l l', sorter symbols k l = Ok l' -> incl l' l) -> bytes_ok data = true ->
  encode_data_internal (optimize_fn sorter) data symbols None 1 false false = Ok (cw, s) ->
  exists stream_part npad, cw = stream_part ++ pad (N.of_nat (length stream_part)) npad /\
    Forall (fun c => ~ In c [230; 231; 238; 239; 240]) stream_part.
Proof.
  intros HS OK H. destruct (ascii_only_roundtrip sorter data symbols cw s HS OK H) as [(npad & SO & CW) _].
  exists (flat_map aitem_cw (greedy data)), npad. split.
  - rewrite CW. unfold stream. cbn [render segment_cw]. cbv zeta. rewrite app_nil_r. reflexivity.
  - apply ascii_items_no_latch. apply (greedy_ok data OK).
Qed.
