(* Proofs/EncLatch.v -- property C13, encoder side: the only source of a latch codeword is
   maybe_switch_mode, which takes it from a non-ASCII mode of the plan. *)
From Coq Require Import Arith NArith List Bool Lia.
From DM Require Import Generated.Symbols Generated.ModeTables Model.Outcome Model.SymbolList Model.Planner Model.Enc.
Import ListNotations.
Local Open Scope N_scope.

Lemma maybe_switch_mode_latch e b e' : maybe_switch_mode e = Ok (b, e') ->
  incl (e_planned e') (e_planned e) /\ e_cw e' = e_cw e /\ e_data e' = e_data e /\ e_modes e' = e_modes e /\
  (e_new_mode e' = e_new_mode e \/
   exists p m l, In (p, m) (e_planned e) /\ et_latch_from_ascii m = Some l /\ e_new_mode e' = Some l /\ e_encodation e' = m).
Proof.
  unfold maybe_switch_mode. destruct (e_planned e) as [|[p0 m0] rest] eqn:EP; [discriminate|].
  destruct (negb (p0 <=? chars_left e)); [discriminate|].
  destruct ((0 <? chars_left e) && (chars_left e =? p0)).
  - destruct (negb (et_eqb m0 (e_encodation e))).
    + destruct (et_latch_from_ascii m0) as [l|] eqn:EL; intros H; inversion H; subst; cbn.
      * split; [now apply incl_tl|]. split; [reflexivity|]. split; [reflexivity|]. split; [reflexivity|].
        right. exists p0, m0, l. repeat split; auto; now left.
      * split; [now apply incl_tl|]. split; [reflexivity|]. split; [reflexivity|]. split; [reflexivity|]. now left.
    + intros H; inversion H; subst; cbn. split; [now apply incl_tl|]. split; [reflexivity|]. split; [reflexivity|]. split; [reflexivity|]. now left.
  - rewrite (proj2 (N.eqb_eq _ _) eq_refl : et_eqb (e_encodation e) (e_encodation e) = true). cbn [negb].
    intros H; inversion H; subst; cbn. split; [apply incl_refl|]. split; [reflexivity|]. split; [reflexivity|]. split; [reflexivity|]. now left.
Qed.

Lemma set_ascii_until_end_latch e : e_new_mode (set_ascii_until_end e) = e_new_mode e /\
  e_planned (set_ascii_until_end e) = [(0, Ascii)] /\ e_encodation (set_ascii_until_end e) = Ascii.
Proof. repeat split. Qed.

(* a latch codeword of the generated table belongs to exactly one non-ASCII mode *)
Lemma latch_values : map et_latch_from_ascii [Ascii; C40; Text; X12; Edifact; Base256] =
  [None; Some 230; Some 239; Some 238; Some 240; Some 231].
Proof. reflexivity. Qed.
