(* Proofs/EncAllTotal.v -- property C11, the whole statement: for every byte string, symbol list, mode set (all 64), macro / FNC1
   option and ECI number up to 999999 the encoder returns a value or one of its two errors -- it never panics, trips an assertion,
   overflows, indexes out of range or exhausts a loop bound of the model.  Proofs/EncABXETotal.v with C40 and Text among the modes:
   like EDIFACT their encoder reads one character at a time and needs nothing from the planner beyond the shape of the plan (the
   at most two pending values, the six-value buffer, the two-digit look-ahead with its backup(), the end-of-data cases a-d and the
   padded flush are self-consistent); the input has to consist of bytes (the C40 value table is indexed by ch or ch - 128). *)
From Coq Require Import Arith NArith List Bool Lia.
From DM Require Import Generated.Symbols Generated.ModeTables Model.Outcome Model.SymbolList Model.Planner Model.PlannerRun Model.Eci Model.Enc
  Model.Dec Model.Api Spec.Stream16022 Proofs.SymbolListProofs Proofs.EncLocal Proofs.EncTop Proofs.EncAscii
  Proofs.EncB256 Proofs.DecStream Proofs.PlanShape Proofs.PlanTotal Proofs.PlanAlign Proofs.EncAB Proofs.EncABTotal Proofs.EncABXTotal Proofs.EncABXETotal Model.RSEnc Proofs.RSEncLen.
Import ListNotations.
Local Open Scope N_scope.

Definition m6_mode (m : EncodationType) : Prop := m = Ascii \/ m = Base256 \/ m = X12 \/ m = Edifact \/ m = C40 \/ m = Text.
Definition m6_plan (p : list (N * EncodationType)) : Prop := Forall (fun e => m6_mode (snd e)) p.

Section T.
Variable data : list N.
Hypothesis BY : bytes_ok data = true.

(* an X12 run is about to start / continues at a triple boundary: what is left of it *)
Definition XB6 (e : enc) : Prop :=
  let L := (length (e_data e) - N.to_nat (first_pos e))%nat in
  (0 < first_pos e -> (L mod 3 = 0)%nat /\ natives (firstn L (e_data e))) /\
  (first_pos e = 0 -> natives (firstn (3 * (L / 3)) (e_data e))).

Definition next_ok6 (e' : enc) : Prop :=
  e_data e' <> [] /\ PL data e' /\ CM e' /\ m6_plan (e_planned e') /\ first_pos e' < chars_left e' /\
  ((e_encodation e' = Base256 /\ e_new_mode e' = Some 231 /\ RB e') \/ (e_encodation e' = X12 /\ e_new_mode e' = Some 238 /\ XB6 e') \/
   (e_encodation e' = Edifact /\ e_new_mode e' = Some 240) \/ (e_encodation e' = C40 /\ e_new_mode e' = Some 230) \/ (e_encodation e' = Text /\ e_new_mode e' = Some 239)).

Definition post_ascii_x6 (e e' : enc) : Prop :=
  (length (e_data e') <= length (e_data e))%nat /\ e_symbols e' = e_symbols e /\
  ((e_data e' = [] /\ e_encodation e' = Ascii) \/ (0 < first_pos e /\ next_ok6 e')).

(* what a planned switch out of another mode hands over *)
Lemma moved_next6 e e1 p0 m0 p1 m1 rest : e_planned e1 = (p1, m1) :: rest -> chars_left e1 = p0 -> 0 < p0 ->
  run_ok data p0 m0 p1 -> (m0 = m1 -> p1 = 0) -> e_encodation e1 = m0 -> PL data e1 -> m6_plan (e_planned e1) -> e_data e1 <> [] ->
  e_new_mode e1 = match et_latch_from_ascii m0 with Some l => Some l | None => e_new_mode e end ->
  (m0 = Base256 \/ m0 = X12 \/ m0 = Edifact \/ m0 = C40 \/ m0 = Text) -> next_ok6 e1.
Proof.
  intros EP1 CL POS (R1 & R2 & R3 & R4 & R5) A01 EM PL1 AB1 ND NM1 MM.
  assert (first_pos e1 = p1) as FP by (unfold first_pos; rewrite EP1; reflexivity).
  split; [exact ND|]. split; [exact PL1|]. split; [unfold CM; rewrite FP, EP1, EM; cbn [hd snd]; intros EQ; apply A01; symmetry; exact EQ|]. split; [exact AB1|].
  split; [rewrite FP, CL; exact R1|]. destruct MM as [-> |[-> |[-> |[-> | ->]]]].
  - left. split; [exact EM|]. split; [rewrite NM1; reflexivity|]. unfold RB. rewrite FP, CL. destruct (R4 eq_refl) as [B1 B2]. split; [exact R1|split; [exact B1|exact B2]].
  - right. left. split; [exact EM|]. split; [rewrite NM1; reflexivity|]. unfold XB6. rewrite FP. cbv zeta. destruct (R5 eq_refl) as [X1 X2]. unfold x12_run in *. cbv zeta in X1, X2.
    destruct PL1 as (HD & _). unfold chars_left in CL. assert (length (e_data e1) = N.to_nat p0) as LD by lia. rewrite LD. rewrite HD. unfold chars_left. rewrite LD, N2Nat.id.
    split; [exact X1|exact X2].
  - right. right. left. split; [exact EM|]. rewrite NM1. reflexivity.
  - right. right. right. left. split; [exact EM|]. rewrite NM1. reflexivity.
  - right. right. right. right. split; [exact EM|]. rewrite NM1. reflexivity.
Qed.

Lemma ascii_total_x6 : forall fuel e, (length (e_data e) < fuel)%nat -> e_encodation e = Ascii -> m6_plan (e_planned e) -> PL data e -> AL e ->
  exists e', ascii_encode fuel e = Ok e' /\ post_ascii_x6 e e'.
Proof.
  induction fuel as [|f IH]; intros e HF EA AB HPL HAL; [lia|]. cbn [ascii_encode].
  destruct (msm_total data e HPL) as (sw & e1 & MS & (D1 & C1 & I1 & M1 & S1) & CASE). rewrite MS. cbn [bind].
  assert (forall e1, e_data e1 = e_data e -> e_symbols e1 = e_symbols e -> e_encodation e1 = Ascii -> m6_plan (e_planned e1) -> PL data e1 -> AL e1 ->
            (chars_left e1 = 0 \/ chars_left e1 <> first_pos e1) -> (0 < first_pos e1 -> 0 < first_pos e) ->
          exists e', (match e_data e1 with
                      | a :: b :: t =>
                        if is_digit a && is_digit b then ascii_encode f (push (set_data e1 t) ((a - 48) * 10 + (b - 48) + 130))
                        else if a <=? 127 then ascii_encode f (push (set_data e1 (b :: t)) (a + 1))
                        else ascii_encode f (push (push (set_data e1 (b :: t)) ascii_UPPER_SHIFT) (a - 128 + 1))
                      | [a] =>
                        if a <=? 127 then ascii_encode f (push (set_data e1 []) (a + 1))
                        else ascii_encode f (push (push (set_data e1 []) ascii_UPPER_SHIFT) (a - 128 + 1))
                      | [] => Ok e1
                      end) = Ok e' /\ post_ascii_x6 e e') as ITEM.
  { clear e1 MS D1 C1 I1 M1 S1 CASE. intros e1 D1 S1 EA1 AB1 PL1 AL1 NS FPM. unfold AL in AL1. unfold chars_left in NS.
    assert (forall d cwv, (exists pre, e_data e1 = pre ++ d /\ pre <> []) -> aligned d (N.to_nat (first_pos e1)) ->
              exists e', ascii_encode f (set_cw (set_data e1 d) cwv) = Ok e' /\ post_ascii_x6 e e') as REC.
    { intros d cwv (pre & ED & NP) ALd.
      assert (length d < length (e_data e))%nat as LT by (rewrite <- D1, ED, app_length; destruct pre; [contradiction|cbn [length]; lia]).
      destruct (IH (set_cw (set_data e1 d) cwv)) as (e' & E' & (P1 & P2 & P3)).
      - cbn [e_data set_cw set_data]. lia.
      - exact EA1.
      - exact AB1.
      - apply PL_consume; [exact PL1|]. exists pre. split; [exact ED|]. exact (aligned_le _ _ ALd).
      - exact ALd.
      - exists e'. split; [exact E'|]. cbn [e_data e_symbols set_cw set_data] in P1, P2. split; [lia|]. split; [congruence|].
        destruct P3 as [P3|[P3 P4]]; [left; exact P3|right; split; [apply FPM; exact P3|exact P4]]. }
    destruct (e_data e1) as [|a [|b t]] eqn:ED1.
    - exists e1. split; [reflexivity|]. split; [rewrite ED1; cbn [length]; lia|]. split; [exact S1|]. left. split; [exact ED1|exact EA1].
    - assert (aligned [] (N.to_nat (first_pos e1))) as AN.
      { inversion AL1 as [d Hd|? ? ? ? ? ?|a0 t0 p0 C0 A0]; subst; [cbn [length] in *; destruct NS as [NS|NS]; [discriminate|exfalso; apply NS; lia]|exact A0]. }
      destruct (a <=? 127).
      + exact (REC [] (e_cw e1 ++ [a + 1]) ltac:(exists [a]; split; [reflexivity|discriminate]) AN).
      + exact (REC [] ((e_cw e1 ++ [ascii_UPPER_SHIFT]) ++ [a - 128 + 1]) ltac:(exists [a]; split; [reflexivity|discriminate]) AN).
    - destruct (is_digit a && is_digit b) eqn:DG.
      + assert (aligned t (N.to_nat (first_pos e1))) as AN.
        { inversion AL1 as [d Hd|a0 b0 t0 p0 C0 A0|a0 t0 p0 C0 A0]; subst; [cbn [length] in *; destruct NS as [NS|NS]; [discriminate|exfalso; apply NS; lia]|exact A0|].
          rewrite DG in C0. discriminate. }
        exact (REC t (e_cw e1 ++ [(a - 48) * 10 + (b - 48) + 130]) ltac:(exists [a; b]; split; [reflexivity|discriminate]) AN).
      + assert (aligned (b :: t) (N.to_nat (first_pos e1))) as AN.
        { inversion AL1 as [d Hd|a0 b0 t0 p0 C0 A0|a0 t0 p0 C0 A0]; subst; [cbn [length] in *; destruct NS as [NS|NS]; [discriminate|exfalso; apply NS; lia]| |exact A0].
          rewrite DG in C0. discriminate. }
        destruct (a <=? 127).
        * exact (REC (b :: t) (e_cw e1 ++ [a + 1]) ltac:(exists [a]; split; [reflexivity|discriminate]) AN).
        * exact (REC (b :: t) ((e_cw e1 ++ [ascii_UPPER_SHIFT]) ++ [a - 128 + 1]) ltac:(exists [a]; split; [reflexivity|discriminate]) AN). }
  destruct CASE as [(-> & (EN1 & NM1 & EP1 & NS))|((p0 & m0 & p1 & m1 & rest & EP & EP1 & CL & POS & R01 & A01 & EM & SWC) & PL1)].
  - apply (ITEM e1 D1 S1); [rewrite EN1; exact EA|rewrite EP1; exact AB| | | |].
    + destruct HPL as (HD & HL & HP). split; [rewrite D1; unfold chars_left; rewrite D1; exact HD|]. split; [rewrite D1; exact HL|]. rewrite EP1. unfold chars_left. rewrite D1. exact HP.
    + unfold AL, first_pos. rewrite D1, EP1. exact HAL.
    + unfold chars_left, first_pos. rewrite D1, EP1. exact NS.
    + unfold first_pos. rewrite EP1. tauto.
  - assert (m6_plan (e_planned e1)) as AB1 by (rewrite EP in AB; rewrite EP1; inversion AB; assumption).
    assert (m6_mode m0) as ABM by (rewrite EP in AB; inversion AB; assumption).
    assert (0 < first_pos e) as FP0 by (unfold first_pos; rewrite EP; cbn [hd fst]; exact POS).
    destruct SWC as [(-> & EQ & NM1)|(-> & NE & NM1)].
    + destruct R01 as (R1 & R2 & R3 & R4 & R5).
      apply (ITEM e1 D1 S1); [rewrite EM, EQ; exact EA|exact AB1|exact PL1| | |intros _; exact FP0].
      * unfold AL, first_pos. rewrite EP1. cbn [hd fst]. rewrite D1. destruct HPL as (HD & _). rewrite HD, CL. apply R3. rewrite EQ. exact EA.
      * right. unfold chars_left, first_pos. rewrite D1, EP1. cbn [hd fst]. unfold chars_left in CL. rewrite CL. lia.
    + assert (m0 = Base256 \/ m0 = X12 \/ m0 = Edifact \/ m0 = C40 \/ m0 = Text) as MM by (destruct ABM as [A|[B|X]]; [exfalso; apply NE; rewrite A; symmetry; exact EA|left; exact B|right; exact X]).
      exists e1. split; [reflexivity|]. split; [rewrite D1; lia|]. split; [exact S1|]. right. split; [exact FP0|].
      apply (moved_next6 e e1 p0 m0 p1 m1 rest EP1); try assumption.
      * unfold chars_left. rewrite D1. exact CL.
      * rewrite D1. unfold chars_left in CL. destruct (e_data e); [cbn in CL; lia|discriminate].
Qed.

Lemma PL_set_cw6 e c : PL data e -> PL data (set_cw e c).
Proof. intros (A & B & C). split; [exact A|]. split; [exact B|exact C]. Qed.
Lemma next_ok_set_cw6 e c : next_ok6 e -> next_ok6 (set_cw e c).
Proof.
  intros (N1 & N2 & N3 & N4 & N5 & N6). split; [exact N1|]. split; [apply PL_set_cw6; exact N2|]. split; [exact N3|]. split; [exact N4|]. split; [exact N5|exact N6].
Qed.

(* ---- a Base256 run, with X12 among the possible next modes ---- *)
Definition BIx6 (pre : list N) (e : enc) : Prop :=
  e_encodation e = Base256 /\ m6_plan (e_planned e) /\ PL data e /\ CM e /\ first_pos e < chars_left e /\
  exists run, e_cw e = pre ++ 0 :: run /\
    chars_left e + N.of_nat (length run) - first_pos e <= 1556 /\
    (0 < first_pos e -> chars_left e + N.of_nat (length run) - first_pos e <= 1555).

Definition post_b256_x6 (pre : list N) (e e' : enc) : Prop :=
  e_symbols e' = e_symbols e /\ (length (e_data e') < length (e_data e))%nat /\ (length pre + 2 <= length (e_cw e'))%nat /\
  ((e_data e' = [] /\ e_encodation e' = Ascii) \/
   (e_data e' <> [] /\ e_encodation e' = Ascii /\ e_new_mode e' = e_new_mode e /\ PL data e' /\ AL e' /\ m6_plan (e_planned e')) \/
   (e_encodation e' <> Ascii /\ next_ok6 e')).

Lemma b256_total_x6 pre : (1 <= length pre)%nat -> forall fuel e, (length (e_data e) < fuel)%nat -> BIx6 pre e ->
  match b256_loop fuel e (length pre) with
  | Panic _ => False
  | Err _ => True
  | Ok e' => post_b256_x6 pre e e'
  end.
Proof.
  intros LP. induction fuel as [|f IH]; intros e HF (EB & AB & HPL & HCM & LT & run & EC & B1 & B2); [lia|]. cbn [b256_loop].
  destruct (e_data e) as [|ch t] eqn:ED; [unfold chars_left in LT; rewrite ED in LT; cbn [length] in LT; lia|]. unfold eat. rewrite ED.
  set (e1 := push (set_data e t) ch).
  assert (e_cw e1 = pre ++ 0 :: (run ++ [ch])) as EC1 by (unfold e1; cbn [e_cw push set_cw set_data]; rewrite EC, <- app_assoc; reflexivity).
  assert (run ++ [ch] <> []) as NR by (destruct run; discriminate).
  assert (chars_left e = N.of_nat (length t) + 1) as CLE by (unfold chars_left; rewrite ED; cbn [length]; lia).
  assert (PL data e1) as PL1.
  { apply PL_consume; [exact HPL|]. exists [ch]. split; [rewrite ED; reflexivity|]. lia. }
  assert (first_pos e1 = first_pos e /\ chars_left e1 = N.of_nat (length t) /\ e_planned e1 = e_planned e /\ e_encodation e1 = Base256 /\ e_symbols e1 = e_symbols e /\ e_new_mode e1 = e_new_mode e /\ e_data e1 = t) as (FP1 & CL1 & EP1 & EB1 & ES1 & NM1 & ED1)
    by (unfold first_pos, chars_left, e1; cbn [e_planned e_data e_encodation e_symbols e_new_mode push set_cw set_data]; repeat split; exact EB).
  assert (N.of_nat (length (run ++ [ch])) = N.of_nat (length run) + 1) as LR by (rewrite app_length; cbn [length]; lia).
  assert (forall e2, e_cw e2 = e_cw e1 -> e_data e2 = t -> e_symbols e2 = e_symbols e ->
            (N.of_nat (length (run ++ [ch])) <= 1555 \/ (N.of_nat (length (run ++ [ch])) = 1556 /\ has_more e2 = false)) ->
            (e_data e2 = [] \/ (e_encodation e2 = Ascii /\ e_new_mode e2 = e_new_mode e /\ PL data e2 /\ AL e2 /\ m6_plan (e_planned e2)) \/ (e_encodation e2 <> Ascii /\ next_ok6 e2)) ->
            match (let* e3 := b256_write_length e2 (length pre) in Ok (if negb (has_more e3) then set_ascii_until_end e3 else e3)) with
            | Panic _ => False | Err _ => True | Ok e' => post_b256_x6 pre e e' end) as FIN.
  { intros e2 C2 D2 S2 BD REST. pose proof (wl_total data e2 pre (run ++ [ch]) ltac:(rewrite C2; exact EC1) NR LP BD) as NP.
    destruct (b256_write_length e2 (length pre)) as [e3| |] eqn:WL; cbn [bind]; [|exact I|contradiction].
    destruct (wl_result data e2 pre (run ++ [ch]) e3 ltac:(rewrite C2; exact EC1) NR WL) as [E3 L3].
    assert (e_data e3 = t /\ e_symbols e3 = e_symbols e) as [D3 S3] by (rewrite E3; cbn [e_data e_symbols set_cw]; split; assumption).
    unfold post_b256_x6. destruct (has_more e3) eqn:HM3; cbn [negb].
    - assert (t <> []) as NT by (unfold has_more in HM3; rewrite D3 in HM3; destruct t; [discriminate|discriminate]).
      split; [exact S3|]. split; [rewrite D3, ED; cbn [length]; lia|]. split; [exact L3|].
      destruct REST as [RE|[(R1 & R2 & R3 & R4 & R5)|(R1 & R2)]]; [rewrite D2 in RE; contradiction| |].
      + right. left. split; [rewrite D3; exact NT|]. rewrite E3. cbn [e_encodation e_new_mode e_planned set_cw]. split; [exact R1|]. split; [exact R2|].
        split; [apply PL_set_cw6; exact R3|]. split; [exact R4|exact R5].
      + right. right. rewrite E3. split; [exact R1|apply next_ok_set_cw6; exact R2].
    - cbn [e_symbols e_data e_cw e_encodation set_ascii_until_end]. split; [exact S3|]. split; [rewrite D3, ED; cbn [length]; lia|]. split; [exact L3|].
      left. split; [|reflexivity]. unfold has_more in HM3. destruct (e_data e3); [reflexivity|discriminate]. }
  destruct t as [|c2 t2] eqn:ET.
  - unfold has_more at 1. cbn [e_data e1 push set_cw set_data negb].
    apply (FIN e1 eq_refl ED1 ES1); [|left; exact ED1].
    assert (first_pos e = 0) as FZ by (cbn [length] in CLE; lia). rewrite FZ in B1. rewrite LR.
    destruct (N.le_gt_cases (N.of_nat (length run) + 1) 1555); [left; lia|]. right. split; [lia|]. unfold has_more. rewrite ED1. reflexivity.
  - unfold has_more at 1. cbn [e_data e1 push set_cw set_data negb]. fold e1.
    destruct (msm_total data e1 PL1) as (sw & e2 & MS & (D2 & C2 & I2 & M2 & S2) & CASE). rewrite MS. cbn [bind].
    destruct CASE as [(-> & (EN2 & NM2 & EP2 & NS))|((p0 & m0 & p1 & m1 & rest & EP & EP2 & CL & POS & R01 & A01 & EM & SWC) & PL2)].
    + assert (match b256_loop f e2 (length pre) with Panic _ => False | Err _ => True | Ok e' => post_b256_x6 pre e2 e' end) as R.
      2:{ destruct (b256_loop f e2 (length pre)) as [e'| |]; [|exact I|contradiction]. destruct R as (Q1 & Q2 & Q3 & Q5).
          split; [rewrite Q1, S2; exact ES1|]. split; [rewrite D2, ED1 in Q2; rewrite ED; cbn [length] in *; lia|]. split; [exact Q3|].
          destruct Q5 as [Q5|[(Q5 & Q6 & Q7 & Q8)|Q5]]; [left; exact Q5|right; left; split; [exact Q5|split; [exact Q6|split; [rewrite Q7, NM2; exact NM1|exact Q8]]]|right; right; exact Q5]. }
      apply IH.
      * rewrite D2, ED1. cbn [length] in *. lia.
      * split; [rewrite EN2; exact EB1|]. split; [rewrite EP2, EP1; exact AB|].
        assert (PL data e2) as PLs.
        { destruct PL1 as (X1 & X2 & X3). unfold PL, chars_left. rewrite D2, EP2. split; [exact X1|]. split; [exact X2|exact X3]. }
        split; [exact PLs|]. split; [unfold CM, first_pos; rewrite EP2, EP1, EN2, EB1; rewrite <- EB; exact HCM|].
        assert (first_pos e2 = first_pos e /\ chars_left e2 = N.of_nat (length (c2 :: t2))) as [FP2 CL2] by (unfold first_pos, chars_left; rewrite EP2, EP1, D2, ED1; split; reflexivity).
        split; [rewrite FP2, CL2; unfold chars_left, first_pos in NS; rewrite ED1, EP1 in NS; destruct NS as [NS|NS]; [cbn [length] in NS; lia|];
                destruct PL1 as (_ & _ & X3); rewrite EP1 in X3; unfold first_pos; destruct (e_planned e) as [|[q mq] rq]; [contradiction|]; cbn [hd fst] in *;
                destruct X3 as (X3 & _); unfold chars_left in X3; rewrite ED1 in X3; lia|].
        exists (run ++ [ch]). split; [rewrite C2; exact EC1|]. rewrite FP2, CL2, LR. cbn [length] in *. split; [lia|intros P; specialize (B2 P); lia].
    + assert (m0 <> Base256) as NB.
      { intros ->. unfold CM, first_pos in HCM. rewrite EP1 in EP. rewrite EP in HCM. cbn [hd fst snd] in HCM. rewrite EB in HCM. specialize (HCM eq_refl). lia. }
      assert (m6_mode m0) as ABM by (rewrite EP1 in EP; rewrite EP in AB; inversion AB; assumption).
      assert (m6_plan (e_planned e2)) as AB2 by (rewrite EP2; rewrite EP1 in EP; rewrite EP in AB; inversion AB; assumption).
      destruct SWC as [(-> & EQ & _)|(-> & NE & NM2)]; [exfalso; apply NB; rewrite EQ; exact EB1|].
      apply (FIN e2 C2 D2 S2).
      * left. rewrite LR. rewrite CL1 in CL. rewrite EP1 in EP. unfold first_pos in B2. rewrite EP in B2. cbn [hd fst] in B2. specialize (B2 POS). cbn [length] in *. lia.
      * right. destruct ABM as [MA|[MB|MX]]; [|contradiction|].
        -- left. rewrite MA in *. destruct R01 as (R1 & R2 & R3 & R4 & R5). split; [exact EM|]. split; [rewrite NM2; cbn [et_latch_from_ascii]; exact NM1|]. split; [exact PL2|]. split; [|exact AB2].
           unfold AL, first_pos. rewrite EP2. cbn [hd fst]. rewrite D2. destruct PL1 as (X1 & _). rewrite X1, CL. exact (R3 eq_refl).
        -- right. split; [rewrite EM; destruct MX as [-> |[-> |[-> | ->]]]; discriminate|]. apply (moved_next6 e1 e2 p0 m0 p1 m1 rest EP2); try assumption.
           ++ unfold chars_left. rewrite D2. exact CL.
           ++ rewrite D2, ED1. discriminate.
           ++ right. exact MX.
Qed.

(* ---- an X12 run ---- *)
Lemma x12_enc_native6 ch : is_native_x12 ch = true -> exists v, x12_enc ch = Some v /\ v <= 39.
Proof.
  unfold is_native_x12, x12_enc. intros H.
  destruct (ch =? 13); [eexists; split; [reflexivity|lia]|]. destruct (ch =? 42); [eexists; split; [reflexivity|lia]|].
  destruct (ch =? 62); [eexists; split; [reflexivity|lia]|]. destruct (ch =? 32); [eexists; split; [reflexivity|lia]|]. cbn [orb] in H.
  destruct ((48 <=? ch) && (ch <=? 57)) eqn:D.
  - apply andb_true_iff in D. destruct D as [D1 D2]. apply N.leb_le in D1, D2. eexists. split; [reflexivity|lia].
  - cbn [orb] in H. rewrite H. apply andb_true_iff in H. destruct H as [D1 D2]. apply N.leb_le in D1, D2. eexists. split; [reflexivity|lia].
Qed.

Lemma wtv_ok6 e c1 c2 c3 : c1 <= 39 -> c2 <= 39 -> c3 <= 39 -> exists hi lo, write_three_values e c1 c2 c3 = Ok (push (push e hi) lo).
Proof. intros A B C. unfold write_three_values. destruct (N.leb_spec 65536 (1600 * c1 + 40 * c2 + c3 + 1)); [lia|]. do 2 eexists. reflexivity. Qed.

Lemma PL_until_end6 e : PL data e -> PL data (set_ascii_until_end e).
Proof.
  intros (A & B & C). split; [exact A|]. split; [exact B|]. cbn [e_planned set_ascii_until_end]. split; [lia|]. split; [split; exact I|reflexivity].
Qed.

Definition XL6 (e : enc) : Prop := XB6 e /\ (0 < first_pos e -> first_pos e < chars_left e).

Definition loop_post6 (e e1 : enc) (sw : bool) : Prop :=
  e_symbols e1 = e_symbols e /\ exists k, (length (e_data e) = length (e_data e1) + 3 * k)%nat /\ (length (e_cw e1) = length (e_cw e) + 2 * k)%nat /\
  ((sw = false /\ e_encodation e1 = X12 /\ e_new_mode e1 = e_new_mode e /\ PL data e1 /\ m6_plan (e_planned e1)) \/
   (sw = true /\ (1 <= k)%nat /\ e_data e1 <> [] /\ PL data e1 /\ m6_plan (e_planned e1) /\
    ((e_encodation e1 = Ascii /\ e_new_mode e1 = e_new_mode e /\ AL e1) \/ (e_encodation e1 <> Ascii /\ next_ok6 e1)))).

Lemma natives_36 a b c t L : (3 <= L)%nat -> natives (firstn L (a :: b :: c :: t)) ->
  is_native_x12 a = true /\ is_native_x12 b = true /\ is_native_x12 c = true /\ natives (firstn (L - 3) t).
Proof.
  intros H N3. destruct L as [|[|[|L']]]; try lia. unfold natives in *. cbn [firstn forallb] in N3.
  apply andb_true_iff in N3. destruct N3 as [A N3]. apply andb_true_iff in N3. destruct N3 as [B N3]. apply andb_true_iff in N3. destruct N3 as [C N3].
  replace (S (S (S L')) - 3)%nat with L' by lia. repeat split; assumption.
Qed.

Lemma x12_loop_total6 : forall fuel e, (length (e_data e) < fuel)%nat -> e_encodation e = X12 -> m6_plan (e_planned e) -> PL data e -> CM e -> XL6 e ->
  exists e1 sw, x12_loop fuel e = Ok (e1, sw) /\ loop_post6 e e1 sw.
Proof.
  induction fuel as [|f IH]; intros e HF EX AB HPL HCM (HXB & HST); [lia|]. cbn [x12_loop].
  assert (loop_post6 e e false) as SMALL.
  { split; [reflexivity|]. exists 0%nat. split; [lia|]. split; [lia|]. left. split; [reflexivity|]. split; [exact EX|]. split; [reflexivity|]. split; [exact HPL|exact AB]. }
  destruct (e_data e) as [|a [|b [|c t]]] eqn:ED; try (exists e, false; split; [reflexivity|exact SMALL]). clear SMALL.
  (* a triple *)
  assert (first_pos e <= chars_left e) as FPL.
  { destruct HPL as (_ & _ & HP). unfold first_pos. destruct (e_planned e) as [|[q mq] rq]; [contradiction|]. cbn [hd fst]. apply HP. }
  assert (chars_left e = N.of_nat (length t) + 3) as CLE by (unfold chars_left; rewrite ED; cbn [length]; lia).
  unfold XB6 in HXB. rewrite ED in HXB. cbv zeta in HXB. cbn [length] in HXB. destruct HXB as [XB1 XB2].
  set (L := (S (S (S (length t))) - N.to_nat (first_pos e))%nat) in *.
  assert ((3 <= L)%nat /\ (0 < first_pos e -> (L mod 3 = 0)%nat) /\ natives (firstn (if 0 <? first_pos e then L else (3 * (L / 3))%nat) (a :: b :: c :: t))) as (L3 & LM & NL).
  { destruct (N.ltb_spec 0 (first_pos e)) as [P|Z].
    - destruct (XB1 P) as [M N1]. specialize (HST P). split; [|split; [intros _; exact M|exact N1]].
      assert (0 < L)%nat by (unfold L; lia). pose proof (Nat.div_mod L 3 ltac:(lia)). rewrite M in H0. lia.
    - assert (first_pos e = 0) as Z0 by lia. split; [unfold L; rewrite Z0; cbn; lia|]. split; [lia|exact (XB2 Z0)]. }
  assert ((3 <= (if (0 <? first_pos e)%N then L else (3 * (L / 3))))%nat) as L3'.
  { destruct (0 <? first_pos e); [exact L3|]. pose proof (Nat.div_mod L 3 ltac:(lia)). pose proof (Nat.mod_upper_bound L 3 ltac:(lia)). lia. }
  destruct (natives_36 a b c t _ L3' NL) as (NA & NB & NC & NT).
  destruct (x12_enc_native6 a NA) as (c1 & -> & B1). destruct (x12_enc_native6 b NB) as (c2 & -> & B2). destruct (x12_enc_native6 c NC) as (c3 & -> & B3).
  destruct (wtv_ok6 (set_data e t) c1 c2 c3 B1 B2 B3) as (hi & lo & ->). cbn [bind].
  set (e1 := push (push (set_data e t) hi) lo).
  assert (PL data e1) as PL1.
  { change e1 with (set_cw (set_data e t) ((e_cw e ++ [hi]) ++ [lo])). apply PL_consume; [exact HPL|]. exists [a; b; c]. split; [rewrite ED; reflexivity|]. unfold L in L3. lia. }
  destruct (msm_total data e1 PL1) as (sw & e2 & MS & (D2 & C2 & I2 & M2 & S2) & CASE). rewrite MS. cbn [bind].
  assert (e_data e1 = t /\ e_planned e1 = e_planned e /\ e_encodation e1 = X12 /\ e_symbols e1 = e_symbols e /\ e_new_mode e1 = e_new_mode e /\
          length (e_cw e1) = (length (e_cw e) + 2)%nat) as (ED1 & EP1 & EX1 & ES1 & NM1 & CW1).
  { unfold e1. cbn [e_data e_planned e_encodation e_symbols e_new_mode e_cw push set_cw set_data]. rewrite !app_length. cbn [length]. repeat split; [exact EX|lia]. }
  destruct CASE as [(-> & (EN2 & NM2 & EP2 & NS))|((p0 & m0 & p1 & m1 & rest & EP & EP2 & CL & POS & R01 & A01 & EM & SWC) & PL2)].
  - (* no switch: next triple *)
    destruct (IH e2) as (e3 & sw3 & E3 & (Q1 & k & Q2 & Q3 & Q4)).
    + rewrite D2, ED1. cbn [length] in HF. lia.
    + rewrite EN2. exact EX1.
    + rewrite EP2, EP1. exact AB.
    + destruct PL1 as (X1 & X2 & X3). unfold PL, chars_left. rewrite D2, EP2. split; [exact X1|]. split; [exact X2|exact X3].
    + unfold CM, first_pos. rewrite EP2, EP1, EN2, EX1. rewrite <- EX. exact HCM.
    + assert (first_pos e2 = first_pos e /\ chars_left e2 = N.of_nat (length t)) as [FP2 CL2] by (unfold first_pos, chars_left; rewrite EP2, EP1, D2, ED1; split; reflexivity).
      split.
      * unfold XB6. rewrite FP2, D2, ED1. cbv zeta.
        replace (length t - N.to_nat (first_pos e))%nat with (L - 3)%nat by (unfold L; lia).
        split.
        -- intros P. split; [specialize (LM P); rewrite <- (Nat.mod_add (L - 3) 1 3) by lia; replace (L - 3 + 1 * 3)%nat with L by lia; exact LM|].
           destruct (N.ltb_spec 0 (first_pos e)); [exact NT|lia].
        -- intros Z0. destruct (N.ltb_spec 0 (first_pos e)); [lia|]. replace (3 * ((L - 3) / 3))%nat with (3 * (L / 3) - 3)%nat; [exact NT|].
           replace L with (L - 3 + 1 * 3)%nat at 1 by lia. rewrite Nat.div_add by lia. lia.
      * intros P. rewrite FP2, CL2. unfold chars_left, first_pos in NS. rewrite ED1, EP1 in NS. fold (first_pos e) in NS. unfold L in L3.
        destruct NS as [NS|NS]; lia.
    + rewrite E3. exists e3, sw3. split; [reflexivity|]. split; [rewrite Q1, S2; exact ES1|]. exists (S k). rewrite D2, ED1 in Q2. rewrite C2, CW1 in Q3. rewrite ED. cbn [length].
      split; [lia|]. split; [lia|]. rewrite NM2, NM1 in Q4. destruct Q4 as [Q4|(Q4 & Q5 & Q6)]; [left; exact Q4|right; split; [exact Q4|split; [lia|exact Q6]]].
  - (* a planned switch: by CM it leaves X12 *)
    assert (m0 <> X12) as NX.
    { intros ->. unfold CM, first_pos in HCM. rewrite EP1 in EP. rewrite EP in HCM. cbn [hd fst snd] in HCM. rewrite EX in HCM. specialize (HCM eq_refl). lia. }
    assert (m6_mode m0) as ABM by (rewrite EP1 in EP; rewrite EP in AB; inversion AB; assumption).
    assert (m6_plan (e_planned e2)) as AB2 by (rewrite EP2; rewrite EP1 in EP; rewrite EP in AB; inversion AB; assumption).
    destruct SWC as [(-> & EQ & _)|(-> & NE & NM2)]; [exfalso; apply NX; rewrite EQ; exact EX1|].
    assert (e_data e2 <> []) as ND2 by (rewrite D2; unfold chars_left in CL; destruct (e_data e1); [cbn in CL; lia|discriminate]).
    exists e2, true. split; [reflexivity|]. split; [rewrite S2; exact ES1|]. exists 1%nat. rewrite D2, ED1, C2, CW1, ED. cbn [length]. split; [lia|]. split; [lia|].
    right. split; [reflexivity|]. split; [lia|]. split; [rewrite <- ED1, <- D2; exact ND2|]. split; [exact PL2|]. split; [exact AB2|].
    assert (m0 = Ascii \/ m0 = Base256 \/ m0 = Edifact \/ m0 = C40 \/ m0 = Text) as ABM' by (destruct ABM as [A|[B|[X|E]]]; [left; exact A|right; left; exact B|contradiction|right; right; exact E]).
    clear ABM. destruct ABM' as [MA|MB].
    + left. rewrite MA in *. destruct R01 as (R1 & R2 & R3 & R4 & R5). split; [exact EM|]. split; [rewrite NM2; cbn [et_latch_from_ascii]; exact NM1|].
      unfold AL, first_pos. rewrite EP2. cbn [hd fst]. rewrite D2. destruct PL1 as (X1 & _). rewrite X1, CL. exact (R3 eq_refl).
    + right. split; [rewrite EM; destruct MB as [-> |[-> |[-> | ->]]]; discriminate|]. apply (moved_next6 e1 e2 p0 m0 p1 m1 rest EP2); try assumption.
      * unfold chars_left. rewrite D2. exact CL.
      * destruct MB as [B|E]; [left; exact B|right; right; exact E].
Qed.

Definition post_x126 (e e' : enc) : Prop :=
  e_symbols e' = e_symbols e /\ (length (e_data e') <= length (e_data e))%nat /\
  (e_data e' = [] \/
   (e_encodation e' = Ascii /\ first_pos e' = 0 /\ PL data e' /\ m6_plan (e_planned e')) \/
   ((length (e_cw e) + 2 <= length (e_cw e'))%nat /\ (length (e_data e') + 3 <= length (e_data e))%nat /\ e_data e' <> [] /\
    ((e_encodation e' = Ascii /\ e_new_mode e' = e_new_mode e /\ PL data e' /\ AL e' /\ m6_plan (e_planned e')) \/
     (e_encodation e' <> Ascii /\ next_ok6 e')))).

Lemma abx_until_end6 : m6_plan [(0, Ascii)].
Proof. constructor; [left; reflexivity|constructor]. Qed.

Lemma x12_total6 e : e_encodation e = X12 -> m6_plan (e_planned e) -> PL data e -> CM e -> XL6 e ->
  match x12_encode e with
  | Panic _ => False
  | Err _ => True
  | Ok e' => post_x126 e e'
  end.
Proof.
  intros EX AB HPL HCM HXL. unfold x12_encode.
  destruct (x12_loop_total6 (S (length (e_data e))) e ltac:(lia) EX AB HPL HCM HXL) as (e1 & sw & -> & (S1 & k & K1 & K2 & CASE)). cbn [bind].
  (* the state that is handed to ASCII until the end of the data *)
  assert (forall c, post_x126 e (set_cw (set_ascii_until_end e1) c)) as UNTIL.
  { intros c. assert (PL data e1 /\ True) as [P1 _] by (destruct CASE as [(_ & _ & _ & P & _)|(_ & _ & _ & P & _)]; split; [exact P|exact I| exact P|exact I]).
    split; [exact S1|]. split; [cbn [e_data set_cw set_ascii_until_end]; lia|]. right. left. cbn [e_encodation e_planned set_cw set_ascii_until_end]. split; [reflexivity|].
    split; [reflexivity|]. split; [apply PL_set_cw6, PL_until_end6; exact P1|exact abx_until_end6]. }
  set (one := (chars_left e1 <=? 2) && (ascii_encoding_size (e_data e1) =? 1)).
  assert (forall early : bool, match (if early then Ok (set_ascii_until_end e1)
                               else let* need := (if has_more e1 then Ok true else let* l := ssl e1 0 in Ok (0 <? l)) in
                                    if need then Ok (push (if negb sw then set_ascii_until_end e1 else e1) UNLATCH) else Ok e1) : ER enc with
                        | Panic _ => False | Err _ => True | Ok e' => post_x126 e e' end) as REST.
  { intros early. destruct early.
    - pose proof (UNTIL (e_cw e1)) as U. exact U.
    - destruct (has_more e1) eqn:HM1; cbn [bind].
      + destruct sw; cbn [negb].
        * destruct CASE as [(X & _)|(_ & K3 & ND & P1 & A1 & MODES)]; [discriminate|].
          split; [exact S1|]. split; [cbn [e_data push set_cw]; lia|]. right. right. cbn [e_data e_cw e_encodation e_new_mode e_planned push set_cw]. rewrite app_length. cbn [length].
          split; [lia|]. split; [lia|]. split; [exact ND|]. destruct MODES as [(M1 & M2 & M3)|(M1 & M2)].
          -- left. split; [exact M1|]. split; [exact M2|]. split; [apply PL_set_cw6; exact P1|]. split; [exact M3|exact A1].
          -- right. split; [exact M1|]. apply next_ok_set_cw6. exact M2.
        * exact (UNTIL (e_cw e1 ++ [UNLATCH])).
      + unfold ssl. destruct (symbol_size_left e1 0) as [l|]; cbn [bind]; [|exact I]. destruct (0 <? l).
        * destruct sw; cbn [negb]; [|exact (UNTIL (e_cw e1 ++ [UNLATCH]))].
          destruct CASE as [(X & _)|(_ & _ & ND & _)]; [discriminate|]. unfold has_more in HM1. destruct (e_data e1); [contradiction|discriminate].
        * split; [exact S1|]. split; [lia|]. left. unfold has_more in HM1. destruct (e_data e1); [reflexivity|discriminate]. }
  destruct one.
  - unfold ssl. destruct (symbol_size_left e1 1) as [l|]; cbn [bind]; [|exact I]. apply REST.
  - cbn [bind]. apply (REST false).
Qed.

(* ---- an EDIFACT run ---- *)
Definition post_edi6 (e0 e' : enc) : Prop :=
  e_symbols e' = e_symbols e0 /\ e_input e' = data /\ (length (e_data e') <= length (e_data e0))%nat /\
  (e_data e' = [] \/
   (e_encodation e' = Ascii /\ first_pos e' = 0 /\ PL data e' /\ m6_plan (e_planned e')) \/
   ((length (e_cw e0) + 2 <= length (e_cw e'))%nat /\ (length (e_data e') + 1 <= length (e_data e0))%nat /\ e_data e' <> [] /\
    ((e_encodation e' = Ascii /\ e_new_mode e' = e_new_mode e0 /\ PL data e' /\ AL e' /\ m6_plan (e_planned e')) \/
     (e_encodation e' <> Ascii /\ next_ok6 e')))).

(* what the run has in hand: e0 is the state at its start *)
Definition EJ6 (e0 e : enc) (symbols : list N) : Prop :=
  PL data e /\ e_input e = data /\ e_symbols e = e_symbols e0 /\
  (length (e_cw e0) <= length (e_cw e))%nat /\ (length symbols <= 3)%nat /\ (length (e_data e) + length symbols <= length (e_data e0))%nat /\
  (length (e_data e0) <= length data)%nat.

Lemma sfx_shift6 (e : enc) k : PL data e -> (length (e_data e) + k <= length data)%nat -> e_input e = data ->
  skipn (length (e_input e) - length (e_data e) - k) (e_input e) = PlanAlign.suffix data (N.of_nat (length (e_data e) + k)) /\
  length (PlanAlign.suffix data (N.of_nat (length (e_data e) + k))) = (length (e_data e) + k)%nat.
Proof.
  intros _ L IN. rewrite IN. unfold PlanAlign.suffix. rewrite Nat2N.id. split; [f_equal; lia|]. rewrite skipn_length. lia.
Qed.

(* the end-of-data rule: either nothing happens, or the pending characters are handed back and ASCII takes over until the end *)
Lemma eaeod_total6 e0 e symbols : EJ6 e0 e symbols ->
  (edi_ascii_end_of_data e symbols = Ok (false, e)) \/
  (exists e', edi_ascii_end_of_data e symbols = Ok (true, e') /\ (e_symbols e' = e_symbols e0 /\ e_input e' = data) /\ (length (e_data e') <= length (e_data e0))%nat /\
     e_encodation e' = Ascii /\ first_pos e' = 0 /\ PL data e' /\ m6_plan (e_planned e')).
Proof.
  intros (HPL & IN & SY & CW & LS & LD & LN). unfold edi_ascii_end_of_data.
  destruct (_ <=? 4); [|left; reflexivity]. destruct (_ <=? 2); [|left; reflexivity].
  destruct (symbol_size_left e _) as [x|]; [|left; reflexivity]. destruct (_ && _); [|left; reflexivity].
  right. unfold backup. destruct (sfx_shift6 e (length symbols) HPL ltac:(lia) IN) as [SH LSH].
  assert (length (e_input e) = length data) as LI by (rewrite IN; reflexivity).
  destruct (Nat.ltb_spec (length (e_input e)) (length (e_data e))); [lia|]. destruct (Nat.ltb_spec (length (e_input e) - length (e_data e)) (length symbols)); [lia|].
  cbn [orb bind]. eexists. split; [reflexivity|]. cbn [e_symbols e_input e_data e_encodation e_planned set_ascii_until_end set_data]. rewrite SH.
  split; [split; [exact SY|exact IN]|]. split; [rewrite LSH; lia|]. split; [reflexivity|]. split; [reflexivity|]. split; [|constructor; [left; reflexivity|constructor]].
  unfold PL, chars_left. cbn [e_data e_planned set_ascii_until_end set_data]. rewrite LSH. split; [reflexivity|]. split; [lia|]. split; [lia|]. split; [split; exact I|reflexivity].
Qed.

Lemma write4_ok6 e s : s <> [] -> exists e', write4 e s = Ok e' /\ e_data e' = e_data e /\ e_symbols e' = e_symbols e /\ e_input e' = e_input e /\ e_planned e' = e_planned e /\
  e_encodation e' = e_encodation e /\ e_new_mode e' = e_new_mode e /\ (length (e_cw e) + 1 <= length (e_cw e'))%nat /\ ((2 <= length s)%nat -> (length (e_cw e) + 2 <= length (e_cw e'))%nat).
Proof.
  intros NE. unfold write4. destruct s as [|s0 r]; [contradiction|].
  destruct (Nat.leb_spec 2 (length (s0 :: r))) as [L2|L2]; [destruct (3 <=? length (s0 :: r))%nat|]; eexists; (split; [reflexivity|]);
    cbn [e_data e_symbols e_input e_planned e_encodation e_new_mode e_cw push set_cw]; rewrite ?app_length; cbn [length] in *;
    (split; [reflexivity|]); (split; [reflexivity|]); (split; [reflexivity|]); (split; [reflexivity|]); (split; [reflexivity|]); (split; [reflexivity|]); (split; [lia|]); intros H; lia.
Qed.

Lemma PL_same6 e e' : e_data e' = e_data e -> e_planned e' = e_planned e -> PL data e -> PL data e'.
Proof. intros D P (A & B & C). unfold PL, chars_left. rewrite D, P. split; [exact A|]. split; [exact B|exact C]. Qed.
Lemma next_ok6_same e e' : e_data e' = e_data e -> e_planned e' = e_planned e -> e_encodation e' = e_encodation e -> e_new_mode e' = e_new_mode e ->
  next_ok6 e -> next_ok6 e'.
Proof.
  intros D P M NM (N1 & N2 & N3 & N4 & N5 & N6). unfold next_ok6, CM, RB, XB6, first_pos, chars_left in *. rewrite D, P, M, NM.
  split; [exact N1|]. split; [apply (PL_same6 e); assumption|]. split; [exact N3|]. split; [exact N4|]. split; [exact N5|exact N6].
Qed.

Definition NXT6 (e0 e : enc) : Prop :=
  (e_encodation e = Ascii /\ e_new_mode e = e_new_mode e0 /\ AL e /\ m6_plan (e_planned e)) \/ (e_encodation e <> Ascii /\ next_ok6 e).

(* the run ends because the data ends *)
Lemma edi_end_data6 e0 e symbols : EJ6 e0 e symbols -> e_data e = [] ->
  match edi_handle_end e symbols with Panic _ => False | Err _ => True | Ok e' => post_edi6 e0 e' end.
Proof.
  intros HJ ED. pose proof HJ as (HPL & IN & SY & CW & LS & LD & LN). unfold edi_handle_end.
  assert (forall e', e_symbols e' = e_symbols e -> e_input e' = e_input e -> e_data e' = [] -> post_edi6 e0 e') as R1.
  { intros e' S' I' D'. split; [rewrite S'; exact SY|]. split; [rewrite I'; exact IN|]. split; [rewrite D'; cbn [length]; lia|]. left. exact D'. }
  assert (has_more e = false) as HM by (unfold has_more; rewrite ED; reflexivity).
  destruct symbols as [|s0 sr].
  - (* nothing pending: the rule is evaluated on an empty rest *)
    unfold edi_ascii_end_of_data. unfold chars_left. rewrite ED. cbn [length app N.of_nat N.add N.leb N.compare ascii_encoding_size]. cbv iota.
    unfold ssl. destruct (symbol_size_left e 0) as [x|] eqn:SS; cbn [bind].
    + rewrite N.add_0_r. destruct (N.leb_spec x 2) as [LE|GT]; cbn [andb].
      * destruct (eaeod_total6 e0 e [] HJ) as [E|(e' & E & Q1 & Q2 & Q3 & Q4 & Q5 & Q6)]; unfold edi_ascii_end_of_data in E; unfold chars_left in E; rewrite ED in E;
          cbn [length app N.of_nat N.add N.leb N.compare ascii_encoding_size] in E; cbv iota in E; rewrite SS, N.add_0_r in E.
        -- destruct (N.leb_spec x 2); [cbn [andb] in E|lia]. unfold backup in E. rewrite ED in E. cbn [length Nat.sub] in E.
           destruct (N.leb_spec 0 x); [|lia]. destruct (_ || _) in E; cbn [bind] in E; discriminate.
        -- destruct (N.leb_spec x 2); [cbn [andb] in E|lia]. destruct (N.leb_spec 0 x); [|lia]. rewrite E. cbn [bind]. split; [exact (proj1 Q1)|]. split; [exact (proj2 Q1)|]. split; [exact Q2|]. right. left. split; [exact Q3|split; [exact Q4|split; [exact Q5|exact Q6]]].
      * cbn [bind]. rewrite HM. cbn [negb]. rewrite SS. cbn [bind]. destruct (N.ltb_spec 0 x); [|apply R1; [reflexivity|reflexivity|exact ED]].
        destruct (N.ltb_spec 2 x); [|lia]. cbn [negb]. apply R1; [reflexivity|reflexivity|exact ED].
    + cbn [bind]. rewrite HM. cbn [negb]. rewrite SS. cbn [bind]. exact I.
  - destruct (eaeod_total6 e0 e (s0 :: sr) HJ) as [-> |(e' & -> & Q1 & Q2 & Q3 & Q4 & Q5 & Q6)]; cbn [bind].
    2:{ split; [exact (proj1 Q1)|]. split; [exact (proj2 Q1)|]. split; [exact Q2|]. right. left. split; [exact Q3|split; [exact Q4|split; [exact Q5|exact Q6]]]. }
    destruct (Nat.ltb_spec 3 (length (s0 :: sr))); [lia|]. rewrite HM. cbn [negb]. unfold ssl. destruct (symbol_size_left e _) as [l|]; cbn [bind]; [|exact I].
    destruct ((0 <? l) || Nat.eqb (length (s0 :: sr)) 3).
    + destruct (write4_ok6 (set_ascii_until_end e) ((s0 :: sr) ++ [edifact_UNLATCH]) ltac:(discriminate)) as (e' & -> & W1 & W2 & W3 & _). apply R1; [exact W2|exact W3|rewrite W1; exact ED].
    + destruct (write4_ok6 e (s0 :: sr) ltac:(discriminate)) as (e' & -> & W1 & W2 & W3 & _). apply R1; [exact W2|exact W3|rewrite W1; exact ED].
Qed.

(* the run ends at a planned switch *)
Lemma edi_end_switch6 e0 e symbols : EJ6 e0 e symbols -> e_data e <> [] -> (length (e_data e) + 1 <= length (e_data e0))%nat -> NXT6 e0 e ->
  (symbols = [] -> (length (e_cw e0) + 2 <= length (e_cw e))%nat) ->
  match edi_handle_end e symbols with Panic _ => False | Err _ => True | Ok e' => post_edi6 e0 e' end.
Proof.
  intros HJ ND LT HN CW2. pose proof HJ as (HPL & IN & SY & CW & LS & LD & LN). unfold edi_handle_end.
  destruct (eaeod_total6 e0 e symbols HJ) as [-> |(e' & -> & Q1 & Q2 & Q3 & Q4 & Q5 & Q6)]; cbn [bind].
  2:{ split; [exact (proj1 Q1)|]. split; [exact (proj2 Q1)|]. split; [exact Q2|]. right. left. split; [exact Q3|split; [exact Q4|split; [exact Q5|exact Q6]]]. }
  assert (has_more e = true) as HM by (unfold has_more; destruct (e_data e); [contradiction|reflexivity]).
  assert (forall e', e_data e' = e_data e -> e_planned e' = e_planned e -> e_encodation e' = e_encodation e -> e_new_mode e' = e_new_mode e -> e_symbols e' = e_symbols e ->
            e_input e' = e_input e -> (length (e_cw e0) + 2 <= length (e_cw e'))%nat -> post_edi6 e0 e') as R3.
  { intros e' D' P' M' NM' S' I' C'. split; [rewrite S'; exact SY|]. split; [rewrite I'; exact IN|]. split; [rewrite D'; lia|]. right. right. split; [exact C'|]. split; [rewrite D'; exact LT|]. split; [rewrite D'; exact ND|].
    destruct HN as [(H1 & H2 & H3 & H4)|(H1 & H2)].
    - left. split; [rewrite M'; exact H1|]. split; [rewrite NM'; exact H2|]. split; [apply (PL_same6 e); assumption|]. split; [unfold AL, first_pos in *; rewrite D', P'; exact H3|rewrite P'; exact H4].
    - right. split; [rewrite M'; exact H1|]. apply (next_ok6_same e); assumption. }
  destruct symbols as [|s0 sr].
  - rewrite HM. cbn [negb]. apply R3; try reflexivity. cbn [e_cw push set_cw]. rewrite app_length. specialize (CW2 eq_refl). cbn [length]. lia.
  - destruct (Nat.ltb_spec 3 (length (s0 :: sr))); [lia|]. rewrite HM. cbn [negb].
    destruct (write4_ok6 e ((s0 :: sr) ++ [edifact_UNLATCH]) ltac:(discriminate)) as (e' & -> & W1 & W2 & W3 & W4 & W5 & W6 & W7 & W8).
    apply R3; try assumption. specialize (W8 ltac:(rewrite app_length; cbn [length]; lia)). lia.
Qed.

Lemma edi_run_total6 e0 : forall fuel e symbols, (length (e_data e) < fuel)%nat -> EJ6 e0 e symbols ->
  e_encodation e = Edifact -> m6_plan (e_planned e) -> CM e -> e_new_mode e = e_new_mode e0 ->
  (e_data e = [] \/ first_pos e < chars_left e) ->
  match (let* (ret, e1, syms) := edi_loop fuel e symbols in match ret with Some e' => Ok e' | None => edi_handle_end e1 syms end) with
  | Panic _ => False | Err _ => True | Ok e' => post_edi6 e0 e' end.
Proof.
  induction fuel as [|f IH]; intros e symbols HF HJ EE AB HCM NM ST; [lia|]. cbn [edi_loop].
  pose proof HJ as (HPL & IN & SY & CW & LS & LD & LN).
  (* the end-of-data rule at a group boundary *)
  match goal with |- context C [if ?c then edi_ascii_end_of_data e symbols else Ok (false, e)] =>
    let G := context C [Ok (false, e) : ER (bool * enc)] in assert G as CONT end.
  2:{ match goal with |- context [if ?c then edi_ascii_end_of_data e symbols else Ok (false, e)] => destruct c end; [|exact CONT].
      destruct (eaeod_total6 e0 e symbols HJ) as [E|(e' & E & Q1 & Q2 & Q3 & Q4 & Q5 & Q6)]; rewrite E; [exact CONT|]. cbn [bind].
      split; [exact (proj1 Q1)|]. split; [exact (proj2 Q1)|]. split; [exact Q2|]. right. left. split; [exact Q3|split; [exact Q4|split; [exact Q5|exact Q6]]]. }
  cbn [bind]. unfold eat. destruct (e_data e) as [|ch t] eqn:ED.
  - (* the data ends *)
    cbn [bind]. apply (edi_end_data6 e0 e symbols HJ ED).
  - set (e1 := set_data e t).
    assert (first_pos e < chars_left e) as LT by (destruct ST as [ST|ST]; [discriminate|exact ST]).
    assert (chars_left e = N.of_nat (length t) + 1) as CLE by (unfold chars_left; rewrite ED; cbn [length]; lia).
    assert (PL data e1) as PL1.
    { change e1 with (set_cw (set_data e t) (e_cw e)). apply PL_consume; [exact HPL|]. exists [ch]. split; [rewrite ED; reflexivity|]. lia. }
    set (syms := symbols ++ [ch]).
    assert (length syms = S (length symbols)) as LSY by (unfold syms; rewrite app_length; cbn [length]; lia).
    (* after the step: e2 has the data of e1; what a switch or the next round needs *)
    assert (forall e2 syms2, e_data e2 = t -> e_planned e2 = e_planned e -> e_encodation e2 = Edifact -> e_new_mode e2 = e_new_mode e -> e_symbols e2 = e_symbols e ->
              e_input e2 = e_input e -> (length (e_cw e) <= length (e_cw e2))%nat -> (length syms2 <= 3)%nat -> (length syms2 <= S (length symbols))%nat ->
              (syms2 = [] -> (length (e_cw e0) + 2 <= length (e_cw e2))%nat) ->
              match (let* (sw, e3) := maybe_switch_mode e2 in
                     if sw then Ok (None, e3, syms2) else edi_loop f e3 syms2) with
              | Ok (ret, e4, s4) => match (match ret with Some e' => Ok e' | None => edi_handle_end e4 s4 end) with Panic _ => False | Err _ => True | Ok e' => post_edi6 e0 e' end
              | Err _ => True | Panic _ => False end) as STEP.
    { intros e2 syms2 D2 P2 M2 NM2 S2 I2 C2 L2 L2' CW2.
      assert (PL data e2) as PL2 by (apply (PL_same6 e1); [rewrite D2; reflexivity|rewrite P2; reflexivity|exact PL1]).
      assert (EJ6 e0 e2 syms2) as HJ2.
      { split; [exact PL2|]. split; [rewrite I2; exact IN|]. split; [rewrite S2; exact SY|]. split; [lia|]. split; [exact L2|]. split; [rewrite D2; cbn [length] in LD; lia|exact LN]. }
      destruct (msm_total data e2 PL2) as (sw & e3 & MS & (D3 & C3 & I3 & M3 & S3) & CASE). rewrite MS. cbn [bind].
      destruct CASE as [(-> & (EN3 & NM3 & EP3 & NS))|((p0 & m0 & p1 & m1 & rest & EP & EP3 & CL & POS & R01 & A01 & EM & SWC) & PL3)].
      - (* no switch: next character *)
        assert (EJ6 e0 e3 syms2) as HJ3.
        { destruct HJ2 as (J1 & J2 & J3 & J4 & J5 & J6 & J7). split; [apply (PL_same6 e2); assumption|]. split; [rewrite I3; exact J2|]. split; [rewrite S3; exact J3|].
          split; [rewrite C3; exact J4|]. split; [exact J5|]. split; [rewrite D3; exact J6|exact J7]. }
        specialize (IH e3 syms2 ltac:(rewrite D3, D2; cbn [length] in HF; lia) HJ3 ltac:(rewrite EN3; exact M2) ltac:(rewrite EP3, P2; exact AB)
                       ltac:(unfold CM, first_pos in *; rewrite EP3, P2, EN3, M2; rewrite <- EE; exact HCM) ltac:(rewrite NM3, NM2; exact NM)).
        assert (e_data e3 = [] \/ first_pos e3 < chars_left e3) as ST3.
        { unfold chars_left, first_pos in *. rewrite EP3, P2, D3, D2. rewrite D2, P2 in NS. destruct t as [|c2 t2]; [left; reflexivity|right].
          destruct NS as [NS|NS]; [cbn [length] in NS; lia|]. destruct PL2 as (_ & _ & X3). rewrite P2 in X3. destruct (e_planned e) as [|[q mq] rq]; [contradiction|]. cbn [hd fst] in *.
          destruct X3 as (X3 & _). unfold chars_left in X3. rewrite D2 in X3. lia. }
        specialize (IH ST3). destruct (edi_loop f e3 syms2) as [[[ret e4] s4]| |]; cbn [bind] in IH |- *; [exact IH|exact I|contradiction].
      - (* a planned switch: by CM it leaves EDIFACT *)
        assert (m0 <> Edifact) as NED.
        { intros ->. unfold CM, first_pos in HCM. rewrite P2 in EP. rewrite EP in HCM. cbn [hd fst snd] in HCM. rewrite EE in HCM. specialize (HCM eq_refl). lia. }
        assert (m6_mode m0) as ABM by (rewrite P2 in EP; rewrite EP in AB; inversion AB; assumption).
        assert (m6_plan (e_planned e3)) as AB3 by (rewrite EP3; rewrite P2 in EP; rewrite EP in AB; inversion AB; assumption).
        destruct SWC as [(-> & EQ & _)|(-> & NE & NM3)]; [exfalso; apply NED; rewrite EQ; exact M2|].
        assert (e_data e3 <> []) as ND3 by (rewrite D3; unfold chars_left in CL; destruct (e_data e2); [cbn in CL; lia|discriminate]).
        assert (EJ6 e0 e3 syms2) as HJ3.
        { destruct HJ2 as (J1 & J2 & J3 & J4 & J5 & J6 & J7). split; [exact PL3|]. split; [rewrite I3; exact J2|]. split; [rewrite S3; exact J3|].
          split; [rewrite C3; exact J4|]. split; [exact J5|]. split; [rewrite D3; exact J6|exact J7]. }
        apply (edi_end_switch6 e0 e3 syms2 HJ3 ND3); [rewrite D3, D2; cbn [length] in LD; lia| |intros Z; rewrite C3; exact (CW2 Z)].
        assert (m0 = Ascii \/ m0 = Base256 \/ m0 = X12 \/ m0 = C40 \/ m0 = Text) as [MA|MB] by (destruct ABM as [A|[B|[X|[E|CT]]]]; [left; exact A|right; left; exact B|right; right; left; exact X|contradiction|right; right; right; exact CT]).
        + left. rewrite MA in *. destruct R01 as (R1 & R2 & R3 & R4 & R5). split; [exact EM|]. split; [rewrite NM3; cbn [et_latch_from_ascii]; rewrite NM2; exact NM|].
          split; [|exact AB3]. unfold AL, first_pos. rewrite EP3. cbn [hd fst]. rewrite D3. destruct PL2 as (X1 & _). rewrite X1, CL. exact (R3 eq_refl).
        + right. split; [rewrite EM; destruct MB as [-> |[-> |[-> | ->]]]; discriminate|]. apply (moved_next6 e2 e3 p0 m0 p1 m1 rest EP3); try assumption.
          * unfold chars_left. rewrite D3. exact CL.
          * destruct MB as [B|[X|CT]]; [left; exact B|right; left; exact X|right; right; right; exact CT]. }
    destruct (Nat.eqb_spec (length syms) 4) as [L4|N4].
    + (* a complete group *)
      destruct (write4_ok6 e1 syms ltac:(unfold syms; destruct symbols; discriminate)) as (e2 & -> & W1 & W2 & W3 & W4 & W5 & W6 & W7 & W8). cbn [bind].
      specialize (W8 ltac:(lia)).
      assert (match (let* (sw, e3) := maybe_switch_mode e2 in if sw then Ok (None, e3, []) else edi_loop f e3 []) with
              | Ok (ret, e4, s4) => match (match ret with Some e' => Ok e' | None => edi_handle_end e4 s4 end) with Panic _ => False | Err _ => True | Ok e' => post_edi6 e0 e' end
              | Err _ => True | Panic _ => False end) as H4.
      { cbn [e_data e_symbols e_input e_planned e_encodation e_new_mode e_cw e1 set_data] in W1, W2, W3, W4, W5, W6, W7, W8.
        apply (STEP e2 [] W1 W4 ltac:(rewrite W5; exact EE) W6 W2 W3); [lia|cbn [length]; lia|cbn [length]; lia|intros _; lia]. }
      match goal with |- match (let* pat := ?X in _) with _ => _ end => destruct X as [[[ret e4] s4]| |] end; cbn [bind] in *; exact H4.
    + assert (match (let* (sw, e3) := maybe_switch_mode e1 in if sw then Ok (None, e3, syms) else edi_loop f e3 syms) with
              | Ok (ret, e4, s4) => match (match ret with Some e' => Ok e' | None => edi_handle_end e4 s4 end) with Panic _ => False | Err _ => True | Ok e' => post_edi6 e0 e' end
              | Err _ => True | Panic _ => False end) as H4.
      { apply (STEP e1 syms eq_refl eq_refl EE eq_refl eq_refl eq_refl); [cbn [e_cw e1 set_data]; lia|lia|lia|].
        intros Z. unfold syms in Z. destruct symbols; discriminate. }
      match goal with |- match (let* pat := ?X in _) with _ => _ end => destruct X as [[[ret e4] s4]| |] end; cbn [bind] in *; exact H4.
Qed.

(* ---- a C40 / Text run ---- *)
Definition le39 (l : list N) : Prop := Forall (fun v => v <= 39) l.

Lemma low_table : forallb (fun ch => match low_ascii_to_c40_symbols ch with
                                     | Some l => (1 <=? length l)%nat && (length l <=? 2)%nat && forallb (fun v => v <=? 39) l
                                     | None => false end) (map N.of_nat (seq 0 128)) = true.
Proof. vm_compute. reflexivity. Qed.

Lemma low_ok ch : ch < 128 -> exists l, low_ascii_to_c40_symbols ch = Some l /\ (1 <= length l <= 2)%nat /\ le39 l.
Proof.
  intros H. pose proof (proj1 (forallb_forall _ _) low_table ch) as T.
  assert (In ch (map N.of_nat (seq 0 128))) as I by (apply in_map_iff; exists (N.to_nat ch); split; [lia|apply in_seq; lia]).
  specialize (T I). cbv beta in T. destruct (low_ascii_to_c40_symbols ch) as [l|]; [|discriminate]. exists l. split; [reflexivity|].
  apply andb_true_iff in T. destruct T as [T T3]. apply andb_true_iff in T. destruct T as [T1 T2]. apply Nat.leb_le in T1, T2. split; [lia|].
  apply Forall_forall. intros v Hv. apply N.leb_le. exact (proj1 (forallb_forall _ _) T3 v Hv).
Qed.

Lemma swap_low ch : ch < 128 -> text_swap_case ch < 128.
Proof.
  intros H. unfold text_swap_case. destruct ((65 <=? ch) && (ch <=? 90)) eqn:A; [apply andb_true_iff in A; destruct A as [A1 A2]; apply N.leb_le in A1, A2; lia|].
  destruct ((97 <=? ch) && (ch <=? 122)) eqn:B; [apply andb_true_iff in B; destruct B as [B1 B2]; apply N.leb_le in B1, B2; lia|exact H].
Qed.

Lemma to_vals_ok text buf ch : ch < 256 -> (length buf <= 2)%nat -> le39 buf ->
  exists buf1, to_vals text buf ch = Ok buf1 /\ (length buf < length buf1 <= 6)%nat /\ le39 buf1.
Proof.
  intros HB LB L39. unfold to_vals.
  assert (forall c, c < 128 -> exists l, low_ascii text c = Ok l /\
            (1 <= length l <= 2)%nat /\ le39 l) as LOW.
  { intros c Hc. unfold low_ascii. destruct (low_ok (if text then text_swap_case c else c) ltac:(destruct text; [apply swap_low; exact Hc|exact Hc])) as (l & -> & A & B). exists l. repeat split; assumption || lia. }
  destruct (N.leb_spec ch 127) as [LE|GT].
  - destruct (LOW ch ltac:(lia)) as (l & -> & A & B). cbn [bind]. rewrite app_length. destruct (Nat.ltb_spec 6 (length buf + length l)); [lia|].
    eexists. split; [reflexivity|]. rewrite app_length. split; [lia|]. apply Forall_app. split; assumption.
  - destruct (LOW (ch - 128) ltac:(lia)) as (l & -> & A & B). cbn [bind]. rewrite app_length. cbn [length]. destruct (Nat.ltb_spec 6 (length buf + S (S (length l)))); [lia|].
    eexists. split; [reflexivity|]. rewrite app_length. cbn [length]. split; [lia|]. apply Forall_app. split; [exact L39|].
    constructor; [unfold c40_SHIFT2; lia|]. constructor; [unfold c40_UPPER_SHIFT; lia|exact B].
Qed.

Definition same_but_cw (e e' : enc) : Prop :=
  e_data e' = e_data e /\ e_planned e' = e_planned e /\ e_encodation e' = e_encodation e /\ e_new_mode e' = e_new_mode e /\
  e_symbols e' = e_symbols e /\ e_input e' = e_input e.

Lemma wtv6 e c1 c2 c3 : c1 <= 39 -> c2 <= 39 -> c3 <= 39 -> exists e', write_three_values e c1 c2 c3 = Ok e' /\ same_but_cw e e' /\ length (e_cw e') = (length (e_cw e) + 2)%nat.
Proof.
  intros A B C. unfold write_three_values. destruct (N.leb_spec 65536 (1600 * c1 + 40 * c2 + c3 + 1)); [lia|]. eexists. split; [reflexivity|].
  split; [repeat split|]. cbn [e_cw push set_cw]. rewrite !app_length. cbn [length]. lia.
Qed.

Lemma drain3_ok : forall fuel e buf, (length buf < 3 * fuel)%nat -> le39 buf ->
  exists e2 buf2 k, drain3 fuel e buf = Ok (e2, buf2) /\ (length buf2 <= 2)%nat /\ le39 buf2 /\ (length buf = length buf2 + 3 * k)%nat /\
    same_but_cw e e2 /\ length (e_cw e2) = (length (e_cw e) + 2 * k)%nat.
Proof.
  induction fuel as [|f IH]; intros e buf HL L39; [lia|]. cbn [drain3]. destruct buf as [|a [|b [|c r]]].
  - exists e, [], 0%nat. split; [reflexivity|]. split; [cbn; lia|]. split; [constructor|]. split; [reflexivity|]. split; [repeat split|lia].
  - exists e, [a], 0%nat. split; [reflexivity|]. split; [cbn; lia|]. split; [exact L39|]. split; [cbn [length]; lia|]. split; [repeat split|lia].
  - exists e, [a; b], 0%nat. split; [reflexivity|]. split; [cbn; lia|]. split; [exact L39|]. split; [cbn [length]; lia|]. split; [repeat split|lia].
  - inversion L39 as [|? ? A L1]; subst. inversion L1 as [|? ? B L2]; subst. inversion L2 as [|? ? C L3]; subst.
    destruct (wtv6 e a b c A B C) as (e' & -> & SB & LC). cbn [bind].
    destruct (IH e' r ltac:(cbn [length] in HL; lia) L3) as (e2 & buf2 & k & -> & Q1 & Q2 & Q3 & Q4 & Q5).
    exists e2, buf2, (S k). split; [reflexivity|]. split; [exact Q1|]. split; [exact Q2|]. split; [cbn [length]; lia|]. split; [|lia].
    destruct SB as (S1 & S2 & S3 & S4 & S5 & S6). destruct Q4 as (T1 & T2 & T3 & T4 & T5 & T6). repeat split; congruence.
Qed.

(* the end of a C40 / Text run, taken apart *)
Definition c40_early (e : enc) (last_ch : N) (buf : list N) : ER (option enc) :=
  let blen := N.of_nat (length buf) in
  (if negb (has_more e) then
       let* size_left := ssl e blen in
       if (size_left + blen =? 2) && (blen =? 2) then
         match buf with
         | [b0; b1] => let* e' := write_three_values e b0 b1 c40_SHIFT1 in Ok (Some e')
         | _ => Panic PIndex
         end
       else if (size_left + blen =? 2) && (blen =? 1) then
         let e1 := set_ascii_until_end (push e UNLATCH) in
         let* e2 := backup e1 1 in Ok (Some e2)
       else if (size_left + blen =? 1) && (blen =? 1) then
         if ascii_encoding_size [last_ch] =? 1 then
           let* e2 := backup (set_ascii_until_end e) 1 in Ok (Some e2)
         else Ok None
       else Ok None
     else Ok None).
Definition c40_flush (mode_switch : bool) (e : enc) (buf : list N) : ER enc :=
      (match buf with
       | [] => Ok e
       | _ =>
         let buf1 := buf ++ [c40_SHIFT2] in
         let buf2 := if Nat.eqb (length buf1) 2 then buf1 ++ [c40_UPPER_SHIFT] else buf1 in
         match buf2 with
         | [b0; b1; b2] =>
           let* e' := write_three_values e b0 b1 b2 in
           Ok (if negb mode_switch then set_ascii_until_end e' else e')
         | _ => Panic PIndex
         end
       end).
Definition c40_tail (mode_switch : bool) (e : enc) : ER enc :=
    let cl := chars_left e in
    if 0 <? cl then
      if (cl =? 2) && two_digits_coming (e_data e) then
        let* space_left := ssl e 1 in
        let e' := set_ascii_until_end e in
        Ok (if 1 <=? space_left then push e' UNLATCH else e')
      else Ok (push e UNLATCH)
    else
      let* sleft := ssl e 0 in
      if 0 <? sleft then
        let e' := push e UNLATCH in
        Ok (if negb mode_switch then set_ascii_until_end e' else e')
      else Ok e.
Lemma c40_handle_end_eq e last_ch buf : c40_handle_end e last_ch buf =
  if (2 <? length buf)%nat then Panic PAssert else
  let* early := c40_early e last_ch buf in
  match early with Some e' => Ok e' | None => let* e1 := c40_flush (has_more e) e buf in c40_tail (has_more e) e1 end.
Proof. reflexivity. Qed.

Lemma NXT6_same e0 e e' : e_data e' = e_data e -> e_planned e' = e_planned e -> e_encodation e' = e_encodation e -> e_new_mode e' = e_new_mode e ->
  NXT6 e0 e -> NXT6 e0 e'.
Proof.
  intros D P M NM [(H1 & H2 & H3 & H4)|(H1 & H2)].
  - left. split; [rewrite M; exact H1|]. split; [rewrite NM; exact H2|]. split; [unfold AL, first_pos in *; rewrite D, P; exact H3|rewrite P; exact H4].
  - right. split; [rewrite M; exact H1|]. apply (next_ok6_same e); assumption.
Qed.

(* what a C40 / Text run has in hand: e0 is the state at its start, buf the values not yet written *)
Definition CJ6 (e0 e : enc) (buf : list N) : Prop :=
  PL data e /\ e_input e = data /\ e_symbols e = e_symbols e0 /\ (length (e_cw e0) <= length (e_cw e))%nat /\
  (length buf <= 2)%nat /\ le39 buf /\ (length (e_data e) <= length (e_data e0))%nat /\
  (buf <> [] -> (length (e_data e) + 1 <= length (e_data e0))%nat) /\
  ((length (e_data e) + 1 <= length (e_data e0))%nat -> buf <> [] \/ (length (e_cw e0) + 2 <= length (e_cw e))%nat) /\
  (length (e_data e0) <= length data)%nat.

Lemma post_until_end6 e0 e : e_symbols e = e_symbols e0 -> e_input e = data -> (length (e_data e) <= length (e_data e0))%nat -> PL data e ->
  forall c, post_edi6 e0 (set_cw (set_ascii_until_end e) c).
Proof.
  intros HS HI HL HPL c. split; [exact HS|]. split; [exact HI|]. split; [exact HL|]. right. left. split; [reflexivity|]. split; [reflexivity|].
  split; [apply PL_set_cw6; apply PL_until_end6; exact HPL|apply abx_until_end6].
Qed.

Lemma c40_tail6 e0 e : e_symbols e = e_symbols e0 -> e_input e = data -> (length (e_data e) <= length (e_data e0))%nat -> PL data e ->
  (e_data e <> [] -> (chars_left e = 2 /\ two_digits_coming (e_data e) = true) \/
                     ((length (e_cw e0) + 1 <= length (e_cw e))%nat /\ (length (e_data e) + 1 <= length (e_data e0))%nat /\ NXT6 e0 e)) ->
  forall ms, match c40_tail ms e with Panic _ => False | Err _ => True | Ok e' => post_edi6 e0 e' end.
Proof.
  intros HS HI HL HPL H ms. unfold c40_tail. cbv zeta.
  assert (forall e', e_symbols e' = e_symbols e -> e_input e' = e_input e -> e_data e' = [] -> post_edi6 e0 e') as R1.
  { intros e' S' I' D'. split; [rewrite S'; exact HS|]. split; [rewrite I'; exact HI|]. split; [rewrite D'; cbn [length]; lia|]. left. exact D'. }
  destruct (N.ltb_spec 0 (chars_left e)) as [POS|Z].
  - assert (e_data e <> []) as ND by (unfold chars_left in POS; destruct (e_data e); [cbn in POS; lia|discriminate]).
    destruct ((chars_left e =? 2) && two_digits_coming (e_data e)) eqn:C.
    + unfold ssl. destruct (symbol_size_left e 1) as [x|]; cbn [bind]; [|exact I].
      destruct (1 <=? x).
      * apply (post_until_end6 e0 e HS HI HL HPL).
      * apply (post_until_end6 e0 e HS HI HL HPL (e_cw e)).
    + destruct (H ND) as [(C1 & C2)|(CW & LT & HN)]; [rewrite C1, C2 in C; discriminate|].
      split; [exact HS|]. split; [exact HI|]. split; [exact HL|]. right. right. cbn [e_cw e_data push set_cw]. rewrite app_length. cbn [length].
      split; [lia|]. split; [exact LT|]. split; [exact ND|].
      pose proof (NXT6_same e0 e (push e UNLATCH) eq_refl eq_refl eq_refl eq_refl HN) as [(H1 & H2 & H3 & H4)|H2].
      * left. split; [exact H1|]. split; [exact H2|]. split; [apply PL_set_cw6; exact HPL|]. split; [exact H3|exact H4].
      * right. exact H2.
  - assert (e_data e = []) as ED by (unfold chars_left in Z; destruct (e_data e); [reflexivity|cbn [length] in Z; lia]).
    unfold ssl. destruct (symbol_size_left e 0) as [x|]; cbn [bind]; [|exact I].
    destruct (0 <? x); [|apply R1; [reflexivity|reflexivity|exact ED]]. destruct (negb ms); apply R1; try reflexivity; exact ED.
Qed.

Lemma backup_until_end6 e0 e c k : PL data e -> e_input e = data -> e_symbols e = e_symbols e0 ->
  (length (e_data e) + k <= length (e_data e0))%nat -> (length (e_data e0) <= length data)%nat ->
  exists e', backup (set_cw (set_ascii_until_end e) c) k = Ok e' /\ post_edi6 e0 e'.
Proof.
  intros HPL IN SY LD LN. unfold backup. destruct (sfx_shift6 e k HPL ltac:(lia) IN) as [SH LSH].
  cbn [e_input e_data set_cw set_ascii_until_end]. assert (length (e_input e) = length data) as LI by (rewrite IN; reflexivity).
  destruct (Nat.ltb_spec (length (e_input e)) (length (e_data e))); [lia|]. destruct (Nat.ltb_spec (length (e_input e) - length (e_data e)) k); [lia|].
  cbn [orb]. eexists. split; [reflexivity|]. rewrite SH. split; [exact SY|]. split; [exact IN|]. cbn [e_data set_data]. split; [rewrite LSH; lia|].
  right. left. split; [reflexivity|]. split; [reflexivity|]. split; [|constructor; [left; reflexivity|constructor]].
  unfold PL, chars_left. cbn [e_data e_planned set_data]. rewrite LSH. split; [reflexivity|]. split; [lia|]. split; [lia|]. split; [split; exact I|reflexivity].
Qed.

Lemma c40_end6 e0 e buf last_ch : CJ6 e0 e buf ->
  (e_data e <> [] -> (buf = [] /\ chars_left e = 2 /\ two_digits_coming (e_data e) = true) \/ ((length (e_data e) + 1 <= length (e_data e0))%nat /\ NXT6 e0 e)) ->
  match c40_handle_end e last_ch buf with Panic _ => False | Err _ => True | Ok e' => post_edi6 e0 e' end.
Proof.
  intros (HPL & IN & SY & CW & LB & L39 & LD & BNE & CW2 & LN) H. rewrite c40_handle_end_eq.
  destruct (Nat.ltb_spec 2 (length buf)); [lia|].
  assert (forall e', e_symbols e' = e_symbols e -> e_input e' = e_input e -> e_data e' = [] -> post_edi6 e0 e') as R1.
  { intros e' S' I' D'. split; [rewrite S'; exact SY|]. split; [rewrite I'; exact IN|]. split; [rewrite D'; cbn [length]; lia|]. left. exact D'. }
  assert (c40_SHIFT2 <= 39 /\ c40_UPPER_SHIFT <= 39 /\ c40_SHIFT1 <= 39) as (S2 & US & S1) by (unfold c40_SHIFT2, c40_UPPER_SHIFT, c40_SHIFT1; lia).
  destruct (has_more e) eqn:HM.
  - (* the run ends before the data *)
    assert (e_data e <> []) as ND by (unfold has_more in HM; destruct (e_data e); discriminate).
    specialize (H ND). unfold c40_early. rewrite HM. cbn [negb bind].
    assert (forall e1 k, same_but_cw e e1 -> length (e_cw e1) = (length (e_cw e) + k)%nat -> (buf <> [] -> k = 2%nat) ->
              match c40_tail true e1 with Panic _ => False | Err _ => True | Ok e' => post_edi6 e0 e' end) as TAIL.
    { intros e1 k (D1 & P1 & M1 & NM1 & S1' & I1) C1 K2. apply c40_tail6; [rewrite S1'; exact SY|rewrite I1; exact IN|rewrite D1; exact LD|apply (PL_same6 e); assumption|].
      intros _. unfold chars_left. rewrite D1. destruct H as [(B0 & C2 & T2)|(LT & HN)]; [left; split; assumption|right].
      split; [|split; [exact LT|apply (NXT6_same e0 e); assumption]]. destruct (CW2 LT) as [BN|CC]; [specialize (K2 BN); lia|lia]. }
    destruct buf as [|a [|b [|c r]]]; [| | |cbn [length] in LB; lia].
    + cbn [c40_flush bind]. apply (TAIL e 0%nat); [repeat split|lia|intros X; contradiction].
    + unfold c40_flush. cbn [app length Nat.eqb]. inversion L39 as [|? ? A L1]; subst.
      destruct (wtv6 e a c40_SHIFT2 c40_UPPER_SHIFT A S2 US) as (e' & -> & SB & LC). cbn [bind negb]. apply (TAIL e' 2%nat); [exact SB|exact LC|reflexivity].
    + unfold c40_flush. cbn [app length Nat.eqb]. inversion L39 as [|? ? A L1]; subst. inversion L1 as [|? ? B L2]; subst.
      destruct (wtv6 e a b c40_SHIFT2 A B S2) as (e' & -> & SB & LC). cbn [bind negb]. apply (TAIL e' 2%nat); [exact SB|exact LC|reflexivity].
  - (* the data ends *)
    assert (e_data e = []) as ED by (unfold has_more in HM; destruct (e_data e); [reflexivity|discriminate]).
    assert (forall e1, e_symbols e1 = e_symbols e -> e_input e1 = e_input e -> e_data e1 = [] -> PL data e1 ->
              match c40_tail false e1 with Panic _ => False | Err _ => True | Ok e' => post_edi6 e0 e' end) as TAIL.
    { intros e1 S1' I1 D1 PL1. apply c40_tail6; [rewrite S1'; exact SY|rewrite I1; exact IN|rewrite D1; cbn [length]; lia|exact PL1|]. intros X. contradiction. }
    unfold c40_early. rewrite HM. cbn [negb]. unfold ssl. destruct (symbol_size_left e _) as [x|]; cbn [bind]; [|exact I].
    destruct buf as [|a [|b [|c r]]]; [| | |cbn [length] in LB; lia].
    + cbn [length N.of_nat]. change (0 =? 2) with false. change (0 =? 1) with false. rewrite !andb_false_r. cbn [bind c40_flush]. apply TAIL; [reflexivity|reflexivity|exact ED|exact HPL].
    + change (N.of_nat (length [a])) with 1. change (1 =? 2) with false. change (1 =? 1) with true. rewrite andb_false_r, !andb_true_r.
      specialize (BNE ltac:(discriminate)).
      destruct (x + 1 =? 2).
      { destruct (backup_until_end6 e0 e (e_cw e ++ [UNLATCH]) 1 HPL IN SY BNE LN) as (e' & BK & PO).
        change (set_ascii_until_end (push e UNLATCH)) with (set_cw (set_ascii_until_end e) (e_cw e ++ [UNLATCH])). rewrite BK. cbn [bind]. exact PO. }
      destruct (x + 1 =? 1).
      { destruct (ascii_encoding_size [last_ch] =? 1).
        - destruct (backup_until_end6 e0 e (e_cw e) 1 HPL IN SY BNE LN) as (e' & BK & PO).
          change (set_ascii_until_end e) with (set_cw (set_ascii_until_end e) (e_cw e)). rewrite BK. cbn [bind]. exact PO.
        - cbn [bind]. unfold c40_flush. cbn [app length Nat.eqb]. inversion L39 as [|? ? A L1]; subst.
          destruct (wtv6 e a c40_SHIFT2 c40_UPPER_SHIFT A S2 US) as (e' & -> & (D1 & P1 & M1 & NM1 & S1' & I1) & LC). cbn [bind negb].
          apply TAIL; [exact S1'|exact I1|cbn [e_data set_ascii_until_end]; rewrite D1; exact ED|apply PL_until_end6; apply (PL_same6 e); assumption]. }
      cbn [bind]. unfold c40_flush. cbn [app length Nat.eqb]. inversion L39 as [|? ? A L1]; subst.
      destruct (wtv6 e a c40_SHIFT2 c40_UPPER_SHIFT A S2 US) as (e' & -> & (D1 & P1 & M1 & NM1 & S1' & I1) & LC). cbn [bind negb].
      apply TAIL; [exact S1'|exact I1|cbn [e_data set_ascii_until_end]; rewrite D1; exact ED|apply PL_until_end6; apply (PL_same6 e); assumption].
    + change (N.of_nat (length [a; b])) with 2. change (2 =? 2) with true. change (2 =? 1) with false. rewrite !andb_false_r, andb_true_r.
      inversion L39 as [|? ? A L1]; subst. inversion L1 as [|? ? B L2]; subst.
      destruct (x + 2 =? 2).
      { destruct (wtv6 e a b c40_SHIFT1 A B S1) as (e' & -> & (D1 & P1 & M1 & NM1 & S1' & I1) & LC). cbn [bind]. apply R1; [exact S1'|exact I1|rewrite D1; exact ED]. }
      cbn [bind]. unfold c40_flush. cbn [app length Nat.eqb].
      destruct (wtv6 e a b c40_SHIFT2 A B S2) as (e' & -> & (D1 & P1 & M1 & NM1 & S1' & I1) & LC). cbn [bind negb].
      apply TAIL; [exact S1'|exact I1|cbn [e_data set_ascii_until_end]; rewrite D1; exact ED|apply PL_until_end6; apply (PL_same6 e); assumption].
Qed.

Lemma byte_of_suffix ch t k : ch :: t = PlanAlign.suffix data k -> ch < 256.
Proof.
  intros E. unfold PlanAlign.suffix in E. assert (In ch data) as HI.
  { rewrite <- (firstn_skipn (length data - N.to_nat k) data). apply in_or_app. right. rewrite <- E. left. reflexivity. }
  unfold bytes_ok in BY. apply N.ltb_lt. exact (proj1 (forallb_forall _ _) BY ch HI).
Qed.

Lemma c40_run_total6 e0 text me : forall fuel e buf last_ch, (length (e_data e) < fuel)%nat -> CJ6 e0 e buf ->
  e_encodation e = me -> m6_plan (e_planned e) -> CM e -> e_new_mode e = e_new_mode e0 ->
  (e_data e = [] \/ first_pos e < chars_left e) ->
  match c40_loop fuel text e buf last_ch with
  | Ok (e1, buf1, l) => match c40_handle_end e1 l buf1 with Panic _ => False | Err _ => True | Ok e' => post_edi6 e0 e' end
  | Err _ => True | Panic _ => False end.
Proof.
  induction fuel as [|f IH]; intros e buf last_ch HF HJ EE AB HCM NM ST; [lia|]. cbn [c40_loop].
  pose proof HJ as (HPL & IN & SY & CW & LB & L39 & LD & BNE & CW2 & LN).
  unfold eat. destruct (e_data e) as [|ch t] eqn:ED.
  - apply (c40_end6 e0 e buf last_ch HJ). intros X. rewrite ED in X. contradiction.
  - assert (first_pos e < chars_left e) as LT by (destruct ST as [ST|ST]; [discriminate|exact ST]).
    assert (chars_left e = N.of_nat (length t) + 1) as CLE by (unfold chars_left; rewrite ED; cbn [length]; lia).
    assert (ch < 256) as HB by (destruct HPL as (HD & _); rewrite ED in HD; exact (byte_of_suffix ch t _ HD)).
    assert (PL data (set_data e t)) as PL1.
    { change (set_data e t) with (set_cw (set_data e t) (e_cw e)). apply PL_consume; [exact HPL|]. exists [ch]. split; [rewrite ED; reflexivity|]. lia. }
    cbn [e_data set_data].
    destruct ((match buf with [] => true | _ :: _ => false end) && is_digit ch && (match t with [ch1] => is_digit ch1 | _ => false end)) eqn:C.
    + (* only two digits remain: they are handed back *)
      apply andb_true_iff in C. destruct C as [C C3]. apply andb_true_iff in C. destruct C as [C1 C2].
      destruct buf as [|? ?]; [|discriminate]. destruct t as [|ch1 [|? ?]]; [discriminate| |discriminate].
      unfold backup. destruct (sfx_shift6 (set_data e [ch1]) 1 PL1 ltac:(cbn [e_data set_data length] in *; lia) IN) as [SH LSH].
      cbn [e_input e_data set_data] in SH |- *. assert (length (e_input e) = length data) as LI by (rewrite IN; reflexivity).
      assert (length [ch1] + 1 <= length data)%nat as L2 by (cbn [length] in *; lia).
      destruct (Nat.ltb_spec (length (e_input e)) (length [ch1])); [cbn [length] in *; lia|].
      destruct (Nat.ltb_spec (length (e_input e) - length [ch1]) 1); [cbn [length] in *; lia|]. cbn [orb bind]. rewrite SH.
      assert (PlanAlign.suffix data (N.of_nat (length [ch1] + 1)) = [ch; ch1]) as ->.
      { destruct HPL as (HD & _). rewrite ED in HD. unfold chars_left in HD. rewrite ED in HD. symmetry. exact HD. }
      set (e2 := set_data (set_data e [ch1]) [ch; ch1]).
      assert (e_data e2 = e_data e) as D2 by (rewrite ED; reflexivity).
      apply (c40_end6 e0 e2 [] last_ch).
      * split; [apply (PL_same6 e); [exact D2|reflexivity|exact HPL]|]. split; [exact IN|]. split; [exact SY|]. split; [exact CW|]. split; [exact LB|]. split; [exact L39|].
        rewrite D2, ED. split; [exact LD|]. split; [exact BNE|]. split; [exact CW2|exact LN].
      * intros _. left. split; [reflexivity|]. split; [reflexivity|]. cbn [e_data e2 set_data two_digits_coming]. rewrite C2, C3. reflexivity.
    + destruct (to_vals_ok text buf ch HB LB L39) as (buf1 & -> & LB1 & L391). cbn [bind].
      destruct (drain3_ok 4 (set_data e t) buf1 ltac:(lia) L391) as (e2 & buf2 & k & -> & LB2 & L392 & LK & (D2 & P2 & M2 & NM2 & S2 & I2) & C2). cbn [bind].
      cbn [e_data e_planned e_encodation e_new_mode e_symbols e_input e_cw set_data] in D2, P2, M2, NM2, S2, I2, C2.
      assert (PL data e2) as PL2 by (apply (PL_same6 (set_data e t)); [exact D2|exact P2|exact PL1]).
      assert (forall e3, e_data e3 = t -> e_input e3 = e_input e2 -> e_symbols e3 = e_symbols e2 -> e_cw e3 = e_cw e2 -> PL data e3 -> CJ6 e0 e3 buf2) as HJ3.
      { intros e3 D3 I3 S3 C3 PL3. split; [exact PL3|]. split; [rewrite I3, I2; exact IN|]. split; [rewrite S3, S2; exact SY|]. split; [rewrite C3; lia|]. split; [exact LB2|]. split; [exact L392|].
        rewrite D3. cbn [length] in LD. split; [lia|]. split; [intros _; lia|]. split; [|exact LN].
        intros _. destruct buf2 as [|? ?]; [right|left; discriminate]. cbn [length] in LK. rewrite C3. lia. }
      destruct (msm_total data e2 PL2) as (sw & e3 & MS & (D3 & C3 & I3 & M3 & S3) & CASE). rewrite MS. cbn [bind].
      destruct CASE as [(-> & (EN3 & NM3 & EP3 & NS))|((p0 & m0 & p1 & m1 & rest & EP & EP3 & CL & POS & R01 & A01 & EM & SWC) & PL3)].
      * (* no switch: the next character *)
        assert (PL data e3) as PL3 by (apply (PL_same6 e2); assumption).
        apply IH; [rewrite D3, D2; cbn [length] in HF; lia|apply HJ3; [rewrite D3; exact D2|exact I3|exact S3|exact C3|exact PL3]|rewrite EN3, M2; exact EE|rewrite EP3, P2; exact AB| |rewrite NM3, NM2; exact NM|].
        -- unfold CM, first_pos in *. rewrite EP3, P2, EN3, M2. exact HCM.
        -- unfold chars_left, first_pos in *. rewrite EP3, P2, D3, D2. rewrite D2, P2 in NS. destruct t as [|c2 t2]; [left; reflexivity|right].
           destruct NS as [NS|NS]; [cbn [length] in NS; lia|]. destruct PL2 as (_ & _ & X3). rewrite P2 in X3. destruct (e_planned e) as [|[q mq] rq]; [contradiction|]. cbn [hd fst] in *.
           destruct X3 as (X3 & _). unfold chars_left in X3. rewrite D2 in X3. lia.
      * (* a planned switch: by CM it leaves the mode *)
        assert (m0 <> me) as NED.
        { intros ->. unfold CM, first_pos in HCM. rewrite P2 in EP. rewrite EP in HCM. cbn [hd fst snd] in HCM. rewrite EE in HCM. specialize (HCM eq_refl). lia. }
        assert (m6_mode m0) as ABM by (rewrite P2 in EP; rewrite EP in AB; inversion AB; assumption).
        assert (m6_plan (e_planned e3)) as AB3 by (rewrite EP3; rewrite P2 in EP; rewrite EP in AB; inversion AB; assumption).
        destruct SWC as [(-> & EQ & _)|(-> & NE & NM3)]; [exfalso; apply NED; rewrite EQ, M2; exact EE|].
        assert (e_data e3 <> []) as ND3 by (rewrite D3; unfold chars_left in CL; destruct (e_data e2); [cbn in CL; lia|discriminate]).
        apply (c40_end6 e0 e3 buf2 ch); [apply HJ3; [rewrite D3; exact D2|exact I3|exact S3|exact C3|exact PL3]|]. intros _. right.
        split; [rewrite D3, D2; cbn [length] in LD; lia|].
        assert (m0 = Ascii \/ (m0 = Base256 \/ m0 = X12 \/ m0 = Edifact \/ m0 = C40 \/ m0 = Text)) as [MA|MB] by (destruct ABM as [A|R]; [left; exact A|right; exact R]).
        -- left. rewrite MA in *. destruct R01 as (R1 & R2 & R3 & R4 & R5). split; [exact EM|]. split; [rewrite NM3; cbn [et_latch_from_ascii]; rewrite NM2; exact NM|].
           split; [|exact AB3]. unfold AL, first_pos. rewrite EP3. cbn [hd fst]. rewrite D3. destruct PL2 as (X1 & _). rewrite X1, CL. exact (R3 eq_refl).
        -- right. split; [rewrite EM; destruct MB as [-> |[-> |[-> |[-> | ->]]]]; discriminate|]. apply (moved_next6 e2 e3 p0 m0 p1 m1 rest EP3); try assumption.
           unfold chars_left. rewrite D3. exact CL.
Qed.

(* ---- the main loop ---- *)
Definition MIx6 (e : enc) (nwr : N) : Prop :=
  e_input e = data /\
  (e_data e = [] \/
   (e_encodation e = Ascii /\ PL data e /\ AL e /\ m6_plan (e_planned e) /\ (nwr = 0 \/ (nwr <= 2 /\ first_pos e = 0))) \/
   (next_ok6 e /\ nwr <= 1)).

Definition mux6 (e : enc) : nat :=
  (3 * length (e_data e) + (match e_encodation e with Ascii => if (first_pos e =? 0)%N then 0 else 2 | _ => 1 end))%nat.

Lemma main_loop_total_x6 : forall fuel e nwr, (mux6 e < fuel)%nat -> MIx6 e nwr -> no_panic (main_loop fuel e nwr).
Proof.
  induction fuel as [|f IH]; intros e nwr HF (IN & HM); [lia|]. cbn [main_loop].
  destruct (has_more e) eqn:HMo; cbn [negb]; [|exact I].
  assert (e_data e <> []) as ND by (unfold has_more in HMo; destruct (e_data e); [discriminate|discriminate]).
  assert (1 <= length (e_data e))%nat as L1 by (destruct (e_data e); [contradiction|cbn [length]; lia]).
  set (e0 := match e_new_mode e with
             | Some m => push (mkenc (e_data e) (e_input e) (e_encodation e) (e_planned e) None (e_cw e) (e_modes e) (e_symbols e)) m
             | None => e end).
  assert (e_data e0 = e_data e /\ e_planned e0 = e_planned e /\ e_encodation e0 = e_encodation e /\ e_symbols e0 = e_symbols e /\ e_input e0 = e_input e) as (D0 & P0 & M0 & S0 & I0)
    by (unfold e0; destruct (e_new_mode e); repeat split).
  assert (PL data e -> PL data e0) as PL0.
  { intros (A & B & C). unfold PL, chars_left. rewrite D0, P0. split; [exact A|]. split; [exact B|exact C]. }
  assert (first_pos e0 = first_pos e /\ chars_left e0 = chars_left e) as [FP0 CL0] by (unfold first_pos, chars_left; rewrite D0, P0; split; reflexivity).
  assert (forall e', mode_encode e0 = Ok e' -> (length (e_cw e0) <= length (e_cw e'))%nat) as GR by (intros e' H; apply (cw_grows data); exact H).
  (* what follows an iteration that may have written less than two codewords: the end of the data, or ASCII until the end *)
  assert (forall e' k, e_input e' = data -> (k = 0 \/ (k <= 2 /\ (e_data e' = [] \/ (e_encodation e' = Ascii /\ first_pos e' = 0)))) -> (mux6 e' < f)%nat ->
            (e_data e' = [] \/
             (e_encodation e' = Ascii /\ first_pos e' = 0 /\ PL data e' /\ m6_plan (e_planned e')) \/
             (e_data e' <> [] /\ ((e_encodation e' = Ascii /\ PL data e' /\ AL e' /\ m6_plan (e_planned e')) \/ (e_encodation e' <> Ascii /\ next_ok6 e')))) ->
            no_panic (main_loop f e' k)) as NEXT.
  { intros e' k IN' Hk MU T3. apply IH; [exact MU|]. split; [exact IN'|].
    destruct T3 as [D'|[(E' & FZ & PL' & AB')|(ND' & MODES)]]; [left; exact D'| |].
    - right. left. split; [exact E'|]. split; [exact PL'|]. split; [unfold AL; rewrite FZ; apply aligned_0|]. split; [exact AB'|].
      destruct Hk as [-> |[Hk _]]; [left; reflexivity|right; split; [exact Hk|exact FZ]].
    - destruct Hk as [-> |[HK2 [Hk|(Hk1 & Hk2)]]].
      + destruct MODES as [(M1 & M3 & M4 & M5)|(M1 & M2)]; [right; left; split; [exact M1|split; [exact M3|split; [exact M4|split; [exact M5|left; reflexivity]]]]|right; right; split; [exact M2|lia]].
      + contradiction.
      + destruct MODES as [(M1 & M3 & M4 & M5)|(M1 & M2)]; [|contradiction].
        right. left. split; [exact M1|]. split; [exact M3|]. split; [exact M4|]. split; [exact M5|]. right. split; [exact HK2|exact Hk2]. }
  destruct HM as [HM|[(EA & HPL & HAL & AB & NW)|((N1 & N2 & N3 & N4 & N5 & N6) & NW)]]; [contradiction| |].
  - (* an ASCII run *)
    unfold mode_encode in *. rewrite M0, EA in *.
    destruct (ascii_total_x6 (S (S (length (e_data e0)))) e0 ltac:(lia) M0 ltac:(rewrite P0; exact AB) (PL0 HPL)
                ltac:(unfold AL; rewrite D0, FP0; exact HAL)) as (e' & AE & (P1 & P2 & P3)).
    rewrite AE. cbn [bind]. specialize (GR e' AE). pose proof (input_ascii _ _ _ AE) as IE.
    destruct (Nat.ltb_spec (length (e_cw e')) (length (e_cw e0))); [lia|].
    assert (forall k, (k <= 1 \/ e_data e' = []) -> no_panic (main_loop f e' k)) as NXA.
    { intros k Hk. apply IH.
      - unfold mux6 in *. rewrite EA in HF. rewrite D0 in P1. destruct P3 as [(D' & E')|(FP & (Q1 & _ & _ & _ & _ & MODES))].
        + rewrite D', E'. cbn [length]. destruct (first_pos e' =? 0); destruct (first_pos e =? 0); lia.
        + rewrite FP0 in FP. destruct (N.eqb_spec (first_pos e) 0); [lia|]. destruct MODES as [(E' & _)|[(E' & _)|[(E' & _)|[(E' & _)|(E' & _)]]]]; rewrite E'; lia.
      - split; [rewrite IE, I0; exact IN|]. destruct P3 as [(D' & _)|(FP & NO)]; [left; exact D'|]. right. right. split; [exact NO|]. destruct Hk as [Hk|Hk]; [exact Hk|]. destruct NO as (X & _). contradiction. }
    destruct (length (e_cw e') - length (e_cw e0) <=? 1)%nat.
    + assert (nwr + 1 <= 3) as B3 by (destruct NW as [-> |[NW _]]; lia). destruct (N.ltb_spec 5 (nwr + 1)); [lia|]. apply NXA.
      destruct P3 as [(D' & _)|(FP & _)]; [right; exact D'|]. left. rewrite FP0 in FP. destruct NW as [-> |[_ Z]]; lia.
    + apply NXA. left. lia.
  - destruct N6 as [(EB & NM & HRB)|[(EX & NM & HXB)|[(EE & NM)|[(EC & NM)|(EC & NM)]]]].
    + (* a Base256 run *)
      unfold e0 in *. rewrite NM in *. set (e1 := push (mkenc (e_data e) (e_input e) (e_encodation e) (e_planned e) None (e_cw e) (e_modes e) (e_symbols e)) 231) in *.
      unfold mode_encode in *. rewrite M0, EB in *. unfold base256_encode in *.
      set (pre := e_cw e1) in *.
      assert (1 <= length pre)%nat as LP by (unfold pre, e1; cbn [e_cw push set_cw]; rewrite app_length; cbn [length]; lia).
      assert (BIx6 pre (push e1 0)) as HBI.
      { destruct HRB as (R0 & R1 & R2).
        assert (first_pos (push e1 0) = first_pos e /\ chars_left (push e1 0) = chars_left e) as [FP CL] by (split; reflexivity).
        split; [exact EB|]. split; [exact N4|]. split; [exact N2|]. split; [exact N3|]. split; [rewrite FP, CL; exact R0|].
        exists []. split; [reflexivity|]. rewrite FP, CL. cbn [length]. split; [lia|intros P; specialize (R2 P); lia]. }
      pose proof (b256_total_x6 pre LP (S (S (length (e_data e1)))) (push e1 0) ltac:(cbn [e_data e1 push set_cw]; lia) HBI) as BT.
      destruct (b256_loop (S (S (length (e_data e1)))) (push e1 0) (length pre)) as [e'| |] eqn:BL; cbn [bind]; [|exact I|contradiction].
      pose proof (input_b256 _ _ _ _ BL) as IE. cbn [e_input e1 push set_cw] in IE.
      destruct BT as (Q1 & Q2 & Q3 & Q5). cbn [e_data e_new_mode e1 push set_cw] in Q2, Q5.
      destruct (Nat.ltb_spec (length (e_cw e')) (length pre)); [lia|].
      destruct (Nat.leb_spec (length (e_cw e') - length pre) 1); [lia|].
      apply (NEXT e' 0 ltac:(rewrite IE; exact IN) ltac:(left; reflexivity)).
      * unfold mux6 in *. rewrite EB in HF. destruct (e_encodation e'); try destruct (first_pos e' =? 0); lia.
      * destruct Q5 as [(Q5 & _)|[(Q5 & Q6 & Q7 & Q8 & Q9 & Q10)|(Q5 & Q6)]]; [left; exact Q5| |].
        -- right. right. split; [exact Q5|]. left. split; [exact Q6|]. split; [exact Q8|]. split; [exact Q9|exact Q10].
        -- right. right. split; [destruct Q6 as (X & _); exact X|]. right. split; [exact Q5|exact Q6].
    + (* an X12 run *)
      unfold e0 in *. rewrite NM in *. set (e1 := push (mkenc (e_data e) (e_input e) (e_encodation e) (e_planned e) None (e_cw e) (e_modes e) (e_symbols e)) 238) in *.
      unfold mode_encode in *. rewrite M0, EX in *.
      pose proof (x12_total6 e1 ltac:(exact EX) ltac:(exact N4) (PL0 N2) ltac:(unfold CM in *; exact N3)) as XT.
      assert (XL6 e1) as HXL by (split; [exact HXB|intros _; exact N5]). specialize (XT HXL).
      destruct (x12_encode e1) as [e'| |] eqn:XE; cbn [bind]; [|exact I|contradiction]. specialize (GR e' eq_refl).
      pose proof (input_x12 _ _ XE) as IE. cbn [e_input e1 push set_cw] in IE.
      destruct XT as (T1 & T2 & T3). cbn [e_data e1 push set_cw] in T2.
      destruct (Nat.ltb_spec (length (e_cw e')) (length (e_cw e1))); [lia|].
      assert (mux6 e' < f)%nat as MU.
      { unfold mux6 in *. rewrite EX in HF. destruct T3 as [D'|[(E' & FZ & _)|(_ & T4 & _)]].
        - rewrite D'. cbn [length]. destruct (e_encodation e'); try destruct (first_pos e' =? 0); lia.
        - rewrite E', FZ. cbn [N.eqb]. lia.
        - cbn [e_data e1 push set_cw] in T4. destruct (e_encodation e'); try destruct (first_pos e' =? 0); lia. }
      assert (e_data e' = [] \/ (e_encodation e' = Ascii /\ first_pos e' = 0 /\ PL data e' /\ m6_plan (e_planned e')) \/
              (e_data e' <> [] /\ ((e_encodation e' = Ascii /\ PL data e' /\ AL e' /\ m6_plan (e_planned e')) \/ (e_encodation e' <> Ascii /\ next_ok6 e')))) as CLS.
      { destruct T3 as [D'|[T3|(_ & _ & ND' & [(M1 & _ & M3 & M4 & M5)|M2])]]; [left; exact D'|right; left; exact T3|right; right; split; [exact ND'|left; split; [exact M1|split; [exact M3|split; [exact M4|exact M5]]]]|right; right; split; [exact ND'|right; exact M2]]. }
      destruct (Nat.leb_spec (length (e_cw e') - length (e_cw e1)) 1) as [LE|GT].
      * destruct (N.ltb_spec 5 (nwr + 1)); [lia|]. apply (NEXT e' (nwr + 1) ltac:(rewrite IE; exact IN)); [|exact MU|exact CLS]. right. split; [lia|].
        destruct T3 as [D'|[(E' & FZ & _)|(T3 & _)]]; [left; exact D'|right; split; assumption|lia].
      * apply (NEXT e' 0 ltac:(rewrite IE; exact IN) ltac:(left; reflexivity) MU CLS).
    + (* an EDIFACT run *)
      unfold e0 in *. rewrite NM in *. set (e1 := push (mkenc (e_data e) (e_input e) (e_encodation e) (e_planned e) None (e_cw e) (e_modes e) (e_symbols e)) 240) in *.
      unfold mode_encode in *. rewrite M0, EE in *. unfold edifact_encode in *.
      assert (EJ6 e1 e1 []) as HJ.
      { split; [exact (PL0 N2)|]. split; [exact IN|]. split; [reflexivity|]. split; [lia|]. split; [cbn [length]; lia|]. split; [cbn [length]; lia|].
        destruct N2 as (_ & X & _). exact X. }
      pose proof (edi_run_total6 e1 (S (length (e_data e1))) e1 [] ltac:(lia) HJ EE N4 ltac:(unfold CM in *; exact N3) eq_refl ltac:(right; exact N5)) as ET.
      match goal with |- no_panic (let* e' := ?X in _) => destruct X as [e'| |] eqn:XE end; cbn [bind]; [|exact I|contradiction]. specialize (GR e' eq_refl).
      destruct ET as (T1 & IE & T2 & T3). cbn [e_data e1 push set_cw] in T2.
      destruct (Nat.ltb_spec (length (e_cw e')) (length (e_cw e1))); [lia|].
      assert (mux6 e' < f)%nat as MU.
      { unfold mux6 in *. rewrite EE in HF. destruct T3 as [D'|[(E' & FZ & _)|(_ & T4 & _)]].
        - rewrite D'. cbn [length]. destruct (e_encodation e'); try destruct (first_pos e' =? 0); lia.
        - rewrite E', FZ. cbn [N.eqb]. lia.
        - cbn [e_data e1 push set_cw] in T4. destruct (e_encodation e'); try destruct (first_pos e' =? 0); lia. }
      assert (e_data e' = [] \/ (e_encodation e' = Ascii /\ first_pos e' = 0 /\ PL data e' /\ m6_plan (e_planned e')) \/
              (e_data e' <> [] /\ ((e_encodation e' = Ascii /\ PL data e' /\ AL e' /\ m6_plan (e_planned e')) \/ (e_encodation e' <> Ascii /\ next_ok6 e')))) as CLS.
      { destruct T3 as [D'|[T3|(_ & _ & ND' & [(M1 & _ & M3 & M4 & M5)|M2])]]; [left; exact D'|right; left; exact T3|right; right; split; [exact ND'|left; split; [exact M1|split; [exact M3|split; [exact M4|exact M5]]]]|right; right; split; [exact ND'|right; exact M2]]. }
      destruct (Nat.leb_spec (length (e_cw e') - length (e_cw e1)) 1) as [LE|GT].
      * destruct (N.ltb_spec 5 (nwr + 1)); [lia|]. apply (NEXT e' (nwr + 1) IE); [|exact MU|exact CLS]. right. split; [lia|].
        destruct T3 as [D'|[(E' & FZ & _)|(T3 & _)]]; [left; exact D'|right; split; assumption|lia].
      * apply (NEXT e' 0 IE ltac:(left; reflexivity) MU CLS).
    + (* a C40 run *)
      unfold e0 in *. rewrite NM in *. set (e1 := push (mkenc (e_data e) (e_input e) (e_encodation e) (e_planned e) None (e_cw e) (e_modes e) (e_symbols e)) 230) in *.
      unfold mode_encode in *. rewrite M0, EC in *.
      assert (CJ6 e1 e1 []) as HJ.
      { split; [exact (PL0 N2)|]. split; [exact IN|]. split; [reflexivity|]. split; [lia|]. split; [cbn [length]; lia|]. split; [constructor|]. split; [lia|].
        split; [intros X; contradiction|]. split; [intros X; lia|]. destruct N2 as (_ & X & _). exact X. }
      assert (match c40_encode false e1 with Panic _ => False | Err _ => True | Ok e' => post_edi6 e1 e' end) as ET.
      { unfold c40_encode. pose proof (c40_run_total6 e1 false C40 (S (length (e_data e1))) e1 [] 0 ltac:(lia) HJ EC N4 ltac:(unfold CM in *; exact N3) eq_refl ltac:(right; exact N5)) as R.
        destruct (c40_loop _ _ _ _ _) as [[[e2 b2] l2]| |]; cbn [bind]; exact R. }
      match goal with |- no_panic (let* e' := ?X in _) => destruct X as [e'| |] eqn:XE end; cbn [bind]; [|exact I|contradiction]. specialize (GR e' eq_refl).
      destruct ET as (T1 & IE & T2 & T3). cbn [e_data e1 push set_cw] in T2.
      destruct (Nat.ltb_spec (length (e_cw e')) (length (e_cw e1))); [lia|].
      assert (mux6 e' < f)%nat as MU.
      { unfold mux6 in *. rewrite EC in HF. destruct T3 as [D'|[(E' & FZ & _)|(_ & T4 & _)]].
        - rewrite D'. cbn [length]. destruct (e_encodation e'); try destruct (first_pos e' =? 0); lia.
        - rewrite E', FZ. cbn [N.eqb]. lia.
        - cbn [e_data e1 push set_cw] in T4. destruct (e_encodation e'); try destruct (first_pos e' =? 0); lia. }
      assert (e_data e' = [] \/ (e_encodation e' = Ascii /\ first_pos e' = 0 /\ PL data e' /\ m6_plan (e_planned e')) \/
              (e_data e' <> [] /\ ((e_encodation e' = Ascii /\ PL data e' /\ AL e' /\ m6_plan (e_planned e')) \/ (e_encodation e' <> Ascii /\ next_ok6 e')))) as CLS.
      { destruct T3 as [D'|[T3|(_ & _ & ND' & [(M1 & _ & M3 & M4 & M5)|M2])]]; [left; exact D'|right; left; exact T3|right; right; split; [exact ND'|left; split; [exact M1|split; [exact M3|split; [exact M4|exact M5]]]]|right; right; split; [exact ND'|right; exact M2]]. }
      destruct (Nat.leb_spec (length (e_cw e') - length (e_cw e1)) 1) as [LE|GT].
      * destruct (N.ltb_spec 5 (nwr + 1)); [lia|]. apply (NEXT e' (nwr + 1) IE); [|exact MU|exact CLS]. right. split; [lia|].
        destruct T3 as [D'|[(E' & FZ & _)|(T3 & _)]]; [left; exact D'|right; split; assumption|lia].
      * apply (NEXT e' 0 IE ltac:(left; reflexivity) MU CLS).
    + (* a Text run *)
      unfold e0 in *. rewrite NM in *. set (e1 := push (mkenc (e_data e) (e_input e) (e_encodation e) (e_planned e) None (e_cw e) (e_modes e) (e_symbols e)) 239) in *.
      unfold mode_encode in *. rewrite M0, EC in *.
      assert (CJ6 e1 e1 []) as HJ.
      { split; [exact (PL0 N2)|]. split; [exact IN|]. split; [reflexivity|]. split; [lia|]. split; [cbn [length]; lia|]. split; [constructor|]. split; [lia|].
        split; [intros X; contradiction|]. split; [intros X; lia|]. destruct N2 as (_ & X & _). exact X. }
      assert (match c40_encode true e1 with Panic _ => False | Err _ => True | Ok e' => post_edi6 e1 e' end) as ET.
      { unfold c40_encode. pose proof (c40_run_total6 e1 true Text (S (length (e_data e1))) e1 [] 0 ltac:(lia) HJ EC N4 ltac:(unfold CM in *; exact N3) eq_refl ltac:(right; exact N5)) as R.
        destruct (c40_loop _ _ _ _ _) as [[[e2 b2] l2]| |]; cbn [bind]; exact R. }
      match goal with |- no_panic (let* e' := ?X in _) => destruct X as [e'| |] eqn:XE end; cbn [bind]; [|exact I|contradiction]. specialize (GR e' eq_refl).
      destruct ET as (T1 & IE & T2 & T3). cbn [e_data e1 push set_cw] in T2.
      destruct (Nat.ltb_spec (length (e_cw e')) (length (e_cw e1))); [lia|].
      assert (mux6 e' < f)%nat as MU.
      { unfold mux6 in *. rewrite EC in HF. destruct T3 as [D'|[(E' & FZ & _)|(_ & T4 & _)]].
        - rewrite D'. cbn [length]. destruct (e_encodation e'); try destruct (first_pos e' =? 0); lia.
        - rewrite E', FZ. cbn [N.eqb]. lia.
        - cbn [e_data e1 push set_cw] in T4. destruct (e_encodation e'); try destruct (first_pos e' =? 0); lia. }
      assert (e_data e' = [] \/ (e_encodation e' = Ascii /\ first_pos e' = 0 /\ PL data e' /\ m6_plan (e_planned e')) \/
              (e_data e' <> [] /\ ((e_encodation e' = Ascii /\ PL data e' /\ AL e' /\ m6_plan (e_planned e')) \/ (e_encodation e' <> Ascii /\ next_ok6 e')))) as CLS.
      { destruct T3 as [D'|[T3|(_ & _ & ND' & [(M1 & _ & M3 & M4 & M5)|M2])]]; [left; exact D'|right; left; exact T3|right; right; split; [exact ND'|left; split; [exact M1|split; [exact M3|split; [exact M4|exact M5]]]]|right; right; split; [exact ND'|right; exact M2]]. }
      destruct (Nat.leb_spec (length (e_cw e') - length (e_cw e1)) 1) as [LE|GT].
      * destruct (N.ltb_spec 5 (nwr + 1)); [lia|]. apply (NEXT e' (nwr + 1) IE); [|exact MU|exact CLS]. right. split; [lia|].
        destruct T3 as [D'|[(E' & FZ & _)|(T3 & _)]]; [left; exact D'|right; split; assumption|lia].
      * apply (NEXT e' 0 IE ltac:(left; reflexivity) MU CLS).
Qed.
End T.

(* ---- the entry points, every mode set ---- *)
Lemma bytes_firstn k l : bytes_ok l = true -> bytes_ok (firstn k l) = true.
Proof. intros H. unfold bytes_ok in *. rewrite <- (firstn_skipn k l), forallb_app in H. apply andb_true_iff in H. exact (proj1 H). Qed.
Lemma bytes_skipn k l : bytes_ok l = true -> bytes_ok (skipn k l) = true.
Proof. intros H. unfold bytes_ok in *. rewrite <- (firstn_skipn k l), forallb_app in H. apply andb_true_iff in H. exact (proj2 H). Qed.
Lemma m6_all m : m6_mode m.
Proof. unfold m6_mode. destruct m; tauto. Qed.

Lemma codewords_abx_total6 sorter e :
  (forall sl k l, exists l', sorter sl k l = Ok l' /\ incl l' l) ->
  bytes_ok (e_data e) = true -> e_encodation e = Ascii -> e_input e = e_data e ->
  no_panic (codewords (optimize_fn sorter) e).
Proof.
  intros HS HBY EA EI. unfold codewords. destruct (e_symbols e) as [|s0 sr] eqn:ES; [exact I|]. rewrite <- ES.
  set (symbols := e_symbols e). set (data := e_data e). set (modes := e_modes e).
  assert (forall k l l', sorter symbols k l = Ok l' -> incl l' l) as HI.
  { intros k l l' E. destruct (HS symbols k l) as (l2 & E2 & I2). rewrite E in E2. inversion E2; subst. exact I2. }
  destruct (_ <? _); [exact I|]. destruct (upper_limit_for_number_of_codewords _ _); [|exact I].
  unfold optimize_fn.
  destruct (optimize_total symbols (sorter symbols) (HS symbols) data (cw_len e) Ascii modes) as [[r st] EO]. rewrite EO. cbn [bind lift].
  destruct r as [p|]; [|exact I]. rewrite EA.
  set (e0 := mkenc data (e_input e) Ascii p (e_new_mode e) (e_cw e) modes symbols).
  assert (no_panic (main_loop (6 * length (e_data e0) + 12) e0 0)) as NP.
  { apply (main_loop_total_x6 data HBY); [unfold mux6; cbn [e_data e_encodation e0]; destruct (first_pos e0 =? 0); lia|].
    split; [exact EI|]. assert (data = [] \/ data <> []) as [ED|ND] by (destruct data; [left; reflexivity|right; discriminate]); [left; exact ED|].
    destruct (optimize_align symbols data (sorter symbols) (HS symbols) (cw_len e) Ascii modes p st ND EO) as (NE & (RO & AO) & FIRST).
    destruct (optimize_shape symbols (sorter symbols) HI data (cw_len e) Ascii modes p st EO) as (_ & MO & LA).
    right. left. split; [reflexivity|]. destruct p as [|[p0 m0] rest]; [contradiction|]. destruct FIRST as [F1 F2].
    split; [|split; [exact F2|split; [|left; reflexivity]]].
    - split; [cbn [e_data e0]; unfold chars_left; cbn [e_data]; symmetry; apply PlanAlign.suffix_n|]. split; [cbn [e_data e0]; lia|].
      cbn [e_planned e0]. split; [unfold chars_left; cbn [e_data]; exact F1|]. split; [split; assumption|exact (LA ltac:(discriminate))].
    - unfold m6_plan. apply Forall_forall. intros x Hx. apply m6_all. }
  change (e_data e0) with data in *.
  destruct (main_loop (6 * length data + 12) e0 0) as [e3| |]; cbn [bind]; [|exact I|contradiction].
  destruct (symbol_for e3 0) as [s'|] eqn:SF; [|exact I].
  destruct (add_padding_total e3 s' SF) as (e4 & ->). exact I.
Qed.

(* every byte string, symbol list, macro / FNC1 option and ECI number up to 999999 *)
Theorem abx_total6 sorter data symbols eci modes use_macros fnc1 :
  (forall sl k l, exists l', sorter sl k l = Ok l' /\ incl l' l) ->
  bytes_ok data = true ->
  match eci with Some c => c <= 999999 | None => True end ->
  no_panic (encode_data_internal (optimize_fn sorter) data symbols eci modes use_macros fnc1).
Proof.
  intros HS HBY HE. unfold encode_data_internal. cbv zeta.
  set (e := with_size data symbols modes fnc1).
  assert (forall e1, e_encodation e1 = Ascii -> bytes_ok (e_data e1) = true -> e_input e1 = e_data e1 ->
            no_panic (let* e2 := match eci with Some c => enc_write_eci e1 c | None => Ok e1 end in codewords (optimize_fn sorter) e2)) as STEP.
  { intros e1 A1 A3 A4. destruct eci as [c|]; cbn [bind].
    - destruct (enc_write_eci_total e1 c HE) as (e2 & E2). rewrite E2. cbn [bind]. unfold enc_write_eci in E2. destruct (write_eci c); try discriminate.
      inversion E2; subst e2. apply codewords_abx_total6; [exact HS|exact A3|exact A1|exact A4].
    - apply codewords_abx_total6; [exact HS|exact A3|exact A1|exact A4]. }
  destruct use_macros.
  - destruct (use_macro_spec e) as (e1 & UM & _). rewrite UM. cbn [bind]. destruct (use_macro_keeps e e1 UM) as (K1 & K2 & K3).
    assert (bytes_ok (e_data e1) = true /\ e_input e1 = e_data e1) as [B1 I1].
    { revert UM. unfold use_macro_if_possible. destruct (_ || _); [intros [= <-]; split; [exact HBY|reflexivity]|].
      destruct (starts_with (e_data e) MACRO05_HEAD); [|destruct (starts_with (e_data e) MACRO06_HEAD); [|intros [= <-]; split; [exact HBY|reflexivity]]];
        (destruct (_ || _); [discriminate|]; intros [= <-]; split; [cbn [e_data]; apply bytes_firstn; exact (bytes_skipn 7 data HBY)|reflexivity]). }
    apply STEP; [rewrite K1; reflexivity|exact B1|exact I1].
  - cbn [bind]. apply STEP; [reflexivity|exact HBY|reflexivity].
Qed.
Print Assumptions abx_total6.

(* in the words of the property: a value, or an error that is 'symbol list empty' exactly for the empty list *)
Theorem value_or_classified_error sorter data symbols eci modes use_macros fnc1 :
  (forall sl k l, exists l', sorter sl k l = Ok l' /\ incl l' l) ->
  bytes_ok data = true ->
  match eci with Some c => c <= 999999 | None => True end ->
  (exists cw size, encode_data_internal (optimize_fn sorter) data symbols eci modes use_macros fnc1 = Ok (cw, size)) \/
  (exists x, encode_data_internal (optimize_fn sorter) data symbols eci modes use_macros fnc1 = Err x /\
             (x = SymbolListEmpty <-> symbols = []) /\ (x <> SymbolListEmpty -> x = TooMuchOrIllegalData)).
Proof.
  intros HS HB HE. pose proof (abx_total6 sorter data symbols eci modes use_macros fnc1 HS HB HE) as NP.
  destruct (encode_data_internal (optimize_fn sorter) data symbols eci modes use_macros fnc1) as [[cw size]|x|p] eqn:E.
  - left. exists cw, size. reflexivity.
  - right. exists x. split; [reflexivity|]. split; [exact (encode_internal_err _ _ _ _ _ _ _ _ E)|]. intros NE. destruct x; try reflexivity; exfalso; apply NE; reflexivity.
  - contradiction.
Qed.

(* through DataMatrixBuilder::encode_eci, which appends the error correction codewords: the Reed-Solomon step is total on a data vector of
   the chosen symbol's capacity, which is what the padding produces *)
Theorem builder_total sorter data symbols modes use_macros fnc1 eci :
  (forall sl k l, exists l', sorter sl k l = Ok l' /\ incl l' l) ->
  bytes_ok data = true ->
  match eci with Some c => c <= 999999 | None => True end ->
  no_panic (encode_eci sorter data symbols modes use_macros fnc1 eci).
Proof.
  intros HS HB HE. unfold encode_eci. pose proof (abx_total6 sorter data symbols eci modes use_macros fnc1 HS HB HE) as NP.
  destruct (encode_data_internal (optimize_fn sorter) data symbols eci modes use_macros fnc1) as [[cw size]|x|p] eqn:E; cbn [bind]; [|exact I|contradiction].
  destruct (encode_internal_ok _ _ _ _ _ _ _ _ _ E) as (_ & L & _).
  destruct (encode_error_total size cw ltac:(lia)) as (ecc & ->). exact I.
Qed.
