(* Proofs/ErrLoc.v -- when the syndromes are the power sums of a set of at most t weighted points (the errors), a state
   of the Levinson-Durbin recursion that satisfies (3) and whose polynomial [w, 1] annihilates the first t Hankel rows
   has exactly as many coefficients as there are points, and its roots are exactly their locators. *)
From Coq Require Import Arith NArith List Bool Lia Ring Field.
From DM Require Import Spec.GF256 Spec.Poly Proofs.RSDecProofs Proofs.MinDistance Proofs.LDMath.
Import ListNotations.
Local Open Scope nat_scope.

Definition wpoly (c : nat -> F) (n : nat) (X : F) : F := fsum n (fun j => Fmul (c j) (Fpow X j)).
Definition reweigh (L : list (F * F)) (c : nat -> F) (n : nat) : list (F * F) :=
  map (fun p => (Fmul (fst p) (wpoly c n (snd p)), snd p)) L.

Lemma S_nil j : S j [] = F0. Proof. reflexivity. Qed.

Lemma fsum_S_points L c n r : fsum n (fun j => Fmul (S (r + j) L) (c j)) = S r (reweigh L c n).
Proof.
  induction L as [|[z X] R IH].
  - cbn [reweigh map]. rewrite S_nil. apply fsum_zero. intros j _. rewrite S_nil. ring.
  - cbn [reweigh map fst snd]. rewrite S_cons. fold (reweigh R c n). rewrite <- IH. unfold term. cbn [fst snd].
    rewrite (fsum_ext n _ (fun j => Fadd (Fmul (Fmul z (Fpow X r)) (Fmul (c j) (Fpow X j))) (Fmul (S (r + j) R) (c j)))).
    + rewrite fsum_add, fsum_scale. unfold wpoly. ring.
    + intros j _. rewrite S_cons. unfold term. cbn [fst snd]. rewrite Fpow_add. ring.
Qed.

Lemma reweigh_locs L c n : map snd (reweigh L c n) = map snd L.
Proof. unfold reweigh. rewrite map_map. reflexivity. Qed.
Lemma reweigh_length L c n : length (reweigh L c n) = length L.
Proof. unfold reweigh. apply map_length. Qed.

Section Points.
Variable L : list (F * F).
Hypothesis ND : NoDup (map snd L).
Hypothesis NZ : Forall (fun p => fst p <> F0) L.
Variable Sf : nat -> F.

Lemma hs_points K n c r : (forall j, j < K -> Sf j = S j L) -> r + n <= K -> hs Sf n c r = S r (reweigh L c n).
Proof.
  intros HS Hr. rewrite <- fsum_S_points. unfold hs. apply fsum_ext. intros j Hj. rewrite HS by lia. reflexivity.
Qed.

(* (3) cannot hold beyond the number of points *)
Lemma order_le v y : 1 <= v -> Inv3 Sf v y -> (forall j, j < 2 * v -> Sf j = S j L) -> v <= length L.
Proof.
  intros Hv I3 HS. destruct (Nat.le_gt_cases v (length L)) as [LE|GT]; [exact LE|exfalso].
  set (L2 := reweigh L y v).
  assert (forall i, i < v -> S i L2 = hs Sf v y i) as E by (intros i Hi; symmetry; apply (hs_points (2 * v)); [exact HS|lia]).
  assert (Forall (fun p => fst p = F0) L2) as Z.
  { apply vandermonde_T; [unfold L2; rewrite reweigh_locs; exact ND|]. unfold L2 at 1. rewrite reweigh_length. intros j Hj.
    rewrite E by lia. rewrite (I3 j) by lia. unfold delta. destruct (Nat.eqb_spec j (v - 1)); [lia|reflexivity]. }
  assert (S (v - 1) L2 = F0) as Z1.
  { clear - Z. induction L2 as [|[y0 X] R IH]; [reflexivity|]. inversion Z as [|? ? H0 Z']; subst. cbn [fst] in H0. subst y0.
    rewrite S_cons, IH by exact Z'. unfold term. cbn [fst snd]. ring. }
  rewrite E in Z1 by lia. rewrite (I3 (v - 1)) in Z1 by lia. unfold delta in Z1. rewrite Nat.eqb_refl in Z1.
  assert (Fval F1 = Fval F0) as C by (rewrite Z1; reflexivity). discriminate C.
Qed.

(* annihilating the first t rows forces the polynomial to vanish at every locator *)
Lemma annihilator_roots t n T : length L <= t -> (forall j, j + 1 < t + n -> Sf j = S j L) ->
  (forall r, r < t -> hs Sf n T r = F0) -> forall p, In p L -> wpoly T n (snd p) = F0.
Proof.
  intros Le HS HA. set (L3 := reweigh L T n).
  assert (Forall (fun p => fst p = F0) L3) as Z.
  { apply vandermonde_T; [unfold L3; rewrite reweigh_locs; exact ND|]. unfold L3 at 1. rewrite reweigh_length. intros j Hj.
    unfold L3. rewrite <- (hs_points (t + n - 1)); [apply HA; lia|intros i Hi; apply HS; lia|lia]. }
  intros p Hp. unfold L3, reweigh in Z. rewrite Forall_map in Z. rewrite Forall_forall in Z, NZ.
  specialize (Z p Hp). cbn [fst] in Z. apply Fmul_integral in Z. destruct Z as [Z|Z]; [exfalso; exact (NZ p Hp Z)|exact Z].
Qed.

(* the polynomial as a coefficient list, highest degree first *)
Lemma wpoly_peval T n X : peval (map T (rev (seq 0 n))) X = wpoly T n X.
Proof.
  induction n as [|n IH]; [reflexivity|]. rewrite seq_S, rev_app_distr. cbn [rev app map Nat.add].
  rewrite peval_cons, IH, map_length, rev_length, seq_length. unfold wpoly. cbn [fsum]. ring.
Qed.

Lemma NoDup_firstn {A} n (l : list A) : NoDup l -> NoDup (firstn n l).
Proof.
  revert l. induction n as [|n IH]; intros l H; [constructor|]. destruct l as [|x r]; [constructor|]. cbn [firstn].
  inversion H; subst. constructor; [|apply IH; assumption]. intros Hin. apply H2. clear - Hin. revert r Hin. induction n as [|n IHn]; intros r Hin; [destruct Hin|].
  destruct r as [|y r']; [destruct Hin|]. cbn [firstn] in Hin. destruct Hin as [->|Hin]; [now left|right; apply IHn; exact Hin].
Qed.

Lemma In_firstn_in {A} n (l : list A) x : In x (firstn n l) -> In x l.
Proof.
  revert l. induction n as [|n IH]; intros l H; [destruct H|]. destruct l as [|y r]; [destruct H|]. cbn [firstn] in H.
  destruct H as [->|H]; [now left|right; apply IH; exact H].
Qed.

(* a monic polynomial of degree v vanishing at all locators: at most v points, and no other root if there are v *)
Lemma monic_roots_le v T : T v = F1 -> (forall p, In p L -> wpoly T (Datatypes.S v) (snd p) = F0) -> length L <= v.
Proof.
  intros Mon HR. destruct (Nat.le_gt_cases (length L) v) as [LE|GT]; [exact LE|exfalso].
  set (xs := firstn (Datatypes.S v) (map snd L)).
  assert (length xs = Datatypes.S v) as Lx by (unfold xs; rewrite firstn_length, map_length; lia).
  assert (Forall (fun c => c = F0) (map T (rev (seq 0 (Datatypes.S v))))) as Z.
  { apply (roots_zero xs); [apply NoDup_firstn; exact ND|rewrite map_length, rev_length, seq_length; lia|].
    intros x Hx. apply In_firstn_in in Hx. apply in_map_iff in Hx. destruct Hx as (p & <- & Hp). rewrite wpoly_peval. apply HR. exact Hp. }
  rewrite seq_S, rev_app_distr in Z. cbn [rev app map Nat.add] in Z. inversion Z as [|? ? H0 _]; subst. rewrite Mon in H0.
  assert (Fval F1 = Fval F0) as C by (rewrite H0; reflexivity). discriminate C.
Qed.

Lemma monic_roots_only v T : T v = F1 -> (forall p, In p L -> wpoly T (Datatypes.S v) (snd p) = F0) -> length L = v ->
  forall x, wpoly T (Datatypes.S v) x = F0 -> In x (map snd L).
Proof.
  intros Mon HR Len x Hx. destruct (in_dec (fun a b => match N.eq_dec (Fval a) (Fval b) with left e => left (F_eq _ _ e) | right n => right (fun e => n (f_equal Fval e)) end) x (map snd L)) as [I|NI]; [exact I|exfalso].
  assert (Forall (fun c => c = F0) (map T (rev (seq 0 (Datatypes.S v))))) as Z.
  { apply (roots_zero (x :: map snd L)); [constructor; assumption|rewrite map_length, rev_length, seq_length; cbn [length]; rewrite map_length; lia|].
    intros x' [<-|Hx']; rewrite wpoly_peval; [exact Hx|]. apply in_map_iff in Hx'. destruct Hx' as (p & <- & Hp). apply HR. exact Hp. }
  rewrite seq_S, rev_app_distr in Z. cbn [rev app map Nat.add] in Z. inversion Z as [|? ? H0 _]; subst. rewrite Mon in H0.
  assert (Fval F1 = Fval F0) as C by (rewrite H0; reflexivity). discriminate C.
Qed.

(* the exit state of the recursion, when the syndromes are the power sums of at most t points *)
Theorem locator_correct t v y w : 1 <= v -> v <= t -> length L <= t ->
  (forall j, j < 2 * t -> Sf j = S j L) -> Inv3 Sf v y ->
  (forall r, r < t -> hs Sf (Datatypes.S v) (ext1 v w) r = F0) ->
  v = length L /\
  (forall p, In p L -> wpoly (ext1 v w) (Datatypes.S v) (snd p) = F0) /\
  (forall x, wpoly (ext1 v w) (Datatypes.S v) x = F0 -> In x (map snd L)).
Proof.
  intros Hv Hvt Le HS I3 HA.
  assert (v <= length L) as A by (apply (order_le v y Hv I3); intros j Hj; apply HS; lia).
  assert (forall p, In p L -> wpoly (ext1 v w) (Datatypes.S v) (snd p) = F0) as R.
  { apply (annihilator_roots t); [exact Le|intros j Hj; apply HS; lia|exact HA]. }
  assert (ext1 v w v = F1) as Mon by (unfold ext1; destruct (Nat.ltb_spec v v); [lia|]; rewrite Nat.eqb_refl; reflexivity).
  pose proof (monic_roots_le v _ Mon R) as B. assert (v = length L) as EQ by lia.
  split; [exact EQ|]. split; [exact R|]. apply monic_roots_only; [exact Mon|exact R|lia].
Qed.
End Points.
