(* Proofs/PlanShape.v -- properties C18 (shape of the plan) and C13 (planner side): every plan returned
   by optimize names only enabled modes, its positions never increase, start at most at the input
   length and end at 0.  Holds for every cost model (nothing about costs is used) and for every sort
   that returns a sub-multiset of its input. *)
From Coq Require Import Arith NArith List Bool Lia.
From DM Require Import Generated.Symbols Generated.ModeTables Model.Outcome Model.SymbolList Model.Planner.
Import ListNotations.
Local Open Scope N_scope.

(* positions non-increasing, all between lo and hi *)
Fixpoint pos_ok (hi : N) (sw : list (N * EncodationType)) (lo : N) : Prop :=
  match sw with
  | [] => lo <= hi
  | (p, _) :: r => p <= hi /\ pos_ok p r lo
  end.

Lemma pos_ok_weaken sw : forall hi lo lo', pos_ok hi sw lo -> lo' <= lo -> pos_ok hi sw lo'.
Proof. induction sw as [|[p m] r IH]; intros hi lo lo' H L; cbn [pos_ok] in *; [lia|]. destruct H. split; [assumption|eapply IH; eassumption]. Qed.

Lemma pos_ok_snoc sw : forall hi lo m, pos_ok hi sw lo -> pos_ok hi (sw ++ [(lo, m)]) lo.
Proof. induction sw as [|[p m0] r IH]; intros hi lo m H; cbn [pos_ok app] in *; [split; lia|]. destruct H. split; [assumption|now apply IH]. Qed.

Lemma pos_ok_lo_le sw : forall hi lo, pos_ok hi sw lo -> lo <= hi.
Proof. induction sw as [|[p m] r IH]; intros hi lo H; cbn [pos_ok] in H; [exact H|]. destruct H as [A B]. apply IH in B. lia. Qed.

Definition modes_ok (modes : N) (sw : list (N * EncodationType)) : Prop := Forall (fun e => enabled modes (snd e) = true) sw.

(* invariant of a candidate plan while `rest` characters are still to be read *)
Definition plan_inv (n modes rest : N) (g : generic_plan) : Prop :=
  pos_ok n (gp_switches g) rest /\ modes_ok modes (gp_switches g) /\
  exists p, last (gp_switches g) (0, Ascii) = (p, gp_current g) /\ gp_switches g <> [].

Lemma last_snoc {A} (l : list A) x d : last (l ++ [x]) d = x.
Proof. apply last_last. Qed.

Section Shape.
Variable sl : list SymbolSize.

Lemma gp_step_inv n modes rest g sr g' : gp_step sl g = Ok (Some (sr, g')) -> plan_inv n modes rest g -> plan_inv n modes rest g'.
Proof.
  unfold gp_step. intros H (P & M & L).
  destruct (gp_plan g) eqn:E;
    match type of H with context [ap_step ?p] => destruct (ap_step p) as [[[s1 p1]|]| |]
                       | context [cp_step sl ?p] => destruct (cp_step sl p) as [[[s1 p1]|]| |]
                       | context [xp_step sl ?p] => destruct (xp_step sl p) as [[[s1 p1]|]| |]
                       | context [ep_step sl ?p] => destruct (ep_step sl p) as [[[s1 p1]|]| |]
                       | context [bp_step ?p] => destruct (bp_step p) as [[s1 p1]|]
    end; cbn [bind] in H; try discriminate; inversion H; subst;
    (split; [exact P|split; [exact M|]]); unfold gp_current in *; cbn [gp_plan gp_switches]; rewrite E in L; exact L.
Qed.

Lemma add_switch_inv n modes rest g ctx ac st mode extra l s l' s' :
  add_switch sl g ctx ac rest st mode extra (l, s) = Ok (l', s') ->
  plan_inv n modes rest g -> enabled modes mode = true -> rest <= n ->
  Forall (plan_inv n modes rest) l -> Forall (plan_inv n modes rest) l'.
Proof.
  unfold add_switch. intros H (P & M & L) En Hr Hl.
  destruct (if st then _ else _) as [sw| |] eqn:ES; cbn [bind] in H; try discriminate.
  assert (pos_ok n sw rest /\ modes_ok modes sw /\ last sw (0, Ascii) = (rest, mode) /\ sw <> []) as (PS & MS & LS & NS).
  { destruct st.
    - destruct (negb _); [discriminate|]. inversion ES; subst. cbn [pos_ok last]. repeat split; try lia; [|discriminate].
      constructor; [exact En|constructor].
    - inversion ES; subst. repeat split.
      + now apply pos_ok_snoc.
      + apply Forall_app. split; [exact M|]. constructor; [exact En|constructor].
      + apply last_snoc.
      + destruct (gp_switches g); discriminate. }
  match type of H with (let* stepped := ?X in _) = _ => destruct X as [[pl|]| |] eqn:EX end; cbn [bind] in H; try discriminate;
    inversion H; subst; [|exact Hl].
  apply Forall_app. split; [exact Hl|]. constructor; [|constructor].
  split; [exact PS|split; [exact MS|]]. exists rest. cbn [gp_switches]. split; [|exact NS]. rewrite LS. f_equal.
  unfold gp_current. cbn [gp_plan].
  destruct mode; cbn [bind] in EX.
  - destruct (ap_step _) as [[[? ?]|]| |]; cbn [bind option_map] in EX; inversion EX; reflexivity.
  - destruct (cp_step sl _) as [[[? ?]|]| |]; cbn [bind option_map] in EX; inversion EX; reflexivity.
  - destruct (cp_step sl _) as [[[? ?]|]| |]; cbn [bind option_map] in EX; inversion EX; reflexivity.
  - destruct (xp_step sl _) as [[[? ?]|]| |]; cbn [bind option_map] in EX; inversion EX; reflexivity.
  - destruct (ep_step sl _) as [[[? ?]|]| |]; cbn [bind option_map] in EX; inversion EX; reflexivity.
  - destruct (bp_step _) as [[? ?]|]; cbn [option_map] in EX; inversion EX; reflexivity.
Qed.

Lemma add_switch_all_inv n modes rest g ctx ac st todo : forall l s l' s',
  add_switch_all sl g ctx ac rest st todo (l, s) = Ok (l', s') ->
  plan_inv n modes rest g -> Forall (fun me => enabled modes (fst me) = true) todo -> rest <= n ->
  Forall (plan_inv n modes rest) l -> Forall (plan_inv n modes rest) l'.
Proof.
  induction todo as [|[mode extra] t IH]; intros l s l' s' H G En Hr Hl; cbn [add_switch_all] in H.
  - inversion H; subst. exact Hl.
  - destruct (add_switch sl g ctx ac rest st mode extra (l, s)) as [[l1 s1]| |] eqn:A; cbn [bind] in H; try discriminate.
    inversion En; subst. eapply IH; try eassumption. eapply add_switch_inv; eassumption.
Qed.

Lemma add_switches_inv n modes rest g st s l s' :
  gp_add_switches sl g rest st modes s = Ok (l, s') -> plan_inv n modes rest g -> rest <= n ->
  Forall (plan_inv n modes rest) l.
Proof.
  unfold gp_add_switches. intros H G Hr. destruct (gp_mode_switch_cost g); [|inversion H; constructor].
  destruct (gp_write_unlatch g) as [ctx| |]; cbn [bind] in H; try discriminate.
  eapply add_switch_all_inv; try eassumption; [|constructor].
  apply Forall_forall. intros me Hin. apply filter_In in Hin. destruct Hin as [_ Hc]. apply andb_true_iff in Hc. tauto.
Qed.

Lemma step_all_inv n modes rest uas plans : forall np ae s np' ae' s',
  step_all sl plans rest uas modes np ae s = Ok (np', ae', s') -> rest <= n ->
  Forall (plan_inv n modes rest) plans -> Forall (plan_inv n modes rest) np -> Forall (plan_inv n modes rest) np'.
Proof.
  induction plans as [|plan r IH]; intros np ae s np' ae' s' H Hr HP HN; cbn [step_all] in H.
  - inversion H; subst. exact HN.
  - inversion HP as [|? ? G HP']; subst.
    destruct (gp_step sl plan) as [o| |] eqn:ST; cbn [bind] in H; try discriminate.
    destruct o as [[result plan']|].
    + assert (plan_inv n modes rest plan') as G' by (eapply gp_step_inv; eassumption).
      destruct (negb (sr_unbeatable result) && negb (sr_end result)).
      * destruct (gp_add_switches sl plan rest uas modes (s + 1)) as [[added s1]| |] eqn:A; cbn [bind] in H; try discriminate.
        destruct (negb (Bool.eqb _ _)); [discriminate|].
        eapply IH; try eassumption. rewrite !Forall_app. repeat split; [exact HN|constructor; [exact G'|constructor]|].
        eapply add_switches_inv; eassumption.
      * cbn [bind] in H. destruct (negb (Bool.eqb _ _)); [discriminate|].
        eapply IH; try eassumption. rewrite Forall_app. split; [exact HN|constructor; [exact G'|constructor]].
    + destruct (gp_add_switches sl plan rest uas modes (s + 1)) as [[added s1]| |] eqn:A; cbn [bind] in H; try discriminate.
      eapply IH; try eassumption. rewrite Forall_app. split; [exact HN|]. eapply add_switches_inv; eassumption.
Qed.

(* pruning keeps a sub-list *)
Lemma dedup_incl l : forall seen r, dedup l seen = Ok r -> incl r l.
Proof.
  induction l as [|pl t IH]; intros seen r H; cbn [dedup] in H; [inversion H; apply incl_refl|].
  destruct (gp_start_mode pl); cbn [bind] in H; try discriminate.
  destruct (existsb _ seen).
  - apply IH in H. now apply incl_tl.
  - destruct (dedup t _) as [r'| |] eqn:D; cbn [bind] in H; try discriminate. inversion H; subst.
    apply IH in D. intros x [<-|Hx]; [now left|right; now apply D].
Qed.

Lemma dominate_incl first tail : forall r unc, dominate sl first tail = Ok (r, unc) -> incl r tail.
Proof.
  induction tail as [|second t IH]; intros r unc H; cbn [dominate] in H; [inversion H; apply incl_refl|].
  destruct (gp_cost_for_switching_to sl first (gp_current second)) as [[fc|]| |]; cbn [bind] in H; try discriminate.
  - destruct (gp_cost sl second); cbn [bind] in H; try discriminate.
    destruct (dominate sl first t) as [[r' u']| |] eqn:D; cbn [bind] in H; try discriminate.
    specialize (IH _ _ eq_refl). destruct (fc <? _); inversion H; subst.
    + now apply incl_tl.
    + intros x [<-|Hx]; [now left|right; now apply IH].
  - inversion H; subst. apply incl_refl.
Qed.

Lemma prune_incl fuel : forall done rest r, prune sl fuel done rest = Ok r -> incl r (done ++ rest).
Proof.
  induction fuel as [|f IH]; intros done rest r H; cbn [prune] in H; [discriminate|].
  destruct rest as [|first [|x tail]]; try (inversion H; subst; apply incl_refl).
  destruct (dominate sl first (x :: tail)) as [[tail' unc]| |] eqn:D; cbn [bind] in H; try discriminate.
  apply dominate_incl in D. destruct unc.
  - apply IH in H. intros y Hy. apply H in Hy. rewrite <- app_assoc in Hy. apply in_app_or in Hy.
    apply in_or_app. destruct Hy as [Hy|Hy]; [now left|right]. cbn [app] in Hy. destruct Hy as [<-|Hy]; [now left|right; now apply D].
  - inversion H; subst. intros y Hy. apply in_app_or in Hy. apply in_or_app. destruct Hy as [Hy|[<-|Hy]]; [now left|right; now left|right; right; now apply D].
Qed.

Lemma remove_hopeless_incl sorted r : remove_hopeless_cases sl sorted = Ok r -> incl r sorted.
Proof.
  unfold remove_hopeless_cases. destruct (dedup sorted []) as [l| |] eqn:D; cbn [bind]; try discriminate.
  intros H. apply prune_incl in H. apply dedup_incl in D. cbn [app] in H. eapply incl_tran; eassumption.
Qed.

Lemma min_by_In best bk l : min_by best bk l = best \/ In (min_by best bk l) (map fst l).
Proof.
  revert best bk. induction l as [|[p k] r IH]; intros best bk; cbn [min_by]; [now left|].
  destruct (key3_lt k bk).
  - destruct (IH p k) as [E|E]; [right; left; exact (eq_sym E)|right; right; exact E].
  - destruct (IH best bk) as [E|E]; [now left|right; right; exact E].
Qed.

Lemma with_keys_fst l : forall kl, with_keys sl l = Ok kl -> map fst kl = l.
Proof.
  induction l as [|g t IH]; intros kl H; cbn [with_keys] in H; [inversion H; reflexivity|].
  destruct (gp_cost sl g); cbn [bind] in H; try discriminate.
  destruct (gp_switches g); cbn [bind] in H; try discriminate.
  destruct (with_keys sl t) as [r'| |]; cbn [bind] in H; try discriminate.
  inversion H; subst. cbn [map fst]. f_equal. now apply IH.
Qed.

Variable sorter : nat -> list generic_plan -> PR (list generic_plan).
Hypothesis sorter_incl : forall k l l', sorter k l = Ok l' -> incl l' l.

Definition plan_shape (n modes : N) (sw : list (N * EncodationType)) : Prop :=
  pos_ok n sw 0 /\ modes_ok modes sw /\ (sw <> [] -> fst (last sw (0, Ascii)) = 0).

Lemma opt_loop_shape fuel : forall it n w modes plans new_plan st res st',
  opt_loop sl sorter fuel it n w modes plans new_plan st = Ok (Some res, st') ->
  Forall (plan_inv n modes (n - N.of_nat it)) plans -> Forall (plan_inv n modes (n - N.of_nat it)) new_plan ->
  plan_shape n modes res.
Proof.
  induction fuel as [|f IH]; intros it n w modes plans new_plan st res st' H HP HN; cbn [opt_loop] in H; [discriminate|].
  destruct (n <? N.of_nat it) eqn:Ov; [discriminate|]. apply N.ltb_ge in Ov.
  destruct (step_all sl plans (n - N.of_nat it) _ modes new_plan _ (st_steps st)) as [[[np ae] steps]| |] eqn:SA; cbn [bind] in H; try discriminate.
  assert (Forall (plan_inv n modes (n - N.of_nat it)) np) as I1 by (eapply step_all_inv; try eassumption; lia).
  destruct (sorter it np) as [sorted| |] eqn:SO; cbn [bind] in H; try discriminate.
  destruct (remove_hopeless_cases sl sorted) as [np2| |] eqn:RH; cbn [bind] in H; try discriminate.
  assert (Forall (plan_inv n modes (n - N.of_nat it)) np2) as I2.
  { apply Forall_forall. intros g Hg. rewrite Forall_forall in I1. apply I1. eapply sorter_incl; [exact SO|]. eapply remove_hopeless_incl; eassumption. }
  destruct np2 as [|p0 rest]; [discriminate|]. destruct ae.
  - match type of H with (let* keyed := ?X in _) = _ => destruct X as [keyed| |] eqn:EK end; cbn [bind] in H; try discriminate.
    destruct keyed as [|[p k] r]; [discriminate|].
    destruct (gp_cost sl (min_by p k r)) as [c| |]; cbn [bind] in H; try discriminate.
    (* the selected plan is one of the live plans *)
    assert (map fst ((p, k) :: r) = p0 :: rest) as MK by (eapply with_keys_fst; exact EK).
    assert (plan_inv n modes (n - N.of_nat it) (min_by p k r)) as (P & M & [q [L NE]]).
    { rewrite Forall_forall in I2. apply I2. rewrite <- MK. cbn [map fst].
      destruct (min_by_In p k r) as [E|E]; [left; exact (eq_sym E)|right; exact E]. }
    set (best := min_by p k r) in *. set (sw := gp_switches best ++ [(0, gp_current best)]) in *.
    assert (plan_shape n modes sw) as SH.
    { unfold sw. split; [|split].
      - apply pos_ok_snoc. eapply pos_ok_weaken; [exact P|lia].
      - apply Forall_app. split; [exact M|]. constructor; [|constructor]. cbn [snd].
        unfold modes_ok in M. rewrite Forall_forall in M.
        assert (In (q, gp_current best) (gp_switches best)) as Hin.
        { rewrite <- L. destruct (gp_switches best) as [|a l0] eqn:ES; [congruence|]. apply (@exists_last _ (a :: l0)) in NE.
          destruct NE as (l1 & x & El). rewrite El. rewrite last_snoc. apply in_or_app. right. now left. }
        apply (M _ Hin).
      - intros _. rewrite last_snoc. reflexivity. }
    inversion H; subst res. clear H.
    destruct sw as [|[n0 m0] rest0] eqn:Esw; [exact SH|]. destruct m0; try exact SH.
    destruct ((w =? 0) && (n0 =? n)); [|exact SH].
    destruct SH as (S1 & S2 & S3). cbn [pos_ok] in S1. destruct S1 as [S1a S1b].
    split; [|split].
    + eapply pos_ok_weaken with (lo := 0); [|lia].
      clear - S1b S1a. revert S1b. generalize 0. revert n0 S1a. induction rest0 as [|[p m] r IH]; intros n0 Hn lo H; cbn [pos_ok] in *; [lia|].
      destruct H as [A B]. split; [lia|exact B].
    + inversion S2; assumption.
    + intros NE2. specialize (S3 ltac:(discriminate)). destruct rest0 as [|a r0]; [congruence|]. exact S3.
  - apply (IH (S it) n w modes (p0 :: rest) [] _ res st' H); [|constructor].
    eapply Forall_impl; [|exact I2]. intros g (P & M & L). split; [|split; assumption].
    eapply pos_ok_weaken; [exact P|]. lia.
Qed.

Theorem optimize_shape data written mode modes res st :
  optimize sl sorter data written mode modes = Ok (Some res, st) ->
  plan_shape (N.of_nat (length data)) modes res.
Proof.
  unfold optimize. intros H. set (n := N.of_nat (length data)) in *.
  destruct (enabled modes mode) eqn:En.
  - cbn [bind] in H. eapply opt_loop_shape; [exact H| |constructor].
    constructor; [|constructor]. rewrite N.sub_0_r. unfold gp_for_mode. split; [|split].
    + cbn [gp_switches pos_ok]. fold n. lia.
    + constructor; [exact En|constructor].
    + exists n. cbn [gp_switches last]. split; [|discriminate]. f_equal. unfold gp_current. destruct mode; reflexivity.
  - destruct (gp_add_switches sl _ n true modes 0) as [[added steps]| |] eqn:A; cbn [bind] in H; try discriminate.
    eapply opt_loop_shape; [exact H|constructor|]. rewrite N.sub_0_r.
    (* the start plan itself need not be enabled; add_switches (as_start) only uses its context *)
    unfold gp_add_switches in A. destruct (gp_mode_switch_cost _); [|inversion A; constructor].
    destruct (gp_write_unlatch _) as [ctx| |]; cbn [bind] in A; try discriminate.
    set (g0 := gp_for_mode mode data written) in *.
    assert (forall todo l s l' s', add_switch_all sl g0 ctx f n true todo (l, s) = Ok (l', s') ->
              Forall (fun me => enabled modes (fst me) = true) todo ->
              Forall (plan_inv n modes n) l -> Forall (plan_inv n modes n) l') as AS.
    { induction todo as [|[md extra] t IHt]; intros l s l' s' HA Ent Hl; cbn [add_switch_all] in HA; [inversion HA; subst; exact Hl|].
      destruct (add_switch sl g0 ctx f n true md extra (l, s)) as [[l1 s1]| |] eqn:A1; cbn [bind] in HA; try discriminate.
      inversion Ent; subst. eapply IHt; try eassumption.
      unfold add_switch in A1. cbn [gp_switches g0 gp_for_mode length Nat.eqb negb] in A1. cbn [bind] in A1.
      match type of A1 with (let* stepped := ?X in _) = _ => destruct X as [[pl|]| |] eqn:EX end; cbn [bind] in A1; try discriminate;
        inversion A1; subst; [|exact Hl].
      apply Forall_app. split; [exact Hl|]. constructor; [|constructor]. cbn [fst] in *.
      split; [cbn [gp_switches pos_ok]; lia|]. split; [constructor; [assumption|constructor]|].
      exists n. cbn [gp_switches last]. split; [|discriminate]. f_equal. unfold gp_current. cbn [gp_plan].
      destruct md; cbn [bind] in EX.
      - destruct (ap_step _) as [[[? ?]|]| |]; cbn [bind option_map] in EX; inversion EX; reflexivity.
      - destruct (cp_step sl _) as [[[? ?]|]| |]; cbn [bind option_map] in EX; inversion EX; reflexivity.
      - destruct (cp_step sl _) as [[[? ?]|]| |]; cbn [bind option_map] in EX; inversion EX; reflexivity.
      - destruct (xp_step sl _) as [[[? ?]|]| |]; cbn [bind option_map] in EX; inversion EX; reflexivity.
      - destruct (ep_step sl _) as [[[? ?]|]| |]; cbn [bind option_map] in EX; inversion EX; reflexivity.
      - destruct (bp_step _) as [[? ?]|]; cbn [option_map] in EX; inversion EX; reflexivity. }
    eapply AS; [exact A| |constructor].
    apply Forall_forall. intros me Hin. apply filter_In in Hin. destruct Hin as [_ Hc]. apply andb_true_iff in Hc. tauto.
Qed.
End Shape.

(* the two sorter instances satisfy the contract *)
From DM Require Import Model.PlannerRun.

Lemma is_perm_go_bound perm : forall seen n, is_perm_go perm seen n = true -> Forall (fun i => (i < n)%nat) perm.
Proof. induction perm as [|i r IH]; intros seen n H; [constructor|]. cbn [is_perm_go] in H. rewrite !andb_true_iff in H.
  destruct H as [[A _] B]. constructor; [now apply Nat.ltb_lt|eapply IH; exact B]. Qed.

Lemma trace_sorter_incl sl trace k l l' : trace_sorter sl trace k l = Ok l' -> incl l' l.
Proof.
  unfold trace_sorter. destruct (nth_error trace k) as [perm|]; [|discriminate].
  destruct (negb _ || negb (is_perm_go perm [] (length l))) eqn:C; [discriminate|].
  apply orb_false_iff in C. destruct C as [_ C]. apply negb_false_iff in C. apply is_perm_go_bound in C.
  destruct l as [|d t]; [intros H; inversion H; apply incl_refl|].
  destruct (with_costs sl _) as [lc| |]; cbn [bind]; try discriminate. destruct (sorted_costs _); [|discriminate].
  intros H. assert (l' = map (fun i => nth i (d :: t) d) perm) as -> by (inversion H; reflexivity).
  intros x Hx. apply in_map_iff in Hx. destruct Hx as [i [<- Hi]].
  rewrite Forall_forall in C. apply (nth_In (d :: t) d). apply C, Hi.
Qed.

Lemma insert_by_In x cx l y : In y (map fst (insert_by x cx l)) -> y = x \/ In y (map fst l).
Proof. induction l as [|[z cz] r IH]; cbn [insert_by map fst In]; [intuition|].
  destruct (cx <? cz); cbn [map fst In]; intuition. Qed.

Lemma with_costs_fst sl l : forall lc, with_costs sl l = Ok lc -> map fst lc = l.
Proof. induction l as [|p r IH]; intros lc H; cbn [with_costs] in H; [inversion H; reflexivity|].
  destruct (gp_cost sl p); cbn [bind] in H; try discriminate. destruct (with_costs sl r) as [r'| |]; cbn [bind] in H; try discriminate.
  inversion H; subst. cbn. f_equal. now apply IH. Qed.

Lemma stable_sorter_incl sl k l l' : stable_sorter sl k l = Ok l' -> incl l' l.
Proof.
  unfold stable_sorter. destruct (with_costs sl l) as [lc| |] eqn:W; cbn [bind]; try discriminate.
  intros H; inversion H; subst. apply with_costs_fst in W. rewrite <- W.
  assert (forall (lc acc : list (generic_plan * N)) y,
            In y (map fst (fold_left (fun acc pc => insert_by (fst pc) (snd pc) acc) lc acc)) -> In y (map fst lc) \/ In y (map fst acc)) as G.
  { induction lc0 as [|[p c] r IH]; intros acc y Hy; cbn [fold_left] in Hy; [now right|].
    apply IH in Hy. destruct Hy as [Hy|Hy]; [left; now right|]. cbn [fst snd] in Hy. apply insert_by_In in Hy.
    destruct Hy as [->|Hy]; [left; now left|now right]. }
  intros y Hy. apply G in Hy. destruct Hy as [Hy|[]]; exact Hy.
Qed.
