(* Proofs/PlanTotal.v -- property C11, the planner half: `optimize` never panics -- none of the assertions of the plan
   implementations (AsciiPlan: look-ahead digits, C40LikePlan: at most two pending values, X12 / EDIFACT: no unlatch
   after the end-of-data decision, Frac::new denominators), of add_switches (as_start), of the lock-step check in
   the main loop, of the final selection, and none of the loop bounds of the model is ever reached: for every input,
   symbol list, start mode, mode set, and every sort that returns a sub-list of its input. *)
From Coq Require Import Arith NArith List Bool Lia.
From DM Require Import Generated.Symbols Generated.ModeTables Model.Outcome Model.SymbolList Model.Planner Proofs.PlanShape.
Import ListNotations.
Local Open Scope N_scope.

Lemma frac_new_ok n d : d = 1 \/ d = 2 \/ d = 3 \/ d = 4 -> exists f, frac_new n d = Ok f.
Proof. intros [ -> | [ -> | [ -> | -> ] ] ]; eexists; reflexivity. Qed.

Lemma c40_fuel_bound : forall f ch, c40_val_size_fuel f ch <= 2 * N.of_nat f.
Proof.
  induction f as [|f IH]; intros ch; [cbn; lia|]. cbn [c40_val_size_fuel]. destruct (_ || _); [lia|]. destruct (_ || _); [lia|].
  specialize (IH (ch - 128)). lia.
Qed.
Lemma text_fuel_bound : forall f ch, text_val_size_fuel f ch <= 2 * N.of_nat f.
Proof.
  induction f as [|f IH]; intros ch; [cbn; lia|]. cbn [text_val_size_fuel]. destruct (_ || _); [lia|]. destruct (_ || _); [lia|].
  destruct (_ && _); [|lia]. specialize (IH (ch - 128)). lia.
Qed.

Section Total.
Variable sl : list SymbolSize.

Lemma ctx_write_data c n : c_data (ctx_write c n) = c_data c.
Proof. reflexivity. Qed.
Lemma ctx_eat_cons c ch D : c_data c = ch :: D -> ctx_eat c = Some (ch, mkctx D (c_consumed c + 1) (c_written c)).
Proof. unfold ctx_eat. intros ->. reflexivity. Qed.
Lemma ctx_eat_nil c : c_data c = [] -> ctx_eat c = None.
Proof. unfold ctx_eat. intros ->. reflexivity. Qed.
Lemma ctx_more_cons c ch D : c_data c = ch :: D -> ctx_more c = true.
Proof. unfold ctx_more. intros ->. reflexivity. Qed.
Lemma ctx_more_nil c : c_data c = [] -> ctx_more c = false.
Proof. unfold ctx_more. intros ->. reflexivity. Qed.

(* ---- AsciiPlan ---- *)
Lemma ap_step_nil p : c_data (ap_ctx p) = [] -> ap_digits_ahead p <= 0 ->
  exists ub p', ap_step p = Ok (Some (mksr true ub, p')) /\ c_data (ap_ctx p') = [] /\ ap_digits_ahead p' = 0.
Proof.
  intros HD DA. assert (ap_digits_ahead p = 0) as Z by lia. unfold ap_step. rewrite Z. cbn [N.eqb]. rewrite HD. cbn [count_while].
  cbn [ap_ctx ap_digits_ahead]. rewrite ctx_eat_nil by (rewrite ctx_write_data; exact HD). do 2 eexists. split; [reflexivity|]. split; [exact HD|reflexivity].
Qed.

Lemma count_pos_digit ch D : 0 < count_while is_digit (ch :: D) -> is_digit ch = true /\ count_while is_digit (ch :: D) = 1 + count_while is_digit D.
Proof. cbn [count_while]. destruct (is_digit ch); [split; reflexivity|lia]. Qed.

Lemma ap_step_cons p ch D : c_data (ap_ctx p) = ch :: D -> ap_digits_ahead p <= count_while is_digit (ch :: D) ->
  exists ub p', ap_step p = Ok (Some (mksr false ub, p')) /\ c_data (ap_ctx p') = D /\ ap_digits_ahead p' <= count_while is_digit D /\
    (ub = false -> ap_digits_ahead p = 0).
Proof.
  intros HD DA. unfold ap_step.
  set (p1 := if ap_digits_ahead p =? 0 then _ else p).
  assert (c_data (ap_ctx p1) = ch :: D /\ ap_digits_ahead p1 <= count_while is_digit (ch :: D) /\ (ap_digits_ahead p1 = 0 -> ap_digits_ahead p = 0)) as (HD1 & DA1 & Z1).
  { unfold p1. destruct (N.eqb_spec (ap_digits_ahead p) 0) as [E|NE]; [|auto]. cbn [ap_ctx ap_digits_ahead]. rewrite ctx_write_data, HD.
    split; [reflexivity|]. split; [|intros _; exact E]. pose proof (N.mul_div_le (count_while is_digit (ch :: D)) 2 ltac:(lia)). lia. }
  rewrite (ctx_eat_cons _ _ _ HD1). destruct (N.ltb_spec 0 (ap_digits_ahead p1)) as [POS|Z].
  - destruct (count_pos_digit ch D ltac:(lia)) as [DG CE]. rewrite DG. cbn [negb]. do 2 eexists. split; [reflexivity|]. cbn [ap_ctx ap_digits_ahead c_data].
    split; [reflexivity|]. split; [lia|discriminate].
  - destruct (ch <=? 127); do 2 eexists; (split; [reflexivity|]); cbn [ap_ctx ap_digits_ahead c_data ctx_write]; (split; [reflexivity|]); (split; [lia|]); intros _; apply Z1; lia.
Qed.

(* ---- C40LikePlan ---- *)
Lemma cp_drain_spec : forall fuel ub c v cost, v <= 3 * N.of_nat fuel + 2 ->
  let '(c2, v2, _) := cp_drain fuel ub c v cost in v2 <= 2 /\ c_data c2 = c_data c.
Proof.
  induction fuel as [|f IH]; intros ub c v cost H; cbn [cp_drain]; [split; [lia|reflexivity]|].
  destruct (N.leb_spec 3 v) as [GE|LT]; [|split; [lia|reflexivity]].
  specialize (IH ub (if ub then c else ctx_write c 2) (v - 3) (cost + 24) ltac:(lia)).
  destruct (cp_drain f ub _ (v - 3) (cost + 24)) as [[c2 v2] k]. destruct IH as [A B]. split; [exact A|]. rewrite B. destruct ub; reflexivity.
Qed.

Lemma cp_val_size_bound p ch : cp_val_size p ch <= 6.
Proof. unfold cp_val_size. destruct (cp_text p); [apply (text_fuel_bound 3)|apply (c40_fuel_bound 3)]. Qed.

Definition cp_look (p : c40_plan) : option c40_plan :=
    if (cp_values p =? 0) && (cp_unbeatable_reads p =? 0) then
      let r1 : option c40_plan :=
        match c_data (cp_ctx p) with
        | [a; b] =>
          if is_digit a && is_digit b then
            match ctx_symbol_size_left sl (cp_ctx p) 1 with
            | None => None
            | Some space_left =>
              let tde := space_left <=? 1 in
              if space_left =? 1 then Some (mkcp (cp_text p) (ctx_write (cp_ctx p) 2) 0 2 (cp_ch p) tde (cp_cost p))
              else if space_left =? 0 then Some (mkcp (cp_text p) (ctx_write (cp_ctx p) 1) 0 2 (cp_ch p) tde (cp_cost p))
              else Some (mkcp (cp_text p) (cp_ctx p) 0 (cp_unbeatable_reads p) (cp_ch p) tde (cp_cost p))
            end
          else Some p
        | _ => Some p
        end in
      match r1 with
      | None => None
      | Some p1 =>
        if negb (cp_two_digit_ascii_end p1) then
          let ur := unbeatable_strike (cp_in_base_set p1) (c_data (cp_ctx p1)) in
          Some (mkcp (cp_text p1) (ctx_write (cp_ctx p1) ((ur / 3) * 2)) (cp_values p1) ur (cp_ch p1)
                     (cp_two_digit_ascii_end p1) (cp_cost p1))
        else Some p1
      end
    else Some p.

Lemma cp_step_eq p : cp_step sl p =
  match cp_look p with
  | None => Ok None
  | Some p =>
    let unbeatable := 0 <? cp_unbeatable_reads p in
    match ctx_eat (cp_ctx p) with
    | None => Ok (Some (mksr true unbeatable, p))
    | Some (ch, c') =>
      let '(values, ur) :=
        if 0 <? cp_unbeatable_reads p then
          ((if negb (cp_two_digit_ascii_end p) || (cp_values p =? 0) then cp_values p + 1 else cp_values p),
           cp_unbeatable_reads p - 1)
        else (cp_values p + cp_val_size p ch, cp_unbeatable_reads p) in
      if 256 <=? values then Panic POverflow else
      let '(c2, values2, cost2) := cp_drain 100 unbeatable c' values (cp_cost p) in
      Ok (Some (mksr false unbeatable, mkcp (cp_text p) c2 values2 ur ch (cp_two_digit_ascii_end p) cost2))
    end
  end.
Proof. reflexivity. Qed.

Lemma cp_lookahead p DD : c_data (cp_ctx p) = DD -> cp_values p <= 2 ->
  (cp_look p = None /\ exists a b, DD = [a; b]) \/ exists p1, cp_look p = Some p1 /\ c_data (cp_ctx p1) = DD /\ cp_values p1 <= 2.
Proof.
  intros HD HV. unfold cp_look. destruct ((cp_values p =? 0) && (cp_unbeatable_reads p =? 0)); [|right; exists p; auto].
  set (r1 := match c_data (cp_ctx p) with [a; b] => _ | _ => Some p end).
  assert ((r1 = None /\ exists a b, DD = [a; b]) \/ exists p1, r1 = Some p1 /\ c_data (cp_ctx p1) = DD /\ cp_values p1 <= 2) as HR1.
  { unfold r1. rewrite HD. destruct DD as [|a [|b [|c t]]]; try (right; exists p; auto; fail).
    destruct (is_digit a && is_digit b); [|right; exists p; auto].
    destruct (ctx_symbol_size_left sl (cp_ctx p) 1) as [n|]; [|left; split; [reflexivity|eauto]].
    right. destruct (n =? 1); [|destruct (n =? 0)]; eexists; (split; [reflexivity|]); cbn [cp_ctx cp_values]; rewrite ?ctx_write_data; (split; [exact HD|lia]). }
  destruct HR1 as [[-> E]|(p1 & -> & A & B)]; [left; split; [reflexivity|exact E]|]. right.
  destruct (negb (cp_two_digit_ascii_end p1)); eexists; (split; [reflexivity|]); cbn [cp_ctx cp_values]; rewrite ?ctx_write_data; auto.
Qed.

Lemma cp_step_nil p : c_data (cp_ctx p) = [] -> cp_values p <= 2 ->
  exists ub p', cp_step sl p = Ok (Some (mksr true ub, p')) /\ c_data (cp_ctx p') = [] /\ cp_values p' <= 2.
Proof.
  intros HD HV. rewrite cp_step_eq. destruct (cp_lookahead p [] HD HV) as [[_ (a & b & E)]|(p1 & -> & A & B)]; [discriminate|].
  rewrite (ctx_eat_nil _ A). do 2 eexists. split; [reflexivity|]. split; assumption.
Qed.

Lemma cp_step_cons p ch D : c_data (cp_ctx p) = ch :: D -> cp_values p <= 2 ->
  cp_step sl p = Ok None \/
  exists ub p', cp_step sl p = Ok (Some (mksr false ub, p')) /\ c_data (cp_ctx p') = D /\ cp_values p' <= 2.
Proof.
  intros HD HV. rewrite cp_step_eq. destruct (cp_lookahead p (ch :: D) HD HV) as [[-> _]|(p1 & -> & A & B)]; [left; reflexivity|]. right.
  rewrite (ctx_eat_cons _ _ _ A). cbv zeta.
  set (vu := if 0 <? cp_unbeatable_reads p1 then _ else _).
  assert (fst vu <= 8) as VB.
  { unfold vu. destruct (0 <? cp_unbeatable_reads p1); cbn [fst]; [destruct (_ || _); lia|]. pose proof (cp_val_size_bound p1 ch). lia. }
  destruct vu as [values ur]. cbn [fst] in VB. destruct (N.leb_spec 256 values); [lia|].
  pose proof (cp_drain_spec 100 (0 <? cp_unbeatable_reads p1) (mkctx D (c_consumed (cp_ctx p1) + 1) (c_written (cp_ctx p1))) values (cp_cost p1) ltac:(lia)) as DS.
  destruct (cp_drain 100 _ _ values (cp_cost p1)) as [[c2 v2] k]. destruct DS as [V2 C2].
  do 2 eexists. split; [reflexivity|]. cbn [cp_ctx cp_values]. split; [rewrite C2; reflexivity|exact V2].
Qed.

(* ---- X12Plan ---- *)
Definition xp_look (p : x12_plan) : PR (option x12_plan) :=
      (if (xp_values p =? 0) && (ctx_left (xp_ctx p) <=? 2) && (match xp_ascii_end p with None => true | _ => false end) then
         let ascii_size := ascii_encoding_size (c_data (xp_ctx p)) in
         let* r1 :=
           (if ascii_size =? 1 then
              match ctx_symbol_size_left sl (xp_ctx p) ascii_size with
              | None => Ok None
              | Some space_left =>
                if space_left <=? 1 then
                  let cost := if space_left =? 1 then xp_cost p + 12 else xp_cost p in
                  let* portion := frac_new ascii_size (ctx_left (xp_ctx p)) in
                  Ok (Some (mkxp (xp_ctx p) (xp_values p) (Some portion) cost))
                else Ok (Some p)
              end
            else Ok (Some p)) in
         match r1 with
         | None => Ok None
         | Some p1 =>
           match xp_ascii_end p1 with
           | None =>
             let* portion := frac_new ascii_size (ctx_left (xp_ctx p1)) in
             Ok (Some (mkxp (xp_ctx p1) (xp_values p1) (Some portion) (xp_cost p1 + 12)))
           | Some _ => Ok (Some p1)
           end
         end
       else Ok (Some p)).

Lemma xp_step_eq p : xp_step sl p =
  if negb (ctx_more (xp_ctx p)) then
    Ok (Some (mksr true (match xp_ascii_end p with Some _ => true | None => false end), p))
  else
    let* r := xp_look p in
    match r with
    | None => Ok None
    | Some p =>
      match ctx_eat (xp_ctx p) with
      | None => Panic PAssert
      | Some (ch, c') =>
        match xp_ascii_end p with
        | None =>
          if negb (is_native_x12 ch) then Ok None
          else
            let values := (xp_values p + 1) mod 3 in
            let c2 := if values =? 0 then ctx_write c' 2 else c' in
            Ok (Some (mksr false false, mkxp c2 values None (xp_cost p + 8)))
        | Some portion => Ok (Some (mksr false true, mkxp c' (xp_values p) (Some portion) (xp_cost p + portion)))
        end
      end
    end.
Proof. reflexivity. Qed.

Lemma ctx_left_cons c ch D : c_data c = ch :: D -> ctx_left c = N.of_nat (length D) + 1.
Proof. unfold ctx_left. intros ->. cbn [length]. lia. Qed.

Lemma xp_lookahead p ch D : c_data (xp_ctx p) = ch :: D ->
  (xp_look p = Ok None /\ xp_ascii_end p = None) \/
  exists p1, xp_look p = Ok (Some p1) /\ c_data (xp_ctx p1) = ch :: D /\ (xp_ascii_end p1 = None -> xp_ascii_end p = None).
Proof.
  intros HD. unfold xp_look. pose proof (ctx_left_cons _ _ _ HD) as CL.
  destruct ((xp_values p =? 0) && (ctx_left (xp_ctx p) <=? 2) && (match xp_ascii_end p with None => true | _ => false end)) eqn:C; [|right; exists p; auto].
  apply andb_true_iff in C. destruct C as [C AE]. apply andb_true_iff in C. destruct C as [_ C]. apply N.leb_le in C.
  assert (xp_ascii_end p = None) as AN by (destruct (xp_ascii_end p); [discriminate|reflexivity]).
  assert (ctx_left (xp_ctx p) = 1 \/ ctx_left (xp_ctx p) = 2 \/ ctx_left (xp_ctx p) = 3 \/ ctx_left (xp_ctx p) = 4) as FD by lia.
  cbv zeta. set (asz := ascii_encoding_size (c_data (xp_ctx p))).
  destruct (frac_new_ok asz _ FD) as [f F].
  destruct (asz =? 1).
  - destruct (ctx_symbol_size_left sl (xp_ctx p) asz) as [space|]; [|left; split; [reflexivity|exact AN]].
    destruct (space <=? 1).
    + rewrite F. cbn [bind xp_ascii_end]. right. eexists. split; [reflexivity|]. cbn [xp_ctx xp_ascii_end]. split; [exact HD|discriminate].
    + cbn [bind]. rewrite AN, F. cbn [bind]. right. eexists. split; [reflexivity|]. cbn [xp_ctx xp_ascii_end]. split; [exact HD|discriminate].
  - cbn [bind]. rewrite AN, F. cbn [bind]. right. eexists. split; [reflexivity|]. cbn [xp_ctx xp_ascii_end]. split; [exact HD|discriminate].
Qed.

Lemma xp_step_nil p : c_data (xp_ctx p) = [] -> exists ub, xp_step sl p = Ok (Some (mksr true ub, p)).
Proof. intros HD. rewrite xp_step_eq, (ctx_more_nil _ HD). cbn [negb]. eexists. reflexivity. Qed.

Lemma xp_step_cons p ch D : c_data (xp_ctx p) = ch :: D ->
  (xp_step sl p = Ok None /\ xp_ascii_end p = None) \/
  exists ub p', xp_step sl p = Ok (Some (mksr false ub, p')) /\ c_data (xp_ctx p') = D /\ (ub = false -> xp_ascii_end p = None).
Proof.
  intros HD. rewrite xp_step_eq, (ctx_more_cons _ _ _ HD). cbn [negb].
  destruct (xp_lookahead p ch D HD) as [[-> AN]|(p1 & -> & A & B)]; cbn [bind]; [left; split; [reflexivity|exact AN]|].
  rewrite (ctx_eat_cons _ _ _ A). destruct (xp_ascii_end p1) as [portion|] eqn:AE.
  - right. do 2 eexists. split; [reflexivity|]. cbn [xp_ctx]. split; [reflexivity|discriminate].
  - destruct (negb (is_native_x12 ch)); [left; split; [reflexivity|exact (B eq_refl)]|]. right. do 2 eexists. split; [reflexivity|]. cbn [xp_ctx].
    split; [destruct (_ =? 0); reflexivity|intros _; exact (B eq_refl)].
Qed.

(* ---- EdifactPlan ---- *)
Definition ep_look (p : edi_plan) : PR (option edi_plan) :=
      (if (ep_written p =? 0) && (ctx_left (ep_ctx p) <=? 4) && (match ep_ascii_end p with None => true | _ => false end) then
         let ascii_size := ascii_encoding_size (c_data (ep_ctx p)) in
         if ascii_size <=? 2 then
           match ctx_symbol_size_left sl (ep_ctx p) ascii_size with
           | None => Ok None
           | Some space_left =>
             if space_left + ascii_size <=? 2 then
               let* portion := frac_new ascii_size (ctx_left (ep_ctx p)) in
               Ok (Some (mkep (ep_ctx p) (ep_written p) (Some portion) (ep_cost p)))
             else Ok (Some p)
           end
         else Ok (Some p)
       else Ok (Some p)).

Lemma ep_step_eq p : ep_step sl p =
  if negb (ctx_more (ep_ctx p)) then
    Ok (Some (mksr true (match ep_ascii_end p with Some _ => true | None => false end), p))
  else
    let* r := ep_look p in
    match r with
    | None => Ok None
    | Some p =>
      match ctx_eat (ep_ctx p) with
      | None => Panic PAssert
      | Some (ch, c') =>
        match ep_ascii_end p with
        | None =>
          if negb (edifact_is_encodable ch) then Ok None
          else
            let written := (ep_written p + 1) mod 4 in
            let c2 := if written =? 0 then ctx_write c' 3 else c' in
            Ok (Some (mksr false false, mkep c2 written None (ep_cost p + 9)))
        | Some portion => Ok (Some (mksr false true, mkep c' (ep_written p) (Some portion) (ep_cost p + portion)))
        end
      end
    end.
Proof. reflexivity. Qed.

Lemma ep_lookahead p ch D : c_data (ep_ctx p) = ch :: D ->
  (ep_look p = Ok None /\ ep_ascii_end p = None) \/
  exists p1, ep_look p = Ok (Some p1) /\ c_data (ep_ctx p1) = ch :: D /\ (ep_ascii_end p1 = None -> ep_ascii_end p = None).
Proof.
  intros HD. unfold ep_look. pose proof (ctx_left_cons _ _ _ HD) as CL.
  destruct ((ep_written p =? 0) && (ctx_left (ep_ctx p) <=? 4) && (match ep_ascii_end p with None => true | _ => false end)) eqn:C; [|right; exists p; auto].
  apply andb_true_iff in C. destruct C as [C AE]. apply andb_true_iff in C. destruct C as [_ C]. apply N.leb_le in C.
  assert (ep_ascii_end p = None) as AN by (destruct (ep_ascii_end p); [discriminate|reflexivity]).
  assert (ctx_left (ep_ctx p) = 1 \/ ctx_left (ep_ctx p) = 2 \/ ctx_left (ep_ctx p) = 3 \/ ctx_left (ep_ctx p) = 4) as FD by lia.
  cbv zeta. set (asz := ascii_encoding_size (c_data (ep_ctx p))).
  destruct (frac_new_ok asz _ FD) as [f F].
  destruct (asz <=? 2); [|right; exists p; auto].
  destruct (ctx_symbol_size_left sl (ep_ctx p) asz) as [space|]; [|left; split; [reflexivity|exact AN]].
  destruct (space + asz <=? 2); [|right; exists p; auto].
  rewrite F. cbn [bind]. right. eexists. split; [reflexivity|]. cbn [ep_ctx ep_ascii_end]. split; [exact HD|discriminate].
Qed.

Lemma ep_step_nil p : c_data (ep_ctx p) = [] -> exists ub, ep_step sl p = Ok (Some (mksr true ub, p)).
Proof. intros HD. rewrite ep_step_eq, (ctx_more_nil _ HD). cbn [negb]. eexists. reflexivity. Qed.

Lemma ep_step_cons p ch D : c_data (ep_ctx p) = ch :: D ->
  (ep_step sl p = Ok None /\ ep_ascii_end p = None) \/
  exists ub p', ep_step sl p = Ok (Some (mksr false ub, p')) /\ c_data (ep_ctx p') = D /\ (ub = false -> ep_ascii_end p = None).
Proof.
  intros HD. rewrite ep_step_eq, (ctx_more_cons _ _ _ HD). cbn [negb].
  destruct (ep_lookahead p ch D HD) as [[-> AN]|(p1 & -> & A & B)]; cbn [bind]; [left; split; [reflexivity|exact AN]|].
  rewrite (ctx_eat_cons _ _ _ A). destruct (ep_ascii_end p1) as [portion|] eqn:AE.
  - right. do 2 eexists. split; [reflexivity|]. cbn [ep_ctx]. split; [reflexivity|discriminate].
  - destruct (negb (edifact_is_encodable ch)); [left; split; [reflexivity|exact (B eq_refl)]|]. right. do 2 eexists. split; [reflexivity|]. cbn [ep_ctx].
    split; [destruct (_ =? 0); reflexivity|intros _; exact (B eq_refl)].
Qed.

(* ---- Base256Plan ---- *)
Lemma bp_step_nil p : c_data (bp_ctx p) = [] -> bp_step p = Some (mksr true false, p).
Proof. intros HD. unfold bp_step. rewrite (ctx_eat_nil _ HD). reflexivity. Qed.
Lemma bp_step_cons p ch D : c_data (bp_ctx p) = ch :: D ->
  bp_step p = None \/ exists p', bp_step p = Some (mksr false false, p') /\ c_data (bp_ctx p') = D.
Proof.
  intros HD. unfold bp_step. rewrite (ctx_eat_cons _ _ _ HD). destruct (_ || _); [left; reflexivity|]. right. eexists. split; [reflexivity|]. reflexivity.
Qed.

(* ---- GenericPlan ---- *)
Definition impl_ctx (pl : plan_impl) : context :=
  match pl with PAscii p => ap_ctx p | PC40 p | PText p => cp_ctx p | PX12 p => xp_ctx p | PEdifact p => ep_ctx p | PBase256 p => bp_ctx p end.
Definition IM (D : list N) (pl : plan_impl) : Prop :=
  c_data (impl_ctx pl) = D /\
  match pl with
  | PAscii p => ap_digits_ahead p <= count_while is_digit D
  | PC40 p | PText p => cp_values p <= 2
  | _ => True
  end.
Definition TI (D : list N) (g : generic_plan) : Prop := gp_switches g <> [] /\ IM D (gp_plan g).
Definition UL (g : generic_plan) : Prop :=
  match gp_plan g with
  | PAscii p => ap_digits_ahead p = 0 | PX12 p => xp_ascii_end p = None | PEdifact p => ep_ascii_end p = None | _ => True
  end.

Lemma gp_step_nil g : TI [] g -> exists ub g', gp_step sl g = Ok (Some (mksr true ub, g')) /\ TI [] g'.
Proof.
  intros (SW & HD & HM). unfold gp_step. destruct (gp_plan g) as [p|p|p|p|p|p] eqn:E; cbn [impl_ctx] in HD.
  - destruct (ap_step_nil p HD HM) as (ub & p' & -> & A & B). cbn [bind]. do 2 eexists. split; [reflexivity|]. split; [exact SW|]. split; [exact A|]. cbn. lia.
  - destruct (cp_step_nil p HD HM) as (ub & p' & -> & A & B). cbn [bind]. do 2 eexists. split; [reflexivity|]. split; [exact SW|]. split; [exact A|exact B].
  - destruct (cp_step_nil p HD HM) as (ub & p' & -> & A & B). cbn [bind]. do 2 eexists. split; [reflexivity|]. split; [exact SW|]. split; [exact A|exact B].
  - destruct (xp_step_nil p HD) as (ub & ->). cbn [bind]. do 2 eexists. split; [reflexivity|]. split; [exact SW|]. split; [exact HD|exact I].
  - destruct (ep_step_nil p HD) as (ub & ->). cbn [bind]. do 2 eexists. split; [reflexivity|]. split; [exact SW|]. split; [exact HD|exact I].
  - rewrite (bp_step_nil p HD). cbn [bind]. do 2 eexists. split; [reflexivity|]. split; [exact SW|]. split; [exact HD|exact I].
Qed.

Lemma gp_step_cons g ch D : TI (ch :: D) g ->
  (gp_step sl g = Ok None /\ UL g) \/
  exists ub g', gp_step sl g = Ok (Some (mksr false ub, g')) /\ TI D g' /\ (ub = false -> UL g).
Proof.
  intros (SW & HD & HM). unfold gp_step, UL. destruct (gp_plan g) as [p|p|p|p|p|p] eqn:E; cbn [impl_ctx] in HD.
  - destruct (ap_step_cons p ch D HD HM) as (ub & p' & -> & A & B & C). cbn [bind]. right. do 2 eexists. split; [reflexivity|]. split; [|exact C].
    split; [exact SW|]. split; [exact A|exact B].
  - destruct (cp_step_cons p ch D HD HM) as [->|(ub & p' & -> & A & B)]; cbn [bind]; [left; split; [reflexivity|exact I]|]. right. do 2 eexists. split; [reflexivity|].
    split; [|intros _; exact I]. split; [exact SW|]. split; [exact A|exact B].
  - destruct (cp_step_cons p ch D HD HM) as [->|(ub & p' & -> & A & B)]; cbn [bind]; [left; split; [reflexivity|exact I]|]. right. do 2 eexists. split; [reflexivity|].
    split; [|intros _; exact I]. split; [exact SW|]. split; [exact A|exact B].
  - destruct (xp_step_cons p ch D HD) as [[-> AN]|(ub & p' & -> & A & B)]; cbn [bind]; [left; split; [reflexivity|exact AN]|]. right. do 2 eexists. split; [reflexivity|].
    split; [|exact B]. split; [exact SW|]. split; [exact A|exact I].
  - destruct (ep_step_cons p ch D HD) as [[-> AN]|(ub & p' & -> & A & B)]; cbn [bind]; [left; split; [reflexivity|exact AN]|]. right. do 2 eexists. split; [reflexivity|].
    split; [|exact B]. split; [exact SW|]. split; [exact A|exact I].
  - destruct (bp_step_cons p ch D HD) as [->|(p' & -> & A)]; cbn [bind]; [left; split; [reflexivity|exact I]|]. right. do 2 eexists. split; [reflexivity|].
    split; [|intros _; exact I]. split; [exact SW|]. split; [exact A|exact I].
Qed.

Lemma write_unlatch_total g D c : TI D g -> UL g -> gp_mode_switch_cost g = Some c -> exists ctx, gp_write_unlatch g = Ok ctx /\ c_data ctx = D.
Proof.
  intros (SW & HD & HM) HU HC. unfold gp_write_unlatch, UL, gp_mode_switch_cost in *. destruct (gp_plan g) as [p|p|p|p|p|p]; cbn [impl_ctx] in HD.
  - unfold ap_write_unlatch. rewrite HU. cbn [N.eqb negb]. eexists. split; [reflexivity|exact HD].
  - unfold cp_write_unlatch. destruct (0 <? cp_values p); [|eexists; split; [reflexivity|exact HD]].
    destruct (N.leb_spec (cp_values p) 2); [|lia]. cbn [negb]. eexists. split; [reflexivity|exact HD].
  - unfold cp_write_unlatch. destruct (0 <? cp_values p); [|eexists; split; [reflexivity|exact HD]].
    destruct (N.leb_spec (cp_values p) 2); [|lia]. cbn [negb]. eexists. split; [reflexivity|exact HD].
  - unfold xp_write_unlatch. unfold xp_mode_switch_cost in HC. destruct (xp_values p =? 0); [|discriminate]. cbn [negb]. rewrite HU. eexists. split; [reflexivity|exact HD].
  - unfold ep_write_unlatch. rewrite HU. eexists. split; [reflexivity|exact HD].
  - unfold bp_write_unlatch. eexists. split; [reflexivity|]. destruct (250 <=? bp_written p); exact HD.
Qed.

(* the first step of a fresh plan in any mode *)
Lemma fresh_step mode ctx D : c_data ctx = D ->
  exists stepped,
    (match mode with
     | Ascii => let* o := ap_step (ap_new ctx) in Ok (option_map (fun x => PAscii (snd x)) o)
     | Base256 => Ok (option_map (fun x => PBase256 (snd x)) (bp_step (bp_new ctx)))
     | Edifact => let* o := ep_step sl (ep_new ctx) in Ok (option_map (fun x => PEdifact (snd x)) o)
     | X12 => let* o := xp_step sl (xp_new ctx) in Ok (option_map (fun x => PX12 (snd x)) o)
     | Text => let* o := cp_step sl (cp_new true ctx) in Ok (option_map (fun x => PText (snd x)) o)
     | C40 => let* o := cp_step sl (cp_new false ctx) in Ok (option_map (fun x => PC40 (snd x)) o)
     end) = Ok stepped /\ forall pl, stepped = Some pl -> IM (tl D) pl.
Proof.
  intros HD. destruct mode.
  - assert (c_data (ap_ctx (ap_new ctx)) = D) as H1 by exact HD. destruct D as [|ch D'].
    + destruct (ap_step_nil _ H1 ltac:(cbn; lia)) as (ub & p' & -> & A & B). cbn [bind option_map snd]. eexists. split; [reflexivity|]. intros pl [= <-]. split; [exact A|]. cbn. lia.
    + destruct (ap_step_cons _ ch D' H1 ltac:(cbn [ap_new ap_digits_ahead]; lia)) as (ub & p' & -> & A & B & _). cbn [bind option_map snd]. eexists. split; [reflexivity|].
      intros pl [= <-]. split; [exact A|exact B].
  - assert (c_data (cp_ctx (cp_new false ctx)) = D) as H1 by exact HD. destruct D as [|ch D'].
    + destruct (cp_step_nil _ H1 ltac:(cbn; lia)) as (ub & p' & -> & A & B). cbn [bind option_map snd]. eexists. split; [reflexivity|]. intros pl [= <-]. split; [exact A|exact B].
    + destruct (cp_step_cons _ ch D' H1 ltac:(cbn; lia)) as [->|(ub & p' & -> & A & B)]; cbn [bind option_map snd]; eexists; (split; [reflexivity|]); intros pl; [discriminate|].
      intros [= <-]. split; [exact A|exact B].
  - assert (c_data (cp_ctx (cp_new true ctx)) = D) as H1 by exact HD. destruct D as [|ch D'].
    + destruct (cp_step_nil _ H1 ltac:(cbn; lia)) as (ub & p' & -> & A & B). cbn [bind option_map snd]. eexists. split; [reflexivity|]. intros pl [= <-]. split; [exact A|exact B].
    + destruct (cp_step_cons _ ch D' H1 ltac:(cbn; lia)) as [->|(ub & p' & -> & A & B)]; cbn [bind option_map snd]; eexists; (split; [reflexivity|]); intros pl; [discriminate|].
      intros [= <-]. split; [exact A|exact B].
  - assert (c_data (xp_ctx (xp_new ctx)) = D) as H1 by exact HD. destruct D as [|ch D'].
    + destruct (xp_step_nil _ H1) as (ub & ->). cbn [bind option_map snd]. eexists. split; [reflexivity|]. intros pl [= <-]. split; [exact H1|exact I].
    + destruct (xp_step_cons _ ch D' H1) as [[-> _]|(ub & p' & -> & A & _)]; cbn [bind option_map snd]; eexists; (split; [reflexivity|]); intros pl; [discriminate|].
      intros [= <-]. split; [exact A|exact I].
  - assert (c_data (ep_ctx (ep_new ctx)) = D) as H1 by exact HD. destruct D as [|ch D'].
    + destruct (ep_step_nil _ H1) as (ub & ->). cbn [bind option_map snd]. eexists. split; [reflexivity|]. intros pl [= <-]. split; [exact H1|exact I].
    + destruct (ep_step_cons _ ch D' H1) as [[-> _]|(ub & p' & -> & A & _)]; cbn [bind option_map snd]; eexists; (split; [reflexivity|]); intros pl; [discriminate|].
      intros [= <-]. split; [exact A|exact I].
  - assert (c_data (bp_ctx (bp_new ctx)) = D) as H1 by exact HD. destruct D as [|ch D'].
    + rewrite (bp_step_nil _ H1). cbn [option_map snd]. eexists. split; [reflexivity|]. intros pl [= <-]. split; [exact H1|exact I].
    + destruct (bp_step_cons _ ch D' H1) as [->|(p' & -> & A)]; cbn [option_map snd]; eexists; (split; [reflexivity|]); intros pl; [discriminate|].
      intros [= <-]. split; [exact A|exact I].
Qed.

Lemma add_switch_total g ctx ac rest st mode extra l s D : c_data ctx = D -> gp_switches g <> [] ->
  (st = true -> length (gp_switches g) = 1%nat) -> Forall (TI (tl D)) l ->
  exists l' s', add_switch sl g ctx ac rest st mode extra (l, s) = Ok (l', s') /\ Forall (TI (tl D)) l'.
Proof.
  intros HD SW ST HL. unfold add_switch.
  assert (exists sw, (if st then if negb (Nat.eqb (length (gp_switches g)) 1) then Panic PAssert else Ok [(rest, mode)]
                       else Ok (gp_switches g ++ [(rest, mode)])) = (Ok sw : PR _) /\ sw <> []) as (sw & -> & NS).
  { destruct st; [rewrite (ST eq_refl); cbn [Nat.eqb negb]; eexists; split; [reflexivity|discriminate]|].
    eexists. split; [reflexivity|]. destruct (gp_switches g); discriminate. }
  cbn [bind]. destruct (fresh_step mode (ctx_write ctx extra) D ltac:(rewrite ctx_write_data; exact HD)) as (stepped & -> & FS). cbn [bind].
  destruct stepped as [pl|]; do 2 eexists; (split; [reflexivity|]); [|exact HL].
  apply Forall_app. split; [exact HL|]. constructor; [|constructor]. split; [exact NS|]. exact (FS pl eq_refl).
Qed.

Lemma add_switch_all_total g ctx ac rest st D : c_data ctx = D -> gp_switches g <> [] ->
  (st = true -> length (gp_switches g) = 1%nat) -> forall todo l s, Forall (TI (tl D)) l ->
  exists l' s', add_switch_all sl g ctx ac rest st todo (l, s) = Ok (l', s') /\ Forall (TI (tl D)) l'.
Proof.
  intros HD SW ST. induction todo as [|[mode extra] t IH]; intros l s HL; cbn [add_switch_all]; [do 2 eexists; split; [reflexivity|exact HL]|].
  destruct (add_switch_total g ctx ac rest st mode extra l s D HD SW ST HL) as (l1 & s1 & -> & H1). cbn [bind]. apply IH. exact H1.
Qed.

Lemma add_switches_total g rest st modes s D : TI D g -> UL g -> (st = true -> length (gp_switches g) = 1%nat) ->
  exists l s', gp_add_switches sl g rest st modes s = Ok (l, s') /\ Forall (TI (tl D)) l.
Proof.
  intros HT HU ST. unfold gp_add_switches. destruct (gp_mode_switch_cost g) as [c|] eqn:C; [|do 2 eexists; split; [reflexivity|constructor]].
  destruct (write_unlatch_total g D c HT HU C) as (ctx & -> & HD). cbn [bind]. apply (add_switch_all_total g ctx c rest st D HD (proj1 HT) ST). constructor.
Qed.

(* ---- one pass over the live plans ---- *)
Lemma step_all_total rest uas modes D : forall plans np ae s,
  Forall (TI D) plans -> Forall (TI (tl D)) np -> (uas = true -> Forall (fun g => length (gp_switches g) = 1%nat) plans) -> (ae = true -> D = []) ->
  exists np' ae' s', step_all sl plans rest uas modes np ae s = Ok (np', ae', s') /\ Forall (TI (tl D)) np' /\
    (ae' = true -> D = []) /\ (plans <> [] -> D = [] -> ae' = true) /\ (plans = [] -> ae' = ae) /\ (np' = [] -> np = []).
Proof.
  induction plans as [|plan r IH]; intros np ae s HP HN HU HA; cbn [step_all].
  - do 3 eexists. split; [reflexivity|]. split; [exact HN|]. split; [exact HA|]. split; [congruence|]. split; [reflexivity|auto].
  - inversion HP as [|? ? G HP']; subst.
    assert (uas = true -> length (gp_switches plan) = 1%nat) as U1 by (intros E; specialize (HU E); inversion HU; assumption).
    assert (uas = true -> Forall (fun g => length (gp_switches g) = 1%nat) r) as UR by (intros E; specialize (HU E); inversion HU; assumption).
    destruct D as [|ch D'].
    + destruct (gp_step_nil plan G) as (ub & g' & -> & G'). cbn [bind sr_end sr_unbeatable negb andb]. rewrite andb_false_r. cbn [bind Bool.eqb negb].
      destruct (IH (np ++ [g']) true (s + 1) HP') as (np' & ae' & s' & -> & R1 & R2 & R3 & R4 & R5).
      { apply Forall_app. split; [exact HN|constructor; [exact G'|constructor]]. }
      { exact UR. } { reflexivity. }
      do 3 eexists. split; [reflexivity|]. split; [exact R1|]. split; [exact R2|]. split; [|split; [discriminate|]].
      * intros _ _. destruct r as [|x r']; [rewrite (R4 eq_refl); reflexivity|apply R3; [discriminate|reflexivity]].
      * intros E. apply R5 in E. destruct np; discriminate.
    + assert (ae = false) as -> by (destruct ae; [specialize (HA eq_refl); discriminate|reflexivity]).
      destruct (gp_step_cons plan ch D' G) as [[-> HUL]|(ub & g' & -> & G' & HUL)]; cbn [bind].
      * destruct (add_switches_total plan rest uas modes (s + 1) (ch :: D') G HUL U1) as (added & s1 & -> & HAd). cbn [bind].
        destruct (IH (np ++ added) false s1 HP') as (np' & ae' & s' & -> & R1 & R2 & R3 & R4 & R5).
        { apply Forall_app. split; [exact HN|exact HAd]. } { exact UR. } { discriminate. }
        do 3 eexists. split; [reflexivity|]. split; [exact R1|]. split; [exact R2|]. split; [discriminate|]. split; [discriminate|].
        intros E. apply R5 in E. destruct np; [reflexivity|discriminate].
      * cbn [sr_end sr_unbeatable]. rewrite andb_true_r.
        assert (exists np1 s1, (if negb ub then let* (added, steps) := gp_add_switches sl plan rest uas modes (s + 1) in Ok ((np ++ [g']) ++ added, steps)
                                else Ok (np ++ [g'], s + 1)) = Ok (np1, s1) /\ Forall (TI D') np1 /\ np1 <> []) as (np1 & s1 & -> & H1 & N1).
        { destruct ub; cbn [negb].
          - do 2 eexists. split; [reflexivity|]. split; [apply Forall_app; split; [exact HN|constructor; [exact G'|constructor]]|destruct np; discriminate].
          - destruct (add_switches_total plan rest uas modes (s + 1) (ch :: D') G (HUL eq_refl) U1) as (added & s1 & -> & HAd). cbn [bind]. do 2 eexists.
            split; [reflexivity|]. split; [apply Forall_app; split; [apply Forall_app; split; [exact HN|constructor; [exact G'|constructor]]|exact HAd]|destruct np; discriminate]. }
        cbn [bind Bool.eqb negb].
        destruct (IH np1 false s1 HP' H1 UR ltac:(discriminate)) as (np' & ae' & s' & -> & R1 & R2 & R3 & R4 & R5).
        do 3 eexists. split; [reflexivity|]. split; [exact R1|]. split; [exact R2|]. split; [discriminate|]. split; [discriminate|].
        intros E. apply R5 in E. contradiction.
Qed.

(* ---- costs, pruning, final selection ---- *)
Lemma gp_cost_total g : exists c, gp_cost sl g = Ok c.
Proof.
  unfold gp_cost. destruct (gp_plan g) as [p|p|p|p|p|p]; cbn [bind]; try (eexists; reflexivity);
    (unfold cp_cost_; destruct (ctx_more (cp_ctx p)); [destruct (frac_new_ok (2 * cp_values p) 3 ltac:(lia)) as [f ->]|]; cbn [bind]; eexists; reflexivity).
Qed.
Lemma cost_for_switching_total g m : exists c, gp_cost_for_switching_to sl g m = Ok c.
Proof.
  unfold gp_cost_for_switching_to. destruct (et_eqb (gp_current g) m); [destruct (gp_cost_total g) as [c ->]; cbn [bind]; eexists; reflexivity|].
  destruct m; eexists; reflexivity.
Qed.

Definition has_sw (g : generic_plan) : Prop := gp_switches g <> [].

Lemma dedup_total : forall l seen, Forall has_sw l -> exists r, dedup l seen = Ok r.
Proof.
  induction l as [|g l IH]; intros seen H; cbn [dedup]; [eexists; reflexivity|]. inversion H as [|? ? HG HL]; subst.
  unfold gp_start_mode. destruct (gp_switches g) as [|[n m] t] eqn:E; [contradiction|]. cbn [bind].
  destruct (existsb _ seen); [apply IH; exact HL|]. destruct (IH (et_index m * 6 + et_index (gp_current g) :: seen) HL) as [r ->]. cbn [bind]. eexists. reflexivity.
Qed.

Lemma dominate_total first : forall tail, exists r unc, dominate sl first tail = Ok (r, unc) /\ (length r <= length tail)%nat.
Proof.
  induction tail as [|second t IH]; cbn [dominate]; [do 2 eexists; split; [reflexivity|lia]|].
  destruct (cost_for_switching_total first (gp_current second)) as [fc ->]. cbn [bind]. destruct fc as [fcost|]; [|do 2 eexists; split; [reflexivity|lia]].
  destruct (gp_cost_total second) as [sc ->]. cbn [bind]. destruct IH as (r & unc & -> & L). cbn [bind].
  destruct (fcost <? sc); do 2 eexists; (split; [reflexivity|]); cbn [length]; lia.
Qed.

Lemma prune_total : forall fuel done rest, (length rest < fuel)%nat -> exists r, prune sl fuel done rest = Ok r.
Proof.
  induction fuel as [|f IH]; intros done rest H; [lia|]. cbn [prune]. destruct rest as [|first [|x t]]; try (eexists; reflexivity).
  destruct (dominate_total first (x :: t)) as (r & unc & -> & L). cbn [bind]. destruct unc; [|eexists; reflexivity]. apply IH. cbn [length] in *. lia.
Qed.

Lemma remove_hopeless_total sorted : Forall has_sw sorted -> exists r, remove_hopeless_cases sl sorted = Ok r.
Proof.
  intros H. unfold remove_hopeless_cases. destruct (dedup_total sorted [] H) as [l ->]. cbn [bind]. apply prune_total. lia.
Qed.

Lemma with_keys_total : forall l, Forall has_sw l -> exists kl, with_keys sl l = Ok kl /\ length kl = length l.
Proof.
  induction l as [|g l IH]; intros H; cbn [with_keys]; [eexists; split; reflexivity|]. inversion H as [|? ? HG HL]; subst.
  destruct (gp_cost_total g) as [c ->]. cbn [bind]. destruct (gp_switches g) as [|x t] eqn:E; [contradiction|]. cbn [bind].
  destruct (IH HL) as (kl & -> & LK). cbn [bind]. eexists. split; [reflexivity|]. cbn [length]. lia.
Qed.

Lemma TI_has_sw D l : Forall (TI D) l -> Forall has_sw l.
Proof. apply Forall_impl. intros g [H _]. exact H. Qed.

(* ---- the main loop and optimize ---- *)
Section Sorted.
Variable sorter : nat -> list generic_plan -> PR (list generic_plan).
Hypothesis sorter_ok : forall k l, exists l', sorter k l = Ok l' /\ incl l' l.

Lemma incl_Forall' {A} (P : A -> Prop) l l' : incl l' l -> Forall P l -> Forall P l'.
Proof. intros I F. apply Forall_forall. intros x Hx. exact (proj1 (Forall_forall P l) F x (I x Hx)). Qed.

Lemma opt_loop_total : forall fuel it data_len written modes plans new_plan st D,
  data_len = N.of_nat it + N.of_nat (length D) -> (length D < fuel)%nat ->
  Forall (TI D) plans -> Forall (TI (tl D)) new_plan ->
  (it = 0%nat -> Forall (fun g => length (gp_switches g) = 1%nat) plans) -> (it <> 0%nat -> plans <> []) ->
  exists r, opt_loop sl sorter fuel it data_len written modes plans new_plan st = Ok r.
Proof.
  induction fuel as [|f IH]; intros it data_len written modes plans new_plan st D HL HF HP HN HU HE; [lia|]. cbn [opt_loop].
  destruct (N.ltb_spec data_len (N.of_nat it)); [lia|].
  set (ae0 := (Nat.eqb it 0) && (match plans with [] => true | _ => false end) && (data_len =? 0)).
  destruct (step_all_total (data_len - N.of_nat it) (Nat.eqb it 0) modes D plans new_plan ae0 (st_steps st) HP HN) as (np & ae & steps & -> & R1 & R2 & R3 & R4 & R5).
  { intros E. apply Nat.eqb_eq in E. exact (HU E). }
  { unfold ae0. intros E. apply andb_true_iff in E. destruct E as [_ E]. apply N.eqb_eq in E. destruct D; [reflexivity|cbn [length] in HL; lia]. }
  cbn [bind]. destruct (sorter_ok it np) as (sorted & -> & IS). cbn [bind].
  pose proof (incl_Forall' _ _ _ IS R1) as HS.
  destruct (remove_hopeless_total sorted (TI_has_sw _ _ HS)) as [np2 RH]. rewrite RH. cbn [bind].
  pose proof (incl_Forall' _ _ _ (remove_hopeless_incl sl sorted np2 RH) HS) as H2.
  destruct np2 as [|p0 t] eqn:EN; [eexists; reflexivity|]. rewrite <- EN in *.
  destruct ae.
  - destruct (with_keys_total np2 (TI_has_sw _ _ H2)) as (kl & -> & LK). cbn [bind]. destruct kl as [|[p k] r]; [rewrite EN in LK; discriminate|].
    destruct (gp_cost_total (min_by p k r)) as [c ->]. cbn [bind]. eexists. reflexivity.
  - assert (D <> []) as ND.
    { intros ->. destruct plans as [|x xs]; [|specialize (R3 ltac:(discriminate) eq_refl); discriminate].
      specialize (R4 eq_refl). destruct it as [|it']; [|exact (HE ltac:(discriminate) eq_refl)].
      unfold ae0 in R4. cbn [Nat.eqb andb length] in R4, HL. assert (data_len = 0) as -> by lia. discriminate. }
    destruct D as [|ch D']; [contradiction|]. cbn [tl length] in *.
    apply (IH (S it) data_len written modes np2 [] _ D'); [lia|lia|exact H2|constructor|discriminate|intros _; rewrite EN; discriminate].
Qed.

Theorem optimize_total data written mode modes : exists r, optimize sl sorter data written mode modes = Ok r.
Proof.
  unfold optimize.
  assert (TI data (gp_for_mode mode data written)) as HT.
  { split; [discriminate|]. unfold gp_for_mode. destruct mode; (split; [reflexivity|]); cbn; try lia; exact I. }
  assert (UL (gp_for_mode mode data written)) as HU by (unfold UL, gp_for_mode; destruct mode; reflexivity).
  destruct (enabled modes mode).
  - cbn [bind]. apply (opt_loop_total _ 0 _ _ _ _ _ _ data); [cbn; lia|lia|constructor; [exact HT|constructor]|constructor| |congruence].
    intros _. constructor; [reflexivity|constructor].
  - destruct (add_switches_total (gp_for_mode mode data written) (N.of_nat (length data)) true modes 0 data HT HU ltac:(reflexivity)) as (added & s' & -> & HA).
    cbn [bind]. apply (opt_loop_total _ 0 _ _ _ _ _ _ data); [cbn; lia|lia|constructor|exact HA|intros _; constructor|congruence].
Qed.
End Sorted.
End Total.
Print Assumptions optimize_total.

(* the stable insertion sort of Model/PlannerRun.v is such a sort *)
From DM Require Import Model.PlannerRun.
Lemma with_costs_total sl : forall l, exists lc, with_costs sl l = Ok lc.
Proof.
  induction l as [|g l IH]; cbn [with_costs]; [eexists; reflexivity|]. destruct (gp_cost_total sl g) as [c ->]. cbn [bind].
  destruct IH as [lc ->]. cbn [bind]. eexists. reflexivity.
Qed.
Lemma stable_sorter_ok sl k l : exists l', stable_sorter sl k l = Ok l' /\ incl l' l.
Proof.
  unfold stable_sorter. destruct (with_costs_total sl l) as [lc E]. assert (stable_sorter sl k l = Ok (map fst (fold_left (fun acc pc => insert_by (fst pc) (snd pc) acc) lc []))) as S
    by (unfold stable_sorter; rewrite E; reflexivity).
  rewrite E. cbn [bind]. eexists. split; [reflexivity|]. exact (stable_sorter_incl sl k l _ S).
Qed.

Theorem optimize_total_stable sl data written mode modes : exists r, optimize sl (stable_sorter sl) data written mode modes = Ok r.
Proof. apply optimize_total. apply stable_sorter_ok. Qed.
