(* Proofs/RSDecProofs.v -- properties C09 (success implies codeword) and parts of C03/C05 for the
   model of the error decoder. *)
From Coq Require Import Arith NArith List Bool Lia Ring Field.
From DM Require Import Generated.Symbols Generated.Generators Spec.GF256 Spec.Poly Spec.RSCode
  Model.Outcome Model.GF Model.RSEnc Model.RSDec Proofs.GFTie Proofs.RSEncProofs Proofs.SymbolListProofs.
Import ListNotations.

(* ------------------------------------------------------------------ *)
(* polynomials with a given set of roots: a polynomial of degree < n that vanishes at n pairwise
   different points is zero (no determinants: repeated synthetic division) *)

(* quotient of p by (x - a): partial Horner sums, remainder dropped *)
Fixpoint synth (a : F) (acc : F) (p : list F) : list F :=
  match p with
  | [] => []
  | [c] => []
  | c :: r => let q := Fadd (Fmul acc a) c in q :: synth a q r
  end.
Definition divq (a : F) (p : list F) : list F := synth a F0 p.

(* the standard identity p(x) = (x - a) q(x) + p(a), stated with explicit accumulators *)
Lemma horner_div a x : forall p acc1 acc2,
  fold_left (horner x) p acc1 =
  Fadd (Fadd (Fmul (Fsub x a) (fold_left (horner x) (synth a acc2 p) F0))
             (Fmul (Fsub acc1 acc2) (Fpow x (length p))))
       (Fadd (Fmul (Fsub x a) (Fmul acc2 (Fpow x (length p - 1)))) (fold_left (horner a) p acc2))
  \/ p = [].
Proof.
  induction p as [|c r IH]; intros acc1 acc2; [now right|left].
  destruct r as [|d r'].
  - cbn [fold_left synth length Nat.sub Fpow]. unfold horner. ring.
  - destruct (IH (horner x acc1 c) (horner a acc2 c)) as [E|E]; [|discriminate].
    change (fold_left (horner x) (c :: d :: r') acc1) with (fold_left (horner x) (d :: r') (horner x acc1 c)).
    rewrite E. clear E IH.
    change (synth a acc2 (c :: d :: r')) with (Fadd (Fmul acc2 a) c :: synth a (Fadd (Fmul acc2 a) c) (d :: r')).
    change (fold_left (horner a) (c :: d :: r') acc2) with (fold_left (horner a) (d :: r') (horner a acc2 c)).
    change (Fadd (Fmul acc2 a) c) with (horner a acc2 c).
    set (q := horner a acc2 c).
    change (fold_left (horner x) (q :: synth a q (d :: r')) F0) with (fold_left (horner x) (synth a q (d :: r')) (horner x F0 q)).
    rewrite (horner_fold (synth a q (d :: r')) x (horner x F0 q)).
    rewrite (horner_fold (synth a q (d :: r')) x F0).
    assert (length (synth a q (d :: r')) = length r') as L.
    { clear. generalize q d. induction r' as [|e r'' IH]; intros q0 d0; [reflexivity|]. cbn [synth length]. f_equal. apply IH. }
    rewrite L. cbn [length Nat.sub]. rewrite Nat.sub_0_r.
    unfold q, horner. cbn [Fpow]. ring.
Qed.

Lemma synth_length a : forall p acc, length (synth a acc p) = (length p - 1)%nat.
Proof. induction p as [|c r IH]; intros acc; [reflexivity|]. destruct r as [|d r']; [reflexivity|].
  change (synth a acc (c :: d :: r')) with (Fadd (Fmul acc a) c :: synth a (Fadd (Fmul acc a) c) (d :: r')).
  cbn [length]. rewrite IH. cbn [length]. lia. Qed.

Lemma peval_div a x p : p <> [] ->
  peval p x = Fadd (Fmul (Fsub x a) (peval (divq a p) x)) (peval p a).
Proof.
  intros Hp. unfold peval, divq. destruct (horner_div a x p F0 F0) as [E|E]; [|contradiction].
  rewrite E. ring.
Qed.

(* if all partial Horner sums vanish then so do all coefficients *)
Lemma synth_zero a : forall p acc, acc = F0 -> Forall (fun c => c = F0) (synth a acc p) ->
  fold_left (horner a) p acc = F0 -> Forall (fun c => c = F0) p.
Proof.
  induction p as [|c r IH]; intros acc Ha Hq Hr; [constructor|].
  destruct r as [|d r'].
  - cbn [fold_left] in Hr. unfold horner in Hr. subst acc. constructor; [|constructor].
    rewrite <- Hr. ring.
  - change (synth a acc (c :: d :: r')) with (Fadd (Fmul acc a) c :: synth a (Fadd (Fmul acc a) c) (d :: r')) in Hq.
    inversion Hq as [|? ? Hq0 Hq']; subst.
    assert (c = F0) as -> by (rewrite <- Hq0; ring).
    constructor; [reflexivity|].
    apply (IH (Fadd (Fmul F0 a) F0)); [ring|exact Hq'|exact Hr].
Qed.

Theorem roots_zero : forall (xs : list F) (p : list F),
  NoDup xs -> length p = length xs -> (forall x, In x xs -> peval p x = F0) -> Forall (fun c => c = F0) p.
Proof.
  induction xs as [|a xs IH]; intros p ND L R.
  - destruct p; [constructor|discriminate].
  - destruct p as [|c r]; [discriminate|].
    inversion ND as [|? ? Hnotin ND']; subst.
    assert (c :: r <> []) as Hne by discriminate.
    (* the quotient vanishes at the other points *)
    assert (Forall (fun q => q = F0) (divq a (c :: r))) as Hq.
    { apply (IH _ ND').
      - unfold divq. rewrite synth_length. cbn [length] in *. lia.
      - intros x Hx. pose proof (peval_div a x (c :: r) Hne) as E.
        rewrite (R x (or_intror Hx)), (R a (or_introl eq_refl)) in E.
        assert (Fmul (Fsub x a) (peval (divq a (c :: r)) x) = F0) as Z by (rewrite E; ring).
        apply Fmul_integral in Z. destruct Z as [Z|Z]; [|exact Z].
        exfalso. apply Hnotin. assert (x = a) as -> by (transitivity (Fadd (Fsub x a) a); [ring|rewrite Z; ring]). exact Hx. }
    apply (synth_zero a (c :: r) F0 eq_refl Hq). exact (R a (or_introl eq_refl)).
Qed.

(* ------------------------------------------------------------------ *)
(* the error part of a codeword is determined by its data part *)
Lemma NoDup_map_inj_on {A B} (f : A -> B) (l : list A) :
  NoDup l -> (forall x y, In x l -> In y l -> f x = f y -> x = y) -> NoDup (map f l).
Proof.
  induction 1 as [|a r Hn ND IH]; intros Inj; cbn [map]; constructor.
  - intros Hin. apply in_map_iff in Hin. destruct Hin as [y [E Hy]].
    assert (y = a) as -> by (apply Inj; [now right|now left|exact E]). contradiction.
  - apply IH. intros x y Hx Hy. apply Inj; now right.
Qed.

Lemma roots_NoDup k : (k <= 254)%nat -> NoDup (roots k).
Proof.
  intros Hk. unfold roots. apply NoDup_map_inj_on; [apply seq_NoDup|].
  intros i j Hi Hj E. apply in_seq in Hi, Hj. apply Falpha_pow_inj; [lia|lia|exact E].
Qed.

Lemma zipF_add_zero l1 : forall l2, length l1 = length l2 ->
  Forall (fun c => c = F0) (zipF Fadd l1 l2) -> l1 = l2.
Proof.
  induction l1 as [|a r IH]; intros [|b r2] L H; cbn in L; try lia; [reflexivity|].
  cbn [zipF] in H. inversion H as [|? ? H0 H']; subst. f_equal; [|apply IH; [lia|exact H']].
  transitivity (Fadd (Fadd a b) b); [ring|rewrite H0; ring].
Qed.

Theorem ecc_unique k D E1 E2 : (k <= 254)%nat -> length E1 = k -> length E2 = k ->
  block_ok k (D ++ E1) -> block_ok k (D ++ E2) -> E1 = E2.
Proof.
  intros Hk L1 L2 B1 B2. apply zipF_add_zero; [lia|].
  apply (roots_zero (roots k)).
  - now apply roots_NoDup.
  - rewrite zipF_length by lia. unfold roots. rewrite map_length, seq_length. exact L1.
  - intros x Hx. rewrite peval_zip_add by lia.
    pose proof (B1 x Hx) as P1. pose proof (B2 x Hx) as P2. rewrite peval_app in P1, P2. rewrite L1 in P1. rewrite L2 in P2.
    transitivity (Fadd (Fadd (Fmul (peval D x) (Fpow x k)) (peval E1 x)) (Fadd (Fmul (peval D x) (Fpow x k)) (peval E2 x))); [ring|].
    rewrite P1, P2. ring.
Qed.

(* ------------------------------------------------------------------ *)
(* primitive_element_evaluation computes the syndromes c(alpha^1), .., c(alpha^k) *)
Definition Fsum (l : list F) : F := fold_left Fadd l F0.

Lemma Fsum_fold l : forall a, fold_left Fadd l a = Fadd a (Fsum l).
Proof. unfold Fsum. induction l as [|x r IH]; intros a; cbn [fold_left]; [ring|]. rewrite IH, (IH (Fadd F0 x)). ring. Qed.

Lemma gsum_toF l : Forall byte l -> byte (gsum l) /\ toF (gsum l) = Fsum (map toF l).
Proof.
  unfold gsum, Fsum. assert (G : forall l a, byte a -> Forall byte l ->
     byte (fold_left GF.add l a) /\ toF (fold_left GF.add l a) = fold_left Fadd (map toF l) (toF a)).
  { induction l0 as [|x r IH]; intros a Ha Hl; cbn [fold_left map]; [tauto|]. inversion Hl; subst.
    destruct (IH (GF.add a x)) as [I1 I2]; [now apply add_byte|assumption|]. split; [exact I1|].
    rewrite I2, toF_add by assumption. reflexivity. }
  intros H. apply G; [unfold byte; lia|exact H].
Qed.

Lemma zipw_mul_toF a : forall b, Forall byte a -> Forall byte b ->
  Forall byte (zipw GF.mul a b) /\ map toF (zipw GF.mul a b) = zipF Fmul (map toF a) (map toF b).
Proof.
  induction a as [|x r IH]; intros [|y r2] Ha Hb; cbn [zipw zipF map]; try (split; [constructor|reflexivity]).
  inversion Ha; inversion Hb; subst. destruct (IH r2) as [I1 I2]; try assumption. split.
  - constructor; [now apply mul_byte|exact I1].
  - rewrite I2, toF_mul by assumption. reflexivity.
Qed.

(* sum_i crev[i] * y^i where crev = rev c: Horner value of c *)
Lemma Fsum_rev_powers c y : Fsum (zipF Fmul (rev c) (map (fun i => Fpow y i) (seq 0 (length c)))) = peval c y.
Proof.
  induction c as [|a r IH]; [reflexivity|].
  cbn [rev length]. rewrite seq_S, map_app. cbn [map Nat.add].
  assert (Z : forall (l1 l2 m1 m2 : list F), length l1 = length m1 ->
            zipF Fmul (l1 ++ l2) (m1 ++ m2) = zipF Fmul l1 m1 ++ zipF Fmul l2 m2).
  { induction l1 as [|x l1 IH1]; intros l2 [|z m1] m2 L; cbn in L; try lia; [reflexivity|]. cbn [app zipF]. f_equal. apply IH1. lia. }
  rewrite Z by (rewrite rev_length, map_length, seq_length; reflexivity).
  unfold Fsum at 1. rewrite fold_left_app. fold (Fsum (zipF Fmul (rev r) (map (fun i => Fpow y i) (seq 0 (length r))))).
  rewrite IH. cbn [zipF fold_left]. rewrite peval_cons. ring.
Qed.

Lemma zipF_map2 (f : F -> F -> F) (g : nat -> F) (h : F -> nat -> F) l : forall s,
  (forall c i, f c (g i) = h c i) -> zipF f l (map g (seq s (length l))) = map (fun p => h (fst p) (snd p)) (combine l (seq s (length l))).
Proof. induction l as [|a r IH]; intros s E; [reflexivity|]. cbn [length seq map zipF combine fst snd]. rewrite E, IH by exact E. reflexivity. Qed.

Lemma primitive_power_toF i : toF (GF.primitive_power (N.of_nat i)) = Fpow Falpha i.
Proof.
  unfold GF.primitive_power.
  assert (N.of_nat i mod 255 < 255)%N as L by (apply N.mod_lt; lia).
  pose proof alog_sweep as S. rewrite forallb_forall in S.
  specialize (S (N.of_nat i mod 255)%N).
  assert (In (N.of_nat i mod 255)%N (map N.of_nat (seq 0 255))) as Hin.
  { set (m := (N.of_nat i mod 255)%N) in *. apply in_map_iff. exists (N.to_nat m). split; [apply N2Nat.id|]. apply in_seq. lia. }
  specialize (S Hin). apply N.eqb_eq in S. rewrite S. rewrite <- Fpow_alpha_toF.
  (* alpha^(i mod 255) = alpha^i *)
  assert (Fpow Falpha 255 = F1) as O.
  { apply F_eq. rewrite Fval_pow. destruct alpha_order as [O _]. exact O. }
  assert (forall q, Fpow Falpha (q * 255) = F1) as Q.
  { induction q as [|q IH]; [reflexivity|]. cbn [Nat.mul]. rewrite Fpow_add, O, IH. ring. }
  replace (N.to_nat (N.of_nat i mod 255)%N) with (i mod 255)%nat.
  - rewrite (Nat.div_mod i 255) at 2 by lia. rewrite Fpow_add, (Nat.mul_comm 255), Q. ring.
  - rewrite <- (Nat2N.id (i mod 255)%nat). f_equal. change 255%N with (N.of_nat 255). rewrite <- Nat2N.inj_mod. reflexivity.
Qed.

Lemma Fpow_mul x i : forall j, Fpow (Fpow x i) j = Fpow x (i * j).
Proof. induction j as [|j IH]; cbn [Fpow]; [rewrite Nat.mul_0_r; reflexivity|].
  rewrite IH. replace (i * S j)%nat with (i + i * j)%nat by lia. rewrite Fpow_add. reflexivity. Qed.

Lemma zipF_step (G : list F) : forall (P : list F) j,
  zipF (fun g p => Fmul g (Fpow p j)) (zipF Fmul G P) P = zipF (fun g p => Fmul g (Fpow p (S j))) G P.
Proof. induction G as [|g r IH]; intros [|p r2] j; cbn [zipF]; try reflexivity. rewrite IH. f_equal. cbn [Fpow]. ring. Qed.

Lemma zipF_pow0 (G : list F) : forall P, length G = length P -> zipF (fun g p => Fmul g (Fpow p 0)) G P = G.
Proof. induction G as [|g r IH]; intros [|p r2] L; cbn in L; try lia; [reflexivity|]. cbn [zipF Fpow]. rewrite IH by lia. f_equal. ring. Qed.

Lemma zipw_length {A B C} (f : A -> B -> C) l1 : forall l2, length l1 = length l2 -> length (zipw f l1 l2) = length l1.
Proof. induction l1 as [|a r IH]; intros [|b r2] L; cbn in *; try lia. rewrite IH; lia. Qed.

Lemma pee_go_spec k : forall gamma pw, Forall byte gamma -> Forall byte pw -> length gamma = length pw ->
  Forall byte (pee_go k gamma pw) /\
  map toF (pee_go k gamma pw) =
    map (fun j => Fsum (zipF (fun g p => Fmul g (Fpow p j)) (map toF gamma) (map toF pw))) (seq 1 k).
Proof.
  induction k as [|k IH]; intros gamma pw Hg Hp L; cbn [pee_go seq map]; [split; [constructor|reflexivity]|].
  destruct (zipw_mul_toF gamma pw Hg Hp) as [Z1 Z2].
  destruct (IH (zipw GF.mul gamma pw) pw Z1 Hp) as [I1 I2]; [rewrite zipw_length; lia|].
  destruct (gsum_toF _ Z1) as [S1 S2]. split; [constructor; assumption|].
  rewrite S2, I2. cbn [map]. f_equal.
  - rewrite Z2. f_equal. symmetry. rewrite <- (zipF_step (map toF gamma) (map toF pw) 0).
    apply zipF_pow0. rewrite zipF_length by (rewrite !map_length; exact L). rewrite !map_length. exact L.
  - rewrite <- (seq_shift k 1), map_map. apply map_ext. intros j. now rewrite Z2, zipF_step.
Qed.

Lemma powers_toF n : Forall byte (powers n) /\ map toF (powers n) = map (fun i => Fpow Falpha i) (seq 0 n).
Proof.
  unfold powers. split.
  - apply Forall_forall. intros x Hx. apply in_map_iff in Hx. destruct Hx as [i [<- _]].
    unfold GF.primitive_power, GF.alog. destruct tables_sweep as (L & _ & B & _).
    rewrite forallb_forall in B.
    assert (N.to_nat (N.of_nat i mod 255) < 255)%nat as Hi by (pose proof (N.mod_lt (N.of_nat i) 255 ltac:(lia)); lia).
    apply byteb_byte, B, nth_In. lia.
  - rewrite map_map. apply map_ext. intros i. apply primitive_power_toF.
Qed.

Theorem syndromes_spec c k : Forall byte c ->
  let out := fst (primitive_element_evaluation c k) in
  Forall byte out /\ map toF out = map (fun j => peval (map toF c) (Fpow Falpha j)) (seq 1 k).
Proof.
  intros Hc. unfold primitive_element_evaluation. cbn [fst].
  destruct (powers_toF (length c)) as [P1 P2].
  destruct (pee_go_spec k (rev c) (powers (length c))) as [G1 G2].
  - apply Forall_rev, Hc.
  - exact P1.
  - unfold powers. rewrite rev_length, map_length, seq_length. reflexivity.
  - split; [exact G1|]. rewrite G2. apply map_ext. intros j.
    rewrite P2, map_rev.
    rewrite <- (Fsum_rev_powers (map toF c) (Fpow Falpha j)). rewrite map_length. f_equal.
    set (R := rev (map toF c)). assert (length R = length c) as LR by (unfold R; rewrite rev_length, map_length; reflexivity).
    rewrite <- LR. clear. generalize 0%nat. induction R as [|g r IH]; intros s; [reflexivity|].
    cbn [length seq map zipF]. rewrite IH. f_equal. f_equal. rewrite !Fpow_mul. f_equal. lia.
Qed.

Lemma toF_zero_iff o : byte o -> (toF o = F0 <-> o = 0%N).
Proof. intros H. split; [|intros ->; reflexivity]. intros E. apply (f_equal Fval) in E. rewrite Fval_toF in E by exact H. exact E. Qed.

(* "no syndrome is non-zero" means the word is a block of the code *)
Theorem no_nonzero_syndrome c k : Forall byte c ->
  snd (primitive_element_evaluation c k) = false -> block_ok k (map toF c).
Proof.
  intros Hc H. destruct (syndromes_spec c k Hc) as [B S]. cbv zeta in B, S.
  unfold primitive_element_evaluation in *. cbn [fst snd] in *.
  set (out := pee_go k (rev c) (powers (length c))) in *.
  intros r Hr. unfold roots in Hr. apply in_map_iff in Hr. destruct Hr as [j [<- Hj]].
  assert (In (peval (map toF c) (Fpow Falpha j)) (map toF out)) as Hin.
  { rewrite S. apply in_map_iff. exists j. split; [reflexivity|exact Hj]. }
  apply in_map_iff in Hin. destruct Hin as [o [Eo Ho]].
  rewrite <- Eo. apply toF_zero_iff; [rewrite Forall_forall in B; now apply B|].
  destruct (N.eqb_spec o 0) as [E|NE]; [exact E|exfalso].
  assert (existsb (fun o => negb (N.eqb o 0)) out = true) as X; [|congruence].
  apply existsb_exists. exists o. split; [exact Ho|]. apply negb_true_iff. now apply N.eqb_neq.
Qed.

(* ------------------------------------------------------------------ *)
(* list surgery used by the decoder *)
Lemma set_ok_spec l : forall i v l', set_ok l i v = Ok l' ->
  length l' = length l /\ (i < length l)%nat /\ nth_error l' i = Some v /\
  forall j, j <> i -> nth_error l' j = nth_error l j.
Proof.
  induction l as [|x r IH]; intros i v l' H; cbn [set_ok] in H; [destruct i; discriminate|].
  destruct i as [|i'].
  - inversion H; subst. cbn. repeat split; try lia. intros [|j] Hj; [lia|reflexivity].
  - destruct (set_ok r i' v) as [r'| |] eqn:E; cbn [bind] in H; try discriminate. inversion H; subst.
    destruct (IH _ _ _ E) as (L & B & N & O). cbn [length nth_error]. repeat split; try lia; [exact N|].
    intros [|j] Hj; [reflexivity|]. cbn [nth_error]. apply O. lia.
Qed.

Lemma Forall_set_ok (P : N -> Prop) l i v l' : set_ok l i v = Ok l' -> Forall P l -> P v -> Forall P l'.
Proof.
  revert i l'. induction l as [|x r IH]; intros i l' H Hl Hv; cbn [set_ok] in H; [destruct i; discriminate|].
  inversion Hl; subst. destruct i as [|i'].
  - inversion H; subst. constructor; assumption.
  - destruct (set_ok r i' v) as [r'| |] eqn:E; cbn [bind] in H; try discriminate. inversion H; subst.
    constructor; [assumption|]. eapply IH; eassumption.
Qed.

Lemma nth_ok_spec (l : list N) i x : nth_ok l i = Ok x -> nth_error l i = Some x.
Proof. unfold nth_ok, get. destruct (nth_error l i); [intros H; inversion H; reflexivity|discriminate]. Qed.

Lemma alog_byte i : byte (GF.alog i).
Proof.
  unfold GF.alog. destruct tables_sweep as (L & _ & B & _). rewrite forallb_forall in B.
  destruct (Nat.lt_ge_cases (N.to_nat i) 255) as [Hi|Hi].
  - apply byteb_byte, B, nth_In. lia.
  - rewrite nth_overflow by lia. unfold byte. lia.
Qed.

Lemma gdiv_byte a b q : gdiv a b = Ok q -> byte q.
Proof.
  unfold gdiv, GF.div. destruct (N.eqb b 0); [discriminate|]. destruct (N.eqb a 0).
  - intros H; inversion H; subst. unfold byte. lia.
  - intros H; inversion H; subst. apply alog_byte.
Qed.

Lemma nth_error_firstn' {A} (l : list A) : forall n j, nth_error (firstn n l) j = if (j <? n)%nat then nth_error l j else None.
Proof.
  induction l as [|x r IH]; intros n j.
  - rewrite firstn_nil. destruct (j <? n)%nat; destruct j; reflexivity.
  - destruct n as [|n]; [destruct j; reflexivity|]. destruct j as [|j]; [reflexivity|]. cbn [firstn nth_error]. rewrite IH.
    change (S j <? S n)%nat with (j <? n)%nat. reflexivity.
Qed.

Definition prefix_bytes (n : nat) (l : list N) : Prop := forall j x, (j < n)%nat -> nth_error l j = Some x -> byte x.

Lemma prefix_bytes_Forall n l : prefix_bytes n l -> Forall byte (firstn n l).
Proof.
  intros H. apply Forall_forall. intros y Hy. apply In_nth_error in Hy. destruct Hy as [j Hj].
  rewrite nth_error_firstn' in Hj. destruct (j <? n)%nat eqn:E; [|discriminate]. apply Nat.ltb_lt in E. eapply H; eassumption.
Qed.

(* the error values: the first e entries of the returned vector are quotients, hence bytes *)
Lemma bp3_bytes x_loc : forall m i0 syn s3, bp3 x_loc syn (seq i0 m) = Ok s3 ->
  prefix_bytes i0 syn -> prefix_bytes (i0 + m) s3.
Proof.
  induction m as [|m IH]; intros i0 syn s3 H Hb; cbn [seq bp3] in H.
  - inversion H; subst. now rewrite Nat.add_0_r.
  - destruct (nth_ok x_loc i0) as [xi| |]; cbn [bind] in H; try discriminate.
    destruct (nth_ok syn i0) as [cur| |]; cbn [bind] in H; try discriminate.
    destruct (gdiv cur xi) as [q| |] eqn:Q; cbn [bind] in H; try discriminate.
    destruct (set_ok syn i0 q) as [syn'| |] eqn:SO; cbn [bind] in H; try discriminate.
    replace (i0 + S m)%nat with (S i0 + m)%nat by lia. apply (IH (S i0) syn' s3 H).
    destruct (set_ok_spec _ _ _ _ SO) as (L & B & Nn & O).
    intros j y Hlt Hj. destruct (Nat.eq_dec j i0) as [->|Ne].
    + rewrite Nn in Hj. inversion Hj; subst. eapply gdiv_byte; eassumption.
    + rewrite O in Hj by exact Ne. apply (Hb j y); [lia|exact Hj].
Qed.

Lemma find_error_values_bytes x_loc syn xs s3 : find_error_values_bp x_loc syn = Ok (xs, s3) ->
  length xs = length x_loc /\ Forall byte (firstn (length x_loc) s3).
Proof.
  unfold find_error_values_bp.
  match goal with |- (let* xs := ?X in _) = _ -> _ => destruct X as [xs0| |] eqn:EX end; cbn [bind]; try discriminate.
  assert (length xs0 = length x_loc) as LX.
  { revert xs0 EX. induction x_loc as [|z r IH]; intros xs0 EX; [inversion EX; reflexivity|].
    destruct (gdiv 1%N z) as [q| |]; cbn [bind] in EX; try discriminate.
    match type of EX with (let* qs := ?X in _) = _ => destruct X as [qs| |] eqn:E2 end; cbn [bind] in EX; try discriminate.
    inversion EX; subst. cbn [length]. f_equal. now apply IH. }
  destruct (length x_loc =? 0)%nat; [discriminate|].
  destruct (bp1 _ _ _ _) as [s1| |]; cbn [bind]; try discriminate.
  destruct (bp2 _ _ _ _) as [s2| |]; cbn [bind]; try discriminate.
  destruct (bp3 xs0 s2 (seq 0 (length x_loc))) as [s3'| |] eqn:B3; cbn [bind]; try discriminate.
  intros H; inversion H; subst. split; [exact LX|].
  apply prefix_bytes_Forall. apply (bp3_bytes _ _ 0 _ _ B3). intros j x Hj. lia.
Qed.

(* ------------------------------------------------------------------ *)
(* step 4 only touches positions that are multiples of the stride, with byte values *)
Lemma apply_corr_spec stride n n_data : stride <> 0%nat -> forall locs errs data error d' e',
  apply_corr data error stride n n_data locs errs = Ok (d', e') ->
  Forall byte data -> Forall byte error -> Forall byte (firstn (length locs) errs) ->
  length d' = length data /\ length e' = length error /\ Forall byte d' /\ Forall byte e' /\
  (forall j, (j mod stride)%nat <> 0%nat -> nth_error d' j = nth_error data j) /\
  (forall j, (j mod stride)%nat <> 0%nat -> nth_error e' j = nth_error error j).
Proof.
  intros Hs. induction locs as [|loc lr IH]; intros errs data error d' e' H Hd He Hb.
  - cbn [apply_corr] in H. inversion H; subst. repeat split; auto.
  - destruct errs as [|err er]; [cbn [apply_corr] in H; inversion H; subst; repeat split; auto|].
    cbn [apply_corr] in H. cbn [length firstn] in Hb. inversion Hb as [|? ? Herr Hb']; subst.
    destruct (GF.glog loc) as [iN|]; [|discriminate].
    destruct (n <=? N.to_nat iN)%nat; [discriminate|].
    destruct (n - N.to_nat iN - 1 <? n_data)%nat.
    + set (idx := ((n - N.to_nat iN - 1) * stride)%nat) in *.
      destruct (nth_ok data idx) as [cur| |] eqn:NK; cbn [bind] in H; try discriminate.
      destruct (set_ok data idx (GF.add cur err)) as [data'| |] eqn:SO; cbn [bind] in H; try discriminate.
      destruct (set_ok_spec _ _ _ _ SO) as (L & B & Nn & O).
      assert (byte cur) as Hc by (rewrite Forall_forall in Hd; apply Hd; eapply nth_error_In, nth_ok_spec; exact NK).
      assert (Forall byte data') as Hd' by (eapply Forall_set_ok; [exact SO|exact Hd|now apply add_byte]).
      destruct (IH er data' error d' e' H Hd' He Hb') as (A1 & A2 & A3 & A4 & A5 & A6).
      repeat split; try assumption; try lia.
      intros j Hj. rewrite A5 by exact Hj. apply O. intros ->. apply Hj. unfold idx. apply Nat.mod_mul. exact Hs.
    + set (idx := ((n - N.to_nat iN - 1 - n_data) * stride)%nat) in *.
      destruct (nth_ok error idx) as [cur| |] eqn:NK; cbn [bind] in H; try discriminate.
      destruct (set_ok error idx (GF.add cur err)) as [error'| |] eqn:SO; cbn [bind] in H; try discriminate.
      destruct (set_ok_spec _ _ _ _ SO) as (L & B & Nn & O).
      assert (byte cur) as Hc by (rewrite Forall_forall in He; apply He; eapply nth_error_In, nth_ok_spec; exact NK).
      assert (Forall byte error') as He' by (eapply Forall_set_ok; [exact SO|exact He|now apply add_byte]).
      destruct (IH er data error' d' e' H Hd He' Hb') as (A1 & A2 & A3 & A4 & A5 & A6).
      repeat split; try assumption; try lia.
      intros j Hj. rewrite A6 by exact Hj. apply O. intros ->. apply Hj. unfold idx. apply Nat.mod_mul. exact Hs.
Qed.

(* decode_gen: on success the block it worked on has no non-zero syndrome, everything else is untouched *)
Theorem decode_gen_spec data error stride k d' e' :
  decode_gen data error stride k = Ok (d', e') -> Forall byte data -> Forall byte error ->
  stride <> 0%nat /\
  length d' = length data /\ length e' = length error /\ Forall byte d' /\ Forall byte e' /\
  (forall j, (j mod stride)%nat <> 0%nat -> nth_error d' j = nth_error data j) /\
  (forall j, (j mod stride)%nat <> 0%nat -> nth_error e' j = nth_error error j) /\
  snd (primitive_element_evaluation (every stride 0 d' ++ every stride 0 e') k) = false.
Proof.
  unfold decode_gen. intros H Hd He.
  destruct (Nat.eqb_spec stride 0) as [E|Hs]; [discriminate|].
  split; [exact Hs|].
  destruct (negb (1 <=? k)%nat); [discriminate|]. destruct (negb (k <? _)%nat); [discriminate|].
  destruct (primitive_element_evaluation (every stride 0 data ++ every stride 0 error) k) as [syndromes hnz] eqn:PE.
  destruct hnz; cbn [negb] in H.
  - destruct (find_inv_error_locations_levinson_durbin syndromes) as [lambda| |]; cbn [bind] in H; try discriminate.
    destruct (chien_search lambda) as [inv_locs| |]; cbn [bind] in H; try discriminate.
    destruct (negb (length inv_locs =? length lambda - 1)%nat); [discriminate|].
    destruct (nth_ok inv_locs 0) as [first| |]; cbn [bind] in H; try discriminate.
    destruct (N.eqb first 0); [discriminate|].
    destruct (2 * (k / 2) <? length lambda - 1 + 1)%nat; [discriminate|].
    match type of H with (let* tj := ?X in _) = _ => destruct X as [tj| |] end; cbn [bind] in H; try discriminate.
    destruct (existsb _ tj); [discriminate|].
    destruct (find_error_values_bp inv_locs syndromes) as [[locs errs]| |] eqn:FE; cbn [bind] in H; try discriminate.
    destruct (apply_corr data error stride _ _ locs errs) as [[d1 e1]| |] eqn:AC; cbn [bind] in H; try discriminate.
    destruct (primitive_element_evaluation (every stride 0 d1 ++ every stride 0 e1) k) as [s2 nz] eqn:PE2.
    destruct nz; [discriminate|]. inversion H; subst.
    destruct (find_error_values_bytes _ _ _ _ FE) as [LX BX].
    destruct (apply_corr_spec stride _ _ Hs _ _ _ _ _ _ AC Hd He) as (A1 & A2 & A3 & A4 & A5 & A6).
    { rewrite LX. exact BX. }
    repeat split; try assumption. rewrite PE2. reflexivity.
  - inversion H; subst. repeat split; auto. rewrite PE. reflexivity.
Qed.

(* ------------------------------------------------------------------ *)
(* blocks and strides *)
Lemma every_skipn {A} stride (l : list A) : forall b, every stride 0 (skipn b l) = every stride b l.
Proof.
  induction l as [|x r IH]; intros b; [rewrite skipn_nil; reflexivity|].
  destruct b as [|b]; [reflexivity|]. cbn [skipn every]. apply IH.
Qed.

Lemma block_from_ext {A} B b (l : list A) : forall l' i0, length l = length l' ->
  (forall j, ((i0 + j) mod B)%nat = b -> nth_error l j = nth_error l' j) ->
  block_from B b i0 l = block_from B b i0 l'.
Proof.
  induction l as [|x r IH]; intros [|y r'] i0 L H; cbn in L; try lia; [reflexivity|].
  cbn [block_from].
  assert (block_from B b (S i0) r = block_from B b (S i0) r') as E.
  { apply IH; [lia|]. intros j Hj. apply (H (S j)). replace (i0 + S j)%nat with (S i0 + j)%nat by lia. exact Hj. }
  rewrite E. destruct (Nat.eqb_spec (i0 mod B) b) as [Eb|Nb]; [|reflexivity].
  f_equal. specialize (H 0%nat). rewrite Nat.add_0_r in H. specialize (H Eb). cbn in H. congruence.
Qed.

Lemma every_ext {A} B b (l l' : list A) : (b < B)%nat -> length l = length l' ->
  (forall j, (j mod B)%nat = b -> nth_error l j = nth_error l' j) -> every B b l = every B b l'.
Proof. intros Hb L H. rewrite !every_block_of by exact Hb. unfold block_of. apply block_from_ext; [exact L|exact H]. Qed.

Lemma block_from_length {A} B b : (b < B)%nat -> forall k (l : list A) m, length l = (k * B)%nat ->
  length (block_from B b (m * B) l) = k.
Proof.
  intros Hb. induction k as [|k IH]; intros l m L.
  - destruct l; [reflexivity|discriminate].
  - rewrite <- (firstn_skipn B l). rewrite block_from_app.
    assert (length (firstn B l) = B) as LF by (rewrite firstn_length; cbn in L; lia).
    rewrite LF. replace (m * B)%nat with (m * B + 0)%nat at 1 by lia.
    rewrite block_from_chunk by (rewrite ?LF; lia). rewrite LF.
    cbn [Nat.leb andb Nat.add]. replace (b <? B)%nat with true by (symmetry; apply Nat.ltb_lt; lia).
    rewrite Nat.sub_0_r, app_length. replace (m * B + B)%nat with (S m * B)%nat by lia.
    rewrite IH by (rewrite skipn_length; cbn in L; lia).
    assert (length (firstn 1 (skipn b (firstn B l))) = 1)%nat as L1.
    { rewrite firstn_length, skipn_length, LF. lia. }
    lia.
Qed.

Lemma blocks_determine {A} B (l : list A) : forall l' i0, length l = length l' -> (0 < B)%nat ->
  (forall b, (b < B)%nat -> block_from B b i0 l = block_from B b i0 l') -> l = l'.
Proof.
  induction l as [|x r IH]; intros [|y r'] i0 L HB H; cbn in L; try lia; [reflexivity|].
  assert (i0 mod B < B)%nat as Hlt by (apply Nat.mod_upper_bound; lia).
  pose proof (H (i0 mod B)%nat Hlt) as H0. cbn [block_from] in H0. rewrite Nat.eqb_refl in H0. inversion H0; subst.
  f_equal. apply (IH r' (S i0)); [lia|exact HB|]. intros b Hb. specialize (H b Hb). cbn [block_from] in H.
  destruct (Nat.eqb (i0 mod B) b); [inversion H; reflexivity|exact H].
Qed.

Lemma map_toF_inj l1 : forall l2, Forall byte l1 -> Forall byte l2 -> map toF l1 = map toF l2 -> l1 = l2.
Proof.
  induction l1 as [|a r IH]; intros [|b r2] H1 H2 E; cbn in E; try discriminate; [reflexivity|].
  inversion H1; inversion H2; subst.
  assert (toF a = toF b) as E1 by congruence. assert (map toF r = map toF r2) as E2 by congruence.
  f_equal; [|now apply IH].
  apply (f_equal Fval) in E1. rewrite !Fval_toF in E1 by assumption. exact E1.
Qed.

Lemma Forall_every {A} (P : A -> Prop) B : forall c l, Forall P l -> Forall P (every B c l).
Proof. intros c l; revert c. induction l as [|x r IH]; intros c H; cbn [every]; [constructor|].
  inversion H; subst. destruct c; [constructor; auto|auto]. Qed.

(* ------------------------------------------------------------------ *)
(* the loop over the interleaved blocks *)
Lemma mod_shift_ne B b b0 j : (b < B)%nat -> (b0 < B)%nat -> b <> b0 -> (b0 <= j)%nat -> (j mod B)%nat = b ->
  ((j - b0) mod B)%nat <> 0%nat.
Proof.
  intros Hb Hb0 Ne Hj Hm E.
  assert (j = b0 + (j - b0))%nat as Ej by lia.
  rewrite Ej in Hm. rewrite Nat.add_mod in Hm by lia. rewrite E, Nat.add_0_r, Nat.mod_mod in Hm by lia.
  rewrite Nat.mod_small in Hm by exact Hb0. lia.
Qed.

Lemma skipn_app_exact {A} (a b : list A) n : length a = n -> skipn n (a ++ b) = b.
Proof. intros <-. rewrite skipn_app, skipn_all, Nat.sub_diag. reflexivity. Qed.

Lemma decode_blocks_spec stride k : forall m b0 data error d e,
  decode_blocks data error stride k (seq b0 m) = Ok (d, e) ->
  Forall byte data -> Forall byte error -> (b0 + m <= stride)%nat ->
  length d = length data /\ length e = length error /\ Forall byte d /\ Forall byte e /\
  (forall b, (b0 <= b < b0 + m)%nat ->
     snd (primitive_element_evaluation (every stride b d ++ every stride b e) k) = false) /\
  (forall b, (b < stride)%nat -> ~ (b0 <= b < b0 + m)%nat ->
     every stride b d = every stride b data /\ every stride b e = every stride b error).
Proof.
  induction m as [|m IH]; intros b0 data error d e H Hd He Hm; cbn [seq decode_blocks] in H.
  - inversion H; subst. repeat split; auto. intros b Hb. lia.
  - destruct ((length data <? b0)%nat || (length error <? b0)%nat) eqn:Chk; [discriminate|].
    apply orb_false_iff in Chk. destruct Chk as [C1 C2]. apply Nat.ltb_ge in C1, C2.
    destruct (decode_gen (skipn b0 data) (skipn b0 error) stride k) as [[d1 e1]| |] eqn:DG; cbn [bind] in H; try discriminate.
    assert (Forall byte (skipn b0 data)) as Hsd.
    { apply Forall_forall. intros x Hx. rewrite Forall_forall in Hd. apply Hd. eapply In_skipn; exact Hx. }
    assert (Forall byte (skipn b0 error)) as Hse.
    { apply Forall_forall. intros x Hx. rewrite Forall_forall in He. apply He. eapply In_skipn; exact Hx. }
    destruct (decode_gen_spec _ _ _ _ _ _ DG Hsd Hse) as (Hs & L1 & L2 & B1 & B2 & U1 & U2 & PZ).
    set (D1 := firstn b0 data ++ d1) in *. set (E1 := firstn b0 error ++ e1) in *.
    assert (length (firstn b0 data) = b0) as LF1 by (rewrite firstn_length; lia).
    assert (length (firstn b0 error) = b0) as LF2 by (rewrite firstn_length; lia).
    assert (length D1 = length data) as LD by (unfold D1; rewrite app_length, L1, skipn_length; lia).
    assert (length E1 = length error) as LE by (unfold E1; rewrite app_length, L2, skipn_length; lia).
    assert (Forall byte D1) as BD.
    { unfold D1. apply Forall_app. split; [|exact B1]. apply Forall_forall. intros x Hx. rewrite Forall_forall in Hd. apply Hd. eapply In_firstn; exact Hx. }
    assert (Forall byte E1) as BE.
    { unfold E1. apply Forall_app. split; [|exact B2]. apply Forall_forall. intros x Hx. rewrite Forall_forall in He. apply He. eapply In_firstn; exact Hx. }
    (* what D1 / E1 look like index by index *)
    assert (forall (l l1 : list N) j, length (firstn b0 l) = b0 -> length l1 = length (skipn b0 l) ->
              (forall i, (i mod stride)%nat <> 0%nat -> nth_error l1 i = nth_error (skipn b0 l) i) ->
              (j < b0 \/ ((j - b0) mod stride)%nat <> 0%nat)%nat -> nth_error (firstn b0 l ++ l1) j = nth_error l j) as IDX.
    { intros l l1 j LF LL U [Hj|Hj].
      - rewrite nth_error_app1 by lia. rewrite nth_error_firstn'. replace (j <? b0)%nat with true by (symmetry; apply Nat.ltb_lt; lia). reflexivity.
      - destruct (Nat.lt_ge_cases j b0) as [Hlt|Hge].
        + rewrite nth_error_app1 by lia. rewrite nth_error_firstn'. replace (j <? b0)%nat with true by (symmetry; apply Nat.ltb_lt; lia). reflexivity.
        + rewrite nth_error_app2 by lia. rewrite LF, (U _ Hj).
          rewrite <- (firstn_skipn b0 l) at 2. rewrite nth_error_app2 by lia. rewrite LF. reflexivity. }
    destruct (IH (S b0) D1 E1 d e H BD BE ltac:(lia)) as (I1 & I2 & I3 & I4 & I5 & I6).
    assert (b0 < stride)%nat as Hb0 by lia.
    repeat split; try assumption; try lia.
    + intros b Hb. destruct (Nat.eq_dec b b0) as [->|Ne]; [|apply I5; lia].
      destruct (I6 b0 Hb0 ltac:(lia)) as [Q1 Q2]. rewrite Q1, Q2.
      rewrite <- (every_skipn stride D1 b0), <- (every_skipn stride E1 b0). unfold D1, E1.
      rewrite (skipn_app_exact _ _ _ LF1), (skipn_app_exact _ _ _ LF2). exact PZ.
    + destruct (I6 b H0 ltac:(lia)) as [Q1 Q2]. rewrite Q1. apply every_ext; [exact H0|exact LD|].
      intros j Hj. unfold D1. apply IDX; [exact LF1|exact L1|exact U1|].
      destruct (Nat.lt_ge_cases j b0) as [Hlt|Hge]; [now left|right]. apply (mod_shift_ne stride b b0); try assumption. lia.
    + destruct (I6 b H0 ltac:(lia)) as [Q1 Q2]. rewrite Q2. apply every_ext; [exact H0|exact LE|].
      intros j Hj. unfold E1. apply IDX; [exact LF2|exact L2|exact U2|].
      destruct (Nat.lt_ge_cases j b0) as [Hlt|Hge]; [now left|right]. apply (mod_shift_ne stride b b0); try assumption. lia.
Qed.

(* ------------------------------------------------------------------ *)
(* C09: success implies codeword *)
Lemma size_sweep : forallb (fun s =>
    (1 <=? num_ecc_blocks s)%N && (num_ecc_per_block s <=? 254)%N && (1 <=? num_ecc_per_block s)%N) all_variants = true.
Proof. vm_compute. reflexivity. Qed.

Lemma size_facts s : (1 <= N.to_nat (num_ecc_blocks s))%nat /\ (1 <= N.to_nat (num_ecc_per_block s) <= 254)%nat.
Proof. pose proof (sweep _ size_sweep s) as H. cbv beta in H. rewrite !andb_true_iff in H.
  destruct H as [[A B] C]. apply N.leb_le in A, B, C. lia. Qed.

Theorem decode_success_codeword s cw c' :
  length cw = N.to_nat (num_data_codewords s + num_ecc_blocks s * num_ecc_per_block s) -> Forall byte cw ->
  RSDec.decode cw s = Ok c' ->
  let nd := N.to_nat (num_data_codewords s) in
  length c' = length cw /\ Forall byte c' /\
  is_codeword (N.to_nat (num_ecc_blocks s)) (N.to_nat (num_ecc_per_block s)) (firstn nd c') (skipn nd c') /\
  encode_error s (firstn nd c') = Ok (skipn nd c').
Proof.
  intros Hlen Hb H nd. unfold RSDec.decode in H. fold nd in H.
  set (B := N.to_nat (num_ecc_blocks s)) in *. set (k := N.to_nat (num_ecc_per_block s)) in *.
  destruct (length cw <? nd)%nat eqn:E0; [discriminate|]. apply Nat.ltb_ge in E0.
  destruct (decode_blocks (firstn nd cw) (skipn nd cw) B k (seq 0 B)) as [[d e]| |] eqn:DB; cbn [bind] in H; try discriminate.
  inversion H; subst c'. clear H.
  assert (Forall byte (firstn nd cw)) as Hfd.
  { apply Forall_forall. intros x Hx. rewrite Forall_forall in Hb. apply Hb. eapply In_firstn; exact Hx. }
  assert (Forall byte (skipn nd cw)) as Hfe.
  { apply Forall_forall. intros x Hx. rewrite Forall_forall in Hb. apply Hb. eapply In_skipn; exact Hx. }
  destruct (decode_blocks_spec B k B 0 _ _ _ _ DB Hfd Hfe ltac:(lia)) as (L1 & L2 & B1 & B2 & PZ & _).
  assert (length d = nd) as Ld by (rewrite L1, firstn_length; lia).
  assert (length e = (k * B)%nat) as Le by (rewrite L2, skipn_length; unfold k, B, nd in *; lia).
  rewrite firstn_app, Ld, Nat.sub_diag, firstn_all2 by lia. cbn [firstn]. rewrite app_nil_r.
  rewrite skipn_app, Ld, Nat.sub_diag, skipn_all2 by lia. cbn [skipn app].
  destruct (size_facts s) as [HB Hk]. fold B k in HB, Hk.
  assert (is_codeword B k d e) as IC.
  { intros b Hbk. rewrite <- !every_block_of by exact Hbk.
    apply no_nonzero_syndrome; [apply Forall_app; split; now apply Forall_every|]. apply PZ. lia. }
  split; [rewrite app_length, Ld, Le; unfold k, B, nd in *; lia|].
  split; [apply Forall_app; now split|]. split; [exact IC|].
  destruct (encode_error_codeword s d ltac:(exact Ld) B1) as (e2 & EE & L2' & B2' & IC2). fold B k in L2', IC2.
  rewrite EE. f_equal. symmetry.
  apply (blocks_determine B e e2 0); [lia|lia|]. intros b Hbk. fold (block_of B b e) (block_of B b e2).
  apply map_toF_inj.
  - rewrite <- every_block_of by exact Hbk. now apply Forall_every.
  - rewrite <- every_block_of by exact Hbk. now apply Forall_every.
  - apply (ecc_unique k (map toF (block_of B b d))); [lia| | | |].
    + rewrite map_length. unfold block_of. replace 0%nat with (0 * B)%nat by lia. apply block_from_length; [exact Hbk|exact Le].
    + rewrite map_length. unfold block_of. replace 0%nat with (0 * B)%nat by lia. apply block_from_length; [exact Hbk|lia].
    + rewrite <- map_app. apply IC. exact Hbk.
    + rewrite <- map_app. apply IC2. exact Hbk.
Qed.

(* ------------------------------------------------------------------ *)
(* weight 0: a codeword is returned unchanged *)
Lemma zero_syndromes_flag c k : Forall byte c -> block_ok k (map toF c) ->
  snd (primitive_element_evaluation c k) = false.
Proof.
  intros Hc Hb. destruct (syndromes_spec c k Hc) as [B S]. cbv zeta in B, S.
  unfold primitive_element_evaluation in *. cbn [fst snd] in *.
  set (out := pee_go k (rev c) (powers (length c))) in *.
  destruct (existsb (fun o => negb (N.eqb o 0)) out) eqn:E; [|reflexivity]. exfalso.
  apply existsb_exists in E. destruct E as [o [Ho Hn]]. apply negb_true_iff, N.eqb_neq in Hn. apply Hn.
  apply toF_zero_iff; [rewrite Forall_forall in B; now apply B|].
  assert (In (toF o) (map toF out)) as Hin by (apply in_map; exact Ho).
  rewrite S in Hin. apply in_map_iff in Hin. destruct Hin as [j [Ej Hj]]. rewrite <- Ej.
  apply Hb. unfold roots. apply in_map_iff. exists j. split; [reflexivity|exact Hj].
Qed.

Lemma data_blocks_sweep : forallb (fun s => (num_ecc_blocks s <=? num_data_codewords s)%N) all_variants = true.
Proof. vm_compute. reflexivity. Qed.

Lemma decode_gen_clean data error stride k :
  stride <> 0%nat -> (1 <= k)%nat -> (1 <= length data)%nat -> (k * stride <= length error + stride - 1)%nat ->
  snd (primitive_element_evaluation (every stride 0 data ++ every stride 0 error) k) = false ->
  decode_gen data error stride k = Ok (data, error).
Proof.
  intros Hs Hk Hd He Hz. unfold decode_gen.
  replace (stride =? 0)%nat with false by (symmetry; apply Nat.eqb_neq; exact Hs).
  replace (1 <=? k)%nat with true by (symmetry; apply Nat.leb_le; exact Hk). cbn [negb].
  assert (k < (length data + stride - 1) / stride + (length error + stride - 1) / stride)%nat as Hn.
  { assert (1 <= (length data + stride - 1) / stride)%nat by (apply Nat.div_le_lower_bound; lia).
    assert (k <= (length error + stride - 1) / stride)%nat by (apply Nat.div_le_lower_bound; lia). lia. }
  replace (k <? _)%nat with true by (symmetry; apply Nat.ltb_lt; exact Hn). cbn [negb].
  destruct (primitive_element_evaluation _ k) as [syn hnz]. cbn [snd] in Hz. subst hnz. reflexivity.
Qed.

Theorem decode_codeword_unchanged s d e :
  length d = N.to_nat (num_data_codewords s) -> Forall byte d -> encode_error s d = Ok e ->
  RSDec.decode (d ++ e) s = Ok (d ++ e).
Proof.
  intros Ld Hd EE.
  destruct (encode_error_codeword s d Ld Hd) as (e2 & EE2 & Le & Be & IC). rewrite EE in EE2. inversion EE2; subst e2. clear EE2.
  set (B := N.to_nat (num_ecc_blocks s)) in *. set (k := N.to_nat (num_ecc_per_block s)) in *.
  destruct (size_facts s) as [HB Hk]. fold B k in HB, Hk.
  assert (B <= length d)%nat as HdB.
  { pose proof (sweep _ data_blocks_sweep s) as T. cbv beta in T. apply N.leb_le in T. unfold B. lia. }
  unfold RSDec.decode. fold B k.
  rewrite app_length. replace (length d + length e <? N.to_nat (num_data_codewords s))%nat with false by (symmetry; apply Nat.ltb_ge; lia).
  rewrite <- Ld. rewrite firstn_app, Nat.sub_diag, firstn_all. cbn [firstn]. rewrite app_nil_r.
  rewrite skipn_app, Nat.sub_diag, skipn_all. cbn [skipn app].
  assert (forall m b0, (b0 + m = B)%nat -> decode_blocks d e B k (seq b0 m) = Ok (d, e)) as G.
  { induction m as [|m IH]; intros b0 Hm; cbn [seq decode_blocks]; [reflexivity|].
    replace ((length d <? b0)%nat || (length e <? b0)%nat) with false
      by (symmetry; apply orb_false_iff; split; apply Nat.ltb_ge; nia).
    rewrite (decode_gen_clean (skipn b0 d) (skipn b0 e) B k); try lia.
    - cbn [bind]. rewrite !firstn_skipn. apply IH. lia.
    - rewrite skipn_length. lia.
    - rewrite skipn_length, Le. nia.
    - rewrite !every_skipn. rewrite !every_block_of by lia. apply zero_syndromes_flag.
      + apply Forall_app. split; rewrite <- every_block_of by lia; now apply Forall_every.
      + rewrite map_app. rewrite <- map_app. apply IC. lia. }
  rewrite (G B 0%nat) by lia. reflexivity.
Qed.
