(* Proofs/DecStreamEdi.v -- property C04: EDIFACT runs of a legal script are decoded to their characters (6-bit
   unpacking of four values from three codewords by arithmetic, unlatch value 31 in each of the four positions, the
   end-of-symbol rule). *)
From Coq Require Import Arith NArith List Bool Lia.
From DM Require Import Generated.ModeTables Generated.Charsets Model.Outcome Model.Dec Spec.Stream16022 Proofs.DecStream.
Import ListNotations.
Local Open Scope N_scope.

Lemma edi_bits v1 v2 v3 v4 : v1 < 64 -> v2 < 64 -> v3 < 64 -> v4 < 64 ->
  let a := v1 * 4 + v2 / 16 in let b := (v2 mod 16) * 16 + v3 / 4 in let c := (v3 mod 4) * 64 + v4 in
  a / 4 = v1 /\ ((a * 65536 + b * 256) / 4096) mod 64 = v2 /\
  ((a * 65536 + b * 256 + c) / 64) mod 64 = v3 /\ (a * 65536 + b * 256 + c) mod 64 = v4 /\
  a < 256 /\ b < 256 /\ c < 256.
Proof.
  intros H1 H2 H3 H4.
  pose proof (N.div_mod v2 16 ltac:(lia)) as D2. pose proof (N.mod_lt v2 16 ltac:(lia)) as M2.
  pose proof (N.div_mod v3 4 ltac:(lia)) as D3. pose proof (N.mod_lt v3 4 ltac:(lia)) as M3.
  assert (v2 / 16 < 4) as Q2 by (apply N.div_lt_upper_bound; lia).
  assert (v3 / 4 < 16) as Q3 by (apply N.div_lt_upper_bound; lia).
  set (q2 := v2 / 16) in *. set (r2 := v2 mod 16) in *. set (q3 := v3 / 4) in *. set (r3 := v3 mod 4) in *.
  cbv zeta. repeat split; try lia.
  - symmetry. apply (N.div_unique _ 4 v1 q2); lia.
  - assert (((v1 * 4 + q2) * 65536 + (r2 * 16 + q3) * 256) / 4096 = v1 * 64 + v2) as ->.
    { symmetry. apply (N.div_unique _ 4096 _ (q3 * 256)); lia. }
    symmetry. apply (N.mod_unique _ 64 v1 v2); lia.
  - assert (((v1 * 4 + q2) * 65536 + (r2 * 16 + q3) * 256 + (r3 * 64 + v4)) / 64 = v1 * 4096 + v2 * 64 + v3) as ->.
    { symmetry. apply (N.div_unique _ 64 _ v4); lia. }
    symmetry. apply (N.mod_unique _ 64 (v1 * 64 + v2) v3); lia.
  - symmetry. apply (N.mod_unique _ 64 (v1 * 4096 + v2 * 64 + v3) v4); lia.
Qed.

(* characters 32..94: six low bits, never the unlatch value, restored by the decoder *)
Lemma edi_char_sweep : forallb (fun ch => negb (between 32 94 ch) ||
    ((ch mod 64 <? 64) && negb (ch mod 64 =? 31) && (dec_edifact_char (ch mod 64) =? ch))) (map N.of_nat (seq 0 256)) = true.
Proof. vm_compute. reflexivity. Qed.
Lemma edi_char ch : between 32 94 ch = true -> ch mod 64 < 64 /\ ch mod 64 <> 31 /\ dec_edifact_char (ch mod 64) = ch.
Proof.
  intros B. pose proof edi_char_sweep as S. rewrite forallb_forall in S.
  assert (ch < 256) as R by (unfold between in B; rewrite andb_true_iff, !N.leb_le in B; lia).
  specialize (S ch ltac:(apply in_map_iff; exists (N.to_nat ch); split; [lia|apply in_seq; lia])).
  rewrite B in S. cbn [negb orb] in S. rewrite !andb_true_iff in S. destruct S as [[A C] D].
  apply N.ltb_lt in A. apply negb_true_iff, N.eqb_neq in C. apply N.eqb_eq in D. auto.
Qed.

Definition edi_tail_ok (t : term) (nchars : nat) (tail : list N) : Prop :=
  match t with
  | TEnd => (length tail <= 2)%nat
  | TUnlatch => (3 <= unlatch_group_bytes nchars + length tail)%nat
  end.

Lemma rlen_ge3 l c : (3 <= length l)%nat -> (rlen (mkrd l c) <=? 2) = false.
Proof. intros H. unfold rlen. cbn [rd]. apply N.leb_gt. lia. Qed.

(* a full group of four characters *)
Lemma edi_group a b c d rest fuel cn out : between 32 94 a = true -> between 32 94 b = true -> between 32 94 c = true -> between 32 94 d = true ->
  decode_edifact (S fuel) (mkrd (pack_edi [a mod 64; b mod 64; c mod 64; d mod 64] ++ rest) cn) out =
  decode_edifact fuel (mkrd rest (cn + 3)) (out ++ [a; b; c; d]).
Proof.
  intros Ba Bb Bc Bd.
  destruct (edi_char a Ba) as (Ra & Na & Da). destruct (edi_char b Bb) as (Rb & Nb & Db).
  destruct (edi_char c Bc) as (Rc & Nc & Dc). destruct (edi_char d Bd) as (Rd & Nd & Dd).
  destruct (edi_bits _ _ _ _ Ra Rb Rc Rd) as (E1 & E2 & E3 & E4 & _).
  cbn [pack_edi app]. cbn [decode_edifact rd cnt]. rewrite rlen_ge3 by (cbn [length]; lia).
  rewrite E1. replace (a mod 64 =? edifact_UNLATCH) with false by (symmetry; apply N.eqb_neq; exact Na).
  rewrite E2. replace (b mod 64 =? edifact_UNLATCH) with false by (symmetry; apply N.eqb_neq; exact Nb).
  rewrite E3. replace (c mod 64 =? edifact_UNLATCH) with false by (symmetry; apply N.eqb_neq; exact Nc).
  rewrite E4. replace (d mod 64 =? edifact_UNLATCH) with false by (symmetry; apply N.eqb_neq; exact Nd).
  rewrite Da, Db, Dc, Dd. rewrite <- !app_assoc. reflexivity.
Qed.

Lemma edi_vals_cons4 a b c d r t : edi_vals (a :: b :: c :: d :: r) t = [a mod 64; b mod 64; c mod 64; d mod 64] ++ edi_vals r t.
Proof. reflexivity. Qed.
Lemma pack_edi_cons4 v1 v2 v3 v4 r : pack_edi (v1 :: v2 :: v3 :: v4 :: r) = pack_edi [v1; v2; v3; v4] ++ pack_edi r.
Proof. reflexivity. Qed.

Lemma edi_segment chars : forall t tail fuel cn out, forallb (between 32 94) chars = true ->
  (match t with TEnd => N.of_nat (length chars) mod 4 = 0 | TUnlatch => True end) ->
  edi_tail_ok t (length chars) tail -> (length chars < 4 * fuel)%nat ->
  decode_edifact fuel (mkrd (pack_edi (edi_vals chars t) ++ tail) cn) out =
  Ok (mkrd tail (cn + N.of_nat (length (pack_edi (edi_vals chars t)))), Ascii, out ++ chars).
Proof.
  induction chars as [chars IH] using (well_founded_induction (well_founded_ltof _ (@length N))).
  intros t tail fuel cn out OK M HT Hf.
  destruct chars as [|a [|b [|c [|d r]]]].
  - (* no character left *)
    destruct fuel as [|fuel]; [cbn in Hf; lia|]. unfold edi_tail_ok in HT. destruct t; cbn [edi_vals map app pack_edi length] in *.
    + cbn [decode_edifact rd cnt]. rewrite rlen_ge3 by (cbn [length]; unfold unlatch_group_bytes in HT; cbn in HT; lia).
      change (31 * 4 / 4 =? edifact_UNLATCH) with true. cbv iota. rewrite app_nil_r. reflexivity.
    + rewrite N.add_0_r, app_nil_r. cbn [decode_edifact rd]. unfold edi_tail_ok in HT. destruct tail as [|x [|y [|z tl]]]; cbn [length] in HT; try lia; reflexivity.
  - (* one character and the unlatch *)
    destruct t; [|cbn in M; discriminate]. cbn [forallb] in OK. apply andb_true_iff in OK. destruct OK as [Ba _].
    destruct (edi_char a Ba) as (Ra & Na & Da).
    destruct (edi_bits (a mod 64) 31 0 0 Ra ltac:(lia) ltac:(lia) ltac:(lia)) as (E1 & E2 & _).
    cbv zeta in E1, E2. change (0 / 4) with 0 in E2. rewrite N.add_0_r in E2.
    destruct fuel as [|fuel]; [cbn in Hf; lia|]. cbn [edi_vals map app pack_edi length].
    cbn [decode_edifact rd cnt]. rewrite rlen_ge3 by (cbn [length]; unfold unlatch_group_bytes in HT; cbn in HT; lia).
    rewrite E1. replace (a mod 64 =? edifact_UNLATCH) with false by (symmetry; apply N.eqb_neq; exact Na).
    rewrite E2. change (31 =? edifact_UNLATCH) with true. cbv iota. rewrite Da. try reflexivity; do 3 f_equal; try lia.
  - (* two characters and the unlatch *)
    destruct t; [|cbn in M; discriminate]. cbn [forallb] in OK. rewrite !andb_true_iff in OK. destruct OK as (Ba & Bb & _).
    destruct (edi_char a Ba) as (Ra & Na & Da). destruct (edi_char b Bb) as (Rb & Nb & Db).
    destruct (edi_bits (a mod 64) (b mod 64) 31 0 Ra Rb ltac:(lia) ltac:(lia)) as (E1 & E2 & E3 & _).
    cbv zeta in E1, E2, E3. rewrite N.add_0_r in E3.
    destruct fuel as [|fuel]; [cbn in Hf; lia|]. cbn [edi_vals map app pack_edi length].
    cbn [decode_edifact rd cnt]. rewrite rlen_ge3 by (cbn [length]; lia).
    rewrite E1. replace (a mod 64 =? edifact_UNLATCH) with false by (symmetry; apply N.eqb_neq; exact Na).
    rewrite E2. replace (b mod 64 =? edifact_UNLATCH) with false by (symmetry; apply N.eqb_neq; exact Nb).
    rewrite E3. change (31 =? edifact_UNLATCH) with true. cbv iota. rewrite Da, Db. rewrite <- app_assoc. try reflexivity; do 3 f_equal; try lia.
  - (* three characters and the unlatch *)
    destruct t; [|cbn in M; discriminate]. cbn [forallb] in OK. rewrite !andb_true_iff in OK. destruct OK as (Ba & Bb & Bc & _).
    destruct (edi_char a Ba) as (Ra & Na & Da). destruct (edi_char b Bb) as (Rb & Nb & Db). destruct (edi_char c Bc) as (Rc & Nc & Dc).
    destruct (edi_bits (a mod 64) (b mod 64) (c mod 64) 31 Ra Rb Rc ltac:(lia)) as (E1 & E2 & E3 & E4 & _).
    cbv zeta in E1, E2, E3, E4.
    destruct fuel as [|fuel]; [cbn in Hf; lia|]. cbn [edi_vals map app pack_edi length].
    cbn [decode_edifact rd cnt]. rewrite rlen_ge3 by (cbn [length]; lia).
    rewrite E1. replace (a mod 64 =? edifact_UNLATCH) with false by (symmetry; apply N.eqb_neq; exact Na).
    rewrite E2. replace (b mod 64 =? edifact_UNLATCH) with false by (symmetry; apply N.eqb_neq; exact Nb).
    rewrite E3. replace (c mod 64 =? edifact_UNLATCH) with false by (symmetry; apply N.eqb_neq; exact Nc).
    rewrite E4. change (31 =? edifact_UNLATCH) with true. cbv iota. rewrite Da, Db, Dc. rewrite <- !app_assoc. try reflexivity; do 3 f_equal; try lia.
  - (* a full group, then the rest *)
    cbn [forallb] in OK. rewrite !andb_true_iff in OK. destruct OK as (Ba & Bb & Bc & Bd & Or).
    rewrite edi_vals_cons4. cbn [app]. rewrite pack_edi_cons4, <- app_assoc.
    destruct fuel as [|fuel]; [cbn in Hf; lia|].
    rewrite edi_group by assumption.
    rewrite (IH r); [| unfold ltof; cbn; lia | exact Or | | | cbn [length] in Hf; lia].
    + rewrite app_length. cbn [pack_edi length app]. rewrite <- !app_assoc. cbn [app].
      replace (cn + N.of_nat (3 + length (pack_edi (edi_vals r t)))) with (cn + 3 + N.of_nat (length (pack_edi (edi_vals r t)))) by lia. reflexivity.
    + destruct t; [exact I|]. cbn [length] in M. rewrite !Nat2N.inj_succ in M. rewrite <- !N.add_1_r in M.
      replace (N.of_nat (length r) + 1 + 1 + 1 + 1) with (N.of_nat (length r) + 1 * 4) in M by lia.
      rewrite N.mod_add in M by lia. exact M.
    + unfold edi_tail_ok in *. destruct t; [|exact HT]. cbn [length] in HT.
      replace (unlatch_group_bytes (S (S (S (S (length r)))))) with (unlatch_group_bytes (length r)) in HT; [exact HT|].
      unfold unlatch_group_bytes. change (S (S (S (S (length r))))) with (4 + length r)%nat.
      replace (4 + length r)%nat with (length r + 1 * 4)%nat by lia. now rewrite Nat.mod_add by lia.
Qed.

Lemma pack_edi_len chars t : (length chars * 3 <= length (pack_edi (edi_vals chars t)) * 4)%nat.
Proof.
  induction chars as [chars IH] using (well_founded_induction (well_founded_ltof _ (@length N))).
  destruct chars as [|a [|b [|c [|d r]]]]; try (destruct t; cbn; lia).
  rewrite edi_vals_cons4. cbn [app]. rewrite pack_edi_cons4, app_length. cbn [pack_edi length app].
  specialize (IH r ltac:(unfold ltof; cbn; lia)). lia.
Qed.

Lemma pack_edi_nil chars t : pack_edi (edi_vals chars t) = [] -> chars = [] /\ t = TEnd.
Proof. destruct chars as [|a [|b [|c [|d r]]]]; destruct t; cbn; intros H; try discriminate; auto. Qed.
