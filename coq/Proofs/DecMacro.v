(* Proofs/DecMacro.v -- decoder side of property C16: a Macro 05/06 codeword in first position makes the
   decoder re-create the 7-byte header and the RS EOT trailer around whatever the rest of the stream
   decodes to; an FNC1 in first position contributes no byte. *)
From Coq Require Import Arith NArith List Bool Lia.
From DM Require Import Generated.Symbols Generated.ModeTables Model.Outcome Model.Dec Proofs.DecProofs.
Import ListNotations.
Local Open Scope N_scope.

Lemma decode_macro_general m head rest d : (m = MACRO05 /\ head = MACRO05_HEAD) \/ (m = MACRO06 /\ head = MACRO06_HEAD) ->
  decode_data (m :: rest) = Ok d -> exists body, d = head ++ body ++ MACRO_TRAIL.
Proof.
  intros HM. unfold decode_data, decode_parts.
  assert ((if m =? MACRO05 then (mkrd rest 1, MACRO05_HEAD, true)
           else if m =? MACRO06 then (mkrd rest 1, MACRO06_HEAD, true) else (mkrd (m :: rest) 0, [], false))
          = (mkrd rest 1, head, true)) as ->.
  { destruct HM as [[-> ->]|[-> ->]]; reflexivity. }
  cbn [negb andb].
  set (pf := match rd (mkrd rest 1) with
             | c :: t => if c =? ascii_FNC1 then (mkrd t (cnt (mkrd rest 1) + 1), true) else (mkrd rest 1, false)
             | [] => (mkrd rest 1, false) end).
  destruct pf as [r2 fnc1].
  pose proof (decode_loop_good (2 * length (rd r2) + 2) r2 Ascii head [] ltac:(unfold rl; cbn; lia)) as G.
  destruct (decode_loop _ r2 Ascii head []) as [[o2 e2]| |]; cbn [bind]; try discriminate.
  destruct G as [[sfx ->] _]. cbn [p_eci_spans p_output].
  destruct e2 as [|p2 e2]; cbn [bind p_eci_spans p_output app]; [|discriminate]. intros [= <-]. exists sfx. now rewrite app_assoc.
Qed.

Theorem decode_macro05 rest d : decode_data (MACRO05 :: rest) = Ok d -> exists body, d = MACRO05_HEAD ++ body ++ MACRO_TRAIL.
Proof. apply decode_macro_general. left. split; reflexivity. Qed.
Theorem decode_macro06 rest d : decode_data (MACRO06 :: rest) = Ok d -> exists body, d = MACRO06_HEAD ++ body ++ MACRO_TRAIL.
Proof. apply decode_macro_general. right. split; reflexivity. Qed.

(* FNC1 in first position: consumed, flagged, no output byte; the rest is decoded from position 1 *)
Theorem decode_fnc1_first rest raw :
  decode_parts (ascii_FNC1 :: rest) raw =
  (let* (out, ecis) := decode_loop (2 * length rest + 2) (mkrd rest 1) Ascii [] [] in Ok (mkparts out ecis true)).
Proof. unfold decode_parts. cbn. rewrite andb_false_r. reflexivity. Qed.
