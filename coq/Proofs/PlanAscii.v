(* Proofs/PlanAscii.v -- with only the ASCII mode enabled the optimiser, whatever the sort does (it only has to
   return elements of its input), can only answer "stay in ASCII": the plan [(0, Ascii)].  Together with
   Proofs/EncAscii.v this makes the data layer a theorem for the ASCII-only configuration. *)
From Coq Require Import Arith NArith List Bool Lia.
From DM Require Import Generated.Symbols Generated.ModeTables Model.Outcome Model.SymbolList Model.Planner Model.PlannerRun Model.Enc Model.Dec Model.Api
  Spec.Stream16022 Proofs.PlanShape Proofs.EncAscii.
Import ListNotations.
Local Open Scope N_scope.

Section S.
Variable sl : list SymbolSize.
Variable sorter : nat -> list generic_plan -> PR (list generic_plan).
Hypothesis sorter_incl : forall k l l', sorter k l = Ok l' -> incl l' l.

Definition ascii_inv (n : N) (g : generic_plan) : Prop := gp_switches g = [(n, Ascii)] /\ exists a, gp_plan g = PAscii a.

Lemma gp_step_ascii n g sr g' : gp_step sl g = Ok (Some (sr, g')) -> ascii_inv n g -> ascii_inv n g'.
Proof.
  intros H [SW [a PA]]. unfold gp_step in H. rewrite PA in H.
  destruct (ap_step a) as [[[r p']|]| |]; cbn [bind] in H; try discriminate. inversion H; subst. split; [exact SW|eexists; reflexivity].
Qed.

Lemma no_other_mode : filter (fun me : EncodationType * N => negb (et_eqb Ascii (fst me)) && enabled 1 (fst me)) switch_order = [].
Proof. reflexivity. Qed.

Lemma add_switches_ascii n g rest uas s l s' : ascii_inv n g -> gp_add_switches sl g rest uas 1 s = Ok (l, s') -> l = [].
Proof.
  intros [SW [a PA]] H. unfold gp_add_switches in H. destruct (gp_mode_switch_cost g); [|inversion H; reflexivity].
  destruct (gp_write_unlatch g) as [ctx| |]; cbn [bind] in H; try discriminate.
  unfold gp_current in H. rewrite PA in H. rewrite no_other_mode in H. cbn [add_switch_all] in H. inversion H. reflexivity.
Qed.

Lemma step_all_ascii n rest uas plans : forall np ae s np' ae' s',
  step_all sl plans rest uas 1 np ae s = Ok (np', ae', s') ->
  Forall (ascii_inv n) plans -> Forall (ascii_inv n) np -> Forall (ascii_inv n) np'.
Proof.
  induction plans as [|plan r IH]; intros np ae s np' ae' s' H HP HN; cbn [step_all] in H.
  - inversion H; subst. exact HN.
  - inversion HP as [|? ? G HP']; subst.
    destruct (gp_step sl plan) as [o| |] eqn:ST; cbn [bind] in H; try discriminate.
    destruct o as [[result plan']|].
    + assert (ascii_inv n plan') as G' by (eapply gp_step_ascii; eassumption).
      destruct (negb (sr_unbeatable result) && negb (sr_end result)).
      * destruct (gp_add_switches sl plan rest uas 1 (s + 1)) as [[added s1]| |] eqn:A; cbn [bind] in H; try discriminate.
        destruct (negb (Bool.eqb _ _)); [discriminate|]. rewrite (add_switches_ascii _ _ _ _ _ _ _ G A) in H.
        eapply IH; try eassumption. rewrite !Forall_app. repeat split; [exact HN|constructor; [exact G'|constructor]|constructor].
      * cbn [bind] in H. destruct (negb (Bool.eqb _ _)); [discriminate|].
        eapply IH; try eassumption. rewrite Forall_app. split; [exact HN|constructor; [exact G'|constructor]].
    + destruct (gp_add_switches sl plan rest uas 1 (s + 1)) as [[added s1]| |] eqn:A; cbn [bind] in H; try discriminate.
      rewrite (add_switches_ascii _ _ _ _ _ _ _ G A) in H. eapply IH; try eassumption. rewrite app_nil_r. exact HN.
Qed.

Lemma opt_loop_ascii fuel : forall it n plans new_plan st res st',
  opt_loop sl sorter fuel it n 0 1 plans new_plan st = Ok (Some res, st') ->
  Forall (ascii_inv n) plans -> Forall (ascii_inv n) new_plan -> res = [(0, Ascii)].
Proof.
  induction fuel as [|f IH]; intros it n plans new_plan st res st' H HP HN; cbn [opt_loop] in H; [discriminate|].
  destruct (n <? N.of_nat it); [discriminate|].
  destruct (step_all sl plans (n - N.of_nat it) _ 1 new_plan _ (st_steps st)) as [[[np ae] steps]| |] eqn:SA; cbn [bind] in H; try discriminate.
  assert (Forall (ascii_inv n) np) as I1 by (eapply step_all_ascii; eassumption).
  destruct (sorter it np) as [sorted| |] eqn:SO; cbn [bind] in H; try discriminate.
  destruct (remove_hopeless_cases sl sorted) as [np2| |] eqn:RH; cbn [bind] in H; try discriminate.
  assert (Forall (ascii_inv n) np2) as I2.
  { apply Forall_forall. intros g Hg. rewrite Forall_forall in I1. apply I1. eapply sorter_incl; [exact SO|]. eapply remove_hopeless_incl; eassumption. }
  destruct np2 as [|p0 rest]; [discriminate|]. destruct ae.
  - match type of H with (let* keyed := ?X in _) = _ => destruct X as [keyed| |] eqn:EK end; cbn [bind] in H; try discriminate.
    destruct keyed as [|[p k] r]; [discriminate|].
    destruct (gp_cost sl (min_by p k r)) as [c| |]; cbn [bind] in H; try discriminate.
    assert (map fst ((p, k) :: r) = p0 :: rest) as MK by (eapply with_keys_fst; exact EK).
    assert (ascii_inv n (min_by p k r)) as [SW [a PA]].
    { rewrite Forall_forall in I2. apply I2. rewrite <- MK. cbn [map fst].
      destruct (min_by_In p k r) as [E|E]; [left; exact (eq_sym E)|right; exact E]. }
    unfold gp_current in H. rewrite SW, PA in H. cbn [app] in H. rewrite N.eqb_refl in H. cbn [andb] in H.
    inversion H as [[H1 H2]]. rewrite N.eqb_refl. reflexivity.
  - apply (IH (S it) n (p0 :: rest) [] _ res st' H I2). constructor.
Qed.

Theorem ascii_only_plan data res st : optimize sl sorter data 0 Ascii 1 = Ok (Some res, st) -> res = [(0, Ascii)].
Proof.
  unfold optimize. change (enabled 1 Ascii) with true. cbv iota. cbn [bind]. intros H.
  eapply opt_loop_ascii; [exact H| |constructor].
  constructor; [|constructor]. split; [reflexivity|eexists; reflexivity].
Qed.
End S.

(* the data layer for the ASCII-only configuration: every byte string, every symbol list, every admissible sort *)
Theorem ascii_only_roundtrip sorter data symbols cw s :
  (forall k l l', sorter symbols k l = Ok l' -> incl l' l) -> bytes_ok data = true ->
  encode_data_internal (optimize_fn sorter) data symbols None 1 false false = Ok (cw, s) ->
  (exists npad, script_ok [SAscii (greedy data)] npad = true /\ cw = stream [SAscii (greedy data)] npad) /\
  decode_data cw = Ok data.
Proof.
  intros HS OK H. apply (ascii_plan_roundtrip (optimize_fn sorter) data symbols 1 cw s); [|exact OK|exact H].
  (* the plan used was the optimiser's answer, and that can only be [(0, Ascii)] *)
  revert H. unfold encode_data_internal. cbv zeta. cbn [bind]. unfold codewords. cbn [with_size e_symbols e_data e_modes].
  destruct symbols as [|s0 sr] eqn:ES; [discriminate|]. rewrite <- ES in *.
  destruct (_ <? _); [discriminate|]. destruct (upper_limit_for_number_of_codewords _ _); [|discriminate].
  change (cw_len (mkenc data data Ascii [] None [] 1 symbols)) with 0.
  unfold optimize_fn. change (cw_len (with_size data symbols 1 false)) with 0. destruct (optimize symbols (sorter symbols) data 0 Ascii 1) as [[p st]| |] eqn:EO; cbn [bind lift]; try discriminate.
  destruct p as [p|]; [|discriminate]. intros _.
  rewrite (ascii_only_plan symbols (sorter symbols) HS data p st EO). reflexivity.
Qed.

Theorem ascii_only_first_fit sorter data symbols cw s :
  (forall k l l', sorter symbols k l = Ok l' -> incl l' l) ->
  encode_data_internal (optimize_fn sorter) data symbols None 1 false false = Ok (cw, s) ->
  first_symbol_big_enough_for symbols (N.of_nat (length (flat_map aitem_cw (greedy data)))) = Some s.
Proof.
  intros HS H. apply (ascii_plan_first_fit (optimize_fn sorter) data symbols 1 cw s); [|exact H].
  revert H. unfold encode_data_internal. cbv zeta. cbn [bind]. unfold codewords. cbn [with_size e_symbols e_data e_modes].
  destruct symbols as [|s0 sr] eqn:ES; [discriminate|]. rewrite <- ES in *.
  destruct (_ <? _); [discriminate|]. destruct (upper_limit_for_number_of_codewords _ _); [|discriminate].
  unfold optimize_fn. change (cw_len (with_size data symbols 1 false)) with 0. destruct (optimize symbols (sorter symbols) data 0 Ascii 1) as [[p st]| |] eqn:EO; cbn [bind lift]; try discriminate.
  destruct p as [p|]; [|discriminate]. intros _.
  rewrite (ascii_only_plan symbols (sorter symbols) HS data p st EO). reflexivity.
Qed.
