(* Proofs/PlanB256.v -- with only the Base256 mode enabled (ASCII disabled) the optimiser, whatever the sort does,
   can only answer "Base256 from the first character to the end": the plan [(n, Base256); (0, Base256)]. *)
From Coq Require Import Arith NArith List Bool Lia.
From DM Require Import Generated.Symbols Generated.ModeTables Model.Outcome Model.SymbolList Model.Planner Model.PlannerRun
  Proofs.PlanShape.
Import ListNotations.
Local Open Scope N_scope.

Section S.
Variable sl : list SymbolSize.
Variable sorter : nat -> list generic_plan -> PR (list generic_plan).
Hypothesis sorter_incl : forall k l l', sorter k l = Ok l' -> incl l' l.

Definition b256_inv (n : N) (g : generic_plan) : Prop := gp_switches g = [(n, Base256)] /\ exists b, gp_plan g = PBase256 b.

Lemma gp_step_b256 n g sr g' : gp_step sl g = Ok (Some (sr, g')) -> b256_inv n g -> b256_inv n g'.
Proof.
  intros H [SW [b PB]]. unfold gp_step in H. rewrite PB in H. cbn [bind] in H.
  destruct (bp_step b) as [[r p']|]; inversion H; subst. split; [exact SW|eexists; reflexivity].
Qed.

Lemma no_other_mode_b256 : filter (fun me : EncodationType * N => negb (et_eqb Base256 (fst me)) && enabled 32 (fst me)) switch_order = [].
Proof. reflexivity. Qed.
Lemma only_b256_from_ascii : filter (fun me : EncodationType * N => negb (et_eqb Ascii (fst me)) && enabled 32 (fst me)) switch_order = [(Base256, 1)].
Proof. reflexivity. Qed.

Lemma add_switches_b256 n g rest uas s l s' : b256_inv n g -> gp_add_switches sl g rest uas 32 s = Ok (l, s') -> l = [].
Proof.
  intros [SW [b PB]] H. unfold gp_add_switches in H. destruct (gp_mode_switch_cost g); [|inversion H; reflexivity].
  destruct (gp_write_unlatch g) as [ctx| |]; cbn [bind] in H; try discriminate.
  unfold gp_current in H. rewrite PB in H. rewrite no_other_mode_b256 in H. cbn [add_switch_all] in H. inversion H. reflexivity.
Qed.

Lemma step_all_b256 n rest uas plans : forall np ae s np' ae' s',
  step_all sl plans rest uas 32 np ae s = Ok (np', ae', s') ->
  Forall (b256_inv n) plans -> Forall (b256_inv n) np -> Forall (b256_inv n) np'.
Proof.
  induction plans as [|plan r IH]; intros np ae s np' ae' s' H HP HN; cbn [step_all] in H.
  - inversion H; subst. exact HN.
  - inversion HP as [|? ? G HP']; subst.
    destruct (gp_step sl plan) as [o| |] eqn:ST; cbn [bind] in H; try discriminate.
    destruct o as [[result plan']|].
    + assert (b256_inv n plan') as G' by (eapply gp_step_b256; eassumption).
      destruct (negb (sr_unbeatable result) && negb (sr_end result)).
      * destruct (gp_add_switches sl plan rest uas 32 (s + 1)) as [[added s1]| |] eqn:A; cbn [bind] in H; try discriminate.
        destruct (negb (Bool.eqb _ _)); [discriminate|]. rewrite (add_switches_b256 _ _ _ _ _ _ _ G A) in H.
        eapply IH; try eassumption. rewrite !Forall_app. repeat split; [exact HN|constructor; [exact G'|constructor]|constructor].
      * cbn [bind] in H. destruct (negb (Bool.eqb _ _)); [discriminate|].
        eapply IH; try eassumption. rewrite Forall_app. split; [exact HN|constructor; [exact G'|constructor]].
    + destruct (gp_add_switches sl plan rest uas 32 (s + 1)) as [[added s1]| |] eqn:A; cbn [bind] in H; try discriminate.
      rewrite (add_switches_b256 _ _ _ _ _ _ _ G A) in H. eapply IH; try eassumption. rewrite app_nil_r. exact HN.
Qed.

Lemma opt_loop_b256 fuel : forall it n w plans new_plan st res st',
  opt_loop sl sorter fuel it n w 32 plans new_plan st = Ok (Some res, st') ->
  Forall (b256_inv n) plans -> Forall (b256_inv n) new_plan -> res = [(n, Base256); (0, Base256)].
Proof.
  induction fuel as [|f IH]; intros it n w plans new_plan st res st' H HP HN; cbn [opt_loop] in H; [discriminate|].
  destruct (n <? N.of_nat it); [discriminate|].
  destruct (step_all sl plans (n - N.of_nat it) _ 32 new_plan _ (st_steps st)) as [[[np ae] steps]| |] eqn:SA; cbn [bind] in H; try discriminate.
  assert (Forall (b256_inv n) np) as I1 by (eapply step_all_b256; eassumption).
  destruct (sorter it np) as [sorted| |] eqn:SO; cbn [bind] in H; try discriminate.
  destruct (remove_hopeless_cases sl sorted) as [np2| |] eqn:RH; cbn [bind] in H; try discriminate.
  assert (Forall (b256_inv n) np2) as I2.
  { apply Forall_forall. intros g Hg. rewrite Forall_forall in I1. apply I1. eapply sorter_incl; [exact SO|]. eapply remove_hopeless_incl; eassumption. }
  destruct np2 as [|p0 rest]; [discriminate|]. destruct ae.
  - match type of H with (let* keyed := ?X in _) = _ => destruct X as [keyed| |] eqn:EK end; cbn [bind] in H; try discriminate.
    destruct keyed as [|[p k] r]; [discriminate|].
    destruct (gp_cost sl (min_by p k r)) as [c| |]; cbn [bind] in H; try discriminate.
    assert (map fst ((p, k) :: r) = p0 :: rest) as MK by (eapply with_keys_fst; exact EK).
    assert (b256_inv n (min_by p k r)) as [SW [b PB]].
    { rewrite Forall_forall in I2. apply I2. rewrite <- MK. cbn [map fst].
      destruct (min_by_In p k r) as [E|E]; [left; exact (eq_sym E)|right; exact E]. }
    unfold gp_current in H. rewrite SW, PB in H. cbn [app] in H. inversion H. reflexivity.
  - apply (IH (S it) n w (p0 :: rest) [] _ res st' H I2). constructor.
Qed.

Theorem b256_only_plan data written res st : optimize sl sorter data written Ascii 32 = Ok (Some res, st) ->
  res = [(N.of_nat (length data), Base256); (0, Base256)].
Proof.
  unfold optimize. change (enabled 32 Ascii) with false. cbv iota. intros H.
  destruct (gp_add_switches sl _ _ true 32 0) as [[added steps]| |] eqn:A; cbn [bind] in H; try discriminate.
  eapply opt_loop_b256; [exact H|constructor|].
  unfold gp_add_switches in A. destruct (gp_mode_switch_cost _); [|inversion A; constructor].
  destruct (gp_write_unlatch _) as [ctx| |]; cbn [bind] in A; try discriminate.
  cbn [gp_current gp_for_mode gp_plan] in A. rewrite only_b256_from_ascii in A. cbn [add_switch_all] in A.
  unfold add_switch in A. cbn [gp_switches gp_for_mode length Nat.eqb negb bind] in A.
  destruct (bp_step _) as [[r p']|]; cbn [option_map bind] in A; inversion A; subst; [|constructor].
  constructor; [|constructor]. split; [reflexivity|eexists; reflexivity].
Qed.
End S.
