(* Proofs/LDBound.v -- property C03: the error locator returned by the Levinson-Durbin routine has at most t = floor(k/2)
   roots to look for (its coefficient list has at most t + 1 entries).  Nothing about the correctness of the recursion
   is used: the bound follows from the loop guard v < t, from the range of the singular-case jump, and from the
   length assertion checked after every iteration (a debug assertion of the Rust code, a Panic of the model). *)
From Coq Require Import Arith NArith List Bool Lia.
From DM Require Import Model.Outcome Model.GF Model.RSEnc Model.RSDec Proofs.RSDecProofs.
Import ListNotations.
Local Open Scope nat_scope.

Lemma debug_check_length syn s : ld_debug_check syn s = Ok tt -> length (ld_w s) = ld_v s.
Proof.
  unfold ld_debug_check. destruct (Nat.eqb_spec (length (ld_w s)) (ld_v s)) as [E|NE]; [intros _; exact E|].
  cbn [negb orb]. discriminate.
Qed.

Lemma find_m_range syn tmp v : forall is_ m sg, find_m syn tmp v is_ = Ok (Some (m, sg)) -> In m is_.
Proof.
  induction is_ as [|i r IH]; intros m sg H; cbn [find_m] in H; [discriminate|].
  destruct (slice_incl syn (v + i) (2 * v + i)) as [sl| |]; cbn [bind] in H; try discriminate.
  destruct (dot sl tmp) as [sigma| |]; cbn [bind] in H; try discriminate.
  destruct (N.eqb sigma 0); [right; eapply IH; exact H|]. inversion H; subst. now left.
Qed.

Lemma ld_loop_bound fuel syn t : forall s s', ld_loop fuel syn t s = Ok s' ->
  ld_v s <= t -> length (ld_w s) = ld_v s -> ld_v s' <= t /\ length (ld_w s') = ld_v s'.
Proof.
  induction fuel as [|f IH]; intros s s' H Hv Hl; cbn [ld_loop] in H; [discriminate|].
  destruct (Nat.ltb_spec (ld_v s) t) as [LT|GE]; cbn [negb] in H; [|inversion H; subst; split; assumption].
  destruct (slice_incl syn (ld_v s) (2 * ld_v s)) as [sl| |]; cbn [bind] in H; try discriminate.
  destruct (dot sl (ld_w s ++ [1%N])) as [eps| |]; cbn [bind] in H; try discriminate.
  destruct (negb (N.eqb eps 0)).
  - (* regular step: v + 1 <= t *)
    destruct (length (0%N :: ld_w s) <? ld_v s); [discriminate|].
    destruct (slice_incl syn (ld_v s + 1) (2 * ld_v s + 1)) as [sl1| |]; cbn [bind] in H; try discriminate.
    destruct (dot sl1 _) as [b0| |]; cbn [bind] in H; try discriminate.
    destruct (gdiv b0 eps) as [beta| |]; cbn [bind] in H; try discriminate.
    destruct (slice_incl syn (ld_v s) (2 * ld_v s - 1)) as [sl2| |]; cbn [bind] in H; try discriminate.
    destruct (dot sl2 (ld_y s)) as [gamma| |]; cbn [bind] in H; try discriminate.
    destruct (gdiv 1%N eps) as [eps_inv| |]; cbn [bind] in H; try discriminate.
    match type of H with (let* _ := ld_debug_check syn ?S' in _) = _ => set (s1 := S') in *; destruct (ld_debug_check syn s1) as [[]| |] eqn:DC end;
      cbn [bind] in H; try discriminate.
    apply (IH s1 s' H); [cbn [ld_v s1]; lia|apply (debug_check_length syn s1 DC)].
  - (* singular case *)
    destruct (find_m syn _ (ld_v s) (seq 1 (t - ld_v s - 1))) as [[[m sg]|]| |] eqn:FM; cbn [bind] in H; try discriminate;
      [|inversion H; subst; split; assumption].
    apply find_m_range in FM. apply in_seq in FM.
    match type of H with (let* _ := ?X in _) = _ => destruct X as [sig_rest| |] end; cbn [bind] in H; try discriminate.
    match type of H with (let* _ := ?X in _) = _ => destruct X as [tmp1| |] end; cbn [bind] in H; try discriminate.
    destruct (gdiv 1%N sg) as [sminv| |]; cbn [bind] in H; try discriminate.
    match type of H with (let* _ := ?X in _) = _ => destruct X as [y2| |] end; cbn [bind] in H; try discriminate.
    match type of H with (let* _ := ?X in _) = _ => destruct X as [gamma0| |] end; cbn [bind] in H; try discriminate.
    match type of H with (let* _ := ?X in _) = _ => destruct X as [gamma| |] end; cbn [bind] in H; try discriminate.
    match type of H with (let* _ := ?X in _) = _ => destruct X as [[]| |] end; cbn [bind] in H; try discriminate.
    match type of H with (let* _ := ?X in _) = _ => destruct X as [tmp3| |] end; cbn [bind] in H; try discriminate.
    match type of H with (let* _ := ld_debug_check syn ?S' in _) = _ => set (s1 := S') in *; destruct (ld_debug_check syn s1) as [[]| |] eqn:DC end;
      cbn [bind] in H; try discriminate.
    apply (IH s1 s' H); [cbn [ld_v s1]; lia|apply (debug_check_length syn s1 DC)].
Qed.

Lemma set_ok_length l i v l' : set_ok l i v = Ok l' -> length l' = length l.
Proof. intros H. apply (set_ok_spec _ _ _ _ H). Qed.

Lemma init_w_inner_length syn v i : forall js w w', init_w_inner syn w v i js = Ok w' -> length w' = length w.
Proof.
  induction js as [|j r IH]; intros w w' H; cbn [init_w_inner] in H; [inversion H; reflexivity|].
  destruct (nth_ok w j) as [wj| |]; cbn [bind] in H; try discriminate.
  destruct (nth_ok syn (i + j)) as [sj| |]; cbn [bind] in H; try discriminate.
  destruct (nth_ok w (v - 1 - i)) as [cur| |]; cbn [bind] in H; try discriminate.
  destruct (set_ok w (v - 1 - i) _) as [w1| |] eqn:SO; cbn [bind] in H; try discriminate.
  rewrite (IH _ _ H). eapply set_ok_length; exact SO.
Qed.

Lemma init_w_outer_length syn v : forall is_ w w', init_w_outer syn w v is_ = Ok w' -> length w' = length w.
Proof.
  induction is_ as [|i r IH]; intros w w' H; cbn [init_w_outer] in H; [inversion H; reflexivity|].
  destruct (init_w_inner syn w v i _) as [w1| |] eqn:I1; cbn [bind] in H; try discriminate.
  destruct (nth_ok w1 (v - 1 - i)) as [cur| |]; cbn [bind] in H; try discriminate.
  destruct (nth_ok syn (v - 1)) as [d| |]; cbn [bind] in H; try discriminate.
  destruct (gdiv cur d) as [q| |]; cbn [bind] in H; try discriminate.
  destruct (set_ok w1 (v - 1 - i) q) as [w2| |] eqn:SO; cbn [bind] in H; try discriminate.
  rewrite (IH _ _ H), (set_ok_length _ _ _ _ SO). eapply init_w_inner_length; exact I1.
Qed.

Lemma slice_incl_length l a b sl : slice_incl l a b = Ok sl -> length sl = b + 1 - a.
Proof.
  unfold slice_incl. destruct (Nat.leb_spec (length l) b); cbn [orb]; [discriminate|].
  destruct (Nat.ltb_spec (b + 1) a); [discriminate|]. intros [= <-]. rewrite firstn_length, skipn_length. lia.
Qed.

(* the locator polynomial has at most floor(#syndromes / 2) + 1 coefficients *)
Theorem ld_locator_length syn lam : find_inv_error_locations_levinson_durbin syn = Ok lam ->
  length lam <= length syn / 2 + 1.
Proof.
  unfold find_inv_error_locations_levinson_durbin. set (t := length syn / 2). set (v := take_while_zero syn + 1).
  destruct (Nat.ltb_spec t v) as [GT|LE]; [discriminate|].
  destruct (nth_ok syn (v - 1)) as [sv| |]; cbn [bind]; try discriminate.
  destruct (gdiv 1%N sv) as [y0| |]; cbn [bind]; try discriminate.
  destruct (slice_incl syn v (2 * v - 1)) as [sl| |] eqn:SL; cbn [bind]; try discriminate.
  destruct (init_w_outer syn (rev sl) v (seq 0 v)) as [w| |] eqn:IW; cbn [bind]; try discriminate.
  destruct (ld_loop (t + 2) syn t _) as [s| |] eqn:LL; cbn [bind]; try discriminate. intros [= <-].
  assert (length w = v) as LW.
  { rewrite (init_w_outer_length _ _ _ _ _ IW), rev_length, (slice_incl_length _ _ _ _ SL). unfold v. lia. }
  destruct (ld_loop_bound _ _ _ _ _ LL) as [B1 B2]; [cbn [ld_v]; exact LE|cbn [ld_v ld_w]; exact LW|].
  rewrite app_length. cbn [length]. lia.
Qed.
