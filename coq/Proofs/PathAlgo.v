(* Proofs/PathAlgo.v -- property C17, the Hierholzer decomposition of Model/Path.v (walk / euler / tours with the
   insert and alternatives bookkeeping): whenever `path` returns, the list of micro steps it built consists of closed
   tours of unit moves inside the box, uses every edge of the outline graph exactly once and nothing else; with
   Proofs/PathMicro.v (compress_path) and Proofs/PathProofs.v (even-odd filling) this gives the property for every
   bitmap with a dark top-left module.  Partial correctness: the statement is about the paths that are returned. *)
From Coq Require Import ZArith List Bool Lia Arith FMapPositive Permutation.
From DM Require Import Model.Outcome Model.Path Spec.EvenOdd Proofs.PathProofs Proofs.PathMicro Proofs.PathGraph.
Import ListNotations.
Local Open Scope Z_scope.

(* ---- lists of micro steps: current point, steps-only loops, splicing ---- *)
Definition mlast (cur : P2) (m : micro) : P2 := match m with Step i j | Jump i j => (i, j) end.
Definition mcur (cur : P2) (l : list micro) : P2 := fold_left mlast l cur.
Lemma mcur_app cur a b : mcur cur (a ++ b) = mcur (mcur cur a) b.
Proof. apply fold_left_app. Qed.
Lemma mcur_cons cur m a : mcur cur (m :: a) = mcur (mlast cur m) a.
Proof. reflexivity. Qed.

Lemma medges_app : forall a cur b, medges cur (a ++ b) = medges cur a ++ medges (mcur cur a) b.
Proof.
  induction a as [|m a IH]; intros cur b; [reflexivity|]. destruct m as [i j|i j]; cbn [app medges]; rewrite mcur_cons; cbn [mlast]; rewrite IH; reflexivity.
Qed.

Fixpoint svalid (w h : Z) (cur : P2) (l : list micro) : bool :=
  match l with
  | [] => true
  | Step i j :: r => unit_move cur (i, j) && nodebox w h (i, j) && svalid w h (i, j) r
  | Jump _ _ :: _ => false
  end.
Lemma svalid_app w h : forall a cur b, svalid w h cur (a ++ b) = svalid w h cur a && svalid w h (mcur cur a) b.
Proof.
  induction a as [|m a IH]; intros cur b; [reflexivity|]. destruct m as [i j|i j]; cbn [app svalid]; [reflexivity|].
  rewrite mcur_cons. cbn [mlast]. rewrite IH, !andb_assoc. reflexivity.
Qed.

Definition sloop (w h : Z) (c : P2) (L : list micro) : Prop := L <> [] /\ svalid w h c L = true /\ mcur c L = c.

Lemma mvalid_any w h : forall l cur st any, mvalid w h cur st any l = true -> mvalid w h cur st true l = true.
Proof.
  destruct l as [|m l]; intros cur st any H.
  - cbn [mvalid] in *. apply andb_true_iff in H. rewrite (proj1 H). reflexivity.
  - destruct m as [i j|i j]; cbn [mvalid] in *; [|exact H].
    apply andb_true_iff in H. destruct H as [H H3]. apply andb_true_iff in H. destruct H as [H H2]. apply andb_true_iff in H. destruct H as [H1 _].
    rewrite H1, H2, H3. reflexivity.
Qed.

Lemma mvalid_steps w h : forall L cur st any b, svalid w h cur L = true -> L <> [] ->
  mvalid w h (mcur cur L) st true b = true -> mvalid w h cur st any (L ++ b) = true.
Proof.
  induction L as [|m L IH]; intros cur st any b SV NE MV; [contradiction|]. destruct m as [i j|i j]; cbn [svalid] in SV; [discriminate|].
  apply andb_true_iff in SV. destruct SV as [SV1 SV2]. cbn [app mvalid]. rewrite SV1. cbn [andb]. rewrite mcur_cons in MV. cbn [mlast] in MV.
  destruct L as [|m2 L2]; [exact MV|]. apply IH; [exact SV2|discriminate|exact MV].
Qed.

Lemma mvalid_splice w h : forall a cur st any b L, mvalid w h cur st any (a ++ b) = true -> sloop w h (mcur cur a) L ->
  mvalid w h cur st any (a ++ L ++ b) = true.
Proof.
  induction a as [|m a IH]; intros cur st any b L MV (NE & SV & MC).
  - cbn [app] in *. change (mcur cur []) with cur in *. apply mvalid_steps; [exact SV|exact NE|]. rewrite MC. exact (mvalid_any _ _ _ _ _ _ MV).
  - rewrite mcur_cons in SV, MC. destruct m as [i j|i j]; cbn [app mvalid mlast] in *.
    + apply andb_true_iff in MV. destruct MV as [MV1 MV2]. rewrite MV1. cbn [andb]. apply IH; [assumption|]. repeat split; assumption.
    + apply andb_true_iff in MV. destruct MV as [MV1 MV2]. rewrite MV1. cbn [andb]. apply IH; [assumption|]. repeat split; assumption.
Qed.

Lemma mvalid_app_jump w h : forall a cur st any i j L, mvalid w h cur st any a = true -> nodebox w h (i, j) = true ->
  mvalid w h (i, j) (i, j) false L = true -> mvalid w h cur st any (a ++ Jump i j :: L) = true.
Proof.
  induction a as [|m a IH]; intros cur st any i j L MV NB ML.
  - cbn [app mvalid] in *. rewrite MV, NB, ML. reflexivity.
  - destruct m as [i0 j0|i0 j0]; cbn [app mvalid] in *.
    + apply andb_true_iff in MV. destruct MV as [MV1 MV2]. rewrite MV1. cbn [andb]. apply IH; assumption.
    + apply andb_true_iff in MV. destruct MV as [MV1 MV2]. rewrite MV1. cbn [andb]. apply IH; assumption.
Qed.

Lemma sloop_mvalid w h c L : sloop w h c L -> mvalid w h c c false L = true.
Proof.
  intros (NE & SV & MC). rewrite <- (app_nil_r L). apply mvalid_steps; [exact SV|exact NE|]. rewrite MC. cbn [mvalid].
  rewrite (proj2 (p2eqb_eq c c) eq_refl). reflexivity.
Qed.

Lemma splice_eq {A} (E : list A) n L : splice E n L = firstn n E ++ L ++ skipn n E.
Proof. reflexivity. Qed.

Lemma sloop_splice w h c L k L2 : sloop w h c L -> sloop w h (mcur c (firstn k L)) L2 -> sloop w h c (splice L k L2).
Proof.
  intros (NE & SV & MC) (NE2 & SV2 & MC2). rewrite splice_eq. rewrite <- (firstn_skipn k L) in SV, MC. rewrite svalid_app in SV. apply andb_true_iff in SV. destruct SV as [SVa SVb].
  rewrite mcur_app in MC. split; [|split].
  - destruct (firstn k L); [destruct L2; [contradiction|discriminate]|discriminate].
  - rewrite !svalid_app, SVa, SV2, MC2, SVb. reflexivity.
  - rewrite !mcur_app, MC2. exact MC.
Qed.

Lemma splice_splice {A} (E : list A) ip L idx L2 : (ip <= length E)%nat -> (ip <= idx <= ip + length L)%nat ->
  splice (splice E ip L) idx L2 = splice E ip (splice L (idx - ip) L2).
Proof.
  intros H1 H2. rewrite !splice_eq. assert (length (firstn ip E) = ip) as LF by (rewrite firstn_length; lia).
  rewrite !firstn_app, !skipn_app, LF. rewrite (firstn_all2 (n := idx) (firstn ip E)) by lia. rewrite (skipn_all2 (n := idx) (firstn ip E)) by lia.
  replace (idx - ip - length L)%nat with 0%nat by lia. cbn [firstn skipn app]. rewrite app_nil_r, <- !app_assoc. reflexivity.
Qed.

Lemma medges_splice O E ip L c : mcur O (firstn ip E) = c -> mcur c L = c ->
  Permutation (medges O (splice E ip L)) (medges O E ++ medges c L).
Proof.
  intros H1 H2. rewrite splice_eq. replace (medges O E) with (medges O (firstn ip E ++ skipn ip E)) by (rewrite firstn_skipn; reflexivity).
  rewrite !medges_app, H1, H2.
  rewrite <- app_assoc. apply Permutation_app_head. apply Permutation_app_comm.
Qed.

Lemma kcount_nodup ks x y : NoDup ks -> kcount ks x y = if existsb (fun k => keyeqb k (true, x, y)) ks then 1%nat else 0%nat.
Proof.
  unfold kcount. induction 1 as [|k ks NI ND IH]; [reflexivity|]. cbn [filter existsb].
  assert (kmatch k x y = keyeqb k (true, x, y)) as KM by (destruct k as [[[] kx] ky]; reflexivity).
  rewrite KM. destruct (keyeqb k (true, x, y)) eqn:K; cbn [orb length].
  - apply keyeqb_eq in K. subst k. rewrite IH. destruct (existsb (fun k : key => keyeqb k (true, x, y)) ks) eqn:EX; [|reflexivity].
    apply existsb_exists in EX. destruct EX as (k' & I & K'). apply keyeqb_eq in K'. subst k'. contradiction.
  - exact IH.
Qed.

Section Algo.
Variables (l : list bool) (w h : Z) (g0 : graph).
Hypothesis Hw : 0 < w.
Hypothesis Hh : 0 <= h.
Hypothesis G0 : bits_to_edge_graph l w h = Ok g0.
Let O : P2 := (0, 0).

Definition GI (g : graph) : Prop := g_w g = w /\ g_h g = h /\ 0 <= g_hint g /\ hint_ok g.
Definition WI (g : graph) (U : list key) : Prop :=
  NoDup U /\ (forall k, In k U -> edge_in g k = false) /\ (forall k, edge_in g0 k = true <-> edge_in g k = true \/ In k U).

Lemma GI_remove g p : GI g -> GI (remove_edge g p).
Proof.
  intros (DW & DH & H0 & HO). assert (g_w (remove_edge g p) = g_w g /\ g_h (remove_edge g p) = g_h g /\ g_hint (remove_edge g p) = g_hint g) as (E1 & E2 & E3).
  { unfold remove_edge. destruct (has_cell _ _ _); [destruct (p_d p)|]; repeat split. }
  split; [lia|split; [lia|split; [lia|]]]. intros k Hk. rewrite E1, E3. rewrite remove_edge_spec in Hk by lia. apply andb_true_iff in Hk. apply HO. apply Hk.
Qed.

Lemma WI_perm g U U' : Permutation U U' -> WI g U -> WI g U'.
Proof.
  intros P (ND & DJ & CV). split; [exact (Permutation_NoDup P ND)|split].
  - intros k I. apply DJ. exact (Permutation_in _ (Permutation_sym P) I).
  - intros k. rewrite CV. split; intros [A|B]; auto; right; [exact (Permutation_in _ P B)|exact (Permutation_in _ (Permutation_sym P) B)].
Qed.
Lemma WI_ext g g' U : (forall k, edge_in g' k = edge_in g k) -> WI g U -> WI g' U.
Proof. intros EQ (ND & DJ & CV). split; [exact ND|split]; intros k; rewrite EQ; auto. Qed.

Lemma WI_remove g U p : GI g -> WI g U -> has_edge g p = true -> WI (remove_edge g p) (U ++ [pkey p]).
Proof.
  intros (DW & _) (ND & DJ & CV) HE. rewrite has_edge_key in HE. split; [|split].
  - apply (Permutation_NoDup (Permutation_cons_append U (pkey p))). constructor; [|exact ND]. intros I. rewrite (DJ _ I) in HE. discriminate.
  - intros k I. rewrite remove_edge_spec by lia. apply in_app_or in I. destruct I as [I|[<-|[]]].
    + rewrite (DJ _ I). reflexivity.
    + rewrite (proj2 (keyeqb_eq _ _) eq_refl). apply andb_false_r.
  - intros k. rewrite CV, remove_edge_spec by lia. destruct (keyeqb k (pkey p)) eqn:K.
    + apply keyeqb_eq in K. subst k. split; [intros _; right; apply in_or_app; right; left; reflexivity|intros _; left; exact HE].
    + rewrite andb_true_r. split; intros [A|B]; auto; right; [apply in_or_app; left; exact B|].
      apply in_app_or in B. destruct B as [B|[<-|[]]]; [exact B|]. rewrite (proj2 (keyeqb_eq _ _) eq_refl) in K. discriminate.
Qed.

Lemma WI_nodes g U p : WI g U -> has_edge g p = true -> nodebox w h (start_node p) = true /\ nodebox w h (end_node p) = true.
Proof.
  intros (_ & _ & CV) HE. rewrite has_edge_key in HE. apply key_nodes. apply (g0_key_range l w h g0 Hw Hh G0). apply CV. left. exact HE.
Qed.

(* ---- the inner walk ---- *)
Definition alts_ok (ip : nat) (start : P2) (loop : list micro) (alts : list (nat * pos)) : Prop :=
  forall idx pa, In (idx, pa) alts -> (ip <= idx <= ip + length loop)%nat /\ mcur start (firstn (idx - ip) loop) = end_node pa.

Lemma walk_ok : forall fuel g p start loop insert alts ip U g' p' loop' insert' alts',
  walk fuel g p start loop insert alts = Ok (g', p', loop', insert', alts') ->
  GI g -> WI g (U ++ medges start loop) -> svalid w h start loop = true -> mcur start loop = end_node p ->
  insert = (ip + length loop)%nat -> alts_ok ip start loop alts ->
  GI g' /\ WI g' (U ++ medges start loop') /\ sloop w h start loop' /\ alts_ok ip start loop' alts'.
Proof.
  induction fuel as [|f IH]; intros g p start loop insert alts ip U g' p' loop' insert' alts' H HG HW SV MC HI HA; [discriminate|].
  cbn [walk] in H. destruct (follow g p) as [[p1|] had] eqn:F; [|discriminate].
  destruct (follow_spec _ _ _ _ F) as [HE NX]. pose proof (next_start _ _ NX) as ST. destruct (WI_nodes _ _ _ HW HE) as [_ NB].
  destruct (end_node p1) as [ei ej] eqn:EN.
  set (loop1 := loop ++ [Step ei ej]) in *. set (alts1 := if had then alts ++ [(insert, p)] else alts) in *.
  assert (svalid w h start loop1 = true) as SV1.
  { unfold loop1. rewrite svalid_app, SV, MC, <- ST. cbn [svalid andb]. rewrite NB, <- EN, pos_unit_move. reflexivity. }
  assert (mcur start loop1 = (ei, ej)) as MC1 by (unfold loop1; rewrite mcur_app; reflexivity).
  assert (WI (remove_edge g p1) (U ++ medges start loop1)) as HW1.
  { unfold loop1. rewrite medges_app, MC, <- ST. cbn [medges]. rewrite <- EN. fold (pkey p1). rewrite app_assoc. apply WI_remove; assumption. }
  assert (alts_ok ip start loop1 alts1) as HA1.
  { assert (alts_ok ip start loop1 alts) as HA0.
    { intros idx pa I. destruct (HA idx pa I) as [B M]. unfold loop1. rewrite app_length. split; [lia|].
      rewrite firstn_app. replace (idx - ip - length loop)%nat with 0%nat by lia. cbn [firstn]. rewrite app_nil_r. exact M. }
    unfold alts1. destruct had; [|exact HA0]. intros idx pa I. apply in_app_or in I. destruct I as [I|[I|[]]]; [exact (HA0 idx pa I)|].
    inversion I; subst idx pa. unfold loop1. rewrite app_length. split; [lia|]. replace (insert - ip)%nat with (length loop) by lia.
    rewrite firstn_app, firstn_all, Nat.sub_diag. cbn [firstn]. rewrite app_nil_r. exact MC. }
  destruct ((ei =? fst start) && (ej =? snd start)) eqn:END.
  - inversion H; subst g' p' loop' insert' alts'. split; [apply GI_remove; exact HG|split; [exact HW1|split; [|exact HA1]]].
    split; [unfold loop1; destruct loop; discriminate|split; [exact SV1|]]. rewrite MC1. apply andb_true_iff in END. destruct END as [E1 E2].
    apply Z.eqb_eq in E1, E2. destruct start; cbn [fst snd] in *; subst; reflexivity.
  - apply (IH _ _ _ _ _ _ ip U _ _ _ _ _ H); [apply GI_remove; exact HG|exact HW1|exact SV1|rewrite MC1; symmetry; exact EN| |exact HA1].
    unfold loop1. rewrite app_length. cbn [length]. lia.
Qed.

Lemma first_alt_spec g : forall alts idx np, first_alt g alts = Some (idx, np) -> exists pa, In (idx, pa) alts /\ can_step g pa = Some np.
Proof.
  induction alts as [|[i pa] r IH]; intros idx np H; [discriminate|]. cbn [first_alt] in H. destruct (can_step g pa) as [q|] eqn:C.
  - inversion H; subst. exists pa. split; [left; reflexivity|exact C].
  - destruct (IH _ _ H) as (pa' & I & C'). exists pa'. split; [right; exact I|exact C'].
Qed.

(* ---- one Eulerian tour ---- *)
Definition EPre (E : list micro) (insert : nat) (c : P2) : Prop :=
  (insert <= length E)%nat /\ mcur O (firstn insert E) = c /\ forall L, sloop w h c L -> mvalid w h O O false (splice E insert L) = true.

Lemma euler_ok : forall fuel efuel g p E insert g' p' E' insert',
  euler fuel efuel g p E insert = Ok (g', p', E', insert') ->
  GI g -> WI g (medges O E) -> has_edge g p = true -> EPre E insert (start_node p) ->
  GI g' /\ WI g' (medges O E') /\ mvalid w h O O false E' = true.
Proof.
  induction fuel as [|f IH]; intros efuel g p E insert g' p' E' insert' H HG HW HE (PL & PC & PV); [discriminate|].
  cbn [euler] in H. destruct (end_node p) as [ei ej] eqn:EN.
  destruct (walk efuel (remove_edge g p) p (start_node p) [Step ei ej] (S insert) []) as [[[[[g2 p2] loop2] ins2] alts2]|e|s] eqn:W; cbn [bind] in H; try discriminate.
  destruct (WI_nodes _ _ _ HW HE) as [_ NB].
  destruct (walk_ok _ _ _ _ _ _ _ insert (medges O E) _ _ _ _ _ W) as (HG2 & HW2 & SL & HA).
  { apply GI_remove; exact HG. }
  { cbn [medges]. rewrite <- EN. fold (pkey p). apply WI_remove; assumption. }
  { cbn [svalid]. rewrite <- EN, pos_unit_move, NB. reflexivity. }
  { symmetry. exact EN. }
  { cbn [length]. lia. }
  { intros idx pa []. }
  set (E2 := splice E insert loop2) in *. destruct SL as (NE & SV & MC).
  assert (WI g2 (medges O E2)) as HWE by (apply (WI_perm _ _ _ (Permutation_sym (medges_splice O E insert loop2 _ PC MC))); exact HW2).
  destruct (first_alt g2 alts2) as [[idx np]|] eqn:FA.
  - destruct (first_alt_spec _ _ _ _ FA) as (pa & I & CS). destruct (can_step_spec _ _ _ CS) as [HE2 NX]. pose proof (next_start _ _ NX) as ST.
    destruct (HA idx pa I) as [B M]. apply (IH _ _ _ _ _ _ _ _ _ H HG2 HWE HE2). split; [|split].
    + unfold E2. rewrite splice_eq, !app_length, firstn_length, skipn_length. lia.
    + unfold E2. rewrite splice_eq, firstn_app, firstn_length, Nat.min_l by lia. rewrite (firstn_all2 (n := idx) (firstn insert E)) by (rewrite firstn_length; lia).
      rewrite firstn_app. replace (idx - insert - length loop2)%nat with 0%nat by lia. cbn [firstn]. rewrite app_nil_r, mcur_app, PC, M. symmetry. exact ST.
    + intros L2 SL2. unfold E2. rewrite splice_splice by lia. apply PV. apply sloop_splice; [repeat split; assumption|]. rewrite M, <- ST. exact SL2.
  - inversion H; subst g' p' E' insert'. split; [exact HG2|split; [exact HWE|]]. apply PV. repeat split; assumption.
Qed.

(* ---- all tours ---- *)
Lemma tours_ok : forall fuel efuel g p E insert R,
  tours fuel efuel g p E insert = Ok R ->
  GI g -> WI g (medges O E) -> has_edge g p = true -> EPre E insert (start_node p) ->
  mvalid w h O O false R = true /\ NoDup (medges O R) /\ forall k, edge_in g0 k = true <-> In k (medges O R).
Proof.
  induction fuel as [|f IH]; intros efuel g p E insert R H HG HW HE HP; [discriminate|].
  cbn [tours] in H. destruct (euler efuel efuel g p E insert) as [[[[g1 p1] E1] ins1]|e|s] eqn:EU; cbn [bind] in H; try discriminate.
  destruct (euler_ok _ _ _ _ _ _ _ _ _ _ EU HG HW HE HP) as (HG1 & HW1 & MV1). destruct HG1 as (DW & DH & H0 & HO).
  destruct (edge_left g1) as [[np|] g2] eqn:EL.
  - destruct (edge_left_some g1 np g2 ltac:(lia) ltac:(lia) H0 EL) as (HE2 & SAME & DW2 & DH2 & H02 & HO2).
    assert (WI g2 (medges O E1)) as HW2 by (apply (WI_ext g1); assumption).
    destruct (WI_nodes _ _ _ HW2 HE2) as [NB _]. destruct (start_node np) as [si sj] eqn:SN.
    apply (IH _ _ _ _ _ _ H).
    + split; [lia|split; [lia|split; [exact H02|exact (HO2 HO)]]].
    + rewrite medges_app. cbn [medges]. rewrite app_nil_r. exact HW2.
    + exact HE2.
    + rewrite SN. split; [lia|split].
      * rewrite firstn_all, mcur_app. reflexivity.
      * intros L SL. rewrite splice_eq, firstn_all, skipn_all, app_nil_r, <- app_assoc. cbn [app].
        apply mvalid_app_jump; [exact MV1|exact NB|apply sloop_mvalid; exact SL].
  - inversion H; subst R. destruct HW1 as (ND & DJ & CV). pose proof (edge_left_none g1 g2 ltac:(lia) ltac:(lia) HO EL) as NONE.
    split; [exact MV1|split; [exact ND|]]. intros k. rewrite CV, NONE. split; [intros [A|B]; [discriminate|exact B]|intros B; right; exact B].
Qed.
End Algo.

(* ---- the first edge: with a dark top-left module the scan stops at index 0 and the first tour starts at (0, 0) ---- *)
Lemma edge_left_first g np g' : 0 <= g_w g -> 0 <= g_h g -> g_hint g = 0 -> gtop g 0 0 = true -> edge_left g = (Some np, g') -> np = mkpos 0 0 Right.
Proof.
  intros Hw Hh HH GT H. unfold edge_left in H. rewrite HH in H. destruct (scan g _ 0) as [r|] eqn:S; [|discriminate].
  destruct (scan_some g _ _ _ S) as (R1 & R2 & R3). unfold gtop in GT. apply andb_true_iff in GT. destruct GT as [_ M]. unfold eidx in M. cbn in M.
  assert (r = 0) as ->.
  { destruct (Z.eq_dec r 0) as [E|NE]; [exact E|]. assert (any_at g 0 = false) as A by (apply R3; lia). unfold any_at in A. cbn in A. rewrite M in A. rewrite orb_true_r in A. discriminate. }
  cbn in H. rewrite M in H. inversion H. reflexivity.
Qed.

Theorem path_correct (l : list bool) (w : Z) (segs : list seg) :
  let h := Z.of_nat (length l) / w in
  path l w = Ok segs -> dark (bits_map l) w h 0 0 = true ->
  wf_path w h segs = true /\
  forall x y, 0 <= x < w -> 0 <= y < h -> inside w h segs x y = dark (bits_map l) w h y x.
Proof.
  intros h P D. destruct (dark_nth l w h 0 0 D) as (N0 & Rh & Rw). unfold path, bitmap_new in P.
  destruct (Z.eqb_spec w 0) as [|_]; [lia|]. destruct (negb (Z.of_nat (length l) mod w =? 0)); [discriminate|]. cbn [bind] in P. fold h in P.
  destruct (bits_to_edge_graph l w h) as [g0| |] eqn:G0; cbn [bind] in P; try discriminate.
  assert (0 < w) as Hw by lia. assert (0 <= h) as Hh by lia.
  destruct (g0_dims l w h g0 G0) as [DW DH].
  assert (g_hint g0 = 0) as HH.
  { unfold bits_to_edge_graph in G0. destruct (_ || _); [discriminate|]. inversion G0; subst g0. cbn [g_hint].
    destruct l as [|b r]; [discriminate|]. cbn in N0. subst b. cbn [first_dark]. rewrite Z.div_0_l, Z.mod_0_l by lia. reflexivity. }
  assert (gtop g0 0 0 = true) as GT.
  { rewrite (g0_top l w h g0 Hw Hh G0) by lia. unfold top_at. rewrite D. reflexivity. }
  destruct (edge_left g0) as [[p|] g1] eqn:EL.
  2:{ exfalso. assert (hint_ok g0) as HO by (apply (g0_hint_ok l w h); assumption).
      pose proof (edge_left_none g0 g1 ltac:(lia) ltac:(lia) HO EL (false, 0, 0)) as NONE. cbn [edge_in] in NONE. congruence. }
  pose proof (edge_left_first g0 p g1 ltac:(lia) ltac:(lia) HH GT EL) as ->.
  destruct (edge_left_some g0 _ g1 ltac:(lia) ltac:(lia) ltac:(lia) EL) as (HE & SAME & DW1 & DH1 & H01 & HO1).
  set (e := Z.to_nat (2 * (w + 1) * (h + 1) + 2)) in *.
  destruct (tours e e g1 (mkpos 0 0 Right) [] 0) as [R| |] eqn:T; cbn [bind] in P; try discriminate. inversion P; subst segs. clear P.
  destruct (tours_ok l w h g0 Hw Hh G0 _ _ _ _ _ _ _ T) as (MV & ND & CV).
  - split; [lia|split; [lia|split; [exact H01|apply HO1; apply (g0_hint_ok l w h); assumption]]].
  - cbn [medges]. split; [constructor|split; [intros k []|]]. intros k. rewrite SAME. split; [intros A; left; exact A|intros [A|[]]; exact A].
  - exact HE.
  - split; [cbn; lia|split; [reflexivity|]]. intros L SL. rewrite splice_eq. cbn [firstn skipn app]. rewrite app_nil_r. apply sloop_mvalid. exact SL.
  - destruct (compress_ok w h R ltac:(lia) Hh MV ND) as [WF CNT]. split; [exact WF|].
    apply (evenodd_fills_dark (bits_map l) w h _ WF). intros x y Hx Hy. rewrite CNT, kcount_nodup by exact ND.
    rewrite <- (g0_left l w h g0 Hw Hh G0) by lia. change (gleft g0 y x) with (edge_in g0 (true, x, y)).
    destruct (edge_in g0 (true, x, y)) eqn:E.
    + apply CV in E. assert (existsb (fun k : key => keyeqb k (true, x, y)) (medges (0, 0) R) = true) as ->; [|reflexivity].
      apply existsb_exists. exists (true, x, y). split; [exact E|apply keyeqb_eq; reflexivity].
    + destruct (existsb (fun k : key => keyeqb k (true, x, y)) (medges (0, 0) R)) eqn:EX; [|reflexivity].
      apply existsb_exists in EX. destruct EX as (k & I & K). apply keyeqb_eq in K. subst k. apply CV in I. congruence.
Qed.
Print Assumptions path_correct.
