(* Proofs/DecStreamC40.v -- property C04: the C40 / Text / X12 runs of a legal script are decoded to their
   characters: three-values-in-two-codewords unpacking, the shift-set state machine against the encoder-side tables
   of Spec/Stream16022.v (kernel sweep over all 256 characters, both sets), Unlatch and the end-of-symbol forms. *)
From Coq Require Import Arith NArith List Bool Lia.
From DM Require Import Generated.ModeTables Generated.Charsets Model.Outcome Model.Dec Spec.Stream16022 Proofs.DecStream.
Import ListNotations.
Local Open Scope N_scope.

(* ---------- three values in two codewords ---------- *)
Lemma tuple_inverse c1 c2 c3 : c1 < 40 -> c2 < 40 -> c3 < 40 ->
  exists a b, pack3 c1 c2 c3 = [a; b] /\ decode_c40_tuple a b = Ok (c1, c2, c3) /\ a <> 254.
Proof.
  intros H1 H2 H3. unfold pack3. cbv zeta. set (v := 1600 * c1 + 40 * c2 + c3 + 1).
  assert (v < 64001) as Hv by (unfold v; lia).
  exists (v / 256), (v mod 256). split; [reflexivity|].
  pose proof (N.div_mod v 256 ltac:(lia)) as DM. pose proof (N.mod_lt v 256 ltac:(lia)) as ML.
  assert (v / 256 < 251) as HA by (apply N.div_lt_upper_bound; lia).
  split; [|lia].
  unfold decode_c40_tuple. replace (v / 256 * 256 + v mod 256) with v by lia.
  destruct (N.eqb_spec v 0); [unfold v in *; lia|].
  replace (v - 1) with (c3 + 40 * c2 + c1 * 1600) by (unfold v; lia).
  rewrite N.div_add by lia. rewrite (N.div_small (c3 + 40 * c2) 1600) by lia. cbn [N.add].
  replace (c3 + 40 * c2 + c1 * 1600 - c1 * 1600) with (c3 + c2 * 40) by lia.
  rewrite N.div_add by lia. rewrite (N.div_small c3 40) by lia. cbn [N.add].
  replace (c3 + c2 * 40 - c2 * 40) with c3 by lia. reflexivity.
Qed.

(* induction over lists whose length is a multiple of three *)
Lemma list_ind3 {A} (P : list A -> Prop) : P [] -> (forall a b c r, P r -> P (a :: b :: c :: r)) ->
  forall l, N.of_nat (length l) mod 3 = 0 -> P l.
Proof.
  intros P0 P3 l. remember (length l) as n eqn:E. revert l E.
  induction n as [n IH] using (well_founded_induction lt_wf). intros l E M.
  destruct l as [|a [|b [|c r]]]; cbn [length] in E; subst n.
  - exact P0.
  - cbn in M. discriminate.
  - cbn in M. discriminate.
  - apply P3. apply (IH (length r)); [cbn; lia|reflexivity|].
    cbn [length] in M. rewrite !Nat2N.inj_succ in M. rewrite <- !N.add_1_r in M.
    replace (N.of_nat (length r) + 1 + 1 + 1) with (N.of_nat (length r) + 1 * 3) in M by lia.
    rewrite N.mod_add in M by lia. exact M.
Qed.

(* ---------- X12 ---------- *)
Lemma x12_sweep : forallb (fun ch => match x12_val ch with
                                     | Some v => (v <? 40) && match dec_x12_val v with Some c => c =? ch | None => false end
                                     | None => true end) (map N.of_nat (seq 0 256)) = true.
Proof. vm_compute. reflexivity. Qed.

Lemma x12_val_range ch : x12_ok ch = true -> ch < 256.
Proof.
  unfold x12_ok, x12_val, between. intros H.
  destruct (ch =? 13) eqn:E1; [apply N.eqb_eq in E1; lia|]. destruct (ch =? 42) eqn:E2; [apply N.eqb_eq in E2; lia|].
  destruct (ch =? 62) eqn:E3; [apply N.eqb_eq in E3; lia|]. destruct (ch =? 32) eqn:E4; [apply N.eqb_eq in E4; lia|].
  destruct ((48 <=? ch) && (ch <=? 57)) eqn:E5; [rewrite andb_true_iff, !N.leb_le in E5; lia|].
  destruct ((65 <=? ch) && (ch <=? 90)) eqn:E6; [rewrite andb_true_iff, !N.leb_le in E6; lia|discriminate].
Qed.

Lemma x12_char ch : x12_ok ch = true -> x12_v ch < 40 /\ dec_x12_val (x12_v ch) = Some ch.
Proof.
  intros OK. pose proof (x12_val_range ch OK) as R. pose proof x12_sweep as S. rewrite forallb_forall in S.
  specialize (S ch). unfold x12_ok, x12_v in *. destruct (x12_val ch) as [v|]; [|discriminate].
  assert (In ch (map N.of_nat (seq 0 256))) as I.
  { apply in_map_iff. exists (N.to_nat ch). split; [lia|apply in_seq; lia]. }
  specialize (S I). apply andb_true_iff in S. destruct S as [A B]. apply N.ltb_lt in A. split; [exact A|].
  destruct (dec_x12_val v); [|discriminate]. apply N.eqb_eq in B. now subst.
Qed.

Lemma x12_run chars : forallb x12_ok chars = true -> N.of_nat (length chars) mod 3 = 0 ->
  forall fuel tail c out, (length chars < 3 * fuel)%nat ->
  exists fuel', (fuel' + length chars / 3 = fuel)%nat /\
  decode_x12 fuel (mkrd (pack_vals (map x12_v chars) ++ tail) c) out =
  decode_x12 fuel' (mkrd tail (c + N.of_nat (length (pack_vals (map x12_v chars))))) (out ++ chars).
Proof.
  intros OK M. revert OK. pattern chars. apply (fun P p0 p3 => @list_ind3 N P p0 p3 chars M); clear chars M.
  - intros _ fuel tail c out Hf. exists fuel. cbn. rewrite N.add_0_r, app_nil_r, Nat.add_0_r. split; reflexivity.
  - intros a b d r IH OK fuel tail c out Hf. cbn [forallb] in OK. rewrite !andb_true_iff in OK.
    destruct OK as (Oa & Ob & Od & Or).
    destruct (x12_char a Oa) as [Ra Da]. destruct (x12_char b Ob) as [Rb Db]. destruct (x12_char d Od) as [Rd Dd].
    destruct (tuple_inverse _ _ _ Ra Rb Rd) as (x & y & P & T & NU).
    cbn [map pack_vals]. rewrite P. cbn [app]. destruct fuel as [|fuel]; [lia|].
    cbn [decode_x12 rd cnt]. replace (x =? UNLATCH) with false by (symmetry; apply N.eqb_neq; exact NU).
    rewrite T. cbn [bind]. rewrite Da, Db, Dd.
    cbn [length] in Hf. destruct (IH Or fuel tail (c + 2) (out ++ [a; b; d])) as (f' & E & R); [lia|].
    exists f'. split.
    + cbn [length]. change (S (S (S (length r)))) with (3 + length r)%nat.
      replace (3 + length r)%nat with (length r + 1 * 3)%nat by lia. rewrite Nat.div_add by lia. lia.
    + rewrite R. cbn [length]. f_equal; [f_equal; lia|]. rewrite <- app_assoc. reflexivity.
Qed.

(* the run with its terminator; what follows is either the rest of the symbol (after Unlatch) or at most one codeword *)
Definition not_unlatch_single (tail : list N) : Prop := match tail with [x] => x <> 254 | _ => True end.
Definition short_tail (tail : list N) : Prop := match tail with [] => True | [x] => x <> 254 | _ => False end.

Lemma pack_len3 vals : N.of_nat (length vals) mod 3 = 0 -> (length (pack_vals vals) * 3 = length vals * 2)%nat.
Proof.
  intros M. pattern vals. apply (fun P p0 p3 => @list_ind3 N P p0 p3 vals M); [reflexivity|].
  intros a b c r IH. cbn [pack_vals]. unfold pack3. cbv zeta. cbn [app length]. lia.
Qed.

Lemma x12_segment chars t tail : forallb x12_ok chars = true -> N.of_nat (length chars) mod 3 = 0 ->
  (match t with TUnlatch => not_unlatch_single tail | TEnd => short_tail tail end) ->
  forall c out n, (length (pack_vals (map x12_v chars) ++ term_cw t ++ tail) < n)%nat ->
  exists r', decode_x12 n (mkrd (pack_vals (map x12_v chars) ++ term_cw t ++ tail) c) out = Ok (r', Ascii, out ++ chars) /\
             after_break r' = mkrd tail (c + N.of_nat (length (pack_vals (map x12_v chars) ++ term_cw t))).
Proof.
  intros OK M HT c out n Hn.
  pose proof (pack_len3 (map x12_v chars)) as PL. rewrite map_length in PL. specialize (PL M).
  rewrite app_length in Hn.
  destruct (x12_run chars OK M n (term_cw t ++ tail) c out ltac:(lia)) as (f' & Ef & R). rewrite R. clear R.
  assert (1 <= f')%nat as F1.
  { assert (length chars / 3 * 3 <= length chars)%nat by (rewrite Nat.mul_comm; apply Nat.mul_div_le; lia).
    assert (length chars / 3 < n)%nat; [|lia]. apply Nat.div_lt_upper_bound; lia. }
  destruct f' as [|f']; [lia|]. rewrite app_length, Nat2N.inj_add, N.add_assoc.
  set (c' := c + N.of_nat (length (pack_vals (map x12_v chars)))).
  destruct t; cbn [term_cw app length].
  - destruct tail as [|y tl].
    + cbn [decode_x12 rd cnt]. change (254 =? UNLATCH) with true. cbv iota. eexists. split; [reflexivity|]. reflexivity.
    + cbn [decode_x12 rd cnt]. change (254 =? UNLATCH) with true. cbv iota. eexists. split; [reflexivity|].
      unfold after_break. cbn [rd cnt]. destruct tl as [|z tl']; [|reflexivity].
      cbn in HT. replace (y =? UNLATCH) with false by (symmetry; apply N.eqb_neq; exact HT). reflexivity.
  - rewrite N.add_0_r. destruct tail as [|y [|z tl]]; cbn in HT; try contradiction.
    + cbn [decode_x12 rd]. eexists. split; reflexivity.
    + cbn [decode_x12 rd]. replace (y =? UNLATCH) with false by (symmetry; apply N.eqb_neq; exact HT).
      eexists. split; [reflexivity|]. unfold after_break. cbn [rd].
      replace (y =? UNLATCH) with false by (symmetry; apply N.eqb_neq; exact HT). reflexivity.
Qed.

(* ---------- C40 / Text ---------- *)
Fixpoint run_vals (mb ms3 : list N) (vals : list N) (shift : N) (upper : bool) (out : list N) : R (N * bool * list N) :=
  match vals with
  | [] => Ok (shift, upper, out)
  | v :: r => let* (su, o) := c40_value mb ms3 v shift upper out in run_vals mb ms3 r (fst su) (snd su) o
  end.

Definition tabs (text : bool) : list N * list N :=
  if text then (dec_BASE_TEXT, dec_SHIFT3_TEXT) else (dec_BASE_C40, dec_SHIFT3_C40).

(* the state machine only ever appends to the output *)
Lemma c40_value_out mb ms3 v s u out :
  c40_value mb ms3 v s u out =
  match c40_value mb ms3 v s u [] with Ok (su, o) => Ok (su, out ++ o) | Err e => Err e | Panic p => Panic p end.
Proof.
  unfold c40_value.
  destruct (s =? 0).
  { destruct (v <=? 2); [now rewrite app_nil_r|]. destruct (v <=? 39); [|reflexivity].
    destruct (get mb _) as [t| |]; cbn [bind]; try reflexivity.
    destruct u; [destruct (add_u8 t 128); cbn [bind]; reflexivity|reflexivity]. }
  destruct (s =? 1).
  { destruct (v <=? 31); [|reflexivity]. destruct u; [destruct (add_u8 v 128); cbn [bind]; reflexivity|reflexivity]. }
  destruct (s =? 2).
  { destruct (v <=? 26).
    { destruct (get dec_SHIFT2 _) as [t| |]; cbn [bind]; try reflexivity.
      destruct u; [destruct (add_u8 t 128); cbn [bind]; reflexivity|reflexivity]. }
    destruct (v =? 27); [reflexivity|]. destruct (v =? 30); [now rewrite app_nil_r|reflexivity]. }
  destruct (v <=? 31); [|reflexivity].
  destruct (get ms3 _) as [t| |]; cbn [bind]; try reflexivity.
  destruct u; [destruct (add_u8 t 128); cbn [bind]; reflexivity|reflexivity].
Qed.

Lemma run_vals_out mb ms3 vals : forall s u out,
  run_vals mb ms3 vals s u out =
  match run_vals mb ms3 vals s u [] with Ok (su, o) => Ok (su, out ++ o) | Err e => Err e | Panic p => Panic p end.
Proof.
  induction vals as [|v r IH]; intros s u out; cbn [run_vals]; [destruct s, u; now rewrite app_nil_r|].
  rewrite (c40_value_out mb ms3 v s u out).
  destruct (c40_value mb ms3 v s u []) as [[[s1 u1] o1]| |]; cbn [bind fst snd]; try reflexivity.
  rewrite (IH s1 u1 (out ++ o1)), (IH s1 u1 o1).
  destruct (run_vals mb ms3 r s1 u1 []) as [[[s2 u2] o2]| |]; try reflexivity. now rewrite app_assoc.
Qed.

Lemma run_vals_app mb ms3 l1 : forall l2 s u out,
  run_vals mb ms3 (l1 ++ l2) s u out =
  (let* (su, o) := run_vals mb ms3 l1 s u out in run_vals mb ms3 l2 (fst su) (snd su) o).
Proof.
  induction l1 as [|v r IH]; intros l2 s u out; cbn [app run_vals bind fst snd]; [reflexivity|].
  destruct (c40_value mb ms3 v s u out) as [[[s1 u1] o1]| |]; cbn [bind fst snd]; try reflexivity. apply IH.
Qed.

Fixpoint leqb (l1 l2 : list N) : bool :=
  match l1, l2 with [], [] => true | a :: r1, b :: r2 => (a =? b) && leqb r1 r2 | _, _ => false end.
Lemma leqb_eq l1 : forall l2, leqb l1 l2 = true -> l1 = l2.
Proof. induction l1 as [|a r IH]; intros [|b r2] H; cbn in H; try discriminate; [reflexivity|].
  apply andb_true_iff in H. destruct H as [E H]. apply N.eqb_eq in E. subst. f_equal. now apply IH. Qed.

Definition char_ok (text : bool) (ch : N) : bool :=
  forallb (fun v => v <? 40) (c40_vals text ch) &&
  match run_vals (fst (tabs text)) (snd (tabs text)) (c40_vals text ch) 0 false [] with
  | Ok (s, u, o) => (s =? 0) && negb u && leqb o [ch]
  | _ => false
  end.
Lemma c40_sweep : forallb (char_ok false) (map N.of_nat (seq 0 256)) = true /\ forallb (char_ok true) (map N.of_nat (seq 0 256)) = true.
Proof. split; vm_compute; reflexivity. Qed.

Lemma c40_char text ch out : ch < 256 ->
  Forall (fun v => v < 40) (c40_vals text ch) /\
  run_vals (fst (tabs text)) (snd (tabs text)) (c40_vals text ch) 0 false out = Ok (0, false, out ++ [ch]).
Proof.
  intros H. assert (char_ok text ch = true) as C.
  { destruct c40_sweep as [S0 S1]. assert (In ch (map N.of_nat (seq 0 256))) as I.
    { apply in_map_iff. exists (N.to_nat ch). split; [lia|apply in_seq; lia]. }
    destruct text; [rewrite forallb_forall in S1; exact (S1 ch I)|rewrite forallb_forall in S0; exact (S0 ch I)]. }
  unfold char_ok in C. apply andb_true_iff in C. destruct C as [V Rn]. split.
  - apply Forall_forall. intros v Hv. rewrite forallb_forall in V. apply N.ltb_lt. exact (V v Hv).
  - rewrite run_vals_out. destruct (run_vals _ _ _ 0 false []) as [[[s u] o]| |]; try discriminate.
    rewrite !andb_true_iff in Rn. destruct Rn as [[A B] C]. apply N.eqb_eq in A. apply negb_true_iff in B.
    apply leqb_eq in C. subst. reflexivity.
Qed.

Lemma c40_chars text chars : bytes_ok chars = true -> forall out,
  Forall (fun v => v < 40) (flat_map (c40_vals text) chars) /\
  run_vals (fst (tabs text)) (snd (tabs text)) (flat_map (c40_vals text) chars) 0 false out = Ok (0, false, out ++ chars).
Proof.
  induction chars as [|ch r IH]; intros OK out; cbn [flat_map].
  - split; [constructor|]. cbn. now rewrite app_nil_r.
  - cbn [bytes_ok forallb] in OK. apply andb_true_iff in OK. destruct OK as [Oc Or]. apply N.ltb_lt in Oc.
    destruct (c40_char text ch out Oc) as [V1 R1]. destruct (IH Or (out ++ [ch])) as [V2 R2].
    split; [apply Forall_app; split; assumption|].
    rewrite run_vals_app, R1. cbn [bind fst snd]. rewrite R2, <- app_assoc. reflexivity.
Qed.

Lemma c40_run_state text chars fill : bytes_ok chars = true -> forall out,
  Forall (fun v => v < 40) (c40_run_vals text chars fill) /\
  exists s u, run_vals (fst (tabs text)) (snd (tabs text)) (c40_run_vals text chars fill) 0 false out = Ok (s, u, out ++ chars).
Proof.
  intros OK out. unfold c40_run_vals. destruct (c40_chars text chars OK out) as [V R]. split.
  - apply Forall_app. split; [exact V|]. destruct fill as [|[|[|[|[|[|[|fill]]]]]]]; cbn [fill_vals]; repeat constructor; lia.
  - rewrite run_vals_app, R. cbn [bind fst snd]. destruct fill as [|[|[|[|[|[|[|fill]]]]]]]; cbn; eexists; eexists; reflexivity.
Qed.

(* the packed values drive the decoder's state machine exactly like the flat value list *)
Lemma c40_run mb ms3 vals : N.of_nat (length vals) mod 3 = 0 -> Forall (fun v => v < 40) vals ->
  forall fuel tail c s u out s' u' o', (length vals < 3 * fuel)%nat ->
  run_vals mb ms3 vals s u out = Ok (s', u', o') ->
  exists fuel', (fuel' + length vals / 3 = fuel)%nat /\
  decode_c40_like fuel mb ms3 (mkrd (pack_vals vals ++ tail) c) s u out =
  decode_c40_like fuel' mb ms3 (mkrd tail (c + N.of_nat (length (pack_vals vals)))) s' u' o'.
Proof.
  intros M. pattern vals. apply (fun P p0 p3 => @list_ind3 N P p0 p3 vals M); clear vals M.
  - intros _ fuel tail c s u out s' u' o' Hf R. cbn in R. inversion R; subst. exists fuel.
    cbn. rewrite N.add_0_r, Nat.add_0_r. split; reflexivity.
  - intros a b d r IH V fuel tail c s u out s' u' o' Hf R.
    inversion V as [|? ? Ha V1]; subst. inversion V1 as [|? ? Hb V2]; subst. inversion V2 as [|? ? Hd V3]; subst.
    destruct (tuple_inverse _ _ _ Ha Hb Hd) as (x & y & P & T & NU).
    cbn [pack_vals]. rewrite P. cbn [app]. destruct fuel as [|fuel]; [lia|].
    cbn [decode_c40_like rd cnt]. replace (x =? UNLATCH) with false by (symmetry; apply N.eqb_neq; exact NU).
    rewrite T. cbn [bind]. cbn [run_vals] in R.
    destruct (c40_value mb ms3 a s u out) as [[[s1 u1] o1]| |]; cbn [bind fst snd] in *; try discriminate.
    destruct (c40_value mb ms3 b s1 u1 o1) as [[[s2 u2] o2]| |]; cbn [bind fst snd] in *; try discriminate.
    destruct (c40_value mb ms3 d s2 u2 o2) as [[[s3 u3] o3]| |]; cbn [bind fst snd] in *; try discriminate.
    cbn [length] in Hf. destruct (IH V3 fuel tail (c + 2) s3 u3 o3 s' u' o' ltac:(lia) R) as (f' & E & R').
    exists f'. split.
    + cbn [length]. change (S (S (S (length r)))) with (3 + length r)%nat.
      replace (3 + length r)%nat with (length r + 1 * 3)%nat by lia. rewrite Nat.div_add by lia. lia.
    + rewrite R'. cbn [length]. do 2 f_equal. lia.
Qed.

Lemma c40_segment text chars fill t tail : segment_ok (SC40 text chars fill t) = true ->
  (match t with TUnlatch => not_unlatch_single tail | TEnd => short_tail tail end) ->
  forall c out n, (length (pack_vals (c40_run_vals text chars fill) ++ term_cw t ++ tail) < n)%nat ->
  decode_c40_like n (fst (tabs text)) (snd (tabs text)) (mkrd (pack_vals (c40_run_vals text chars fill) ++ term_cw t ++ tail) c) 0 false out
  = Ok (mkrd tail (c + N.of_nat (length (pack_vals (c40_run_vals text chars fill) ++ term_cw t))), Ascii, out ++ chars).
Proof.
  cbn [segment_ok]. rewrite andb_true_iff, N.eqb_eq. intros [OK M] HT c out n Hn.
  destruct (c40_run_state text chars fill OK out) as [V (s' & u' & R)].
  set (vals := c40_run_vals text chars fill) in *.
  pose proof (pack_len3 vals M) as PL. rewrite app_length in Hn.
  destruct (c40_run (fst (tabs text)) (snd (tabs text)) vals M V n (term_cw t ++ tail) c 0 false out s' u' (out ++ chars) ltac:(lia) R)
    as (f' & Ef & R'). rewrite R'. clear R'.
  assert (1 <= f')%nat as F1.
  { assert (length vals / 3 * 3 <= length vals)%nat by (rewrite Nat.mul_comm; apply Nat.mul_div_le; lia).
    assert (length vals / 3 < n)%nat; [|lia]. apply Nat.div_lt_upper_bound; lia. }
  destruct f' as [|f']; [lia|]. rewrite app_length, Nat2N.inj_add, N.add_assoc.
  set (c' := c + N.of_nat (length (pack_vals vals))).
  destruct t; cbn [term_cw app length].
  - destruct tail as [|y tl].
    + cbn [decode_c40_like rd cnt]. change (254 =? UNLATCH) with true. cbv iota. reflexivity.
    + cbn [decode_c40_like rd cnt]. change (254 =? UNLATCH) with true. cbv iota.
      unfold after_break. cbn [rd cnt]. destruct tl as [|z tl']; [|reflexivity].
      cbn in HT. replace (y =? UNLATCH) with false by (symmetry; apply N.eqb_neq; exact HT). reflexivity.
  - rewrite N.add_0_r. destruct tail as [|y [|z tl]]; cbn in HT; try contradiction.
    + cbn [decode_c40_like rd]. reflexivity.
    + cbn [decode_c40_like rd]. replace (y =? UNLATCH) with false by (symmetry; apply N.eqb_neq; exact HT). reflexivity.
Qed.
