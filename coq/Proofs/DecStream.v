(* Proofs/DecStream.v -- property C04 for the ASCII / Base256 / padding fragment of ISO/IEC 16022: every stream
   rendered from a legal script (Spec/Stream16022.v) -- any segmentation chosen by the encoder, digit pairs or single
   digits, explicit or run-to-the-end Base256 fields, any amount of padding -- is decoded by the model of
   decode_data to exactly the bytes of the script. *)
From Coq Require Import Arith NArith List Bool Lia.
From DM Require Import Generated.ModeTables Generated.Charsets Model.Outcome Model.Dec Spec.Stream16022.
Import ListNotations.
Local Open Scope N_scope.

Ltac ndm a b := let H := fresh in pose proof (N.mod_lt a b ltac:(lia)) as H.

(* the randomisers are undone by the decoder's de-randomisers, at every position *)
Lemma derand255 ch pos : ch < 256 -> derandomize_255_state (rand255 ch pos) pos = ch.
Proof.
  intros H. unfold derandomize_255_state, rand255. cbv zeta. ndm (149 * pos) 255.
  set (pr := (149 * pos) mod 255 + 1) in *.
  destruct (N.leb_spec (ch + pr) 255).
  - destruct (N.leb_spec pr (ch + pr)); lia.
  - destruct (N.leb_spec pr (ch + pr - 256)); lia.
Qed.
Lemma derand253_pad pos : derandomize_253_state (rand253 129 pos) pos = 129.
Proof.
  unfold derandomize_253_state, rand253. cbv zeta. ndm (149 * pos) 253.
  set (pr := (149 * pos) mod 253 + 1) in *.
  destruct (N.leb_spec (129 + pr) 254).
  - destruct (N.leb_spec (pr + 1) (129 + pr)); lia.
  - destruct (N.leb_spec (pr + 1) (129 + pr - 254)); lia.
Qed.
Lemma rand255_byte ch pos : ch < 256 -> rand255 ch pos < 256.
Proof. intros H. unfold rand255. cbv zeta. ndm (149 * pos) 255. destruct (N.leb_spec (ch + ((149 * pos) mod 255 + 1)) 255); lia. Qed.

Lemma check_padding_rpad n : forall c, check_padding (rpad c n) c = Ok (mkrd [] (c + N.of_nat n)).
Proof.
  induction n as [|n IH]; intros c; cbn [rpad check_padding].
  - now rewrite N.add_0_r.
  - rewrite derand253_pad. change (129 =? ascii_PAD) with true. cbv iota. rewrite IH. do 2 f_equal. lia.
Qed.

(* what follows a mode segment: the rest of the loop *)
Definition cont (f : nat) (res : reader * EncodationType * list N * list (N * N)) : R (list N * list (N * N)) :=
  let '(rm, out', ecis') := res in let (r', mode') := rm in decode_loop f r' mode' out' ecis'.

Lemma loop_ascii_unfold f l c out e : decode_loop (S f) (mkrd l c) Ascii out e =
  match l with [] => Ok (out, e) | _ => let* res := decode_ascii (S (length l)) (mkrd l c) false out e in cont f res end.
Proof. destruct l; reflexivity. Qed.

(* one ASCII item *)
Lemma ascii_item i : aitem_ok i = true -> forall n tail c out e, (length (aitem_cw i ++ tail) < n)%nat ->
  decode_ascii n (mkrd (aitem_cw i ++ tail) c) false out e =
  decode_ascii (n - length (aitem_cw i)) (mkrd tail (c + N.of_nat (length (aitem_cw i)))) false (out ++ aitem_data i) e.
Proof.
  intros OK n tail c out e Hn. destruct i as [b|d1 d2|b]; cbn [aitem_ok aitem_cw aitem_data app length] in *.
  - apply N.ltb_lt in OK. destruct n as [|n]; [lia|]. cbn [decode_ascii rd cnt andb].
    destruct (N.leb_spec 1 (b + 1)); [|lia]. destruct (N.leb_spec (b + 1) 128); [|lia]. cbn [andb negb].
    replace (b + 1 - 1) with b by lia. replace (S n - 1)%nat with n by lia. reflexivity.
  - unfold is_dig in OK. rewrite !andb_true_iff, !N.leb_le in OK. destruct n as [|n]; [lia|]. cbn [decode_ascii rd cnt andb].
    set (v := 130 + (10 * (d1 - 48) + (d2 - 48))).
    destruct (N.leb_spec v 128); [unfold v in *; lia|]. rewrite andb_false_r. cbn [negb andb].
    replace (v =? ascii_PAD) with false by (symmetry; apply N.eqb_neq; unfold v, ascii_PAD; lia).
    destruct (N.leb_spec 130 v); [|unfold v in *; lia]. destruct (N.leb_spec v 229); [|unfold v in *; lia]. cbn [andb].
    replace (S n - 1)%nat with n by lia. do 2 f_equal.
    unfold v. replace (130 + (10 * (d1 - 48) + (d2 - 48)) - 130) with ((d2 - 48) + (d1 - 48) * 10) by lia.
    rewrite N.div_add by lia. rewrite N.div_small by lia. rewrite N.mod_add by lia. rewrite N.mod_small by lia.
    f_equal; [lia|f_equal; lia].
  - rewrite andb_true_iff, N.leb_le, N.ltb_lt in OK. destruct n as [|[|n]]; [lia|lia|].
    cbn [decode_ascii rd cnt andb negb].
    change (235 <=? 128) with false. rewrite andb_false_r. cbn [negb andb].
    change (235 =? ascii_PAD) with false. change ((130 <=? 235) && (235 <=? 229)) with false.
    change (235 =? ascii_LATCH_C40) with false. change (235 =? ascii_LATCH_BASE256) with false.
    change (235 =? ascii_FNC1) with false. change (235 =? 233) with false. change (235 =? 234) with false.
    change (235 =? ascii_UPPER_SHIFT) with true. cbv iota.
    destruct (N.leb_spec 1 (b - 127)); [|lia]. destruct (N.leb_spec (b - 127) 128); [|lia]. cbn [andb negb].
    unfold add_u8. destruct (N.ltb_spec (b - 127 + 127) 256); [|lia]. cbn [bind].
    replace (b - 127 + 127) with b by lia. replace (S (S n) - 2)%nat with n by lia.
    replace (c + 1 + 1) with (c + N.of_nat 2) by lia. reflexivity.
Qed.

Lemma ascii_items items : forallb aitem_ok items = true -> forall n tail c out e,
  (length (flat_map aitem_cw items ++ tail) < n)%nat ->
  decode_ascii n (mkrd (flat_map aitem_cw items ++ tail) c) false out e =
  decode_ascii (n - length (flat_map aitem_cw items)) (mkrd tail (c + N.of_nat (length (flat_map aitem_cw items)))) false
    (out ++ flat_map aitem_data items) e.
Proof.
  induction items as [|i r IH]; intros OK n tail c out e Hn; cbn [flat_map app length] in *.
  - rewrite Nat.sub_0_r, N.add_0_r, app_nil_r. reflexivity.
  - apply andb_true_iff in OK. destruct OK as [Oi Or]. rewrite <- app_assoc in *.
    rewrite (ascii_item i Oi) by exact Hn. rewrite app_length in Hn.
    rewrite IH by (try exact Or; lia). rewrite !app_length, Nat2N.inj_add, <- app_assoc.
    f_equal; [lia|f_equal; lia].
Qed.

(* Base256: the bytes come back *)
Lemma take_base256_run bytes : forallb (fun b => b <? 256) bytes = true -> forall tail c out,
  take_base256 (length bytes) (rand255_run bytes (c + 1) ++ tail) c out = Ok (mkrd tail (c + N.of_nat (length bytes)), out ++ bytes).
Proof.
  induction bytes as [|b r IH]; intros OK tail c out; cbn [length take_base256 rand255_run app forallb] in *.
  - now rewrite N.add_0_r, app_nil_r.
  - apply andb_true_iff in OK. destruct OK as [Ob Or]. apply N.ltb_lt in Ob.
    rewrite derand255 by exact Ob. rewrite IH by exact Or. rewrite <- app_assoc. do 2 f_equal. f_equal. lia.
Qed.

Lemma rand255_run_app l1 l2 p : rand255_run (l1 ++ l2) p = rand255_run l1 p ++ rand255_run l2 (p + N.of_nat (length l1)).
Proof.
  revert p; induction l1 as [|x r IH]; intros p; cbn [rand255_run app length]; [now rewrite N.add_0_r|].
  rewrite IH. do 3 f_equal. lia.
Qed.
Lemma rand255_run_length l p : length (rand255_run l p) = length l.
Proof. revert p; induction l as [|x r IH]; intros p; cbn [rand255_run length]; [reflexivity|now rewrite IH]. Qed.

Lemma base256_explicit bytes : segment_ok (SB256 bytes) = true -> forall tail c out,
  decode_base256 (mkrd (rand255_run (len_field (N.of_nat (length bytes)) ++ bytes) (c + 1) ++ tail) c) out =
  Ok (mkrd tail (c + N.of_nat (length (len_field (N.of_nat (length bytes)) ++ bytes))), Ascii, out ++ bytes).
Proof.
  cbn [segment_ok]. rewrite !andb_true_iff, !N.leb_le. intros [[OB L1] L2] tail c out.
  set (n := N.of_nat (length bytes)) in *. unfold len_field. destruct (N.ltb_spec n 250) as [S|Lg].
  - cbn [app rand255_run]. unfold decode_base256. cbn [rd cnt]. rewrite derand255 by lia.
    destruct (N.eqb_spec n 0); [lia|]. destruct (N.ltb_spec n 250); [|lia]. cbn [bind].
    unfold n. rewrite Nat2N.id. rewrite take_base256_run by exact OB. cbn [bind app length]. replace (c + N.of_nat (Datatypes.S (length bytes))) with (c + 1 + N.of_nat (length bytes)) by lia. reflexivity.
  - assert (n / 250 < 7) as Q by (apply N.div_lt_upper_bound; lia). ndm n 250.
    pose proof (N.div_mod n 250 ltac:(lia)) as DM.
    set (q := n / 250) in *. set (m := n mod 250) in *.
    cbn [app rand255_run]. unfold decode_base256. cbn [rd cnt].
    rewrite derand255 by lia.
    destruct (N.eqb_spec (q + 249) 0); [lia|]. destruct (N.ltb_spec (q + 249) 250); [lia|].
    replace (c + 1 + 1) with (c + 2) by lia. rewrite derand255 by lia. cbn [bind].
    replace (250 * (q + 249 - 249) + m) with n by lia.
    unfold n. rewrite Nat2N.id. replace (c + 2) with (c + 1 + 1) by lia.
    rewrite take_base256_run by exact OB. cbn [bind app length]. replace (c + N.of_nat (Datatypes.S (Datatypes.S (length bytes)))) with (c + 1 + 1 + N.of_nat (length bytes)) by lia. reflexivity.
Qed.

Lemma base256_to_end bytes : bytes_ok bytes = true -> forall c out,
  decode_base256 (mkrd (rand255_run (0 :: bytes) (c + 1)) c) out = Ok (mkrd [] (c + 1 + N.of_nat (length bytes)), Ascii, out ++ bytes).
Proof.
  intros OB c out. cbn [rand255_run]. unfold decode_base256. cbn [rd cnt]. rewrite derand255 by lia.
  cbn [N.eqb bind]. rewrite rand255_run_length, Nat2N.id.
  pose proof (take_base256_run bytes OB [] (c + 1) out) as T. rewrite app_nil_r in T. rewrite T. reflexivity.
Qed.

