(* Proofs/DecScript.v -- property C04: composition of the per-mode decoding lemmas along a legal script. *)
From Coq Require Import Arith NArith List Bool Lia.
From DM Require Import Generated.ModeTables Generated.Charsets Model.Outcome Model.Dec Spec.Stream16022 Proofs.DecStream Proofs.DecStreamC40 Proofs.DecStreamEdi.
Import ListNotations.
Local Open Scope N_scope.

(* ---------- composition along the script ---------- *)
Definition tailS (before : N) (segs : list segment) (npad : nat) : list N :=
  let body := render before segs in body ++ pad (before + N.of_nat (length body)) npad.

Lemma tailS_cons before s r npad :
  tailS before (s :: r) npad = segment_cw before s ++ tailS (before + N.of_nat (length (segment_cw before s))) r npad.
Proof.
  unfold tailS. cbn [render]. cbv zeta. rewrite <- app_assoc. do 2 f_equal. rewrite app_length, Nat2N.inj_add. f_equal. lia.
Qed.

Lemma loop_ascii_B f l c out e : (1 <= f)%nat ->
  decode_loop (S f) (mkrd l c) Ascii out e = (let* res := decode_ascii (S (length l)) (mkrd l c) false out e in cont f res).
Proof. intros Hf. destruct l as [|x l]; [|reflexivity]. cbn. destruct f; [lia|reflexivity]. Qed.

Lemma loop_b256_unfold f l c out e : l <> [] ->
  decode_loop (S f) (mkrd l c) Base256 out e =
  (let* (rm, o) := decode_base256 (mkrd l c) out in let (r', m') := rm in decode_loop f r' m' o e).
Proof.
  intros NE. destruct l as [|x l]; [congruence|]. cbn [decode_loop rd].
  destruct (decode_base256 _ out) as [[[r' m'] o]| |]; reflexivity.
Qed.

Lemma loop_x12_unfold f l c out e : l <> [] ->
  decode_loop (S f) (mkrd l c) X12 out e =
  (let* (rm, o) := decode_x12 (S (length l)) (mkrd l c) out in let (r1, m1) := rm in decode_loop f (after_break r1) m1 o e).
Proof.
  intros NE. destruct l as [|x l]; [congruence|]. cbn [decode_loop rd].
  destruct (decode_x12 _ _ out) as [[[r' m'] o]| |]; reflexivity.
Qed.

Lemma loop_c40_unfold (text : bool) f l c out e : l <> [] ->
  decode_loop (S f) (mkrd l c) (if text then Text else C40) out e =
  (let* (rm, o) := decode_c40_like (S (length l)) (fst (tabs text)) (snd (tabs text)) (mkrd l c) 0 false out in
   let (r1, m1) := rm in decode_loop f r1 m1 o e).
Proof.
  intros NE. destruct l as [|x l]; [congruence|]. destruct text; cbn [decode_loop rd tabs fst snd];
  destruct (decode_c40_like _ _ _ _ 0 false out) as [[[r' m'] o]| |]; reflexivity.
Qed.

Lemma loop_edi_unfold f l c out e : l <> [] ->
  decode_loop (S f) (mkrd l c) Edifact out e =
  (let* (rm, o) := decode_edifact (S (length l)) (mkrd l c) out in let (r1, m1) := rm in decode_loop f r1 m1 o e).
Proof.
  intros NE. destruct l as [|x l]; [congruence|]. cbn [decode_loop rd].
  destruct (decode_edifact _ _ out) as [[[r' m'] o]| |]; reflexivity.
Qed.

(* the number of codewords of a rendering does not depend on the position *)
Lemma segment_cw_length b1 b2 s : length (segment_cw b1 s) = length (segment_cw b2 s).
Proof. destruct s; cbn [segment_cw length]; rewrite ?rand255_run_length; reflexivity. Qed.
Lemma render_length segs : forall b1 b2, length (render b1 segs) = length (render b2 segs).
Proof.
  induction segs as [|s r IH]; intros b1 b2; cbn [render]; [reflexivity|]. cbv zeta.
  rewrite !app_length, (segment_cw_length b1 b2 s). f_equal. apply IH.
Qed.
Lemma rpad_length b n : length (rpad b n) = n.
Proof. revert b; induction n as [|n IH]; intros b; cbn [rpad length]; [reflexivity|now rewrite IH]. Qed.
Lemma pad_length b n : length (pad b n) = n.
Proof. destruct n; cbn [pad length]; [reflexivity|now rewrite rpad_length]. Qed.
Lemma tailS_length before r npad : length (tailS before r npad) = rest_len r npad.
Proof. unfold tailS, rest_len. cbv zeta. rewrite app_length, pad_length, (render_length r before 0). reflexivity. Qed.

Lemma ascii_fuel n : forall n' l c us out e, (length l < n)%nat -> (length l < n')%nat ->
  decode_ascii n (mkrd l c) us out e = decode_ascii n' (mkrd l c) us out e.
Proof.
  induction n as [|n IH]; intros n' l c us out e H H'; [lia|]. destruct n' as [|n']; [lia|].
  cbn [decode_ascii rd cnt]. destruct l as [|ch t]; [reflexivity|]. cbn [length] in *.
  assert (forall us o e2, decode_ascii n (mkrd t (c + 1)) us o e2 = decode_ascii n' (mkrd t (c + 1)) us o e2) as T
    by (intros; apply IH; lia).
  destruct (us && negb _); [reflexivity|]. destruct ((1 <=? ch) && (ch <=? 128)).
  { destruct us; [destruct (add_u8 ch 127); cbn [bind]; auto|auto]. }
  destruct (ch =? ascii_PAD); [reflexivity|]. destruct ((130 <=? ch) && (ch <=? 229)); [apply T|].
  destruct (ch =? ascii_LATCH_C40); [reflexivity|]. destruct (ch =? ascii_LATCH_BASE256); [reflexivity|].
  destruct (ch =? ascii_FNC1); [apply T|]. destruct (ch =? 233); [reflexivity|]. destruct (ch =? 234); [reflexivity|].
  destruct (ch =? ascii_UPPER_SHIFT); [apply T|]. destruct (ch =? ascii_LATCH_X12); [reflexivity|].
  destruct (ch =? ascii_LATCH_TEXT); [reflexivity|]. destruct (ch =? ascii_LATCH_EDIFACT); [reflexivity|].
  destruct (ch =? ascii_ECI); [|reflexivity].
  unfold read_eci. cbn [rd cnt]. destruct t as [|c1 t1]; [reflexivity|]. cbn [length] in *.
  destruct ((1 <=? c1) && (c1 <=? 127)); cbn [bind]; [apply IH; lia|].
  destruct ((128 <=? c1) && (c1 <=? 191)).
  { destruct t1 as [|c2 t2]; [reflexivity|]. destruct (negb (in_1_254 c2)); [reflexivity|]. cbn [bind length] in *. apply IH; lia. }
  destruct ((192 <=? c1) && (c1 <=? 207)); [|reflexivity].
  destruct t1 as [|c2 t2]; [reflexivity|]. destruct (negb (in_1_254 c2)); [reflexivity|].
  destruct t2 as [|c3 t3]; [reflexivity|]. destruct (negb (in_1_254 c3)); [reflexivity|]. cbn [bind length] in *. apply IH; lia.
Qed.

(* the first codeword of what a script renders is never a Macro codeword, FNC1 or Unlatch *)
Lemma tailS_head segs : forall npad before, script_ok segs npad = true ->
  match tailS before segs npad with [] => True | c :: _ => c <> 236 /\ c <> 237 /\ c <> 232 /\ c <> 254 end.
Proof.
  induction segs as [|s r IH]; intros npad before OK.
  - unfold tailS. cbn [render app]. destruct npad; cbn [pad]; [exact I|lia].
  - rewrite tailS_cons. destruct s as [items|bytes|bytes|text chars fill t|chars t|chars t]; cbn [script_ok term_of] in OK.
    + rewrite !andb_true_iff in OK. destruct OK as [[Os Or] _].
      cbn [segment_cw]. destruct items as [|i items]; cbn [flat_map app].
      * apply IH. exact Or.
      * cbn [segment_ok forallb] in Os. apply andb_true_iff in Os. destruct Os as [Oi _].
        destruct i as [b|d1 d2|b]; cbn [aitem_cw app aitem_ok] in *.
        -- apply N.ltb_lt in Oi. lia.
        -- unfold is_dig in Oi. rewrite !andb_true_iff, !N.leb_le in Oi. lia.
        -- lia.
    + cbn [segment_cw app]. lia.
    + cbn [segment_cw app]. lia.
    + cbn [segment_cw app]. destruct text; lia.
    + cbn [segment_cw app]. lia.
    + cbn [segment_cw app]. lia.
Qed.

Lemma single_item_tail i : aitem_ok i = true -> single_cw i = true -> exists x, aitem_cw i = [x] /\ x <> 254.
Proof.
  destruct i as [b|d1 d2|b]; cbn [aitem_ok single_cw aitem_cw]; intros OK S; try discriminate.
  - apply N.ltb_lt in OK. eexists; split; [reflexivity|lia].
  - unfold is_dig in OK. rewrite !andb_true_iff, !N.leb_le in OK. eexists; split; [reflexivity|lia].
Qed.

(* what may follow a C40/Text/X12 run, as the per-mode lemmas need it *)
Lemma term_tail t r npad before : script_ok r npad = true ->
  (match t with TEnd => ends_symbol r npad = true | TUnlatch => True end) ->
  match t with TUnlatch => not_unlatch_single (tailS before r npad) | TEnd => short_tail (tailS before r npad) end.
Proof.
  intros OK HE. pose proof (tailS_head r npad before OK) as HD. destruct t.
  - unfold not_unlatch_single. destruct (tailS before r npad) as [|x [|y l]]; auto. lia.
  - unfold ends_symbol in HE. apply andb_true_iff in HE. destruct HE as [RL HR]. apply Nat.leb_le in RL. unfold rest_len in RL.
    destruct r as [|[items| | | | |] [|s2 r2]]; try discriminate.
    + unfold tailS. cbn [render app length]. destruct npad as [|[|k]]; cbn [pad rpad] in *; [exact I|cbn; lia|cbn [length] in RL; lia].
    + destruct items as [|i [|i2 it]]; try discriminate. apply andb_true_iff in HR. destruct HR as [Oi Si].
      destruct (single_item_tail i Oi Si) as (x & E & NX).
      cbn [render segment_cw flat_map] in RL. cbv zeta in RL. rewrite !app_nil_r, E in RL. cbn [length] in RL.
      assert (npad = 0)%nat as -> by lia.
      unfold tailS. cbn [render segment_cw flat_map app pad length]. rewrite E. cbn. exact NX.
    + exfalso. destruct items as [|i [|i2 it]]; discriminate.
Qed.

Lemma script_main segs : forall npad, script_ok segs npad = true -> forall before out f n,
  (length (tailS before segs npad) < n)%nat -> (2 * length (tailS before segs npad) < f)%nat ->
  (let* res := decode_ascii n (mkrd (tailS before segs npad) before) false out [] in cont f res) = Ok (out ++ meaning segs, []).
Proof.
  induction segs as [|s r IH]; intros npad OK before out f n Hn Hf.
  - unfold tailS, meaning in *. cbn [render app length flat_map] in *. rewrite N.add_0_r in *. rewrite app_nil_r.
    destruct n as [|n]; [lia|]. destruct f as [|f]; [lia|].
    destruct npad as [|k]; cbn [pad].
    + reflexivity.
    + cbn [decode_ascii rd cnt andb]. change ((1 <=? 129) && (129 <=? 128)) with false. cbn [negb andb].
      change (129 =? ascii_PAD) with true. cbv iota. rewrite check_padding_rpad. reflexivity.
  - rewrite tailS_cons in *. unfold meaning. cbn [flat_map]. fold (meaning r). rewrite app_assoc.
    destruct s as [items|bytes|bytes|text chars fill t|chars t|chars t].
    + (* ASCII segment *)
      cbn [script_ok term_of] in OK. rewrite !andb_true_iff in OK. destruct OK as [[Os Or] _]. cbn [segment_ok] in Os.
      cbn [segment_cw segment_data] in *. rewrite ascii_items by (try exact Os; exact Hn).
      rewrite app_length in Hn, Hf. apply IH; [exact Or|lia|lia].
    + (* Base256 with an explicit length *)
      cbn [script_ok term_of] in OK. rewrite !andb_true_iff in OK. destruct OK as [[Os Or] _].
      cbn [segment_cw segment_data] in *. cbn [app length] in Hn, Hf.
      destruct n as [|n]; [lia|]. cbn [app decode_ascii rd cnt andb].
      change ((1 <=? 231) && (231 <=? 128)) with false. cbn [negb andb].
      change (231 =? ascii_PAD) with false. change ((130 <=? 231) && (231 <=? 229)) with false.
      change (231 =? ascii_LATCH_C40) with false. change (231 =? ascii_LATCH_BASE256) with true. cbv iota. cbn [bind cont].
      destruct f as [|f]; [lia|].
      set (run := rand255_run _ _) in *.
      assert (run <> []) as NE.
      { unfold run, len_field. destruct (_ <? 250); discriminate. }
      rewrite loop_b256_unfold by (destruct run; [congruence|discriminate]).
      unfold run. replace (before + 2) with (before + 1 + 1) by lia.
      rewrite (base256_explicit bytes Os). cbn [bind].
      unfold run in Hn, Hf. rewrite app_length, rand255_run_length in Hn, Hf.
      cbn [length]. rewrite rand255_run_length.
      replace (before + N.of_nat (S (length (len_field (N.of_nat (length bytes)) ++ bytes))))
        with (before + 1 + N.of_nat (length (len_field (N.of_nat (length bytes)) ++ bytes))) in * by lia.
      set (before' := before + 1 + _) in *.
      assert (1 <= length (len_field (N.of_nat (length bytes)) ++ bytes))%nat as L1.
      { rewrite app_length. unfold len_field. destruct (_ <? 250); cbn; lia. }
      destruct f as [|f]; [lia|]. rewrite loop_ascii_B by lia.
      apply IH; [exact Or|lia|lia].
    + (* Base256 running to the end of the symbol *)
      cbn [script_ok] in OK. apply andb_true_iff in OK. destruct OK as [Os Or].
      destruct r as [|s' r']; [|discriminate]. apply Nat.eqb_eq in Or. subst npad.
      unfold tailS in *. cbn [render app length pad segment_cw segment_data meaning flat_map] in *. rewrite !app_nil_r in *.
      destruct n as [|n]; [lia|]. cbn [decode_ascii rd cnt andb].
      change ((1 <=? 231) && (231 <=? 128)) with false. cbn [negb andb].
      change (231 =? ascii_PAD) with false. change ((130 <=? 231) && (231 <=? 229)) with false.
      change (231 =? ascii_LATCH_C40) with false. change (231 =? ascii_LATCH_BASE256) with true. cbv iota. cbn [bind cont].
      destruct f as [|f]; [lia|]. rewrite loop_b256_unfold by discriminate.
      replace (before + 2) with (before + 1 + 1) by lia.
      pose proof (base256_to_end bytes Os (before + 1) out) as B. rewrite B. cbn [bind].
      destruct f as [|f]; [cbn [length] in Hf; lia|]. reflexivity.
    + (* C40 / Text run *)
      cbn [script_ok term_of] in OK. rewrite !andb_true_iff in OK. destruct OK as [[Os Or] OT].
      pose proof (term_tail t r npad (before + N.of_nat (length (segment_cw before (SC40 text chars fill t)))) Or
                    ltac:(destruct t; [exact I|exact OT])) as HT.
      cbn [segment_cw segment_data] in *. cbn [app length] in Hn, Hf.
      set (body := pack_vals (c40_run_vals text chars fill) ++ term_cw t) in *. cbn [app length].
      set (tl := tailS (before + N.of_nat (S (length body))) r npad) in *.
      cbn [app].
      assert (decode_ascii n (mkrd ((if text then 239 else 230) :: body ++ tl) before) false out [] =
              Ok (mkrd (body ++ tl) (before + 1), (if text then Text else C40), out, [])) as ->.
      { destruct n as [|n]; [lia|]. destruct text; reflexivity. }
      cbn [bind cont]. destruct f as [|f]; [lia|].
      assert (body ++ tl = [] \/ body ++ tl <> []) as [EB|NEB] by (destruct (body ++ tl); [left; reflexivity|right; discriminate]).
      { (* nothing after the latch: the symbol ends here *)
        rewrite EB. apply app_eq_nil in EB. destruct EB as [EB ET]. unfold body in EB. apply app_eq_nil in EB. destruct EB as [EP ETm].
        assert (chars = []) as ->.
        { cbn [segment_ok] in Os. apply andb_true_iff in Os. destruct Os as [OB M]. apply N.eqb_eq in M.
          pose proof (pack_len3 _ M) as PL. rewrite EP in PL. cbn [length] in PL.
          unfold c40_run_vals in PL. rewrite app_length in PL. destruct chars as [|ch chs]; [reflexivity|].
          exfalso. cbn [flat_map] in PL. rewrite app_length in PL.
          cbn [bytes_ok forallb] in OB. apply andb_true_iff in OB. destruct OB as [OC _]. apply N.ltb_lt in OC.
          destruct (c40_char text ch [] OC) as [_ RV]. destruct (c40_vals text ch); [cbn in RV; discriminate|cbn [length] in PL; lia]. }
        destruct t; [discriminate|]. unfold ends_symbol in OT. apply andb_true_iff in OT. destruct OT as [RL HR].
        assert (npad = 0)%nat as ->.
        { assert (length tl = 0)%nat as L0 by (rewrite ET; reflexivity). unfold tl in L0. rewrite tailS_length in L0. unfold rest_len in L0. lia. }
        destruct r as [|s2 r2].
        - destruct text; cbn; now rewrite !app_nil_r.
        - exfalso. destruct s2 as [items| | | | |]; try discriminate. destruct items as [|i [|i2 it]]; try discriminate.
          destruct r2; [|discriminate]. apply andb_true_iff in HR. destruct HR as [Oi Si].
          destruct (single_item_tail i Oi Si) as (x & E & _). unfold tl, tailS in ET. cbn [render segment_cw flat_map app] in ET.
          rewrite E in ET. discriminate. }
      rewrite loop_c40_unfold by exact NEB.
      unfold body. rewrite <- app_assoc.
      rewrite (c40_segment text chars fill t tl Os HT (before + 1) out (S (length (pack_vals (c40_run_vals text chars fill) ++ term_cw t ++ tl))) ltac:(lia)).
      cbn [bind]. fold body.
      replace (before + 1 + N.of_nat (length body)) with (before + N.of_nat (S (length body))) by lia.
      assert (1 <= length (body ++ tl))%nat as L1 by (destruct (body ++ tl); [congruence|cbn; lia]).
      rewrite !app_length in Hn, Hf, L1.
      destruct f as [|f]; [lia|]. rewrite loop_ascii_B by lia.
      unfold tl in *. apply IH; [exact Or|lia|lia].
    + (* X12 run *)
      cbn [script_ok term_of] in OK. rewrite !andb_true_iff in OK. destruct OK as [[Os Or] OT].
      pose proof (term_tail t r npad (before + N.of_nat (length (segment_cw before (SX12 chars t)))) Or
                    ltac:(destruct t; [exact I|exact OT])) as HT.
      cbn [segment_cw segment_data] in *. cbn [app length] in Hn, Hf.
      set (body := pack_vals (map x12_v chars) ++ term_cw t) in *. cbn [app length].
      set (tl := tailS (before + N.of_nat (S (length body))) r npad) in *.
      cbn [app].
      assert (decode_ascii n (mkrd (238 :: body ++ tl) before) false out [] =
              Ok (mkrd (body ++ tl) (before + 1), X12, out, [])) as ->.
      { destruct n as [|n]; [lia|]. reflexivity. }
      cbn [bind cont]. destruct f as [|f]; [lia|].
      cbn [segment_ok] in Os. apply andb_true_iff in Os. destruct Os as [OX M]. apply N.eqb_eq in M.
      assert (body ++ tl = [] \/ body ++ tl <> []) as [EB|NEB] by (destruct (body ++ tl); [left; reflexivity|right; discriminate]).
      { rewrite EB. apply app_eq_nil in EB. destruct EB as [EB ET]. unfold body in EB. apply app_eq_nil in EB. destruct EB as [EP ETm].
        assert (chars = []) as ->.
        { pose proof (pack_len3 (map x12_v chars)) as PL. rewrite map_length in PL. specialize (PL M). rewrite EP in PL.
          cbn [length] in PL. destruct chars; [reflexivity|cbn [length] in PL; lia]. }
        destruct t; [discriminate|]. unfold ends_symbol in OT. apply andb_true_iff in OT. destruct OT as [RL HR].
        assert (npad = 0)%nat as ->.
        { assert (length tl = 0)%nat as L0 by (rewrite ET; reflexivity). unfold tl in L0. rewrite tailS_length in L0. unfold rest_len in L0. lia. }
        destruct r as [|s2 r2].
        - cbn. now rewrite !app_nil_r.
        - exfalso. destruct s2 as [items| | | | |]; try discriminate. destruct items as [|i [|i2 it]]; try discriminate.
          destruct r2; [|discriminate]. apply andb_true_iff in HR. destruct HR as [Oi Si].
          destruct (single_item_tail i Oi Si) as (x & E & _). unfold tl, tailS in ET. cbn [render segment_cw flat_map app] in ET.
          rewrite E in ET. discriminate. }
      rewrite loop_x12_unfold by exact NEB.
      unfold body. rewrite <- app_assoc.
      destruct (x12_segment chars t tl OX M HT (before + 1) out (S (length (pack_vals (map x12_v chars) ++ term_cw t ++ tl))) ltac:(lia))
        as (r' & DX & AB).
      rewrite DX. cbn [bind]. rewrite AB. fold body.
      replace (before + 1 + N.of_nat (length body)) with (before + N.of_nat (S (length body))) by lia.
      assert (1 <= length (body ++ tl))%nat as L1 by (destruct (body ++ tl); [congruence|cbn; lia]).
      rewrite !app_length in Hn, Hf, L1.
      destruct f as [|f]; [lia|]. rewrite loop_ascii_B by lia.
      unfold tl in *. apply IH; [exact Or|lia|lia].
    + (* EDIFACT run *)
      cbn [script_ok] in OK. rewrite !andb_true_iff in OK. destruct OK as [[Os Or] OT].
      cbn [segment_ok] in Os. apply andb_true_iff in Os. destruct Os as [OE M].
      cbn [segment_cw segment_data] in *. cbn [app length] in Hn, Hf.
      set (body := pack_edi (edi_vals chars t)) in *. cbn [app length].
      set (tl := tailS (before + N.of_nat (S (length body))) r npad) in *.
      assert (edi_tail_ok t (length chars) tl) as HT.
      { unfold edi_tail_ok, tl. rewrite tailS_length. destruct t.
        - apply Nat.leb_le in OT. exact OT.
        - unfold ends_symbol2 in OT. apply andb_true_iff in OT. destruct OT as [RL _]. apply Nat.leb_le in RL. exact RL. }
      assert (decode_ascii n (mkrd (240 :: body ++ tl) before) false out [] =
              Ok (mkrd (body ++ tl) (before + 1), Edifact, out, [])) as ->.
      { destruct n as [|n]; [lia|]. reflexivity. }
      cbn [bind cont]. destruct f as [|f]; [lia|].
      assert (body ++ tl = [] \/ body ++ tl <> []) as [EB|NEB] by (destruct (body ++ tl); [left; reflexivity|right; discriminate]).
      { rewrite EB. apply app_eq_nil in EB. destruct EB as [EP ET]. unfold body in EP. apply pack_edi_nil in EP.
        destruct EP as [-> ->]. unfold ends_symbol2 in OT. apply andb_true_iff in OT. destruct OT as [RL HR].
        assert (npad = 0)%nat as ->.
        { assert (length tl = 0)%nat as L0' by (rewrite ET; reflexivity). unfold tl in L0'. rewrite tailS_length in L0'. unfold rest_len in L0'. lia. }
        destruct r as [|s2 r2].
        - cbn. now rewrite !app_nil_r.
        - assert (length tl = 0)%nat as L0 by (rewrite ET; reflexivity). unfold tl in L0. rewrite tailS_length in L0.
          unfold rest_len in L0. rewrite Nat.add_0_r in L0.
          destruct s2 as [items| | | | |]; try discriminate. destruct r2; [|destruct items; discriminate].
          cbn [render segment_cw] in L0. cbv zeta in L0. rewrite app_nil_r in L0.
          assert (items = []) as -> by (destruct items as [|[b|d1 d2|b] it]; [reflexivity|cbn in L0; lia..]).
          cbn. now rewrite !app_nil_r. }
      rewrite loop_edi_unfold by exact NEB.
      pose proof (pack_edi_len chars t) as PL. fold body in PL.
      unfold body.
      rewrite (edi_segment chars t tl (S (length (pack_edi (edi_vals chars t) ++ tl))) (before + 1) out OE
                 ltac:(destruct t; [exact I|apply N.eqb_eq; exact M]) HT ltac:(rewrite app_length; fold body; lia)).
      cbn [bind]. fold body.
      replace (before + 1 + N.of_nat (length body)) with (before + N.of_nat (S (length body))) by lia.
      assert (1 <= length (body ++ tl))%nat as L1 by (destruct (body ++ tl); [congruence|cbn; lia]).
      rewrite !app_length in Hn, Hf, L1.
      destruct f as [|f]; [lia|]. rewrite loop_ascii_B by lia.
      unfold tl in *. apply IH; [exact Or|lia|lia].
Qed.

Theorem decode_script segs npad : script_ok segs npad = true -> decode_data (stream segs npad) = Ok (meaning segs).
Proof.
  intros OK. assert (stream segs npad = tailS 0 segs npad) as -> by (unfold stream, tailS; now rewrite N.add_0_l).
  unfold decode_data, decode_parts.
  pose proof (tailS_head segs npad 0 OK) as HD.
  set (data := tailS 0 segs npad) in *.
  assert ((match data with
           | c :: t => if c =? MACRO05 then (mkrd t 1, MACRO05_HEAD, true)
                       else if c =? MACRO06 then (mkrd t 1, MACRO06_HEAD, true) else (mkrd data 0, [], false)
           | [] => (mkrd data 0, [], false) end) = (mkrd data 0, [], false)) as ->.
  { destruct data as [|c t]; [reflexivity|]. destruct HD as (A & B & _ & _).
    replace (c =? MACRO05) with false by (symmetry; apply N.eqb_neq; exact A).
    replace (c =? MACRO06) with false by (symmetry; apply N.eqb_neq; exact B). reflexivity. }
  cbn [negb andb rd].
  assert ((match data with
           | c :: t => if c =? ascii_FNC1 then (mkrd t (cnt (mkrd data 0) + 1), true) else (mkrd data 0, false)
           | [] => (mkrd data 0, false) end) = (mkrd data 0, false)) as ->.
  { destruct data as [|c t]; [reflexivity|]. destruct HD as (_ & _ & C & _).
    replace (c =? ascii_FNC1) with false by (symmetry; apply N.eqb_neq; exact C). reflexivity. }
  cbn [rd]. replace (2 * length data + 2)%nat with (S (2 * length data + 1)) by lia.
  rewrite loop_ascii_B by lia. unfold data.
  rewrite (script_main segs npad OK 0 [] (2 * length (tailS 0 segs npad) + 1) (S (length (tailS 0 segs npad)))) by lia.
  reflexivity.
Qed.

(* ---------- Macro 05/06 and FNC1 in first position ---------- *)
Definition stream_with (prefix : N) (segs : list segment) (npad : nat) : list N := prefix :: tailS 1 segs npad.

Lemma loop_from_1 segs npad out : script_ok segs npad = true ->
  decode_loop (2 * length (tailS 1 segs npad) + 2) (mkrd (tailS 1 segs npad) 1) Ascii out [] = Ok (out ++ meaning segs, []).
Proof.
  intros OK. replace (2 * length (tailS 1 segs npad) + 2)%nat with (S (2 * length (tailS 1 segs npad) + 1)) by lia.
  rewrite loop_ascii_B by lia.
  exact (script_main segs npad OK 1 out (2 * length (tailS 1 segs npad) + 1) (S (length (tailS 1 segs npad))) ltac:(lia) ltac:(lia)).
Qed.

Theorem decode_script_macro segs npad m head : (m = MACRO05 /\ head = MACRO05_HEAD) \/ (m = MACRO06 /\ head = MACRO06_HEAD) ->
  script_ok segs npad = true -> decode_data (stream_with m segs npad) = Ok (head ++ meaning segs ++ MACRO_TRAIL).
Proof.
  intros HM OK. unfold stream_with, decode_data, decode_parts.
  assert ((if m =? MACRO05 then (mkrd (tailS 1 segs npad) 1, MACRO05_HEAD, true)
           else if m =? MACRO06 then (mkrd (tailS 1 segs npad) 1, MACRO06_HEAD, true)
           else (mkrd (m :: tailS 1 segs npad) 0, [], false)) = (mkrd (tailS 1 segs npad) 1, head, true)) as ->.
  { destruct HM as [[-> ->]|[-> ->]]; reflexivity. }
  cbn [negb andb rd cnt].
  pose proof (tailS_head segs npad 1 OK) as HD.
  assert ((match tailS 1 segs npad with
           | c :: t => if c =? ascii_FNC1 then (mkrd t (1 + 1), true) else (mkrd (tailS 1 segs npad) 1, false)
           | [] => (mkrd (tailS 1 segs npad) 1, false) end) = (mkrd (tailS 1 segs npad) 1, false)) as ->.
  { destruct (tailS 1 segs npad) as [|c t]; [reflexivity|]. destruct HD as (_ & _ & C & _).
    replace (c =? ascii_FNC1) with false by (symmetry; apply N.eqb_neq; exact C). reflexivity. }
  cbn [rd]. rewrite (loop_from_1 segs npad head OK). cbn [bind p_eci_spans p_output]. now rewrite app_assoc.
Qed.

Theorem decode_script_fnc1 segs npad : script_ok segs npad = true ->
  decode_data (stream_with ascii_FNC1 segs npad) = Ok (meaning segs).
Proof.
  intros OK. unfold stream_with, decode_data, decode_parts.
  change (ascii_FNC1 =? MACRO05) with false. change (ascii_FNC1 =? MACRO06) with false. cbv iota.
  cbn [negb andb rd cnt]. change (ascii_FNC1 =? ascii_FNC1) with true. cbv iota. cbn [rd N.add].
  rewrite (loop_from_1 segs npad [] OK). reflexivity.
Qed.
