(* Proofs/EncAC.v -- the data layer for every plan that uses only ASCII and C40, or only ASCII and Text (in particular: every plan
   the optimiser can return when only these modes are enabled, C13): whatever the switch positions, if the encoder returns at
   all, its output is the rendering of a legal script of Spec/Stream16022.v followed by standard padding; hence (C04) the
   decoder returns the input.  The structure follows Proofs/EncAB.v and Proofs/EncAX.v; the work is in the end of a run: the
   values pending when the run ends are flushed with Shift 2 / Upper Shift padding, or re-read as ASCII (cases b-d of the
   standard's end-of-data rules), which leaves the already written shift values of the last character as a legal "fill". *)
From Coq Require Import Arith NArith List Bool Lia.
From DM Require Import Generated.Symbols Generated.ModeTables Model.Outcome Model.SymbolList Model.Planner Model.PlannerRun Model.Eci Model.Enc
  Model.Dec Model.Api Spec.Stream16022 Proofs.SymbolListProofs Proofs.EncLocal Proofs.EncTop Proofs.EncAscii
  Proofs.DecStream Proofs.DecStreamC40 Proofs.DecStreamEdi Proofs.DecScript Proofs.PlanShape Proofs.EncAB Proofs.EncAX Proofs.EncAllTotal.
Import ListNotations.
Local Open Scope N_scope.

Section OneMode.
Variable text : bool.
Let M : EncodationType := if text then Text else C40.
Let L : N := if text then 239 else 230.
Lemma ML : et_latch_from_ascii M = Some L.
Proof. unfold M, L. destruct text; reflexivity. Qed.
Lemma MA : M <> Ascii.
Proof. unfold M. destruct text; discriminate. Qed.

Definition ac_mode (m : EncodationType) : Prop := m = Ascii \/ m = M.
Definition ac_plan (p : list (N * EncodationType)) : Prop := Forall (fun e => ac_mode (snd e)) p.

(* maybe_switch_mode: what can happen *)
Lemma msm_cases_ac e sw e' : maybe_switch_mode e = Ok (sw, e') -> ac_plan (e_planned e) ->
  e_data e' = e_data e /\ e_cw e' = e_cw e /\ same_env e e' /\ ac_plan (e_planned e') /\
  ((sw = false /\ e_encodation e' = e_encodation e /\ e_new_mode e' = e_new_mode e) \/
   (sw = true /\ e_data e <> [] /\ ac_mode (e_encodation e') /\ e_encodation e' <> e_encodation e /\
    e_new_mode e' = match et_latch_from_ascii (e_encodation e') with Some l => Some l | None => e_new_mode e end)).
Proof.
  unfold maybe_switch_mode. destruct (e_planned e) as [|[p0 m0] rest] eqn:EP; [discriminate|]. intros H AB.
  destruct (negb (p0 <=? chars_left e)); [discriminate|].
  apply Forall_cons_iff in AB. destruct AB as [AB0 ABr]. cbn [snd] in AB0.
  destruct ((0 <? chars_left e) && (chars_left e =? p0)) eqn:C.
  - destruct (negb (et_eqb m0 (e_encodation e))) eqn:SW.
    + assert (e_data e <> []) as ND.
      { apply andb_true_iff in C. destruct C as [C _]. apply N.ltb_lt in C. unfold chars_left in C. destruct (e_data e); [cbn in C; lia|discriminate]. }
      assert (m0 <> e_encodation e) as NE.
      { intros ->. apply negb_true_iff in SW. unfold et_eqb in SW. rewrite N.eqb_refl in SW. discriminate. }
      destruct (et_latch_from_ascii m0) as [l|] eqn:EL; inversion H; subst; cbn [e_data e_cw e_planned e_encodation e_new_mode];
        (split; [reflexivity|]); (split; [reflexivity|]); (split; [repeat split|]); (split; [exact ABr|]); right;
        rewrite EL; repeat split; assumption.
    + inversion H; subst; cbn [e_data e_cw e_planned e_encodation e_new_mode].
      split; [reflexivity|]. split; [reflexivity|]. split; [repeat split|]. split; [exact ABr|]. left. repeat split.
  - rewrite (proj2 (N.eqb_eq _ _) eq_refl : et_eqb (e_encodation e) (e_encodation e) = true) in H. cbn [negb] in H.
    inversion H; subst; cbn [e_data e_cw e_planned e_encodation e_new_mode].
    split; [reflexivity|]. split; [reflexivity|]. split; [repeat split|]. split; [constructor; assumption|]. left. repeat split.
Qed.

(* an ASCII run: up to the next planned switch, or to the end of the data *)
Lemma ascii_run_ac : forall fuel e e', e_encodation e = Ascii -> bytes_ok (e_data e) = true -> ac_plan (e_planned e) ->
  ascii_encode fuel e = Ok e' ->
  exists items, forallb aitem_ok items = true /\ e_cw e' = e_cw e ++ flat_map aitem_cw items /\
    e_data e = flat_map aitem_data items ++ e_data e' /\ same_env e e' /\ ac_plan (e_planned e') /\
    ((e_encodation e' = Ascii /\ e_data e' = [] /\ e_new_mode e' = e_new_mode e) \/
     (e_encodation e' = M /\ e_new_mode e' = Some L /\ e_data e' <> [])).
Proof.
  induction fuel as [|f IH]; intros e e' EA OK AB H; cbn [ascii_encode] in H; [discriminate|].
  destruct (maybe_switch_mode e) as [[sw e1]| |] eqn:MS; cbn [bind] in H; try discriminate.
  destruct (msm_cases_ac e sw e1 MS AB) as (D1 & C1 & EV1 & AB1 & CASE).
  destruct CASE as [(-> & EN1 & NM1)|(-> & ND & ABM & NE & NM1)].
  - (* no switch: one item *)
    assert (forall e2 it, aitem_ok it = true -> e_cw e2 = e_cw e1 ++ aitem_cw it -> e_data e1 = aitem_data it ++ e_data e2 ->
              same_env e1 e2 -> e_planned e2 = e_planned e1 -> e_encodation e2 = Ascii -> e_new_mode e2 = e_new_mode e1 ->
              ascii_encode f e2 = Ok e' -> exists items, forallb aitem_ok items = true /\ e_cw e' = e_cw e ++ flat_map aitem_cw items /\
                e_data e = flat_map aitem_data items ++ e_data e' /\ same_env e e' /\ ac_plan (e_planned e') /\
                ((e_encodation e' = Ascii /\ e_data e' = [] /\ e_new_mode e' = e_new_mode e) \/
                 (e_encodation e' = M /\ e_new_mode e' = Some L /\ e_data e' <> []))) as STEP.
    { intros e2 it OKI CW2 DA2 EV2 PL2 EA2 NM2 H2.
      assert (bytes_ok (e_data e2) = true) as OK2.
      { rewrite <- D1, DA2 in OK. apply bytes_ok_app in OK. apply OK. }
      destruct (IH e2 e' EA2 OK2 ltac:(rewrite PL2; exact AB1) H2) as (items & I1 & I2 & I3 & I4 & I5 & I6).
      exists (it :: items). cbn [forallb flat_map]. rewrite OKI, I1. split; [reflexivity|].
      split; [rewrite I2, CW2, C1, <- app_assoc; reflexivity|].
      split; [rewrite <- D1, DA2, I3, <- app_assoc; reflexivity|].
      split; [exact (same_env_trans _ _ _ EV1 (same_env_trans _ _ _ EV2 I4))|]. split; [exact I5|].
      rewrite NM2, NM1 in I6. exact I6. }
    rewrite <- D1 in OK.
    destruct (e_data e1) as [|a [|b t]] eqn:ED.
    + inversion H; subst e'. exists []. cbn [forallb flat_map app]. rewrite app_nil_r.
      split; [reflexivity|]. split; [exact C1|]. split; [rewrite ED; symmetry; exact D1|]. split; [exact EV1|]. split; [exact AB1|].
      left. rewrite EN1, NM1. repeat split; [exact EA|exact ED].
    + apply bytes_ok_cons in OK. destruct OK as [Ba _].
      destruct (N.leb_spec a 127) as [LE|GT].
      * refine (STEP _ (AChar a) _ _ _ _ _ _ _ H); [cbn; apply N.ltb_lt; lia|reflexivity|reflexivity|repeat split|reflexivity|cbn; rewrite EN1; exact EA|reflexivity].
      * refine (STEP _ (AUpper a) _ _ _ _ _ _ _ H); [cbn; apply andb_true_iff; split; [apply N.leb_le; lia|apply N.ltb_lt; exact Ba]| |reflexivity|repeat split|reflexivity|cbn; rewrite EN1; exact EA|reflexivity].
        cbn [push set_cw e_cw set_data aitem_cw]. rewrite <- app_assoc. cbn [app]. replace (a - 128 + 1) with (a - 127) by lia. reflexivity.
    + apply bytes_ok_cons in OK. destruct OK as [Ba OKb].
      destruct (is_digit a && is_digit b) eqn:DG.
      * refine (STEP _ (APair a b) _ _ _ _ _ _ _ H); [cbn; unfold is_digit in DG; unfold is_dig; exact DG| |reflexivity|repeat split|reflexivity|cbn; rewrite EN1; exact EA|reflexivity].
        cbn [push set_cw e_cw set_data aitem_cw]. f_equal. f_equal. lia.
      * destruct (N.leb_spec a 127) as [LE|GT].
        -- refine (STEP _ (AChar a) _ _ _ _ _ _ _ H); [cbn; apply N.ltb_lt; lia|reflexivity|reflexivity|repeat split|reflexivity|cbn; rewrite EN1; exact EA|reflexivity].
        -- refine (STEP _ (AUpper a) _ _ _ _ _ _ _ H); [cbn; apply andb_true_iff; split; [apply N.leb_le; lia|apply N.ltb_lt; exact Ba]| |reflexivity|repeat split|reflexivity|cbn; rewrite EN1; exact EA|reflexivity].
           cbn [push set_cw e_cw set_data aitem_cw]. rewrite <- app_assoc. cbn [app]. replace (a - 128 + 1) with (a - 127) by lia. reflexivity.
  - (* switch *)
    inversion H; subst e'. exists []. cbn [forallb flat_map]. rewrite app_nil_r.
    split; [reflexivity|]. split; [exact C1|]. split; [symmetry; exact D1|]. split; [exact EV1|]. split; [exact AB1|].
    right. destruct ABM as [A|B]; [rewrite A, EA in NE; contradiction|].
    rewrite B, ML in NM1. split; [exact B|]. split; [exact NM1|]. rewrite D1. exact ND.
Qed.


(* ---- the value tables: the encoder's to_vals is the standard's value function ---- *)
Fixpoint list_eqb (a b : list N) : bool :=
  match a, b with [], [] => true | x :: a', y :: b' => (x =? y) && list_eqb a' b' | _, _ => false end.
Lemma list_eqb_eq a : forall b, list_eqb a b = true -> a = b.
Proof.
  induction a as [|x a IH]; intros [|y b] H; cbn [list_eqb] in H; try discriminate; [reflexivity|].
  apply andb_true_iff in H. destruct H as [H1 H2]. apply N.eqb_eq in H1. subst y. f_equal. apply IH. exact H2.
Qed.

Definition vals_row (t : bool) (ch : N) : bool :=
  match to_vals t [] ch with Ok l => list_eqb l (c40_vals t ch) | _ => false end.
Lemma vals_table : forallb (fun ch => vals_row false ch && vals_row true ch) (map N.of_nat (seq 0 256)) = true.
Proof. vm_compute. reflexivity. Qed.

Lemma to_vals_nil t ch : ch < 256 -> to_vals t [] ch = Ok (c40_vals t ch).
Proof.
  intros H. pose proof (proj1 (forallb_forall _ _) vals_table ch) as T.
  assert (In ch (map N.of_nat (seq 0 256))) as HI by (apply in_map_iff; exists (N.to_nat ch); split; [lia|apply in_seq; lia]).
  specialize (T HI). cbv beta in T. apply andb_true_iff in T. destruct T as [T1 T2]. unfold vals_row in *.
  destruct t; [destruct (to_vals true [] ch) as [l| |]; try discriminate; apply list_eqb_eq in T2; rewrite T2; reflexivity|
               destruct (to_vals false [] ch) as [l| |]; try discriminate; apply list_eqb_eq in T1; rewrite T1; reflexivity].
Qed.

Lemma to_vals_app t buf ch buf1 : ch < 256 -> to_vals t buf ch = Ok buf1 -> buf1 = buf ++ c40_vals t ch.
Proof.
  intros H E. pose proof (to_vals_nil t ch H) as E0. unfold to_vals in *.
  destruct (ch <=? 127).
  - destruct (low_ascii t ch) as [v| |]; cbn [bind] in *; try discriminate E0. cbn [app] in E0.
    destruct (6 <? length v)%nat; [discriminate E0|]. inversion E0; subst v.
    destruct (6 <? length (buf ++ c40_vals t ch))%nat; [discriminate E|]. inversion E. reflexivity.
  - destruct (low_ascii t (ch - 128)) as [v| |]; cbn [bind] in *; try discriminate E0. cbn [app] in E0.
    destruct (6 <? length (c40_SHIFT2 :: c40_UPPER_SHIFT :: v))%nat; [discriminate E0|]. injection E0 as E1. rewrite <- E1.
    destruct (6 <? length (buf ++ c40_SHIFT2 :: c40_UPPER_SHIFT :: v))%nat; [discriminate E|]. inversion E. reflexivity.
Qed.

(* what is left of the values of a character when its last value is taken away is a legal fill *)
Definition fill_row (t : bool) (ch : N) : bool :=
  existsb (fun f => list_eqb (removelast (c40_vals t ch)) (fill_vals f)) (seq 0 8) && negb (match c40_vals t ch with [] => true | _ => false end).
Lemma fill_table : forallb (fun ch => fill_row false ch && fill_row true ch) (map N.of_nat (seq 0 256)) = true.
Proof. vm_compute. reflexivity. Qed.

Lemma vals_fill t ch : ch < 256 -> exists f x, c40_vals t ch = fill_vals f ++ [x].
Proof.
  intros H. pose proof (proj1 (forallb_forall _ _) fill_table ch) as T.
  assert (In ch (map N.of_nat (seq 0 256))) as HI by (apply in_map_iff; exists (N.to_nat ch); split; [lia|apply in_seq; lia]).
  specialize (T HI). cbv beta in T. apply andb_true_iff in T. destruct T as [T1 T2].
  assert (fill_row t ch = true) as T by (destruct t; assumption). unfold fill_row in T. apply andb_true_iff in T. destruct T as [TA TB].
  apply existsb_exists in TA. destruct TA as (f & _ & EQ). apply list_eqb_eq in EQ.
  destruct (c40_vals t ch) as [|v0 vr] eqn:EV; [discriminate|]. exists f, (last (v0 :: vr) 0). rewrite <- EQ. apply app_removelast_last. discriminate.
Qed.

(* ---- packing ---- *)
Lemma pack_vals_app3 : forall k a b, length a = (3 * k)%nat -> pack_vals (a ++ b) = pack_vals a ++ pack_vals b.
Proof.
  induction k as [|k IH]; intros a b HL.
  - destruct a; [reflexivity|cbn [length] in HL; lia].
  - destruct a as [|x [|y [|z r]]]; cbn [length] in HL; try lia. cbn [app pack_vals]. rewrite (IH r b ltac:(lia)), <- app_assoc. reflexivity.
Qed.
Lemma pack_vals_app a b : (length a mod 3 = 0)%nat -> pack_vals (a ++ b) = pack_vals a ++ pack_vals b.
Proof. intros H. apply Nat.mod_divides in H; [|lia]. destruct H as [k Hk]. exact (pack_vals_app3 k a b Hk). Qed.

Definition sbc (e e' : enc) : Prop :=
  e_data e' = e_data e /\ e_planned e' = e_planned e /\ e_encodation e' = e_encodation e /\ e_new_mode e' = e_new_mode e /\
  e_symbols e' = e_symbols e /\ e_input e' = e_input e /\ e_modes e' = e_modes e.
Lemma sbc_refl e : sbc e e. Proof. repeat split. Qed.

Lemma wtv_run e c1 c2 c3 e' : write_three_values e c1 c2 c3 = Ok e' -> sbc e e' /\ e_cw e' = e_cw e ++ pack3 c1 c2 c3.
Proof.
  unfold write_three_values. destruct (65536 <=? _); [discriminate|]. intros [= <-]. split; [repeat split|].
  cbn [e_cw push set_cw]. rewrite <- app_assoc. reflexivity.
Qed.

Lemma drain3_run : forall fuel e buf e2 buf2, drain3 fuel e buf = Ok (e2, buf2) ->
  exists w, buf = w ++ buf2 /\ (length w mod 3 = 0)%nat /\ (length buf2 < 3)%nat /\ e_cw e2 = e_cw e ++ pack_vals w /\ sbc e e2.
Proof.
  induction fuel as [|f IH]; intros e buf e2 buf2 H; cbn [drain3] in H; [discriminate|].
  destruct buf as [|a [|b [|c r]]].
  1-3: inversion H; subst; exists []; cbn [app length pack_vals]; rewrite app_nil_r; repeat split; cbn [length]; lia.
  destruct (write_three_values e a b c) as [e1| |] eqn:W; cbn [bind] in H; try discriminate.
  destruct (wtv_run _ _ _ _ _ W) as ((S1 & S2 & S3 & S4 & S5 & S6 & S7) & C1).
  destruct (IH e1 r e2 buf2 H) as (w & -> & LW & LB & CW & (T1 & T2 & T3 & T4 & T5 & T6 & T7)).
  exists (a :: b :: c :: w). split; [reflexivity|]. split; [cbn [length]; replace (S (S (S (length w)))) with (length w + 1 * 3)%nat by lia; rewrite Nat.mod_add by lia; exact LW|].
  split; [exact LB|]. split; [rewrite CW, C1; cbn [pack_vals]; rewrite <- app_assoc; reflexivity|]. repeat split; congruence.
Qed.

(* ---- a C40 / Text run up to its end: the data ends, two digits are handed back, or a planned switch ---- *)
Lemma c40_loop_run : forall fuel e buf last_ch e' buf' last',
  e_encodation e = M -> ac_plan (e_planned e) -> bytes_ok (e_data e) = true -> (exists p, e_input e = p ++ e_data e) -> (length buf < 3)%nat ->
  c40_loop fuel text e buf last_ch = Ok (e', buf', last') ->
  exists chars w,
    e_data e = chars ++ e_data e' /\ buf ++ flat_map (c40_vals text) chars = w ++ buf' /\ (length w mod 3 = 0)%nat /\ (length buf' < 3)%nat /\
    e_cw e' = e_cw e ++ pack_vals w /\ same_env e e' /\ ac_plan (e_planned e') /\ e_new_mode e' = e_new_mode e /\
    (chars <> [] -> exists c0, chars = c0 ++ [last']) /\ (chars = [] -> last' = last_ch) /\
    ((e_encodation e' = M /\ (e_data e' = [] \/ (buf' = [] /\ exists d1 d2, e_data e' = [d1; d2] /\ is_digit d1 = true /\ is_digit d2 = true))) \/
     (e_encodation e' = Ascii /\ e_data e' <> [])).
Proof.
  induction fuel as [|f IH]; intros e buf last_ch e' buf' last' EM AB OK (p & IN) LB H; cbn [c40_loop] in H; [discriminate|].
  unfold eat in H. destruct (e_data e) as [|ch t] eqn:ED.
  - inversion H; subst e' buf' last'. exists [], []. cbn [app flat_map length pack_vals]. rewrite !app_nil_r, ED.
    split; [reflexivity|]. split; [reflexivity|]. split; [reflexivity|]. split; [exact LB|]. split; [reflexivity|]. split; [apply same_env_refl|]. split; [exact AB|]. split; [reflexivity|].
    split; [intros X; contradiction|]. split; [reflexivity|]. left. split; [exact EM|left; reflexivity].
  - apply bytes_ok_cons in OK. destruct OK as [HB OKt]. cbn [e_data set_data] in H.
    destruct ((match buf with [] => true | _ :: _ => false end) && is_digit ch && (match t with [ch1] => is_digit ch1 | _ => false end)) eqn:C.
    + apply andb_true_iff in C. destruct C as [C C3]. apply andb_true_iff in C. destruct C as [C1 C2].
      destruct buf as [|? ?]; [|discriminate]. destruct t as [|ch1 [|? ?]]; [discriminate| |discriminate].
      unfold backup in H. cbn [e_input e_data set_data] in H. rewrite IN in H. rewrite app_length in H. cbn [length] in H.
      destruct ((length p + 2 <? 1)%nat || (length p + 2 - 1 <? 1)%nat) eqn:B; cbn [bind] in H; [discriminate|].
      assert (skipn (length p + 2 - 1 - 1) (p ++ [ch; ch1]) = [ch; ch1]) as SK by (replace (length p + 2 - 1 - 1)%nat with (length p) by lia; rewrite skipn_app, skipn_all, Nat.sub_diag; reflexivity). rewrite SK in H.
      inversion H; subst e' buf' last'. exists [], []. cbn [app flat_map length pack_vals e_data set_data e_cw e_planned e_new_mode e_encodation]. rewrite !app_nil_r.
      split; [reflexivity|]. split; [reflexivity|]. split; [reflexivity|]. split; [lia|]. split; [reflexivity|]. split; [repeat split|]. split; [exact AB|]. split; [reflexivity|].
      split; [intros X; contradiction|]. split; [reflexivity|]. left. split; [exact EM|]. right. split; [reflexivity|]. exists ch, ch1. repeat split; assumption.
    + destruct (to_vals text buf ch) as [buf1| |] eqn:TV; cbn [bind] in H; try discriminate.
      pose proof (to_vals_app text buf ch buf1 HB TV) as ->.
      destruct (drain3 4 (set_data e t) (buf ++ c40_vals text ch)) as [[e2 buf2]| |] eqn:DR; cbn [bind] in H; try discriminate.
      destruct (drain3_run _ _ _ _ _ DR) as (w1 & EW & LW1 & LB2 & CW2 & (S1 & S2 & S3 & S4 & S5 & S6 & S7)).
      cbn [e_data e_planned e_encodation e_new_mode e_symbols e_input e_modes e_cw set_data] in S1, S2, S3, S4, S5, S6, S7, CW2.
      destruct (maybe_switch_mode e2) as [[sw e3]| |] eqn:MS; cbn [bind] in H; try discriminate.
      destruct (msm_cases_ac e2 sw e3 MS ltac:(rewrite S2; exact AB)) as (D3 & C3 & (EV1 & EV2 & EV3) & AB3 & CASE).
      assert (same_env e e3) as EV by (repeat split; congruence).
      destruct CASE as [(-> & EN3 & NM3)|(-> & ND & ACM & NE & NM3)].
      * destruct (IH e3 buf2 ch e' buf' last' ltac:(congruence) AB3 ltac:(rewrite D3, S1; exact OKt) ltac:(exists (p ++ [ch]); rewrite EV1, S6, IN, D3, S1, <- app_assoc; reflexivity) LB2 H)
          as (chars & w & I1 & I2 & I3 & I4 & I5 & I6 & I7 & I8 & I9 & I10 & I11).
        exists (ch :: chars), (w1 ++ w). split; [cbn [app]; rewrite <- I1, D3, S1; reflexivity|].
        split; [cbn [flat_map]; rewrite app_assoc, EW, <- !app_assoc, I2; reflexivity|].
        split; [rewrite app_length, <- Nat.add_mod_idemp_l, LW1 by lia; cbn [Nat.add]; exact I3|]. split; [exact I4|].
        split; [rewrite I5, C3, CW2, pack_vals_app by exact LW1; rewrite <- app_assoc; reflexivity|]. split; [exact (same_env_trans _ _ _ EV I6)|]. split; [exact I7|].
        split; [rewrite I8, NM3, S4; reflexivity|].
        split; [intros _; destruct chars as [|c1 cr]; [exists []; rewrite (I10 eq_refl); reflexivity|destruct (I9 ltac:(discriminate)) as (c0 & E0); exists (ch :: c0); rewrite E0; reflexivity]|].
        split; [intros X; discriminate|exact I11].
      * inversion H; subst e' buf' last'. exists [ch], w1. cbn [app flat_map]. rewrite app_nil_r.
        split; [rewrite D3, S1; reflexivity|]. split; [exact EW|]. split; [exact LW1|]. split; [exact LB2|]. split; [rewrite C3; exact CW2|]. split; [exact EV|]. split; [exact AB3|].
        assert (e_encodation e3 = Ascii) as EA3 by (destruct ACM as [A|X]; [exact A|exfalso; apply NE; rewrite X, S3; symmetry; exact EM]).
        split; [rewrite NM3, EA3, S4; reflexivity|]. split; [intros _; exists []; reflexivity|]. split; [intros X; discriminate|].
        right. split; [exact EA3|rewrite D3; exact ND].
Qed.

(* ---- the end of a run ---- *)
Definition run_cw (cs : list N) (f : nat) (t : term) : list N := pack_vals (c40_run_vals text cs f) ++ term_cw t.

(* what the end of a run produces, relative to the codewords `base` before the run's values: the run covers `cs`, the characters
   `rest` are handed back to ASCII *)
Definition Out (base : list N) (e1 : enc) (chars : list N) (ex : enc) : Prop :=
  exists cs f t rest, chars = cs ++ rest /\ e_data ex = rest ++ e_data e1 /\ e_cw ex = base ++ run_cw cs f t /\
    (length (c40_run_vals text cs f) mod 3 = 0)%nat /\ same_env e1 ex /\
    ((t = TUnlatch /\ e_encodation ex = Ascii /\ e_new_mode ex = None /\ ac_plan (e_planned ex) /\ exists px, e_input ex = px ++ e_data ex) \/
     (t = TEnd /\ e_data ex = [] /\ full ex) \/
     (t = TEnd /\ e_encodation ex = Ascii /\ e_planned ex = [(0, Ascii)] /\ e_new_mode ex = None /\
      (chars_left ex <=? 2) && (ascii_encoding_size (e_data ex) =? 1) = true /\ symbol_size_left ex 1 = Some 0)).

Lemma backup_one e pre lc : e_input e = pre ++ [lc] -> e_data e = [] -> backup e 1 = Ok (set_data e [lc]).
Proof.
  intros IN ED. unfold backup. rewrite IN, ED, app_length. cbn [length].
  destruct (Nat.ltb_spec (length pre + 1) 0); [lia|]. destruct (Nat.ltb_spec (length pre + 1 - 0) 1); [lia|]. cbn [orb].
  replace (length pre + 1 - 0 - 1)%nat with (length pre) by lia. rewrite skipn_app, skipn_all, Nat.sub_diag. reflexivity.
Qed.

(* the padded flush of the pending values *)
Lemma flush_run base ms e1 chars w buf' e2 :
  flat_map (c40_vals text) chars = w ++ buf' -> (length w mod 3 = 0)%nat -> (length buf' < 3)%nat -> e_cw e1 = base ++ pack_vals w ->
  c40_flush ms e1 buf' = Ok e2 ->
  exists f, e_cw e2 = base ++ pack_vals (c40_run_vals text chars f) /\ (length (c40_run_vals text chars f) mod 3 = 0)%nat /\
    e_data e2 = e_data e1 /\ same_env e1 e2 /\ e_new_mode e2 = e_new_mode e1 /\
    ((e_encodation e2 = e_encodation e1 /\ e_planned e2 = e_planned e1) \/ (ms = false /\ e_encodation e2 = Ascii /\ e_planned e2 = [(0, Ascii)])).
Proof.
  intros V LW LB CW H. unfold c40_flush in H. unfold c40_run_vals. rewrite V.
  destruct buf' as [|x [|y [|z r]]]; [| | |cbn [length] in LB; lia].
  - inversion H; subst e2. exists 0%nat. cbn [fill_vals]. rewrite !app_nil_r. split; [exact CW|]. split; [exact LW|]. split; [reflexivity|]. split; [apply same_env_refl|].
    split; [reflexivity|]. left. split; reflexivity.
  - cbn [app length Nat.eqb] in H. destruct (write_three_values e1 x c40_SHIFT2 c40_UPPER_SHIFT) as [e'| |] eqn:W; cbn [bind] in H; try discriminate.
    destruct (wtv_run _ _ _ _ _ W) as ((S1 & S2 & S3 & S4 & S5 & S6 & S7) & C1). inversion H; subst e2. exists 2%nat. cbn [fill_vals].
    assert (pack_vals ((w ++ [x]) ++ [1; 30]) = pack_vals w ++ pack3 x 1 30) as PK by (rewrite <- app_assoc; cbn [app]; rewrite pack_vals_app by exact LW; cbn [pack_vals]; rewrite app_nil_r; reflexivity).
    split; [destruct (negb ms); cbn [e_cw set_ascii_until_end]; rewrite C1, CW, PK, <- app_assoc; reflexivity|].
    split; [rewrite !app_length; cbn [length]; replace (length w + 1 + 2)%nat with (length w + 1 * 3)%nat by lia; rewrite Nat.mod_add by lia; exact LW|].
    split; [destruct (negb ms); cbn [e_data set_ascii_until_end]; exact S1|]. split; [destruct (negb ms); repeat split; cbn [e_input e_modes e_symbols set_ascii_until_end]; assumption|].
    split; [destruct (negb ms); cbn [e_new_mode set_ascii_until_end]; exact S4|].
    destruct ms; cbn [negb]; [left; split; assumption|right; split; [reflexivity|split; reflexivity]].
  - cbn [app length Nat.eqb] in H. destruct (write_three_values e1 x y c40_SHIFT2) as [e'| |] eqn:W; cbn [bind] in H; try discriminate.
    destruct (wtv_run _ _ _ _ _ W) as ((S1 & S2 & S3 & S4 & S5 & S6 & S7) & C1). inversion H; subst e2. exists 3%nat. cbn [fill_vals].
    assert (pack_vals ((w ++ [x; y]) ++ [1]) = pack_vals w ++ pack3 x y 1) as PK by (rewrite <- app_assoc; cbn [app]; rewrite pack_vals_app by exact LW; cbn [pack_vals]; rewrite app_nil_r; reflexivity).
    split; [destruct (negb ms); cbn [e_cw set_ascii_until_end]; rewrite C1, CW, PK, <- app_assoc; reflexivity|].
    split; [rewrite !app_length; cbn [length]; replace (length w + 2 + 1)%nat with (length w + 1 * 3)%nat by lia; rewrite Nat.mod_add by lia; exact LW|].
    split; [destruct (negb ms); cbn [e_data set_ascii_until_end]; exact S1|]. split; [destruct (negb ms); repeat split; cbn [e_input e_modes e_symbols set_ascii_until_end]; assumption|].
    split; [destruct (negb ms); cbn [e_new_mode set_ascii_until_end]; exact S4|].
    destruct ms; cbn [negb]; [left; split; assumption|right; split; [reflexivity|split; reflexivity]].
Qed.

Lemma full_plus e ex k s : symbol_size_left e k = Some 0 -> symbol_for e k = Some s -> e_symbols ex = e_symbols e -> cw_len ex = cw_len e + k -> full ex.
Proof.
  intros SS SF ES CL. exists s. pose proof (full_of_left e k s SS SF) as FL. split; [|lia]. unfold symbol_for in *. rewrite ES, CL, N.add_0_r. exact SF.
Qed.

Lemma c40_end_run base e1 chars w buf' last' ex :
  flat_map (c40_vals text) chars = w ++ buf' -> (length w mod 3 = 0)%nat -> (length buf' < 3)%nat -> e_cw e1 = base ++ pack_vals w ->
  bytes_ok chars = true -> (exists p1, e_input e1 = p1 ++ chars ++ e_data e1) -> (chars <> [] -> exists c0, chars = c0 ++ [last']) ->
  e_new_mode e1 = None -> ac_plan (e_planned e1) ->
  ((e_encodation e1 = M /\ (e_data e1 = [] \/ (buf' = [] /\ exists d1 d2, e_data e1 = [d1; d2] /\ is_digit d1 = true /\ is_digit d2 = true))) \/
   (e_encodation e1 = Ascii /\ e_data e1 <> [])) ->
  c40_handle_end e1 last' buf' = Ok ex -> Out base e1 chars ex.
Proof.
  intros V LW LB CW OKC (p1 & IN) LAST NM1 AB1 END H. rewrite c40_handle_end_eq in H.
  destruct (Nat.ltb_spec 2 (length buf')); [lia|].
  assert (ac_plan [(0, Ascii)]) as AUE by (constructor; [left; reflexivity|constructor]).
  destruct (has_more e1) eqn:HM.
  - (* characters remain: a planned switch, or two digits handed back *)
    assert (e_data e1 <> []) as ND by (unfold has_more in HM; destruct (e_data e1); discriminate).
    unfold c40_early in H. rewrite HM in H. cbn [negb bind] in H.
    destruct (c40_flush true e1 buf') as [e2| |] eqn:FL; cbn [bind] in H; try discriminate.
    destruct (flush_run base true e1 chars w buf' e2 V LW LB CW FL) as (f & C2 & L2 & D2 & (EV1 & EV2 & EV3) & NM2 & MODE).
    destruct MODE as [(EN2 & PL2)|(X & _)]; [|discriminate].
    assert (exists px, e_input e2 = px ++ e_data e2) as IN2 by (exists (p1 ++ chars); rewrite EV1, IN, D2, <- app_assoc; reflexivity).
    unfold c40_tail in H. cbv zeta in H. unfold chars_left in H. rewrite D2 in H.
    destruct (N.ltb_spec 0 (N.of_nat (length (e_data e1)))) as [_|Z]; [|destruct (e_data e1); [contradiction|cbn [length] in Z; lia]].
    destruct ((N.of_nat (length (e_data e1)) =? 2) && two_digits_coming (e_data e1)) eqn:TD.
    + unfold ssl in H. destruct (symbol_size_left e2 1) as [sp|] eqn:SS; cbn [bind] in H; [|discriminate].
      destruct (N.leb_spec 1 sp) as [GE|LT]; inversion H; subst ex.
      * exists chars, f, TUnlatch, []. rewrite app_nil_r. split; [reflexivity|]. split; [cbn [e_data push set_cw set_ascii_until_end app]; exact D2|].
        split; [cbn [e_cw push set_cw set_ascii_until_end]; rewrite C2; unfold run_cw; rewrite <- app_assoc; reflexivity|]. split; [exact L2|].
        split; [repeat split; cbn [e_input e_modes e_symbols push set_cw set_ascii_until_end]; assumption|]. left.
        split; [reflexivity|]. split; [reflexivity|]. split; [cbn [e_new_mode push set_cw set_ascii_until_end]; rewrite NM2; exact NM1|]. split; [exact AUE|exact IN2].
      * assert (sp = 0) as -> by lia. exists chars, f, TEnd, []. rewrite app_nil_r. split; [reflexivity|]. split; [cbn [e_data set_ascii_until_end app]; exact D2|].
        split; [cbn [e_cw set_ascii_until_end]; rewrite C2; unfold run_cw; cbn [term_cw]; rewrite app_nil_r; reflexivity|]. split; [exact L2|].
        split; [repeat split; cbn [e_input e_modes e_symbols set_ascii_until_end]; assumption|]. right. right.
        split; [reflexivity|]. split; [reflexivity|]. split; [reflexivity|]. split; [cbn [e_new_mode set_ascii_until_end]; rewrite NM2; exact NM1|].
        split; [|exact SS]. apply andb_true_iff in TD. destruct TD as [T1 T2]. apply N.eqb_eq in T1. unfold chars_left. cbn [e_data set_ascii_until_end]. rewrite D2.
        destruct (e_data e1) as [|a [|b [|c r]]]; cbn [length] in T1; try lia. cbn [two_digits_coming] in T2. cbn [length ascii_encoding_size]. rewrite T2. reflexivity.
    + assert (e_encodation e1 = Ascii) as EA.
      { destruct END as [(_ & [Z|(_ & d1 & d2 & DD & G1 & G2)])|(A & _)]; [contradiction| |exact A].
        rewrite DD in TD. cbn [length two_digits_coming] in TD. rewrite G1, G2 in TD. discriminate. }
      inversion H; subst ex. exists chars, f, TUnlatch, []. rewrite app_nil_r. split; [reflexivity|]. split; [cbn [e_data push set_cw app]; exact D2|].
      split; [cbn [e_cw push set_cw]; rewrite C2; unfold run_cw; rewrite <- app_assoc; reflexivity|]. split; [exact L2|].
      split; [repeat split; cbn [e_input e_modes e_symbols push set_cw]; assumption|]. left.
      split; [reflexivity|]. split; [cbn [e_encodation push set_cw]; rewrite EN2; exact EA|]. split; [cbn [e_new_mode push set_cw]; rewrite NM2; exact NM1|].
      split; [cbn [e_planned push set_cw]; rewrite PL2; exact AB1|exact IN2].
  - (* the data ends with the run *)
    assert (e_data e1 = []) as ED by (unfold has_more in HM; destruct (e_data e1); [reflexivity|discriminate]).
    rewrite ED, app_nil_r in IN.
    (* no early form: padded flush, then Unlatch if there is room *)
    assert ((let* e2 := c40_flush false e1 buf' in c40_tail false e2) = Ok ex -> Out base e1 chars ex) as NONE.
    { intros HN. destruct (c40_flush false e1 buf') as [e2| |] eqn:FL; cbn [bind] in HN; try discriminate.
      destruct (flush_run base false e1 chars w buf' e2 V LW LB CW FL) as (f & C2 & L2 & D2 & (EV1 & EV2 & EV3) & NM2 & MODE).
      unfold c40_tail in HN. cbv zeta in HN. unfold chars_left in HN. rewrite D2, ED in HN. cbn [length N.of_nat N.ltb N.compare] in HN.
      unfold ssl in HN. destruct (symbol_size_left e2 0) as [sl|] eqn:SS; cbn [bind] in HN; [|discriminate].
      destruct (N.ltb_spec 0 sl) as [POS|Z]; inversion HN; subst ex.
      - exists chars, f, TUnlatch, []. rewrite app_nil_r. split; [reflexivity|]. split; [cbn [negb e_data push set_cw set_ascii_until_end app]; exact D2|].
        split; [cbn [negb e_cw push set_cw set_ascii_until_end]; rewrite C2; unfold run_cw; rewrite <- app_assoc; reflexivity|]. split; [exact L2|].
        split; [repeat split; cbn [negb e_input e_modes e_symbols push set_cw set_ascii_until_end]; assumption|]. left.
        split; [reflexivity|]. split; [reflexivity|]. split; [cbn [negb e_new_mode push set_cw set_ascii_until_end]; rewrite NM2; exact NM1|]. split; [exact AUE|].
        exists (e_input e2). cbn [negb e_input e_data push set_cw set_ascii_until_end]. rewrite D2, ED, app_nil_r. reflexivity.
      - assert (sl = 0) as -> by lia. exists chars, f, TEnd, []. rewrite app_nil_r. split; [reflexivity|]. split; [exact D2|].
        split; [rewrite C2; unfold run_cw; cbn [term_cw]; rewrite app_nil_r; reflexivity|]. split; [exact L2|]. split; [repeat split; assumption|]. right. left.
        split; [reflexivity|]. split; [rewrite D2; exact ED|].
        unfold symbol_size_left in SS. destruct (symbol_for e2 0) as [s|] eqn:SF; [|discriminate].
        apply (full_plus e2 e2 0 s); [unfold symbol_size_left; rewrite SF; exact SS|exact SF|reflexivity|lia]. }
    unfold c40_early in H. rewrite HM in H. cbn [negb] in H. unfold ssl in H.
    destruct (symbol_size_left e1 (N.of_nat (length buf'))) as [sl|] eqn:SS; cbn [bind] in H; [|discriminate].
    destruct buf' as [|x [|y [|z r]]]; [| | |cbn [length] in LB; lia].
    + cbn [length N.of_nat] in H. change (0 =? 2) with false in H. change (0 =? 1) with false in H. rewrite !andb_false_r in H. cbn [bind] in H. exact (NONE H).
    + change (N.of_nat (length [x])) with 1 in H, SS. change (1 =? 2) with false in H. change (1 =? 1) with true in H. rewrite andb_false_r, !andb_true_r in H.
      assert (chars <> []) as NC by (intros Z; rewrite Z in V; cbn [flat_map] in V; destruct w; discriminate).
      destruct (LAST NC) as (c0 & EC).
      assert (last' < 256) as LB256 by (rewrite EC in OKC; apply bytes_ok_app in OKC; destruct OKC as [_ O2]; apply bytes_ok_cons in O2; exact (proj1 O2)).
      destruct (vals_fill text last' LB256) as (fl & x' & VF).
      assert (c40_run_vals text c0 fl = w) as RW.
      { rewrite EC, flat_map_app in V. cbn [flat_map] in V. rewrite app_nil_r, VF, app_assoc in V. apply app_inj_tail in V. unfold c40_run_vals. exact (proj1 V). }
      assert (forall c, backup (set_cw (set_ascii_until_end e1) c) 1 = Ok (set_data (set_cw (set_ascii_until_end e1) c) [last'])) as BK.
      { intros c. apply (backup_one _ (p1 ++ c0)); [cbn [e_input set_cw set_ascii_until_end]; rewrite IN, EC, app_assoc; reflexivity|exact ED]. }
      destruct (N.eqb_spec (sl + 1) 2) as [E2|N2].
      { (* case c of the standard: Unlatch, the last character in ASCII *)
        change (set_ascii_until_end (push e1 UNLATCH)) with (set_cw (set_ascii_until_end e1) (e_cw e1 ++ [UNLATCH])) in H. rewrite BK in H. cbn [bind] in H. inversion H; subst ex.
        exists c0, fl, TUnlatch, [last']. split; [exact EC|]. split; [rewrite ED; reflexivity|].
        split; [cbn [e_cw set_data set_cw]; rewrite CW; unfold run_cw; rewrite RW, <- app_assoc; reflexivity|]. split; [rewrite RW; exact LW|]. split; [repeat split|]. left.
        split; [reflexivity|]. split; [reflexivity|]. split; [exact NM1|]. split; [exact AUE|]. exists (p1 ++ c0). cbn [e_input e_data set_data set_cw set_ascii_until_end]. rewrite IN, EC, app_assoc. reflexivity. }
      destruct (N.eqb_spec (sl + 1) 1) as [E1|N1]; [|cbn [bind] in H; exact (NONE H)].
      destruct (N.eqb_spec (ascii_encoding_size [last']) 1) as [A1|NA]; [|cbn [bind] in H; exact (NONE H)].
      (* case d: no Unlatch, the last character as the one ASCII codeword that fills the symbol *)
      change (set_ascii_until_end e1) with (set_cw (set_ascii_until_end e1) (e_cw e1)) in H. rewrite BK in H. cbn [bind] in H. inversion H; subst ex.
      exists c0, fl, TEnd, [last']. split; [exact EC|]. split; [rewrite ED; reflexivity|].
      split; [cbn [e_cw set_data set_cw]; rewrite CW; unfold run_cw; rewrite RW; cbn [term_cw]; rewrite app_nil_r; reflexivity|]. split; [rewrite RW; exact LW|]. split; [repeat split|]. right. right.
      split; [reflexivity|]. split; [reflexivity|]. split; [reflexivity|]. split; [exact NM1|].
      split; [unfold chars_left; cbn [e_data set_data length N.of_nat]; rewrite A1; reflexivity|].
      assert (sl = 0) as -> by lia. exact SS.
    + change (N.of_nat (length [x; y])) with 2 in H, SS. change (2 =? 2) with true in H. change (2 =? 1) with false in H. rewrite !andb_false_r, andb_true_r in H.
      destruct (N.eqb_spec (sl + 2) 2) as [E2|N2]; [|cbn [bind] in H; exact (NONE H)].
      (* case b: the two values and a Shift 1 pad fill the symbol *)
      destruct (write_three_values e1 x y c40_SHIFT1) as [e'| |] eqn:W; cbn [bind] in H; try discriminate. inversion H; subst ex.
      destruct (wtv_run _ _ _ _ _ W) as ((S1 & S2 & S3 & S4 & S5 & S6 & S7) & C1).
      exists chars, 1%nat, TEnd, []. rewrite app_nil_r. split; [reflexivity|]. split; [exact S1|].
      assert (pack_vals ((w ++ [x; y]) ++ [0]) = pack_vals w ++ pack3 x y 0) as PK by (rewrite <- app_assoc; cbn [app]; rewrite pack_vals_app by exact LW; cbn [pack_vals]; rewrite app_nil_r; reflexivity).
      split; [rewrite C1, CW; unfold run_cw, c40_run_vals; rewrite V; cbn [fill_vals term_cw]; rewrite PK, app_nil_r, <- app_assoc; reflexivity|].
      split; [unfold c40_run_vals; rewrite V; cbn [fill_vals]; rewrite !app_length; cbn [length]; replace (length w + 2 + 1)%nat with (length w + 1 * 3)%nat by lia; rewrite Nat.mod_add by lia; exact LW|].
      split; [repeat split; assumption|]. right. left. split; [reflexivity|]. split; [rewrite S1; exact ED|].
      assert (sl = 0) as -> by lia. unfold symbol_size_left in SS. destruct (symbol_for e1 2) as [s|] eqn:SF; [|discriminate].
      apply (full_plus e1 e' 2 s); [unfold symbol_size_left; rewrite SF; exact SS|exact SF|exact S5|unfold cw_len; rewrite C1, app_length; cbn [pack3 length]; lia].
Qed.

(* ---- the main loop under any plan over ASCII and the mode ---- *)
Definition seg_ac (s : segment) : Prop :=
  match s with
  | SAscii items => forallb aitem_ok items = true
  | SC40 t cs f TUnlatch => t = text /\ segment_ok (SC40 t cs f TUnlatch) = true
  | _ => False
  end.

Definition Gc (pre data : list N) (e : enc) (segs : list segment) : Prop :=
  e_cw e = pre ++ render (N.of_nat (length pre)) segs /\ meaning segs ++ e_data e = data /\ Forall seg_ac segs /\ ac_plan (e_planned e) /\
  (exists p, e_input e = p ++ e_data e) /\
  ((e_encodation e = Ascii /\ e_new_mode e = None) \/ (e_encodation e = M /\ e_new_mode e = Some L /\ e_data e <> [])).

Definition finished_c (pre data : list N) (e : enc) (segs : list segment) : Prop :=
  e_cw e = pre ++ render (N.of_nat (length pre)) segs /\ meaning segs = data /\ e_data e = [] /\
  ((Forall seg_ac segs /\ e_encodation e = Ascii) \/
   (exists init cs f, segs = init ++ [SC40 text cs f TEnd] /\ Forall seg_ac init /\ segment_ok (SC40 text cs f TEnd) = true /\ full e) \/
   (exists init cs f i, segs = init ++ [SC40 text cs f TEnd; SAscii [i]] /\ Forall seg_ac init /\ segment_ok (SC40 text cs f TEnd) = true /\
      aitem_ok i = true /\ single_cw i = true /\ full e)).

Lemma c40_seg_ok cs f t : bytes_ok cs = true -> (length (c40_run_vals text cs f) mod 3 = 0)%nat -> segment_ok (SC40 text cs f t) = true.
Proof.
  intros A B. cbn [segment_ok]. rewrite A. cbn [andb]. apply N.eqb_eq. apply Nat.mod_divides in B; [|lia]. destruct B as [k ->].
  rewrite Nat2N.inj_mul. change (N.of_nat 3) with 3. rewrite N.mul_comm. apply N.mod_mul. lia.
Qed.

Lemma mode_encode_M e : e_encodation e = M -> mode_encode e = c40_encode text e.
Proof. unfold mode_encode, M. intros ->. destruct text; reflexivity. Qed.

Lemma seg_cw_c40 b cs f t : segment_cw b (SC40 text cs f t) = L :: run_cw cs f t.
Proof. unfold run_cw, L. cbn [segment_cw]. destruct text; reflexivity. Qed.

Lemma main_loop_ac pre data : bytes_ok data = true -> forall fuel e nwr segs e', Gc pre data e segs ->
  main_loop fuel e nwr = Ok e' -> exists segs', finished_c pre data e' segs' /\ e_symbols e' = e_symbols e.
Proof.
  intros OKD. induction fuel as [|f IH]; intros e nwr segs e' (GC & GM & GS & GP & (pin & GI) & GE) H; cbn [main_loop] in H; [discriminate|].
  destruct (has_more e) eqn:HM0; cbn [negb] in H.
  2:{ assert (e_data e = []) as ED by (unfold has_more in HM0; destruct (e_data e); [reflexivity|discriminate]).
      inversion H; subst e'. exists segs. split; [|reflexivity].
      rewrite ED, app_nil_r in GM. destruct GE as [(EA & _)|(_ & _ & ND)]; [|congruence].
      split; [exact GC|]. split; [exact GM|]. split; [exact ED|]. left. split; assumption. }
  assert (e_data e <> []) as ND by (unfold has_more in HM0; destruct (e_data e); [discriminate|discriminate]).
  assert (bytes_ok (e_data e) = true) as OKE.
  { rewrite <- GM in OKD. apply bytes_ok_app in OKD. apply OKD. }
  assert (forall e1 segs1, Gc pre data e1 segs1 -> e_symbols e1 = e_symbols e -> (exists n1, main_loop f e1 n1 = Ok e') ->
            exists segs', finished_c pre data e' segs' /\ e_symbols e' = e_symbols e) as REC.
  { intros e1 segs1 G1 ES1 (n1 & M1). destruct (IH e1 n1 segs1 e' G1 M1) as (segs' & F & ES). exists segs'. split; [exact F|congruence]. }
  assert (forall (e1 : enc) (len : nat) (X : ER enc), X = Ok e' ->
            (X = (if (length (e_cw e1) <? len)%nat then Panic POverflow else
                 if (length (e_cw e1) - len <=? 1)%nat then (if 5 <? nwr + 1 then Panic PAssert else main_loop f e1 (nwr + 1)) else main_loop f e1 0)) ->
            exists n1, main_loop f e1 n1 = Ok e') as TAIL.
  { intros e1 len X HX EX. rewrite EX in HX. destruct (length (e_cw e1) <? len)%nat; [discriminate|].
    destruct (length (e_cw e1) - len <=? 1)%nat; [destruct (5 <? nwr + 1); [discriminate|]|]; eexists; exact HX. }
  destruct GE as [(EA & NM)|(EX & NM & _)].
  - (* an ASCII run *)
    rewrite NM in H. unfold mode_encode in H. rewrite EA in H.
    destruct (ascii_encode (S (S (length (e_data e)))) e) as [e1| |] eqn:AE; cbn [bind] in H; try discriminate.
    destruct (ascii_run_ac _ e e1 EA OKE GP AE) as (items & I1 & I2 & I3 & (I4i & _ & I4) & I5 & I6).
    apply (REC e1 (segs ++ [SAscii items])); [|exact I4|exact (TAIL e1 _ _ H eq_refl)].
    split; [rewrite I2, GC, render_snoc, <- app_assoc; reflexivity|]. split; [rewrite meaning_snoc; cbn [segment_data]; rewrite <- app_assoc, <- I3; exact GM|].
    split; [apply Forall_app; split; [exact GS|constructor; [exact I1|constructor]]|]. split; [exact I5|].
    split; [exists (pin ++ flat_map aitem_data items); rewrite I4i, GI, I3, <- app_assoc; reflexivity|].
    destruct I6 as [(A & B & C)|(A & B & C)]; [left; split; [exact A|rewrite C; exact NM]|right; repeat split; assumption].
  - (* a C40 / Text run *)
    rewrite NM in H. set (el := push (mkenc (e_data e) (e_input e) (e_encodation e) (e_planned e) None (e_cw e) (e_modes e) (e_symbols e)) L) in *.
    rewrite (mode_encode_M el EX) in H.
    destruct (c40_encode text el) as [ex| |] eqn:XE; cbn [bind] in H; try discriminate.
    pose proof (TAIL ex _ _ H eq_refl) as (n1 & M1). clear H TAIL.
    unfold c40_encode in XE. destruct (c40_loop (S (length (e_data el))) text el [] 0) as [[[e1 buf'] last']| |] eqn:XL; cbn [bind] in XE; try discriminate.
    destruct (c40_loop_run _ el [] 0 e1 buf' last' EX GP OKE ltac:(exists pin; exact GI) ltac:(cbn [length]; lia) XL)
      as (chars & w & R1 & R2 & R3 & R4 & R5 & (R6i & R6m & R6s) & R7 & R8 & R9 & R10 & R11).
    cbn [app] in R2. cbn [e_data e_cw e_new_mode e_symbols e_input el push set_cw] in R1, R5, R6i, R6s, R8.
    assert (bytes_ok chars = true) as OKC by (rewrite R1 in OKE; apply bytes_ok_app in OKE; apply OKE).
    destruct (c40_end_run (e_cw e ++ [L]) e1 chars w buf' last' ex R2 R3 R4 R5 OKC ltac:(exists pin; rewrite R6i, GI, R1; reflexivity) R9 R8 R7 R11 XE)
      as (cs & fl & t & rest & EC & DX & CX & LX & (EV1 & EV2 & EV3) & ALT).
    assert (bytes_ok cs = true) as OKS by (rewrite EC in OKC; apply bytes_ok_app in OKC; apply OKC).
    assert (e_cw ex = pre ++ render (N.of_nat (length pre)) (segs ++ [SC40 text cs fl t])) as CWX.
    { rewrite render_snoc, seg_cw_c40, CX, GC, <- !app_assoc. reflexivity. }
    assert (meaning (segs ++ [SC40 text cs fl t]) ++ e_data ex = data) as MX.
    { rewrite meaning_snoc. cbn [segment_data]. rewrite DX, <- app_assoc, (app_assoc cs), <- EC, <- R1. exact GM. }
    assert (e_symbols ex = e_symbols e) as SX by (rewrite EV3; exact R6s).
    destruct ALT as [(-> & A1 & A2 & A3 & A4)|[(-> & A1 & A2)|(-> & A1 & A2 & A3 & A4 & A5)]].
    + apply (REC ex (segs ++ [SC40 text cs fl TUnlatch])); [|exact SX|exists n1; exact M1].
      split; [exact CWX|]. split; [exact MX|]. split; [apply Forall_app; split; [exact GS|constructor; [split; [reflexivity|apply c40_seg_ok; assumption]|constructor]]|].
      split; [exact A3|]. split; [exact A4|]. left. split; assumption.
    + destruct f as [|f']; cbn [main_loop] in M1; [discriminate|]. rewrite (has_more_nil ex A1) in M1. cbn [negb] in M1. inversion M1; subst e'.
      exists (segs ++ [SC40 text cs fl TEnd]). split; [|exact SX]. split; [exact CWX|]. split; [rewrite <- MX, A1, app_nil_r; reflexivity|]. split; [exact A1|].
      right. left. exists segs, cs, fl. split; [reflexivity|]. split; [exact GS|]. split; [apply c40_seg_ok; assumption|exact A2].
    + destruct f as [|f']; cbn [main_loop] in M1; [discriminate|].
      assert (e_data ex <> []) as NDX by (intros Z; rewrite Z in A4; cbn in A4; rewrite andb_false_r in A4; discriminate).
      rewrite (has_more_cons ex NDX) in M1. cbn [negb] in M1. rewrite A3 in M1. unfold mode_encode in M1. rewrite A1 in M1.
      destruct (ascii_last ex A1 A2 A4 (length (e_data ex))) as (i & B1 & B2 & B3 & AE). rewrite AE in M1. cbn [bind] in M1.
      set (e2 := mkenc [] (e_input ex) Ascii [(0, Ascii)] (e_new_mode ex) (e_cw ex ++ aitem_cw i) (e_modes ex) (e_symbols ex)) in *.
      assert (exists n2, main_loop f' e2 n2 = Ok e') as (n2 & M2).
      { destruct (length (e_cw e2) <? _)%nat; [discriminate|]. destruct (length (e_cw e2) - _ <=? 1)%nat; [destruct (5 <? _); [discriminate|]|]; eexists; exact M1. }
      destruct f' as [|f'']; cbn [main_loop] in M2; [discriminate|]. change (has_more e2) with false in M2. cbn [negb] in M2. inversion M2; subst e'.
      exists (segs ++ [SC40 text cs fl TEnd; SAscii [i]]). split; [|exact SX].
      assert (length (aitem_cw i) = 1%nat) as L1 by (destruct i; [reflexivity|reflexivity|discriminate]).
      split.
      { cbn [e_cw e2]. change (segs ++ [SC40 text cs fl TEnd; SAscii [i]]) with (segs ++ [SC40 text cs fl TEnd] ++ [SAscii [i]]). rewrite app_assoc, render_snoc, (app_assoc pre), <- CWX.
        cbn [segment_cw flat_map]. rewrite !app_nil_r. reflexivity. }
      split.
      { change (segs ++ [SC40 text cs fl TEnd; SAscii [i]]) with (segs ++ [SC40 text cs fl TEnd] ++ [SAscii [i]]). rewrite app_assoc, meaning_snoc. cbn [segment_data flat_map]. rewrite app_nil_r, B3. exact MX. }
      split; [reflexivity|]. right. right. exists segs, cs, fl, i. split; [reflexivity|]. split; [exact GS|]. split; [apply c40_seg_ok; assumption|]. split; [exact B1|]. split; [exact B2|].
      unfold symbol_size_left in A5. destruct (symbol_for ex 1) as [s|] eqn:SF; [|discriminate].
      apply (full_plus ex e2 1 s); [unfold symbol_size_left; rewrite SF; exact A5|exact SF|reflexivity|unfold cw_len; cbn [e_cw e2]; rewrite app_length, L1; lia].
Qed.

(* ---- legality of the scripts, and the theorem ---- *)
Lemma script_ok_ac_app init tail_ npad : Forall seg_ac init -> script_ok tail_ npad = true -> script_ok (init ++ tail_) npad = true.
Proof.
  induction 1 as [|s r Hs Hr IH]; intros OK; [exact OK|]. specialize (IH OK).
  destruct s as [items| | |t cs f tm| |]; try contradiction; cbn [app script_ok term_of]; cbn [seg_ac] in Hs.
  - cbn [segment_ok]. rewrite Hs, IH. reflexivity.
  - destruct tm; [|contradiction]. destruct Hs as [_ Hs]. rewrite Hs, IH. reflexivity.
Qed.

Definition ac_seg (s : segment) : Prop := match s with SAscii _ => True | SC40 t _ _ _ => t = text | _ => False end.
Lemma seg_ac_ac_seg l : Forall seg_ac l -> Forall ac_seg l.
Proof. apply Forall_impl. intros s. destruct s as [| | |t cs f tm| |]; cbn; auto. destruct tm; [intros [A _]; exact A|contradiction]. Qed.

Section ACPlans.
Variable optimize_fn : list N -> N -> list SymbolSize -> N -> PR (option (list (N * EncodationType))).
Variables (symbols : list SymbolSize) (modes : N).

Lemma codewords_ac (pre d : list N) cw s :
  (forall p, optimize_fn d (N.of_nat (length pre)) symbols modes = Ok (Some p) -> ac_plan p) -> bytes_ok d = true ->
  codewords optimize_fn (mkenc d d Ascii [] None pre modes symbols) = Ok (cw, s) ->
  exists script npad, script_ok script npad = true /\ cw = pre ++ tailS (N.of_nat (length pre)) script npad /\ meaning script = d /\ Forall ac_seg script.
Proof.
  intros plans_ac OK. unfold codewords.
  cbn [e_symbols e_data e_modes e_input e_encodation e_new_mode e_cw].
  destruct symbols as [|s0 sr] eqn:ES; [discriminate|]. rewrite <- ES in *.
  destruct (_ <? _); [discriminate|]. destruct (upper_limit_for_number_of_codewords _ _); [|discriminate].
  change (cw_len (mkenc d d Ascii [] None pre modes symbols)) with (N.of_nat (length pre)).
  destruct (optimize_fn d (N.of_nat (length pre)) symbols modes) as [p| |] eqn:EO; cbn [bind lift]; try discriminate.
  destruct p as [p|]; [|discriminate]. pose proof (plans_ac p eq_refl) as PA.
  destruct (main_loop _ _ 0) as [e3| |] eqn:ML; cbn [bind]; try discriminate.
  destruct (symbol_for e3 0) as [s'|] eqn:FF; [|discriminate].
  destruct (add_padding e3 s') as [e4| |] eqn:AP; cbn [bind]; try discriminate. intros [= <- <-].
  apply add_padding_spec in AP. destruct AP as (LE & C4 & _).
  destruct (main_loop_ac pre d OK (6 * length d + 12)%nat (mkenc d d Ascii p None pre modes symbols) 0 [] e3)
    as (segs & (FC & FM & FD & FE) & _); [|exact ML|].
  { split; [cbn [e_cw render]; rewrite app_nil_r; reflexivity|]. split; [reflexivity|]. split; [constructor|]. split; [exact PA|]. split; [exists []; reflexivity|]. left. split; reflexivity. }
  assert (forall init tl, segs = init ++ tl -> full e3 -> e_cw e4 = pre ++ tailS (N.of_nat (length pre)) segs 0 /\ num_data_codewords s' - cw_len e3 = 0) as FULLC.
  { intros init tl -> (sx & SF & FU). rewrite SF in FF. inversion FF; subst sx. rewrite FU, N.sub_diag in C4 |- *. rewrite padding_zero, app_nil_r in C4.
    split; [|reflexivity]. rewrite C4, FC. unfold tailS. cbv zeta. cbn [pad]. rewrite app_nil_r. reflexivity. }
  destruct FE as [(AX & FA)|[(init & cs & f & -> & AX & SO & FU)|(init & cs & f & i & -> & AX & SO & A1 & A2 & FU)]].
  - exists segs, (N.to_nat (num_data_codewords s' - cw_len e3)). split; [|split; [|split; [exact FM|apply seg_ac_ac_seg; exact AX]]].
    + rewrite <- (app_nil_r segs). apply script_ok_ac_app; [exact AX|reflexivity].
    + rewrite FA in C4. rewrite (proj2 (N.eqb_eq _ _) eq_refl : et_eqb Ascii Ascii = true) in C4. rewrite padding_pad in C4.
      rewrite C4, FC. unfold tailS, cw_len. cbv zeta. rewrite FC, <- app_assoc, app_length, Nat2N.inj_add. reflexivity.
  - destruct (FULLC init [SC40 text cs f TEnd] eq_refl FU) as (C & Z). exists (init ++ [SC40 text cs f TEnd]), 0%nat.
    split; [apply script_ok_ac_app; [exact AX|]; cbn [script_ok term_of]; rewrite SO; reflexivity|].
    split; [exact C|]. split; [exact FM|]. apply Forall_app. split; [apply seg_ac_ac_seg; exact AX|constructor; [reflexivity|constructor]].
  - destruct (FULLC init [SC40 text cs f TEnd; SAscii [i]] eq_refl FU) as (C & Z). exists (init ++ [SC40 text cs f TEnd; SAscii [i]]), 0%nat.
    assert (length (aitem_cw i) = 1%nat) as L1 by (destruct i; [reflexivity|reflexivity|discriminate]).
    split; [apply script_ok_ac_app; [exact AX|]; cbn [script_ok term_of]; rewrite SO; cbn [segment_ok forallb andb]; rewrite A1; unfold ends_symbol, rest_len; cbn [render segment_cw flat_map]; cbv zeta; rewrite !app_nil_r, L1, A1, A2; reflexivity|].
    split; [exact C|]. split; [exact FM|]. apply Forall_app. split; [apply seg_ac_ac_seg; exact AX|constructor; [reflexivity|constructor; [exact I|constructor]]].
Qed.

Variable data : list N.
Hypothesis plans_ac : forall p, optimize_fn data 0 symbols modes = Ok (Some p) -> ac_plan p.

Theorem ac_plan_roundtrip cw s : bytes_ok data = true ->
  encode_data_internal optimize_fn data symbols None modes false false = Ok (cw, s) ->
  (exists script npad, script_ok script npad = true /\ cw = stream script npad /\ meaning script = data /\ Forall ac_seg script) /\
  decode_data cw = Ok data.
Proof.
  intros OK H.
  assert (exists script npad, script_ok script npad = true /\ cw = stream script npad /\ meaning script = data /\ Forall ac_seg script) as (script & npad & SO & CW & ME & SH).
  2:{ split; [exists script, npad; auto|]. rewrite CW, (decode_script _ _ SO), ME. reflexivity. }
  revert H. unfold encode_data_internal. cbv zeta. cbn [bind]. intros H.
  destruct (codewords_ac [] data cw s plans_ac OK H) as (script & npad & SO & CW & ME & SH).
  exists script, npad. split; [exact SO|split; [|split; [exact ME|exact SH]]]. rewrite CW. unfold stream, tailS. cbn [app length]. rewrite N.add_0_l. reflexivity.
Qed.
End ACPlans.

Lemma ac_plans_of_modes sorter symbols modes d w :
  (forall k l l', sorter symbols k l = Ok l' -> incl l' l) -> (forall m, enabled modes m = true -> ac_mode m) ->
  forall p, optimize_fn sorter d w symbols modes = Ok (Some p) -> ac_plan p.
Proof.
  intros HS HM p. unfold optimize_fn. destruct (optimize symbols (sorter symbols) d w Ascii modes) as [[r st]| |] eqn:EO; cbn [bind]; try discriminate.
  intros [= ->]. destruct (optimize_shape symbols (sorter symbols) HS d w Ascii modes p st EO) as (_ & MO & _).
  unfold ac_plan. apply Forall_forall. intros x Hx. unfold modes_ok in MO. rewrite Forall_forall in MO. apply HM. exact (MO x Hx).
Qed.

Theorem ac_modes_roundtrip sorter data symbols modes cw s :
  (forall k l l', sorter symbols k l = Ok l' -> incl l' l) ->
  (forall m, enabled modes m = true -> ac_mode m) -> bytes_ok data = true ->
  encode_data_internal (optimize_fn sorter) data symbols None modes false false = Ok (cw, s) ->
  (exists script npad, script_ok script npad = true /\ cw = stream script npad /\ meaning script = data /\ Forall ac_seg script) /\
  decode_data cw = Ok data.
Proof.
  intros HS HM OK H. apply (ac_plan_roundtrip (optimize_fn sorter) symbols modes data) with (s := s); [|exact OK|exact H].
  apply ac_plans_of_modes; assumption.
Qed.

Theorem macro_ac_roundtrip sorter data symbols modes body m head cw s :
  (forall k l l', sorter symbols k l = Ok l' -> incl l' l) ->
  (forall m, enabled modes m = true -> ac_mode m) -> bytes_ok body = true ->
  (m = MACRO05 /\ head = MACRO05_HEAD) \/ (m = MACRO06 /\ head = MACRO06_HEAD) ->
  data = head ++ body ++ MACRO_TRAIL ->
  encode_data_internal (optimize_fn sorter) data symbols None modes true false = Ok (cw, s) ->
  (exists script npad, script_ok script npad = true /\ cw = stream_with m script npad /\ meaning script = body /\ Forall ac_seg script) /\
  decode_data cw = Ok data.
Proof.
  intros HS HMo OK HM HD H.
  assert (exists script npad, script_ok script npad = true /\ cw = stream_with m script npad /\ meaning script = body /\ Forall ac_seg script) as (script & npad & SO & CW & ME & SH).
  2:{ split; [exists script, npad; auto|]. rewrite CW, (decode_script_macro _ _ m head HM SO), ME, HD. reflexivity. }
  revert H. unfold encode_data_internal. cbv zeta.
  set (e0 := with_size data symbols modes false).
  destruct (use_macro_spec e0) as (e1 & UM & M5 & M6 & _). rewrite UM. cbn [bind].
  assert (e1 = strip_to e0 body m) as ->.
  { destruct HM as [[-> ->]|[-> ->]]; [apply M5|apply M6]; try reflexivity; unfold enveloped; exact HD. }
  unfold strip_to, e0, with_size. cbn [e_encodation e_planned e_new_mode e_cw e_modes e_symbols app]. intros H.
  destruct (codewords_ac (optimize_fn sorter) symbols modes [m] body cw s (ac_plans_of_modes sorter symbols modes body _ HS HMo) OK H) as (script & npad & SO & CW & ME & SH).
  exists script, npad. split; [exact SO|split; [exact CW|split; [exact ME|exact SH]]].
Qed.

Theorem fnc1_ac_roundtrip sorter data symbols modes use_macros cw s :
  (forall k l l', sorter symbols k l = Ok l' -> incl l' l) ->
  (forall m, enabled modes m = true -> ac_mode m) -> bytes_ok data = true ->
  encode_data_internal (optimize_fn sorter) data symbols None modes use_macros true = Ok (cw, s) ->
  (exists script npad, script_ok script npad = true /\ cw = stream_with ascii_FNC1 script npad /\ meaning script = data /\ Forall ac_seg script) /\
  decode_data cw = Ok data.
Proof.
  intros HS HMo OK H.
  assert (exists script npad, script_ok script npad = true /\ cw = stream_with ascii_FNC1 script npad /\ meaning script = data /\ Forall ac_seg script) as (script & npad & SO & CW & ME & SH).
  2:{ split; [exists script, npad; auto|]. rewrite CW, (decode_script_fnc1 _ _ SO), ME. reflexivity. }
  revert H. unfold encode_data_internal. cbv zeta.
  set (um := if use_macros then _ else _).
  assert (um = Ok (with_size data symbols modes true)) as -> by (unfold um; destruct use_macros; reflexivity).
  cbn [bind]. unfold with_size. intros H.
  destruct (codewords_ac (optimize_fn sorter) symbols modes [ascii_FNC1] data cw s (ac_plans_of_modes sorter symbols modes data _ HS HMo) OK H) as (script & npad & SO & CW & ME & SH).
  exists script, npad. split; [exact SO|split; [exact CW|split; [exact ME|exact SH]]].
Qed.
End OneMode.
Print Assumptions macro_ac_roundtrip.
