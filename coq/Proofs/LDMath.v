(* Proofs/LDMath.v -- the algebra behind the Levinson-Durbin recursion for Hankel systems over GF(256) (characteristic 2),
   on vectors represented as functions nat -> F.  S is the (infinite) sequence of syndromes; hs K x i is row i of the
   Hankel matrix applied to the first K entries of x.  The statements are the identities (3)/(4) that the Rust code
   re-checks in debug builds:  (3) H_v y = e_{v-1},  (4) H_v w = h_v. *)
From Coq Require Import Arith List Bool Lia Ring Field.
From DM Require Import Spec.GF256.
Import ListNotations.

Section Hankel.
Variable S : nat -> F.

Fixpoint fsum (K : nat) (f : nat -> F) : F := match K with O => F0 | Datatypes.S k => Fadd (fsum k f) (f k) end.

Lemma fsum_ext K f g : (forall j, j < K -> f j = g j) -> fsum K f = fsum K g.
Proof. induction K as [|k IH]; intros H; cbn [fsum]; [reflexivity|]. rewrite IH, H by (intros; try apply H; lia). reflexivity. Qed.
Lemma fsum_add K f g : fsum K (fun j => Fadd (f j) (g j)) = Fadd (fsum K f) (fsum K g).
Proof. induction K as [|k IH]; cbn [fsum]; [ring|]. rewrite IH. ring. Qed.
Lemma fsum_scale K c f : fsum K (fun j => Fmul c (f j)) = Fmul c (fsum K f).
Proof. induction K as [|k IH]; cbn [fsum]; [ring|]. rewrite IH. ring. Qed.
Lemma fsum_zero K f : (forall j, j < K -> f j = F0) -> fsum K f = F0.
Proof. induction K as [|k IH]; intros H; cbn [fsum]; [reflexivity|]. rewrite IH, H by (intros; try apply H; lia). ring. Qed.
Lemma fsum_split K1 K2 f : fsum (K1 + K2) f = Fadd (fsum K1 f) (fsum K2 (fun j => f (K1 + j))).
Proof.
  induction K2 as [|k IH]; [rewrite Nat.add_0_r; cbn [fsum]; ring|].
  rewrite Nat.add_succ_r. cbn [fsum]. rewrite IH. ring.
Qed.
Lemma fsum_shift K f : fsum (Datatypes.S K) f = Fadd (f 0) (fsum K (fun j => f (Datatypes.S j))).
Proof. change (Datatypes.S K) with (1 + K). rewrite fsum_split. cbn [fsum Nat.add]. ring. Qed.
(* only one index contributes *)
Lemma fsum_single K f k : k < K -> (forall j, j < K -> j <> k -> f j = F0) -> fsum K f = f k.
Proof.
  induction K as [|n IH]; intros Hk H; [lia|]. cbn [fsum]. destruct (Nat.eq_dec k n) as [->|NE].
  - rewrite fsum_zero by (intros j Hj; apply H; lia). ring.
  - rewrite IH by (try lia; intros j Hj Hn; apply H; lia). rewrite (H n) by lia. ring.
Qed.

(* row i of the Hankel matrix on the first K entries of x *)
Definition hs (K : nat) (x : nat -> F) (i : nat) : F := fsum K (fun j => Fmul (S (i + j)) (x j)).

Lemma hs_ext K x x' i : (forall j, j < K -> x j = x' j) -> hs K x i = hs K x' i.
Proof. intros H. unfold hs. apply fsum_ext. intros j Hj. rewrite H by exact Hj. reflexivity. Qed.
Lemma hs_add K x y i : hs K (fun j => Fadd (x j) (y j)) i = Fadd (hs K x i) (hs K y i).
Proof. unfold hs. rewrite <- fsum_add. apply fsum_ext. intros; ring. Qed.
Lemma hs_scale K c x i : hs K (fun j => Fmul c (x j)) i = Fmul c (hs K x i).
Proof. unfold hs. rewrite <- fsum_scale. apply fsum_ext. intros; ring. Qed.
Lemma hs_S K x i : hs (Datatypes.S K) x i = Fadd (hs K x i) (Fmul (S (i + K)) (x K)).
Proof. reflexivity. Qed.
(* entries beyond K that vanish do not matter *)
Lemma hs_tail K K' x i : K <= K' -> (forall j, K <= j < K' -> x j = F0) -> hs K' x i = hs K x i.
Proof.
  intros LE H. replace K' with (K + (K' - K)) by lia. unfold hs. rewrite fsum_split.
  rewrite (fsum_zero (K' - K)) by (intros j Hj; rewrite H by lia; ring). ring.
Qed.
(* a vector placed at offset d *)
Lemma hs_offset K d x i : hs (d + K) (fun j => if j <? d then F0 else x (j - d)) i = hs K x (i + d).
Proof.
  unfold hs. rewrite fsum_split. rewrite fsum_zero.
  - rewrite (fsum_ext K _ (fun j => Fmul (S (i + d + j)) (x j))); [ring|].
    intros j Hj. destruct (Nat.ltb_spec (d + j) d); [lia|]. replace (d + j - d) with j by lia. replace (i + (d + j)) with (i + d + j) by lia. reflexivity.
  - intros j Hj. destruct (Nat.ltb_spec j d); [ring|lia].
Qed.
Lemma hs_shift1 K x i : hs (Datatypes.S K) (fun j => match j with O => F0 | Datatypes.S j' => x j' end) i = hs K x (i + 1).
Proof.
  rewrite <- (hs_offset K 1 x i). apply hs_ext. intros j Hj. destruct j as [|j']; [reflexivity|].
  cbn [Nat.ltb Nat.leb]. replace (Datatypes.S j' - 1) with j' by lia. reflexivity.
Qed.

Definition delta (i k : nat) : F := if Nat.eqb i k then F1 else F0.
Definition Inv3 (v : nat) (y : nat -> F) : Prop := forall i, i < v -> hs v y i = delta i (v - 1).
Definition Inv4 (v : nat) (w : nat -> F) : Prop := forall i, i < v -> hs v w i = S (v + i).

(* [w_v, 1]: annihilated by the first v rows *)
Definition ext1 (v : nat) (w : nat -> F) : nat -> F := fun j => if j <? v then w j else if Nat.eqb j v then F1 else F0.

Lemma hs_ext1 v w i : hs (Datatypes.S v) (ext1 v w) i = Fadd (hs v w i) (S (i + v)).
Proof.
  rewrite hs_S. unfold ext1 at 2. destruct (Nat.ltb_spec v v); [lia|]. rewrite Nat.eqb_refl.
  rewrite (hs_ext v (ext1 v w) w) by (intros j Hj; unfold ext1; destruct (Nat.ltb_spec j v); [reflexivity|lia]). ring.
Qed.

Lemma ext1_annihilated v w : Inv4 v w -> forall i, i < v -> hs (Datatypes.S v) (ext1 v w) i = F0.
Proof. intros I4 i Hi. rewrite hs_ext1, (I4 i Hi). replace (i + v) with (v + i) by lia. apply Fadd_self. Qed.

(* ---- the regular step ---- *)
Section Regular.
Variables (v : nat) (y w : nat -> F) (eps einv : F).
Hypothesis Hv : 1 <= v.
Hypothesis I3 : Inv3 v y.
Hypothesis I4 : Inv4 v w.
Hypothesis Heps : eps = hs (Datatypes.S v) (ext1 v w) v.
Hypothesis Hinv : Fmul eps einv = F1.

Definition y_reg : nat -> F := fun j => Fmul (ext1 v w j) einv.
Definition w_reg : nat -> F :=
  let beta := Fmul (hs (Datatypes.S v) (ext1 v w) (v + 1)) einv in
  let gamma := hs v y v in
  fun j => Fadd (Fadd (match j with O => F0 | Datatypes.S j' => w j' end) (if j <? v then Fmul eps (y j) else F0))
                (Fmul (Fadd beta gamma) (ext1 v w j)).

Lemma regular_inv3 : Inv3 (Datatypes.S v) y_reg.
Proof.
  intros i Hi. unfold y_reg.
  rewrite (hs_ext _ _ (fun j => Fmul einv (ext1 v w j))) by (intros; ring). rewrite hs_scale.
  replace (Datatypes.S v - 1) with v by lia. unfold delta. destruct (Nat.eqb_spec i v) as [->|NE].
  - rewrite <- Heps. rewrite <- Hinv. ring.
  - rewrite ext1_annihilated by (try exact I4; lia). ring.
Qed.

Lemma regular_inv4 : Inv4 (Datatypes.S v) w_reg.
Proof.
  intros i Hi. unfold w_reg. cbv zeta.
  set (c := Fadd (Fmul (hs (Datatypes.S v) (ext1 v w) (v + 1)) einv) (hs v y v)).
  rewrite hs_add, hs_add, hs_shift1.
  rewrite hs_scale.
  assert (hs (Datatypes.S v) (fun j => if j <? v then Fmul eps (y j) else F0) i = Fmul eps (hs v y i)) as ->.
  { rewrite (hs_tail v (Datatypes.S v)); [|lia|intros j Hj; destruct (Nat.ltb_spec j v); [lia|reflexivity]].
    rewrite <- hs_scale. apply hs_ext. intros j Hj. destruct (Nat.ltb_spec j v); [reflexivity|lia]. }
  destruct (Nat.lt_ge_cases i (v - 1)) as [LT|GE].
  - (* rows 0 .. v-2 *)
    rewrite (I4 (i + 1)) by lia. rewrite (I3 i) by lia. unfold delta. destruct (Nat.eqb_spec i (v - 1)); [lia|].
    rewrite ext1_annihilated by (try exact I4; lia). replace (Datatypes.S v + i) with (v + (i + 1)) by lia. ring.
  - destruct (Nat.eq_dec i (v - 1)) as [E|NE].
    + (* row v-1 *)
      subst i. replace (v - 1 + 1) with v by lia. rewrite (I3 (v - 1)) by lia. unfold delta. rewrite Nat.eqb_refl.
      rewrite ext1_annihilated by (try exact I4; lia).
      assert (eps = Fadd (hs v w v) (S (v + v))) as E2 by (rewrite Heps, hs_ext1; reflexivity).
      replace (Datatypes.S v + (v - 1)) with (v + v) by lia. rewrite E2.
      transitivity (Fadd (S (v + v)) (Fadd (hs v w v) (hs v w v))); [ring|]. rewrite Fadd_self. ring.
    + (* row v *)
      assert (i = v) as -> by lia. rewrite <- Heps.
      assert (hs (Datatypes.S v) (ext1 v w) (v + 1) = Fadd (hs v w (v + 1)) (S (v + 1 + v))) as E3 by apply hs_ext1.
      unfold c. rewrite E3. replace (Datatypes.S v + v) with (v + 1 + v) by lia.
      set (a := hs v w (v + 1)). set (b := S (v + 1 + v)). set (g := hs v y v).
      transitivity (Fadd (Fadd a (Fmul (Fmul eps einv) (Fadd a b))) (Fadd (Fmul eps g) (Fmul eps g))); [ring|].
      rewrite Hinv, Fadd_self. transitivity (Fadd b (Fadd a a)); [ring|]. rewrite Fadd_self. ring.
Qed.
End Regular.

(* ---- the singular step: a jump of m >= 1 ---- *)
Lemma fsum_tail K K' f : K <= K' -> (forall j, K <= j < K' -> f j = F0) -> fsum K' f = fsum K f.
Proof.
  intros LE H. replace K' with (K + (K' - K)) by lia. rewrite fsum_split.
  rewrite (fsum_zero (K' - K)) by (intros j Hj; apply H; lia). ring.
Qed.

Lemma hs_fsum K M (g : nat -> F) (x : nat -> nat -> F) i :
  hs K (fun j => fsum M (fun a => Fmul (g a) (x a j))) i = fsum M (fun a => Fmul (g a) (hs K (x a) i)).
Proof.
  induction M as [|M' IH]; cbn [fsum].
  - unfold hs. apply fsum_zero. intros; ring.
  - rewrite hs_add, IH, hs_scale. reflexivity.
Qed.

Section Singular.
Variables (v m : nat) (y w : nat -> F) (sinv : F).
Hypothesis Hv : 1 <= v.
Hypothesis Hm : 1 <= m.
Hypothesis I3 : Inv3 v y.
Hypothesis I4 : Inv4 v w.
Let tmp := ext1 v w.
Definition sigma (k : nat) : F := hs (Datatypes.S v) (ext1 v w) (v + k).
Hypothesis Hz : forall k, k < m -> sigma k = F0.
Hypothesis Hinv : Fmul (sigma m) sinv = F1.

Lemma tmp_rows_zero r : r < v + m -> hs (Datatypes.S v) tmp r = F0.
Proof.
  intros Hr. destruct (Nat.lt_ge_cases r v) as [LT|GE]; [apply ext1_annihilated; assumption|].
  replace r with (v + (r - v)) by lia. apply (Hz (r - v)). lia.
Qed.

Lemma tmp_beyond j : v < j -> tmp j = F0.
Proof. intros H. unfold tmp, ext1. destruct (Nat.ltb_spec j v); [lia|]. destruct (Nat.eqb_spec j v); [lia|reflexivity]. Qed.

Definition y_sing : nat -> F := fun j => Fmul (tmp j) sinv.

Lemma singular_inv3 : Inv3 (Datatypes.S (v + m)) y_sing.
Proof.
  intros i Hi. unfold y_sing. rewrite (hs_tail (Datatypes.S v)); [|lia|intros j Hj; rewrite tmp_beyond by lia; ring].
  rewrite (hs_ext _ _ (fun j => Fmul sinv (tmp j))) by (intros; ring). rewrite hs_scale.
  replace (Datatypes.S (v + m) - 1) with (v + m) by lia. unfold delta. destruct (Nat.eqb_spec i (v + m)) as [->|NE].
  - change (hs (Datatypes.S v) tmp (v + m)) with (sigma m). rewrite <- Hinv. ring.
  - rewrite tmp_rows_zero by lia. ring.
Qed.

(* eq. (8): w^{k+1} = U w^k + rho y + eta w solves the system with the right-hand side shifted by one *)
Definition Wk (k : nat) (x : nat -> F) : Prop := forall i, i < v -> hs v x i = S (v + k + i).
Definition wstep (k : nat) (x : nat -> F) : nat -> F :=
  let rho := Fadd (S (2 * v + k)) (hs v x v) in
  let eta := x (v - 1) in
  fun j => Fadd (Fadd (match j with O => F0 | Datatypes.S j' => x j' end) (Fmul rho (y j))) (Fmul eta (w j)).

Lemma Wk_0 : Wk 0 w.
Proof. intros i Hi. rewrite (I4 i Hi). f_equal. lia. Qed.

Lemma wstep_Wk k x : Wk k x -> Wk (Datatypes.S k) (wstep k x).
Proof.
  intros W i Hi. unfold wstep. cbv zeta. set (rho := Fadd (S (2 * v + k)) (hs v x v)). set (eta := x (v - 1)).
  rewrite hs_add, hs_add, hs_scale, hs_scale.
  assert (hs v (fun j => match j with O => F0 | Datatypes.S j' => x j' end) i = Fadd (hs v x (i + 1)) (Fmul (S (i + v)) eta)) as ->.
  { destruct v as [|v'] eqn:EV; [lia|]. rewrite hs_shift1.
    pose proof (hs_S v' x (i + 1)) as E. replace (i + 1 + v') with (i + Datatypes.S v') in E by lia.
    unfold eta. replace (Datatypes.S v' - 1) with v' by lia. rewrite E.
    transitivity (Fadd (hs v' x (i + 1)) (Fadd (Fmul (S (i + Datatypes.S v')) (x v')) (Fmul (S (i + Datatypes.S v')) (x v')))); [rewrite Fadd_self; ring|ring]. }
  rewrite (I3 i Hi), (I4 i Hi). replace (v + i) with (i + v) by lia. unfold delta.
  destruct (Nat.eqb_spec i (v - 1)) as [E|NE].
  - subst i. replace (v - 1 + 1) with v by lia. unfold rho. replace (v + Datatypes.S k + (v - 1)) with (2 * v + k) by lia.
    set (a := hs v x v). pose (b := Fmul (S (v - 1 + v)) eta).
    transitivity (Fadd (S (2 * v + k)) (Fadd (Fadd a a) (Fadd b b))); [unfold b; ring|]. rewrite !Fadd_self. ring.
  - rewrite (W (i + 1)) by lia. replace (v + k + (i + 1)) with (v + Datatypes.S k + i) by lia.
    pose (b := Fmul (S (i + v)) eta). transitivity (Fadd (S (v + Datatypes.S k + i)) (Fadd b b)); [unfold b; ring|]. rewrite Fadd_self. ring.
Qed.

(* eq. (9)/(10): the new w *)
Variables (z gam : nat -> F).
Hypothesis Hzk : Wk (Datatypes.S m) z.
Definition g0 (q : nat) : F := Fadd (S (v + m + v + 1 + q)) (hs v z (v + q)).
Hypothesis Hgam : forall q, q <= m -> fsum (Datatypes.S q) (fun i => Fmul (sigma (m + q - i)) (gam i)) = g0 q.

Definition placed (i : nat) : nat -> F := fun j => if j <? m - i then F0 else tmp (j - (m - i)).
Definition w_sing : nat -> F :=
  fun j => Fadd (if j <? v then z j else F0) (fsum (Datatypes.S m) (fun i => Fmul (gam i) (placed i j))).

Lemma hs_placed i r : i <= m -> hs (Datatypes.S (v + m)) (placed i) r = hs (Datatypes.S v) tmp (r + (m - i)).
Proof.
  intros Hi. replace (Datatypes.S (v + m)) with ((m - i) + (Datatypes.S v + i)) by lia. unfold placed.
  rewrite hs_offset. apply hs_tail; [lia|]. intros j Hj. apply tmp_beyond. lia.
Qed.

Lemma singular_inv4 : Inv4 (Datatypes.S (v + m)) w_sing.
Proof.
  intros r Hr. unfold w_sing. rewrite hs_add, hs_fsum.
  assert (hs (Datatypes.S (v + m)) (fun j => if j <? v then z j else F0) r = hs v z r) as ->.
  { rewrite (hs_tail v); [|lia|intros j Hj; destruct (Nat.ltb_spec j v); [lia|reflexivity]].
    apply hs_ext. intros j Hj. destruct (Nat.ltb_spec j v); [reflexivity|lia]. }
  rewrite (fsum_ext _ _ (fun i => Fmul (gam i) (hs (Datatypes.S v) tmp (r + (m - i))))) by (intros i Hi; rewrite hs_placed by lia; reflexivity).
  destruct (Nat.lt_ge_cases r v) as [LT|GE].
  - rewrite fsum_zero by (intros i Hi; rewrite tmp_rows_zero by lia; ring).
    rewrite (Hzk r LT). replace (Datatypes.S (v + m) + r) with (v + Datatypes.S m + r) by lia. ring.
  - remember (r - v) as q eqn:Eq. assert (r = v + q) as -> by lia. assert (q <= m) as Hq by lia. clear Eq.
    rewrite (fsum_tail (Datatypes.S q)); [|lia|intros i Hi; rewrite tmp_rows_zero by lia; ring].
    rewrite (fsum_ext _ _ (fun i => Fmul (sigma (m + q - i)) (gam i))).
    + rewrite (Hgam q Hq). unfold g0. replace (Datatypes.S (v + m) + (v + q)) with (v + m + v + 1 + q) by lia.
      set (a := hs v z (v + q)). transitivity (Fadd (S (v + m + v + 1 + q)) (Fadd a a)); [ring|]. rewrite Fadd_self. ring.
    + intros i Hi. unfold sigma, tmp. replace (v + q + (m - i)) with (v + (m + q - i)) by lia. ring.
Qed.
End Singular.
End Hankel.
