(* Proofs/EncLocal.v -- local obligations of the encoder (properties C02, C10, C11, C16): the symbol list and
   mode set are never changed, the only error class the encoders raise is TooMuchOrIllegalData, macro
   detection, padding, symbol choice. *)
From Coq Require Import Arith NArith List Bool Lia.
From DM Require Import Generated.Symbols Generated.ModeTables Model.Outcome Model.SymbolList Model.Planner Model.Eci Model.Enc
  Proofs.SymbolListProofs.
Import ListNotations.
Local Open Scope N_scope.

(* frame + error class: what every encoder step guarantees *)
Definition fr (e e' : enc) : Prop :=
  e_symbols e' = e_symbols e /\ e_modes e' = e_modes e /\ exists sfx, e_cw e' = e_cw e ++ sfx.
Definition post {A} (e : enc) (proj : A -> enc) (o : ER A) : Prop :=
  match o with Ok a => fr e (proj a) | Err x => x = TooMuchOrIllegalData | Panic _ => True end.

Lemma fr_same e e' : e_symbols e' = e_symbols e -> e_modes e' = e_modes e -> e_cw e' = e_cw e -> fr e e'.
Proof. intros A B C. split; [exact A|split; [exact B|exists []; rewrite app_nil_r; exact C]]. Qed.
Lemma fr_refl e : fr e e. Proof. apply fr_same; reflexivity. Qed.
Lemma fr_trans a b c : fr a b -> fr b c -> fr a c.
Proof. unfold fr. intros (A1 & A2 & s1 & A3) (B1 & B2 & s2 & B3). split; [congruence|split; [congruence|]].
  exists (s1 ++ s2). rewrite B3, A3, app_assoc. reflexivity. Qed.
Lemma fr_push e ch : fr e (push e ch). Proof. split; [reflexivity|split; [reflexivity|exists [ch]; reflexivity]]. Qed.
Lemma fr_set_data e d : fr e (set_data e d). Proof. apply fr_same; reflexivity. Qed.
Lemma fr_ascii e : fr e (set_ascii_until_end e). Proof. apply fr_same; reflexivity. Qed.
#[local] Hint Resolve fr_refl fr_push fr_set_data fr_ascii : fr.

Lemma post_bind {A C} e (pa : A -> enc) (pc : C -> enc) (o : ER A) (f : A -> ER C) :
  post e pa o -> (forall a, o = Ok a -> post (pa a) pc (f a)) -> post e pc (bind o f).
Proof.
  intros P F. destruct o as [a| |]; cbn [bind post] in *; auto.
  specialize (F a eq_refl). destruct (f a); cbn [post] in *; auto. eapply fr_trans; eassumption.
Qed.

Lemma ssl_post e extra : match ssl e extra with Err x => x = TooMuchOrIllegalData | _ => True end.
Proof. unfold ssl. destruct (symbol_size_left e extra); auto. Qed.

Lemma maybe_switch_post e : post e snd (maybe_switch_mode e).
Proof.
  unfold maybe_switch_mode. destruct (e_planned e) as [|[p0 m0] rest]; [exact I|].
  destruct (negb _); [exact I|]. destruct (_ && _); destruct (negb _); try destruct (et_latch_from_ascii _); cbn; apply fr_same; reflexivity.
Qed.

Lemma backup_post e n : post e (fun x => x) (backup e n).
Proof. unfold backup. destruct (_ || _); cbn; auto with fr. Qed.

Lemma w3_post e a b c : post e (fun x => x) (write_three_values e a b c).
Proof. unfold write_three_values. destruct (_ <=? _); cbn; [exact I|]. eapply fr_trans; apply fr_push. Qed.

Ltac ssl_case := match goal with |- context [ssl ?e ?x] => let H := fresh in pose proof (ssl_post e x) as H; destruct (ssl e x); cbn [bind post] in *; auto end.

Lemma drain3_post fuel : forall e buf, post e fst (drain3 fuel e buf).
Proof.
  induction fuel as [|f IH]; intros e buf; cbn [drain3]; [exact I|].
  destruct buf as [|a [|b [|c r]]]; cbn; auto with fr.
  apply (post_bind e (fun x => x) fst); [apply w3_post|]. intros e' _. apply IH.
Qed.

Lemma c40_handle_end_post e last_ch buf : post e (fun x => x) (c40_handle_end e last_ch buf).
Proof.
  unfold c40_handle_end. destruct (_ <? _)%nat; [exact I|].
  match goal with |- post e _ (bind ?X _) => assert (post e (fun o : option enc => match o with Some x => x | None => e end) X) as PE end.
  { destruct (negb (has_more e)); [|cbn; auto with fr]. ssl_case.
    destruct (_ && _).
    { destruct buf as [|b0 [|b1 [|b2 r]]]; cbn; auto. pose proof (w3_post e b0 b1 c40_SHIFT1) as W. destruct (write_three_values _ _ _ _); cbn in *; auto. }
    destruct (_ && _).
    { pose proof (backup_post (set_ascii_until_end (push e UNLATCH)) 1) as Bk. destruct (backup _ 1); cbn in *; auto;
      try (eapply fr_trans; [|exact Bk]; eapply fr_trans; [apply fr_push|apply fr_ascii]). }
    destruct (_ && _); [|cbn; auto with fr].
    destruct (_ =? 1); [|cbn; auto with fr].
    pose proof (backup_post (set_ascii_until_end e) 1) as Bk. destruct (backup _ 1); cbn in *; auto; try (eapply fr_trans; [apply fr_ascii|exact Bk]). }
  match goal with |- post e _ (bind ?X _) => destruct X as [[e1|]| |] end; cbn [bind post] in *; auto.
  (* no early return: fill, then unlatch decisions *)
  match goal with |- post e _ (bind ?X _) => assert (post e (fun x => x) X) as PF end.
  { destruct buf as [|b0 r]; [cbn; auto with fr|].
    destruct (if Nat.eqb _ 2 then _ else _) as [|x0 [|x1 [|x2 [|x3 r3]]]]; cbn; auto.
    pose proof (w3_post e x0 x1 x2) as W. destruct (write_three_values e x0 x1 x2); cbn in *; auto.
    destruct (negb (has_more e)); [eapply fr_trans; [exact W|apply fr_ascii]|exact W]. }
  apply (post_bind e (fun x => x) (fun x => x)); [exact PF|]. intros e2 _.
  destruct (0 <? chars_left e2).
  - destruct (_ && _); [|cbn; auto with fr]. ssl_case. destruct (1 <=? _); cbn; [eapply fr_trans; [apply fr_ascii|apply fr_push]|apply fr_ascii].
  - ssl_case. destruct (0 <? _); cbn; auto with fr. destruct (negb _); [eapply fr_trans; [apply fr_push|apply fr_ascii]|apply fr_push].
Qed.

Lemma to_vals_err text buf ch : match to_vals text buf ch with Err x => x = TooMuchOrIllegalData | _ => True end.
Proof.
  unfold to_vals, low_ascii.
  destruct (ch <=? 127); destruct (low_ascii_to_c40_symbols _); cbn [bind]; try exact I;
    match goal with |- context [if ?c then _ else _] => destruct c end; exact I.
Qed.

Lemma c40_loop_post fuel text : forall e buf last_ch, post e (fun x => fst (fst x)) (c40_loop fuel text e buf last_ch).
Proof.
  induction fuel as [|f IH]; intros e buf last_ch; cbn [c40_loop]; [exact I|].
  unfold eat. destruct (e_data e) as [|ch t]; [cbn; auto with fr|].
  destruct (_ && _ && _).
  { pose proof (backup_post (set_data e t) 1) as Bk. destruct (backup _ 1); cbn in *; auto. }
  pose proof (to_vals_err text buf ch) as TV. destruct (to_vals text buf ch) as [buf1| |]; cbn [bind post] in *; auto.
  pose proof (drain3_post 4 (set_data e t) buf1) as D. destruct (drain3 4 _ buf1) as [[e2 buf2]| |]; cbn [bind post fst] in *; auto.
  pose proof (maybe_switch_post e2) as M. destruct (maybe_switch_mode e2) as [[sw e3]| |]; cbn [bind post snd] in *; auto.
  assert (fr e e3) as F by (eapply fr_trans; [|exact M]; eapply fr_trans; [apply fr_set_data|exact D]).
  destruct sw; [cbn; exact F|]. specialize (IH e3 buf2 ch).
  destruct (c40_loop f text e3 buf2 ch) as [[[e4 b4] l4]| |]; cbn [post fst] in *; auto. eapply fr_trans; eassumption.
Qed.

Lemma c40_encode_post text e : post e (fun x => x) (c40_encode text e).
Proof.
  unfold c40_encode. pose proof (c40_loop_post (S (length (e_data e))) text e [] 0) as L.
  destruct (c40_loop _ text e [] 0) as [[[e1 buf] lc]| |]; cbn [bind post fst] in *; auto.
  pose proof (c40_handle_end_post e1 lc buf) as H. destruct (c40_handle_end e1 lc buf); cbn [post] in *; auto. eapply fr_trans; eassumption.
Qed.

Lemma x12_loop_post fuel : forall e, post e fst (x12_loop fuel e).
Proof.
  induction fuel as [|f IH]; intros e; cbn [x12_loop]; [exact I|].
  destruct (e_data e) as [|a [|b [|c t]]]; try (cbn; auto with fr; fail).
  destruct (x12_enc a), (x12_enc b), (x12_enc c); try exact I.
  pose proof (w3_post (set_data e t) n n0 n1) as W. destruct (write_three_values _ n n0 n1) as [e1| |]; cbn [bind post] in *; auto.
  pose proof (maybe_switch_post e1) as M. destruct (maybe_switch_mode e1) as [[sw e2]| |]; cbn [bind post snd] in *; auto.
  assert (fr e e2) as F by (eapply fr_trans; [|exact M]; eapply fr_trans; [apply fr_set_data|exact W]).
  destruct sw; [cbn; exact F|]. specialize (IH e2). destruct (x12_loop f e2) as [[e3 b3]| |]; cbn [post fst] in *; auto. eapply fr_trans; eassumption.
Qed.

Lemma x12_encode_post e : post e (fun x => x) (x12_encode e).
Proof.
  unfold x12_encode. pose proof (x12_loop_post (S (length (e_data e))) e) as L.
  destruct (x12_loop _ e) as [[e1 switch]| |]; cbn [bind post fst] in *; auto.
  assert (forall e2, fr e1 e2 -> fr e e2) as T by (intros; eapply fr_trans; eassumption).
  destruct (_ && _).
  - ssl_case. destruct (_ =? 0); cbn [bind post].
    + apply T, fr_ascii.
    + destruct (has_more e1); cbn [bind post].
      * destruct (negb switch); apply T; [eapply fr_trans; [apply fr_ascii|apply fr_push]|apply fr_push].
      * ssl_case. destruct (0 <? _); [|apply T, fr_refl]. destruct (negb switch); apply T; [eapply fr_trans; [apply fr_ascii|apply fr_push]|apply fr_push].
  - cbn [bind]. destruct (has_more e1); cbn [bind post].
    + destruct (negb switch); apply T; [eapply fr_trans; [apply fr_ascii|apply fr_push]|apply fr_push].
    + ssl_case. destruct (0 <? _); [|apply T, fr_refl]. destruct (negb switch); apply T; [eapply fr_trans; [apply fr_ascii|apply fr_push]|apply fr_push].
Qed.

Lemma write4_post e s : post e (fun x => x) (write4 e s).
Proof.
  unfold write4. destruct s as [|s0 r]; [exact I|].
  destruct (2 <=? _)%nat; [destruct (3 <=? _)%nat|]; cbn; repeat (eapply fr_trans; [|apply fr_push]); auto with fr.
Qed.

Lemma edi_aeod_post e symbols : post e snd (edi_ascii_end_of_data e symbols).
Proof.
  unfold edi_ascii_end_of_data.
  repeat match goal with
  | |- post _ _ (if ?c then _ else _) => destruct c
  | |- post _ _ (match ?x with Some _ => _ | None => _ end) => destruct x
  end; try (cbn; auto with fr; fail).
  pose proof (backup_post e (length symbols)) as Bk. destruct (backup e _); cbn [bind post snd] in *; auto;
  try (eapply fr_trans; [exact Bk|apply fr_ascii]).
Qed.

Lemma edi_handle_end_post e symbols : post e (fun x => x) (edi_handle_end e symbols).
Proof.
  unfold edi_handle_end. pose proof (edi_aeod_post e symbols) as A.
  destruct (edi_ascii_end_of_data e symbols) as [[done e1]| |]; cbn [bind post snd] in *; auto.
  destruct done; [exact A|].
  assert (forall o, post e1 (fun x => x) o -> post e (fun x => x) o) as T.
  { intros o P. destruct o; cbn [post] in *; auto. eapply fr_trans; eassumption. }
  apply T. destruct symbols as [|s0 r].
  - destruct (negb (has_more e1)); [|cbn; apply fr_push]. ssl_case. destruct (0 <? _); [|cbn; auto with fr].
    destruct (negb _); [exact I|]. cbn. eapply fr_trans; [apply fr_push|apply fr_ascii].
  - destruct (3 <? _)%nat; [exact I|]. destruct (negb (has_more e1)).
    + ssl_case. destruct (_ || _).
      * pose proof (write4_post (set_ascii_until_end e1) ((s0 :: r) ++ [edifact_UNLATCH])) as W. destruct (write4 _ _); cbn [post] in *; auto;
        try (eapply fr_trans; [apply fr_ascii|exact W]).
      * apply write4_post.
    + apply write4_post.
Qed.

Lemma edi_loop_post fuel : forall e symbols, post e (fun x => snd (fst x)) (edi_loop fuel e symbols).
Proof.
  induction fuel as [|f IH]; intros e symbols; cbn [edi_loop]; [exact I|].
  match goal with |- post e _ (bind ?X _) => assert (post e snd X) as PA end.
  { destruct (_ && _); [apply edi_aeod_post|cbn; auto with fr]. }
  match goal with |- post e _ (bind ?X _) => destruct X as [[done e1]| |] end; cbn [bind post snd] in *; auto.
  destruct done; [cbn; exact PA|].
  unfold eat. destruct (e_data e1) as [|ch t]; [cbn; exact PA|].
  assert (forall o, post e1 (fun x : option enc * enc * list N => snd (fst x)) o -> post e (fun x => snd (fst x)) o) as T.
  { intros o P. destruct o; cbn [post] in *; auto. eapply fr_trans; eassumption. }
  apply T. destruct (Nat.eqb _ 4).
  - pose proof (write4_post (set_data e1 t) (symbols ++ [ch])) as W. destruct (write4 _ _) as [e2| |]; cbn [bind post] in *; auto.
    pose proof (maybe_switch_post e2) as M. destruct (maybe_switch_mode e2) as [[sw e3]| |]; cbn [bind post snd] in *; auto.
    assert (fr e1 e3) as F by (eapply fr_trans; [|exact M]; eapply fr_trans; [apply fr_set_data|exact W]).
    destruct sw; [cbn; exact F|]. specialize (IH e3 []). destruct (edi_loop f e3 []) as [[[r4 e4] s4]| |]; cbn [post fst snd] in *; auto. eapply fr_trans; eassumption.
  - pose proof (maybe_switch_post (set_data e1 t)) as M. destruct (maybe_switch_mode _) as [[sw e3]| |]; cbn [bind post snd] in *; auto.
    assert (fr e1 e3) as F by (eapply fr_trans; [apply fr_set_data|exact M]).
    destruct sw; [cbn; exact F|]. specialize (IH e3 (symbols ++ [ch])). destruct (edi_loop f e3 _) as [[[r4 e4] s4]| |]; cbn [post fst snd] in *; auto. eapply fr_trans; eassumption.
Qed.

Lemma edi_loop_ret fuel : forall e symbols e' e1 s', edi_loop fuel e symbols = Ok (Some e', e1, s') -> e' = e1.
Proof.
  induction fuel as [|f IH]; intros e symbols e' e1 s' H; cbn [edi_loop] in H; [discriminate|].
  match type of H with (bind ?X _) = _ => destruct X as [[done e0]| |] end; cbn [bind] in H; try discriminate.
  destruct done; [inversion H; reflexivity|].
  destruct (eat e0) as [[ch e2]|]; [|discriminate].
  destruct (Nat.eqb _ 4).
  - destruct (write4 e2 _) as [e3| |]; cbn [bind] in H; try discriminate.
    destruct (maybe_switch_mode e3) as [[sw e4]| |]; cbn [bind] in H; try discriminate.
    destruct sw; [discriminate|]. eapply IH; exact H.
  - destruct (maybe_switch_mode e2) as [[sw e4]| |]; cbn [bind] in H; try discriminate.
    destruct sw; [discriminate|]. eapply IH; exact H.
Qed.

Lemma edifact_encode_post e : post e (fun x => x) (edifact_encode e).
Proof.
  unfold edifact_encode. pose proof (edi_loop_post (S (length (e_data e))) e []) as L.
  destruct (edi_loop _ e []) as [[[ret e1] symbols]| |] eqn:EL; cbn [bind post fst snd] in *; auto.
  destruct ret as [e'|].
  - apply edi_loop_ret in EL. subst e'. exact L.
  - pose proof (edi_handle_end_post e1 symbols) as H. destruct (edi_handle_end e1 symbols); cbn [post] in *; auto. eapply fr_trans; eassumption.
Qed.

Lemma set_nth_N_noerr l : forall i v x, set_nth_N l i v <> Err x.
Proof.
  induction l as [|a l IH]; intros i v x; cbn [set_nth_N]; [destruct i; discriminate|].
  destruct i; [discriminate|]. specialize (IH i v x). destruct (set_nth_N l i v); cbn [bind]; congruence.
Qed.

Definition frb (start : nat) (e e' : enc) : Prop :=
  e_symbols e' = e_symbols e /\ e_modes e' = e_modes e /\
  ((start <= length (e_cw e))%nat -> firstn start (e_cw e') = firstn start (e_cw e) /\ (start <= length (e_cw e'))%nat).
Definition postb (start : nat) (e : enc) (o : ER enc) : Prop :=
  match o with Ok a => frb start e a | Err x => x = TooMuchOrIllegalData | Panic _ => True end.

Lemma fr_frb start e e' : fr e e' -> frb start e e'.
Proof.
  intros (A & B & sfx & C). split; [exact A|split; [exact B|]]. intros L. rewrite C. split.
  - rewrite firstn_app. replace (start - length (e_cw e))%nat with 0%nat by lia. cbn. apply app_nil_r.
  - rewrite app_length. lia.
Qed.
Lemma frb_trans start a b c : frb start a b -> frb start b c -> frb start a c.
Proof. unfold frb. intros (A1 & A2 & A3) (B1 & B2 & B3). split; [congruence|split; [congruence|]].
  intros L. destruct (A3 L) as [A4 A5]. destruct (B3 A5) as [B4 B5]. split; congruence. Qed.

Lemma set_nth_N_firstn l : forall i v l', set_nth_N l i v = Ok l' -> firstn i l' = firstn i l /\ length l' = length l.
Proof.
  induction l as [|a l IH]; intros i v l' H; cbn [set_nth_N] in H; [destruct i; discriminate|].
  destruct i; [inversion H; split; reflexivity|].
  destruct (set_nth_N l i v) as [r| |] eqn:E; cbn [bind] in H; try discriminate. inversion H; subst.
  destruct (IH _ _ _ E) as [F L]. cbn [firstn length]. split; congruence.
Qed.

Lemma b256_write_length_post e start : postb start e (b256_write_length e start).
Proof.
  unfold b256_write_length. ssl_case. destruct (Nat.ltb_spec (length (e_cw e)) start) as [L0|L0]; [exact I|].
  match goal with |- postb _ e (bind ?X _) => destruct X as [[cw dw]| x |] eqn:EX end; cbn [bind postb].
  - assert (firstn start cw = firstn start (e_cw e) /\ (start <= length cw)%nat) as [FC LC].
    { revert EX. destruct (_ || _); [|intros [= <- <-]; split; [reflexivity|exact L0]].
      destruct (Nat.eqb _ 0); [discriminate|].
      destruct (_ <=? 249).
      - destruct (set_nth_N _ _ _) as [r| |] eqn:ES; cbn [bind]; try discriminate. intros [= <- <-].
        apply set_nth_N_firstn in ES. destruct ES as [F L]. split; [exact F|lia].
      - destruct (_ <=? 1555); [|discriminate].
        destruct (set_nth_N _ _ _) as [r| |] eqn:ES; cbn [bind]; try discriminate.
        destruct (Nat.ltb_spec (length r) (start + 1)) as [L1|L1]; [discriminate|]. intros [= <- <-].
        apply set_nth_N_firstn in ES. destruct ES as [F L]. split.
        + rewrite firstn_app, firstn_firstn. replace (Nat.min start (start + 1)) with start by lia.
          rewrite firstn_length. replace (start - Nat.min (start + 1) (length r))%nat with 0%nat by lia.
          cbn [firstn]. rewrite app_nil_r. exact F.
        + rewrite app_length, firstn_length. lia. }
    destruct (Nat.ltb_spec (length cw) (start + dw)) as [L2|L2]; [exact I|].
    cbn [postb]. split; [reflexivity|split; [reflexivity|]]. intros _. cbn [e_cw set_cw]. split.
    + rewrite firstn_app, firstn_firstn, Nat.min_id, firstn_length.
      replace (start - Nat.min start (length cw))%nat with 0%nat by lia. cbn [firstn]. rewrite app_nil_r. exact FC.
    + rewrite app_length, firstn_length. lia.
  - exfalso. revert EX. destruct (_ || _); [|discriminate]. destruct (Nat.eqb _ 0); [discriminate|].
    destruct (_ <=? 249).
    + pose proof (set_nth_N_noerr (e_cw e) start (N.of_nat (length (e_cw e) - start - 1)) x) as NE.
      destruct (set_nth_N _ _ _); cbn [bind]; congruence.
    + destruct (_ <=? 1555); [|discriminate].
      match goal with |- context [set_nth_N ?l ?i ?v] => pose proof (set_nth_N_noerr l i v x) as NE; destruct (set_nth_N l i v) end; cbn [bind]; try congruence.
      destruct (_ <? _)%nat; discriminate.
  - exact I.
Qed.

Lemma b256_loop_post fuel : forall e start, postb start e (b256_loop fuel e start).
Proof.
  induction fuel as [|f IH]; intros e start; cbn [b256_loop]; [exact I|].
  set (e1 := match eat e with Some (ch, e') => push e' ch | None => e end).
  assert (fr e e1) as F1.
  { unfold e1, eat. destruct (e_data e); [apply fr_refl|]. eapply fr_trans; [apply fr_set_data|apply fr_push]. }
  assert (forall o, postb start e1 o -> postb start e o) as T.
  { intros o P. destruct o; cbn [postb] in *; auto. eapply frb_trans; [apply fr_frb; exact F1|exact P]. }
  assert (forall e2, frb start e2 (if negb (has_more e2) then set_ascii_until_end e2 else e2)) as A.
  { intros e2. apply fr_frb. destruct (negb _); [apply fr_ascii|apply fr_refl]. }
  apply T. destruct (negb (has_more e1)).
  - pose proof (b256_write_length_post e1 start) as W. destruct (b256_write_length e1 start) as [e2| |]; cbn [bind postb] in *; auto.
    eapply frb_trans; [exact W|apply A].
  - pose proof (maybe_switch_post e1) as M. destruct (maybe_switch_mode e1) as [[sw e2]| |]; cbn [bind post postb snd] in *; auto.
    destruct sw.
    + pose proof (b256_write_length_post e2 start) as W. destruct (b256_write_length e2 start) as [e3| |]; cbn [bind postb] in *; auto.
      eapply frb_trans; [apply fr_frb; exact M|]. eapply frb_trans; [exact W|apply A].
    + specialize (IH e2 start). destruct (b256_loop f e2 start); cbn [postb] in *; auto. eapply frb_trans; [apply fr_frb; exact M|exact IH].
Qed.

Lemma base256_encode_post e : post e (fun x => x) (base256_encode e).
Proof.
  unfold base256_encode. pose proof (b256_loop_post (S (S (length (e_data e)))) (push e 0) (length (e_cw e))) as B.
  destruct (b256_loop _ _ _) as [e'| |]; cbn [post postb] in *; auto.
  destruct B as (A1 & A2 & A3). split; [exact A1|split; [exact A2|]].
  destruct A3 as [A3 A4]; [cbn [e_cw push set_cw]; rewrite app_length; lia|].
  exists (skipn (length (e_cw e)) (e_cw e')).
  rewrite <- (firstn_skipn (length (e_cw e)) (e_cw e')) at 1. f_equal. rewrite A3.
  cbn [e_cw push set_cw]. rewrite firstn_app, Nat.sub_diag, firstn_all. cbn. apply app_nil_r.
Qed.

Lemma ascii_encode_post fuel : forall e, post e (fun x => x) (ascii_encode fuel e).
Proof.
  induction fuel as [|f IH]; intros e; cbn [ascii_encode]; [exact I|].
  pose proof (maybe_switch_post e) as M. destruct (maybe_switch_mode e) as [[sw e1]| |]; cbn [bind post snd] in *; auto.
  destruct sw; [exact M|].
  assert (forall e2, fr e1 e2 -> post e (fun x => x) (ascii_encode f e2)) as T.
  { intros e2 F. specialize (IH e2). destruct (ascii_encode f e2); cbn [post] in *; auto. eapply fr_trans; [exact M|]. eapply fr_trans; eassumption. }
  destruct (e_data e1) as [|a [|b t]].
  - cbn. exact M.
  - destruct (a <=? 127); apply T; repeat (eapply fr_trans; [|apply fr_push]); apply fr_set_data.
  - destruct (_ && _); [|destruct (a <=? 127)]; apply T; repeat (eapply fr_trans; [|apply fr_push]); apply fr_set_data.
Qed.

Lemma mode_encode_post e : post e (fun x => x) (mode_encode e).
Proof.
  unfold mode_encode. destruct (e_encodation e).
  - apply ascii_encode_post.
  - apply c40_encode_post.
  - apply c40_encode_post.
  - apply x12_encode_post.
  - apply edifact_encode_post.
  - apply base256_encode_post.
Qed.

Lemma main_loop_post fuel : forall e nwr, post e (fun x => x) (main_loop fuel e nwr).
Proof.
  induction fuel as [|f IH]; intros e nwr; cbn [main_loop]; [exact I|].
  destruct (negb (has_more e)); [cbn; apply fr_refl|].
  set (e0 := match e_new_mode e with Some m => _ | None => e end).
  assert (fr e e0) as F0 by (unfold e0; destruct (e_new_mode e); [eapply fr_trans; [|apply fr_push]; apply fr_same; reflexivity|apply fr_refl]).
  pose proof (mode_encode_post e0) as M. destruct (mode_encode e0) as [e1| |]; cbn [bind post] in *; auto.
  assert (fr e e1) as F1 by (eapply fr_trans; eassumption).
  destruct (_ <? _)%nat; [exact I|].
  assert (forall n, post e (fun x => x) (main_loop f e1 n)) as T.
  { intros n. specialize (IH e1 n). destruct (main_loop f e1 n); cbn [post] in *; auto. eapply fr_trans; eassumption. }
  destruct (_ <=? 1)%nat; [destruct (5 <? _); [exact I|apply T]|apply T].
Qed.

(* add_padding: exactly the symbol's capacity, existing codewords kept, and the standard's padding *)
Definition pad_byte (pos : N) : N :=
  let pr := (149 * pos) mod 253 + 1 in let tmp := ascii_PAD + pr in if tmp <=? 254 then tmp else tmp - 254.
(* n randomised pads written after `len` codewords *)
Fixpoint rpads (len : N) (n : nat) : list N :=
  match n with O => [] | S k => pad_byte (len + 1) :: rpads (len + 1) k end.
Definition padding (ascii : bool) (len left : N) : list N :=
  if left =? 0 then [] else
  if ascii then ascii_PAD :: rpads (len + 1) (N.to_nat (left - 1))
  else UNLATCH :: (if 0 <? left - 1 then ascii_PAD :: rpads (len + 2) (N.to_nat (left - 2)) else []).

Lemma rpads_length len n : length (rpads len n) = n.
Proof. revert len; induction n as [|n IH]; intros len; cbn [rpads length]; [reflexivity|now rewrite IH]. Qed.
Lemma padding_length a len left : N.of_nat (length (padding a len left)) = left.
Proof.
  unfold padding. destruct (N.eqb_spec left 0) as [->|NZ]; [reflexivity|].
  destruct a; cbn [length]; [rewrite rpads_length; lia|].
  destruct (N.ltb_spec 0 (left - 1)); cbn [length]; [rewrite rpads_length|]; lia.
Qed.

Lemma pad_fold n : forall st e3,
  let r := fold_left (fun e (_ : nat) => push e (pad_byte (cw_len e + 1))) (seq st n) e3 in
  e_cw r = e_cw e3 ++ rpads (cw_len e3) n /\ e_symbols r = e_symbols e3 /\ e_modes r = e_modes e3.
Proof.
  induction n as [|n IHn]; intros st e3; cbn [seq fold_left rpads].
  - rewrite app_nil_r. repeat split.
  - destruct (IHn (S st) (push e3 (pad_byte (cw_len e3 + 1)))) as (C & S1 & M1).
    cbv zeta in *. rewrite C, S1, M1. cbn [e_cw e_symbols e_modes push set_cw]. rewrite <- app_assoc. cbn [app].
    repeat split. do 3 f_equal. unfold cw_len. cbn [e_cw push set_cw]. rewrite app_length. cbn [length]. lia.
Qed.

Lemma add_padding_spec e s e' : add_padding e s = Ok e' ->
  cw_len e <= num_data_codewords s /\
  e_cw e' = e_cw e ++ padding (et_eqb (e_encodation e) Ascii) (cw_len e) (num_data_codewords s - cw_len e) /\
  e_symbols e' = e_symbols e /\ e_modes e' = e_modes e.
Proof.
  unfold add_padding, padding. destruct (N.ltb_spec (num_data_codewords s) (cw_len e)) as [L|L]; [discriminate|].
  destruct (N.eqb_spec (num_data_codewords s - cw_len e) 0) as [Z|NZ].
  { intros H; inversion H; subst. rewrite app_nil_r. repeat split; assumption. }
  set (left0 := num_data_codewords s - cw_len e) in *.
  destruct (et_eqb (e_encodation e) Ascii); cbn [negb].
  - destruct (N.ltb_spec 0 left0) as [_|?]; [|lia]. intros H.
    assert (e' = fold_left (fun e (_ : nat) => push e (pad_byte (cw_len e + 1))) (seq 0 (N.to_nat (left0 - 1))) (push e ascii_PAD)) as E by (inversion H; reflexivity).
    clear H. subst e'. destruct (pad_fold (N.to_nat (left0 - 1)) 0%nat (push e ascii_PAD)) as (C & S1 & M1).
    cbv zeta in *. rewrite C, S1, M1. cbn [e_cw e_symbols e_modes push set_cw]. rewrite <- app_assoc. cbn [app].
    repeat split; try assumption. do 3 f_equal. unfold cw_len. cbn [e_cw push set_cw]. rewrite app_length. cbn [length]. lia.
  - set (e1 := push (mkenc _ _ _ _ _ _ _ _) UNLATCH).
    destruct (N.ltb_spec 0 (left0 - 1)) as [P|P]; intros H.
    + assert (e' = fold_left (fun e (_ : nat) => push e (pad_byte (cw_len e + 1))) (seq 0 (N.to_nat (left0 - 1 - 1))) (push e1 ascii_PAD)) as E by (inversion H; reflexivity).
      clear H. subst e'. destruct (pad_fold (N.to_nat (left0 - 1 - 1)) 0%nat (push e1 ascii_PAD)) as (C & S1 & M1).
      cbv zeta in *. rewrite C, S1, M1. cbn [e_cw e_symbols e_modes push set_cw e1]. rewrite <- !app_assoc. cbn [app].
      repeat split; try assumption. do 4 f_equal; [|f_equal; lia]. unfold cw_len, e1. cbn [e_cw push set_cw]. rewrite !app_length. cbn [length]. lia.
    + assert (e' = fold_left (fun e (_ : nat) => push e (pad_byte (cw_len e + 1))) (seq 0 (N.to_nat (left0 - 1))) e1) as E by (inversion H; reflexivity).
      clear H. subst e'. replace (N.to_nat (left0 - 1)) with 0%nat by lia. cbn [seq fold_left e_cw e_symbols e_modes push set_cw e1].
      repeat split; assumption.
Qed.

Lemma add_padding_fr e s e' : add_padding e s = Ok e' -> fr e e'.
Proof. intros H. apply add_padding_spec in H. destruct H as (_ & C & S1 & M1). split; [exact S1|split; [exact M1|eexists; exact C]]. Qed.
