(* Proofs/LDBridge.v -- from the list-of-N computations of Model/RSDec.v to the functions nat -> F of Proofs/LDMath.v:
   entries of the lists read through toF, dot products of syndrome slices as Hankel rows, division, and the effect of
   the in-place update idioms (zip_upd, set_ok, shifts) on single entries. *)
From Coq Require Import Arith NArith List Bool Lia Ring Field.
From DM Require Import Spec.GF256 Spec.Poly Model.Outcome Model.GF Model.RSEnc Model.RSDec Proofs.GFTie Proofs.RSEncProofs
  Proofs.RSDecProofs Proofs.LDBound Proofs.RSTotal Proofs.LDMath.
Import ListNotations.
Local Open Scope nat_scope.

Lemma nth_firstn' {A} (d : A) : forall n (l : list A) j, nth j (firstn n l) d = if j <? n then nth j l d else d.
Proof.
  induction n as [|n IH]; intros l j; [destruct j; reflexivity|]. destruct l as [|x r]; [cbn [firstn]; destruct j; destruct (_ <? _); reflexivity|].
  destruct j as [|j]; [reflexivity|]. cbn [firstn nth]. rewrite IH. reflexivity.
Qed.
Lemma nth_skipn' {A} (d : A) : forall n (l : list A) j, nth j (skipn n l) d = nth (n + j) l d.
Proof. induction n as [|n IH]; intros l j; [reflexivity|]. destruct l as [|x r]; [destruct j; reflexivity|]. cbn [skipn Nat.add nth]. apply IH. Qed.
Lemma Forall_firstn {A} (P : A -> Prop) n l : Forall P l -> Forall P (firstn n l).
Proof. revert l. induction n as [|n IH]; intros l H; [constructor|]. destruct H; cbn [firstn]; constructor; auto. Qed.
Lemma Forall_skipn {A} (P : A -> Prop) n l : Forall P l -> Forall P (skipn n l).
Proof. revert l. induction n as [|n IH]; intros l H; [exact H|]. destruct H; cbn [skipn]; [constructor|auto]. Qed.

Definition vf (l : list N) : nat -> F := fun j => toF (nth j l 0%N).

Lemma byte_0 : byte 0%N. Proof. unfold byte. lia. Qed.
Lemma byte_1 : byte 1%N. Proof. unfold byte. lia. Qed.
Lemma nth_byte l j : Forall byte l -> byte (nth j l 0%N).
Proof.
  intros H. destruct (Nat.lt_ge_cases j (length l)) as [LT|GE]; [|rewrite nth_overflow by lia; exact byte_0].
  exact (proj1 (Forall_forall _ _) H _ (nth_In _ _ LT)).
Qed.
Lemma toF_inj a b : byte a -> byte b -> toF a = toF b -> a = b.
Proof. intros Ha Hb E. rewrite <- (Fval_toF a Ha), <- (Fval_toF b Hb), E. reflexivity. Qed.

Lemma vf_beyond l j : length l <= j -> vf l j = F0.
Proof. intros H. unfold vf. rewrite nth_overflow by lia. reflexivity. Qed.

(* ---- sums ---- *)
Lemma Fsum_app l1 l2 : Fsum (l1 ++ l2) = Fadd (Fsum l1) (Fsum l2).
Proof. unfold Fsum. rewrite fold_left_app, Fsum_fold. reflexivity. Qed.

Lemma Fsum_zipF_fsum : forall (L X : list F), length L = length X ->
  Fsum (zipF Fmul L X) = fsum (length X) (fun j => Fmul (nth j L F0) (nth j X F0)).
Proof.
  intros L X. revert L. induction X as [|x r IH] using rev_ind; intros L HL.
  - destruct L; [reflexivity|discriminate].
  - destruct (exists_last (l := L)) as (L' & a & ->); [destruct L; [rewrite app_length in HL; cbn in HL; lia|discriminate]|].
    rewrite !app_length in HL. cbn [length] in HL. assert (length L' = length r) as HL' by lia.
    assert (forall (A B : list F) a b, length A = length B -> zipF Fmul (A ++ [a]) (B ++ [b]) = zipF Fmul A B ++ [Fmul a b]) as Z.
    { induction A as [|p A IHA]; intros [|q B] a0 b0 E; cbn in E; try lia; [reflexivity|]. cbn [app zipF]. rewrite IHA by lia. reflexivity. }
    rewrite Z by exact HL'. rewrite Fsum_app, (IH L' HL'). rewrite app_length. cbn [length]. rewrite Nat.add_1_r. cbn [fsum].
    assert (nth (length r) (L' ++ [a]) F0 = a) as -> by (rewrite app_nth2 by lia; rewrite HL', Nat.sub_diag; reflexivity).
    assert (nth (length r) (r ++ [x]) F0 = x) as -> by (rewrite app_nth2 by lia; rewrite Nat.sub_diag; reflexivity).
    assert (Fsum [Fmul a x] = Fmul a x) as -> by (unfold Fsum; cbn [fold_left]; ring).
    f_equal. apply fsum_ext. intros j Hj. rewrite !app_nth1 by lia. reflexivity.
Qed.

Section Bridge.
Variable syn : list N.
Hypothesis syn_bytes : Forall byte syn.
Definition SF : nat -> F := vf syn.

(* a dot product with a window of the syndromes is a Hankel row *)
Lemma window_dot a K x : length x = K -> a + K <= length syn -> Forall byte x ->
  byte (gsum (zipw GF.mul (firstn K (skipn a syn)) x)) /\
  toF (gsum (zipw GF.mul (firstn K (skipn a syn)) x)) = hs SF K (vf x) a.
Proof.
  intros Lx Ha Bx. set (sl := firstn K (skipn a syn)).
  assert (Forall byte sl) as Bs.
  { unfold sl. apply Forall_firstn, Forall_skipn. exact syn_bytes. }
  assert (length sl = K) as Ls by (unfold sl; rewrite firstn_length, skipn_length; lia).
  destruct (zipw_mul_toF sl x Bs Bx) as [Bz Ez]. destruct (gsum_toF _ Bz) as [Bg Eg]. split; [exact Bg|].
  rewrite Eg, Ez, Fsum_zipF_fsum by (rewrite !map_length; lia). rewrite map_length, Lx. unfold hs. apply fsum_ext. intros j Hj.
  f_equal.
  - change F0 with (toF 0%N). rewrite map_nth. unfold SF, vf, sl. f_equal.
    rewrite nth_firstn'. destruct (Nat.ltb_spec j K); [|lia]. rewrite nth_skipn'. reflexivity.
  - change F0 with (toF 0%N). rewrite map_nth. reflexivity.
Qed.

Lemma slice_is_window a b sl : slice_incl syn a b = Ok sl -> sl = firstn (b + 1 - a) (skipn a syn) /\ b < length syn /\ a <= b + 1.
Proof.
  unfold slice_incl. destruct (Nat.leb_spec (length syn) b); cbn [orb]; [discriminate|].
  destruct (Nat.ltb_spec (b + 1) a); [discriminate|]. intros [= <-]. repeat split; lia.
Qed.

Lemma dot_bridge a b sl x d : slice_incl syn a b = Ok sl -> dot sl x = Ok d -> Forall byte x ->
  length x = b + 1 - a /\ byte d /\ toF d = hs SF (length x) (vf x) a.
Proof.
  intros SL D Bx. destruct (slice_is_window _ _ _ SL) as (-> & H1 & H2). unfold dot in D.
  destruct (Nat.eqb_spec (length (firstn (b + 1 - a) (skipn a syn))) (length x)) as [E|NE]; cbn [negb] in D; [|discriminate].
  rewrite firstn_length, skipn_length in E. inversion D; subst d.
  assert (length x = b + 1 - a) as Lx by lia. split; [exact Lx|]. rewrite Lx. apply window_dot; [exact Lx|lia|exact Bx].
Qed.

(* ---- division ---- *)
Lemma gdiv_toF a b q : byte a -> byte b -> gdiv a b = Ok q -> b <> 0%N /\ byte q /\ toF q = Fmul (toF a) (Finv (toF b)).
Proof.
  intros Ha Hb H. pose proof (gdiv_byte _ _ _ H) as Bq. unfold gdiv in H. rewrite (div_spec a b Ha Hb) in H.
  destruct (N.eqb_spec b 0) as [|NZ]; [discriminate|]. inversion H; subst q. split; [exact NZ|]. split; [exact Bq|].
  apply F_eq. rewrite Fval_toF by exact Bq. rewrite Fval_mul, Fval_inv, !Fval_toF by assumption. reflexivity.
Qed.

Lemma Finv_r x : x <> F0 -> Fmul x (Finv x) = F1.
Proof. intros H. field. exact H. Qed.

Lemma toF_nonzero b : byte b -> b <> 0%N -> toF b <> F0.
Proof. intros Hb NZ E. apply NZ. apply (proj1 (toF_zero_iff b Hb) E). Qed.

(* ---- entries after the update idioms ---- *)
Lemma nth_zipw {A B C} (f : A -> B -> C) da db dc : forall l1 l2 j, j < length l1 -> j < length l2 ->
  nth j (zipw f l1 l2) dc = f (nth j l1 da) (nth j l2 db).
Proof.
  induction l1 as [|a r IH]; intros [|b r2] j H1 H2; cbn [length] in *; try lia.
  destruct j as [|j]; cbn [zipw nth]; [reflexivity|]. apply IH; lia.
Qed.

Lemma nth_zip_upd f a b j : nth j (zip_upd f a b) 0%N =
  if (j <? length a) && (j <? length b) then f (nth j a 0%N) (nth j b 0%N) else nth j a 0%N.
Proof.
  unfold zip_upd. destruct (Nat.ltb_spec j (length a)) as [LA|LA]; destruct (Nat.ltb_spec j (length b)) as [LB|LB]; cbn [andb].
  - rewrite app_nth1 by (rewrite zipw_length_min; lia). apply (nth_zipw f 0%N 0%N 0%N); assumption.
  - rewrite app_nth2 by (rewrite zipw_length_min; lia). rewrite zipw_length_min, nth_skipn'. f_equal. lia.
  - rewrite nth_overflow; [rewrite nth_overflow by lia; reflexivity|]. rewrite app_length, zipw_length_min, skipn_length. lia.
  - rewrite nth_overflow; [rewrite nth_overflow by lia; reflexivity|]. rewrite app_length, zipw_length_min, skipn_length. lia.
Qed.

Lemma Forall_zip_upd f a b : (forall x y, byte x -> byte y -> byte (f x y)) -> Forall byte a -> Forall byte b -> Forall byte (zip_upd f a b).
Proof.
  intros Hf Ha Hb. unfold zip_upd. apply Forall_app. split.
  - revert b Hb. induction Ha as [|x r Hx Hr IH]; intros [|y r2] Hb; cbn [zipw]; try constructor.
    + inversion Hb; subst. apply Hf; assumption.
    + inversion Hb; subst. apply IH. assumption.
  - apply Forall_skipn. exact Ha.
Qed.

Lemma nth_set_ok l i v l' j : set_ok l i v = Ok l' -> nth j l' 0%N = if Nat.eqb j i then v else nth j l 0%N.
Proof.
  revert i l' j. induction l as [|x r IH]; intros i l' j H; cbn [set_ok] in H; [discriminate|].
  destruct i as [|i].
  - inversion H; subst. destruct j; reflexivity.
  - destruct (set_ok r i v) as [r'| |] eqn:E; cbn [bind] in H; try discriminate. inversion H; subst.
    destruct j as [|j]; [reflexivity|]. cbn [nth Nat.eqb]. apply (IH _ _ _ E).
Qed.

Lemma nth_ok_nth l i x : nth_ok l i = Ok x -> nth i l 0%N = x /\ i < length l.
Proof.
  intros H. apply nth_ok_spec in H. split; [apply nth_error_nth; exact H|]. apply nth_error_Some. congruence.
Qed.
End Bridge.
