(* Proofs/PathMicro.v -- property C17, from unit steps to the compressed path: if a list of micro steps (Step = one
   unit move to a grid node, Jump = start of a new tour) consists of closed tours of unit moves inside the box that
   never use a unit edge twice, then compress_path turns it into a well-formed path whose drawn vertical unit
   edges are exactly the vertical unit moves of the list. *)
From Coq Require Import ZArith List Bool Lia Arith.
From DM Require Import Model.Outcome Model.Path Spec.EvenOdd Proofs.PathProofs.
Import ListNotations.
Local Open Scope Z_scope.

Definition P2 := (Z * Z)%type.    (* (i, j) = (row, column) of a grid node *)
Definition p2eqb (a b : P2) : bool := (fst a =? fst b) && (snd a =? snd b).
Lemma p2eqb_eq a b : p2eqb a b = true <-> a = b.
Proof. destruct a, b. unfold p2eqb. cbn [fst snd]. rewrite andb_true_iff, !Z.eqb_eq. split; [intros [-> ->]; reflexivity|intros [= -> ->]; split; reflexivity]. Qed.

Definition unit_move (a b : P2) : bool :=
  ((fst a =? fst b) && ((snd b - snd a =? 1) || (snd b - snd a =? -1))) ||
  ((snd a =? snd b) && ((fst b - fst a =? 1) || (fst b - fst a =? -1))).
Definition nodebox (w h : Z) (a : P2) : bool := (0 <=? fst a) && (fst a <=? h) && (0 <=? snd a) && (snd a <=? w).

(* key of the undirected unit edge between two adjacent nodes: (vertical?, x, y) with the smaller coordinate *)
Definition ekey (a b : P2) : bool * Z * Z :=
  if fst a =? fst b then (false, Z.min (snd a) (snd b), fst a) else (true, snd a, Z.min (fst a) (fst b)).

Fixpoint mvalid (w h : Z) (cur st : P2) (any : bool) (l : list micro) : bool :=
  match l with
  | [] => p2eqb cur st && any
  | Step i j :: r => unit_move cur (i, j) && nodebox w h (i, j) && mvalid w h (i, j) st true r
  | Jump i j :: r => p2eqb cur st && any && nodebox w h (i, j) && mvalid w h (i, j) (i, j) false r
  end.

Fixpoint medges (cur : P2) (l : list micro) : list (bool * Z * Z) :=
  match l with
  | [] => []
  | Step i j :: r => ekey cur (i, j) :: medges (i, j) r
  | Jump i j :: r => medges (i, j) r
  end.

(* number of vertical unit moves over the unit edge (x, y) -> (x, y + 1) *)
Definition kmatch (k : bool * Z * Z) (x y : Z) : bool := match k with (v, kx, ky) => v && (kx =? x) && (ky =? y) end.
Definition kcount (ks : list (bool * Z * Z)) (x y : Z) : nat := length (filter (fun k => kmatch k x y) ks).

Lemma kcount_app a b x y : kcount (a ++ b) x y = (kcount a x y + kcount b x y)%nat.
Proof. unfold kcount. rewrite filter_app, app_length. reflexivity. Qed.
Lemma count_at_app a b x y : count_at (a ++ b) x y = (count_at a x y + count_at b x y)%nat.
Proof. unfold count_at. rewrite filter_app, app_length. reflexivity. Qed.

(* vertical unit edges of a straight vertical line, counted *)
Lemma seq_line_count x b qx qy : forall n s,
  count_at (map (fun k => (x, b + Z.of_nat k)) (seq s n)) qx qy =
  if (x =? qx) && (b + Z.of_nat s <=? qy) && (qy <? b + Z.of_nat s + Z.of_nat n) then 1%nat else 0%nat.
Proof.
  induction n as [|n IH]; intros s; cbn [seq map].
  - unfold count_at. cbn [filter length]. destruct (x =? qx); cbn [andb]; [|reflexivity].
    destruct (Z.leb_spec (b + Z.of_nat s) qy); destruct (Z.ltb_spec qy (b + Z.of_nat s + Z.of_nat 0)); cbn [andb]; try reflexivity; lia.
  - change ((x, b + Z.of_nat s) :: ?l) with ([(x, b + Z.of_nat s)] ++ l). rewrite count_at_app, IH.
    unfold count_at at 1. cbn [filter fst snd]. rewrite (andb_comm (b + Z.of_nat s =? qy)).
    destruct (Z.eqb_spec x qx); cbn [andb length]; [|reflexivity].
    destruct (Z.eqb_spec (b + Z.of_nat s) qy); destruct (Z.leb_spec (b + Z.of_nat (S s)) qy); destruct (Z.ltb_spec qy (b + Z.of_nat (S s) + Z.of_nat n));
      destruct (Z.leb_spec (b + Z.of_nat s) qy); destruct (Z.ltb_spec qy (b + Z.of_nat s + Z.of_nat (S n))); cbn [andb length Nat.add]; try reflexivity; lia.
Qed.

Lemma vunits_count x y0 y1 qx qy :
  count_at (vunits x y0 y1) qx qy = if (x =? qx) && (Z.min y0 y1 <=? qy) && (qy <? Z.max y0 y1) then 1%nat else 0%nat.
Proof.
  unfold vunits. rewrite seq_line_count. cbn [Z.of_nat]. rewrite Z.add_0_r, Z2Nat.id by lia.
  replace (Z.min y0 y1 + Z.abs (y1 - y0)) with (Z.max y0 y1) by lia. reflexivity.
Qed.

(* ---- compress_path as a fold, and its invariant ---- *)
Definition cstate := (list seg * (Z * Z) * option seg)%type.
Definition cstep (st : cstate) (m : micro) : cstate :=
  let '(steps, (pi, pj), wip) := st in
  match m with
  | Step i j =>
    let '(steps, wip) :=
      match wip with
      | Some (Hor m) => if i =? pi then (steps, Some (Hor (m + (j - pj))))
                        else (steps ++ [Hor m], Some (if i =? pi then Hor (j - pj) else Ver (i - pi)))
      | Some (Ver m) => if j =? pj then (steps, Some (Ver (m + (i - pi))))
                        else (steps ++ [Ver m], Some (if i =? pi then Hor (j - pj) else Ver (i - pi)))
      | Some other => (steps ++ [other], Some (if i =? pi then Hor (j - pj) else Ver (i - pi)))
      | None => (steps, Some (if i =? pi then Hor (j - pj) else Ver (i - pi)))
      end in
    (steps, (i, j), wip)
  | Jump i j => (steps ++ [Close; Move (j - pj) (i - pi)], (i, j), None)
  end.

Lemma compress_path_fold ms : compress_path ms = (let '(steps, _, _) := fold_left cstep ms ([], (0, 0), None) in steps ++ [Close]).
Proof. reflexivity. Qed.

Definition pen0 : pen := mkpen (0, 0) (0, 0) [] false true.
Definition penof (w h : Z) (steps : list seg) : pen := fold_left (draw1 w h) steps pen0.
Lemma penof_snoc w h steps s : penof w h (steps ++ [s]) = draw1 w h (penof w h steps) s.
Proof. unfold penof. rewrite fold_left_app. reflexivity. Qed.

Definition pending (p : P2) (wip : option seg) (x y : Z) : nat :=
  match wip with Some (Ver m) => count_at (vunits (snd p) (fst p - m) (fst p)) x y | _ => 0%nat end.

Record CI (w h : Z) (used : list (bool * Z * Z)) (steps : list seg) (p : P2) (wip : option seg) (st : P2) (any : bool) : Prop := mkCI {
  ci_good : good (penof w h steps) = true;
  ci_sub : sub_start (penof w h steps) = (snd st, fst st);
  ci_ac : after_close (penof w h steps) = false;
  ci_box : nodebox w h p = true;
  ci_wip : match wip with
           | None => cur (penof w h steps) = (snd p, fst p) /\ any = false /\ p = st
           | Some (Hor m) => m <> 0 /\ cur (penof w h steps) = (snd p - m, fst p) /\ any = true /\
                             In (false, (if 0 <? m then snd p - 1 else snd p), fst p) used
           | Some (Ver m) => m <> 0 /\ cur (penof w h steps) = (snd p, fst p - m) /\ any = true /\
                             In (true, snd p, (if 0 <? m then fst p - 1 else fst p)) used
           | Some _ => False
           end;
  ci_cnt : forall x y, (count_at (edges (penof w h steps)) x y + pending p wip x y)%nat = kcount used x y }.

(* closing a tour *)
Lemma ci_close w h used steps p wip any : CI w h used steps p wip p any -> any = true ->
  let pn := draw1 w h (penof w h steps) Close in
  good pn = true /\ after_close pn = true /\ cur pn = (snd p, fst p) /\ sub_start pn = (snd p, fst p) /\
  forall x y, count_at (edges pn) x y = kcount used x y.
Proof.
  intros [G SB AC BX W C] ->. destruct p as [pi pj]. cbn [fst snd] in *.
  destruct (penof w h steps) as [[cx cy] [sx sy] es ac g] eqn:EP. cbn [good sub_start after_close cur edges] in *. subst g ac. inversion SB; subst sx sy.
  destruct wip as [[dx dy|m|m|]|]; try contradiction.
  - destruct W as (NZ & CU & _ & _). inversion CU; subst cx cy. cbn [draw1 good after_close cur sub_start edges negb andb].
    destruct (Z.eqb_spec (pj - m) pj) as [|NE]; [lia|]. rewrite Z.eqb_refl. cbn [andb orb negb]. rewrite app_nil_r.
    repeat split; try reflexivity. intros x y. rewrite <- C. cbn [pending]. lia.
  - destruct W as (NZ & CU & _ & _). inversion CU; subst cx cy. cbn [draw1 good after_close cur sub_start edges negb andb].
    rewrite Z.eqb_refl. destruct (Z.eqb_spec (pi - m) pi) as [|NE]; [lia|]. cbn [andb orb negb].
    repeat split; try reflexivity. intros x y. rewrite <- C. rewrite count_at_app. cbn [pending fst snd]. reflexivity.
  - destruct W as (_ & D & _). discriminate.
Qed.

Lemma kcount_snoc used k x y : kcount (used ++ [k]) x y = (kcount used x y + (if kmatch k x y then 1 else 0))%nat.
Proof. rewrite kcount_app. unfold kcount at 2. cbn [filter]. destruct (kmatch k x y); reflexivity. Qed.

Ltac zcases := cbn [fst snd] in *; repeat match goal with
  | |- context [Z.eqb ?a ?b] => destruct (Z.eqb_spec a b)
  | |- context [Z.leb ?a ?b] => destruct (Z.leb_spec a b)
  | |- context [Z.ltb ?a ?b] => destruct (Z.ltb_spec a b)
  end; cbn [andb orb negb]; try lia; try reflexivity.

(* one unit step *)
Lemma ci_step w h used steps p wip st any i j : CI w h used steps p wip st any ->
  unit_move p (i, j) = true -> nodebox w h (i, j) = true -> ~ In (ekey p (i, j)) used ->
  match cstep (steps, p, wip) (Step i j) with
  | (steps', p', wip') => p' = (i, j) /\ CI w h (used ++ [ekey p (i, j)]) steps' (i, j) wip' st true
  end.
Proof.
  intros [G SB AC BX W C] UM NB NI. destruct p as [pi pj]. cbn [fst snd] in *.
  unfold unit_move in UM. cbn [fst snd] in UM.
  assert ((i = pi /\ (j = pj + 1 \/ j = pj - 1)) \/ (j = pj /\ (i = pi + 1 \/ i = pi - 1))) as DIR.
  { apply orb_true_iff in UM. destruct UM as [U|U]; apply andb_true_iff in U; destruct U as [U1 U2]; apply Z.eqb_eq in U1; apply orb_true_iff in U2;
      [left|right]; (split; [lia|]); destruct U2 as [U2|U2]; apply Z.eqb_eq in U2; lia. }
  unfold nodebox in BX. cbn [fst snd] in BX. apply andb_true_iff in BX. destruct BX as [BX B4]. apply andb_true_iff in BX. destruct BX as [BX B3].
  apply andb_true_iff in BX. destruct BX as [B1 B2]. apply Z.leb_le in B1, B2, B3, B4.
  cbn [cstep]. destruct wip as [[dx dy|m|m|]|]; try contradiction.
  - (* a horizontal run is pending *)
    destruct W as (NZ & CU & _ & KI).
    destruct (Z.eqb_spec i pi) as [EI|NEI].
    + (* it continues *)
      split; [reflexivity|]. destruct DIR as [(_ & DJ)|(EJ & DI)]; [|lia]. subst i.
      assert (ekey (pi, pj) (pi, j) = (false, Z.min pj j, pi)) as EK by (unfold ekey; cbn [fst snd]; rewrite Z.eqb_refl; reflexivity).
      rewrite EK in *.
      assert (0 < m -> j = pj + 1) as S1.
      { intros Hm. destruct DJ as [|DJ]; [assumption|]. exfalso. apply NI. destruct (Z.ltb_spec 0 m); [|lia]. rewrite Z.min_r by lia. subst j. exact KI. }
      assert (m < 0 -> j = pj - 1) as S2.
      { intros Hm. destruct DJ as [DJ|]; [|assumption]. exfalso. apply NI. destruct (Z.ltb_spec 0 m); [lia|]. rewrite Z.min_l by lia. exact KI. }
      constructor; cbn [fst snd]; try assumption.
      * split; [lia|]. split; [rewrite CU; f_equal; lia|]. split; [reflexivity|]. apply in_or_app. right. left.
        destruct (Z.ltb_spec 0 (m + (j - pj))); repeat (f_equal; try lia).
      * intros x y. rewrite kcount_snoc. cbn [kmatch andb pending]. rewrite <- C. cbn [pending]. lia.
    + (* a vertical step ends it *)
      split; [reflexivity|]. destruct DIR as [(EI & _)|(EJ & DI)]; [lia|]. subst j.
      destruct (Z.eqb_spec i pi); [lia|].
      assert (ekey (pi, pj) (i, pj) = (true, pj, Z.min pi i)) as EK by (unfold ekey; cbn [fst snd]; destruct (Z.eqb_spec pi i); [lia|reflexivity]).
      rewrite EK in *.
      destruct (penof w h steps) as [[cx cy] [sx sy] es ac g] eqn:EP. cbn [good sub_start after_close cur edges] in *. subst g ac. inversion CU; subst cx cy.
      constructor; rewrite ?penof_snoc, ?EP; cbn [draw1 good sub_start after_close cur edges fst snd negb andb]; try assumption; try reflexivity.
      * destruct (Z.eqb_spec m 0); [lia|]. cbn [negb andb]. unfold in_box. cbn [fst snd]. replace (pj - m + m) with pj by lia. zcases.
      * split; [lia|]. split; [f_equal; lia|]. split; [reflexivity|]. apply in_or_app. right. left.
        destruct (Z.ltb_spec 0 (i - pi)); repeat (f_equal; try lia).
      * intros x y. rewrite kcount_snoc. cbn [kmatch andb]. rewrite <- C. cbn [pending]. rewrite vunits_count. replace (i - (i - pi)) with pi by lia. zcases.
  - (* a vertical run is pending *)
    destruct W as (NZ & CU & _ & KI).
    destruct (Z.eqb_spec j pj) as [EJ|NEJ].
    + split; [reflexivity|]. destruct DIR as [(EI & DJ)|(_ & DI)]; [lia|]. subst j.
      assert (ekey (pi, pj) (i, pj) = (true, pj, Z.min pi i)) as EK by (unfold ekey; cbn [fst snd]; destruct (Z.eqb_spec pi i); [lia|reflexivity]).
      rewrite EK in *.
      assert (0 < m -> i = pi + 1) as S1.
      { intros Hm. destruct DI as [|DI]; [assumption|]. exfalso. apply NI. destruct (Z.ltb_spec 0 m); [|lia]. rewrite Z.min_r by lia. subst i. exact KI. }
      assert (m < 0 -> i = pi - 1) as S2.
      { intros Hm. destruct DI as [DI|]; [|assumption]. exfalso. apply NI. destruct (Z.ltb_spec 0 m); [lia|]. rewrite Z.min_l by lia. exact KI. }
      constructor; cbn [fst snd]; try assumption.
      * split; [lia|]. split; [rewrite CU; f_equal; lia|]. split; [reflexivity|]. apply in_or_app. right. left.
        destruct (Z.ltb_spec 0 (m + (i - pi))); repeat (f_equal; try lia).
      * intros x y. rewrite kcount_snoc. cbn [kmatch andb]. specialize (C x y). cbn [pending fst snd] in *. rewrite vunits_count in *.
        replace (i - (m + (i - pi))) with (pi - m) by lia. revert C. zcases.
    + split; [reflexivity|]. destruct DIR as [(EI & DJ)|(EJ & _)]; [|lia]. subst i. rewrite Z.eqb_refl.
      assert (ekey (pi, pj) (pi, j) = (false, Z.min pj j, pi)) as EK by (unfold ekey; cbn [fst snd]; rewrite Z.eqb_refl; reflexivity).
      rewrite EK in *.
      destruct (penof w h steps) as [[cx cy] [sx sy] es ac g] eqn:EP. cbn [good sub_start after_close cur edges] in *. subst g ac. inversion CU; subst cx cy.
      constructor; rewrite ?penof_snoc, ?EP; cbn [draw1 good sub_start after_close cur edges fst snd negb andb]; try assumption; try reflexivity.
      * destruct (Z.eqb_spec m 0); [lia|]. cbn [negb andb]. unfold in_box. cbn [fst snd]. replace (pi - m + m) with pi by lia. zcases.
      * split; [lia|]. split; [f_equal; lia|]. split; [reflexivity|]. apply in_or_app. right. left.
        destruct (Z.ltb_spec 0 (j - pj)); repeat (f_equal; try lia).
      * intros x y. rewrite kcount_snoc. cbn [kmatch andb pending]. rewrite count_at_app. specialize (C x y). cbn [pending fst snd] in C.
        replace (pi - m + m) with pi by lia. lia.
  - (* nothing pending: the first step of a tour *)
    destruct W as (CU & _ & _). split; [reflexivity|].
    destruct (Z.eqb_spec i pi) as [EI|NEI].
    + destruct DIR as [(_ & DJ)|(EJ & DI)]; [|lia]. subst i.
      assert (ekey (pi, pj) (pi, j) = (false, Z.min pj j, pi)) as EK by (unfold ekey; cbn [fst snd]; rewrite Z.eqb_refl; reflexivity).
      rewrite EK in *. constructor; cbn [fst snd]; try assumption.
      * split; [lia|]. split; [rewrite CU; f_equal; lia|]. split; [reflexivity|]. apply in_or_app. right. left.
        destruct (Z.ltb_spec 0 (j - pj)); repeat (f_equal; try lia).
      * intros x y. rewrite kcount_snoc. cbn [kmatch andb pending]. rewrite <- C. cbn [pending]. lia.
    + destruct DIR as [(EI & _)|(EJ & DI)]; [lia|]. subst j.
      assert (ekey (pi, pj) (i, pj) = (true, pj, Z.min pi i)) as EK by (unfold ekey; cbn [fst snd]; destruct (Z.eqb_spec pi i); [lia|reflexivity]).
      rewrite EK in *. constructor; cbn [fst snd]; try assumption.
      * split; [lia|]. split; [rewrite CU; f_equal; lia|]. split; [reflexivity|]. apply in_or_app. right. left.
        destruct (Z.ltb_spec 0 (i - pi)); repeat (f_equal; try lia).
      * intros x y. rewrite kcount_snoc. cbn [kmatch andb]. rewrite <- C. cbn [pending]. rewrite vunits_count. replace (i - (i - pi)) with pi by lia. zcases.
Qed.

(* the start of a new tour *)
Lemma ci_jump w h used steps p wip any i j : CI w h used steps p wip p any -> any = true -> nodebox w h (i, j) = true ->
  CI w h used (steps ++ [Close; Move (j - snd p) (i - fst p)]) (i, j) None (i, j) false.
Proof.
  intros I A NB. pose proof (ci_close w h used steps p wip any I A) as CL. cbv zeta in CL. destruct CL as (G & AC & CU & SB & CN).
  assert (penof w h (steps ++ [Close; Move (j - snd p) (i - fst p)]) = draw1 w h (draw1 w h (penof w h steps) Close) (Move (j - snd p) (i - fst p))) as EP.
  { unfold penof. rewrite fold_left_app. reflexivity. }
  destruct (draw1 w h (penof w h steps) Close) as [[cx cy] [sx sy] es ac g] eqn:ED. cbn [good after_close cur sub_start edges] in *. subst g ac.
  inversion CU; subst cx cy. destruct p as [pi pj]. cbn [fst snd] in *.
  unfold nodebox in NB. cbn [fst snd] in NB. apply andb_true_iff in NB. destruct NB as [NB N4]. apply andb_true_iff in NB. destruct NB as [NB N3].
  apply andb_true_iff in NB. destruct NB as [N1 N2].
  constructor; rewrite ?EP; cbn [draw1 good sub_start after_close cur edges fst snd andb].
  - unfold in_box. cbn [fst snd]. replace (pj + (j - pj)) with j by lia. replace (pi + (i - pi)) with i by lia. rewrite N1, N2, N3, N4. reflexivity.
  - f_equal; lia.
  - reflexivity.
  - unfold nodebox. cbn [fst snd]. rewrite N1, N2, N3, N4. reflexivity.
  - split; [f_equal; lia|]. split; reflexivity.
  - intros x y. cbn [pending]. rewrite CN. lia.
Qed.

Lemma fold_cstep_ok w h : forall l used steps p wip st any, CI w h used steps p wip st any ->
  mvalid w h p st any l = true -> NoDup (used ++ medges p l) ->
  match fold_left cstep l (steps, p, wip) with
  | (steps', _, _) =>
    let pn := draw1 w h (penof w h steps') Close in
    good pn = true /\ after_close pn = true /\ forall x y, count_at (edges pn) x y = kcount (used ++ medges p l) x y
  end.
Proof.
  induction l as [|m r IH]; intros used steps p wip st any I V ND.
  - cbn [fold_left mvalid medges] in *. apply andb_true_iff in V. destruct V as [E A]. apply p2eqb_eq in E. subst st.
    destruct (ci_close w h used steps p wip any I A) as (G & AC & _ & _ & CN). rewrite app_nil_r. split; [exact G|]. split; [exact AC|exact CN].
  - destruct m as [i j|i j]; cbn [fold_left mvalid medges] in *.
    + (* Jump *)
      apply andb_true_iff in V. destruct V as [V V2]. apply andb_true_iff in V. destruct V as [V NB]. apply andb_true_iff in V. destruct V as [E A].
      apply p2eqb_eq in E. subst st. pose proof (ci_jump w h used steps p wip any i j I A NB) as I2.
      destruct p as [pi pj]. cbn [cstep fst snd] in *. exact (IH used _ (i, j) None (i, j) false I2 V2 ND).
    + (* Step *)
      apply andb_true_iff in V. destruct V as [V V2]. apply andb_true_iff in V. destruct V as [UM NB].
      assert (~ In (ekey p (i, j)) used) as NI.
      { intros Hin. apply NoDup_remove_2 in ND. apply ND. apply in_or_app. left. exact Hin. }
      pose proof (ci_step w h used steps p wip st any i j I UM NB NI) as ST.
      destruct (cstep (steps, p, wip) (Step i j)) as [[steps' p'] wip'] eqn:EC. destruct ST as [-> I2].
      assert (NoDup ((used ++ [ekey p (i, j)]) ++ medges (i, j) r)) as ND2 by (rewrite <- app_assoc; exact ND).
      pose proof (IH _ steps' (i, j) wip' st true I2 V2 ND2) as R. rewrite <- app_assoc in R. exact R.
Qed.

(* the result for the whole list, drawn from the origin *)
Theorem compress_ok w h l : 0 <= w -> 0 <= h -> mvalid w h (0, 0) (0, 0) false l = true -> NoDup (medges (0, 0) l) ->
  wf_path w h (compress_path l) = true /\
  forall x y, count_at (edges (draw w h (compress_path l))) x y = kcount (medges (0, 0) l) x y.
Proof.
  intros Hw Hh V ND.
  assert (CI w h [] [] (0, 0) None (0, 0) false) as I0.
  { constructor.
    - reflexivity.
    - reflexivity.
    - reflexivity.
    - unfold nodebox. cbn [fst snd]. destruct (Z.leb_spec 0 h); [|lia]. destruct (Z.leb_spec 0 w); [|lia]. reflexivity.
    - split; [reflexivity|split; reflexivity].
    - intros x y. reflexivity. }
  pose proof (fold_cstep_ok w h l [] [] (0, 0) None (0, 0) false I0 V ND) as R.
  rewrite compress_path_fold.
  match type of R with context [fold_left ?f ?ll ?s0] => set (F := fold_left f ll s0) in R; change (fold_left cstep l ([], (0, 0), None)) with F end.
  destruct F as [[steps' p'] wip']. cbv zeta in R. destruct R as (G & AC & CN).
  assert (draw w h (steps' ++ [Close]) = draw1 w h (penof w h steps') Close) as ED by (unfold draw, penof; rewrite fold_left_app; reflexivity).
  split.
  - unfold wf_path. rewrite ED, G, AC. reflexivity.
  - intros x y. rewrite ED. apply CN.
Qed.
