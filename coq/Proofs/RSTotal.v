(* Proofs/RSTotal.v -- property C05, the Reed-Solomon decoder: for EVERY received word of a symbol's length the
   syndrome / Levinson-Durbin / Chien / Bjoerck-Pereyra code cannot index out of range, divide by zero, underflow,
   trip one of its length or range assertions, or run out of fuel (= it terminates).  The only panic site left is
   PAssertLD, the cfg!(debug_assertions) self-check of the algebraic identities (3)/(4) inside the Levinson-Durbin
   loop, which does not exist in release builds.  Nothing about the correctness of the recursion is used. *)
From Coq Require Import Arith NArith List Bool Lia.
From DM Require Import Generated.Symbols Model.Outcome Model.GF Model.RSEnc Model.RSDec Proofs.SymbolListProofs Proofs.RSDecProofs Proofs.LDBound.
Import ListNotations.
Local Open Scope nat_scope.

(* an outcome whose only possible panic is the Levinson-Durbin self-check *)
Definition safe {E A} (o : outcome E A) : Prop := forall p, o = Panic p -> p = PAssertLD.

Lemma safe_ok {E A} (a : A) : safe (@Ok E A a).
Proof. intros p H; discriminate. Qed.
Lemma safe_err {E A} (e : E) : safe (@Err E A e).
Proof. intros p H; discriminate. Qed.
Lemma safe_bind {E A B} (o : outcome E A) (f : A -> outcome E B) :
  safe o -> (forall a, o = Ok a -> safe (f a)) -> safe (bind o f).
Proof.
  intros So Sf p H. destruct o as [a|e|q]; cbn [bind] in H; [exact (Sf a eq_refl p H)|discriminate|].
  inversion H; subst. apply So. reflexivity.
Qed.
Lemma safe_bind_ok {E A B} (o : outcome E A) (f : A -> outcome E B) a : o = Ok a -> safe (f a) -> safe (bind o f).
Proof. intros -> S. exact S. Qed.

(* ---- elementary operations succeed inside their ranges ---- *)
Lemma nth_ok_ok l i : i < length l -> exists x, nth_ok l i = Ok x.
Proof.
  intros H. unfold nth_ok, get. destruct (nth_error l i) as [x|] eqn:E; [exists x; reflexivity|].
  apply nth_error_None in E. lia.
Qed.

Lemma set_ok_ok l : forall i v, i < length l -> exists l', set_ok l i v = Ok l' /\ length l' = length l.
Proof.
  induction l as [|x r IH]; intros i v H; cbn [length] in H; [lia|]. destruct i as [|i]; cbn [set_ok].
  - exists (v :: r). split; reflexivity.
  - destruct (IH i v) as (r' & E & L); [lia|]. rewrite E. cbn [bind]. exists (x :: r'). split; [reflexivity|cbn [length]; lia].
Qed.

Lemma slice_incl_ok l a b : b < length l -> a <= b + 1 ->
  exists sl, slice_incl l a b = Ok sl /\ length sl = b + 1 - a.
Proof.
  intros H1 H2. unfold slice_incl. destruct (Nat.leb_spec (length l) b); [lia|]. destruct (Nat.ltb_spec (b + 1) a); [lia|].
  cbn [orb]. eexists. split; [reflexivity|]. rewrite firstn_length, skipn_length. lia.
Qed.

Lemma dot_ok a b : length a = length b -> exists d, dot a b = Ok d.
Proof. intros H. unfold dot. rewrite H, Nat.eqb_refl. cbn [negb]. eexists; reflexivity. Qed.

Lemma gdiv_ok a b : b <> 0%N -> exists q, gdiv a b = Ok q.
Proof.
  intros H. unfold gdiv, GF.div. destruct (N.eqb_spec b 0) as [E|_]; [contradiction|].
  destruct (N.eqb a 0); eexists; reflexivity.
Qed.

Lemma zipw_length_min {A B C} (f : A -> B -> C) l1 : forall l2, length (zipw f l1 l2) = Nat.min (length l1) (length l2).
Proof. induction l1 as [|x r IH]; intros [|y s]; cbn [zipw length Nat.min]; try reflexivity. now rewrite IH. Qed.

Lemma zip_upd_length f a b : length (zip_upd f a b) = length a.
Proof. unfold zip_upd. rewrite app_length, zipw_length_min, skipn_length. lia. Qed.

Lemma removelast_length {A} (l : list A) : length (removelast l) = length l - 1.
Proof.
  induction l as [|x r IH]; [reflexivity|]. destruct r as [|y r']; [reflexivity|].
  change (removelast (x :: y :: r')) with (x :: removelast (y :: r')). cbn [length] in *. lia.
Qed.

Lemma resize_length l n : length (resize l n) = n.
Proof. unfold resize. rewrite app_length, firstn_length, repeat_length. lia. Qed.

Lemma map_ok_ok {A} (f : nat -> RR A) : forall l, (forall x, In x l -> exists y, f x = Ok y) ->
  exists ys, map_ok f l = Ok ys /\ length ys = length l.
Proof.
  induction l as [|x r IH]; intros H; cbn [map_ok]; [exists []; split; reflexivity|].
  destruct (H x (or_introl eq_refl)) as (y & E). rewrite E. cbn [bind].
  destruct IH as (ys & E2 & L); [intros z Hz; apply H; now right|]. rewrite E2. cbn [bind].
  exists (y :: ys). split; [reflexivity|cbn [length]; lia].
Qed.

(* ---- Levinson-Durbin: the initial triangular solve ---- *)
Lemma init_w_inner_ok syn v i : forall js w, length w = v -> i < v -> (forall j, In j js -> j < v /\ i + j < length syn) ->
  exists w', init_w_inner syn w v i js = Ok w' /\ length w' = v.
Proof.
  induction js as [|j r IH]; intros w L Hi H; cbn [init_w_inner]; [exists w; split; [reflexivity|exact L]|].
  destruct (H j (or_introl eq_refl)) as [J1 J2].
  destruct (nth_ok_ok w j) as (wj & E1); [lia|]. rewrite E1. cbn [bind].
  destruct (nth_ok_ok syn (i + j)) as (s & E2); [lia|]. rewrite E2. cbn [bind].
  destruct (nth_ok_ok w (v - 1 - i)) as (cur & E3); [lia|]. rewrite E3. cbn [bind].
  destruct (set_ok_ok w (v - 1 - i) (GF.add cur (GF.mul s wj))) as (w1 & E4 & L1); [lia|]. rewrite E4. cbn [bind].
  apply IH; [lia|exact Hi|intros j' Hj; apply H; now right].
Qed.

Lemma init_w_outer_ok syn v d : 2 * v <= length syn -> nth_error syn (v - 1) = Some d -> d <> 0%N ->
  forall is_ w, length w = v -> (forall i, In i is_ -> i < v) ->
  exists w', init_w_outer syn w v is_ = Ok w' /\ length w' = v.
Proof.
  intros Hs Hd Hnz. induction is_ as [|i r IH]; intros w L H; cbn [init_w_outer]; [exists w; split; [reflexivity|exact L]|].
  assert (i < v) as Hi by (apply H; now left).
  destruct (init_w_inner_ok syn v i (seq (v - i) i) w L Hi) as (w1 & E1 & L1).
  { intros j Hj. apply in_seq in Hj. lia. }
  rewrite E1. cbn [bind].
  destruct (nth_ok_ok w1 (v - 1 - i)) as (cur & E2); [lia|]. rewrite E2. cbn [bind].
  unfold nth_ok at 1, get. rewrite Hd. cbn [bind].
  destruct (gdiv_ok cur d Hnz) as (q & E3). rewrite E3. cbn [bind].
  destruct (set_ok_ok w1 (v - 1 - i) q) as (w2 & E4 & L2); [lia|]. rewrite E4. cbn [bind].
  apply IH; [lia|intros i' Hi'; apply H; now right].
Qed.

Lemma take_while_zero_nth l : take_while_zero l < length l ->
  exists d, nth_error l (take_while_zero l) = Some d /\ d <> 0%N.
Proof.
  induction l as [|x r IH]; cbn [take_while_zero length]; [lia|]. destruct (N.eqb_spec x 0) as [E|NE].
  - intros H. apply IH. lia.
  - intros _. exists x. split; [reflexivity|exact NE].
Qed.

(* ---- the pieces of one Levinson-Durbin iteration ---- *)
Lemma find_m_ok syn tmp v : forall is_, length tmp = v + 1 -> (forall i, In i is_ -> 2 * v + i < length syn) ->
  exists r, find_m syn tmp v is_ = Ok r.
Proof.
  induction is_ as [|i r IH]; intros L H; cbn [find_m]; [eexists; reflexivity|].
  destruct (slice_incl_ok syn (v + i) (2 * v + i)) as (sl & E1 & L1); [apply H; now left|lia|]. rewrite E1. cbn [bind].
  destruct (dot_ok sl tmp) as (sg & E2); [lia|]. rewrite E2. cbn [bind].
  destruct (N.eqb sg 0); [apply IH; [exact L|intros j Hj; apply H; now right]|eexists; reflexivity].
Qed.

Lemma find_m_nonzero syn tmp v : forall is_ m sg, find_m syn tmp v is_ = Ok (Some (m, sg)) -> sg <> 0%N.
Proof.
  induction is_ as [|i r IH]; intros m sg H; cbn [find_m] in H; [discriminate|].
  destruct (slice_incl syn (v + i) (2 * v + i)) as [sl| |]; cbn [bind] in H; try discriminate.
  destruct (dot sl tmp) as [sigma| |]; cbn [bind] in H; try discriminate.
  destruct (N.eqb_spec sigma 0) as [E|NE]; [eapply IH; exact H|]. inversion H; subst. exact NE.
Qed.

Lemma iter_wk_ok syn y w v : 1 <= v -> length y = v -> length w = v ->
  forall ks tmp, length tmp = v -> (forall k, In k ks -> 2 * v + k < length syn) ->
  exists tmp', iter_wk syn y w tmp v ks = Ok tmp' /\ length tmp' = v.
Proof.
  intros Hv Ly Lw. induction ks as [|k r IH]; intros tmp L H; cbn [iter_wk]; [exists tmp; split; [reflexivity|exact L]|].
  assert (2 * v + k < length syn) as Hk by (apply H; now left).
  destruct (nth_ok_ok syn (2 * v + k) Hk) as (s & E1). rewrite E1. cbn [bind].
  destruct (slice_incl_ok syn v (2 * v - 1)) as (sl & E2 & L2); [lia|lia|]. rewrite E2. cbn [bind].
  destruct (dot_ok sl tmp) as (d & E3); [lia|]. rewrite E3. cbn [bind].
  destruct (nth_ok_ok tmp (v - 1)) as (eta & E4); [lia|]. rewrite E4. cbn [bind].
  apply IH; [|intros k' Hk'; apply H; now right].
  rewrite zip_upd_length. cbn [length]. rewrite removelast_length. lia.
Qed.

Lemma gamma_inner_ok sigma i : forall js gamma, i < length gamma -> (forall j, In j js -> j < i /\ i - j < length sigma) ->
  exists g', gamma_inner sigma gamma i js = Ok g' /\ length g' = length gamma.
Proof.
  induction js as [|j r IH]; intros gamma Hi H; cbn [gamma_inner]; [exists gamma; split; reflexivity|].
  destruct (H j (or_introl eq_refl)) as [J1 J2].
  destruct (nth_ok_ok gamma j) as (gj & E1); [lia|]. rewrite E1. cbn [bind].
  destruct (nth_ok_ok sigma (i - j) J2) as (sg & E2). rewrite E2. cbn [bind].
  destruct (nth_ok_ok gamma i Hi) as (cur & E3). rewrite E3. cbn [bind].
  destruct (set_ok_ok gamma i (GF.add cur (GF.mul sg gj)) Hi) as (g1 & E4 & L1). rewrite E4. cbn [bind].
  destruct (IH g1) as (g2 & E5 & L2); [lia|intros j' Hj; apply H; now right|]. exists g2. split; [exact E5|lia].
Qed.

Lemma gamma_outer_ok s0 srest : s0 <> 0%N -> forall is_ gamma, (forall i, In i is_ -> i < length gamma /\ i < S (length srest)) ->
  exists g', gamma_outer (s0 :: srest) gamma is_ = Ok g' /\ length g' = length gamma.
Proof.
  intros Hnz. induction is_ as [|i r IH]; intros gamma H; cbn [gamma_outer]; [exists gamma; split; reflexivity|].
  destruct (H i (or_introl eq_refl)) as [I1 I2].
  destruct (gamma_inner_ok (s0 :: srest) i (seq 0 i) gamma I1) as (g1 & E1 & L1).
  { intros j Hj. apply in_seq in Hj. cbn [length]. lia. }
  rewrite E1. cbn [bind].
  destruct (nth_ok_ok g1 i) as (cur & E2); [lia|]. rewrite E2. cbn [bind].
  unfold nth_ok at 1, get. cbn [nth_error bind].
  destruct (gdiv_ok cur s0 Hnz) as (q & E3). rewrite E3. cbn [bind].
  destruct (set_ok_ok g1 i q) as (g2 & E4 & L2); [lia|]. rewrite E4. cbn [bind].
  destruct (IH g2) as (g3 & E5 & L3); [intros i' Hi'; rewrite L2, L1; apply H; now right|]. exists g3. split; [exact E5|lia].
Qed.

Lemma gamma_row_ok sigma gamma i : forall js acc, (forall j, In j js -> i - j < length sigma /\ j < length gamma) ->
  exists r, gamma_row sigma gamma i js acc = Ok r.
Proof.
  induction js as [|j r IH]; intros acc H; cbn [gamma_row]; [eexists; reflexivity|].
  destruct (H j (or_introl eq_refl)) as [J1 J2].
  destruct (nth_ok_ok sigma (i - j) J1) as (sg & E1). rewrite E1. cbn [bind].
  destruct (nth_ok_ok gamma j J2) as (gj & E2). rewrite E2. cbn [bind].
  apply IH. intros j' Hj. apply H. now right.
Qed.

Lemma gamma_check_safe sigma gamma gamma0 : forall is_,
  (forall i, In i is_ -> i < length sigma /\ i < length gamma /\ i < length gamma0) -> safe (gamma_check sigma gamma gamma0 is_).
Proof.
  induction is_ as [|i r IH]; intros H; cbn [gamma_check]; [apply safe_ok|].
  destruct (H i (or_introl eq_refl)) as (I1 & I2 & I3).
  destruct (gamma_row_ok sigma gamma i (seq 0 (i + 1)) 0%N) as (row & E1).
  { intros j Hj. apply in_seq in Hj. lia. }
  rewrite E1. cbn [bind]. destruct (nth_ok_ok gamma0 i I3) as (tg & E2). rewrite E2. cbn [bind].
  destruct (N.eqb row tg); [apply IH; intros i' Hi; apply H; now right|intros p [= <-]; reflexivity].
Qed.

Lemma upd_w_ok w m v : forall igs tmp, length tmp = m + v + 1 -> (forall i g, In (i, g) igs -> i <= m) ->
  exists tmp', upd_w tmp w m v igs = Ok tmp' /\ length tmp' = m + v + 1.
Proof.
  induction igs as [|[i gi] r IH]; intros tmp L H; cbn [upd_w]; [exists tmp; split; [reflexivity|exact L]|].
  assert (i <= m) as Hi by (eapply H; left; reflexivity).
  destruct (Nat.ltb_spec (length tmp) (m - i)); [lia|].
  set (tmp1 := firstn (m - i) tmp ++ zip_upd _ (skipn (m - i) tmp) w).
  assert (length tmp1 = m + v + 1) as L1.
  { unfold tmp1. rewrite app_length, zip_upd_length, firstn_length, skipn_length. lia. }
  destruct (nth_ok_ok tmp1 (m - i + v)) as (cur & E1); [lia|]. rewrite E1. cbn [bind].
  destruct (set_ok_ok tmp1 (m - i + v) (GF.add cur gi)) as (tmp2 & E2 & L2); [lia|]. rewrite E2. cbn [bind].
  apply IH; [lia|intros i' g' Hi'; eapply H; right; exact Hi'].
Qed.

Lemma ld_debug_check_safe syn s : length (ld_w s) = ld_v s -> length (ld_y s) = ld_v s -> 2 * ld_v s <= length syn ->
  safe (ld_debug_check syn s).
Proof.
  intros Lw Ly Hs. unfold ld_debug_check. rewrite Lw, Ly, Nat.eqb_refl. cbn [negb orb].
  destruct (Nat.ltb_spec (length syn) (2 * ld_v s)); [lia|]. rewrite andb_false_r.
  destruct (negb (forallb _ _)); [intros p [= <-]; reflexivity|].
  destruct (negb (forallb _ _)); [intros p [= <-]; reflexivity|apply safe_ok].
Qed.

Lemma removelast_snoc {A} (l : list A) x : removelast (l ++ [x]) = l.
Proof. apply removelast_last. Qed.

Lemma in_combine_seq {A} (g : list A) i x : In (i, x) (combine (seq 0 (length g)) g) -> i < length g.
Proof. intros H. apply in_combine_l in H. apply in_seq in H. lia. Qed.

Lemma ld_loop_safe syn t : 2 * t <= length syn -> forall fuel s, t - ld_v s < fuel -> 1 <= ld_v s ->
  length (ld_w s) = ld_v s -> length (ld_y s) = ld_v s -> safe (ld_loop fuel syn t s).
Proof.
  intros Hs. induction fuel as [|f IH]; intros s Hf Hv Lw Ly; [lia|]. cbn [ld_loop].
  destruct (Nat.ltb_spec (ld_v s) t) as [LT|GE]; cbn [negb]; [|apply safe_ok].
  set (v := ld_v s) in *. set (w := ld_w s) in *. set (y := ld_y s) in *.
  assert (length (w ++ [1%N]) = v + 1) as Lt by (rewrite app_length; cbn [length]; lia).
  destruct (slice_incl_ok syn v (2 * v)) as (sl & E1 & L1); [lia|lia|]. rewrite E1. cbn [bind].
  destruct (dot_ok sl (w ++ [1%N])) as (eps & E2); [lia|]. rewrite E2. cbn [bind].
  destruct (N.eqb_spec eps 0) as [EZ|ENZ]; cbn [negb].
  - (* singular *)
    destruct (find_m_ok syn (w ++ [1%N]) v (seq 1 (t - v - 1)) Lt) as (mo & E3).
    { intros i Hi. apply in_seq in Hi. lia. }
    rewrite E3. cbn [bind]. destruct mo as [[m sg]|]; [|apply safe_ok].
    pose proof (find_m_range _ _ _ _ _ _ E3) as Hm. apply in_seq in Hm.
    pose proof (find_m_nonzero _ _ _ _ _ _ E3) as Hsg.
    destruct (map_ok_ok (fun k => let* sl := slice_incl syn (v + k) (2 * v + k) in dot sl (w ++ [1%N])) (seq (m + 1) m)) as (srest & E4 & L4).
    { intros k Hk. apply in_seq in Hk.
      destruct (slice_incl_ok syn (v + k) (2 * v + k)) as (sl' & E & L); [lia|lia|]. rewrite E. cbn [bind]. apply dot_ok. lia. }
    rewrite E4. cbn [bind]. rewrite removelast_snoc.
    destruct (iter_wk_ok syn y w v Hv Ly Lw (seq 0 (m + 1)) w Lw) as (tmp1 & E5 & L5).
    { intros k Hk. apply in_seq in Hk. lia. }
    rewrite E5. cbn [bind].
    destruct (gdiv_ok 1%N sg Hsg) as (sinv & E6). rewrite E6. cbn [bind].
    destruct (set_ok_ok (zip_upd (fun _ wi => GF.mul wi sinv) (repeat 0%N (m + v + 1)) w) (length w) sinv) as (y2 & E7 & L7).
    { rewrite zip_upd_length, repeat_length. lia. }
    rewrite E7. cbn [bind].
    destruct (map_ok_ok (fun i => let* s1 := nth_ok syn (m + v + v + 1 + i) in
                                  let* sl := slice_incl syn (v + i) (2 * v - 1 + i) in
                                  let* d := dot sl tmp1 in Ok (GF.add s1 d)) (seq 0 (m + 1))) as (gamma0 & E8 & L8).
    { intros i Hi. apply in_seq in Hi.
      destruct (nth_ok_ok syn (m + v + v + 1 + i)) as (s1 & E); [lia|]. rewrite E. cbn [bind].
      destruct (slice_incl_ok syn (v + i) (2 * v - 1 + i)) as (sl' & E' & L'); [lia|lia|]. rewrite E'. cbn [bind].
      destruct (dot_ok sl' tmp1) as (d & E''); [lia|]. rewrite E''. cbn [bind]. eexists; reflexivity. }
    rewrite E8. cbn [bind].
    destruct (gamma_outer_ok sg srest Hsg (seq 0 (m + 1)) gamma0) as (gamma & E9 & L9).
    { intros i Hi. apply in_seq in Hi. rewrite L8, L4, !seq_length. lia. }
    rewrite E9. cbn [bind].
    apply safe_bind.
    { apply gamma_check_safe. intros i Hi. apply in_seq in Hi. cbn [length]. rewrite L9, L8, L4, !seq_length. lia. }
    intros _ _.
    destruct (upd_w_ok w m v (combine (seq 0 (length gamma)) gamma) (resize tmp1 (m + v + 1))) as (tmp3 & E10 & L10).
    { apply resize_length. }
    { intros i g Hi. apply in_combine_seq in Hi. rewrite L9, L8, seq_length in Hi. lia. }
    rewrite E10. cbn [bind].
    apply safe_bind.
    + apply ld_debug_check_safe; cbn [ld_v ld_w ld_y]; [lia| |lia].
      rewrite L7, zip_upd_length, repeat_length. reflexivity.
    + intros _ _. apply IH; cbn [ld_v ld_w ld_y]; [lia|lia|lia|].
      rewrite L7, zip_upd_length, repeat_length. reflexivity.
  - (* regular *)
    cbn [length]. destruct (Nat.ltb_spec (S (length w)) v); [lia|].
    destruct (slice_incl_ok syn (v + 1) (2 * v + 1)) as (sl1 & E3 & L3); [lia|lia|]. rewrite E3. cbn [bind].
    destruct (dot_ok sl1 (w ++ [1%N])) as (b0 & E4); [lia|]. rewrite E4. cbn [bind].
    destruct (gdiv_ok b0 eps ENZ) as (beta & E5). rewrite E5. cbn [bind].
    destruct (slice_incl_ok syn v (2 * v - 1)) as (sl2 & E6 & L6); [lia|lia|]. rewrite E6. cbn [bind].
    destruct (dot_ok sl2 y) as (gamma & E7); [lia|]. rewrite E7. cbn [bind].
    destruct (gdiv_ok 1%N eps ENZ) as (einv & E8). rewrite E8. cbn [bind].
    assert (forall f g h, length (zip_upd f (zip_upd g (firstn v (0%N :: w)) y ++ skipn v (0%N :: w)) h) = v + 1) as LW.
    { intros f0 g h. rewrite zip_upd_length, app_length, zip_upd_length, firstn_length, skipn_length. cbn [length]. lia. }
    apply safe_bind.
    + apply ld_debug_check_safe; cbn [ld_v ld_w ld_y]; [apply LW| |lia].
      rewrite app_length, zip_upd_length. cbn [length]. lia.
    + intros _ _. apply IH; cbn [ld_v ld_w ld_y]; [lia|lia|apply LW|].
      rewrite app_length, zip_upd_length. cbn [length]. lia.
Qed.

Theorem levinson_durbin_safe syn : safe (find_inv_error_locations_levinson_durbin syn).
Proof.
  unfold find_inv_error_locations_levinson_durbin. set (t := length syn / 2). set (v := take_while_zero syn + 1).
  assert (2 * t <= length syn) as Ht.
  { unfold t. pose proof (Nat.div_mod (length syn) 2 ltac:(lia)). lia. }
  destruct (Nat.ltb_spec t v) as [GT|LE]; [apply safe_err|].
  destruct (take_while_zero_nth syn) as (d & Hd & Hnz); [unfold v in LE; lia|].
  assert (v - 1 = take_while_zero syn) as Hv1 by (unfold v; lia).
  unfold nth_ok at 1, get. rewrite Hv1, Hd. cbn [bind].
  destruct (gdiv_ok 1%N d Hnz) as (y0 & E1). rewrite E1. cbn [bind].
  destruct (slice_incl_ok syn v (2 * v - 1)) as (sl & E2 & L2); [lia|lia|]. rewrite E2. cbn [bind].
  destruct (init_w_outer_ok syn v d) with (is_ := seq 0 v) (w := rev sl) as (w & E3 & L3);
    [lia|rewrite Hv1; exact Hd|exact Hnz|rewrite rev_length; lia|intros i Hi; apply in_seq in Hi; lia|].
  rewrite E3. cbn [bind].
  apply safe_bind; [|intros s _; apply safe_ok].
  apply ld_loop_safe; cbn [ld_v ld_w ld_y]; [exact Ht|lia|unfold v; lia|exact L3|].
  cbn [length]. rewrite repeat_length. unfold v. lia.
Qed.

(* the locator has at least two coefficients (v >= 1 throughout) *)
Lemma ld_loop_lower fuel syn t : forall s s', ld_loop fuel syn t s = Ok s' -> 1 <= ld_v s -> 1 <= ld_v s'.
Proof.
  induction fuel as [|f IH]; intros s s' H Hv; cbn [ld_loop] in H; [discriminate|].
  destruct (negb (ld_v s <? t)); [inversion H; subst; exact Hv|].
  destruct (slice_incl syn (ld_v s) (2 * ld_v s)) as [sl| |]; cbn [bind] in H; try discriminate.
  destruct (dot sl (ld_w s ++ [1%N])) as [eps| |]; cbn [bind] in H; try discriminate.
  destruct (negb (N.eqb eps 0)).
  - destruct (length (0%N :: ld_w s) <? ld_v s); [discriminate|].
    destruct (slice_incl syn (ld_v s + 1) (2 * ld_v s + 1)) as [sl1| |]; cbn [bind] in H; try discriminate.
    destruct (dot sl1 _) as [b0| |]; cbn [bind] in H; try discriminate.
    destruct (gdiv b0 eps) as [beta| |]; cbn [bind] in H; try discriminate.
    destruct (slice_incl syn (ld_v s) (2 * ld_v s - 1)) as [sl2| |]; cbn [bind] in H; try discriminate.
    destruct (dot sl2 (ld_y s)) as [gamma| |]; cbn [bind] in H; try discriminate.
    destruct (gdiv 1%N eps) as [eps_inv| |]; cbn [bind] in H; try discriminate.
    match type of H with (let* _ := ld_debug_check syn ?S' in _) = _ => set (s1 := S') in *; destruct (ld_debug_check syn s1) as [[]| |] end;
      cbn [bind] in H; try discriminate.
    apply (IH s1 s' H). cbn [ld_v s1]. lia.
  - destruct (find_m syn _ (ld_v s) _) as [[[m sg]|]| |]; cbn [bind] in H; try discriminate; [|inversion H; subst; exact Hv].
    match type of H with (let* _ := ?X in _) = _ => destruct X as [sig_rest| |] end; cbn [bind] in H; try discriminate.
    match type of H with (let* _ := ?X in _) = _ => destruct X as [tmp1| |] end; cbn [bind] in H; try discriminate.
    destruct (gdiv 1%N sg) as [sminv| |]; cbn [bind] in H; try discriminate.
    match type of H with (let* _ := ?X in _) = _ => destruct X as [y2| |] end; cbn [bind] in H; try discriminate.
    match type of H with (let* _ := ?X in _) = _ => destruct X as [gamma0| |] end; cbn [bind] in H; try discriminate.
    match type of H with (let* _ := ?X in _) = _ => destruct X as [gamma| |] end; cbn [bind] in H; try discriminate.
    match type of H with (let* _ := ?X in _) = _ => destruct X as [[]| |] end; cbn [bind] in H; try discriminate.
    match type of H with (let* _ := ?X in _) = _ => destruct X as [tmp3| |] end; cbn [bind] in H; try discriminate.
    match type of H with (let* _ := ld_debug_check syn ?S' in _) = _ => set (s1 := S') in *; destruct (ld_debug_check syn s1) as [[]| |] end;
      cbn [bind] in H; try discriminate.
    apply (IH s1 s' H). cbn [ld_v s1]. lia.
Qed.

Theorem ld_locator_lower syn lam : find_inv_error_locations_levinson_durbin syn = Ok lam -> 2 <= length lam.
Proof.
  unfold find_inv_error_locations_levinson_durbin. set (t := length syn / 2). set (v := take_while_zero syn + 1).
  destruct (Nat.ltb_spec t v) as [GT|LE]; [discriminate|].
  destruct (nth_ok syn (v - 1)) as [sv| |]; cbn [bind]; try discriminate.
  destruct (gdiv 1%N sv) as [y0| |]; cbn [bind]; try discriminate.
  destruct (slice_incl syn v (2 * v - 1)) as [sl| |] eqn:SL; cbn [bind]; try discriminate.
  destruct (init_w_outer syn (rev sl) v (seq 0 v)) as [w| |] eqn:IW; cbn [bind]; try discriminate.
  destruct (ld_loop (t + 2) syn t _) as [s| |] eqn:LL; cbn [bind]; try discriminate. intros [= <-].
  assert (length w = v) as LW.
  { rewrite (init_w_outer_length _ _ _ _ _ IW), rev_length, (slice_incl_length _ _ _ _ SL). unfold v. lia. }
  destruct (ld_loop_bound _ _ _ _ _ LL) as [B1 B2]; [cbn [ld_v]; exact LE|cbn [ld_v ld_w]; exact LW|].
  pose proof (ld_loop_lower _ _ _ _ _ LL) as B3. cbn [ld_v] in B3.
  rewrite app_length. cbn [length]. unfold v in B3. lia.
Qed.

(* ---- table facts (kernel sweeps over the 255 / 256 table entries) ---- *)
Lemma LOG_sweep : forallb (fun k => (nth k GF.LOG 0 <? 255)%N) (seq 0 256) = true.
Proof. vm_compute. reflexivity. Qed.
Lemma ALOG_sweep : forallb (fun k => negb (nth k GF.ANTI_LOG 0 =? 0)%N) (seq 0 255) = true.
Proof. vm_compute. reflexivity. Qed.

Lemma logt_lt a : (GF.logt a < 255)%N.
Proof.
  unfold GF.logt. destruct (Nat.lt_ge_cases (N.to_nat a) 256) as [LT|GE].
  - pose proof (proj1 (forallb_forall _ _) LOG_sweep (N.to_nat a)) as H. cbv beta in H.
    apply N.ltb_lt, H, in_seq. lia.
  - rewrite nth_overflow; [reflexivity|]. change (length GF.LOG) with 256. exact GE.
Qed.

Lemma alog_nz j : (j < 255)%N -> GF.alog j <> 0%N.
Proof.
  intros H. unfold GF.alog. pose proof (proj1 (forallb_forall _ _) ALOG_sweep (N.to_nat j)) as S. cbv beta in S.
  intros E. rewrite E in S. discriminate S. apply in_seq. lia.
Qed.

Lemma div_nonzero a b q : a <> 0%N -> GF.div a b = Some q -> q <> 0%N.
Proof.
  intros Ha. unfold GF.div. destruct (N.eqb b 0); [discriminate|]. destruct (N.eqb_spec a 0) as [E|_]; [contradiction|].
  intros [= <-]. pose proof (logt_lt a). pose proof (logt_lt b). apply alog_nz.
  destruct (N.ltb_spec (GF.logt a) (GF.logt b)); lia.
Qed.

Definition ginv (z : N) : N := match GF.div 1 z with Some q => q | None => 0%N end.
Lemma ginv_nz z : z <> 0%N -> ginv z <> 0%N.
Proof.
  intros H. unfold ginv. destruct (GF.div 1 z) as [q|] eqn:E.
  - eapply div_nonzero; [|exact E]. discriminate.
  - unfold GF.div in E. destruct (N.eqb_spec z 0); [contradiction|]. destruct (N.eqb 1 0); discriminate.
Qed.
Lemma gdiv_ginv z : z <> 0%N -> gdiv 1%N z = Ok (ginv z).
Proof.
  intros H. unfold gdiv, ginv. destruct (GF.div 1 z) as [q|] eqn:E; [reflexivity|].
  unfold GF.div in E. destruct (N.eqb_spec z 0); [contradiction|]. destruct (N.eqb 1 0); discriminate.
Qed.

Definition nseq255 : list N := map N.of_nat (seq 0 255).
Lemma ginv_alog_sweep : forallb (fun j => forallb (fun k => implb (ginv (GF.alog j) =? ginv (GF.alog k))%N (j =? k)%N) nseq255) nseq255 = true.
Proof. vm_compute. reflexivity. Qed.
Lemma in_nseq255 j : (j < 255)%N -> In j nseq255.
Proof. intros H. unfold nseq255. apply in_map_iff. exists (N.to_nat j). split; [lia|apply in_seq; lia]. Qed.
Lemma ginv_alog_inj j k : (j < 255)%N -> (k < 255)%N -> ginv (GF.alog j) = ginv (GF.alog k) -> j = k.
Proof.
  intros Hj Hk E. pose proof (proj1 (forallb_forall _ _) ginv_alog_sweep j (in_nseq255 j Hj)) as S1. cbv beta in S1.
  pose proof (proj1 (forallb_forall _ _) S1 k (in_nseq255 k Hk)) as S2. cbv beta in S2.
  rewrite E, N.eqb_refl in S2. cbn [implb] in S2. apply N.eqb_eq. exact S2.
Qed.

Lemma Ok_inj {E A} (a b : A) : @Ok E A a = Ok b -> a = b.
Proof. intros H. injection H. auto. Qed.

(* ---- Chien search: the roots it reports are non-zero and pairwise different ---- *)
Definition good_locs (z : list N) : Prop := Forall (fun x => x <> 0%N) z /\ NoDup (map ginv z).

Lemma chien_go_spec : forall fuel i gamma pw out, exists L,
  chien_go fuel i gamma pw out = out ++ map GF.alog L /\ NoDup L /\ (forall j, In j L -> (i <= j < i + N.of_nat fuel)%N).
Proof.
  induction fuel as [|f IH]; intros i gamma pw out.
  - exists []. cbn [chien_go map]. rewrite app_nil_r. split; [reflexivity|]. split; [constructor|intros j []].
  - cbn [chien_go]. destruct (N.eqb (gsum gamma) 0).
    + destruct (IH (i + 1)%N (zipw GF.mul gamma pw) pw (out ++ [GF.alog i])) as (L & E & ND & R).
      exists (i :: L). rewrite E, <- app_assoc. split; [reflexivity|]. split.
      * constructor; [intros Hin; apply R in Hin; lia|exact ND].
      * intros j [<-|Hj]; [lia|]. apply R in Hj. lia.
    + destruct (IH (i + 1)%N (zipw GF.mul gamma pw) pw out) as (L & E & ND & R).
      exists L. split; [exact E|]. split; [exact ND|]. intros j Hj. apply R in Hj. lia.
Qed.

Lemma good_locs_alog L : NoDup L -> (forall j, In j L -> (j < 255)%N) -> good_locs (map GF.alog L).
Proof.
  intros ND R. split.
  - apply Forall_forall. intros x Hx. apply in_map_iff in Hx. destruct Hx as (j & <- & Hj). apply alog_nz, R, Hj.
  - rewrite map_map. apply NoDup_map_inj_on; [exact ND|intros j k Hj Hk E; apply ginv_alog_inj; [apply R, Hj|apply R, Hk|exact E]].
Qed.

Lemma chien_search_safe c : safe (chien_search c).
Proof.
  unfold chien_search. destruct c as [|c0 [|c1 [|c2 r]]]; try apply safe_ok.
  destruct (N.eqb_spec c1 0); cbn [negb andb]; [apply safe_ok|]. destruct (N.eqb_spec c0 0) as [|NZ]; cbn [negb]; [apply safe_ok|].
  destruct (gdiv_ok c1 c0 NZ) as (q & E). rewrite E. apply safe_ok.
Qed.

Lemma chien_search_good c z f : chien_search c = Ok z -> nth_error z 0 = Some f -> f <> 0%N -> good_locs z.
Proof.
  unfold chien_search. destruct c as [|c0 r]; [intros [= <-]; discriminate|].
  set (o := if N.eqb (last (c0 :: r) 1%N) 0 then [0%N] else []).
  assert (forall L, NoDup L -> (forall j, In j L -> (j < 255)%N) -> nth_error (o ++ map GF.alog L) 0 = Some f -> f <> 0%N -> good_locs (o ++ map GF.alog L)) as G.
  { intros L ND R. unfold o. destruct (N.eqb _ 0); cbn [app nth_error]; [intros [= <-] C; contradiction|].
    intros _ _. apply good_locs_alog; assumption. }
  destruct (chien_go_spec 255 0%N (rev (c0 :: r)) (powers (length (c0 :: r))) o) as (L & E & ND & R).
  assert (forall j, In j L -> (j < 255)%N) as R' by (intros j Hj; apply R in Hj; lia).
  destruct r as [|c1 [|c2 r']]; [rewrite E; intros H; apply Ok_inj in H; subst z; apply G; assumption| |
                                  rewrite E; intros H; apply Ok_inj in H; subst z; apply G; assumption].
  clear E.
  destruct (N.eqb_spec c1 0) as [Z1|NZ1]; cbn [negb andb].
  - intros [= <-]. pose proof (G [] (NoDup_nil _) (fun j (H : In j []) => match H with end)) as G0. cbn [map] in G0. rewrite app_nil_r in G0. exact G0.
  - destruct (N.eqb_spec c0 0) as [Z0|NZ0]; cbn [negb].
    + intros [= <-]. pose proof (G [] (NoDup_nil _) (fun j (H : In j []) => match H with end)) as G0. cbn [map] in G0. rewrite app_nil_r in G0. exact G0.
    + destruct (gdiv c1 c0) as [q| |] eqn:E; cbn [bind]; try discriminate. intros [= <-].
      unfold o. cbn [last]. destruct (N.eqb_spec c1 0); [contradiction|]. cbn [app]. intros _ _. split.
      * constructor; [|constructor]. unfold gdiv in E. destruct (GF.div c1 c0) as [q'|] eqn:E'; [|discriminate]. inversion E; subst.
        eapply div_nonzero; [exact NZ1|exact E'].
      * cbn [map]. constructor; [intros []|constructor].
Qed.

(* ---- Bjoerck-Pereyra ---- *)
Lemma bp1_inner_ok xk : forall js syn, (forall j, In j js -> 1 <= j < length syn) ->
  exists syn', bp1_inner xk syn js = Ok syn' /\ length syn' = length syn.
Proof.
  induction js as [|j r IH]; intros syn H; cbn [bp1_inner]; [exists syn; split; reflexivity|].
  destruct (H j (or_introl eq_refl)) as [J1 J2].
  destruct (nth_ok_ok syn (j - 1)) as (tmp & E1); [lia|]. rewrite E1. cbn [bind].
  destruct (nth_ok_ok syn j J2) as (cur & E2). rewrite E2. cbn [bind].
  destruct (set_ok_ok syn j (GF.add cur (GF.mul xk tmp)) J2) as (s1 & E3 & L3). rewrite E3. cbn [bind].
  destruct (IH s1) as (s2 & E4 & L4); [intros j' Hj; rewrite L3; apply H; now right|]. exists s2. split; [exact E4|lia].
Qed.

Lemma bp1_ok x_loc e : forall ks syn, e <= length syn -> (forall k, In k ks -> k < length x_loc) ->
  exists syn', bp1 x_loc syn e ks = Ok syn' /\ length syn' = length syn.
Proof.
  induction ks as [|k r IH]; intros syn He H; cbn [bp1]; [exists syn; split; reflexivity|].
  destruct (nth_ok_ok x_loc k) as (xk & E1); [apply H; now left|]. rewrite E1. cbn [bind].
  destruct (bp1_inner_ok xk (rev (seq (k + 1) (e - (k + 1)))) syn) as (s1 & E2 & L2).
  { intros j Hj. apply in_rev, in_seq in Hj. lia. }
  rewrite E2. cbn [bind]. destruct (IH s1) as (s2 & E3 & L3); [lia|intros k' Hk; apply H; now right|].
  exists s2. split; [exact E3|lia].
Qed.

Lemma add_nonzero a b : a <> b -> GF.add a b <> 0%N.
Proof. intros H E. apply H. apply N.lxor_eq. exact E. Qed.

Lemma bp2_div_ok x_loc k : NoDup x_loc -> forall js syn, (forall j, In j js -> k + 1 <= j < length x_loc /\ j < length syn) ->
  exists syn', bp2_div x_loc syn k js = Ok syn' /\ length syn' = length syn.
Proof.
  intros ND. induction js as [|j r IH]; intros syn H; cbn [bp2_div]; [exists syn; split; reflexivity|].
  destruct (H j (or_introl eq_refl)) as [[J1 J2] J3].
  destruct (nth_ok_ok x_loc j J2) as (xj & E1). rewrite E1. cbn [bind].
  destruct (nth_ok_ok x_loc (j - k - 1)) as (xo & E2); [lia|]. rewrite E2. cbn [bind].
  destruct (nth_ok_ok syn j J3) as (cur & E3). rewrite E3. cbn [bind].
  assert (xj <> xo) as NE.
  { intros ->. apply nth_ok_spec in E1. apply nth_ok_spec in E2.
    assert (j = j - k - 1) as C; [|lia]. apply (proj1 (NoDup_nth_error x_loc) ND); [exact J2|congruence]. }
  destruct (gdiv_ok cur (GF.add xj xo) (add_nonzero _ _ NE)) as (q & E4). rewrite E4. cbn [bind].
  destruct (set_ok_ok syn j q J3) as (s1 & E5 & L5). rewrite E5. cbn [bind].
  destruct (IH s1) as (s2 & E6 & L6); [intros j' Hj; rewrite L5; apply H; now right|]. exists s2. split; [exact E6|lia].
Qed.

Lemma bp2_sub_ok : forall js syn, (forall j, In j js -> j + 1 < length syn) ->
  exists syn', bp2_sub syn js = Ok syn' /\ length syn' = length syn.
Proof.
  induction js as [|j r IH]; intros syn H; cbn [bp2_sub]; [exists syn; split; reflexivity|].
  pose proof (H j (or_introl eq_refl)) as J.
  destruct (nth_ok_ok syn (j + 1) J) as (tmp & E1). rewrite E1. cbn [bind].
  destruct (nth_ok_ok syn j) as (cur & E2); [lia|]. rewrite E2. cbn [bind].
  destruct (set_ok_ok syn j (GF.add cur tmp)) as (s1 & E3 & L3); [lia|]. rewrite E3. cbn [bind].
  destruct (IH s1) as (s2 & E4 & L4); [intros j' Hj; rewrite L3; apply H; now right|]. exists s2. split; [exact E4|lia].
Qed.

Lemma bp2_ok x_loc : NoDup x_loc -> forall ks syn, length x_loc <= length syn -> (forall k, In k ks -> k + 1 < length x_loc) ->
  exists syn', bp2 x_loc syn (length x_loc) ks = Ok syn' /\ length syn' = length syn.
Proof.
  intros ND. induction ks as [|k r IH]; intros syn He H; cbn [bp2]; [exists syn; split; reflexivity|].
  pose proof (H k (or_introl eq_refl)) as K.
  destruct (bp2_div_ok x_loc k ND (seq (k + 1) (length x_loc - (k + 1))) syn) as (s1 & E1 & L1).
  { intros j Hj. apply in_seq in Hj. lia. }
  rewrite E1. cbn [bind].
  destruct (bp2_sub_ok (seq k (length x_loc - 1 - k)) s1) as (s2 & E2 & L2).
  { intros j Hj. apply in_seq in Hj. lia. }
  rewrite E2. cbn [bind]. destruct (IH s2) as (s3 & E3 & L3); [lia|intros k' Hk; apply H; now right|].
  exists s3. split; [exact E3|lia].
Qed.

Lemma bp3_ok x_loc : Forall (fun x => x <> 0%N) x_loc -> forall is_ syn, (forall i, In i is_ -> i < length x_loc /\ i < length syn) ->
  exists syn', bp3 x_loc syn is_ = Ok syn' /\ length syn' = length syn.
Proof.
  intros NZ. induction is_ as [|i r IH]; intros syn H; cbn [bp3]; [exists syn; split; reflexivity|].
  destruct (H i (or_introl eq_refl)) as [I1 I2].
  destruct (nth_ok_ok x_loc i I1) as (xi & E1). rewrite E1. cbn [bind].
  destruct (nth_ok_ok syn i I2) as (cur & E2). rewrite E2. cbn [bind].
  assert (xi <> 0%N) as Hx.
  { apply nth_ok_spec in E1. apply nth_error_In in E1. exact (proj1 (Forall_forall _ _) NZ xi E1). }
  destruct (gdiv_ok cur xi Hx) as (q & E3). rewrite E3. cbn [bind].
  destruct (set_ok_ok syn i q I2) as (s1 & E4 & L4). rewrite E4. cbn [bind].
  destruct (IH s1) as (s2 & E5 & L5); [intros i' Hi; rewrite L4; apply H; now right|]. exists s2. split; [exact E5|lia].
Qed.

Lemma inv_all z : Forall (fun x => x <> 0%N) z ->
  (fix inv (l : list N) : RR (list N) :=
     match l with [] => Ok [] | z0 :: r => let* q := gdiv 1%N z0 in let* qs := inv r in Ok (q :: qs) end) z = Ok (map ginv z).
Proof.
  induction 1 as [|x r Hx Hr IH]; [reflexivity|]. rewrite (gdiv_ginv x Hx). cbn [bind]. rewrite IH. reflexivity.
Qed.

Theorem find_error_values_bp_ok z syn : good_locs z -> 1 <= length z <= length syn ->
  exists s3, find_error_values_bp z syn = Ok (map ginv z, s3) /\ length s3 = length syn.
Proof.
  intros [NZ ND] [H1 H2]. unfold find_error_values_bp. rewrite (inv_all z NZ). cbn [bind].
  destruct (Nat.eqb_spec (length z) 0); [lia|].
  assert (length (map ginv z) = length z) as LM by apply map_length.
  destruct (bp1_ok (map ginv z) (length z) (seq 0 (length z - 1)) syn H2) as (s1 & E1 & L1).
  { intros k Hk. apply in_seq in Hk. lia. }
  rewrite E1. cbn [bind].
  pose proof (bp2_ok (map ginv z) ND (rev (seq 0 (length z - 1))) s1) as B2. rewrite LM in B2.
  destruct B2 as (s2 & E2 & L2); [lia|intros k Hk; apply in_rev, in_seq in Hk; lia|].
  rewrite E2. cbn [bind].
  destruct (bp3_ok (map ginv z)) with (is_ := seq 0 (length z)) (syn := s2) as (s3 & E3 & L3).
  { apply Forall_forall. intros x Hx. apply in_map_iff in Hx. destruct Hx as (y & <- & Hy). apply ginv_nz. exact (proj1 (Forall_forall _ _) NZ y Hy). }
  { intros i Hi. apply in_seq in Hi. lia. }
  rewrite E3. cbn [bind]. exists s3. split; [reflexivity|lia].
Qed.

(* ---- applying the corrections, one block, all blocks ---- *)
Lemma stride_index len stride pos : stride <> 0 -> pos < (len + stride - 1) / stride -> pos * stride < len.
Proof.
  intros Hs H. pose proof (Nat.mul_div_le (len + stride - 1) stride Hs) as D.
  assert (stride * (pos + 1) <= stride * ((len + stride - 1) / stride)) as M by (apply Nat.mul_le_mono_l; lia). nia.
Qed.

Lemma apply_corr_safe stride n_data n_error : stride <> 0 -> forall locs errs data error,
  Forall (fun x => x <> 0%N) locs -> n_data = (length data + stride - 1) / stride -> n_error = (length error + stride - 1) / stride ->
  safe (apply_corr data error stride (n_data + n_error) n_data locs errs).
Proof.
  intros Hs. induction locs as [|loc lr IH]; intros errs data error NZ Hd He; [apply safe_ok|].
  destruct errs as [|err er]; [apply safe_ok|]. cbn [apply_corr]. apply Forall_cons_iff in NZ. destruct NZ as [Hl NZ'].
  unfold GF.glog. destruct (N.eqb_spec loc 0) as [|_]; [contradiction|].
  destruct (Nat.leb_spec (n_data + n_error) (N.to_nat (GF.logt loc))) as [|LT]; [apply safe_err|].
  set (pos := n_data + n_error - N.to_nat (GF.logt loc) - 1).
  destruct (Nat.ltb_spec pos n_data) as [P|P].
  - assert (pos * stride < length data) as I by (apply stride_index; [exact Hs|rewrite <- Hd; exact P]).
    destruct (nth_ok_ok data (pos * stride) I) as (cur & E1). rewrite E1. cbn [bind].
    destruct (set_ok_ok data (pos * stride) (GF.add cur err) I) as (d1 & E2 & L2). rewrite E2. cbn [bind].
    apply IH; [exact NZ'|rewrite L2; exact Hd|exact He].
  - assert ((pos - n_data) * stride < length error) as I by (apply stride_index; [exact Hs|rewrite <- He; unfold pos; lia]).
    destruct (nth_ok_ok error ((pos - n_data) * stride) I) as (cur & E1). rewrite E1. cbn [bind].
    destruct (set_ok_ok error ((pos - n_data) * stride) (GF.add cur err) I) as (e1 & E2 & L2). rewrite E2. cbn [bind].
    apply IH; [exact NZ'|exact Hd|rewrite L2; exact He].
Qed.

Lemma apply_corr_length stride n n_data : forall locs errs data error d' e',
  apply_corr data error stride n n_data locs errs = Ok (d', e') -> length d' = length data /\ length e' = length error.
Proof.
  induction locs as [|loc lr IH]; intros errs data error d' e' H; [cbn [apply_corr] in H; inversion H; subst; split; reflexivity|].
  destruct errs as [|err er]; [cbn [apply_corr] in H; inversion H; subst; split; reflexivity|]. cbn [apply_corr] in H.
  destruct (GF.glog loc) as [iN|]; [|discriminate]. destruct (n <=? N.to_nat iN); [discriminate|].
  destruct (n - N.to_nat iN - 1 <? n_data).
  - destruct (nth_ok data _) as [cur| |]; cbn [bind] in H; try discriminate.
    destruct (set_ok data _ _) as [d1| |] eqn:SO; cbn [bind] in H; try discriminate.
    destruct (IH _ _ _ _ _ H) as [A B]. rewrite (set_ok_length _ _ _ _ SO) in A. split; assumption.
  - destruct (nth_ok error _) as [cur| |]; cbn [bind] in H; try discriminate.
    destruct (set_ok error _ _) as [e1| |] eqn:SO; cbn [bind] in H; try discriminate.
    destruct (IH _ _ _ _ _ H) as [A B]. rewrite (set_ok_length _ _ _ _ SO) in B. split; assumption.
Qed.

Lemma pee_go_len k : forall gamma pw, length (pee_go k gamma pw) = k.
Proof. induction k as [|k IH]; intros gamma pw; cbn [pee_go length]; [reflexivity|]. now rewrite IH. Qed.

Lemma decode_gen_length data error stride k d' e' : decode_gen data error stride k = Ok (d', e') ->
  length d' = length data /\ length e' = length error.
Proof.
  unfold decode_gen. destruct (stride =? 0); [discriminate|]. destruct (negb (1 <=? k)); [discriminate|].
  destruct (negb (k <? _)); [discriminate|].
  destruct (primitive_element_evaluation _ k) as [syndromes hnz]. destruct hnz; cbn [negb]; [|intros [= <- <-]; split; reflexivity].
  destruct (find_inv_error_locations_levinson_durbin syndromes) as [lambda| |]; cbn [bind]; try discriminate.
  destruct (chien_search lambda) as [inv_locs| |]; cbn [bind]; try discriminate.
  destruct (negb (length inv_locs =? length lambda - 1)); [discriminate|].
  destruct (nth_ok inv_locs 0) as [first| |]; cbn [bind]; try discriminate.
  destruct (N.eqb first 0); [discriminate|].
  destruct (2 * (k / 2) <? length lambda - 1 + 1); [discriminate|].
  match goal with |- (let* tj := ?X in _) = _ -> _ => destruct X as [tj| |] end; cbn [bind]; try discriminate.
  destruct (existsb _ tj); [discriminate|].
  destruct (find_error_values_bp inv_locs syndromes) as [[locs errs]| |]; cbn [bind]; try discriminate.
  destruct (apply_corr data error stride _ _ locs errs) as [[d1 e1]| |] eqn:AC; cbn [bind]; try discriminate.
  destruct (primitive_element_evaluation _ k) as [s2 nz]. destruct nz; [discriminate|]. intros [= <- <-].
  eapply apply_corr_length; exact AC.
Qed.

Theorem decode_gen_safe data error stride k : stride <> 0 -> 1 <= k ->
  k < (length data + stride - 1) / stride + (length error + stride - 1) / stride ->
  safe (decode_gen data error stride k).
Proof.
  intros Hs Hk Hn. unfold decode_gen. destruct (Nat.eqb_spec stride 0); [contradiction|].
  destruct (Nat.leb_spec 1 k); [|lia]. destruct (Nat.ltb_spec k ((length data + stride - 1) / stride + (length error + stride - 1) / stride)); [|lia].
  cbn [negb]. unfold primitive_element_evaluation at 1.
  set (syn := pee_go k _ _). assert (length syn = k) as Lsyn by apply pee_go_len.
  destruct (existsb _ syn); cbn [negb]; [|apply safe_ok].
  apply safe_bind; [apply levinson_durbin_safe|]. intros lam Hlam.
  pose proof (ld_locator_length _ _ Hlam) as U. pose proof (ld_locator_lower _ _ Hlam) as Lo. rewrite Lsyn in U.
  apply safe_bind; [apply chien_search_safe|]. intros z Hz.
  destruct (Nat.eqb_spec (length z) (length lam - 1)) as [Lz|]; cbn [negb]; [|apply safe_err].
  destruct (nth_ok_ok z 0) as (first & E1); [lia|]. rewrite E1. cbn [bind].
  destruct (N.eqb_spec first 0) as [|NZ]; [apply safe_err|].
  pose proof (chien_search_good _ _ _ Hz (nth_ok_spec _ _ _ E1) NZ) as G.
  assert (2 * (k / 2) <= k) as K2 by (pose proof (Nat.div_mod k 2 ltac:(lia)); lia).
  destruct (Nat.ltb_spec (2 * (k / 2)) (length lam - 1 + 1)); [lia|].
  match goal with |- safe (let* tj := map_ok ?F ?L in _) => destruct (map_ok_ok F L) as (tj & E2 & L2) end.
  { intros j Hj. apply in_seq in Hj. destruct (Nat.ltb_spec (length syn - j) (length lam)); [lia|]. eexists; reflexivity. }
  rewrite E2. cbn [bind]. destruct (existsb _ tj); [apply safe_err|].
  destruct (find_error_values_bp_ok z syn G) as (s3 & E3 & L3); [lia|]. rewrite E3. cbn [bind].
  apply safe_bind.
  - apply apply_corr_safe; [exact Hs| |reflexivity|reflexivity].
    apply Forall_forall. intros x Hx. apply in_map_iff in Hx. destruct Hx as (y & <- & Hy). apply ginv_nz.
    exact (proj1 (Forall_forall _ _) (proj1 G) y Hy).
  - intros [d1 e1] _. destruct (primitive_element_evaluation _ k) as [s2 nz]. destruct nz; [apply safe_err|apply safe_ok].
Qed.

Lemma decode_blocks_safe B k nd : B <> 0 -> 1 <= k -> B <= nd -> forall blocks data error,
  length data = nd -> length error = B * k -> (forall b, In b blocks -> b < B) ->
  safe (decode_blocks data error B k blocks).
Proof.
  intros HB Hk Hnd. induction blocks as [|b r IH]; intros data error Ld Le H; cbn [decode_blocks]; [apply safe_ok|].
  assert (b < B) as Hb by (apply H; now left).
  destruct (Nat.ltb_spec (length data) b); [lia|]. destruct (Nat.ltb_spec (length error) b); [nia|]. cbn [orb].
  apply safe_bind.
  - apply decode_gen_safe; [exact HB|exact Hk|]. rewrite !skipn_length, Ld, Le.
    assert (1 <= (nd - b + B - 1) / B) by (apply Nat.div_le_lower_bound; [exact HB|lia]).
    assert (k <= (B * k - b + B - 1) / B) by (apply Nat.div_le_lower_bound; [exact HB|nia]). lia.
  - intros [d' e'] Hg. apply decode_gen_length in Hg. destruct Hg as [G1 G2]. rewrite skipn_length in G1, G2.
    apply IH; [| |intros b' Hb'; apply H; now right].
    + rewrite app_length, firstn_length, G1. lia.
    + rewrite app_length, firstn_length, G2. nia.
Qed.

(* the error-correction entry point on a word of the symbol's length *)
Theorem decode_safe s cw :
  length cw = N.to_nat (num_data_codewords s + num_ecc_blocks s * num_ecc_per_block s) -> safe (RSDec.decode cw s).
Proof.
  intros L. unfold RSDec.decode.
  destruct (size_facts s) as [HB [Hk1 Hk2]].
  pose proof (sweep _ data_blocks_sweep s) as DB. cbv beta in DB. apply N.leb_le in DB.
  set (B := N.to_nat (num_ecc_blocks s)) in *. set (k := N.to_nat (num_ecc_per_block s)) in *. set (nd := N.to_nat (num_data_codewords s)) in *.
  assert (length cw = nd + B * k) as L' by (rewrite L; unfold nd, B, k; lia).
  destruct (Nat.ltb_spec (length cw) nd); [lia|].
  apply safe_bind; [|intros [d e] _; apply safe_ok].
  apply (decode_blocks_safe B k nd); [lia|lia|unfold B, nd; lia| | |].
  - rewrite firstn_length. lia.
  - rewrite skipn_length. lia.
  - intros b Hb. apply in_seq in Hb. lia.
Qed.
