(* Proofs/EncAscii.v -- the first end-to-end statement about the data layer: whenever the planner answers "stay in
   ASCII" (the plan [(0, Ascii)], which is what it answers e.g. when only ASCII is enabled -- checked per case by
   the correspondence), the encoder's output is the rendering of a legal script of Spec/Stream16022.v (greedy digit
   pairs, Upper Shift, standard padding), hence a conformant stream, and the decoder returns the input (via C04). *)
From Coq Require Import Arith NArith List Bool Lia.
From DM Require Import Generated.Symbols Generated.ModeTables Model.Outcome Model.SymbolList Model.Planner Model.Eci Model.Enc Model.Dec
  Spec.Stream16022 Proofs.SymbolListProofs Proofs.EncLocal Proofs.EncTop Proofs.DecStream Proofs.DecStreamC40 Proofs.DecStreamEdi Proofs.DecScript.
Import ListNotations.
Local Open Scope N_scope.

Definition item_of (a : N) : aitem := if a <=? 127 then AChar a else AUpper a.
Fixpoint greedy (l : list N) : list aitem :=
  match l with
  | [] => []
  | a :: r => match r with
              | b :: t => if is_digit a && is_digit b then APair a b :: greedy t else item_of a :: greedy r
              | [] => [item_of a]
              end
  end.

Lemma item_of_ok a : a < 256 -> aitem_ok (item_of a) = true /\ aitem_data (item_of a) = [a].
Proof.
  intros H. unfold item_of. destruct (N.leb_spec a 127); cbn; split; try reflexivity.
  - apply N.ltb_lt. lia.
  - apply andb_true_iff. split; [apply N.leb_le; lia|apply N.ltb_lt; lia].
Qed.

Lemma greedy_cons2 a b t : greedy (a :: b :: t) = if is_digit a && is_digit b then APair a b :: greedy t else item_of a :: greedy (b :: t).
Proof. reflexivity. Qed.

Lemma greedy_ok l : bytes_ok l = true -> forallb aitem_ok (greedy l) = true /\ flat_map aitem_data (greedy l) = l.
Proof.
  induction l as [l IH] using (well_founded_induction (well_founded_ltof _ (@length N))). intros OK.
  destruct l as [|a [|b t]]; [split; reflexivity| |].
  - cbn [greedy]. cbn [bytes_ok forallb] in OK. rewrite andb_true_r in OK. apply N.ltb_lt in OK.
    destruct (item_of_ok a OK) as [A B]. cbn [forallb flat_map]. rewrite A, B. split; reflexivity.
  - cbn [bytes_ok forallb] in OK. apply andb_true_iff in OK. destruct OK as [Oa OK'].
    assert (bytes_ok (b :: t) = true) as Obt by exact OK'.
    cbn [forallb] in OK'. apply andb_true_iff in OK'. destruct OK' as [Ob Ot]. apply N.ltb_lt in Oa.
    rewrite greedy_cons2. destruct (is_digit a && is_digit b) eqn:DG.
    + destruct (IH t ltac:(unfold ltof; cbn; lia) Ot) as [A B]. cbn [forallb flat_map aitem_ok aitem_data app].
      unfold is_digit in DG. unfold is_dig. rewrite DG, A, B. split; reflexivity.
    + destruct (IH (b :: t) ltac:(unfold ltof; cbn; lia) Obt) as [A B]. destruct (item_of_ok a Oa) as [A1 B1].
      cbn [forallb flat_map]. rewrite A, A1, B, B1. split; reflexivity.
Qed.

(* what ascii::encode writes under the plan "stay in ASCII" *)
Definition stays (e : enc) : Prop := e_planned e = [(0, Ascii)] /\ e_encodation e = Ascii.

Lemma maybe_switch_stays e : stays e -> maybe_switch_mode e = Ok (false, e).
Proof.
  intros [P A]. unfold maybe_switch_mode. rewrite P, A.
  replace (0 <=? chars_left e) with true by (symmetry; apply N.leb_le; lia). cbn [negb].
  assert ((0 <? chars_left e) && (chars_left e =? 0) = false) as ->.
  { destruct (N.eqb_spec (chars_left e) 0) as [->|]; [reflexivity|now rewrite andb_false_r]. }
  rewrite (proj2 (N.eqb_eq _ _) eq_refl : et_eqb Ascii Ascii = true). cbn [negb].
  destruct e; cbn in *; subst; reflexivity.
Qed.

Definition same_frame (e e' : enc) : Prop :=
  stays e' /\ e_symbols e' = e_symbols e /\ e_new_mode e' = e_new_mode e /\ e_modes e' = e_modes e.

Lemma ascii_encode_stays fuel : forall e, stays e -> (length (e_data e) < fuel)%nat ->
  exists e', ascii_encode fuel e = Ok e' /\ same_frame e e' /\ e_data e' = [] /\
    e_cw e' = e_cw e ++ flat_map aitem_cw (greedy (e_data e)).
Proof.
  induction fuel as [|f IH]; intros e ST Hf; [lia|]. cbn [ascii_encode].
  rewrite (maybe_switch_stays e ST). cbn [bind].
  assert (forall e1 rest pre, stays e1 -> e_data e1 = rest -> (length rest < f)%nat -> e_symbols e1 = e_symbols e ->
            e_new_mode e1 = e_new_mode e -> e_modes e1 = e_modes e -> e_cw e1 = e_cw e ++ pre ->
            exists e', ascii_encode f e1 = Ok e' /\ same_frame e e' /\ e_data e' = [] /\
                       e_cw e' = e_cw e ++ pre ++ flat_map aitem_cw (greedy rest)) as T.
  { intros e1 rest pre S1 D1 L1 Y1 N1 M1 C1. destruct (IH e1 S1 ltac:(rewrite D1; exact L1)) as (e' & A & (B1 & B2 & B3 & B4) & C & D).
    exists e'. rewrite D1, C1, <- app_assoc in D. repeat split; try apply B1; congruence. }
  destruct ST as [SP SA].
  destruct (e_data e) as [|a [|b t]] eqn:ED.
  - exists e. cbn. rewrite app_nil_r. repeat split; assumption.
  - cbn [greedy flat_map]. rewrite app_nil_r. unfold item_of. destruct (N.leb_spec a 127).
    + destruct (T (push (set_data e []) (a + 1)) [] [a + 1]) as (e' & A & B & C & D); try reflexivity; try (split; assumption); [cbn in *; lia|].
      exists e'. cbn [greedy flat_map app] in D. rewrite ?app_nil_r in D. repeat split; try apply B; assumption.
    + destruct (T (push (push (set_data e []) ascii_UPPER_SHIFT) (a - 128 + 1)) [] [235; a - 127]) as (e' & A & B & C & D);
        try reflexivity; try (split; assumption); [cbn in *; lia| |].
      { cbn [e_cw push set_cw set_data]. rewrite <- app_assoc. cbn [app]. do 3 f_equal. lia. }
      exists e'. cbn [greedy flat_map app] in D. rewrite ?app_nil_r in D. repeat split; try apply B; assumption.
  - cbn [length] in Hf. rewrite greedy_cons2. destruct (is_digit a && is_digit b) eqn:DG.
    + destruct (T (push (set_data e t) ((a - 48) * 10 + (b - 48) + 130)) t [130 + (10 * (a - 48) + (b - 48))]) as (e' & A & B & C & D);
        try reflexivity; try (split; assumption); [lia| |].
      { cbn [e_cw push set_cw set_data]. do 2 f_equal. lia. }
      exists e'. repeat split; try apply B; assumption.
    + unfold item_of. destruct (N.leb_spec a 127).
      * destruct (T (push (set_data e (b :: t)) (a + 1)) (b :: t) [a + 1]) as (e' & A & B & C & D);
          try reflexivity; try (split; assumption); [cbn [length]; lia|].
        exists e'. repeat split; try apply B; assumption.
      * destruct (T (push (push (set_data e (b :: t)) ascii_UPPER_SHIFT) (a - 128 + 1)) (b :: t) [235; a - 127]) as (e' & A & B & C & D);
          try reflexivity; try (split; assumption); [cbn [length]; lia| |].
        { cbn [e_cw push set_cw set_data]. rewrite <- app_assoc. cbn [app]. do 3 f_equal. lia. }
        exists e'. repeat split; try apply B; assumption.
Qed.

Lemma rpads_rpad len n : rpads len n = rpad len n.
Proof. revert len; induction n as [|n IH]; intros len; cbn [rpads rpad]; [reflexivity|]. rewrite IH. reflexivity. Qed.
Lemma padding_pad len left : padding true len left = pad len (N.to_nat left).
Proof.
  unfold padding. destruct (N.eqb_spec left 0) as [->|NZ]; [reflexivity|].
  destruct (N.to_nat left) as [|k] eqn:E; [lia|]. cbn [pad]. rewrite rpads_rpad. do 2 f_equal. lia.
Qed.

Lemma main_loop_stays fuel e : stays e -> e_new_mode e = None -> (2 <= fuel)%nat ->
  exists e', main_loop fuel e 0 = Ok e' /\ same_frame e e' /\ e_data e' = [] /\
    e_cw e' = e_cw e ++ flat_map aitem_cw (greedy (e_data e)).
Proof.
  intros ST NM Hf. destruct fuel as [|[|f]]; try lia. cbn [main_loop].
  destruct (e_data e) as [|a t] eqn:ED.
  - unfold has_more. rewrite ED. cbn [negb]. exists e. cbn. rewrite app_nil_r. repeat split; try apply ST; assumption.
  - unfold has_more. rewrite ED. cbn [negb]. rewrite NM.
    unfold mode_encode. rewrite (proj2 ST).
    destruct (ascii_encode_stays (S (S (length (e_data e)))) e ST ltac:(lia)) as (e1 & A & B & C & D).
    rewrite A. cbn [bind]. rewrite D, app_length.
    destruct (Nat.ltb_spec (length (e_cw e) + length (flat_map aitem_cw (greedy (e_data e)))) (length (e_cw e))); [lia|].
    assert (forall n, main_loop (S f) e1 n = Ok e1) as ML.
    { intros n. cbn [main_loop]. unfold has_more. rewrite C. reflexivity. }
    exists e1. rewrite ED in *. split; [|repeat split; try apply B; assumption].
    destruct (_ <=? 1)%nat; [change (5 <? 0 + 1) with false; cbv iota|]; rewrite C; reflexivity.
Qed.

Section AsciiPlan.
Variable optimize_fn : list N -> N -> list SymbolSize -> N -> PR (option (list (N * EncodationType))).

(* the whole data layer when the planner says "stay in ASCII": conformant stream, and the round trip *)
Theorem ascii_plan_roundtrip data symbols modes cw s :
  optimize_fn data 0 symbols modes = Ok (Some [(0, Ascii)]) -> bytes_ok data = true ->
  encode_data_internal optimize_fn data symbols None modes false false = Ok (cw, s) ->
  (exists npad, script_ok [SAscii (greedy data)] npad = true /\ cw = stream [SAscii (greedy data)] npad) /\
  decode_data cw = Ok data.
Proof.
  intros HP OK. unfold encode_data_internal. cbv zeta. cbn [bind]. set (e := with_size data symbols modes false).
  unfold codewords. destruct (e_symbols e) as [|s0 sr] eqn:ES; [discriminate|]. rewrite <- ES.
  destruct (_ <? _); [discriminate|]. destruct (upper_limit_for_number_of_codewords _ _); [|discriminate].
  change (e_data e) with data. change (cw_len e) with 0. change (e_symbols e) with symbols. change (e_modes e) with modes.
  rewrite HP. cbn [lift bind].
  set (e0 := mkenc _ _ _ _ _ _ _ _).
  destruct (main_loop_stays (6 * length (e_data e0) + 12) e0 ltac:(split; reflexivity) eq_refl ltac:(lia)) as (e1 & A & (ST1 & Y1 & N1 & M1) & D1 & C1).
  rewrite A. cbn [bind]. unfold symbol_for. destruct (first_symbol_big_enough_for _ _) as [s'|] eqn:FF; [|discriminate].
  destruct (add_padding e1 s') as [e2| |] eqn:AP; cbn [bind]; try discriminate. intros H; inversion H; subst s' cw. clear H.
  apply add_padding_spec in AP. destruct AP as (L & C2 & _).
  rewrite (proj2 ST1) in C2. rewrite (proj2 (N.eqb_eq _ _) eq_refl : et_eqb Ascii Ascii = true) in C2.
  rewrite padding_pad in C2. change (e_cw e0) with (@nil N) in C1. change (e_data e0) with data in C1. cbn [app] in C1.
  destruct (greedy_ok data OK) as [GO GD].
  set (npad := N.to_nat (num_data_codewords s - cw_len e1)) in *.
  assert (cw_ok : e_cw e2 = stream [SAscii (greedy data)] npad).
  { rewrite C2. unfold stream. cbn [render segment_cw]. cbv zeta. rewrite app_nil_r, C1. unfold cw_len. rewrite C1. reflexivity. }
  assert (SO : script_ok [SAscii (greedy data)] npad = true).
  { cbn [script_ok segment_ok term_of]. rewrite GO. reflexivity. }
  split; [exists npad; split; assumption|].
  rewrite cw_ok, (decode_script _ _ SO). unfold meaning. cbn [flat_map segment_data]. rewrite app_nil_r, GD. reflexivity.
Qed.

(* ... and under that plan the entry point is total: a value or an error, never a panic *)
Theorem ascii_plan_total data symbols modes :
  optimize_fn data 0 symbols modes = Ok (Some [(0, Ascii)]) ->
  no_panic (encode_data_internal optimize_fn data symbols None modes false false).
Proof.
  intros HP. unfold encode_data_internal. cbv zeta. cbn [bind]. set (e := with_size data symbols modes false).
  unfold codewords. destruct (e_symbols e) as [|s0 sr] eqn:ES; [exact I|]. rewrite <- ES.
  destruct (_ <? _); [exact I|]. destruct (upper_limit_for_number_of_codewords _ _); [|exact I].
  change (e_data e) with data. change (cw_len e) with 0. change (e_symbols e) with symbols. change (e_modes e) with modes.
  rewrite HP. cbn [lift bind].
  set (e0 := mkenc _ _ _ _ _ _ _ _).
  destruct (main_loop_stays (6 * length (e_data e0) + 12) e0 ltac:(split; reflexivity) eq_refl ltac:(lia)) as (e1 & A & _).
  rewrite A. cbn [bind]. destruct (symbol_for e1 0) as [s'|] eqn:SF; [|exact I].
  destruct (add_padding_total e1 s' SF) as (e2 & ->). exact I.
Qed.
(* the symbol is the first listed one that holds the greedy ASCII stream *)
Theorem ascii_plan_first_fit data symbols modes cw s :
  optimize_fn data 0 symbols modes = Ok (Some [(0, Ascii)]) ->
  encode_data_internal optimize_fn data symbols None modes false false = Ok (cw, s) ->
  first_symbol_big_enough_for symbols (N.of_nat (length (flat_map aitem_cw (greedy data)))) = Some s.
Proof.
  intros HP. unfold encode_data_internal. cbv zeta. cbn [bind]. set (e := with_size data symbols modes false).
  unfold codewords. destruct (e_symbols e) as [|s0 sr] eqn:ES; [discriminate|]. rewrite <- ES.
  destruct (_ <? _); [discriminate|]. destruct (upper_limit_for_number_of_codewords _ _); [|discriminate].
  change (e_data e) with data. change (cw_len e) with 0. change (e_symbols e) with symbols. change (e_modes e) with modes.
  rewrite HP. cbn [lift bind].
  set (e0 := mkenc _ _ _ _ _ _ _ _).
  destruct (main_loop_stays (6 * length (e_data e0) + 12) e0 ltac:(split; reflexivity) eq_refl ltac:(lia)) as (e1 & A & (ST1 & Y1 & N1 & M1) & D1 & C1).
  rewrite A. cbn [bind]. unfold symbol_for. destruct (first_symbol_big_enough_for _ _) as [s'|] eqn:FF; [|discriminate].
  destruct (add_padding e1 s') as [e2| |]; cbn [bind]; try discriminate. intros [= _ <-].
  rewrite Y1, N.add_0_r in FF. unfold cw_len in FF. rewrite C1 in FF. exact FF.
Qed.
End AsciiPlan.
