(* Proofs/RSEncProofs.v -- property C06: the error codewords computed by the model of
   encode_error make every interleaved block a multiple of the standard's generator. *)
From Coq Require Import NArith List Bool Lia Ring Field Arith.
From DM Require Import Generated.Symbols Generated.Generators Spec.GF256 Spec.Poly Spec.RSCode
  Model.Outcome Model.GF Model.RSEnc Proofs.GFTie Proofs.SymbolListProofs.
Import ListNotations.

(* ---------- N-level Horner and its F-level meaning ---------- *)
Definition hornerN (x acc c : N) : N := gadd (gmul acc x) c.
Definition pevalN (l : list N) (x : N) : N := fold_left (hornerN x) l 0%N.

Lemma hornerN_fold l x : forall acc, byte acc -> byte x -> Forall byte l ->
  byte (fold_left (hornerN x) l acc) /\
  toF (fold_left (hornerN x) l acc) = fold_left (horner (toF x)) (map toF l) (toF acc).
Proof.
  induction l as [|c l IH]; intros acc Ha Hx Hl; cbn [fold_left map]; [tauto|].
  inversion Hl as [|? ? Hc Hl']; subst.
  assert (byte (hornerN x acc c)) as Hb by (apply lxor_byte; auto using gmul_byte).
  destruct (IH _ Hb Hx Hl') as [I1 I2]. split; [exact I1|]. rewrite I2. f_equal.
  unfold hornerN, horner. apply F_eq.
  rewrite Fval_add, Fval_mul, !Fval_toF by auto using gmul_byte. reflexivity.
Qed.

Lemma pevalN_spec l x : byte x -> Forall byte l -> toF (pevalN l x) = peval (map toF l) (toF x).
Proof. intros Hx Hl. unfold pevalN, peval. apply hornerN_fold; auto. unfold byte. lia. Qed.

Lemma Fpow_alpha_toF j : Fpow Falpha j = toF (gpow alpha j).
Proof. apply F_eq. rewrite Fval_pow, Fval_toF; [reflexivity|]. apply gpow_byte. unfold byte, alpha. lia. Qed.

(* ---------- generator table: kernel sweep over the 48 sizes (25 polynomials) ---------- *)
Fixpoint list_eqb (l1 l2 : list N) : bool :=
  match l1, l2 with
  | [], [] => true
  | a :: r1, b :: r2 => N.eqb a b && list_eqb r1 r2
  | _, _ => false
  end.
Lemma list_eqb_eq l1 : forall l2, list_eqb l1 l2 = true -> l1 = l2.
Proof. induction l1 as [|a r IH]; intros [|b r2]; cbn; try discriminate; try reflexivity.
  rewrite andb_true_iff, N.eqb_eq. intros [-> H]. f_equal. now apply IH. Qed.

Definition gen_ok (s : SymbolSize) : bool :=
  let k := num_ecc_per_block s in
  match generator k with
  | Some (1%N :: gt) =>
      (len gt =? k)%N && (1 <=? k)%N && forallb byteb gt &&
      forallb (fun j => (pevalN (1%N :: gt) (gpow alpha j) =? 0)%N) (seq 1 (N.to_nat k)) &&
      list_eqb (1%N :: gt) (gen_poly (N.to_nat k))
  | _ => false
  end.

Lemma gen_sweep : forallb gen_ok all_variants = true.
Proof. vm_compute. reflexivity. Qed.

Lemma generator_spec s :
  exists gt, generator (num_ecc_per_block s) = Some (1%N :: gt) /\
    length gt = N.to_nat (num_ecc_per_block s) /\ (1 <= N.to_nat (num_ecc_per_block s))%nat /\
    Forall byte gt /\
    (forall r, In r (roots (N.to_nat (num_ecc_per_block s))) -> peval (map toF (1%N :: gt)) r = F0) /\
    1%N :: gt = gen_poly (N.to_nat (num_ecc_per_block s)).
Proof.
  pose proof (sweep _ gen_sweep s) as H. unfold gen_ok in H.
  destruct (generator (num_ecc_per_block s)) as [[|[|[| |]] gt]|]; try discriminate H.
  rewrite !andb_true_iff in H. destruct H as [[[[H1 H2] H3] H4] H5].
  exists gt. split; [reflexivity|]. apply N.eqb_eq in H1. apply N.leb_le in H2. unfold len in H1.
  assert (Forall byte gt) as Hb.
  { rewrite forallb_forall in H3. apply Forall_forall. intros x Hx. apply byteb_byte, H3, Hx. }
  repeat split; try lia; try assumption.
  - intros r Hr. unfold roots in Hr. apply in_map_iff in Hr. destruct Hr as [j [<- Hj]].
    rewrite forallb_forall in H4. specialize (H4 j Hj). apply N.eqb_eq in H4.
    rewrite Fpow_alpha_toF, <- pevalN_spec, H4; [reflexivity| |].
    + apply gpow_byte. unfold byte, alpha. lia.
    + constructor; [unfold byte; lia|exact Hb].
  - apply list_eqb_eq, H5.
Qed.

(* ---------- refinement of one LFSR step to F ---------- *)
Definition ecc_stepF (G E : list F) (a : F) : list F :=
  match E, G with
  | e0 :: er, _ :: gr => zipF (fun e g => Fadd e (Fmul (Fadd e0 a) g)) er gr ++ lastl er
  | _, _ => E
  end.

Lemma zipw_byte k : byte k -> forall l1 l2, Forall byte l1 -> Forall byte l2 ->
  Forall byte (zipw (fun e gj => GF.add e (GF.mul k gj)) l1 l2) /\
  map toF (zipw (fun e gj => GF.add e (GF.mul k gj)) l1 l2) =
    zipF (fun e g => Fadd e (Fmul (toF k) g)) (map toF l1) (map toF l2).
Proof.
  intros Hk. induction l1 as [|a r IH]; intros [|b r2] H1 H2; cbn [zipw zipF map]; try (split; [constructor|reflexivity]).
  inversion H1; inversion H2; subst. destruct (IH r2) as [I1 I2]; try assumption. split.
  - constructor; [|exact I1]. apply add_byte; [assumption|apply mul_byte; assumption].
  - rewrite I2. f_equal. rewrite toF_add, toF_mul by auto using mul_byte. reflexivity.
Qed.

Lemma In_skipn {A} n (l : list A) x : In x (skipn n l) -> In x l.
Proof. revert l. induction n; intros l; cbn [skipn]; [tauto|]. destruct l; [tauto|]. intros H. right. now apply IHn. Qed.

Lemma lastl_byte l : Forall byte l -> Forall byte (lastl l).
Proof. unfold lastl. intros H. apply Forall_forall. intros x Hx. rewrite Forall_forall in H.
  apply H. eapply In_skipn; eassumption. Qed.

Lemma lastl_map {A B} (f : A -> B) l : map f (lastl l) = lastl (map f l).
Proof. unfold lastl. rewrite map_length. symmetry. apply skipn_map. Qed.

Lemma ecc_step_refine g ecc a : Forall byte g -> Forall byte ecc -> byte a ->
  Forall byte (ecc_step g ecc a) /\
  map toF (ecc_step g ecc a) = ecc_stepF (map toF g) (map toF ecc) (toF a).
Proof.
  intros Hg He Ha. unfold ecc_step, ecc_stepF.
  destruct ecc as [|e0 er]; [split; [constructor|reflexivity]|].
  destruct g as [|g0 gr]; [split; [assumption|reflexivity]|]. cbn [map].
  inversion He; inversion Hg; subst.
  assert (byte (GF.add e0 a)) as Hk by (apply add_byte; assumption).
  destruct (zipw_byte _ Hk er gr) as [Z1 Z2]; try assumption. split.
  - apply Forall_app. split; [exact Z1|apply lastl_byte; assumption].
  - rewrite map_app, Z2, lastl_map, toF_add by assumption. reflexivity.
Qed.

Lemma ecc_block_refine g : Forall byte g -> forall data ecc, Forall byte data -> Forall byte ecc ->
  Forall byte (ecc_block data g ecc) /\
  map toF (ecc_block data g ecc) = fold_left (ecc_stepF (map toF g)) (map toF data) (map toF ecc).
Proof.
  intros Hg. unfold ecc_block. induction data as [|a d IH]; intros ecc Hd He; cbn [fold_left map]; [tauto|].
  inversion Hd; subst. destruct (ecc_step_refine g ecc a) as [S1 S2]; try assumption.
  destruct (IH (ecc_step g ecc a)) as [I1 I2]; try assumption. split; [exact I1|]. rewrite I2, S2. reflexivity.
Qed.

(* ---------- the LFSR invariant ---------- *)
Lemma lastl_snoc {A} (l : list A) x : lastl (l ++ [x]) = [x].
Proof. unfold lastl. rewrite app_length. cbn [length]. replace (length l + 1 - 1)%nat with (length l) by lia.
  rewrite skipn_app, skipn_all, Nat.sub_diag. reflexivity. Qed.

Lemma ecc_stepF_inv gt R D a rho k :
  length gt = k -> length R = k -> (1 <= k)%nat ->
  peval (F1 :: gt) rho = F0 ->
  Fmul (peval D rho) (Fpow rho k) = peval R rho ->
  exists R', ecc_stepF (F1 :: gt) (R ++ [F0]) a = R' ++ [F0] /\ length R' = k /\
             Fmul (peval (D ++ [a]) rho) (Fpow rho k) = peval R' rho.
Proof.
  intros Hgt HR Hk Hroot Hinv.
  destruct R as [|e0 r']; [cbn in HR; lia|].
  cbn [app]. unfold ecc_stepF. rewrite lastl_snoc.
  exists (zipF (fun e g => Fadd e (Fmul (Fadd e0 a) g)) (r' ++ [F0]) gt).
  assert (length (r' ++ [F0]) = length gt) as HL by (rewrite app_length; cbn in *; lia).
  split; [reflexivity|]. split; [rewrite zipF_length; lia|].
  rewrite peval_zip_linear by exact HL. rewrite !peval_snoc.
  rewrite peval_cons in Hinv, Hroot. cbn in HR.
  assert (length r' = (k - 1)%nat) as Hr by lia.
  rewrite Hgt in Hroot. rewrite Hr in Hinv.
  assert (peval gt rho = Fpow rho k) as Hg.
  { transitivity (Fadd (Fadd (Fmul F1 (Fpow rho k)) (peval gt rho)) (Fpow rho k)); [ring|]. rewrite Hroot. ring. }
  rewrite Hg.
  assert (Fpow rho k = Fmul rho (Fpow rho (k - 1))) as Hp.
  { destruct k; [lia|]. cbn [Fpow]. replace (S k - 1)%nat with k by lia. reflexivity. }
  assert (peval r' rho = Fadd (Fmul (peval D rho) (Fpow rho k)) (Fmul e0 (Fpow rho (k - 1)))) as Hr'.
  { rewrite Hinv. ring. }
  rewrite Hr'. rewrite Hp. ring.
Qed.

Lemma ecc_blockF_inv gt rho k : length gt = k -> (1 <= k)%nat -> peval (F1 :: gt) rho = F0 ->
  forall data D R, length R = k -> Fmul (peval D rho) (Fpow rho k) = peval R rho ->
  exists R', fold_left (ecc_stepF (F1 :: gt)) data (R ++ [F0]) = R' ++ [F0] /\ length R' = k /\
             Fmul (peval (D ++ data) rho) (Fpow rho k) = peval R' rho.
Proof.
  intros Hgt Hk Hroot. induction data as [|a d IH]; intros D R HR Hinv; cbn [fold_left].
  - exists R. rewrite app_nil_r. auto.
  - destruct (ecc_stepF_inv gt R D a rho k Hgt HR Hk Hroot Hinv) as (R1 & E1 & L1 & I1).
    rewrite E1. destruct (IH (D ++ [a]) R1 L1 I1) as (R2 & E2 & L2 & I2).
    exists R2. rewrite <- app_assoc in I2. auto.
Qed.

Lemma map_repeat' {A B} (f : A -> B) x n : map f (repeat x n) = repeat (f x) n.
Proof. induction n; cbn; [reflexivity|now rewrite IHn]. Qed.
Lemma In_firstn {A} n (l : list A) x : In x (firstn n l) -> In x l.
Proof. revert l. induction n; intros l; cbn; [tauto|]. destruct l; cbn; [tauto|]. intros [H|H]; [now left|right; now apply IHn]. Qed.
Lemma toF_0 : toF 0 = F0. Proof. reflexivity. Qed.
Lemma toF_1 : toF 1 = F1. Proof. reflexivity. Qed.

Lemma firstn_length_app {A} (l1 l2 : list A) n : length l1 = n -> firstn n (l1 ++ l2) = l1.
Proof. intros <-. rewrite firstn_app, Nat.sub_diag, firstn_all. cbn. apply app_nil_r. Qed.

(* one block: data followed by its k error codewords vanishes at all roots of the generator *)
Lemma ecc_block_codeword gt k data :
  Forall byte gt -> length gt = k -> (1 <= k)%nat -> Forall byte data ->
  (forall r, In r (roots k) -> peval (map toF (1%N :: gt)) r = F0) ->
  let e := firstn k (ecc_block data (1%N :: gt) (repeat 0%N (k + 1))) in
  length e = k /\ Forall byte e /\ block_ok k (map toF (data ++ e)).
Proof.
  intros Hgt Hlen Hk Hd Hroots e.
  assert (Forall byte (1%N :: gt)) as Hg by (constructor; [unfold byte; lia|assumption]).
  assert (Forall byte (repeat 0%N (k + 1))) as Hz.
  { apply Forall_forall. intros x Hx. apply repeat_spec in Hx. subst. unfold byte. lia. }
  destruct (ecc_block_refine _ Hg data _ Hd Hz) as [B1 B2].
  assert (map toF (repeat 0%N (k + 1)) = repeat F0 k ++ [F0]) as Ez.
  { rewrite map_repeat', toF_0, repeat_app. reflexivity. }
  cbn [map] in B2. rewrite toF_1, Ez in B2.
  assert (forall rho, In rho (roots k) -> exists R', map toF e = R' /\ length R' = k /\
            Fmul (peval (map toF data) rho) (Fpow rho k) = peval R' rho) as Key.
  { intros rho Hr. specialize (Hroots rho Hr). cbn [map] in Hroots. rewrite toF_1 in Hroots.
    destruct (ecc_blockF_inv (map toF gt) rho k ltac:(rewrite map_length; exact Hlen) Hk Hroots
                (map toF data) [] (repeat F0 k) (repeat_length _ _)) as (R' & E' & L' & I').
    { rewrite peval_nil, peval_zeros. ring. }
    exists R'. split; [|split; [exact L'|exact I']].
    unfold e. rewrite <- firstn_map, B2, E'. apply firstn_length_app, L'. }
  assert (length e = k) as He.
  { unfold e. rewrite firstn_length_le; [reflexivity|].
    rewrite <- (map_length toF), B2.
    destruct k as [|k']; [lia|].
    (* length is preserved by the fold: take any root to learn the shape *)
    assert (In (Fpow Falpha 1) (roots (S k'))) as Hin.
    { unfold roots. apply in_map_iff. exists 1%nat. split; [reflexivity|]. apply in_seq. lia. }
    specialize (Hroots _ Hin). cbn [map] in Hroots. rewrite toF_1 in Hroots.
    destruct (ecc_blockF_inv (map toF gt) _ (S k') ltac:(rewrite map_length; exact Hlen) Hk Hroots
                (map toF data) [] (repeat F0 (S k')) (repeat_length _ _)) as (R' & E' & L' & _).
    { rewrite peval_nil, peval_zeros. ring. }
    rewrite E', app_length, L'. cbn. lia. }
  split; [exact He|]. split.
  - unfold e. apply Forall_forall. intros x Hx. rewrite Forall_forall in B1. apply B1.
    eapply In_firstn; exact Hx.
  - intros rho Hr. destruct (Key rho Hr) as (R' & E' & L' & I').
    rewrite map_app, E', peval_app, L', I'. ring.
Qed.

(* ---------- interleaving ---------- *)


Lemma block_from_app {A} B b (l1 l2 : list A) : forall i,
  block_from B b i (l1 ++ l2) = block_from B b i l1 ++ block_from B b (i + length l1) l2.
Proof.
  induction l1 as [|x r IH]; intros i; cbn [app block_from length].
  - rewrite Nat.add_0_r. reflexivity.
  - rewrite IH. replace (S i + length r)%nat with (i + S (length r))%nat by lia.
    destruct (Nat.eqb (Nat.modulo i B) b); reflexivity.
Qed.

(* the model's step_by iterator is the standard's "every B-th codeword" *)
Lemma every_block_from {A} B b (l : list A) : (b < B)%nat -> forall c i, (c < B)%nat ->
  Nat.modulo (i + c) B = b -> every B c l = block_from B b i l.
Proof.
  intros Hb. induction l as [|x r IH]; intros c i Hc Hm; cbn [every block_from]; [reflexivity|].
  destruct c as [|c'].
  - rewrite Nat.add_0_r in Hm. rewrite Hm, Nat.eqb_refl. f_equal. apply IH; [lia|].
    replace (S i + (B - 1))%nat with (i + 1 * B)%nat by lia. rewrite Nat.mod_add by lia. exact Hm.
  - assert (Nat.eqb (Nat.modulo i B) b = false) as E.
    { apply Nat.eqb_neq. intros E. rewrite <- E in Hm, Hb. clear E.
      assert (Nat.modulo (i + S c') B = Nat.modulo (Nat.modulo i B + S c') B) as X.
      { rewrite (Nat.add_mod i), (Nat.mod_small (S c')) by lia. reflexivity. }
      rewrite X in Hm. clear X. pose proof (Nat.mod_upper_bound i B ltac:(lia)) as U.
      remember (Nat.modulo i B) as q.
      destruct (Nat.lt_ge_cases (q + S c') B) as [L|G].
      - rewrite Nat.mod_small in Hm by exact L. lia.
      - replace (q + S c')%nat with ((q + S c' - B) + 1 * B)%nat in Hm by lia.
        rewrite Nat.mod_add, Nat.mod_small in Hm by lia. lia. }
    rewrite E. apply IH; [lia|]. replace (S i + c')%nat with (i + S c')%nat by lia. exact Hm.
Qed.

Lemma every_block_of {A} B b (l : list A) : (b < B)%nat -> every B b l = block_of B b l.
Proof. intros Hb. unfold block_of. apply every_block_from; [exact Hb|exact Hb|]. now apply Nat.mod_small. Qed.

Lemma block_from_chunk {A} B b m (l : list A) : (b < B)%nat -> forall c, (c + length l <= B)%nat ->
  block_from B b (m * B + c) l =
    if (c <=? b)%nat && (b <? c + length l)%nat then firstn 1 (skipn (b - c) l) else [].
Proof.
  intros Hb. induction l as [|x r IH]; intros c Hc; cbn [block_from length].
  - rewrite skipn_nil. destruct (_ && _); reflexivity.
  - cbn [length] in Hc.
    assert (Nat.modulo (m * B + c) B = c) as E.
    { rewrite Nat.add_comm, Nat.mod_add, Nat.mod_small by lia. reflexivity. }
    rewrite E. replace (S (m * B + c)) with (m * B + S c)%nat by lia. rewrite IH by lia.
    destruct (Nat.eqb_spec c b) as [->|Ne].
    + rewrite Nat.leb_refl. replace (S b <=? b)%nat with false by (symmetry; apply Nat.leb_gt; lia).
      replace (b <? b + S (length r))%nat with true by (symmetry; apply Nat.ltb_lt; lia).
      cbn [andb]. rewrite Nat.sub_diag. reflexivity.
    + destruct (Nat.leb_spec (S c) b) as [L|G].
      * replace (c <=? b)%nat with true by (symmetry; apply Nat.leb_le; lia).
        replace (S c + length r)%nat with (c + S (length r))%nat by lia.
        destruct (b <? c + S (length r))%nat; cbn [andb]; [|reflexivity].
        replace (b - c)%nat with (S (b - S c)) by lia. reflexivity.
      * replace (c <=? b)%nat with false by (symmetry; apply Nat.leb_gt; lia). reflexivity.
Qed.

Definition heads {A} (ls : list (list A)) : list A :=
  flat_map (fun l => match l with [] => [] | x :: _ => [x] end) ls.

Lemma heads_length {A} (ls : list (list A)) n : Forall (fun l => length l = S n) ls -> length (heads ls) = length ls.
Proof. induction 1 as [|l r Hl _ IH]; cbn; [reflexivity|]. destruct l; [discriminate|]. cbn. f_equal. exact IH. Qed.

Lemma heads_nth {A} (ls : list (list A)) n : Forall (fun l => length l = S n) ls -> forall b,
  firstn 1 (skipn b (heads ls)) = firstn 1 (nth b ls []).
Proof.
  induction 1 as [|l r Hl _ IH]; intros b.
  - cbn. rewrite skipn_nil. destruct b; reflexivity.
  - destruct l as [|x t]; [discriminate|]. destruct b; cbn; [reflexivity|apply IH].
Qed.

Lemma interleave_block {A} B b (Hb : (b < B)%nat) k : forall (ls : list (list A)) m,
  length ls = B -> Forall (fun l => length l = k) ls ->
  block_from B b (m * B) (interleave k ls) = nth b ls [].
Proof.
  induction k as [|f IH]; intros ls m HB Hl; cbn [interleave].
  - cbn. rewrite Forall_forall in Hl. symmetry. apply length_zero_iff_nil. apply Hl. apply nth_In. lia.
  - fold (heads ls). rewrite block_from_app. rewrite (heads_length ls f Hl), HB.
    replace (m * B)%nat with (m * B + 0)%nat at 1 by lia.
    rewrite block_from_chunk by (rewrite ?(heads_length ls f Hl); lia).
    rewrite (heads_length ls f Hl), HB. cbn [Nat.leb andb Nat.add].
    replace (b <? B)%nat with true by (symmetry; apply Nat.ltb_lt; lia).
    rewrite Nat.sub_0_r, (heads_nth ls f Hl).
    replace (m * B + B)%nat with (S m * B)%nat by lia.
    rewrite IH.
    + change (@nil A) with (tl (@nil A)) at 2. rewrite map_nth.
      destruct (nth b ls []); reflexivity.
    + rewrite map_length. exact HB.
    + apply Forall_forall. intros l Hin. apply in_map_iff in Hin. destruct Hin as [l' [<- Hin]].
      rewrite Forall_forall in Hl. specialize (Hl _ Hin). destruct l'; cbn in *; lia.
Qed.

Lemma interleave_length {A} k : forall (ls : list (list A)),
  Forall (fun l => length l = k) ls -> length (interleave k ls) = (k * length ls)%nat.
Proof.
  induction k as [|f IH]; intros ls Hl; cbn [interleave]; [reflexivity|].
  fold (heads ls). rewrite app_length, (heads_length ls f Hl), IH, map_length; [lia|].
  apply Forall_forall. intros l Hin. apply in_map_iff in Hin. destruct Hin as [l' [<- Hin]].
  rewrite Forall_forall in Hl. specialize (Hl _ Hin). destruct l'; cbn in *; lia.
Qed.

Lemma interleave_In {A} k : forall (ls : list (list A)) x, In x (interleave k ls) -> exists l, In l ls /\ In x l.
Proof.
  induction k as [|f IH]; intros ls x; cbn [interleave]; [intros []|].
  intros H. apply in_app_or in H. destruct H as [H|H].
  - apply in_flat_map in H. destruct H as [l [Hl Hx]]. exists l. split; [exact Hl|]. destruct l; cbn in *; tauto.
  - apply IH in H. destruct H as [l [Hl Hx]]. apply in_map_iff in Hl. destruct Hl as [l' [<- Hl']].
    exists l'. split; [exact Hl'|]. destruct l'; cbn in *; tauto.
Qed.

(* ---------- C06 ---------- *)
Lemma nth_map_seq {A} (f : nat -> A) n b d : (b < n)%nat -> nth b (map f (seq 0 n)) d = f b.
Proof. intros Hb. rewrite (nth_indep _ d (f 0%nat)) by (rewrite map_length, seq_length; exact Hb).
  rewrite map_nth, seq_nth by exact Hb. reflexivity. Qed.

Lemma every_byte B : forall c l, Forall byte l -> Forall byte (every B c l).
Proof. intros c l; revert c. induction l as [|x r IH]; intros c H; cbn [every]; [constructor|].
  inversion H; subst. destruct c; [constructor; auto|auto]. Qed.

Theorem encode_error_codeword s d :
  length d = N.to_nat (num_data_codewords s) -> Forall byte d ->
  exists e, encode_error s d = Ok e /\
    length e = (N.to_nat (num_ecc_per_block s) * N.to_nat (num_ecc_blocks s))%nat /\
    Forall byte e /\
    is_codeword (N.to_nat (num_ecc_blocks s)) (N.to_nat (num_ecc_per_block s)) d e.
Proof.
  intros Hlen Hd. unfold encode_error.
  replace (len d =? num_data_codewords s)%N with true by (symmetry; apply N.eqb_eq; unfold len; lia).
  cbn [negb].
  destruct (generator_spec s) as (gt & Hg & Hgl & Hk & Hgb & Hroots & _). rewrite Hg.
  set (B := N.to_nat (num_ecc_blocks s)). set (k := N.to_nat (num_ecc_per_block s)) in *.
  set (eccs := map _ (seq 0 B)).
  eexists. split; [reflexivity|].
  assert (forall b, (b < B)%nat ->
            let e := nth b eccs [] in
            length e = k /\ Forall byte e /\ block_ok k (map toF (every B b d ++ e))) as Hblk.
  { intros b Hb e. unfold e, eccs.
    rewrite nth_map_seq by exact Hb.
    apply ecc_block_codeword; auto using every_byte. }
  assert (length eccs = B) as HeB by (unfold eccs; rewrite map_length, seq_length; reflexivity).
  assert (Forall (fun l => length l = k) eccs) as Hek.
  { apply Forall_forall. intros l Hin. destruct (In_nth _ _ [] Hin) as (b & Hb & <-). apply Hblk. lia. }
  split; [rewrite interleave_length, HeB by exact Hek; reflexivity|]. split.
  - apply Forall_forall. intros x Hx. apply interleave_In in Hx. destruct Hx as (l & Hl & Hx).
    destruct (In_nth _ _ [] Hl) as (b & Hb & <-). destruct (Hblk b ltac:(lia)) as (_ & Fb & _).
    rewrite Forall_forall in Fb. now apply Fb.
  - intros b Hb. unfold block_of at 2. replace 0%nat with (0 * B)%nat by lia.
    rewrite interleave_block by assumption. rewrite <- every_block_of by exact Hb. apply Hblk, Hb.
Qed.
