(* Proofs/Latin1.v -- property C14: the Latin-1 helpers of src/data.rs (tables regenerated from the source) are the
   identity on exactly the printable ISO/IEC 8859-1 repertoire, for EVERY scalar value / byte value (not only < 256),
   hence mutually inverse; and the choice made by encode_str. *)
From Coq Require Import Arith NArith List Bool Lia.
From DM Require Import Generated.Symbols Generated.ModeTables Generated.Charsets Spec.GF256 Spec.Eci Model.Outcome Model.SymbolList
  Model.Planner Model.Eci Model.Enc Model.Api Proofs.GFTie Proofs.EciProofs.
Import ListNotations.
Local Open Scope N_scope.

Definition printable (c : N) : bool := ((32 <=? c) && (c <=? 126)) || ((160 <=? c) && (c <=? 255)).

Lemma iso_printable c : iso_8859_1 c = if printable c then Some c else None.
Proof. reflexivity. Qed.

Lemma u2l_sweep : forallb (fun b => opt_eqb (utf8_to_latin1_ch b) (iso_8859_1 b)) bytes = true.
Proof. vm_compute. reflexivity. Qed.

Ltac kill_eqb c :=
  repeat match goal with
  | |- context [c =? ?k] => replace (c =? k) with false by (symmetry; apply N.eqb_neq; lia)
  end.

Lemma u2l_large c : 256 <= c -> utf8_to_latin1_ch c = None.
Proof.
  intros H. unfold utf8_to_latin1_ch. replace (c <=? 126) with false by (symmetry; apply N.leb_gt; lia).
  rewrite andb_false_r. kill_eqb c. reflexivity.
Qed.
Lemma l2u_large c : 256 <= c -> latin1_to_utf8_ch c = None.
Proof.
  intros H. unfold latin1_to_utf8_ch. replace (c <=? 126) with false by (symmetry; apply N.leb_gt; lia).
  rewrite andb_false_r. kill_eqb c. reflexivity.
Qed.

Lemma iso_large c : 256 <= c -> iso_8859_1 c = None.
Proof. intros H. unfold iso_8859_1. replace (c <=? 126) with false by (symmetry; apply N.leb_gt; lia).
  replace (c <=? 255) with false by (symmetry; apply N.leb_gt; lia). rewrite !andb_false_r. reflexivity. Qed.

Theorem utf8_to_latin1_ch_spec c : utf8_to_latin1_ch c = iso_8859_1 c.
Proof.
  destruct (N.lt_ge_cases c 256) as [L|G].
  - apply opt_eqb_eq. exact (sweep1 _ u2l_sweep c L).
  - rewrite u2l_large, iso_large by assumption. reflexivity.
Qed.
Theorem latin1_to_utf8_ch_spec c : latin1_to_utf8_ch c = iso_8859_1 c.
Proof.
  destruct (N.lt_ge_cases c 256) as [L|G].
  - apply (charset_bytes c L).
  - rewrite l2u_large, iso_large by assumption. reflexivity.
Qed.

Theorem utf8_to_latin1_spec s : utf8_to_latin1 s = if forallb printable s then Some s else None.
Proof.
  induction s as [|c t IH]; cbn [utf8_to_latin1 forallb]; [reflexivity|].
  rewrite utf8_to_latin1_ch_spec, iso_printable, IH. destruct (printable c); [|reflexivity].
  cbn [andb]. destruct (forallb printable t); reflexivity.
Qed.
Theorem latin1_to_utf8_spec' l : latin1_to_utf8 l = if forallb printable l then Some l else None.
Proof.
  induction l as [|c t IH]; cbn [latin1_to_utf8 forallb]; [reflexivity|].
  rewrite latin1_to_utf8_ch_spec, iso_printable, IH. destruct (printable c); [|reflexivity].
  cbn [andb]. destruct (forallb printable t); reflexivity.
Qed.

Theorem latin1_inverse_1 s l : utf8_to_latin1 s = Some l -> latin1_to_utf8 l = Some s.
Proof.
  rewrite utf8_to_latin1_spec. destruct (forallb printable s) eqn:P; [|discriminate]. intros [= <-].
  rewrite latin1_to_utf8_spec', P. reflexivity.
Qed.
Theorem latin1_inverse_2 s l : latin1_to_utf8 l = Some s -> utf8_to_latin1 s = Some l.
Proof.
  rewrite latin1_to_utf8_spec'. destruct (forallb printable l) eqn:P; [|discriminate]. intros [= <-].
  rewrite utf8_to_latin1_spec, P. reflexivity.
Qed.

(* encode_str: Latin-1 bytes and no ECI exactly for printable-Latin-1 strings, UTF-8 bytes + ECI 26 otherwise *)
Theorem encode_str_choice sorter text symbols :
  encode_str sorter text symbols =
    if forallb printable text then encode_eci sorter text symbols 63 true false None
    else encode_eci sorter (utf8_encode text) symbols 63 true false (Some 26).
Proof. unfold encode_str. rewrite utf8_to_latin1_spec. destruct (forallb printable text); reflexivity. Qed.
