(* Proofs/RSEncLen.v -- the number of error codewords does not depend on the data being bytes: for every size
   and every vector of the right length encode_error returns exactly k*B codewords (used by C02). *)
From Coq Require Import Arith NArith List Bool Lia.
From DM Require Import Generated.Symbols Generated.Generators Model.Outcome Model.GF Model.RSEnc Proofs.RSEncProofs.
Import ListNotations.

Lemma zipw_len {A B C} (f : A -> B -> C) l1 : forall l2, length (zipw f l1 l2) = Nat.min (length l1) (length l2).
Proof. induction l1 as [|a r IH]; intros [|b r2]; cbn [zipw length]; try reflexivity. now rewrite IH. Qed.

Lemma ecc_step_length g ecc a : length g = length ecc -> (2 <= length ecc)%nat -> length (ecc_step g ecc a) = length ecc.
Proof.
  intros L H. unfold ecc_step. destruct ecc as [|e0 er]; [cbn in H; lia|]. destruct g as [|g0 gr]; [discriminate|].
  cbn [length] in *. rewrite app_length, zipw_len. unfold lastl. rewrite skipn_length. lia.
Qed.

Lemma ecc_block_length data : forall g ecc, length g = length ecc -> (2 <= length ecc)%nat -> length (ecc_block data g ecc) = length ecc.
Proof.
  unfold ecc_block. induction data as [|a r IH]; intros g ecc L H; cbn [fold_left]; [reflexivity|].
  rewrite IH; rewrite ?ecc_step_length; auto.
Qed.

Theorem encode_error_length s d e : encode_error s d = Ok e ->
  length e = (N.to_nat (num_ecc_per_block s) * N.to_nat (num_ecc_blocks s))%nat.
Proof.
  unfold encode_error. destruct (negb _); [discriminate|].
  destruct (generator_spec s) as (gt & Hg & Hgl & Hk & _). rewrite Hg. intros [= <-].
  rewrite interleave_length.
  - rewrite map_length, seq_length. reflexivity.
  - apply Forall_forall. intros l Hin. apply in_map_iff in Hin. destruct Hin as (b & <- & _).
    rewrite firstn_length, ecc_block_length; rewrite ?repeat_length; cbn [length]; lia.
Qed.

(* ... and it is total on vectors of the right length *)
Theorem encode_error_total s d : length d = N.to_nat (num_data_codewords s) -> exists e, encode_error s d = Ok e.
Proof.
  intros L. unfold encode_error.
  replace (len d =? num_data_codewords s)%N with true by (symmetry; apply N.eqb_eq; unfold len; lia). cbn [negb].
  destruct (generator_spec s) as (gt & Hg & _). rewrite Hg. eexists. reflexivity.
Qed.
