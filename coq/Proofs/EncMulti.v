(* Proofs/EncMulti.v -- the data layer for plans that mix ASCII, Base256, X12, C40 and Text (everything but EDIFACT), in particular
   for the default configuration whenever the chosen plan avoids EDIFACT: if no non-ASCII run starts within the last two
   characters of the message, then, if the encoder returns at all, its output is the rendering of a legal script of
   Spec/Stream16022.v followed by standard padding; hence (C04) the decoder returns the input.
   The side condition is what keeps the end-of-data shortcuts of the X12 and C40 / Text encoders sound: they hand the last one or
   two characters to ASCII "until the end" whatever the plan says, which is only legal if no latch for another mode has just
   been scheduled -- under the condition the mode scheduled there can only be ASCII.  (The optimiser's costs make it avoid such
   plans except on ties; that is the planner/encoder cost coupling which is not proved.)  The run lemmas are those of
   Proofs/EncAB.v, EncAX.v, EncAC.v with the switch target left open. *)
From Coq Require Import Arith NArith List Bool Lia.
From DM Require Import Generated.Symbols Generated.ModeTables Model.Outcome Model.SymbolList Model.Planner Model.PlannerRun Model.Eci Model.Enc
  Model.Dec Model.Api Spec.Stream16022 Proofs.SymbolListProofs Proofs.EncLocal Proofs.EncTop Proofs.EncAscii
  Proofs.DecStream Proofs.DecStreamC40 Proofs.DecStreamEdi Proofs.DecScript Proofs.EncB256 Proofs.PlanShape Proofs.EncAB Proofs.EncAX Proofs.EncAllTotal Proofs.EncAC.
Import ListNotations.
Local Open Scope N_scope.

Definition m5 (m : EncodationType) : Prop := m = Ascii \/ m = Base256 \/ m = X12 \/ m = C40 \/ m = Text.
(* a plan entry (p, m): "switch to m when p characters are left"; entries at 0 are never acted upon *)
Definition pe_ok (e : N * EncodationType) : Prop := m5 (snd e) /\ (snd e <> Ascii -> 2 < fst e \/ fst e = 0).
Definition P5 (p : list (N * EncodationType)) : Prop := Forall pe_ok p.
Definition latch_of (m : EncodationType) (keep : option N) : option N := match et_latch_from_ascii m with Some l => Some l | None => keep end.

Lemma P5_until_end : P5 [(0, Ascii)].
Proof. constructor; [split; [left; reflexivity|intros X; contradiction]|constructor]. Qed.

(* maybe_switch_mode: what can happen *)
Lemma msm_cases5 e sw e' : maybe_switch_mode e = Ok (sw, e') -> P5 (e_planned e) ->
  e_data e' = e_data e /\ e_cw e' = e_cw e /\ same_env e e' /\ P5 (e_planned e') /\
  ((sw = false /\ e_encodation e' = e_encodation e /\ e_new_mode e' = e_new_mode e) \/
   (sw = true /\ e_data e <> [] /\ m5 (e_encodation e') /\ e_encodation e' <> e_encodation e /\
    e_new_mode e' = latch_of (e_encodation e') (e_new_mode e) /\ (e_encodation e' <> Ascii -> 2 < chars_left e))).
Proof.
  unfold maybe_switch_mode. destruct (e_planned e) as [|[p0 m0] rest] eqn:EP; [discriminate|]. intros H AB.
  destruct (negb (p0 <=? chars_left e)); [discriminate|].
  apply Forall_cons_iff in AB. destruct AB as [[AB0 Q0] ABr]. cbn [snd fst] in AB0, Q0.
  destruct ((0 <? chars_left e) && (chars_left e =? p0)) eqn:C.
  - apply andb_true_iff in C. destruct C as [C1 C2]. apply N.ltb_lt in C1. apply N.eqb_eq in C2.
    destruct (negb (et_eqb m0 (e_encodation e))) eqn:SW.
    + assert (e_data e <> []) as ND by (unfold chars_left in C1; destruct (e_data e); [cbn in C1; lia|discriminate]).
      assert (m0 <> e_encodation e) as NE.
      { intros ->. apply negb_true_iff in SW. unfold et_eqb in SW. rewrite N.eqb_refl in SW. discriminate. }
      assert (m0 <> Ascii -> 2 < chars_left e) as QQ by (intros X; destruct (Q0 X) as [G|Z]; lia).
      unfold latch_of. destruct (et_latch_from_ascii m0) as [l|] eqn:EL; inversion H; subst; cbn [e_data e_cw e_planned e_encodation e_new_mode];
        (split; [reflexivity|]); (split; [reflexivity|]); (split; [repeat split|]); (split; [exact ABr|]); right;
        rewrite EL; repeat split; assumption.
    + inversion H; subst; cbn [e_data e_cw e_planned e_encodation e_new_mode].
      split; [reflexivity|]. split; [reflexivity|]. split; [repeat split|]. split; [exact ABr|]. left. repeat split.
  - rewrite (proj2 (N.eqb_eq _ _) eq_refl : et_eqb (e_encodation e) (e_encodation e) = true) in H. cbn [negb] in H.
    inversion H; subst; cbn [e_data e_cw e_planned e_encodation e_new_mode].
    split; [reflexivity|]. split; [reflexivity|]. split; [repeat split|]. split; [constructor; [split; assumption|assumption]|]. left. repeat split.
Qed.

(* an ASCII run: up to the next planned switch, or to the end of the data *)
Lemma ascii_run5 : forall fuel e e', e_encodation e = Ascii -> bytes_ok (e_data e) = true -> P5 (e_planned e) ->
  ascii_encode fuel e = Ok e' ->
  exists items, forallb aitem_ok items = true /\ e_cw e' = e_cw e ++ flat_map aitem_cw items /\
    e_data e = flat_map aitem_data items ++ e_data e' /\ same_env e e' /\ P5 (e_planned e') /\
    ((e_encodation e' = Ascii /\ e_data e' = [] /\ e_new_mode e' = e_new_mode e) \/
     (e_encodation e' <> Ascii /\ m5 (e_encodation e') /\ e_new_mode e' = latch_of (e_encodation e') (e_new_mode e) /\ e_data e' <> [] /\ 2 < chars_left e')).
Proof.
  induction fuel as [|f IH]; intros e e' EA OK AB H; cbn [ascii_encode] in H; [discriminate|].
  destruct (maybe_switch_mode e) as [[sw e1]| |] eqn:MS; cbn [bind] in H; try discriminate.
  destruct (msm_cases5 e sw e1 MS AB) as (D1 & C1 & EV1 & AB1 & CASE).
  destruct CASE as [(-> & EN1 & NM1)|(-> & ND & ABM & NE & NM1 & QQ)].
  - (* no switch: one item *)
    assert (forall e2 it, aitem_ok it = true -> e_cw e2 = e_cw e1 ++ aitem_cw it -> e_data e1 = aitem_data it ++ e_data e2 ->
              same_env e1 e2 -> e_planned e2 = e_planned e1 -> e_encodation e2 = Ascii -> e_new_mode e2 = e_new_mode e1 ->
              ascii_encode f e2 = Ok e' -> exists items, forallb aitem_ok items = true /\ e_cw e' = e_cw e ++ flat_map aitem_cw items /\
                e_data e = flat_map aitem_data items ++ e_data e' /\ same_env e e' /\ P5 (e_planned e') /\
                ((e_encodation e' = Ascii /\ e_data e' = [] /\ e_new_mode e' = e_new_mode e) \/
                 (e_encodation e' <> Ascii /\ m5 (e_encodation e') /\ e_new_mode e' = latch_of (e_encodation e') (e_new_mode e) /\ e_data e' <> [] /\ 2 < chars_left e'))) as STEP.
    { intros e2 it OKI CW2 DA2 EV2 PL2 EA2 NM2 H2.
      assert (bytes_ok (e_data e2) = true) as OK2.
      { rewrite <- D1, DA2 in OK. apply bytes_ok_app in OK. apply OK. }
      destruct (IH e2 e' EA2 OK2 ltac:(rewrite PL2; exact AB1) H2) as (items & I1 & I2 & I3 & I4 & I5 & I6).
      exists (it :: items). cbn [forallb flat_map]. rewrite OKI, I1. split; [reflexivity|].
      split; [rewrite I2, CW2, C1, <- app_assoc; reflexivity|].
      split; [rewrite <- D1, DA2, I3, <- app_assoc; reflexivity|].
      split; [exact (same_env_trans _ _ _ EV1 (same_env_trans _ _ _ EV2 I4))|]. split; [exact I5|].
      rewrite NM2, NM1 in I6. exact I6. }
    rewrite <- D1 in OK.
    destruct (e_data e1) as [|a [|b t]] eqn:ED.
    + inversion H; subst e'. exists []. cbn [forallb flat_map app]. rewrite app_nil_r.
      split; [reflexivity|]. split; [exact C1|]. split; [rewrite ED; symmetry; exact D1|]. split; [exact EV1|]. split; [exact AB1|].
      left. rewrite EN1, NM1. repeat split; [exact EA|exact ED].
    + apply bytes_ok_cons in OK. destruct OK as [Ba _].
      destruct (N.leb_spec a 127) as [LE|GT].
      * refine (STEP _ (AChar a) _ _ _ _ _ _ _ H); [cbn; apply N.ltb_lt; lia|reflexivity|reflexivity|repeat split|reflexivity|cbn; rewrite EN1; exact EA|reflexivity].
      * refine (STEP _ (AUpper a) _ _ _ _ _ _ _ H); [cbn; apply andb_true_iff; split; [apply N.leb_le; lia|apply N.ltb_lt; exact Ba]| |reflexivity|repeat split|reflexivity|cbn; rewrite EN1; exact EA|reflexivity].
        cbn [push set_cw e_cw set_data aitem_cw]. rewrite <- app_assoc. cbn [app]. replace (a - 128 + 1) with (a - 127) by lia. reflexivity.
    + apply bytes_ok_cons in OK. destruct OK as [Ba OKb].
      destruct (is_digit a && is_digit b) eqn:DG.
      * refine (STEP _ (APair a b) _ _ _ _ _ _ _ H); [cbn; unfold is_digit in DG; unfold is_dig; exact DG| |reflexivity|repeat split|reflexivity|cbn; rewrite EN1; exact EA|reflexivity].
        cbn [push set_cw e_cw set_data aitem_cw]. f_equal. f_equal. lia.
      * destruct (N.leb_spec a 127) as [LE|GT].
        -- refine (STEP _ (AChar a) _ _ _ _ _ _ _ H); [cbn; apply N.ltb_lt; lia|reflexivity|reflexivity|repeat split|reflexivity|cbn; rewrite EN1; exact EA|reflexivity].
        -- refine (STEP _ (AUpper a) _ _ _ _ _ _ _ H); [cbn; apply andb_true_iff; split; [apply N.leb_le; lia|apply N.ltb_lt; exact Ba]| |reflexivity|repeat split|reflexivity|cbn; rewrite EN1; exact EA|reflexivity].
           cbn [push set_cw e_cw set_data aitem_cw]. rewrite <- app_assoc. cbn [app]. replace (a - 128 + 1) with (a - 127) by lia. reflexivity.
  - (* switch *)
    inversion H; subst e'. exists []. cbn [forallb flat_map]. rewrite app_nil_r.
    split; [reflexivity|]. split; [exact C1|]. split; [symmetry; exact D1|]. split; [exact EV1|]. split; [exact AB1|].
    right. rewrite EA in NE. split; [exact NE|]. split; [exact ABM|]. split; [exact NM1|]. split; [rewrite D1; exact ND|].
    unfold chars_left in *. rewrite D1. exact (QQ NE).
Qed.


(* the copy loop of a Base256 run: up to the next planned switch, or to the end of the data *)
Lemma b256_loop_run5 : forall fuel e start e', e_encodation e = Base256 -> P5 (e_planned e) ->
  b256_loop fuel e start = Ok e' ->
  exists run ew e2, e_data e = run ++ e_data ew /\ e_cw ew = e_cw e ++ run /\ same_env e ew /\ P5 (e_planned ew) /\
    (run <> [] \/ e_data e = []) /\
    ((e_data ew = [] /\ e_encodation ew = Base256 /\ e_new_mode ew = e_new_mode e) \/
     (e_data ew <> [] /\ e_encodation ew <> Base256 /\ m5 (e_encodation ew) /\ e_new_mode ew = latch_of (e_encodation ew) (e_new_mode e) /\
      (e_encodation ew <> Ascii -> 2 < chars_left ew))) /\
    b256_write_length ew start = Ok e2 /\ e' = (if negb (has_more e2) then set_ascii_until_end e2 else e2).
Proof.
  induction fuel as [|f IH]; intros e start e' EB AB H; cbn [b256_loop] in H; [discriminate|].
  destruct (e_data e) as [|ch t] eqn:ED.
  - unfold eat in H. rewrite ED in H. unfold has_more at 1 in H. rewrite ED in H. cbn [negb] in H.
    destruct (b256_write_length e start) as [e2| |] eqn:WL; cbn [bind] in H; try discriminate. inversion H; subst e'.
    exists [], e, e2. rewrite app_nil_r. cbn [app]. split; [symmetry; exact ED|]. split; [reflexivity|]. split; [repeat split|].
    split; [exact AB|]. split; [now right|]. split; [left; split; [exact ED|split; [exact EB|reflexivity]]|]. split; [exact WL|reflexivity].
  - unfold eat in H. rewrite ED in H. set (e1 := push (set_data e t) ch) in *.
    assert (e_cw e1 = e_cw e ++ [ch]) as C1 by reflexivity.
    destruct t as [|c2 t2].
    + unfold has_more at 1 in H. cbn [e_data e1 push set_cw set_data negb] in H.
      destruct (b256_write_length e1 start) as [e2| |] eqn:WL; cbn [bind] in H; try discriminate. inversion H; subst e'.
      exists [ch], e1, e2. split; [reflexivity|]. split; [exact C1|]. split; [repeat split|]. split; [exact AB|]. split; [left; discriminate|].
      split; [left; split; [reflexivity|split; [exact EB|reflexivity]]|]. split; [exact WL|reflexivity].
    + unfold has_more at 1 in H. cbn [e_data e1 push set_cw set_data negb] in H.
      destruct (maybe_switch_mode e1) as [[sw e2]| |] eqn:MS; cbn [bind] in H; try discriminate.
      destruct (msm_cases5 e1 sw e2 MS AB) as (D2 & C2 & EV2 & AB2 & CASE).
      destruct CASE as [(-> & EN2 & NM2)|(-> & ND & ABM & NE & NM2 & QQ)].
      * destruct (IH e2 start e' ltac:(rewrite EN2; exact EB) AB2 H) as (run & ew & e3 & R1 & R2 & R3 & R4 & R6 & R7 & R8 & R9).
        exists (ch :: run), ew, e3. rewrite D2 in R1. cbn [e_data e1 push set_cw set_data] in R1.
        split; [cbn [app]; rewrite <- R1; reflexivity|]. split; [rewrite R2, C2, C1, <- app_assoc; reflexivity|].
        split; [exact (same_env_trans _ _ _ (same_env_trans e e1 e2 ltac:(repeat split) EV2) R3)|]. split; [exact R4|].
        split; [left; discriminate|]. split; [|split; [exact R8|exact R9]].
        rewrite NM2 in R7. exact R7.
      * destruct (b256_write_length e2 start) as [e3| |] eqn:WL; cbn [bind] in H; try discriminate. inversion H; subst e'.
        exists [ch], e2, e3. split; [rewrite D2; reflexivity|]. split; [rewrite C2, C1; reflexivity|].
        split; [exact (same_env_trans e e1 e2 ltac:(repeat split) EV2)|]. split; [exact AB2|]. split; [left; discriminate|].
        split; [|split; [exact WL|reflexivity]]. right. split; [rewrite D2; discriminate|]. split; [intros X; apply NE; rewrite X; symmetry; exact EB|].
        split; [exact ABM|]. split; [exact NM2|]. intros X. specialize (QQ X). unfold chars_left in *. rewrite D2. exact QQ.
Qed.

(* an X12 run: whole triples up to a planned switch, or until less than three characters are left *)
Lemma x12_loop_run5 : forall fuel e e' sw, e_encodation e = X12 -> P5 (e_planned e) -> x12_loop fuel e = Ok (e', sw) ->
  exists chars, forallb x12_ok chars = true /\ (length chars mod 3 = 0)%nat /\
    e_cw e' = e_cw e ++ pack_vals (map x12_v chars) /\ e_data e = chars ++ e_data e' /\ same_env e e' /\ P5 (e_planned e') /\
    ((sw = false /\ e_encodation e' = X12 /\ e_new_mode e' = e_new_mode e /\ (length (e_data e') < 3)%nat) \/
     (sw = true /\ e_encodation e' <> X12 /\ m5 (e_encodation e') /\ e_new_mode e' = latch_of (e_encodation e') (e_new_mode e) /\ e_data e' <> [] /\
      (e_encodation e' <> Ascii -> 2 < chars_left e'))).
Proof.
  induction fuel as [|f IH]; intros e e' sw EX AB H; cbn [x12_loop] in H; [discriminate|].
  destruct (e_data e) as [|a [|b [|c t]]] eqn:ED.
  1-3: inversion H; subst e' sw; exists []; cbn [forallb length map pack_vals app]; rewrite app_nil_r, ED;
    (split; [reflexivity|]); (split; [reflexivity|]); (split; [reflexivity|]); (split; [reflexivity|]); (split; [apply same_env_refl|]);
    (split; [exact AB|]); left; (split; [reflexivity|]); (split; [exact EX|]); (split; [reflexivity|]); cbn [length]; lia.
  destruct (x12_enc a) as [c1|] eqn:VA; destruct (x12_enc b) as [c2|] eqn:VB; destruct (x12_enc c) as [c3|] eqn:VC; try discriminate.
  rewrite x12_enc_val in VA, VB, VC.
  unfold write_three_values in H. destruct (65536 <=? 1600 * c1 + 40 * c2 + c3 + 1); cbn [bind] in H; [discriminate|].
  set (v := 1600 * c1 + 40 * c2 + c3 + 1) in *. set (e1 := push (push (set_data e t) (v / 256)) (v mod 256)) in *.
  destruct (maybe_switch_mode e1) as [[sw1 e2]| |] eqn:MS; cbn [bind] in H; try discriminate.
  destruct (msm_cases5 e1 sw1 e2 MS AB) as (D2 & C2 & EV2 & AB2 & CASE).
  assert (forallb x12_ok [a; b; c] = true) as OK3 by (cbn [forallb]; unfold x12_ok; rewrite VA, VB, VC; reflexivity).
  assert (pack_vals (map x12_v [a; b; c]) = [v / 256; v mod 256]) as PK by (cbn [map pack_vals]; unfold x12_v; rewrite VA, VB, VC; unfold pack3; reflexivity).
  assert (e_cw e1 = e_cw e ++ [v / 256; v mod 256]) as CW1 by (cbn [e1 e_cw push set_cw set_data]; rewrite <- app_assoc; reflexivity).
  assert (same_env e e1) as EV1 by (repeat split).
  destruct CASE as [(-> & EN2 & NM2)|(-> & ND & AXM & NE & NM2 & QQ)].
  - destruct (IH e2 e' sw ltac:(rewrite EN2; exact EX) AB2 H) as (chars & I1 & I2 & I3 & I4 & I5 & I6 & I8).
    exists (a :: b :: c :: chars). split; [cbn [forallb] in OK3 |- *; rewrite I1; apply andb_true_iff in OK3; destruct OK3 as [A1 O2]; apply andb_true_iff in O2; destruct O2 as [A2 A3]; rewrite andb_true_r in A3; rewrite A1, A2, A3; reflexivity|].
    split; [cbn [length]; replace (S (S (S (length chars)))) with (length chars + 1 * 3)%nat by lia; rewrite Nat.mod_add by lia; exact I2|].
    split; [rewrite I3, C2, CW1; cbn [map pack_vals]; cbn [map pack_vals] in PK; rewrite <- app_assoc; f_equal; injection PK as P1; unfold pack3 in *; cbn [app]; unfold x12_v; rewrite VA, VB, VC; reflexivity|].
    split; [cbn [app]; do 3 f_equal; rewrite <- I4, D2; reflexivity|]. split; [exact (same_env_trans _ _ _ EV1 (same_env_trans _ _ _ EV2 I5))|].
    split; [exact I6|]. rewrite NM2 in I8. exact I8.
  - inversion H; subst e' sw. exists [a; b; c]. split; [exact OK3|]. split; [reflexivity|]. split; [rewrite C2, CW1, PK; reflexivity|].
    split; [rewrite D2; reflexivity|]. split; [exact (same_env_trans _ _ _ EV1 EV2)|]. split; [exact AB2|].
    right. split; [reflexivity|]. split; [intros X; apply NE; rewrite X; symmetry; exact EX|]. split; [exact AXM|]. split; [exact NM2|]. split; [rewrite D2; exact ND|].
    intros X. specialize (QQ X). unfold chars_left in *. rewrite D2. exact QQ.
Qed.

Section C5.
Variable text : bool.
Let M : EncodationType := if text then Text else C40.
Let L : N := if text then 239 else 230.

(* a C40 / Text run up to its end: the data ends, two digits are handed back, or a planned switch *)
Lemma c40_loop_run5 : forall fuel e buf last_ch e' buf' last',
  e_encodation e = M -> P5 (e_planned e) -> bytes_ok (e_data e) = true -> (exists p, e_input e = p ++ e_data e) -> (length buf < 3)%nat ->
  c40_loop fuel text e buf last_ch = Ok (e', buf', last') ->
  exists chars w,
    e_data e = chars ++ e_data e' /\ buf ++ flat_map (c40_vals text) chars = w ++ buf' /\ (length w mod 3 = 0)%nat /\ (length buf' < 3)%nat /\
    e_cw e' = e_cw e ++ pack_vals w /\ same_env e e' /\ P5 (e_planned e') /\
    (chars <> [] -> exists c0, chars = c0 ++ [last']) /\ (chars = [] -> last' = last_ch) /\
    ((e_encodation e' = M /\ e_new_mode e' = e_new_mode e /\ (e_data e' = [] \/ (buf' = [] /\ exists d1 d2, e_data e' = [d1; d2] /\ is_digit d1 = true /\ is_digit d2 = true))) \/
     (e_encodation e' <> M /\ m5 (e_encodation e') /\ e_new_mode e' = latch_of (e_encodation e') (e_new_mode e) /\ e_data e' <> [] /\ (e_encodation e' <> Ascii -> 2 < chars_left e'))).
Proof.
  induction fuel as [|f IH]; intros e buf last_ch e' buf' last' EM AB OK (p & IN) LB H; cbn [c40_loop] in H; [discriminate|].
  unfold eat in H. destruct (e_data e) as [|ch t] eqn:ED.
  - inversion H; subst e' buf' last'. exists [], []. cbn [app flat_map length pack_vals]. rewrite !app_nil_r, ED.
    split; [reflexivity|]. split; [reflexivity|]. split; [reflexivity|]. split; [exact LB|]. split; [reflexivity|]. split; [apply same_env_refl|]. split; [exact AB|].
    split; [intros X; contradiction|]. split; [reflexivity|]. left. split; [exact EM|]. split; [reflexivity|left; reflexivity].
  - apply bytes_ok_cons in OK. destruct OK as [HB OKt]. cbn [e_data set_data] in H.
    destruct ((match buf with [] => true | _ :: _ => false end) && is_digit ch && (match t with [ch1] => is_digit ch1 | _ => false end)) eqn:C.
    + apply andb_true_iff in C. destruct C as [C C3]. apply andb_true_iff in C. destruct C as [C1 C2].
      destruct buf as [|? ?]; [|discriminate]. destruct t as [|ch1 [|? ?]]; [discriminate| |discriminate].
      unfold backup in H. cbn [e_input e_data set_data] in H. rewrite IN in H. rewrite app_length in H. cbn [length] in H.
      destruct ((length p + 2 <? 1)%nat || (length p + 2 - 1 <? 1)%nat) eqn:B; cbn [bind] in H; [discriminate|].
      assert (skipn (length p + 2 - 1 - 1) (p ++ [ch; ch1]) = [ch; ch1]) as SK by (replace (length p + 2 - 1 - 1)%nat with (length p) by lia; rewrite skipn_app, skipn_all, Nat.sub_diag; reflexivity). rewrite SK in H.
      inversion H; subst e' buf' last'. exists [], []. cbn [app flat_map length pack_vals e_data set_data e_cw e_planned e_new_mode e_encodation]. rewrite !app_nil_r.
      split; [reflexivity|]. split; [reflexivity|]. split; [reflexivity|]. split; [lia|]. split; [reflexivity|]. split; [repeat split|]. split; [exact AB|].
      split; [intros X; contradiction|]. split; [reflexivity|]. left. split; [exact EM|]. split; [reflexivity|]. right. split; [reflexivity|]. exists ch, ch1. repeat split; assumption.
    + destruct (to_vals text buf ch) as [buf1| |] eqn:TV; cbn [bind] in H; try discriminate.
      pose proof (to_vals_app text text buf ch buf1 HB TV) as ->.
      destruct (drain3 4 (set_data e t) (buf ++ c40_vals text ch)) as [[e2 buf2]| |] eqn:DR; cbn [bind] in H; try discriminate.
      destruct (drain3_run text _ _ _ _ _ DR) as (w1 & EW & LW1 & LB2 & CW2 & (S1 & S2 & S3 & S4 & S5 & S6 & S7)).
      cbn [e_data e_planned e_encodation e_new_mode e_symbols e_input e_modes e_cw set_data] in S1, S2, S3, S4, S5, S6, S7, CW2.
      destruct (maybe_switch_mode e2) as [[sw e3]| |] eqn:MS; cbn [bind] in H; try discriminate.
      destruct (msm_cases5 e2 sw e3 MS ltac:(rewrite S2; exact AB)) as (D3 & C3 & (EV1 & EV2 & EV3) & AB3 & CASE).
      assert (same_env e e3) as EV by (repeat split; congruence).
      destruct CASE as [(-> & EN3 & NM3)|(-> & ND & ACM & NE & NM3 & QQ)].
      * destruct (IH e3 buf2 ch e' buf' last' ltac:(congruence) AB3 ltac:(rewrite D3, S1; exact OKt) ltac:(exists (p ++ [ch]); rewrite EV1, S6, IN, D3, S1, <- app_assoc; reflexivity) LB2 H)
          as (chars & w & I1 & I2 & I3 & I4 & I5 & I6 & I7 & I9 & I10 & I11).
        exists (ch :: chars), (w1 ++ w). split; [cbn [app]; rewrite <- I1, D3, S1; reflexivity|].
        split; [cbn [flat_map]; rewrite app_assoc, EW, <- !app_assoc, I2; reflexivity|].
        split; [rewrite app_length, <- Nat.add_mod_idemp_l, LW1 by lia; cbn [Nat.add]; exact I3|]. split; [exact I4|].
        split; [rewrite I5, C3, CW2, (pack_vals_app text) by exact LW1; rewrite <- app_assoc; reflexivity|]. split; [exact (same_env_trans _ _ _ EV I6)|]. split; [exact I7|].
        split; [intros _; destruct chars as [|c1 cr]; [exists []; rewrite (I10 eq_refl); reflexivity|destruct (I9 ltac:(discriminate)) as (c0 & E0); exists (ch :: c0); rewrite E0; reflexivity]|].
        split; [intros X; discriminate|]. rewrite NM3, S4 in I11. exact I11.
      * inversion H; subst e' buf' last'. exists [ch], w1. cbn [app flat_map]. rewrite app_nil_r.
        split; [rewrite D3, S1; reflexivity|]. split; [exact EW|]. split; [exact LW1|]. split; [exact LB2|]. split; [rewrite C3; exact CW2|]. split; [exact EV|]. split; [exact AB3|].
        split; [intros _; exists []; reflexivity|]. split; [intros X; discriminate|].
        right. split; [intros X; apply NE; rewrite X, S3; symmetry; exact EM|]. split; [exact ACM|]. split; [rewrite NM3, S4; reflexivity|]. split; [rewrite D3; exact ND|].
        intros X. specialize (QQ X). unfold chars_left in *. rewrite D3. exact QQ.
Qed.
End C5.

Definition MS5 (e : enc) : Prop := m5 (e_encodation e) /\ e_new_mode e = latch_of (e_encodation e) None /\ (e_encodation e <> Ascii -> e_data e <> []).
Lemma MS5_ascii e : e_encodation e = Ascii -> e_new_mode e = None -> MS5 e.
Proof. intros A B. unfold MS5. rewrite A, B. split; [left; reflexivity|]. split; [reflexivity|intros X; contradiction]. Qed.

Section C5b.
Variable text : bool.
Let M : EncodationType := if text then Text else C40.
Let L : N := if text then 239 else 230.

Definition Out5 (base : list N) (e1 : enc) (chars : list N) (ex : enc) : Prop :=
  exists cs f t rest, chars = cs ++ rest /\ e_data ex = rest ++ e_data e1 /\ e_cw ex = base ++ run_cw text cs f t /\
    (length (c40_run_vals text cs f) mod 3 = 0)%nat /\ same_env e1 ex /\
    ((t = TUnlatch /\ MS5 ex /\ P5 (e_planned ex) /\ exists px, e_input ex = px ++ e_data ex) \/
     (t = TEnd /\ e_data ex = [] /\ full ex) \/
     (t = TEnd /\ e_encodation ex = Ascii /\ e_planned ex = [(0, Ascii)] /\ e_new_mode ex = None /\
      (chars_left ex <=? 2) && (ascii_encoding_size (e_data ex) =? 1) = true /\ symbol_size_left ex 1 = Some 0)).

Lemma c40_end_run5 base e1 chars w buf' last' ex :
  flat_map (c40_vals text) chars = w ++ buf' -> (length w mod 3 = 0)%nat -> (length buf' < 3)%nat -> e_cw e1 = base ++ pack_vals w ->
  bytes_ok chars = true -> (exists p1, e_input e1 = p1 ++ chars ++ e_data e1) -> (chars <> [] -> exists c0, chars = c0 ++ [last']) ->
  P5 (e_planned e1) -> (e_encodation e1 = M -> e_new_mode e1 = None) ->
  ((e_encodation e1 = M /\ (e_data e1 = [] \/ (buf' = [] /\ exists d1 d2, e_data e1 = [d1; d2] /\ is_digit d1 = true /\ is_digit d2 = true))) \/
   (e_encodation e1 <> M /\ m5 (e_encodation e1) /\ e_new_mode e1 = latch_of (e_encodation e1) None /\ e_data e1 <> [] /\ (e_encodation e1 <> Ascii -> 2 < chars_left e1))) ->
  c40_handle_end e1 last' buf' = Ok ex -> Out5 base e1 chars ex.
Proof.
  intros V LW LB CW OKC (p1 & IN) LAST AB1 NMM END H. rewrite c40_handle_end_eq in H.
  destruct (Nat.ltb_spec 2 (length buf')); [lia|].
  pose proof P5_until_end as AUE.
  destruct (has_more e1) eqn:HM.
  - (* characters remain: a planned switch, or two digits handed back *)
    assert (e_data e1 <> []) as ND by (unfold has_more in HM; destruct (e_data e1); discriminate).
    unfold c40_early in H. rewrite HM in H. cbn [negb bind] in H.
    destruct (c40_flush true e1 buf') as [e2| |] eqn:FL; cbn [bind] in H; try discriminate.
    destruct (flush_run text base true e1 chars w buf' e2 V LW LB CW FL) as (f & C2 & L2 & D2 & (EV1 & EV2 & EV3) & NM2 & MODE).
    destruct MODE as [(EN2 & PL2)|(X & _)]; [|discriminate].
    assert (exists px, e_input e2 = px ++ e_data e2) as IN2 by (exists (p1 ++ chars); rewrite EV1, IN, D2, <- app_assoc; reflexivity).
    unfold c40_tail in H. cbv zeta in H. unfold chars_left in H. rewrite D2 in H.
    destruct (N.ltb_spec 0 (N.of_nat (length (e_data e1)))) as [_|Z]; [|destruct (e_data e1); [contradiction|cbn [length] in Z; lia]].
    destruct ((N.of_nat (length (e_data e1)) =? 2) && two_digits_coming (e_data e1)) eqn:TD.
    + assert (e_new_mode e1 = None) as NM1.
      { destruct END as [(EM1 & _)|(NM' & M5' & NMX & _ & QQ)]; [exact (NMM EM1)|].
        destruct (et_eqb (e_encodation e1) Ascii) eqn:EQA.
        - unfold et_eqb in EQA. apply N.eqb_eq in EQA. assert (e_encodation e1 = Ascii) as EA by (destruct (e_encodation e1); cbn in EQA; try discriminate; reflexivity). rewrite NMX, EA. reflexivity.
        - assert (e_encodation e1 <> Ascii) as NA by (intros X; rewrite X in EQA; cbn in EQA; discriminate). specialize (QQ NA).
          apply andb_true_iff in TD. destruct TD as [T1 _]. apply N.eqb_eq in T1. unfold chars_left in QQ. lia. }
      unfold ssl in H. destruct (symbol_size_left e2 1) as [sp|] eqn:SS; cbn [bind] in H; [|discriminate].
      destruct (N.leb_spec 1 sp) as [GE|LT]; inversion H; subst ex.
      * exists chars, f, TUnlatch, []. rewrite app_nil_r. split; [reflexivity|]. split; [cbn [e_data push set_cw set_ascii_until_end app]; exact D2|].
        split; [cbn [e_cw push set_cw set_ascii_until_end]; rewrite C2; unfold run_cw; rewrite <- app_assoc; reflexivity|]. split; [exact L2|].
        split; [repeat split; cbn [e_input e_modes e_symbols push set_cw set_ascii_until_end]; assumption|]. left.
        split; [reflexivity|]. split; [apply MS5_ascii; [reflexivity|cbn [e_new_mode push set_cw set_ascii_until_end]; rewrite NM2; exact NM1]|]. split; [exact AUE|exact IN2].
      * assert (sp = 0) as -> by lia. exists chars, f, TEnd, []. rewrite app_nil_r. split; [reflexivity|]. split; [cbn [e_data set_ascii_until_end app]; exact D2|].
        split; [cbn [e_cw set_ascii_until_end]; rewrite C2; unfold run_cw; cbn [term_cw]; rewrite app_nil_r; reflexivity|]. split; [exact L2|].
        split; [repeat split; cbn [e_input e_modes e_symbols set_ascii_until_end]; assumption|]. right. right.
        split; [reflexivity|]. split; [reflexivity|]. split; [reflexivity|]. split; [cbn [e_new_mode set_ascii_until_end]; rewrite NM2; exact NM1|].
        split; [|exact SS]. apply andb_true_iff in TD. destruct TD as [T1 T2]. apply N.eqb_eq in T1. unfold chars_left. cbn [e_data set_ascii_until_end]. rewrite D2.
        destruct (e_data e1) as [|a [|b [|c r]]]; cbn [length] in T1; try lia. cbn [two_digits_coming] in T2. cbn [length ascii_encoding_size]. rewrite T2. reflexivity.
    + assert (e_encodation e1 <> M /\ m5 (e_encodation e1) /\ e_new_mode e1 = latch_of (e_encodation e1) None) as (NM' & M5' & NMX).
      { destruct END as [(_ & [Z|(_ & d1 & d2 & DD & G1 & G2)])|(A & B & C & _)]; [contradiction| |split; [exact A|split; [exact B|exact C]]].
        rewrite DD in TD. cbn [length two_digits_coming] in TD. rewrite G1, G2 in TD. discriminate. }
      inversion H; subst ex. exists chars, f, TUnlatch, []. rewrite app_nil_r. split; [reflexivity|]. split; [cbn [e_data push set_cw app]; exact D2|].
      split; [cbn [e_cw push set_cw]; rewrite C2; unfold run_cw; rewrite <- app_assoc; reflexivity|]. split; [exact L2|].
      split; [repeat split; cbn [e_input e_modes e_symbols push set_cw]; assumption|]. left.
      split; [reflexivity|]. split; [|split; [cbn [e_planned push set_cw]; rewrite PL2; exact AB1|exact IN2]].
      unfold MS5. cbn [e_encodation e_new_mode e_data push set_cw]. rewrite EN2, NM2, D2. split; [exact M5'|]. split; [exact NMX|intros _; exact ND].
  - (* the data ends with the run *)
    assert (e_data e1 = []) as ED by (unfold has_more in HM; destruct (e_data e1); [reflexivity|discriminate]).
    assert (e_new_mode e1 = None) as NM1 by (destruct END as [(EM1 & _)|(_ & _ & _ & X & _)]; [exact (NMM EM1)|contradiction]).
    rewrite ED, app_nil_r in IN.
    (* no early form: padded flush, then Unlatch if there is room *)
    assert ((let* e2 := c40_flush false e1 buf' in c40_tail false e2) = Ok ex -> Out5 base e1 chars ex) as NONE.
    { intros HN. destruct (c40_flush false e1 buf') as [e2| |] eqn:FL; cbn [bind] in HN; try discriminate.
      destruct (flush_run text base false e1 chars w buf' e2 V LW LB CW FL) as (f & C2 & L2 & D2 & (EV1 & EV2 & EV3) & NM2 & MODE).
      unfold c40_tail in HN. cbv zeta in HN. unfold chars_left in HN. rewrite D2, ED in HN. cbn [length N.of_nat N.ltb N.compare] in HN.
      unfold ssl in HN. destruct (symbol_size_left e2 0) as [sl|] eqn:SS; cbn [bind] in HN; [|discriminate].
      destruct (N.ltb_spec 0 sl) as [POS|Z]; inversion HN; subst ex.
      - exists chars, f, TUnlatch, []. rewrite app_nil_r. split; [reflexivity|]. split; [cbn [negb e_data push set_cw set_ascii_until_end app]; exact D2|].
        split; [cbn [negb e_cw push set_cw set_ascii_until_end]; rewrite C2; unfold run_cw; rewrite <- app_assoc; reflexivity|]. split; [exact L2|].
        split; [repeat split; cbn [negb e_input e_modes e_symbols push set_cw set_ascii_until_end]; assumption|]. left.
        split; [reflexivity|]. split; [apply MS5_ascii; [reflexivity|cbn [negb e_new_mode push set_cw set_ascii_until_end]; rewrite NM2; exact NM1]|]. split; [exact AUE|].
        exists (e_input e2). cbn [negb e_input e_data push set_cw set_ascii_until_end]. rewrite D2, ED, app_nil_r. reflexivity.
      - assert (sl = 0) as -> by lia. exists chars, f, TEnd, []. rewrite app_nil_r. split; [reflexivity|]. split; [exact D2|].
        split; [rewrite C2; unfold run_cw; cbn [term_cw]; rewrite app_nil_r; reflexivity|]. split; [exact L2|]. split; [repeat split; assumption|]. right. left.
        split; [reflexivity|]. split; [rewrite D2; exact ED|].
        unfold symbol_size_left in SS. destruct (symbol_for e2 0) as [s|] eqn:SF; [|discriminate].
        apply (full_plus text e2 e2 0 s); [unfold symbol_size_left; rewrite SF; exact SS|exact SF|reflexivity|lia]. }
    unfold c40_early in H. rewrite HM in H. cbn [negb] in H. unfold ssl in H.
    destruct (symbol_size_left e1 (N.of_nat (length buf'))) as [sl|] eqn:SS; cbn [bind] in H; [|discriminate].
    destruct buf' as [|x [|y [|z r]]]; [| | |cbn [length] in LB; lia].
    + cbn [length N.of_nat] in H. change (0 =? 2) with false in H. change (0 =? 1) with false in H. rewrite !andb_false_r in H. cbn [bind] in H. exact (NONE H).
    + change (N.of_nat (length [x])) with 1 in H, SS. change (1 =? 2) with false in H. change (1 =? 1) with true in H. rewrite andb_false_r, !andb_true_r in H.
      assert (chars <> []) as NC by (intros Z; rewrite Z in V; cbn [flat_map] in V; destruct w; discriminate).
      destruct (LAST NC) as (c0 & EC).
      assert (last' < 256) as LB256 by (rewrite EC in OKC; apply bytes_ok_app in OKC; destruct OKC as [_ O2]; apply bytes_ok_cons in O2; exact (proj1 O2)).
      destruct (vals_fill text text last' LB256) as (fl & x' & VF).
      assert (c40_run_vals text c0 fl = w) as RW.
      { rewrite EC, flat_map_app in V. cbn [flat_map] in V. rewrite app_nil_r, VF, app_assoc in V. apply app_inj_tail in V. unfold c40_run_vals. exact (proj1 V). }
      assert (forall c, backup (set_cw (set_ascii_until_end e1) c) 1 = Ok (set_data (set_cw (set_ascii_until_end e1) c) [last'])) as BK.
      { intros c. apply (backup_one text _ (p1 ++ c0)); [cbn [e_input set_cw set_ascii_until_end]; rewrite IN, EC, app_assoc; reflexivity|exact ED]. }
      destruct (N.eqb_spec (sl + 1) 2) as [E2|N2].
      { (* case c of the standard: Unlatch, the last character in ASCII *)
        change (set_ascii_until_end (push e1 UNLATCH)) with (set_cw (set_ascii_until_end e1) (e_cw e1 ++ [UNLATCH])) in H. rewrite BK in H. cbn [bind] in H. inversion H; subst ex.
        exists c0, fl, TUnlatch, [last']. split; [exact EC|]. split; [rewrite ED; reflexivity|].
        split; [cbn [e_cw set_data set_cw]; rewrite CW; unfold run_cw; rewrite RW, <- app_assoc; reflexivity|]. split; [rewrite RW; exact LW|]. split; [repeat split|]. left.
        split; [reflexivity|]. split; [apply MS5_ascii; [reflexivity|exact NM1]|]. split; [exact AUE|]. exists (p1 ++ c0). cbn [e_input e_data set_data set_cw set_ascii_until_end]. rewrite IN, EC, app_assoc. reflexivity. }
      destruct (N.eqb_spec (sl + 1) 1) as [E1|N1]; [|cbn [bind] in H; exact (NONE H)].
      destruct (N.eqb_spec (ascii_encoding_size [last']) 1) as [A1|NA]; [|cbn [bind] in H; exact (NONE H)].
      (* case d: no Unlatch, the last character as the one ASCII codeword that fills the symbol *)
      change (set_ascii_until_end e1) with (set_cw (set_ascii_until_end e1) (e_cw e1)) in H. rewrite BK in H. cbn [bind] in H. inversion H; subst ex.
      exists c0, fl, TEnd, [last']. split; [exact EC|]. split; [rewrite ED; reflexivity|].
      split; [cbn [e_cw set_data set_cw]; rewrite CW; unfold run_cw; rewrite RW; cbn [term_cw]; rewrite app_nil_r; reflexivity|]. split; [rewrite RW; exact LW|]. split; [repeat split|]. right. right.
      split; [reflexivity|]. split; [reflexivity|]. split; [reflexivity|]. split; [exact NM1|].
      split; [unfold chars_left; cbn [e_data set_data length N.of_nat]; rewrite A1; reflexivity|].
      assert (sl = 0) as -> by lia. exact SS.
    + change (N.of_nat (length [x; y])) with 2 in H, SS. change (2 =? 2) with true in H. change (2 =? 1) with false in H. rewrite !andb_false_r, andb_true_r in H.
      destruct (N.eqb_spec (sl + 2) 2) as [E2|N2]; [|cbn [bind] in H; exact (NONE H)].
      (* case b: the two values and a Shift 1 pad fill the symbol *)
      destruct (write_three_values e1 x y c40_SHIFT1) as [e'| |] eqn:W; cbn [bind] in H; try discriminate. inversion H; subst ex.
      destruct (wtv_run _ _ _ _ _ W) as ((S1 & S2 & S3 & S4 & S5 & S6 & S7) & C1).
      exists chars, 1%nat, TEnd, []. rewrite app_nil_r. split; [reflexivity|]. split; [exact S1|].
      assert (pack_vals ((w ++ [x; y]) ++ [0]) = pack_vals w ++ pack3 x y 0) as PK by (rewrite <- app_assoc; cbn [app]; rewrite (pack_vals_app text) by exact LW; cbn [pack_vals]; rewrite app_nil_r; reflexivity).
      split; [rewrite C1, CW; unfold run_cw, c40_run_vals; rewrite V; cbn [fill_vals term_cw]; rewrite PK, app_nil_r, <- app_assoc; reflexivity|].
      split; [unfold c40_run_vals; rewrite V; cbn [fill_vals]; rewrite !app_length; cbn [length]; replace (length w + 2 + 1)%nat with (length w + 1 * 3)%nat by lia; rewrite Nat.mod_add by lia; exact LW|].
      split; [repeat split; assumption|]. right. left. split; [reflexivity|]. split; [rewrite S1; exact ED|].
      assert (sl = 0) as -> by lia. unfold symbol_size_left in SS. destruct (symbol_for e1 2) as [s|] eqn:SF; [|discriminate].
      apply (full_plus text e1 e' 2 s); [unfold symbol_size_left; rewrite SF; exact SS|exact SF|exact S5|unfold cw_len; rewrite C1, app_length; cbn [pack3 length]; lia].
Qed.
End C5b.

(* ---- one iteration of the main loop, mode by mode ---- *)
Definition seg5 (s : segment) : Prop :=
  match s with
  | SAscii items => forallb aitem_ok items = true
  | SB256 run => segment_ok (SB256 run) = true
  | SX12 chars TUnlatch => segment_ok (SX12 chars TUnlatch) = true
  | SC40 t cs f TUnlatch => segment_ok (SC40 t cs f TUnlatch) = true
  | _ => False
  end.
(* a last segment that ends the symbol *)
Definition tseg (s : segment) : Prop :=
  match s with SX12 _ TEnd | SC40 _ _ _ TEnd => segment_ok s = true | _ => False end.
Definition endseg (s : segment) : Prop :=
  match s with SB256End run => bytes_ok run = true | _ => tseg s end.

Definition G5 (pre data : list N) (e : enc) (segs : list segment) : Prop :=
  e_cw e = pre ++ render (N.of_nat (length pre)) segs /\ meaning segs ++ e_data e = data /\ Forall seg5 segs /\ P5 (e_planned e) /\
  (exists p, e_input e = p ++ e_data e) /\ MS5 e.
(* the data ended with a segment that fills the symbol *)
Definition FINs (pre data : list N) (e : enc) (segs : list segment) : Prop :=
  e_cw e = pre ++ render (N.of_nat (length pre)) segs /\ meaning segs = data /\ e_data e = [] /\
  exists init last_, segs = init ++ [last_] /\ Forall seg5 init /\ endseg last_ /\ full e.
(* a run ended the symbol without Unlatch, one ASCII-encoded codeword is still to come and will fill it *)
Definition PENDs (pre data : list N) (e : enc) (segs : list segment) : Prop :=
  e_cw e = pre ++ render (N.of_nat (length pre)) segs /\ meaning segs ++ e_data e = data /\
  (exists init last_, segs = init ++ [last_] /\ Forall seg5 init /\ tseg last_) /\
  e_encodation e = Ascii /\ e_planned e = [(0, Ascii)] /\ e_new_mode e = None /\
  (chars_left e <=? 2) && (ascii_encoding_size (e_data e) =? 1) = true /\ symbol_size_left e 1 = Some 0.
Definition Step (pre data : list N) (e ex : enc) : Prop :=
  e_symbols ex = e_symbols e /\
  ((exists segs1, G5 pre data ex segs1) \/ (exists segs1, FINs pre data ex segs1) \/ (exists segs1, PENDs pre data ex segs1)).

Lemma step_ascii pre data e segs ex : G5 pre data e segs -> bytes_ok (e_data e) = true -> e_encodation e = Ascii ->
  ascii_encode (S (S (length (e_data e)))) e = Ok ex -> Step pre data e ex.
Proof.
  intros (GC & GM & GS & GP & (pin & GI) & (M5e & NMe & NDe)) OKE EA AE. rewrite EA in NMe. cbn in NMe.
  destruct (ascii_run5 _ e ex EA OKE GP AE) as (items & I1 & I2 & I3 & (I4i & _ & I4) & I5 & I6).
  split; [exact I4|]. left. exists (segs ++ [SAscii items]).
  split; [rewrite I2, GC, render_snoc, <- app_assoc; reflexivity|]. split; [rewrite meaning_snoc; cbn [segment_data]; rewrite <- app_assoc, <- I3; exact GM|].
  split; [apply Forall_app; split; [exact GS|constructor; [exact I1|constructor]]|]. split; [exact I5|].
  split; [exists (pin ++ flat_map aitem_data items); rewrite I4i, GI, I3, <- app_assoc; reflexivity|].
  destruct I6 as [(A & B & C)|(A & B & C & D & _)].
  - apply MS5_ascii; [exact A|rewrite C; exact NMe].
  - split; [exact B|]. split; [rewrite C, NMe; reflexivity|intros _; exact D].
Qed.

Section StepC40.
Variable text : bool.
Let M : EncodationType := if text then Text else C40.
Let L : N := if text then 239 else 230.

Lemma step_c40 pre data e segs ex : G5 pre data e segs -> bytes_ok (e_data e) = true -> e_encodation e = M ->
  c40_encode text (push (mkenc (e_data e) (e_input e) (e_encodation e) (e_planned e) None (e_cw e) (e_modes e) (e_symbols e)) L) = Ok ex ->
  Step pre data e ex.
Proof.
  intros (GC & GM & GS & GP & (pin & GI) & GMS) OKE EX XE.
  set (el := push (mkenc (e_data e) (e_input e) (e_encodation e) (e_planned e) None (e_cw e) (e_modes e) (e_symbols e)) L) in *.
  unfold c40_encode in XE. destruct (c40_loop (S (length (e_data el))) text el [] 0) as [[[e1 buf'] last']| |] eqn:XL; cbn [bind] in XE; try discriminate.
  destruct (c40_loop_run5 text _ el [] 0 e1 buf' last' EX GP OKE ltac:(exists pin; exact GI) ltac:(cbn [length]; lia) XL)
    as (chars & w & R1 & R2 & R3 & R4 & R5 & (R6i & R6m & R6s) & R7 & R9 & R10 & R11).
  cbn [app] in R2. cbn [e_data e_cw e_new_mode e_symbols e_input el push set_cw] in R1, R5, R6i, R6s, R11.
  assert (bytes_ok chars = true) as OKC by (rewrite R1 in OKE; apply bytes_ok_app in OKE; apply OKE).
  assert ((e_encodation e1 = M /\ (e_data e1 = [] \/ (buf' = [] /\ exists d1 d2, e_data e1 = [d1; d2] /\ is_digit d1 = true /\ is_digit d2 = true))) \/
          (e_encodation e1 <> M /\ m5 (e_encodation e1) /\ e_new_mode e1 = latch_of (e_encodation e1) None /\ e_data e1 <> [] /\ (e_encodation e1 <> Ascii -> 2 < chars_left e1))) as END.
  { destruct R11 as [(A & _ & C)|(A & B & C & D & E)]; [left; split; assumption|right; repeat split; assumption]. }
  assert (e_encodation e1 = M -> e_new_mode e1 = None) as NMM.
  { intros EM1. destruct R11 as [(_ & B & _)|(A & _)]; [exact B|contradiction]. }
  destruct (c40_end_run5 text (e_cw e ++ [L]) e1 chars w buf' last' ex R2 R3 R4 R5 OKC ltac:(exists pin; rewrite R6i, GI, R1; reflexivity) R9 R7 NMM END XE)
    as (cs & fl & t & rest & EC & DX & CX & LX & (EV1 & EV2 & EV3) & ALT).
  assert (bytes_ok cs = true) as OKS by (rewrite EC in OKC; apply bytes_ok_app in OKC; apply OKC).
  assert (e_cw ex = pre ++ render (N.of_nat (length pre)) (segs ++ [SC40 text cs fl t])) as CWX.
  { rewrite render_snoc, (seg_cw_c40 text), CX, GC, <- !app_assoc. reflexivity. }
  assert (meaning (segs ++ [SC40 text cs fl t]) ++ e_data ex = data) as MX.
  { rewrite meaning_snoc. cbn [segment_data]. rewrite DX, <- app_assoc, (app_assoc cs), <- EC, <- R1. exact GM. }
  split; [rewrite EV3; exact R6s|].
  destruct ALT as [(-> & A1 & A3 & A4)|[(-> & A1 & A2)|(-> & A1 & A2 & A3 & A4 & A5)]].
  - left. exists (segs ++ [SC40 text cs fl TUnlatch]). split; [exact CWX|]. split; [exact MX|].
    split; [apply Forall_app; split; [exact GS|constructor; [apply (c40_seg_ok text); assumption|constructor]]|]. split; [exact A3|]. split; [exact A4|exact A1].
  - right. left. exists (segs ++ [SC40 text cs fl TEnd]). split; [exact CWX|]. split; [rewrite <- MX, A1, app_nil_r; reflexivity|]. split; [exact A1|].
    exists segs, (SC40 text cs fl TEnd). split; [reflexivity|]. split; [exact GS|]. split; [apply (c40_seg_ok text); assumption|exact A2].
  - right. right. exists (segs ++ [SC40 text cs fl TEnd]). split; [exact CWX|]. split; [exact MX|].
    split; [exists segs, (SC40 text cs fl TEnd); split; [reflexivity|split; [exact GS|apply (c40_seg_ok text); assumption]]|]. repeat split; assumption.
Qed.
End StepC40.

Lemma latch_none_small e : m5 (e_encodation e) -> e_new_mode e = latch_of (e_encodation e) None -> (e_encodation e <> Ascii -> 2 < chars_left e) ->
  chars_left e <= 2 -> e_new_mode e = None.
Proof.
  intros M5e NM Q LE. destruct (et_latch_from_ascii (e_encodation e)) as [l|] eqn:EL; [|unfold latch_of in NM; rewrite EL in NM; exact NM].
  assert (e_encodation e <> Ascii) as NA by (intros X; rewrite X in EL; discriminate). specialize (Q NA). lia.
Qed.

Lemma step_x12 pre data e segs ex : G5 pre data e segs -> e_encodation e = X12 ->
  x12_encode (push (mkenc (e_data e) (e_input e) (e_encodation e) (e_planned e) None (e_cw e) (e_modes e) (e_symbols e)) 238) = Ok ex ->
  Step pre data e ex.
Proof.
  intros (GC & GM & GS & GP & (pin & GI) & GMS) EX XE.
  set (el := push (mkenc (e_data e) (e_input e) (e_encodation e) (e_planned e) None (e_cw e) (e_modes e) (e_symbols e)) 238) in *.
  unfold x12_encode in XE. destruct (x12_loop (S (length (e_data el))) el) as [[e1 sw]| |] eqn:XL; cbn [bind] in XE; try discriminate.
  destruct (x12_loop_run5 _ el e1 sw EX GP XL) as (chars & R1 & R2 & R3 & R4 & (R5i & _ & R5) & R6 & R8).
  cbn [e_data e_cw e_new_mode e_symbols e_input el push set_cw] in R3, R4, R5, R5i, R8.
  assert (forall t, e_cw e1 ++ term_cw t = pre ++ render (N.of_nat (length pre)) (segs ++ [SX12 chars t])) as CWX.
  { intros t. rewrite render_snoc, R3, GC. cbn [segment_cw]. rewrite <- !app_assoc. reflexivity. }
  assert (forall t, meaning (segs ++ [SX12 chars t]) ++ e_data e1 = data) as MX.
  { intros t. rewrite meaning_snoc. cbn [segment_data]. rewrite <- app_assoc, <- R4. exact GM. }
  assert (exists p, e_input e1 = p ++ e_data e1) as IN1 by (exists (pin ++ chars); rewrite R5i, GI, R4, <- app_assoc; reflexivity).
  assert (forall t, Forall seg5 segs /\ segment_ok (SX12 chars t) = true) as SOK by (intros t; split; [exact GS|apply x12_seg_ok; assumption]).
  assert (e_symbols ex = e_symbols e1 /\ ((exists segs1, G5 pre data ex segs1) \/ (exists segs1, FINs pre data ex segs1) \/ (exists segs1, PENDs pre data ex segs1))) as [SY DJ]; [|split; [rewrite SY; exact R5|exact DJ]].
  (* the part after the early-end test *)
  assert ((let* need := (if has_more e1 then Ok true else let* l := ssl e1 0 in Ok (0 <? l)) in
           if need then Ok (push (if negb sw then set_ascii_until_end e1 else e1) UNLATCH) else Ok e1) = Ok ex ->
          e_symbols ex = e_symbols e1 /\ ((exists segs1, G5 pre data ex segs1) \/ (exists segs1, FINs pre data ex segs1) \/ (exists segs1, PENDs pre data ex segs1))) as LATE.
  { intros XN.
    assert (G5 pre data (push (if negb sw then set_ascii_until_end e1 else e1) UNLATCH) (segs ++ [SX12 chars TUnlatch])) as GU.
    { split; [rewrite <- CWX; destruct (negb sw); reflexivity|]. split; [rewrite <- (MX TUnlatch); destruct (negb sw); reflexivity|].
      split; [apply Forall_app; split; [exact GS|constructor; [exact (proj2 (SOK TUnlatch))|constructor]]|].
      split; [destruct (negb sw); [exact P5_until_end|exact R6]|].
      split; [destruct IN1 as (p & IP); exists p; destruct (negb sw); exact IP|].
      destruct R8 as [(-> & A & B & _)|(-> & A & B & C & D & _)]; cbn [negb].
      - apply MS5_ascii; [reflexivity|exact B].
      - split; [exact B|]. split; [exact C|intros _; exact D]. }
    destruct (has_more e1) eqn:HMX; cbn [bind] in XN.
    - inversion XN; subst ex. split; [destruct (negb sw); reflexivity|]. left. eexists. exact GU.
    - unfold ssl in XN. destruct (symbol_size_left e1 0) as [l|] eqn:SS; cbn [bind] in XN; [|discriminate].
      destruct (N.ltb_spec 0 l) as [POS|Z]; inversion XN; subst ex.
      + split; [destruct (negb sw); reflexivity|]. left. eexists. exact GU.
      + assert (l = 0) as -> by lia. assert (e_data e1 = []) as DE by (unfold has_more in HMX; destruct (e_data e1); [reflexivity|discriminate]).
        split; [reflexivity|]. right. left. exists (segs ++ [SX12 chars TEnd]). split; [rewrite <- CWX; cbn [term_cw]; rewrite app_nil_r; reflexivity|].
        split; [rewrite <- (MX TEnd), DE, app_nil_r; reflexivity|]. split; [exact DE|].
        exists segs, (SX12 chars TEnd). split; [reflexivity|]. split; [exact GS|]. split; [exact (proj2 (SOK TEnd))|].
        unfold symbol_size_left in SS. destruct (symbol_for e1 0) as [s|] eqn:SF; [|discriminate]. exists s. split; [exact SF|].
        pose proof (full_of_left e1 0 s ltac:(unfold symbol_size_left; rewrite SF; exact SS) SF). lia. }
  destruct ((chars_left e1 <=? 2) && (ascii_encoding_size (e_data e1) =? 1)) eqn:ONE; [|cbn [bind] in XE; exact (LATE XE)].
  unfold ssl in XE. destruct (symbol_size_left e1 1) as [l|] eqn:SS; cbn [bind] in XE; [|discriminate].
  destruct (N.eqb_spec l 0) as [-> |NZ]; [|exact (LATE XE)].
  inversion XE; subst ex. split; [reflexivity|]. right. right. exists (segs ++ [SX12 chars TEnd]).
  split; [cbn [e_cw set_ascii_until_end]; rewrite <- CWX; cbn [term_cw]; rewrite app_nil_r; reflexivity|]. split; [exact (MX TEnd)|].
  split; [exists segs, (SX12 chars TEnd); split; [reflexivity|split; [exact GS|exact (proj2 (SOK TEnd))]]|].
  split; [reflexivity|]. split; [reflexivity|]. split; [|split; [exact ONE|exact SS]].
  cbn [e_new_mode set_ascii_until_end]. destruct R8 as [(_ & _ & B & _)|(_ & A & B & C & D & Q)]; [exact B|].
  apply (latch_none_small e1 B C Q). apply andb_true_iff in ONE. destruct ONE as [O1 _]. apply N.leb_le in O1. exact O1.
Qed.

Lemma step_b256 pre data e segs ex : G5 pre data e segs -> bytes_ok (e_data e) = true -> e_data e <> [] -> e_encodation e = Base256 ->
  base256_encode (push (mkenc (e_data e) (e_input e) (e_encodation e) (e_planned e) None (e_cw e) (e_modes e) (e_symbols e)) 231) = Ok ex ->
  Step pre data e ex.
Proof.
  intros (GC & GM & GS & GP & (pin & GI) & GMS) OKE ND EB H.
  set (el := push (mkenc (e_data e) (e_input e) (e_encodation e) (e_planned e) None (e_cw e) (e_modes e) (e_symbols e)) 231) in *.
  unfold base256_encode in H.
  destruct (b256_loop_run5 _ (push el 0) _ ex EB GP H) as (run & ew & e2 & R1 & R2 & (R3i & _ & R3) & R4 & R6 & R7 & R8 & R9).
  cbn [e_data el push set_cw e_cw e_new_mode e_symbols e_input] in R1, R2, R3, R3i, R6, R7.
  assert (run <> []) as RN by (destruct R6 as [A|B]; [exact A|congruence]).
  assert (e_cw ew = (e_cw e ++ [231]) ++ 0 :: run) as CW by (rewrite R2, <- !app_assoc; reflexivity).
  assert (length (e_cw el) = length (e_cw e ++ [231])) as LS by reflexivity. rewrite LS in R8.
  destruct (write_length_gen ew (e_cw e ++ [231]) run e2 CW RN R8) as (s & SF & E2 & CASES).
  assert (N.of_nat (length (e_cw e ++ [231])) + 1 = N.of_nat (length pre) + N.of_nat (length (render (N.of_nat (length pre)) segs)) + 2) as POS
    by (rewrite app_length, GC, app_length; cbn [length]; lia).
  assert (has_more e2 = has_more ew) as HM2 by (rewrite E2; reflexivity).
  assert (bytes_ok run = true) as OKR by (rewrite R1 in OKE; apply bytes_ok_app in OKE; apply OKE).
  assert (e_symbols ex = e_symbols e) as SY by (rewrite R9; destruct (negb (has_more e2)); cbn [e_symbols set_ascii_until_end]; rewrite E2; exact R3).
  split; [exact SY|].
  destruct CASES as [(WHY & LE & C2)|(HM & FULL & C2)].
  - (* explicit length *)
    left. exists (segs ++ [SB256 run]).
    assert (e_cw e2 = pre ++ render (N.of_nat (length pre)) (segs ++ [SB256 run])) as CR.
    { rewrite render_snoc, C2, POS, GC, <- !app_assoc. reflexivity. }
    assert (meaning (segs ++ [SB256 run]) ++ e_data ew = data) as MR.
    { rewrite meaning_snoc. cbn [segment_data]. rewrite <- app_assoc, <- R1. exact GM. }
    assert (Forall seg5 (segs ++ [SB256 run])) as FR.
    { apply Forall_app. split; [exact GS|]. constructor; [|constructor]. cbn [seg5 segment_ok]. rewrite OKR. cbn [andb].
      apply andb_true_iff. split; [apply N.leb_le; destruct run; [congruence|cbn [length]; lia]|apply N.leb_le; exact LE]. }
    assert (exists p, e_input ew = p ++ e_data ew) as INW by (exists (pin ++ run); rewrite R3i, GI, R1, <- app_assoc; reflexivity).
    rewrite R9, HM2. destruct R7 as [(DE & _ & NMW)|(DN & NB & M5w & NMW & QW)].
    + rewrite (has_more_nil ew DE). cbn [negb]. split; [exact CR|]. split; [cbn [e_data set_ascii_until_end]; rewrite E2; cbn [e_data set_cw]; exact MR|].
      split; [exact FR|]. split; [exact P5_until_end|].
      split; [destruct INW as (p & IP); exists p; cbn [e_input e_data set_ascii_until_end]; rewrite E2; exact IP|].
      apply MS5_ascii; [reflexivity|cbn [e_new_mode set_ascii_until_end]; rewrite E2; exact NMW].
    + rewrite (has_more_cons ew DN). cbn [negb]. split; [exact CR|]. split; [rewrite E2; cbn [e_data set_cw]; exact MR|].
      split; [exact FR|]. split; [rewrite E2; exact R4|]. split; [destruct INW as (p & IP); exists p; rewrite E2; exact IP|].
      rewrite E2. split; [exact M5w|]. split; [exact NMW|intros _; exact DN].
  - (* the field runs to the end of the symbol, which is full *)
    assert (e_data ew = []) as DE by (unfold has_more in HM; destruct (e_data ew); [reflexivity|discriminate]).
    right. left. exists (segs ++ [SB256End run]). rewrite R9, HM2, HM. cbn [negb].
    split; [cbn [e_cw set_ascii_until_end]; rewrite render_snoc, C2, POS, GC, <- !app_assoc; reflexivity|].
    split; [rewrite meaning_snoc; cbn [segment_data]; rewrite R1, DE, app_nil_r in GM; exact GM|].
    split; [cbn [e_data set_ascii_until_end]; rewrite E2; exact DE|].
    exists segs, (SB256End run). split; [reflexivity|]. split; [exact GS|]. split; [exact OKR|]. exists s.
    assert (cw_len (set_ascii_until_end e2) = cw_len ew) as CLE.
    { unfold cw_len. cbn [e_cw set_ascii_until_end]. rewrite C2, CW, !app_length, rand255_run_length. reflexivity. }
    unfold symbol_for in *. cbn [e_symbols set_ascii_until_end]. rewrite CLE. rewrite E2. cbn [e_symbols set_cw]. split; [exact SF|exact FULL].
Qed.

(* ---- the main loop ---- *)
Definition finished5 (pre data : list N) (e : enc) (segs : list segment) : Prop :=
  e_cw e = pre ++ render (N.of_nat (length pre)) segs /\ meaning segs = data /\ e_data e = [] /\
  ((Forall seg5 segs /\ e_encodation e = Ascii) \/
   (exists init last_, segs = init ++ [last_] /\ Forall seg5 init /\ endseg last_ /\ full e) \/
   (exists init last_ i, segs = init ++ [last_; SAscii [i]] /\ Forall seg5 init /\ tseg last_ /\ aitem_ok i = true /\ single_cw i = true /\ full e)).

Lemma main_loop5 pre data : bytes_ok data = true -> forall fuel e nwr segs e', G5 pre data e segs ->
  main_loop fuel e nwr = Ok e' -> exists segs', finished5 pre data e' segs' /\ e_symbols e' = e_symbols e.
Proof.
  intros OKD. induction fuel as [|f IH]; intros e nwr segs e' HG H; cbn [main_loop] in H; [discriminate|].
  pose proof HG as (GC & GM & GS & GP & (pin & GI) & (M5e & NMe & NDe)).
  destruct (has_more e) eqn:HM0; cbn [negb] in H.
  2:{ assert (e_data e = []) as ED by (unfold has_more in HM0; destruct (e_data e); [reflexivity|discriminate]).
      inversion H; subst e'. exists segs. split; [|reflexivity]. rewrite ED, app_nil_r in GM.
      split; [exact GC|]. split; [exact GM|]. split; [exact ED|]. left. split; [exact GS|].
      destruct (e_encodation e) eqn:EE; try reflexivity; exfalso; apply NDe; try discriminate; exact ED. }
  assert (e_data e <> []) as ND by (unfold has_more in HM0; destruct (e_data e); [discriminate|discriminate]).
  assert (bytes_ok (e_data e) = true) as OKE.
  { rewrite <- GM in OKD. apply bytes_ok_app in OKD. apply OKD. }
  (* what follows a step *)
  assert (forall (ex : enc) (len : nat) (X : ER enc), X = Ok e' ->
            (X = (if (length (e_cw ex) <? len)%nat then Panic POverflow else
                 if (length (e_cw ex) - len <=? 1)%nat then (if 5 <? nwr + 1 then Panic PAssert else main_loop f ex (nwr + 1)) else main_loop f ex 0)) ->
            Step pre data e ex -> exists segs', finished5 pre data e' segs' /\ e_symbols e' = e_symbols e) as NEXT.
  { intros ex len X HX EX (SY & ST). rewrite EX in HX.
    assert (exists n1, main_loop f ex n1 = Ok e') as (n1 & M1).
    { destruct (length (e_cw ex) <? len)%nat; [discriminate|]. destruct (length (e_cw ex) - len <=? 1)%nat; [destruct (5 <? nwr + 1); [discriminate|]|]; eexists; exact HX. }
    clear HX EX. destruct ST as [(segs1 & G1)|[(segs1 & FC & FM & FD & FE)|(segs1 & PC & PM & (init & last_ & -> & PI & PT) & PA & PP & PN & PO & PS)]].
    - destruct (IH ex n1 segs1 e' G1 M1) as (segs' & F & ES). exists segs'. split; [exact F|congruence].
    - destruct f as [|f']; cbn [main_loop] in M1; [discriminate|]. rewrite (has_more_nil ex FD) in M1. cbn [negb] in M1. inversion M1; subst e'.
      exists segs1. split; [|exact SY]. split; [exact FC|]. split; [exact FM|]. split; [exact FD|]. right. left. exact FE.
    - destruct f as [|f']; cbn [main_loop] in M1; [discriminate|].
      assert (e_data ex <> []) as NDX by (intros Z; rewrite Z in PO; cbn in PO; rewrite andb_false_r in PO; discriminate).
      rewrite (has_more_cons ex NDX) in M1. cbn [negb] in M1. rewrite PN in M1. unfold mode_encode in M1. rewrite PA in M1.
      destruct (ascii_last ex PA PP PO (length (e_data ex))) as (i & B1 & B2 & B3 & AE). rewrite AE in M1. cbn [bind] in M1.
      set (e2 := mkenc [] (e_input ex) Ascii [(0, Ascii)] (e_new_mode ex) (e_cw ex ++ aitem_cw i) (e_modes ex) (e_symbols ex)) in *.
      assert (exists n2, main_loop f' e2 n2 = Ok e') as (n2 & M2).
      { revert M1. destruct (length (e_cw e2) <? _)%nat; [intros ZZ; discriminate ZZ|]. destruct (length (e_cw e2) - _ <=? 1)%nat; [destruct (5 <? n1 + 1); [intros ZZ; discriminate ZZ|]|]; intros M1; eexists; exact M1. }
      destruct f' as [|f'']; cbn [main_loop] in M2; [discriminate|]. change (has_more e2) with false in M2. cbn [negb] in M2. inversion M2; subst e'.
      exists (init ++ [last_; SAscii [i]]). split; [|exact SY].
      assert (length (aitem_cw i) = 1%nat) as L1 by (destruct i; [reflexivity|reflexivity|discriminate]).
      split.
      { cbn [e_cw e2]. change (init ++ [last_; SAscii [i]]) with (init ++ [last_] ++ [SAscii [i]]). rewrite app_assoc, render_snoc, (app_assoc pre), <- PC.
        cbn [segment_cw flat_map]. rewrite !app_nil_r. reflexivity. }
      split.
      { change (init ++ [last_; SAscii [i]]) with (init ++ [last_] ++ [SAscii [i]]). rewrite app_assoc, meaning_snoc. cbn [segment_data flat_map]. rewrite app_nil_r, B3. exact PM. }
      split; [reflexivity|]. right. right. exists init, last_, i. split; [reflexivity|]. split; [exact PI|]. split; [exact PT|]. split; [exact B1|]. split; [exact B2|].
      unfold symbol_size_left in PS. destruct (symbol_for ex 1) as [s|] eqn:SF; [|discriminate].
      apply (full_plus true ex e2 1 s); [unfold symbol_size_left; rewrite SF; exact PS|exact SF|reflexivity|unfold cw_len; cbn [e_cw e2]; rewrite app_length, L1; lia]. }
  destruct M5e as [EE|[EE|[EE|[EE|EE]]]]; rewrite EE in NMe.
  - (* Ascii *)
    assert (e_new_mode e = None) as NM by (rewrite NMe; reflexivity). rewrite NM in H. unfold mode_encode in H. rewrite EE in H.
    destruct (ascii_encode (S (S (length (e_data e)))) e) as [ex| |] eqn:AE; cbn [bind] in H; try discriminate.
    apply (NEXT ex _ _ H eq_refl). apply (step_ascii pre data e segs ex HG OKE EE AE).
  - (* Base256 *)
    assert (e_new_mode e = Some 231) as NM by (rewrite NMe; reflexivity). rewrite NM in H.
    set (el := push (mkenc (e_data e) (e_input e) (e_encodation e) (e_planned e) None (e_cw e) (e_modes e) (e_symbols e)) 231) in *.
    unfold mode_encode in H. cbn [e_encodation el push set_cw] in H. rewrite EE in H.
    destruct (base256_encode el) as [ex| |] eqn:XE; cbn [bind] in H; try discriminate.
    apply (NEXT ex _ _ H eq_refl). apply (step_b256 pre data e segs ex HG OKE ND EE XE).
  - (* X12 *)
    assert (e_new_mode e = Some 238) as NM by (rewrite NMe; reflexivity). rewrite NM in H.
    set (el := push (mkenc (e_data e) (e_input e) (e_encodation e) (e_planned e) None (e_cw e) (e_modes e) (e_symbols e)) 238) in *.
    unfold mode_encode in H. cbn [e_encodation el push set_cw] in H. rewrite EE in H.
    destruct (x12_encode el) as [ex| |] eqn:XE; cbn [bind] in H; try discriminate.
    apply (NEXT ex _ _ H eq_refl). apply (step_x12 pre data e segs ex HG EE XE).
  - (* C40 *)
    assert (e_new_mode e = Some 230) as NM by (rewrite NMe; reflexivity). rewrite NM in H.
    set (el := push (mkenc (e_data e) (e_input e) (e_encodation e) (e_planned e) None (e_cw e) (e_modes e) (e_symbols e)) 230) in *.
    unfold mode_encode in H. cbn [e_encodation el push set_cw] in H. rewrite EE in H.
    destruct (c40_encode false el) as [ex| |] eqn:XE; cbn [bind] in H; try discriminate.
    apply (NEXT ex _ _ H eq_refl). apply (step_c40 false pre data e segs ex HG OKE EE XE).
  - (* Text *)
    assert (e_new_mode e = Some 239) as NM by (rewrite NMe; reflexivity). rewrite NM in H.
    set (el := push (mkenc (e_data e) (e_input e) (e_encodation e) (e_planned e) None (e_cw e) (e_modes e) (e_symbols e)) 239) in *.
    unfold mode_encode in H. cbn [e_encodation el push set_cw] in H. rewrite EE in H.
    destruct (c40_encode true el) as [ex| |] eqn:XE; cbn [bind] in H; try discriminate.
    apply (NEXT ex _ _ H eq_refl). apply (step_c40 true pre data e segs ex HG OKE EE XE).
Qed.

(* ---- legality of the scripts, and the theorem ---- *)
Lemma script_ok5_app init tail_ npad : Forall seg5 init -> script_ok tail_ npad = true -> script_ok (init ++ tail_) npad = true.
Proof.
  induction 1 as [|s r Hs Hr IH]; intros OK; [exact OK|]. specialize (IH OK).
  destruct s as [items|run| |t cs f tm|chars tm|]; try contradiction; cbn [app script_ok term_of]; cbn [seg5] in Hs.
  - cbn [segment_ok]. rewrite Hs, IH. reflexivity.
  - rewrite Hs, IH. reflexivity.
  - destruct tm; [|contradiction]. rewrite Hs, IH. reflexivity.
  - destruct tm; [|contradiction]. rewrite Hs, IH. reflexivity.
Qed.

Definition seg_no_edi (s : segment) : Prop := match s with SEdifact _ _ => False | _ => True end.
Lemma seg5_no_edi l : Forall seg5 l -> Forall seg_no_edi l.
Proof. apply Forall_impl. intros s. destruct s; cbn; auto. Qed.
Lemma endseg_no_edi s : endseg s -> seg_no_edi s.
Proof. destruct s; cbn; auto. Qed.

Lemma script_ok_end last_ : endseg last_ -> script_ok [last_] 0 = true.
Proof.
  destruct last_ as [| |run|t cs f tm|chars tm|]; cbn [endseg tseg]; try contradiction.
  - intros H. cbn [script_ok segment_ok]. rewrite H. reflexivity.
  - destruct tm; [contradiction|]. intros H. cbn [script_ok term_of]. rewrite H. reflexivity.
  - destruct tm; [contradiction|]. intros H. cbn [script_ok term_of]. rewrite H. reflexivity.
Qed.
Lemma script_ok_end2 last_ i : tseg last_ -> aitem_ok i = true -> single_cw i = true -> script_ok [last_; SAscii [i]] 0 = true.
Proof.
  intros T A1 A2. assert (length (aitem_cw i) = 1%nat) as L1 by (destruct i; [reflexivity|reflexivity|discriminate]).
  assert (ends_symbol [SAscii [i]] 0 = true) as ES.
  { unfold ends_symbol, rest_len. cbn [render segment_cw flat_map]. cbv zeta. rewrite !app_nil_r, L1, A1, A2. reflexivity. }
  destruct last_ as [| | |t cs f tm|chars tm|]; cbn [tseg] in T; try contradiction; (destruct tm; [contradiction|]);
    cbn [script_ok term_of]; rewrite T, ES; cbn [segment_ok forallb andb]; rewrite A1; reflexivity.
Qed.

Section Plans5.
Variable optimize_fn : list N -> N -> list SymbolSize -> N -> PR (option (list (N * EncodationType))).
Variables (symbols : list SymbolSize) (modes : N).

Lemma codewords5 (pre d : list N) cw s :
  (forall p, optimize_fn d (N.of_nat (length pre)) symbols modes = Ok (Some p) -> P5 p) -> bytes_ok d = true ->
  codewords optimize_fn (mkenc d d Ascii [] None pre modes symbols) = Ok (cw, s) ->
  exists script npad, script_ok script npad = true /\ cw = pre ++ tailS (N.of_nat (length pre)) script npad /\ meaning script = d /\ Forall seg_no_edi script.
Proof.
  intros plans5 OK. unfold codewords.
  cbn [e_symbols e_data e_modes e_input e_encodation e_new_mode e_cw].
  destruct symbols as [|s0 sr] eqn:ES; [discriminate|]. rewrite <- ES in *.
  destruct (_ <? _); [discriminate|]. destruct (upper_limit_for_number_of_codewords _ _); [|discriminate].
  change (cw_len (mkenc d d Ascii [] None pre modes symbols)) with (N.of_nat (length pre)).
  destruct (optimize_fn d (N.of_nat (length pre)) symbols modes) as [p| |] eqn:EO; cbn [bind lift]; try discriminate.
  destruct p as [p|]; [|discriminate]. pose proof (plans5 p eq_refl) as PA.
  destruct (main_loop _ _ 0) as [e3| |] eqn:ML; cbn [bind]; try discriminate.
  destruct (symbol_for e3 0) as [s'|] eqn:FF; [|discriminate].
  destruct (add_padding e3 s') as [e4| |] eqn:AP; cbn [bind]; try discriminate. intros [= <- <-].
  apply add_padding_spec in AP. destruct AP as (LE & C4 & _).
  destruct (main_loop5 pre d OK (6 * length d + 12)%nat (mkenc d d Ascii p None pre modes symbols) 0 [] e3)
    as (segs & (FC & FM & FD & FE) & _); [|exact ML|].
  { split; [cbn [e_cw render]; rewrite app_nil_r; reflexivity|]. split; [reflexivity|]. split; [constructor|]. split; [exact PA|]. split; [exists []; reflexivity|].
    apply MS5_ascii; reflexivity. }
  assert (full e3 -> e_cw e4 = pre ++ tailS (N.of_nat (length pre)) segs 0) as FULLC.
  { intros (sx & SF & FU). rewrite SF in FF. inversion FF; subst sx. rewrite FU, N.sub_diag in C4. rewrite padding_zero, app_nil_r in C4.
    rewrite C4, FC. unfold tailS. cbv zeta. cbn [pad]. rewrite app_nil_r. reflexivity. }
  destruct FE as [(AX & FA)|[(init & last_ & -> & AX & EL & FU)|(init & last_ & i & -> & AX & TL & A1 & A2 & FU)]].
  - exists segs, (N.to_nat (num_data_codewords s' - cw_len e3)). split; [|split; [|split; [exact FM|apply seg5_no_edi; exact AX]]].
    + rewrite <- (app_nil_r segs). apply script_ok5_app; [exact AX|reflexivity].
    + rewrite FA in C4. rewrite (proj2 (N.eqb_eq _ _) eq_refl : et_eqb Ascii Ascii = true) in C4. rewrite padding_pad in C4.
      rewrite C4, FC. unfold tailS, cw_len. cbv zeta. rewrite FC, <- app_assoc, app_length, Nat2N.inj_add. reflexivity.
  - exists (init ++ [last_]), 0%nat. split; [apply script_ok5_app; [exact AX|apply script_ok_end; exact EL]|].
    split; [exact (FULLC FU)|]. split; [exact FM|]. apply Forall_app. split; [apply seg5_no_edi; exact AX|constructor; [apply endseg_no_edi; exact EL|constructor]].
  - exists (init ++ [last_; SAscii [i]]), 0%nat. split; [apply script_ok5_app; [exact AX|apply script_ok_end2; assumption]|].
    split; [exact (FULLC FU)|]. split; [exact FM|]. apply Forall_app. split; [apply seg5_no_edi; exact AX|].
    constructor; [apply endseg_no_edi; unfold endseg; destruct last_; try contradiction; exact TL|constructor; [exact I|constructor]].
Qed.

Variable data : list N.
Hypothesis plans5 : forall p, optimize_fn data 0 symbols modes = Ok (Some p) -> P5 p.

Theorem plan5_roundtrip cw s : bytes_ok data = true ->
  encode_data_internal optimize_fn data symbols None modes false false = Ok (cw, s) ->
  (exists script npad, script_ok script npad = true /\ cw = stream script npad /\ meaning script = data /\ Forall seg_no_edi script) /\
  decode_data cw = Ok data.
Proof.
  intros OK H.
  assert (exists script npad, script_ok script npad = true /\ cw = stream script npad /\ meaning script = data /\ Forall seg_no_edi script) as (script & npad & SO & CW & ME & SH).
  2:{ split; [exists script, npad; auto|]. rewrite CW, (decode_script _ _ SO), ME. reflexivity. }
  revert H. unfold encode_data_internal. cbv zeta. cbn [bind]. intros H.
  destruct (codewords5 [] data cw s plans5 OK H) as (script & npad & SO & CW & ME & SH).
  exists script, npad. split; [exact SO|split; [|split; [exact ME|exact SH]]]. rewrite CW. unfold stream, tailS. cbn [app length]. rewrite N.add_0_l. reflexivity.
Qed.

(* the same with a Macro 05 / 06 envelope or an FNC1 start: one header codeword, then the body *)
Theorem macro_plan5_roundtrip msg body m head cw s :
  (forall p, optimize_fn body 1 symbols modes = Ok (Some p) -> P5 p) -> bytes_ok body = true ->
  (m = MACRO05 /\ head = MACRO05_HEAD) \/ (m = MACRO06 /\ head = MACRO06_HEAD) ->
  msg = head ++ body ++ MACRO_TRAIL ->
  encode_data_internal optimize_fn msg symbols None modes true false = Ok (cw, s) ->
  (exists script npad, script_ok script npad = true /\ cw = stream_with m script npad /\ meaning script = body /\ Forall seg_no_edi script) /\
  decode_data cw = Ok msg.
Proof.
  intros HP OK HM HD H.
  assert (exists script npad, script_ok script npad = true /\ cw = stream_with m script npad /\ meaning script = body /\ Forall seg_no_edi script) as (script & npad & SO & CW & ME & SH).
  2:{ split; [exists script, npad; auto|]. rewrite CW, (decode_script_macro _ _ m head HM SO), ME, HD. reflexivity. }
  revert H. unfold encode_data_internal. cbv zeta.
  set (e0 := with_size msg symbols modes false).
  destruct (use_macro_spec e0) as (e1 & UM & M5 & M6 & _). rewrite UM. cbn [bind].
  assert (e1 = strip_to e0 body m) as ->.
  { destruct HM as [[-> ->]|[-> ->]]; [apply M5|apply M6]; try reflexivity; unfold enveloped; exact HD. }
  unfold strip_to, e0, with_size. cbn [e_encodation e_planned e_new_mode e_cw e_modes e_symbols app]. intros H.
  destruct (codewords5 [m] body cw s HP OK H) as (script & npad & SO & CW & ME & SH).
  exists script, npad. split; [exact SO|split; [exact CW|split; [exact ME|exact SH]]].
Qed.

Theorem fnc1_plan5_roundtrip msg use_macros cw s :
  (forall p, optimize_fn msg 1 symbols modes = Ok (Some p) -> P5 p) -> bytes_ok msg = true ->
  encode_data_internal optimize_fn msg symbols None modes use_macros true = Ok (cw, s) ->
  (exists script npad, script_ok script npad = true /\ cw = stream_with ascii_FNC1 script npad /\ meaning script = msg /\ Forall seg_no_edi script) /\
  decode_data cw = Ok msg.
Proof.
  intros HP OK H.
  assert (exists script npad, script_ok script npad = true /\ cw = stream_with ascii_FNC1 script npad /\ meaning script = msg /\ Forall seg_no_edi script) as (script & npad & SO & CW & ME & SH).
  2:{ split; [exists script, npad; auto|]. rewrite CW, (decode_script_fnc1 _ _ SO), ME. reflexivity. }
  revert H. unfold encode_data_internal. cbv zeta.
  set (um := if use_macros then _ else _).
  assert (um = Ok (with_size msg symbols modes true)) as -> by (unfold um; destruct use_macros; reflexivity).
  cbn [bind]. unfold with_size. intros H.
  destruct (codewords5 [ascii_FNC1] msg cw s HP OK H) as (script & npad & SO & CW & ME & SH).
  exists script, npad. split; [exact SO|split; [exact CW|split; [exact ME|exact SH]]].
Qed.
(* macros switched on (the default of the builder) and a message that is not an envelope: nothing is stripped *)
Theorem plain_plan5_roundtrip_macros_on msg cw s :
  (forall body, ~ enveloped MACRO05_HEAD msg body) -> (forall body, ~ enveloped MACRO06_HEAD msg body) ->
  (forall p, optimize_fn msg 0 symbols modes = Ok (Some p) -> P5 p) -> bytes_ok msg = true ->
  encode_data_internal optimize_fn msg symbols None modes true false = Ok (cw, s) ->
  (exists script npad, script_ok script npad = true /\ cw = stream script npad /\ meaning script = msg /\ Forall seg_no_edi script) /\
  decode_data cw = Ok msg.
Proof.
  intros N5 N6 HP OK H.
  assert (exists script npad, script_ok script npad = true /\ cw = stream script npad /\ meaning script = msg /\ Forall seg_no_edi script) as (script & npad & SO & CW & ME & SH).
  2:{ split; [exists script, npad; auto|]. rewrite CW, (decode_script _ _ SO), ME. reflexivity. }
  revert H. unfold encode_data_internal. cbv zeta.
  set (e0 := with_size msg symbols modes false).
  destruct (use_macro_spec e0) as (e1 & UM & _ & _ & NM). rewrite UM. cbn [bind].
  assert (e1 = e0) as ->.
  { apply NM. intros (_ & body & [E|E]); [exact (N5 body E)|exact (N6 body E)]. }
  unfold e0, with_size. intros H.
  destruct (codewords5 [] msg cw s HP OK H) as (script & npad & SO & CW & ME & SH).
  exists script, npad. split; [exact SO|split; [|split; [exact ME|exact SH]]]. rewrite CW. unfold stream, tailS. cbn [app length]. rewrite N.add_0_l. reflexivity.
Qed.
End Plans5.
Print Assumptions macro_plan5_roundtrip.

(* the condition on plans, as a test *)
Definition pe_okb (e : N * EncodationType) : bool :=
  match snd e with
  | Ascii => true
  | Edifact => false
  | _ => (2 <? fst e) || (fst e =? 0)
  end.
Definition p5b (p : list (N * EncodationType)) : bool := forallb pe_okb p.
Lemma p5b_P5 p : p5b p = true -> P5 p.
Proof.
  unfold p5b, P5. intros H. apply Forall_forall. intros [q m] Hx. pose proof (proj1 (forallb_forall _ _) H _ Hx) as T. unfold pe_okb in T. cbn [snd fst] in T.
  unfold pe_ok, m5. cbn [snd fst]. destruct m; try discriminate.
  - split; [left; reflexivity|intros X; contradiction].
  - split; [right; right; right; left; reflexivity|]. intros _. apply orb_true_iff in T. destruct T as [T|T]; [left; apply N.ltb_lt; exact T|right; apply N.eqb_eq; exact T].
  - split; [right; right; right; right; reflexivity|]. intros _. apply orb_true_iff in T. destruct T as [T|T]; [left; apply N.ltb_lt; exact T|right; apply N.eqb_eq; exact T].
  - split; [right; right; left; reflexivity|]. intros _. apply orb_true_iff in T. destruct T as [T|T]; [left; apply N.ltb_lt; exact T|right; apply N.eqb_eq; exact T].
  - split; [right; left; reflexivity|]. intros _. apply orb_true_iff in T. destruct T as [T|T]; [left; apply N.ltb_lt; exact T|right; apply N.eqb_eq; exact T].
Qed.
