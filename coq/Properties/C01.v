(* Properties/C01.v -- Encode -> symbol -> decode returns exactly the original bytes (what is a theorem so far). *)
From Coq Require Import Arith ZArith NArith List Bool.
From DM Require Import Spec.Stream16022 Proofs.EncAB Proofs.EncAscii Proofs.PlanAscii Proofs.EncB256 Model.Planner Generated.Symbols Generated.ModeTables Model.PlannerRun Spec.GF256 Model.Outcome Model.SymbolList Model.RSEnc Model.Dec Model.Enc Model.Api
  Proofs.Pipeline Proofs.EncAX Proofs.EncAC Proofs.EncMulti.
Import ListNotations.

(* Symbol layer (full): for every size, whatever data codewords the data encoder produced (any byte vector of
   the symbol's capacity), rendering the symbol from data + error codewords -- placement, fixed corner pattern,
   finder/clock/alignment pattern -- and decoding the pixels -- strict parsing, placement read-out, error
   correction -- yields exactly what decoding the data codewords directly yields.  Hence the two observation
   routes of the property (DataMatrix::decode on the bitmap, data::decode_data on data_codewords()) agree for
   every input and configuration. *)
Theorem C01_symbol_layer : forall s d e,
  length d = N.to_nat (num_data_codewords s) -> Forall byte d -> encode_error s d = Ok e ->
  exists bits, dm_bitmap s (d ++ e) = Ok (width s, bits) /\
               length bits = N.to_nat (height s * width s) /\
               dm_decode bits (width s) = lift_dec (decode_data d).
Proof. exact symbol_roundtrip. Qed.
Print Assumptions C01_symbol_layer.

(* the same, phrased on the result of the encoding API of the model *)
Theorem C01_routes_agree : forall sorter data symbols modes macros fnc1 eci s dcw cw,
  encode_eci sorter data symbols modes macros fnc1 eci = Ok (s, dcw, cw) ->
  length dcw = N.to_nat (num_data_codewords s) -> Forall byte dcw ->
  exists bits, dm_bitmap s cw = Ok (width s, bits) /\ dm_decode bits (width s) = lift_dec (decode_data dcw).
Proof.
  intros sorter data symbols modes macros fnc1 eci s dcw cw H L B. unfold encode_eci in H.
  destruct (encode_data_internal _ data symbols eci modes macros fnc1) as [[c sz]| |]; cbn [bind] in H; try discriminate.
  destruct (encode_error sz c) as [ecc| |] eqn:EE; try discriminate. inversion H; subst.
  destruct (symbol_roundtrip s dcw ecc L B EE) as (bits & A1 & _ & A3). exists bits. split; assumption.
Qed.
Print Assumptions C01_routes_agree.

(* Data layer, first full case: whenever the planner's answer is "stay in ASCII" (the plan [(0, Ascii)]) -- e.g. the
   answer of the crate's planner when only ASCII is enabled, see the Example -- then for EVERY byte string and symbol
   list the data codewords are the rendering of a legal script of Spec/Stream16022.v and decode back to the input
   (encoder theorem Proofs/EncAscii.v composed with the decoder theorem C04). *)
Theorem C01_ascii_plan_roundtrip : forall optimize_fn data symbols modes cw s,
  optimize_fn data 0 symbols modes = Ok (Some [(0, Ascii)]) -> bytes_ok data = true ->
  encode_data_internal optimize_fn data symbols None modes false false = Ok (cw, s) ->
  decode_data cw = Ok data.
Proof. intros o d sy m cw s HP OK H. exact (proj2 (ascii_plan_roundtrip o d sy m cw s HP OK H)). Qed.
Print Assumptions C01_ascii_plan_roundtrip.

Example C01_ascii_plan_example :
  optimize_fn stable_sorter [72; 105; 49; 50; 51; 200] 0 sl_default 1 = Ok (Some [(0, Ascii)]).
Proof. vm_compute. reflexivity. Qed.

(* ... and unconditionally for the ASCII-only configuration: with only the ASCII mode enabled the optimiser can only
   answer "stay in ASCII" (Proofs/PlanAscii.v, for every sort that returns elements of its input), so for every byte
   string, every symbol list and every such sort the data codewords decode back to the input *)
Theorem C01_ascii_only_roundtrip : forall sorter data symbols cw s,
  (forall k l l', sorter symbols k l = Ok l' -> incl l' l) -> bytes_ok data = true ->
  encode_data_internal (optimize_fn sorter) data symbols None 1 false false = Ok (cw, s) ->
  decode_data cw = Ok data.
Proof. intros so d sy cw s HS OK H. exact (proj2 (ascii_only_roundtrip so d sy cw s HS OK H)). Qed.
Print Assumptions C01_ascii_only_roundtrip.

(* ... and for the Base256-only configuration (ASCII disabled): the optimiser can only answer "Base256 from the first
   character to the end" (Proofs/PlanB256.v), under which the encoder writes latch, length field (one or two
   codewords, or 0 when the run fills the symbol exactly), the bytes, all randomised in place, then padding *)
Theorem C01_base256_only_roundtrip : forall sorter data symbols cw s,
  (forall k l l', sorter symbols k l = Ok l' -> incl l' l) -> bytes_ok data = true ->
  encode_data_internal (optimize_fn sorter) data symbols None 32 false false = Ok (cw, s) ->
  decode_data cw = Ok data.
Proof. intros so d sy cw s HS OK H. exact (proj2 (b256_only_roundtrip so d sy cw s HS OK H)). Qed.
Print Assumptions C01_base256_only_roundtrip.

(* ... and for EVERY plan that uses only ASCII and Base256, whatever its switch positions (the plan is not characterised,
   only its modes): ASCII runs up to each planned switch, Base256 fields with their in-place randomised length field,
   the last field written in the run-to-the-end form exactly when it fills the symbol.  With the crate's optimiser this
   covers every mode set within {ASCII, Base256} (its plans name enabled modes only, C13), in particular the
   "binary-safe" configuration {ASCII, Base256} *)
Theorem C01_ab_plan_roundtrip : forall optimize_fn data symbols modes cw s,
  (forall p, optimize_fn data 0 symbols modes = Ok (Some p) -> Forall (fun e => snd e = Ascii \/ snd e = Base256) p) ->
  bytes_ok data = true ->
  encode_data_internal optimize_fn data symbols None modes false false = Ok (cw, s) ->
  decode_data cw = Ok data.
Proof. intros o d sy m cw s HP OK H. exact (proj2 (ab_plan_roundtrip o sy m d HP cw s OK H)). Qed.
Print Assumptions C01_ab_plan_roundtrip.

Theorem C01_ascii_base256_roundtrip : forall sorter data symbols cw s,
  (forall k l l', sorter symbols k l = Ok l' -> incl l' l) -> bytes_ok data = true ->
  encode_data_internal (optimize_fn sorter) data symbols None 33 false false = Ok (cw, s) ->
  decode_data cw = Ok data.
Proof. intros so d sy cw s HS OK H. exact (proj2 (ascii_base256_roundtrip so d sy cw s HS OK H)). Qed.
Print Assumptions C01_ascii_base256_roundtrip.

(* ... and behind a Macro 05 / 06 codeword or an FNC1 start: the decoder returns the whole message *)
Theorem C01_macro_ab_roundtrip : forall sorter data symbols modes body m head cw s,
  (forall k l l', sorter symbols k l = Ok l' -> incl l' l) ->
  (forall mo, enabled modes mo = true -> mo = Ascii \/ mo = Base256) -> bytes_ok body = true ->
  (m = 236 /\ head = MACRO05_HEAD) \/ (m = 237 /\ head = MACRO06_HEAD) -> data = head ++ body ++ MACRO_TRAIL ->
  encode_data_internal (optimize_fn sorter) data symbols None modes true false = Ok (cw, s) ->
  decode_data cw = Ok data.
Proof. intros so d sy mo b m h cw s HS HM OK HH HD H. exact (proj2 (macro_ab_roundtrip so d sy mo b m h cw s HS HM OK HH HD H)). Qed.
Print Assumptions C01_macro_ab_roundtrip.

Theorem C01_fnc1_ab_roundtrip : forall sorter data symbols modes use_macros cw s,
  (forall k l l', sorter symbols k l = Ok l' -> incl l' l) ->
  (forall mo, enabled modes mo = true -> mo = Ascii \/ mo = Base256) -> bytes_ok data = true ->
  encode_data_internal (optimize_fn sorter) data symbols None modes use_macros true = Ok (cw, s) ->
  decode_data cw = Ok data.
Proof. intros so d sy mo um cw s HS HM OK H. exact (proj2 (fnc1_ab_roundtrip so d sy mo um cw s HS HM OK H)). Qed.
Print Assumptions C01_fnc1_ab_roundtrip.

(* ... and for EVERY plan that uses only ASCII and X12, whatever its switch positions: X12 runs of whole triples with their
   Unlatch; the last run ends the symbol without Unlatch exactly when nothing or one ASCII-encoded codeword follows and the
   symbol is then full (the encoder's decision is taken on the symbol that is finally chosen: Proofs/EncAX.v).  With the
   crate's optimiser this covers the mode sets {X12} and {ASCII, X12}, with a Macro 05/06 envelope or an FNC1 start as well *)
Theorem C01_ax_plan_roundtrip : forall optimize_fn data symbols modes cw s,
  (forall p, optimize_fn data 0 symbols modes = Ok (Some p) -> Forall (fun e => snd e = Ascii \/ snd e = X12) p) ->
  bytes_ok data = true ->
  encode_data_internal optimize_fn data symbols None modes false false = Ok (cw, s) ->
  decode_data cw = Ok data.
Proof. intros o d sy m cw s HP OK H. exact (proj2 (ax_plan_roundtrip o sy m d HP cw s OK H)). Qed.
Print Assumptions C01_ax_plan_roundtrip.

Theorem C01_ax_modes_roundtrip : forall sorter data symbols modes cw s,
  (forall k l l', sorter symbols k l = Ok l' -> incl l' l) ->
  (forall mo, enabled modes mo = true -> mo = Ascii \/ mo = X12) -> bytes_ok data = true ->
  encode_data_internal (optimize_fn sorter) data symbols None modes false false = Ok (cw, s) ->
  decode_data cw = Ok data.
Proof. intros so d sy mo cw s HS HM OK H. exact (proj2 (ax_modes_roundtrip so d sy mo cw s HS HM OK H)). Qed.
Print Assumptions C01_ax_modes_roundtrip.

Theorem C01_macro_ax_roundtrip : forall sorter data symbols modes body m head cw s,
  (forall k l l', sorter symbols k l = Ok l' -> incl l' l) ->
  (forall mo, enabled modes mo = true -> mo = Ascii \/ mo = X12) -> bytes_ok body = true ->
  (m = MACRO05 /\ head = MACRO05_HEAD) \/ (m = MACRO06 /\ head = MACRO06_HEAD) ->
  data = head ++ body ++ MACRO_TRAIL ->
  encode_data_internal (optimize_fn sorter) data symbols None modes true false = Ok (cw, s) ->
  decode_data cw = Ok data.
Proof. intros so d sy mo b m h cw s HS HM OK HH HD H. exact (proj2 (macro_ax_roundtrip so d sy mo b m h cw s HS HM OK HH HD H)). Qed.
Print Assumptions C01_macro_ax_roundtrip.

Theorem C01_fnc1_ax_roundtrip : forall sorter data symbols modes use_macros cw s,
  (forall k l l', sorter symbols k l = Ok l' -> incl l' l) ->
  (forall mo, enabled modes mo = true -> mo = Ascii \/ mo = X12) -> bytes_ok data = true ->
  encode_data_internal (optimize_fn sorter) data symbols None modes use_macros true = Ok (cw, s) ->
  decode_data cw = Ok data.
Proof. intros so d sy mo um cw s HS HM OK H. exact (proj2 (fnc1_ax_roundtrip so d sy mo um cw s HS HM OK H)). Qed.
Print Assumptions C01_fnc1_ax_roundtrip.

(* ... and for EVERY plan that uses only ASCII and C40 (text = false), or only ASCII and Text (text = true), whatever its switch
   positions: the values pending at the end of a run are flushed with Shift 2 / Upper Shift padding or, in the standard's
   end-of-data cases, handed back to ASCII, which leaves the already written shift values of the last character behind as a
   legal fill; a run ends the symbol without Unlatch exactly when nothing or one ASCII-encoded codeword follows and the symbol
   is then full (Proofs/EncAC.v).  With the crate's optimiser this covers the mode sets {C40}, {ASCII, C40}, {Text},
   {ASCII, Text}, with a Macro 05/06 envelope or an FNC1 start as well *)
Theorem C01_ac_plan_roundtrip : forall (text : bool) optimize_fn data symbols modes cw s,
  (forall p, optimize_fn data 0 symbols modes = Ok (Some p) -> Forall (fun e => snd e = Ascii \/ snd e = (if text then Text else C40)) p) ->
  bytes_ok data = true ->
  encode_data_internal optimize_fn data symbols None modes false false = Ok (cw, s) ->
  decode_data cw = Ok data.
Proof. intros t o d sy m cw s HP OK H. exact (proj2 (ac_plan_roundtrip t o sy m d HP cw s OK H)). Qed.
Print Assumptions C01_ac_plan_roundtrip.

(* the plan-level theorems (C01_ab_plan_roundtrip, C01_ax_plan_roundtrip, C01_ac_plan_roundtrip) speak about ANY planner and ANY mode set: whenever the
   plan chosen for an input uses, beside ASCII, only Base256, only X12, only C40 or only Text -- which is what the optimiser returns for most inputs of one
   kind under the default configuration too --, the round trip of that input is an instance of a theorem *)
Theorem C01_ac_modes_roundtrip : forall (text : bool) sorter data symbols modes cw s,
  (forall k l l', sorter symbols k l = Ok l' -> incl l' l) ->
  (forall mo, enabled modes mo = true -> mo = Ascii \/ mo = (if text then Text else C40)) -> bytes_ok data = true ->
  encode_data_internal (optimize_fn sorter) data symbols None modes false false = Ok (cw, s) ->
  decode_data cw = Ok data.
Proof. intros t so d sy mo cw s HS HM OK H. exact (proj2 (ac_modes_roundtrip t so d sy mo cw s HS HM OK H)). Qed.
Print Assumptions C01_ac_modes_roundtrip.

Theorem C01_macro_ac_roundtrip : forall (text : bool) sorter data symbols modes body m head cw s,
  (forall k l l', sorter symbols k l = Ok l' -> incl l' l) ->
  (forall mo, enabled modes mo = true -> mo = Ascii \/ mo = (if text then Text else C40)) -> bytes_ok body = true ->
  (m = MACRO05 /\ head = MACRO05_HEAD) \/ (m = MACRO06 /\ head = MACRO06_HEAD) ->
  data = head ++ body ++ MACRO_TRAIL ->
  encode_data_internal (optimize_fn sorter) data symbols None modes true false = Ok (cw, s) ->
  decode_data cw = Ok data.
Proof. intros t so d sy mo b m h cw s HS HM OK HH HD H. exact (proj2 (macro_ac_roundtrip t so d sy mo b m h cw s HS HM OK HH HD H)). Qed.
Print Assumptions C01_macro_ac_roundtrip.

Theorem C01_fnc1_ac_roundtrip : forall (text : bool) sorter data symbols modes use_macros cw s,
  (forall k l l', sorter symbols k l = Ok l' -> incl l' l) ->
  (forall mo, enabled modes mo = true -> mo = Ascii \/ mo = (if text then Text else C40)) -> bytes_ok data = true ->
  encode_data_internal (optimize_fn sorter) data symbols None modes use_macros true = Ok (cw, s) ->
  decode_data cw = Ok data.
Proof. intros t so d sy mo um cw s HS HM OK H. exact (proj2 (fnc1_ac_roundtrip t so d sy mo um cw s HS HM OK H)). Qed.
Print Assumptions C01_fnc1_ac_roundtrip.


(* non-vacuity: with {ASCII, Base256} the optimiser really mixes the two (ASCII, a Base256 field, ASCII digits) *)
Example C01_ascii_base256_example :
  optimize_fn stable_sorter [72; 105; 200; 201; 202; 203; 204; 49; 50; 51; 52] 0 sl_default 33
    = Ok (Some [(11, Base256); (4, Ascii); (0, Ascii)]).
Proof. vm_compute. reflexivity. Qed.

(* NOT a theorem for the other plans: decode_data (data codewords of encode) = Ok input under arbitrary plans of the
   optimiser (the encoder side of C02 for C40/Text/X12/EDIFACT/Base256 runs).  The check evaluates it on every case:
   encode, decode both ways, compare with the input. *)

(* ... and for plans that MIX ASCII, Base256, X12, C40 and Text -- everything but EDIFACT --, any planner, any mode set, hence the default
   configuration: if no non-ASCII run starts within the last two characters of the message (plan entries (p, m) mean "switch to m when p
   characters are left"; the closing entry at 0 is never acted upon), the round trip is a theorem.  The side condition keeps the end-of-data
   shortcuts of the X12 and C40 / Text encoders sound: they hand the last one or two characters to ASCII whatever the plan says, which is legal
   only if no latch for another mode has just been scheduled (Proofs/EncMulti.v).  `p5b` is the condition as a test; the check evaluates it on
   the plan of every generated case and counts how many are inside the theorem *)
Theorem C01_mixed_plan_roundtrip : forall optimize_fn data symbols modes cw s,
  (forall p, optimize_fn data 0 symbols modes = Ok (Some p) ->
     Forall (fun e => (snd e = Ascii \/ snd e = Base256 \/ snd e = X12 \/ snd e = C40 \/ snd e = Text) /\ (snd e <> Ascii -> 2 < fst e \/ fst e = 0)) p) ->
  bytes_ok data = true ->
  encode_data_internal optimize_fn data symbols None modes false false = Ok (cw, s) ->
  decode_data cw = Ok data.
Proof. intros o d sy m cw s HP OK H. exact (proj2 (plan5_roundtrip o sy m d HP cw s OK H)). Qed.
Print Assumptions C01_mixed_plan_roundtrip.

Theorem C01_mixed_plan_test : forall optimize_fn data symbols modes cw s,
  (forall p, optimize_fn data 0 symbols modes = Ok (Some p) -> p5b p = true) ->
  bytes_ok data = true ->
  encode_data_internal optimize_fn data symbols None modes false false = Ok (cw, s) ->
  decode_data cw = Ok data.
Proof. intros o d sy m cw s HP OK H. exact (proj2 (plan5_roundtrip o sy m d (fun p E => p5b_P5 p (HP p E)) cw s OK H)). Qed.
Print Assumptions C01_mixed_plan_test.

Theorem C01_mixed_plan_macro : forall optimize_fn symbols modes msg body m head cw s,
  (forall p, optimize_fn body 1 symbols modes = Ok (Some p) -> p5b p = true) -> bytes_ok body = true ->
  (m = MACRO05 /\ head = MACRO05_HEAD) \/ (m = MACRO06 /\ head = MACRO06_HEAD) ->
  msg = head ++ body ++ MACRO_TRAIL ->
  encode_data_internal optimize_fn msg symbols None modes true false = Ok (cw, s) ->
  decode_data cw = Ok msg.
Proof. intros o sy mo msg b m h cw s HP OK HM HD H. exact (proj2 (macro_plan5_roundtrip o sy mo msg b m h cw s (fun p E => p5b_P5 p (HP p E)) OK HM HD H)). Qed.
Print Assumptions C01_mixed_plan_macro.

Theorem C01_mixed_plan_fnc1 : forall optimize_fn symbols modes msg use_macros cw s,
  (forall p, optimize_fn msg 1 symbols modes = Ok (Some p) -> p5b p = true) -> bytes_ok msg = true ->
  encode_data_internal optimize_fn msg symbols None modes use_macros true = Ok (cw, s) ->
  decode_data cw = Ok msg.
Proof. intros o sy mo msg um cw s HP OK H. exact (proj2 (fnc1_plan5_roundtrip o sy mo msg um cw s (fun p E => p5b_P5 p (HP p E)) OK H)). Qed.
Print Assumptions C01_mixed_plan_fnc1.

(* the builder's default has macros switched on: for a message that is not a Macro 05/06 envelope nothing is stripped and the same holds;
   together with C01_mixed_plan_macro this covers `use_macros = true` whatever the message looks like *)
Theorem C01_mixed_plan_default_options : forall optimize_fn symbols modes msg cw s,
  (forall body, msg <> MACRO05_HEAD ++ body ++ MACRO_TRAIL) -> (forall body, msg <> MACRO06_HEAD ++ body ++ MACRO_TRAIL) ->
  (forall p, optimize_fn msg 0 symbols modes = Ok (Some p) -> p5b p = true) -> bytes_ok msg = true ->
  encode_data_internal optimize_fn msg symbols None modes true false = Ok (cw, s) ->
  decode_data cw = Ok msg.
Proof. intros o sy mo msg cw s N5 N6 HP OK H. exact (proj2 (plain_plan5_roundtrip_macros_on o sy mo msg cw s N5 N6 (fun p E => p5b_P5 p (HP p E)) OK H)). Qed.
Print Assumptions C01_mixed_plan_default_options.

(* the default configuration on a message of mixed kind: the optimiser's plan uses Base256, X12 and Text, passes the test, and the theorem applies *)
Example C01_mixed_example :
  let d := [200; 201; 202; 203; 204; 205; 206; 207; 65; 66; 67; 68; 69; 70; 71; 72; 73; 74; 75; 76; 32; 65; 66; 67; 97; 98; 99; 100; 101; 102; 103; 104; 105; 106; 107; 108; 109; 110; 111; 33; 34] in
  optimize_fn stable_sorter d 0 sl_default 63 = Ok (Some [(41, Base256); (33, X12); (18, Ascii); (17, Text); (2, Ascii); (0, Ascii)]) /\
  p5b [(41, Base256); (33, X12); (18, Ascii); (17, Text); (2, Ascii); (0, Ascii)] = true /\
  match encode_data_internal (optimize_fn stable_sorter) d sl_default None 63 false false with
  | Ok (cw, _) => decode_data cw = Ok d | _ => False end.
Proof. vm_compute. repeat split. Qed.

(* the hypotheses of the theorems for {ASCII, X12}, {ASCII, C40} and {ASCII, Text} are satisfiable, and the runs they speak about occur:
   plans that really switch into the second mode, streams with its latch, the round trip *)
Example C01_ax_ac_examples :
  (match encode_data_internal (optimize_fn stable_sorter) [65; 66; 67; 49; 50; 51; 65; 66; 67; 13; 42; 62; 104; 105] sl_default None 9 false false with
   | Ok (cw, _) => In 238 cw /\ decode_data cw = Ok [65; 66; 67; 49; 50; 51; 65; 66; 67; 13; 42; 62; 104; 105] | _ => False end) /\
  (match encode_data_internal (optimize_fn stable_sorter) [65; 66; 67; 68; 69; 70; 71; 72; 73; 74; 32; 75; 76; 77; 200] sl_default None 3 false false with
   | Ok (cw, _) => In 230 cw /\ decode_data cw = Ok [65; 66; 67; 68; 69; 70; 71; 72; 73; 74; 32; 75; 76; 77; 200] | _ => False end) /\
  (match encode_data_internal (optimize_fn stable_sorter) [97; 98; 99; 100; 101; 102; 103; 104; 105; 106; 32; 107; 108; 65] sl_default None 5 false false with
   | Ok (cw, _) => In 239 cw /\ decode_data cw = Ok [97; 98; 99; 100; 101; 102; 103; 104; 105; 106; 32; 107; 108; 65] | _ => False end).
Proof. vm_compute. repeat split; auto 20. Qed.
