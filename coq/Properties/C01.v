(* Properties/C01.v -- Encode -> symbol -> decode returns exactly the original bytes (what is a theorem so far). *)
From Coq Require Import Arith ZArith NArith List Bool.
From DM Require Import Generated.Symbols Spec.GF256 Model.Outcome Model.SymbolList Model.RSEnc Model.Dec Model.Enc Model.Api
  Proofs.Pipeline.
Import ListNotations.

(* Symbol layer (full): for every size, whatever data codewords the data encoder produced (any byte vector of
   the symbol's capacity), rendering the symbol from data + error codewords -- placement, fixed corner pattern,
   finder/clock/alignment pattern -- and decoding the pixels -- strict parsing, placement read-out, error
   correction -- yields exactly what decoding the data codewords directly yields.  Hence the two observation
   routes of the property (DataMatrix::decode on the bitmap, data::decode_data on data_codewords()) agree for
   every input and configuration. *)
Theorem C01_symbol_layer : forall s d e,
  length d = N.to_nat (num_data_codewords s) -> Forall byte d -> encode_error s d = Ok e ->
  exists bits, dm_bitmap s (d ++ e) = Ok (width s, bits) /\
               length bits = N.to_nat (height s * width s) /\
               dm_decode bits (width s) = lift_dec (decode_data d).
Proof. exact symbol_roundtrip. Qed.
Print Assumptions C01_symbol_layer.

(* the same, phrased on the result of the encoding API of the model *)
Theorem C01_routes_agree : forall sorter data symbols modes macros fnc1 eci s dcw cw,
  encode_eci sorter data symbols modes macros fnc1 eci = Ok (s, dcw, cw) ->
  length dcw = N.to_nat (num_data_codewords s) -> Forall byte dcw ->
  exists bits, dm_bitmap s cw = Ok (width s, bits) /\ dm_decode bits (width s) = lift_dec (decode_data dcw).
Proof.
  intros sorter data symbols modes macros fnc1 eci s dcw cw H L B. unfold encode_eci in H.
  destruct (encode_data_internal _ data symbols eci modes macros fnc1) as [[c sz]| |]; cbn [bind] in H; try discriminate.
  destruct (encode_error sz c) as [ecc| |] eqn:EE; try discriminate. inversion H; subst.
  destruct (symbol_roundtrip s dcw ecc L B EE) as (bits & A1 & _ & A3). exists bits. split; assumption.
Qed.
Print Assumptions C01_routes_agree.

(* NOT a theorem yet: the data layer, decode_data (data codewords of encode) = Ok input (properties C02 + C04
   composed).  The check evaluates it on every case: encode, decode both ways, compare with the input. *)
