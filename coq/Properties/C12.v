(* Properties/C12.v -- Symbol catalogue and symbol-list filters match the standards.
   Only statements, each closed by a lemma of Proofs/, with its axioms printed. *)
From Coq Require Import NArith List Bool Sorted.
From DM Require Import Generated.Symbols Spec.Table7 Model.SymbolList Proofs.SymbolListProofs.
Import ListNotations.
Open Scope N_scope.

(* (1) Every one of the 48 symbols is a row of ISO/IEC 16022 Table 7 or ISO/IEC 21471
   Table 1 with the same module dimensions, region layout, data/EC codeword counts and
   block count; DMRE flag, squareness and the left-over-corner flag agree with the tables. *)
Theorem C12_table : forall s, table_ok s = true.
Proof. exact (sweep _ table_sweep). Qed.
Print Assumptions C12_table.

Theorem C12_table_rows : forall s, In (attrs s) Table7.rows
  /\ (is_dmre s = true <-> In (attrs s) Table7.iso21471).
Proof.
  intros s. pose proof (C12_table s) as H. unfold table_ok in H.
  rewrite !andb_true_iff in H. destruct H as [[[[[[[[[H1 _] _] _] _] H2] _] _] _] _].
  split; [now apply in_rows_In|]. apply Bool.eqb_prop in H2. rewrite H2.
  split; [apply in_rows_In|]. intros Hin. unfold in_rows. apply existsb_exists.
  exists (attrs s). split; [assumption|]. destruct (attrs s); unfold row_eqb; cbn.
  now rewrite !N.eqb_refl.
Qed.
Print Assumptions C12_table_rows.

(* (2) pixel dimensions identify a size uniquely *)
Theorem C12_dims_injective : forall a b, (width a, height a) = (width b, height b) -> a = b.
Proof. exact dims_injective. Qed.
Print Assumptions C12_dims_injective.

(* the 48 symbols are 48 different rows: with (1) a bijection onto the standards' rows *)
Theorem C12_bijection : length all_variants = 48%nat /\ length Table7.rows = 48%nat /\
  forall a b, attrs a = attrs b -> a = b.
Proof.
  split; [reflexivity|split; [reflexivity|]]. intros a b H. apply dims_injective.
  unfold dims. unfold attrs in H. inversion H. congruence.
Qed.
Print Assumptions C12_bijection.

(* (3) default list = exactly the 30 sizes of ISO/IEC 16022, extended list = all 48 *)
Theorem C12_default : (forall s, In s sl_default <-> In (attrs s) Table7.iso16022)
  /\ (forall s, In s sl_all) /\ length sl_default = 30%nat /\ length sl_all = 48%nat
  /\ wf sl_default /\ wf sl_all.
Proof.
  split; [|split; [exact sl_all_elements|split; [apply sl_default_count|split; [apply sl_default_count|split; apply sl_from_iter_wf]]]].
  intros s. rewrite sl_default_elements.
  pose proof (C12_table s) as H. unfold table_ok in H. rewrite !andb_true_iff in H.
  destruct H as [[[[[[[[[_ _] _] _] _] _] H3] _] _] _]. apply Bool.eqb_prop in H3.
  split.
  - intros D. rewrite D in H3. cbn in H3. symmetry in H3. now apply in_rows_In.
  - intros Hin. assert (in_rows iso16022 (attrs s) = true) as E.
    { unfold in_rows. apply existsb_exists. exists (attrs s). split; [assumption|].
      destruct (attrs s); unfold row_eqb; cbn. now rewrite !N.eqb_refl. }
    rewrite E in H3. now apply negb_true_iff.
Qed.
Print Assumptions C12_default.

(* (4) the filters keep exactly the symbols satisfying the predicate, for every range
   (inclusive / exclusive / unbounded on either side) and every list; they compose *)
Theorem C12_filters : forall l lo hi s,
  (In s (enforce_width_in lo hi l) <-> In s l /\ range_contains lo hi (width s) = true) /\
  (In s (enforce_height_in lo hi l) <-> In s l /\ range_contains lo hi (height s) = true) /\
  (In s (enforce_square l) <-> In s l /\ height s = width s) /\
  (In s (enforce_rectangular l) <-> In s l /\ height s <> width s).
Proof.
  intros l lo hi s. unfold enforce_width_in, enforce_height_in, enforce_square, enforce_rectangular.
  rewrite !filter_In.
  pose proof (C12_table s) as H. unfold table_ok in H. rewrite !andb_true_iff in H.
  destruct H as [[[_ H4] _] _]. apply Bool.eqb_prop in H4.
  rewrite H4, negb_true_iff, N.eqb_eq, N.eqb_neq. tauto.
Qed.
Print Assumptions C12_filters.

Theorem C12_range_contains : forall lo hi x, range_contains lo hi x = true <->
  (match lo with Incl a => a <= x | Excl a => a < x | Unb => True end) /\
  (match hi with Incl b => x <= b | Excl b => x < b | Unb => True end).
Proof. exact range_contains_spec. Qed.
Print Assumptions C12_range_contains.

(* a SymbolList value is a strictly sorted duplicate-free list whatever white-list it was built
   from, filters keep it so, its elements are exactly the white-list's *)
Theorem C12_whitelist : forall l, wf (sl_from_iter l) /\ (forall s, In s (sl_from_iter l) <-> In s l).
Proof. intros l. split; [apply sl_from_iter_wf|intros s; apply sl_from_iter_In]. Qed.
Print Assumptions C12_whitelist.

Theorem C12_filters_wf : forall l lo hi, wf l ->
  wf (enforce_width_in lo hi l) /\ wf (enforce_height_in lo hi l) /\
  wf (enforce_square l) /\ wf (enforce_rectangular l).
Proof. intros l lo hi W. repeat split; apply filter_wf, W. Qed.
Print Assumptions C12_filters_wf.

(* (5) iteration is in order of non-decreasing data capacity; the order depends only on the set *)
Theorem C12_order : forall l, wf l ->
  StronglySorted (fun a b => num_data_codewords a <= num_data_codewords b) l.
Proof. exact wf_sorted_capacity. Qed.
Print Assumptions C12_order.

Theorem C12_order_canonical : forall l1 l2, wf l1 -> wf l2 -> (forall x, In x l1 <-> In x l2) -> l1 = l2.
Proof. exact wf_unique. Qed.
Print Assumptions C12_order_canonical.

(* (6) the symbol picked for an encoding is the first of that order that is large enough *)
Theorem C12_first_fit : forall l n s, wf l ->
  (first_symbol_big_enough_for l n = Some s <->
   In s l /\ n <= num_data_codewords s /\
   forall s', In s' l -> n <= num_data_codewords s' -> s' = s \/ ss_ltP s s').
Proof. exact first_fit_spec. Qed.
Print Assumptions C12_first_fit.

Theorem C12_first_fit_none : forall l n,
  first_symbol_big_enough_for l n = None <-> forall s, In s l -> num_data_codewords s < n.
Proof. exact first_fit_none. Qed.
Print Assumptions C12_first_fit_none.

(* non-vacuity: a concrete list meets the hypotheses and the pick is what one expects *)
Example C12_example : wf (sl_from_iter [Square144; Rect8x18; Square12; Square10]) /\
  first_symbol_big_enough_for (sl_from_iter [Square144; Rect8x18; Square12; Square10]) 5 = Some Square12.
Proof. split; [apply sl_from_iter_wf|vm_compute; reflexivity]. Qed.
