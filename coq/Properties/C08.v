(* Properties/C08.v -- Finder/alignment rendering and strict bitmap parsing are mutual inverses. *)
From Coq Require Import NArith List Bool.
From DM Require Import Generated.Symbols Spec.Table7 Spec.Finder Model.Outcome Model.Render
  Proofs.SymbolListProofs Proofs.RenderProofs.
Import ListNotations.
Local Open Scope N_scope.

(* (a) rendering draws exactly the standard's finder, clock and alignment modules around the
   regions and puts mapping-matrix module k where the standard puts it: for every size, every
   pixel (r, c); `layout_of s` describes the output of `bitmap` for every content (bitmap is
   `map (interp entries) (layout_of s)` by definition; interp only reads the entries). *)
Theorem C08_render : forall s,
  fst (bitmap false true s []) = width s /\
  length (layout_of s) = N.to_nat (height s * width s) /\
  forall r c, r < height s -> c < width s ->
    nth_error (layout_of s) (N.to_nat (r * width s + c)) = Some (px_of_fcell (cell (attrs s) r c)).
Proof. exact render_spec. Qed.
Print Assumptions C08_render.

(* (b) parsing a rendering returns the same content and the same size: for every size and every
   content of the right length (carrying the fixed corner pattern where the size has one) *)
Theorem C08_parse_render : forall s entries, well_formed s entries ->
  try_from_bits (snd (bitmap false true s entries)) (width s) = Ok (entries, s).
Proof. exact parse_render. Qed.
Print Assumptions C08_parse_render.

(* (c) conversely, for ANY pixel array and width: if parsing accepts, re-rendering the parsed
   content reproduces the array bit for bit (so every finder, clock, alignment and fixed corner
   module was checked), and the content is well formed *)
Theorem C08_accepts_only_renderings : forall bits w m s,
  try_from_bits bits w = Ok (m, s) ->
  w = width s /\ snd (bitmap false true s m) = bits /\ well_formed s m.
Proof. exact accepts_only_renderings. Qed.
Print Assumptions C08_accepts_only_renderings.

(* (d) width 0, a length that is no multiple of the width, dimensions of no symbol *)
Theorem C08_errors : forall bits w,
  (w = 0 -> try_from_bits bits w = Err EZeroWidth) /\
  (w <> 0 -> N.of_nat (length bits) mod w <> 0 -> try_from_bits bits w = Err EDataSize) /\
  (w <> 0 -> N.of_nat (length bits) mod w = 0 ->
     (forall s, ~ (width s = w /\ height s = N.of_nat (length bits) / w)) ->
     try_from_bits bits w = Err ESymbolSize).
Proof. exact parse_errors. Qed.
Print Assumptions C08_errors.

(* the functions the correspondence driver executes are these functions *)
Theorem C08_fast_versions : forall bits w s entries,
  try_from_bits_fast bits w = try_from_bits bits w /\
  bitmap_fast false true s entries = bitmap false true s entries.
Proof. intros. split; [apply try_from_bits_fast_eq|apply bitmap_fast_eq]. Qed.
Print Assumptions C08_fast_versions.

(* non-vacuity: a well-formed content exists for a size with the corner pattern, and parsing
   its rendering succeeds *)
Example C08_example :
  let e := repeat false 88 ++ [true; false] in
  well_formed Square12 (e ++ repeat false 8 ++ [false; true]) /\
  try_from_bits (snd (bitmap false true Square12 (e ++ repeat false 8 ++ [false; true]))) 12
    = Ok (e ++ repeat false 8 ++ [false; true], Square12).
Proof. split; [split; [reflexivity|intros _; cbn; auto]|vm_compute; reflexivity]. Qed.
