(* Properties/C18.v -- Planning agrees with encoding (the part that is a theorem: shape of the plan). *)
From Coq Require Import Arith NArith List Bool.
From DM Require Import Generated.Symbols Generated.ModeTables Model.Outcome Model.SymbolList Model.Planner Model.PlannerRun
  Proofs.PlanShape.
Import ListNotations.
Local Open Scope N_scope.

(* Every plan returned by the planner -- for every input, symbol list, mode set, start mode, number of codewords
   already written, and every sort that returns elements of its input -- names only enabled modes, has positions
   that never increase, start at most at the input length and end at 0.  Nothing about costs is used. *)
Theorem C18_plan_shape : forall sl sorter, (forall k l l', sorter k l = Ok l' -> incl l' l) ->
  forall data written mode modes res st,
  optimize sl sorter data written mode modes = Ok (Some res, st) ->
  pos_ok (N.of_nat (length data)) res 0 /\
  Forall (fun e => enabled modes (snd e) = true) res /\
  (res <> [] -> fst (last res (0, Ascii)) = 0).
Proof. intros sl sorter HS data written mode modes res st H. exact (optimize_shape sl sorter HS data written mode modes res st H). Qed.
Print Assumptions C18_plan_shape.

(* both instances of the sort used by the check (stable insertion sort; the implementation's order replayed
   from the hook trace) satisfy the hypothesis *)
Theorem C18_sorters : forall sl,
  (forall k l l', stable_sorter sl k l = Ok l' -> incl l' l) /\
  (forall trace k l l', trace_sorter sl trace k l = Ok l' -> incl l' l).
Proof. intros sl. split; [apply stable_sorter_incl|intros trace; apply trace_sorter_incl]. Qed.
Print Assumptions C18_sorters.

(* data::encodation_plan is optimize(data, 0, Ascii, ..) *)
Theorem C18_encodation_plan : forall data sl modes res st,
  encodation_plan stable_sorter data sl modes = Ok (Some res, st) ->
  pos_ok (N.of_nat (length data)) res 0 /\ Forall (fun e => enabled modes (snd e) = true) res.
Proof.
  intros data sl modes res st H. unfold encodation_plan in H.
  destruct (optimize_shape sl (stable_sorter sl) (stable_sorter_incl sl) data 0 Ascii modes res st H) as (A & B & _). split; assumption.
Qed.
Print Assumptions C18_encodation_plan.

(* non-vacuity *)
Example C18_example :
  match encodation_plan stable_sorter [65; 66; 67; 68; 69; 70; 71; 72; 73; 200; 201; 202; 203; 49; 50]%N sl_default 63 with
  | Ok (Some res, _) => res | _ => [] end = [(15, X12); (6, Base256); (2, Ascii); (0, Ascii)].
Proof. vm_compute. reflexivity. Qed.
