(* Properties/C18.v -- Planning agrees with encoding (the parts that are theorems: shape of the plan, a plan exists whenever the encoder succeeds). *)
From Coq Require Import Arith NArith List Bool.
From DM Require Import Generated.Symbols Generated.ModeTables Model.Outcome Model.SymbolList Model.Planner Model.PlannerRun
  Model.Enc Model.Api Proofs.PlanShape Proofs.PlanAlign.
Import ListNotations.
Local Open Scope N_scope.

(* Every plan returned by the planner -- for every input, symbol list, mode set, start mode, number of codewords
   already written, and every sort that returns elements of its input -- names only enabled modes, has positions
   that never increase, start at most at the input length and end at 0.  Nothing about costs is used. *)
Theorem C18_plan_shape : forall sl sorter, (forall k l l', sorter k l = Ok l' -> incl l' l) ->
  forall data written mode modes res st,
  optimize sl sorter data written mode modes = Ok (Some res, st) ->
  pos_ok (N.of_nat (length data)) res 0 /\
  Forall (fun e => enabled modes (snd e) = true) res /\
  (res <> [] -> fst (last res (0, Ascii)) = 0).
Proof. intros sl sorter HS data written mode modes res st H. exact (optimize_shape sl sorter HS data written mode modes res st H). Qed.
Print Assumptions C18_plan_shape.

(* both instances of the sort used by the check (stable insertion sort; the implementation's order replayed
   from the hook trace) satisfy the hypothesis *)
Theorem C18_sorters : forall sl,
  (forall k l l', stable_sorter sl k l = Ok l' -> incl l' l) /\
  (forall trace k l l', trace_sorter sl trace k l = Ok l' -> incl l' l).
Proof. intros sl. split; [apply stable_sorter_incl|intros trace; apply trace_sorter_incl]. Qed.
Print Assumptions C18_sorters.

(* data::encodation_plan is optimize(data, 0, Ascii, ..) *)
Theorem C18_encodation_plan : forall data sl modes res st,
  encodation_plan stable_sorter data sl modes = Ok (Some res, st) ->
  pos_ok (N.of_nat (length data)) res 0 /\ Forall (fun e => enabled modes (snd e) = true) res.
Proof.
  intros data sl modes res st H. unfold encodation_plan in H.
  destruct (optimize_shape sl (stable_sorter sl) (stable_sorter_incl sl) data 0 Ascii modes res st H) as (A & B & _). split; assumption.
Qed.
Print Assumptions C18_encodation_plan.

(* "for every input that can be encoded, the planning API returns a plan": whenever the encoder (no header codeword, same
   symbol list, mode set and sort) returns a stream, the planning entry point returns Some plan -- the encoder asks exactly
   this function; and by C11_planner_total the planning API never panics *)
Theorem C18_plan_exists : forall sorter data symbols modes cw s,
  encode_data_internal (optimize_fn sorter) data symbols None modes false false = Ok (cw, s) ->
  exists p st, encodation_plan sorter data symbols modes = Ok (Some p, st).
Proof.
  intros sorter data symbols modes cw s. unfold encode_data_internal. cbv zeta. cbn [bind]. unfold codewords.
  cbn [with_size e_symbols e_data e_modes e_input e_encodation e_new_mode e_cw].
  destruct symbols as [|s0 sr] eqn:ES; [discriminate|]. rewrite <- ES in *.
  destruct (_ <? _); [discriminate|]. destruct (upper_limit_for_number_of_codewords _ _); [|discriminate].
  change (cw_len (with_size data symbols modes false)) with 0. unfold optimize_fn, encodation_plan.
  destruct (optimize symbols (sorter symbols) data 0 Ascii modes) as [[[p|] st]| |]; cbn [bind lift]; try discriminate.
  intros _. exists p, st. reflexivity.
Qed.
Print Assumptions C18_plan_exists.

(* what every plan guarantees to the ASCII and Base256 encoders, for every non-empty input, symbol list, mode set (all 64), start
   mode and every total sub-list sort: the plan is not empty, its positions strictly decrease, consecutive entries name different
   modes (except the final entry at position 0), an ASCII run ends where the greedy ASCII encodation of the characters from its
   start has an item boundary (`aligned`: the encoder's digit pairs never straddle a planned switch), a Base256 run has at most
   1556 bytes and at most 1555 if it is left before the end of the data; an X12 run consists of native characters in whole triples
   (the last run may leave up to two characters to ASCII); and the encoder, which starts in ASCII, can reach the
   first planned position *)
Theorem C18_plan_aligned : forall sl data sorter written mode modes res st,
  (forall k l, exists l', sorter k l = Ok l' /\ incl l' l) -> data <> [] ->
  optimize sl sorter data written mode modes = Ok (Some res, st) ->
  res <> [] /\ (runs_ok data res /\ alt_ok res) /\
  match res with (p0, _) :: _ => p0 <= N.of_nat (length data) /\ aligned data (N.to_nat p0) | [] => True end.
Proof. intros sl data sorter written mode modes res st HS ND H. exact (optimize_align sl data sorter HS written mode modes res st ND H). Qed.
Print Assumptions C18_plan_aligned.

(* non-vacuity *)
Example C18_example :
  match encodation_plan stable_sorter [65; 66; 67; 68; 69; 70; 71; 72; 73; 200; 201; 202; 203; 49; 50]%N sl_default 63 with
  | Ok (Some res, _) => res | _ => [] end = [(15, X12); (6, Base256); (2, Ascii); (0, Ascii)].
Proof. vm_compute. reflexivity. Qed.
