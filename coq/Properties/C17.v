(* Properties/C17.v -- The vector path renders exactly the dark modules (the parts that are theorems). *)
From Coq Require Import ZArith List Bool Sorted.
From DM Require Import Model.Outcome Model.Path Spec.EvenOdd Proofs.PathProofs.
Import ListNotations.
Local Open Scope Z_scope.

(* (i) the outline graph of bits_to_edge_graph is the dark/light boundary, for every bitmap: a vertical (left) edge
   at grid point (i, j) is present iff modules (i, j-1) and (i, j) differ in colour (absent modules are light);
   likewise the horizontal (top) edges *)
Theorem C17_graph_is_boundary : forall bits w h i j,
  (0 <= j <= w -> left_at bits w h i j = xorb (dark bits w h i j) (dark bits w h i (j - 1))) /\
  (0 <= i <= h -> top_at bits w h i j = xorb (dark bits w h i j) (dark bits w h (i - 1) j)).
Proof. intros. split; [apply left_at_xor|apply top_at_xor]. Qed.
Print Assumptions C17_graph_is_boundary.

(* (ii) the geometric heart, for every bitmap and EVERY path (whatever algorithm produced it): a well-formed path
   (axis-parallel non-zero segments, closed sub-paths, Moves relative to the point a Close returns to, inside the
   bounding box) whose drawn vertical unit edges have odd multiplicity exactly on the boundary edges blackens,
   under the even-odd rule, exactly the dark modules *)
Theorem C17_evenodd_fills_dark : forall bits w h segs,
  wf_path w h segs = true ->
  (forall x y, 0 <= x <= w -> 0 <= y < h ->
     Nat.odd (count_at (edges (draw w h segs)) x y) = left_at bits w h y x) ->
  forall x y, 0 <= x < w -> 0 <= y < h -> inside w h segs x y = dark bits w h y x.
Proof. exact evenodd_fills_dark. Qed.
Print Assumptions C17_evenodd_fills_dark.

(* (iii) the certificate check run on every path the implementation returns is sound w.r.t. the specification of
   Spec/EvenOdd.v: if it says yes, the path is well-formed and fills exactly the dark modules *)
Theorem C17_check_sound : forall bits w h segs, check_path_fast bits w h segs = true ->
  wf_path w h segs = true /\
  forall x y, 0 <= x < w -> 0 <= y < h -> inside w h segs x y = dark (bits_map bits) w h y x.
Proof. exact check_path_fast_sound. Qed.
Print Assumptions C17_check_sound.

Theorem C17_wellformed_step : forall w h p s, good (draw1 w h p s) = true ->
  good p = true /\
  match s with
  | Hor d | Ver d => d <> 0 /\ in_box w h (cur (draw1 w h p s)) = true /\ after_close p = false
  | Close => after_close p = false /\ cur p <> sub_start p /\ (fst (cur p) = fst (sub_start p) \/ snd (cur p) = snd (sub_start p))
  | Move _ _ => after_close p = true /\ in_box w h (cur (draw1 w h p s)) = true
  end.
Proof. exact wf_step. Qed.
Print Assumptions C17_wellformed_step.

(* (iv) the pixel iterator: exactly the dark modules' coordinates, in row-major order *)
Theorem C17_pixels : forall l w ps, 0 < w -> pixels l w = Ok ps ->
  (forall x y, In (x, y) ps <-> 0 <= x < w /\ 0 <= y /\ nth (Z.to_nat (y * w + x)) l false = true) /\
  StronglySorted (fun a b => snd a * w + fst a < snd b * w + fst b) ps.
Proof. exact pixels_spec. Qed.
Print Assumptions C17_pixels.

(* NOT a theorem: that the Hierholzer decomposition of Bitmap::path (tours, alternatives / insert bookkeeping,
   Jump, compress_path) draws every boundary edge exactly once for EVERY bitmap.  It is decided per output: the
   implementation's path for each generated bitmap is (a) compared with the model of the algorithm (Model/Path.v),
   (b) passed through the verified check C17_check_sound (extracted), (c) re-filled by an independent Python
   rasteriser.  Bitmap::unicode is compared with its model and the Python oracle. *)
Example C17_example : path [true; false; true; true] 2 = Ok [Hor 1; Ver 1; Hor 1; Ver 1; Hor (-2); Close]
  /\ check_path_fast [true; false; true; true] 2 2 [Hor 1; Ver 1; Hor 1; Ver 1; Hor (-2); Close] = true
  /\ check_path_fast [true; false; true; true] 2 2 [Hor 2; Ver 2; Hor (-2); Close] = false.
Proof. vm_compute. repeat split. Qed.
