(* Properties/C17.v -- The vector path renders exactly the dark modules: the statement for the model of the algorithm (C17_path), pixels, unicode, and their parts. *)
From Coq Require Import ZArith List Bool Sorted.
From DM Require Import Model.Outcome Model.Path Spec.EvenOdd Proofs.PathProofs Proofs.PathMicro Proofs.PathGraph Proofs.PathAlgo Proofs.PathTotal Proofs.UnicodeProofs.
Import ListNotations.
Local Open Scope Z_scope.

(* (i) the outline graph of bits_to_edge_graph is the dark/light boundary, for every bitmap: a vertical (left) edge
   at grid point (i, j) is present iff modules (i, j-1) and (i, j) differ in colour (absent modules are light);
   likewise the horizontal (top) edges *)
Theorem C17_graph_is_boundary : forall bits w h i j,
  (0 <= j <= w -> left_at bits w h i j = xorb (dark bits w h i j) (dark bits w h i (j - 1))) /\
  (0 <= i <= h -> top_at bits w h i j = xorb (dark bits w h i j) (dark bits w h (i - 1) j)).
Proof. intros. split; [apply left_at_xor|apply top_at_xor]. Qed.
Print Assumptions C17_graph_is_boundary.

(* (ii) the geometric heart, for every bitmap and EVERY path (whatever algorithm produced it): a well-formed path
   (axis-parallel non-zero segments, closed sub-paths, Moves relative to the point a Close returns to, inside the
   bounding box) whose drawn vertical unit edges have odd multiplicity exactly on the boundary edges blackens,
   under the even-odd rule, exactly the dark modules *)
Theorem C17_evenodd_fills_dark : forall bits w h segs,
  wf_path w h segs = true ->
  (forall x y, 0 <= x <= w -> 0 <= y < h ->
     Nat.odd (count_at (edges (draw w h segs)) x y) = left_at bits w h y x) ->
  forall x y, 0 <= x < w -> 0 <= y < h -> inside w h segs x y = dark bits w h y x.
Proof. exact evenodd_fills_dark. Qed.
Print Assumptions C17_evenodd_fills_dark.

(* (iii) the certificate check run on every path the implementation returns is sound w.r.t. the specification of
   Spec/EvenOdd.v: if it says yes, the path is well-formed and fills exactly the dark modules *)
Theorem C17_check_sound : forall bits w h segs, check_path_fast bits w h segs = true ->
  wf_path w h segs = true /\
  forall x y, 0 <= x < w -> 0 <= y < h -> inside w h segs x y = dark (bits_map bits) w h y x.
Proof. exact check_path_fast_sound. Qed.
Print Assumptions C17_check_sound.

Theorem C17_wellformed_step : forall w h p s, good (draw1 w h p s) = true ->
  good p = true /\
  match s with
  | Hor d | Ver d => d <> 0 /\ in_box w h (cur (draw1 w h p s)) = true /\ after_close p = false
  | Close => after_close p = false /\ cur p <> sub_start p /\ (fst (cur p) = fst (sub_start p) \/ snd (cur p) = snd (sub_start p))
  | Move _ _ => after_close p = true /\ in_box w h (cur (draw1 w h p s)) = true
  end.
Proof. exact wf_step. Qed.
Print Assumptions C17_wellformed_step.

(* (iv) the pixel iterator: exactly the dark modules' coordinates, in row-major order *)
Theorem C17_pixels : forall l w ps, 0 < w -> pixels l w = Ok ps ->
  (forall x y, In (x, y) ps <-> 0 <= x < w /\ 0 <= y /\ nth (Z.to_nat (y * w + x)) l false = true) /\
  StronglySorted (fun a b => snd a * w + fst a < snd b * w + fst b) ps.
Proof. exact pixels_spec. Qed.
Print Assumptions C17_pixels.

(* (v) the algorithm itself, for EVERY bitmap with a dark top-left module: whenever Bitmap::path returns (model of
   bits_to_edge_graph, edge_left, the walk / euler / tours loops with the insert and alternatives bookkeeping,
   Jump between components, compress_path), the path is well-formed and its even-odd filling is exactly the set of
   dark modules.  (Stated for the paths that are returned; (v.c) below shows that a path always is returned.) *)
Theorem C17_path_renders_dark : forall (l : list bool) (w : Z) (segs : list seg),
  let h := Z.of_nat (length l) / w in
  path l w = Ok segs -> dark (bits_map l) w h 0 0 = true ->
  wf_path w h segs = true /\
  forall x y, 0 <= x < w -> 0 <= y < h -> inside w h segs x y = dark (bits_map l) w h y x.
Proof. exact path_correct. Qed.
Print Assumptions C17_path_renders_dark.

(* (v.a) its two halves: the tours use every edge of the outline graph exactly once and are closed chains of unit
   moves inside the box ... *)
Theorem C17_tours_decompose : forall (l : list bool) (w h : Z) (g0 : graph), 0 < w -> 0 <= h -> bits_to_edge_graph l w h = Ok g0 ->
  forall fuel efuel g p E insert R, tours fuel efuel g p E insert = Ok R ->
  GI w h g -> WI g0 g (medges (0, 0) E) -> has_edge g p = true -> EPre w h E insert (start_node p) ->
  mvalid w h (0, 0) (0, 0) false R = true /\ NoDup (medges (0, 0) R) /\ forall k, edge_in g0 k = true <-> In k (medges (0, 0) R).
Proof. exact tours_ok. Qed.
Print Assumptions C17_tours_decompose.

(* (v.b) ... and compress_path turns any such list of micro steps into a well-formed path that draws each vertical
   unit edge exactly as often as the micro steps traverse it *)
Theorem C17_compress_path : forall w h l, 0 <= w -> 0 <= h ->
  mvalid w h (0, 0) (0, 0) false l = true -> NoDup (medges (0, 0) l) ->
  wf_path w h (compress_path l) = true /\
  forall x y, count_at (edges (draw w h (compress_path l))) x y = kcount (medges (0, 0) l) x y.
Proof. exact compress_ok. Qed.
Print Assumptions C17_compress_path.

(* (v.c) totality: for every bitmap whose length is a multiple of its width and whose sides fit the i16 coordinates of
   the implementation, the model of Bitmap::path returns a path: every node of the outline graph has even degree, so
   the walk always finds a continuation until it is back at its start (the expect() in `follow` is not reached), and
   every iteration of walk, euler and tours removes an edge, so the loop bounds of the model are not reached *)
Theorem C17_path_total : forall (l : list bool) (w : Z),
  let h := Z.of_nat (length l) / w in
  0 < w -> Z.of_nat (length l) mod w = 0 -> w + 1 <= 32767 -> h + 1 <= 32767 ->
  exists segs, path l w = Ok segs.
Proof. exact path_total. Qed.
Print Assumptions C17_path_total.

(* (v) and (v.c) together: the property for the model of the algorithm, every bitmap with a dark top-left module *)
Theorem C17_path : forall (l : list bool) (w : Z),
  let h := Z.of_nat (length l) / w in
  0 < w -> Z.of_nat (length l) mod w = 0 -> w + 1 <= 32767 -> h + 1 <= 32767 -> dark (bits_map l) w h 0 0 = true ->
  exists segs, path l w = Ok segs /\ wf_path w h segs = true /\
    forall x y, 0 <= x < w -> 0 <= y < h -> inside w h segs x y = dark (bits_map l) w h y x.
Proof.
  intros l w h Hw HM LW LH D. destruct (path_total l w Hw HM LW LH) as [segs P]. exists segs. split; [exact P|]. exact (path_correct l w segs P D).
Qed.
Print Assumptions C17_path.

(* (vi) the Unicode block rendering, for every bitmap: ceil((h+2)/2) lines of w + 2 block characters and a line
   feed; the character in line r, column j shows module (2r-1, j-1) in its upper half and module (2r, j-1) in its lower
   half (block: U+2588 both, U+2580 upper, U+2584 lower, space none); modules outside the bitmap -- the one-module
   border -- are light by the definition of dark *)
Theorem C17_unicode : forall (l : list bool) (w : Z) (cps : list Z), 0 < w -> unicode l w = Ok cps ->
  let h := Z.of_nat (length l) / w in
  let rows := (h + 3) / 2 in
  Z.of_nat (length cps) = rows * (w + 3) /\
  forall r, 0 <= r < rows ->
    nth (Z.to_nat (r * (w + 3) + (w + 2))) cps 0 = 10 /\
    forall j, 0 <= j < w + 2 ->
      nth (Z.to_nat (r * (w + 3) + j)) cps 0 = block (dark (bits_map l) w h (2 * r - 1) (j - 1)) (dark (bits_map l) w h (2 * r) (j - 1)).
Proof. exact unicode_spec. Qed.
Print Assumptions C17_unicode.

(* In addition every path the implementation returns is (a) compared with the model, (b) passed through the verified
   check C17_check_sound (extracted), (c) re-filled by an independent Python rasteriser.  Bitmap::unicode is compared
   with its model and a Python oracle as well. *)
Example C17_example : path [true; false; true; true] 2 = Ok [Hor 1; Ver 1; Hor 1; Ver 1; Hor (-2); Close]
  /\ check_path_fast [true; false; true; true] 2 2 [Hor 1; Ver 1; Hor 1; Ver 1; Hor (-2); Close] = true
  /\ check_path_fast [true; false; true; true] 2 2 [Hor 2; Ver 2; Hor (-2); Close] = false
  /\ dark (bits_map [true; false; true; true]) 2 (Z.of_nat 4 / 2) 0 0 = true.
Proof. vm_compute. repeat split. Qed.
