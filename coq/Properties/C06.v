(* Properties/C06.v -- Error codewords conform to the ISO/IEC 16022 Reed-Solomon code. *)
From Coq Require Import NArith List Bool Lia.
From DM Require Import Generated.Symbols Generated.Generators Spec.GF256 Spec.Poly Spec.RSCode
  Model.Outcome Model.GF Model.RSEnc Proofs.GFTie Proofs.RSEncProofs.
Import ListNotations.

(* For every symbol size and every data vector of its capacity the model of encode_error
   returns, without panicking, k*B bytes such that every interleaved block -- data codewords
   b, b+B, ... followed by error codewords b, b+B, ... -- evaluates to zero at alpha^1..alpha^k
   in the field GF(2)[x]/301 of Spec/GF256.v (independent arithmetic). *)
Theorem C06_full : forall s d,
  length d = N.to_nat (num_data_codewords s) -> Forall byte d ->
  exists e, encode_error s d = Ok e /\
    length e = (N.to_nat (num_ecc_per_block s) * N.to_nat (num_ecc_blocks s))%nat /\
    Forall byte e /\
    is_codeword (N.to_nat (num_ecc_blocks s)) (N.to_nat (num_ecc_per_block s)) d e.
Proof. exact encode_error_codeword. Qed.
Print Assumptions C06_full.

(* the 25 hard-coded generator polynomials (regenerated from the source) are the standard's
   products (x + alpha)(x + alpha^2)...(x + alpha^k), for the k of every symbol size *)
Theorem C06_generators : forall s,
  generator (num_ecc_per_block s) = Some (gen_poly (N.to_nat (num_ecc_per_block s))).
Proof. intros s. destruct (generator_spec s) as (gt & H & _ & _ & _ & _ & E). rewrite H, E. reflexivity. Qed.
Print Assumptions C06_generators.

(* the crate's log/antilog arithmetic is the field of the standard on all 256^2 pairs *)
Theorem C06_field : forall a b, byte a -> byte b ->
  GF.mul a b = gmul a b /\ GF.add a b = gadd a b /\
  GF.div a b = (if (b =? 0)%N then None else Some (gdiv a b)).
Proof. intros a b Ha Hb. split; [now apply mul_spec|split; [reflexivity|now apply div_spec]]. Qed.
Print Assumptions C06_field.

(* what "is_codeword" means for a single block, spelled out: the syndromes are zero *)
Theorem C06_syndromes : forall B k d e b j, is_codeword B k d e -> (b < B)%nat -> (1 <= j <= k)%nat ->
  peval (map toF (block_of B b d ++ block_of B b e)) (Fpow Falpha j) = F0.
Proof.
  intros B k d e b j H Hb Hj. apply (H b Hb). unfold roots. apply in_map_iff. exists j.
  split; [reflexivity|]. apply in_seq. lia.
Qed.
Print Assumptions C06_syndromes.

(* non-vacuity: the crate's own test vector (errorcode::ecc_block_1), and a multi-block size *)
Example C06_example : encode_error Square10 [23; 40; 11]%N = Ok [255; 207; 37; 244; 81]%N.
Proof. vm_compute. reflexivity. Qed.
Example C06_example_144 : exists e, encode_error Square144 (repeat 7%N 1558) = Ok e /\ length e = 620%nat.
Proof. eexists. split; [vm_compute; reflexivity|reflexivity]. Qed.
