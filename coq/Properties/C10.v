(* Properties/C10.v -- The smallest symbol that can hold the data is chosen (what is a theorem, and the recorded gap). *)
From Coq Require Import Arith NArith List Bool.
From DM Require Import Generated.Symbols Generated.ModeTables Model.Outcome Model.SymbolList Model.Planner Model.PlannerRun Model.Enc
  Model.Dec Model.Api Proofs.SymbolListProofs Proofs.EncLocal Proofs.EncTop Spec.Stream16022 Proofs.EncAscii Proofs.AsciiMinimal Proofs.B256Minimal.
Import ListNotations.
Local Open Scope N_scope.

(* (i) for the stream the encoder produced, the symbol is minimal: it is the first symbol of the list (which is
   sorted by the crate's order, `wf`) whose capacity holds the unpadded stream; nothing smaller in the list does *)
Theorem C10_first_fit : forall optimize_fn data symbols eci modes use_macros fnc1 cw s, wf symbols ->
  encode_data_internal optimize_fn data symbols eci modes use_macros fnc1 = Ok (cw, s) ->
  exists unpadded pad, cw = unpadded ++ pad /\ In s symbols /\
    N.of_nat (length unpadded) <= num_data_codewords s /\
    forall s', In s' symbols -> N.of_nat (length unpadded) <= num_data_codewords s' -> s' = s \/ ss_ltP s s'.
Proof.
  intros o data symbols eci modes um fnc1 cw s W H. apply encode_internal_ok in H.
  destruct H as (_ & _ & macro & body & e1 & _ & _ & FF & C & _).
  exists (e_cw e1), (padding (et_eqb (e_encodation e1) Ascii) (cw_len e1) (num_data_codewords s - cw_len e1)).
  split; [exact C|]. apply (first_fit_spec symbols (cw_len e1) s W) in FF. exact FF.
Qed.
Print Assumptions C10_first_fit.

(* (i') the full statement as a theorem for the ASCII-only configuration: the encoder's greedy ASCII encodation (a digit
   pair wherever two digits meet) is the shortest among ALL legal ASCII encodings of the message -- every sequence of
   ASCII items (single characters, digit pairs, Upper Shift) spelling the same bytes -- hence the symbol returned is the
   smallest listed symbol into which any legal stream using only the enabled mode fits (every byte string, every
   sorted list, every admissible sort) *)
Theorem C10_greedy_optimal : forall items, forallb aitem_ok items = true ->
  (length (flat_map aitem_cw (greedy (flat_map aitem_data items))) <= length (flat_map aitem_cw items))%nat.
Proof. exact greedy_optimal. Qed.
Print Assumptions C10_greedy_optimal.

Theorem C10_ascii_only_minimal : forall sorter data symbols cw s, wf symbols ->
  (forall k l l', sorter symbols k l = Ok l' -> incl l' l) -> bytes_ok data = true ->
  encode_data_internal (optimize_fn sorter) data symbols None 1 false false = Ok (cw, s) ->
  forall items, forallb aitem_ok items = true -> flat_map aitem_data items = data ->
  forall s', In s' symbols -> N.of_nat (length (flat_map aitem_cw items)) <= num_data_codewords s' -> s' = s \/ ss_ltP s s'.
Proof. exact ascii_only_minimal. Qed.
Print Assumptions C10_ascii_only_minimal.

(* (i'') the full statement for the Base256-only configuration (ASCII disabled): among ALL legal streams made of Base256
   fields -- one or several fields with explicit length, or a field that runs to the end of the symbol -- followed by
   padding, none fills a listed symbol smaller than the one returned (every byte string, every sorted list, every
   admissible sort).  The one case where a shorter stream exists than the explicit-length one the planner priced
   (250 or more bytes in the run-to-the-end form) needs a symbol of exactly n + 2 codewords, and then the encoder
   takes it. *)
Theorem C10_base256_only_minimal : forall sorter data symbols cw s, wf symbols ->
  (forall k l l', sorter symbols k l = Ok l' -> incl l' l) ->
  encode_data_internal (optimize_fn sorter) data symbols None 32 false false = Ok (cw, s) ->
  forall script npad, forallb b256_seg script = true -> script_ok script npad = true -> meaning script = data ->
  forall s', In s' symbols -> N.of_nat (length (stream script npad)) = num_data_codewords s' -> s' = s \/ ss_ltP s s'.
Proof. exact b256_only_minimal. Qed.
Print Assumptions C10_base256_only_minimal.

(* in the crate's order a later symbol never has a smaller capacity *)
Theorem C10_order_is_capacity : forall l, wf l ->
  Sorted.StronglySorted (fun a b => num_data_codewords a <= num_data_codewords b) l.
Proof. exact wf_sorted_capacity. Qed.
Print Assumptions C10_order_is_capacity.

(* (ii) the full statement -- minimal over ALL legal encodings -- is false of the faithful model: the recorded
   finding C10-exact-fit (known_findings.json).  For the 11 bytes "8XC35N3GWC\xC1" and all 48 sizes the encoder
   returns a 12-codeword symbol, although the 10-codeword stream below is accepted by the crate's own decoder
   (and by the reference decoder) as exactly this message, and an 8x32 symbol (10 data codewords) is listed. *)
Definition gap_input : list N := [56; 88; 67; 51; 53; 78; 51; 71; 87; 67; 193].
Definition gap_stream : list N := [57; 230; 233; 200; 60; 128; 130; 177; 10; 255].
Theorem C10_exact_fit_refuted :
  decode_data gap_stream = Ok gap_input /\ length gap_stream = 10%nat /\
  (exists s, In s sl_all /\ num_data_codewords s = 10) /\
  match encode_eci stable_sorter gap_input sl_all 63 true false None with
  | Ok (s, cw, _) => num_data_codewords s = 12
  | _ => False
  end.
Proof. split; [vm_compute; reflexivity|]. split; [reflexivity|]. split; [exists Rect8x32; split; [apply sl_all_elements|reflexivity]|].
  vm_compute. reflexivity. Qed.
Print Assumptions C10_exact_fit_refuted.

(* the same gap seen as a refusal (recorded finding C10-exact-fit-refusal): with the single-symbol list [8x64] (24 data
   codewords) the 34-character message below is refused although the 24-codeword Text stream (33 characters in 11
   triples, then '!' as one trailing ASCII codeword with the implied unlatch) is accepted by the crate's own decoder *)
Definition refusal_input : list N :=
  [110; 48; 55; 102; 97; 56; 51; 57; 103; 32; 54; 108; 108; 98; 48; 109; 101; 49; 49; 118; 116; 119; 51; 122; 51; 49; 112; 54; 54; 116; 55; 120; 56; 33].
Definition refusal_stream : list N :=
  [239; 169; 108; 120; 253; 45; 221; 20; 106; 158; 157; 165; 86; 36; 218; 226; 64; 44; 166; 64; 50; 74; 149; 34].
Theorem C10_refusal_refuted :
  decode_data refusal_stream = Ok refusal_input /\ length refusal_stream = 24%nat /\ num_data_codewords Rect8x64 = 24 /\
  encode_eci stable_sorter refusal_input [Rect8x64] 63 true false None = Err TooMuchOrIllegalData.
Proof. split; [vm_compute; reflexivity|]. split; [reflexivity|]. split; [reflexivity|]. vm_compute. reflexivity. Qed.
Print Assumptions C10_refusal_refuted.

(* a further root cause (recorded finding C10-unbeatable-strike): the C40/Text plan treats the base-set characters ahead as
   "unbeatable" and considers no switch while it reads them.  For the 22 bytes "4tzl6qs7msp4371778WL00" and all 48 sizes the
   encoder stays in Text and needs the 18 data codewords of 18x18, although the 16-codeword stream below -- Text for the first
   twelve characters, unlatch, ASCII for the rest -- is accepted by the crate's own decoder as exactly this message and a
   12x26 symbol (16 data codewords) is listed; with that symbol alone the message is refused. *)
Definition strike_input : list N := [52; 116; 122; 108; 54; 113; 115; 55; 109; 115; 112; 52; 51; 55; 49; 55; 55; 56; 87; 76; 48; 48].
Definition strike_stream : list N := [239; 55; 80; 157; 239; 201; 211; 204; 145; 254; 167; 147; 208; 88; 77; 130].
Theorem C10_strike_refuted :
  decode_data strike_stream = Ok strike_input /\ length strike_stream = 16%nat /\
  (exists s, In s sl_all /\ num_data_codewords s = 16) /\
  match encode_eci stable_sorter strike_input sl_all 63 true false None with
  | Ok (s, cw, _) => num_data_codewords s = 18
  | _ => False
  end.
Proof. split; [vm_compute; reflexivity|]. split; [reflexivity|]. split; [exists Rect12x26; split; [apply sl_all_elements|reflexivity]|].
  vm_compute. reflexivity. Qed.
Print Assumptions C10_strike_refuted.

Theorem C10_strike_refusal_refuted :
  decode_data strike_stream = Ok strike_input /\ num_data_codewords Rect12x26 = 16 /\
  encode_eci stable_sorter strike_input [Rect12x26] 63 true false None = Err TooMuchOrIllegalData.
Proof. split; [vm_compute; reflexivity|]. split; [reflexivity|]. vm_compute. reflexivity. Qed.
Print Assumptions C10_strike_refusal_refuted.

(* NOT a theorem: optimality of the planner outside these classes; it is decided per case against an exact search over
   all legal streams (tools/props/refenc.py), any miss outside the recorded classes is a violation. *)
