(* Properties/C11.v -- Encoding is total and failures are classified correctly (the parts that are theorems). *)
From Coq Require Import Arith NArith List Bool Lia.
From DM Require Import Generated.Symbols Generated.ModeTables Model.Outcome Model.SymbolList Model.Planner Model.Enc
  Model.RSEnc Model.Api Model.PlannerRun Proofs.RSEncLen Proofs.EncLocal Proofs.EncTop Proofs.EncAscii Proofs.PlanTotal Proofs.AsciiTotal Proofs.EncAB Proofs.EncABTotal Proofs.EncABXTotal Proofs.EncAllTotal Spec.Stream16022 Proofs.EncABXETotal.
Import ListNotations.
Local Open Scope N_scope.

(* (i) classification, for every input, list, mode set, option and EVERY planner: an error is 'symbol list empty'
   if and only if the supplied list is empty (so every other refusal is 'too much or illegal data': the error type
   has only these two values) ... *)
Theorem C11_classification : forall optimize_fn data symbols eci modes use_macros fnc1 x,
  encode_data_internal optimize_fn data symbols eci modes use_macros fnc1 = Err x ->
  (x = SymbolListEmpty <-> symbols = []).
Proof. exact encode_internal_err. Qed.
Print Assumptions C11_classification.

(* ... and with an empty list that error is what is returned (nothing panics before the check) *)
Theorem C11_empty_list : forall optimize_fn data eci modes use_macros fnc1,
  (match eci with Some c => c <= 999999 | None => True end) ->
  encode_data_internal optimize_fn data [] eci modes use_macros fnc1 = Err SymbolListEmpty.
Proof. exact encode_internal_empty_list. Qed.
Print Assumptions C11_empty_list.

Theorem C11_only_two_errors : forall x : enc_error, x = SymbolListEmpty \/ x = TooMuchOrIllegalData.
Proof. intros []; auto. Qed.
Print Assumptions C11_only_two_errors.

(* (ii) the glue never panics: macro detection (any input, incl. the bare 7-byte header), the ECI header for every
   ECI <= 999999, the padding after the symbol was chosen; the mode encoders raise no error other than
   'too much or illegal data' and never touch the symbol list or the mode set *)
Theorem C11_macro_total : forall e, exists e', use_macro_if_possible e = Ok e'.
Proof. intros e. destruct (use_macro_spec e) as (e' & H & _). exists e'. exact H. Qed.
Print Assumptions C11_macro_total.

Theorem C11_eci_total : forall e c, c <= 999999 -> exists e', enc_write_eci e c = Ok e'.
Proof. exact enc_write_eci_total. Qed.
Print Assumptions C11_eci_total.

Theorem C11_padding_total : forall e s, symbol_for e 0 = Some s -> exists e', add_padding e s = Ok e'.
Proof. exact add_padding_total. Qed.
Print Assumptions C11_padding_total.

Theorem C11_mode_encoders : forall e,
  match mode_encode e with
  | Ok e' => e_symbols e' = e_symbols e /\ e_modes e' = e_modes e /\ exists sfx, e_cw e' = e_cw e ++ sfx
  | Err x => x = TooMuchOrIllegalData
  | Panic _ => True
  end.
Proof. exact mode_encode_post. Qed.
Print Assumptions C11_mode_encoders.

(* (iii) so a panic of the whole entry point can only be a panic of the planner or of the main loop (an
   assertion of maybe_switch_mode / the no-progress guard / a mode encoder) *)
Theorem C11_panic_source : forall optimize_fn e p, codewords optimize_fn e = Panic p ->
  lift (optimize_fn (e_data e) (cw_len e) (e_symbols e) (e_modes e)) = Panic p \/
  exists plan, main_loop (6 * length (e_data e) + 12)
    (mkenc (e_data e) (e_input e) (e_encodation e) plan (e_new_mode e) (e_cw e) (e_modes e) (e_symbols e)) 0 = Panic p.
Proof. exact codewords_panic_source. Qed.
Print Assumptions C11_panic_source.

(* (iv) totality of the whole entry point in the first case: under the plan "stay in ASCII" no assertion of the
   main loop can fire -- every byte string, every list, value or error, never a panic *)
Theorem C11_ascii_plan_total : forall optimize_fn data symbols modes,
  optimize_fn data 0 symbols modes = Ok (Some [(0, Ascii)]) ->
  no_panic (encode_data_internal optimize_fn data symbols None modes false false).
Proof. exact ascii_plan_total. Qed.
Print Assumptions C11_ascii_plan_total.

(* (v) the builder entry point adds the error codewords: that step cannot fail, so a panic of encode_eci is a panic of
   the data layer *)
Theorem C11_api_panic_source : forall sorter data symbols modes use_macros fnc1 eci p,
  encode_eci sorter data symbols modes use_macros fnc1 eci = Panic p ->
  encode_data_internal (optimize_fn sorter) data symbols eci modes use_macros fnc1 = Panic p.
Proof.
  intros so d sy m um f e p. unfold encode_eci.
  destruct (encode_data_internal _ _ _ _ _ _ _) as [[cw s]| |] eqn:E; cbn [bind]; try discriminate; [|intros [= <-]; reflexivity].
  apply encode_internal_ok in E. destruct E as (_ & L & _).
  destruct (encode_error_total s cw ltac:(lia)) as (ecc & ->). discriminate.
Qed.
Print Assumptions C11_api_panic_source.

(* (vi) the planner half of the totality claim, for every input, symbol list, start mode, mode set (all 64) and every sort
   that returns a sub-list of its input: `optimize` returns -- none of the assertions of the five plan implementations
   (look-ahead digits of AsciiPlan, at most two pending values in C40LikePlan, no unlatch after the end-of-data decision of
   X12 / EDIFACT, the denominators of Frac::new), of add_switches, of the lock-step check of the main loop, of the final
   selection, no u8 overflow of the value counter and none of the loop bounds of the model is ever reached *)
Theorem C11_planner_total : forall sl sorter data written mode modes,
  (forall k l, exists l', sorter k l = Ok l' /\ incl l' l) ->
  exists r, optimize sl sorter data written mode modes = Ok r.
Proof. intros sl sorter data written mode modes H. exact (optimize_total sl sorter H data written mode modes). Qed.
Print Assumptions C11_planner_total.

(* the stable sort by cost is such a sort; the public planning entry point with it *)
Theorem C11_encodation_plan_total : forall data sl modes, exists r, encodation_plan stable_sorter data sl modes = Ok r.
Proof. intros data sl modes. unfold encodation_plan. apply optimize_total_stable. Qed.
Print Assumptions C11_encodation_plan_total.

(* (vii) hence, with (iii): a panic of the data layer can only be a panic of the main loop of the encoder *)
Theorem C11_panic_is_main_loop : forall sorter e p,
  (forall sl k l, exists l', sorter sl k l = Ok l' /\ incl l' l) ->
  codewords (optimize_fn sorter) e = Panic p ->
  exists plan, main_loop (6 * length (e_data e) + 12)
    (mkenc (e_data e) (e_input e) (e_encodation e) plan (e_new_mode e) (e_cw e) (e_modes e) (e_symbols e)) 0 = Panic p.
Proof.
  intros sorter e p HS H. destruct (codewords_panic_source _ e p H) as [L|M]; [|exact M]. exfalso. unfold optimize_fn in L.
  destruct (optimize_total (e_symbols e) (sorter (e_symbols e)) (HS (e_symbols e)) (e_data e) (cw_len e) Ascii (e_modes e)) as [[r st] E].
  rewrite E in L. discriminate.
Qed.
Print Assumptions C11_panic_is_main_loop.

(* (viii) the whole property for the ASCII-only configuration: every byte string, every symbol list, every total sub-list
   sort -- a value or one of the two errors, never a panic (planner totality + the only possible plan + the main loop under
   that plan); the classification of the error is (i) *)
Theorem C11_ascii_only_total : forall sorter data symbols,
  (forall sl k l, exists l', sorter sl k l = Ok l' /\ incl l' l) ->
  no_panic (encode_data_internal (optimize_fn sorter) data symbols None 1 false false).
Proof. exact ascii_only_total. Qed.
Print Assumptions C11_ascii_only_total.

(* (ix) the whole property for every mode set within {ASCII, Base256} -- the sets {ASCII}, {Base256}, {ASCII, Base256} --,
   every byte string, every symbol list, macros on or off, FNC1 start or not, every ECI number up to 999999, every total sub-list
   sort: a value or one of the two errors, never a panic.  Here the planner/encoder agreement IS proved: the planner's plans
   (Proofs/PlanAlign.v) have strictly decreasing positions, end an ASCII run only at an item boundary of the greedy ASCII
   encodation, leave a Base256 run after at most 1555 bytes (the last one has at most 1556), and alternate modes; under such a
   plan maybe_switch_mode's assertion, the no-progress guard of the main loop, the length-field assertion of the Base256
   encoder and all loop bounds of the model are unreachable (Proofs/EncABTotal.v) *)
Theorem C11_ab_total : forall sorter data symbols eci modes use_macros fnc1,
  (forall sl k l, exists l', sorter sl k l = Ok l' /\ incl l' l) ->
  (forall m, enabled modes m = true -> m = Ascii \/ m = Base256) ->
  match eci with Some c => c <= 999999 | None => True end ->
  no_panic (encode_data_internal (optimize_fn sorter) data symbols eci modes use_macros fnc1).
Proof. exact ab_total. Qed.
Print Assumptions C11_ab_total.

(* (x) the same for every mode set within {ASCII, Base256, X12} (eight of the 64 sets): the planner's X12 runs consist of
   native characters in whole triples, the last one may leave up to two characters to ASCII (Proofs/PlanAlign.v), so the
   unreachable!() of the X12 value table, maybe_switch_mode's assertion inside the triple loop and the no-progress guard
   (at most three consecutive iterations write less than two codewords) cannot fire (Proofs/EncABXTotal.v) *)
Theorem C11_abx_total : forall sorter data symbols eci modes use_macros fnc1,
  (forall sl k l, exists l', sorter sl k l = Ok l' /\ incl l' l) ->
  (forall m, enabled modes m = true -> m = Ascii \/ m = Base256 \/ m = X12) ->
  match eci with Some c => c <= 999999 | None => True end ->
  no_panic (encode_data_internal (optimize_fn sorter) data symbols eci modes use_macros fnc1).
Proof. exact abx_total. Qed.
Print Assumptions C11_abx_total.

(* (xi) and for every mode set within {ASCII, Base256, X12, EDIFACT} (sixteen of the 64 sets).  The EDIFACT encoder reads one
   character at a time, so it needs nothing from the planner beyond the shape of the plan; its assertion about the free space
   after the last group (space_left > 2) is guaranteed by its own end-of-data rule evaluated on the same symbol size, the
   backup() of pending characters stays inside the message because the slice it re-reads is the message itself (an invariant
   of all four encoders), and at most three consecutive iterations of the main loop write less than two codewords
   (Proofs/EncABXETotal.v) *)
Theorem C11_abxe_total : forall sorter data symbols eci modes use_macros fnc1,
  (forall sl k l, exists l', sorter sl k l = Ok l' /\ incl l' l) ->
  (forall m, enabled modes m = true -> m = Ascii \/ m = Base256 \/ m = X12 \/ m = Edifact) ->
  match eci with Some c => c <= 999999 | None => True end ->
  no_panic (encode_data_internal (optimize_fn sorter) data symbols eci modes use_macros fnc1).
Proof. exact abx_total4. Qed.
Print Assumptions C11_abxe_total.

(* (xii) THE WHOLE PROPERTY: every byte string, every symbol list (empty and single-symbol lists included), all 64 mode sets
   (the empty set and the sets without ASCII included), macros on or off, FNC1 start or not, every ECI number up to 999999,
   every total sub-list sort (the tie-breaks of sort_unstable included): the entry point returns a value or an error, it never
   panics, trips an assertion, overflows or runs out of the model's loop bounds.  On top of (xi): a C40 / Text run keeps at
   most two pending values, each at most 39, so the six-value ArrayVec never overflows and write_three_values never exceeds
   16 bits; every byte has an entry in the value table (a finite sweep of the 128 low characters, lifted); the end-of-data
   cases a-d and the two-digit look-ahead re-read at most one character of the message itself; by the plan's alternation a
   planned switch always leaves the mode, and a run that consumed a character has written at least two codewords, which is
   what the no-progress guard of the main loop needs (Proofs/EncAllTotal.v).  `bytes_ok data` says that the input is a byte
   string (every element below 256): the implementation's type `&[u8]`. *)
Theorem C11_total : forall sorter data symbols eci modes use_macros fnc1,
  (forall sl k l, exists l', sorter sl k l = Ok l' /\ incl l' l) ->
  bytes_ok data = true ->
  match eci with Some c => c <= 999999 | None => True end ->
  no_panic (encode_data_internal (optimize_fn sorter) data symbols eci modes use_macros fnc1).
Proof. exact abx_total6. Qed.
Print Assumptions C11_total.

(* ... in the words of the property: a value, or an error that is 'symbol list empty' exactly for the empty list *)
Theorem C11_value_or_classified_error : forall sorter data symbols eci modes use_macros fnc1,
  (forall sl k l, exists l', sorter sl k l = Ok l' /\ incl l' l) ->
  bytes_ok data = true ->
  match eci with Some c => c <= 999999 | None => True end ->
  (exists cw size, encode_data_internal (optimize_fn sorter) data symbols eci modes use_macros fnc1 = Ok (cw, size)) \/
  (exists x, encode_data_internal (optimize_fn sorter) data symbols eci modes use_macros fnc1 = Err x /\
             (x = SymbolListEmpty <-> symbols = []) /\ (x <> SymbolListEmpty -> x = TooMuchOrIllegalData)).
Proof. exact value_or_classified_error. Qed.
Print Assumptions C11_value_or_classified_error.

(* ... and through DataMatrixBuilder::encode_eci, which appends the error correction codewords: the Reed-Solomon step is total on a
   data vector of the chosen symbol's capacity (C06), which is what the padding produces *)
Theorem C11_builder_total : forall sorter data symbols modes use_macros fnc1 eci,
  (forall sl k l, exists l', sorter sl k l = Ok l' /\ incl l' l) ->
  bytes_ok data = true ->
  match eci with Some c => c <= 999999 | None => True end ->
  no_panic (encode_eci sorter data symbols modes use_macros fnc1 eci).
Proof. exact builder_total. Qed.
Print Assumptions C11_builder_total.

(* what is decided by running model and implementation (debug and release) on the same inputs rather than by these theorems: that the
   model is the code (the correspondence), including the planner's tie-breaks; the planner's own termination bound is C19. *)
Example C11_example : encode_data_internal (fun _ _ _ _ => Ok None) [65] [Square10] None 63 true false = Err TooMuchOrIllegalData.
Proof. reflexivity. Qed.
