(* Properties/C05.v -- Decoding untrusted input never panics or hangs. *)
From Coq Require Import Arith ZArith NArith List Bool.
From DM Require Import Generated.Symbols Spec.GF256 Model.Outcome Model.Dec Model.Eci Model.Render Model.RSDec
  Model.Placement Model.Api Proofs.DecProofs Proofs.RenderProofs Proofs.RSDecProofs Proofs.PlacementProofs Proofs.DecodeGlue.
Import ListNotations.

(* In the model every Rust panic site (assert!, unwrap, slice index, arithmetic overflow of the
   fixed-width types, division by zero) and fuel exhaustion is an explicit `Panic` outcome, so
   `no_panic` is "returns a value or an error, and terminates", in debug and release builds. *)

(* data codewords -> bytes, for EVERY list of codewords (no well-formedness assumed) *)
Theorem C05_decode_data : forall cw, no_panic (decode_data cw).
Proof. exact decode_data_no_panic. Qed.
Print Assumptions C05_decode_data.

(* data codewords -> string (ECI handling, character-set tables, UTF-8 validation, span slicing) *)
Theorem C05_decode_str : forall cw, no_panic (decode_str cw).
Proof. exact decode_str_no_panic. Qed.
Print Assumptions C05_decode_str.

(* pixel vector + width -> mapping matrix, for EVERY bool vector and width *)
Theorem C05_try_from_bits : forall bits w, no_panic (try_from_bits bits w) /\ no_panic (try_from_bits_fast bits w).
Proof. intros bits w. rewrite try_from_bits_fast_eq. split; apply try_from_bits_no_panic. Qed.
Print Assumptions C05_try_from_bits.

(* error correction: what is proved is the outcome on success (C09) and that a word without errors is
   returned unchanged; that no received word can make the Levinson-Durbin / Bjoerck-Pereyra code index out
   of range, divide by zero or trip its own debug assertions is NOT proved -- see DESIGN.md and the
   correspondence / fault-enumeration part of the check. *)
Theorem C05_rs_success_shape : forall s cw c',
  length cw = N.to_nat (num_data_codewords s + num_ecc_blocks s * num_ecc_per_block s) -> Forall byte cw ->
  RSDec.decode cw s = Ok c' -> length c' = length cw /\ Forall byte c'.
Proof. intros s cw c' L B H. destruct (decode_success_codeword s cw c' L B H) as (A1 & A2 & _). split; assumption. Qed.
Print Assumptions C05_rs_success_shape.

(* the whole-symbol entry point DataMatrix::decode(pixels, width): for EVERY pixel array and width the glue around
   the error-correction decoder -- strict parsing, placement read-out (total on every content: C05_codewords_total),
   the split into data and error part, the data decoder -- cannot panic; a panic of decode() can only be a panic
   raised inside decode_error on the codewords read from an array that parsed as a symbol *)
Theorem C05_codewords_total : forall s e, length e = Z.to_nat (zh s * zw s) ->
  exists cw, Placement.codewords (zh s) (zw s) e = Ok cw /\ length cw = N.to_nat (ntotal s) /\ Forall byte cw.
Proof. exact codewords_total. Qed.
Print Assumptions C05_codewords_total.

Theorem C05_decode_glue : forall pixels width p, dm_decode pixels width = Panic p ->
  exists entries size cw, try_from_bits pixels width = Ok (entries, size) /\
    Placement.codewords (zh size) (zw size) entries = Ok cw /\ RSDec.decode cw size = Panic p.
Proof. exact dm_decode_panic_source. Qed.
Print Assumptions C05_decode_glue.

(* non-vacuity / the former witnesses of the defects *)
Example C05_examples :
  decode_data [230; 0; 0]%N = Err UnexpectedCharacter /\ decode_data [241; 192; 1; 0]%N = Err UnexpectedCharacter /\
  decode_str [241; 12; 235; 113]%N = Ok [287]%N.
Proof. repeat split; vm_compute; reflexivity. Qed.
