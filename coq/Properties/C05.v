(* Properties/C05.v -- Decoding untrusted input never panics or hangs. *)
From Coq Require Import Arith ZArith NArith List Bool.
From DM Require Import Generated.Symbols Spec.GF256 Model.Outcome Model.Dec Model.Eci Model.Render Model.RSDec
  Model.Placement Model.Api Proofs.DecProofs Proofs.RenderProofs Proofs.RSDecProofs Proofs.PlacementProofs Proofs.DecodeGlue Proofs.RSTotal Proofs.LDTotal Proofs.DecodeSafe.
Import ListNotations.

(* In the model every Rust panic site (assert!, unwrap, slice index, arithmetic overflow of the
   fixed-width types, division by zero) and fuel exhaustion is an explicit `Panic` outcome, so
   `no_panic` is "returns a value or an error, and terminates", in debug and release builds. *)

(* data codewords -> bytes, for EVERY list of codewords (no well-formedness assumed) *)
Theorem C05_decode_data : forall cw, no_panic (decode_data cw).
Proof. exact decode_data_no_panic. Qed.
Print Assumptions C05_decode_data.

(* data codewords -> string (ECI handling, character-set tables, UTF-8 validation, span slicing) *)
Theorem C05_decode_str : forall cw, no_panic (decode_str cw).
Proof. exact decode_str_no_panic. Qed.
Print Assumptions C05_decode_str.

(* pixel vector + width -> mapping matrix, for EVERY bool vector and width *)
Theorem C05_try_from_bits : forall bits w, no_panic (try_from_bits bits w) /\ no_panic (try_from_bits_fast bits w).
Proof. intros bits w. rewrite try_from_bits_fast_eq. split; apply try_from_bits_no_panic. Qed.
Print Assumptions C05_try_from_bits.

(* error correction.  For EVERY received word of the symbol's length, the syndrome computation, the Levinson-Durbin
   locator search (initial triangular solve, regular and singular steps), the Chien search, the Bjoerck-Pereyra solve
   and the application of the corrections stay inside their slices (no PIndex), never divide by zero (no PDivZero: the
   pivots are non-zero by the branch conditions, the reported roots are non-zero and pairwise different by a sweep over
   the antilog table), never underflow (POverflow), never trip a length / range assertion (PAssert) and terminate
   (POutOfFuel).  The one panic site that is not excluded is PAssertLD: the cfg!(debug_assertions) blocks that re-check
   the identities (3)/(4) of the recursion after each iteration and the triangular solve for gamma in the singular
   step; they are compiled out of release builds.  (That they never fire is the next group of theorems.)  `safe o` is: forall p, o = Panic p -> p = PAssertLD. *)
Theorem C05_rs_decoder : forall s cw p,
  length cw = N.to_nat (num_data_codewords s + num_ecc_blocks s * num_ecc_per_block s) ->
  RSDec.decode cw s = Panic p -> p = PAssertLD.
Proof. intros s cw p L. exact (decode_safe s cw L p). Qed.
Print Assumptions C05_rs_decoder.

Theorem C05_rs_locator : forall syn, safe (find_inv_error_locations_levinson_durbin syn).
Proof. exact levinson_durbin_safe. Qed.
Print Assumptions C05_rs_locator.

Theorem C05_rs_success_shape : forall s cw c',
  length cw = N.to_nat (num_data_codewords s + num_ecc_blocks s * num_ecc_per_block s) -> Forall byte cw ->
  RSDec.decode cw s = Ok c' -> length c' = length cw /\ Forall byte c'.
Proof. intros s cw c' L B H. destruct (decode_success_codeword s cw c' L B H) as (A1 & A2 & _). split; assumption. Qed.
Print Assumptions C05_rs_success_shape.

(* the whole-symbol entry point DataMatrix::decode(pixels, width): for EVERY pixel array and width the glue around
   the error-correction decoder -- strict parsing, placement read-out (total on every content: C05_codewords_total),
   the split into data and error part, the data decoder -- cannot panic; a panic of decode() can only be a panic
   raised inside decode_error on the codewords read from an array that parsed as a symbol *)
Theorem C05_codewords_total : forall s e, length e = Z.to_nat (zh s * zw s) ->
  exists cw, Placement.codewords (zh s) (zw s) e = Ok cw /\ length cw = N.to_nat (ntotal s) /\ Forall byte cw.
Proof. exact codewords_total. Qed.
Print Assumptions C05_codewords_total.

Theorem C05_decode_glue : forall pixels width p, dm_decode pixels width = Panic p ->
  exists entries size cw, try_from_bits pixels width = Ok (entries, size) /\
    Placement.codewords (zh size) (zw size) entries = Ok cw /\ RSDec.decode cw size = Panic p.
Proof. exact dm_decode_panic_source. Qed.
Print Assumptions C05_decode_glue.

(* non-vacuity: a word with two errors runs through locator search, Chien search and Bjoerck-Pereyra and is corrected;
   a word with too many errors is an error value, not a panic *)
Example C05_rs_example :
  RSDec.decode [23; 40; 11; 0; 207; 37; 0; 81]%N Square10 = Ok [23; 40; 11; 255; 207; 37; 244; 81]%N /\
  RSDec.decode [1; 2; 3; 4; 5; 6; 7; 8]%N Square10 = Err ErrorsOutsideRange.
Proof. split; vm_compute; reflexivity. Qed.

(* ... and the self-checks cannot fire either: the identities (3) H_v y = e_v and (4) H_v w = h_v over GF(256) are
   invariants of the model's loop -- initial anti-triangular solve, regular step, singular step with its jump of m,
   the iteration w^k, the Toeplitz solve for gamma and the update of w (Proofs/LDMath.v: the algebra on Hankel rows in
   characteristic 2; LDBridge.v / LDInv.v: the list computations of the model read through toF; LDTotal.v) -- so the
   locator search ALWAYS returns a value or TooManyErrors, and for every word of bytes of the symbol's length the
   error-correction entry point returns a value or an error: no panic in any build *)
Theorem C05_rs_locator_total : forall syn, Forall byte syn -> no_panic (find_inv_error_locations_levinson_durbin syn).
Proof. exact levinson_durbin_np. Qed.
Print Assumptions C05_rs_locator_total.

Theorem C05_rs_decoder_total : forall s cw, Forall byte cw ->
  length cw = N.to_nat (num_data_codewords s + num_ecc_blocks s * num_ecc_per_block s) -> no_panic (RSDec.decode cw s).
Proof. exact decode_np. Qed.
Print Assumptions C05_rs_decoder_total.

(* the same for the whole-symbol entry point: for EVERY pixel array and width *)
Theorem C05_decode_symbol : forall pixels width p, dm_decode pixels width = Panic p -> p = PAssertLD.
Proof. exact dm_decode_safe. Qed.
Print Assumptions C05_decode_symbol.

Theorem C05_decode_symbol_total : forall pixels width, no_panic (dm_decode pixels width).
Proof. exact dm_decode_no_panic. Qed.
Print Assumptions C05_decode_symbol_total.

(* non-vacuity / the former witnesses of the defects *)
Example C05_examples :
  decode_data [230; 0; 0]%N = Err UnexpectedCharacter /\ decode_data [241; 192; 1; 0]%N = Err UnexpectedCharacter /\
  decode_str [241; 12; 235; 113]%N = Ok [287]%N.
Proof. repeat split; vm_compute; reflexivity. Qed.
