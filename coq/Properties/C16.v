(* Properties/C16.v -- Macro 05/06 compaction and GS1 start are exact and lossless (the parts that are theorems). *)
From Coq Require Import Arith NArith List Bool.
From DM Require Import Generated.Symbols Generated.ModeTables Model.Outcome Model.SymbolList Model.Planner Model.PlannerRun Model.Enc Model.Dec
  Model.Api Spec.Stream16022 Proofs.EncLocal Proofs.EncTop Proofs.DecMacro Proofs.DecScript Proofs.EncAscii Proofs.MacroAscii Proofs.EncAB Proofs.EncAX Proofs.EncAC Proofs.EncMulti.
Import ListNotations.
Local Open Scope N_scope.

(* (i) the rule is an "if and only if", for every input, symbol list, mode set, ECI option and for EVERY planner
   (the optimiser is a parameter): whenever the encoder returns a stream, its first codeword is 236 exactly when
   macros are enabled, no FNC1 start was requested and the message is header-05 ++ body ++ RS EOT; 237 likewise
   for header 06; and 232 exactly when an FNC1 start was requested.  (`enveloped h d b` is d = h ++ b ++ [30;4].) *)
Theorem C16_first_codeword : forall optimize_fn data symbols eci modes use_macros fnc1 cw s,
  encode_data_internal optimize_fn data symbols eci modes use_macros fnc1 = Ok (cw, s) ->
  (hd_error cw = Some 236 <-> use_macros = true /\ fnc1 = false /\ exists body, enveloped MACRO05_HEAD data body) /\
  (hd_error cw = Some 237 <-> use_macros = true /\ fnc1 = false /\ exists body, enveloped MACRO06_HEAD data body) /\
  (hd_error cw = Some 232 <-> fnc1 = true).
Proof. exact first_codeword. Qed.
Print Assumptions C16_first_codeword.

(* (ii) detection itself: total (the bare header, header without trailer, trailer only ... are returned verbatim,
   never a slice panic), and in the macro case exactly the body remains as data AND as the slice backup() reads *)
Theorem C16_detection : forall e, exists e', use_macro_if_possible e = Ok e' /\
  (forall body, e_cw e = [] -> enveloped MACRO05_HEAD (e_data e) body -> e' = strip_to e body 236) /\
  (forall body, e_cw e = [] -> enveloped MACRO06_HEAD (e_data e) body -> e' = strip_to e body 237) /\
  (~ macro_case e -> e' = e).
Proof. exact use_macro_spec. Qed.
Print Assumptions C16_detection.

Theorem C16_strip_sets_input : forall e body cw, e_input (strip_to e body cw) = body /\ e_data (strip_to e body cw) = body /\
  e_cw (strip_to e body cw) = e_cw e ++ [cw].
Proof. intros; repeat split. Qed.
Print Assumptions C16_strip_sets_input.

(* (iii) what is encoded after the macro codeword is the body: the stream is header ++ (what the mode encoders
   wrote for `body`) ++ padding, where header = [232]? ++ [236|237]? ++ ECI *)
Theorem C16_stream_shape : forall optimize_fn data symbols eci modes use_macros fnc1 cw s,
  encode_data_internal optimize_fn data symbols eci modes use_macros fnc1 = Ok (cw, s) ->
  exists macro body stream pad,
    (macro = Some 236 /\ enveloped MACRO05_HEAD data body \/ macro = Some 237 /\ enveloped MACRO06_HEAD data body \/
     macro = None /\ body = data) /\
    cw = header fnc1 macro eci ++ stream ++ pad.
Proof.
  intros o data symbols eci modes um fnc1 cw s H. apply encode_internal_ok in H.
  destruct H as (_ & _ & macro & body & e1 & CASE & (stream & C1) & _ & C & _).
  exists macro, body, stream, (padding (et_eqb (e_encodation e1) Ascii) (cw_len e1) (num_data_codewords s - cw_len e1)).
  split; [|rewrite C, C1, app_assoc; reflexivity].
  destruct CASE as [(-> & _ & _ & E)|[(-> & _ & _ & E)|(-> & -> & _)]]; auto.
Qed.
Print Assumptions C16_stream_shape.

(* (iv) decoder: a Macro codeword in first position re-creates header and trailer around the decoded rest;
   an FNC1 in first position is consumed without output *)
Theorem C16_decoder_macro05 : forall rest d, decode_data (236 :: rest) = Ok d -> exists body, d = MACRO05_HEAD ++ body ++ MACRO_TRAIL.
Proof. exact decode_macro05. Qed.
Print Assumptions C16_decoder_macro05.
Theorem C16_decoder_macro06 : forall rest d, decode_data (237 :: rest) = Ok d -> exists body, d = MACRO06_HEAD ++ body ++ MACRO_TRAIL.
Proof. exact decode_macro06. Qed.
Print Assumptions C16_decoder_macro06.
Theorem C16_decoder_fnc1 : forall rest raw, decode_parts (232 :: rest) raw =
  (let* (out, ecis) := decode_loop (2 * length rest + 2) (mkrd rest 1) Ascii [] [] in Ok (mkparts out ecis true)).
Proof. exact decode_fnc1_first. Qed.
Print Assumptions C16_decoder_fnc1.

(* (v) the lossless part as a theorem for the ASCII-only configuration: every message in the Macro 05 / 06 envelope
   (any body of bytes), every symbol list, every admissible sort -- the stream is the macro codeword followed by a legal
   ASCII script for the body and padding, and the decoder returns the whole message (Proofs/MacroAscii.v + C04) *)
Theorem C16_macro_roundtrip_ascii_only : forall sorter data symbols body m head cw s,
  (forall k l l', sorter symbols k l = Ok l' -> incl l' l) -> bytes_ok body = true ->
  (m = 236 /\ head = MACRO05_HEAD) \/ (m = 237 /\ head = MACRO06_HEAD) ->
  data = head ++ body ++ MACRO_TRAIL ->
  encode_data_internal (optimize_fn sorter) data symbols None 1 true false = Ok (cw, s) ->
  (exists npad, script_ok [SAscii (greedy body)] npad = true /\ cw = stream_with m [SAscii (greedy body)] npad) /\
  decode_data cw = Ok data.
Proof. exact macro_ascii_roundtrip. Qed.
Print Assumptions C16_macro_roundtrip_ascii_only.

Theorem C16_fnc1_roundtrip_ascii_only : forall sorter data symbols use_macros cw s,
  (forall k l l', sorter symbols k l = Ok l' -> incl l' l) -> bytes_ok data = true ->
  encode_data_internal (optimize_fn sorter) data symbols None 1 use_macros true = Ok (cw, s) ->
  (exists npad, script_ok [SAscii (greedy data)] npad = true /\ cw = stream_with 232 [SAscii (greedy data)] npad) /\
  decode_data cw = Ok data.
Proof. exact fnc1_ascii_roundtrip. Qed.
Print Assumptions C16_fnc1_roundtrip_ascii_only.

(* (vi) the same for every mode set within {ASCII, Base256} (the sets {ASCII}, {Base256}, {ASCII, Base256}), whatever plan the
   optimiser returns: the stream is the header codeword followed by a legal script of ASCII runs and Base256 fields spelling
   the body, and the decoder returns the whole message (Proofs/EncAB.v with a header codeword + C04) *)
Theorem C16_macro_roundtrip_ab : forall sorter data symbols modes body m head cw s,
  (forall k l l', sorter symbols k l = Ok l' -> incl l' l) ->
  (forall mo, enabled modes mo = true -> mo = Ascii \/ mo = Base256) -> bytes_ok body = true ->
  (m = 236 /\ head = MACRO05_HEAD) \/ (m = 237 /\ head = MACRO06_HEAD) ->
  data = head ++ body ++ MACRO_TRAIL ->
  encode_data_internal (optimize_fn sorter) data symbols None modes true false = Ok (cw, s) ->
  (exists script npad, script_ok script npad = true /\ cw = stream_with m script npad /\ meaning script = body /\ Forall ab_seg script) /\
  decode_data cw = Ok data.
Proof. exact macro_ab_roundtrip. Qed.
Print Assumptions C16_macro_roundtrip_ab.

Theorem C16_fnc1_roundtrip_ab : forall sorter data symbols modes use_macros cw s,
  (forall k l l', sorter symbols k l = Ok l' -> incl l' l) ->
  (forall mo, enabled modes mo = true -> mo = Ascii \/ mo = Base256) -> bytes_ok data = true ->
  encode_data_internal (optimize_fn sorter) data symbols None modes use_macros true = Ok (cw, s) ->
  (exists script npad, script_ok script npad = true /\ cw = stream_with 232 script npad /\ meaning script = data /\ Forall ab_seg script) /\
  decode_data cw = Ok data.
Proof. exact fnc1_ab_roundtrip. Qed.
Print Assumptions C16_fnc1_roundtrip_ab.

(* the same for every mode set within {ASCII, X12} *)
Theorem C16_macro_roundtrip_ax : forall sorter data symbols modes body m head cw s,
  (forall k l l', sorter symbols k l = Ok l' -> incl l' l) ->
  (forall mo, enabled modes mo = true -> mo = Ascii \/ mo = X12) -> bytes_ok body = true ->
  (m = MACRO05 /\ head = MACRO05_HEAD) \/ (m = MACRO06 /\ head = MACRO06_HEAD) ->
  data = head ++ body ++ MACRO_TRAIL ->
  encode_data_internal (optimize_fn sorter) data symbols None modes true false = Ok (cw, s) ->
  (exists script npad, script_ok script npad = true /\ cw = stream_with m script npad /\ meaning script = body /\ Forall ax_seg script) /\
  decode_data cw = Ok data.
Proof. exact macro_ax_roundtrip. Qed.
Print Assumptions C16_macro_roundtrip_ax.

Theorem C16_fnc1_roundtrip_ax : forall sorter data symbols modes use_macros cw s,
  (forall k l l', sorter symbols k l = Ok l' -> incl l' l) ->
  (forall mo, enabled modes mo = true -> mo = Ascii \/ mo = X12) -> bytes_ok data = true ->
  encode_data_internal (optimize_fn sorter) data symbols None modes use_macros true = Ok (cw, s) ->
  (exists script npad, script_ok script npad = true /\ cw = stream_with 232 script npad /\ meaning script = data /\ Forall ax_seg script) /\
  decode_data cw = Ok data.
Proof. exact fnc1_ax_roundtrip. Qed.
Print Assumptions C16_fnc1_roundtrip_ax.

(* the same for every mode set within {ASCII, C40} (text = false) and within {ASCII, Text} (text = true) *)
Theorem C16_macro_roundtrip_ac : forall (text : bool) sorter data symbols modes body m head cw s,
  (forall k l l', sorter symbols k l = Ok l' -> incl l' l) ->
  (forall mo, enabled modes mo = true -> mo = Ascii \/ mo = (if text then Text else C40)) -> bytes_ok body = true ->
  (m = MACRO05 /\ head = MACRO05_HEAD) \/ (m = MACRO06 /\ head = MACRO06_HEAD) ->
  data = head ++ body ++ MACRO_TRAIL ->
  encode_data_internal (optimize_fn sorter) data symbols None modes true false = Ok (cw, s) ->
  (exists script npad, script_ok script npad = true /\ cw = stream_with m script npad /\ meaning script = body /\ Forall (ac_seg text) script) /\
  decode_data cw = Ok data.
Proof. exact macro_ac_roundtrip. Qed.
Print Assumptions C16_macro_roundtrip_ac.

Theorem C16_fnc1_roundtrip_ac : forall (text : bool) sorter data symbols modes use_macros cw s,
  (forall k l l', sorter symbols k l = Ok l' -> incl l' l) ->
  (forall mo, enabled modes mo = true -> mo = Ascii \/ mo = (if text then Text else C40)) -> bytes_ok data = true ->
  encode_data_internal (optimize_fn sorter) data symbols None modes use_macros true = Ok (cw, s) ->
  (exists script npad, script_ok script npad = true /\ cw = stream_with 232 script npad /\ meaning script = data /\ Forall (ac_seg text) script) /\
  decode_data cw = Ok data.
Proof. exact fnc1_ac_roundtrip. Qed.
Print Assumptions C16_fnc1_roundtrip_ac.

(* and for any planner and mode set (the default configuration included) whenever the plan for the body mixes only ASCII, Base256, X12, C40 and
   Text and no non-ASCII run starts within the last two characters (`p5b`, Proofs/EncMulti.v; the planner is called with one codeword written) *)
Theorem C16_macro_roundtrip_mixed : forall optimize_fn symbols modes msg body m head cw s,
  (forall p, optimize_fn body 1 symbols modes = Ok (Some p) -> p5b p = true) -> bytes_ok body = true ->
  (m = MACRO05 /\ head = MACRO05_HEAD) \/ (m = MACRO06 /\ head = MACRO06_HEAD) ->
  msg = head ++ body ++ MACRO_TRAIL ->
  encode_data_internal optimize_fn msg symbols None modes true false = Ok (cw, s) ->
  (exists script npad, script_ok script npad = true /\ cw = stream_with m script npad /\ meaning script = body /\ Forall seg_no_edi script) /\
  decode_data cw = Ok msg.
Proof. intros o sy mo msg b m h cw s HP OK HM HD H. exact (macro_plan5_roundtrip o sy mo msg b m h cw s (fun p E => p5b_P5 p (HP p E)) OK HM HD H). Qed.
Print Assumptions C16_macro_roundtrip_mixed.

Theorem C16_fnc1_roundtrip_mixed : forall optimize_fn symbols modes msg use_macros cw s,
  (forall p, optimize_fn msg 1 symbols modes = Ok (Some p) -> p5b p = true) -> bytes_ok msg = true ->
  encode_data_internal optimize_fn msg symbols None modes use_macros true = Ok (cw, s) ->
  (exists script npad, script_ok script npad = true /\ cw = stream_with 232 script npad /\ meaning script = msg /\ Forall seg_no_edi script) /\
  decode_data cw = Ok msg.
Proof. intros o sy mo msg um cw s HP OK H. exact (fnc1_plan5_roundtrip o sy mo msg um cw s (fun p E => p5b_P5 p (HP p E)) OK H). Qed.
Print Assumptions C16_fnc1_roundtrip_mixed.

(* NOT a theorem here: that the body decodes to itself under the plans that use C40, Text, X12 or EDIFACT (the round trip through
   those mode encoders and the decoder) -- decided per case by the correspondence + reference decoder + certificate, see DESIGN.md. *)

(* the hypotheses are satisfiable: the bare header is returned verbatim, an enveloped message is stripped *)
Example C16_example_bare_header :
  use_macro_if_possible (with_size MACRO05_HEAD [] 63 false) = Ok (with_size MACRO05_HEAD [] 63 false).
Proof. reflexivity. Qed.
Example C16_example_stripped :
  use_macro_if_possible (with_size (MACRO06_HEAD ++ [65; 66] ++ MACRO_TRAIL) [] 63 false)
  = Ok (strip_to (with_size (MACRO06_HEAD ++ [65; 66] ++ MACRO_TRAIL) [] 63 false) [65; 66] 237).
Proof. reflexivity. Qed.

(* the hypotheses of (vi) are satisfiable: an enveloped message with a Latin-1 body under the mode set {ASCII, Base256} *)
Example C16_example_ab :
  match encode_data_internal (optimize_fn stable_sorter) (MACRO05_HEAD ++ [65; 200; 201; 202; 203; 204; 66] ++ MACRO_TRAIL) sl_default None 33 true false with
  | Ok (cw, _) => hd 0 cw = 236 /\ decode_data cw = Ok (MACRO05_HEAD ++ [65; 200; 201; 202; 203; 204; 66] ++ MACRO_TRAIL)
  | _ => False
  end.
Proof. vm_compute. split; reflexivity. Qed.
