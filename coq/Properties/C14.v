(* Properties/C14.v -- String API round trip with automatic ECI selection (the parts that are theorems). *)
From Coq Require Import Arith NArith List Bool.
From DM Require Import Generated.Symbols Generated.ModeTables Generated.Charsets Spec.Eci Model.Outcome Model.SymbolList Model.Planner
  Model.Eci Model.Enc Model.Api Proofs.EciProofs Proofs.EncLocal Proofs.EncTop Proofs.Latin1.
Import ListNotations.
Local Open Scope N_scope.

(* (i) both helper tables (regenerated from src/data.rs) are the identity on exactly the printable ISO/IEC 8859-1
   repertoire 0x20..0x7E, 0xA0..0xFF and undefined elsewhere -- for every value of N, not only those < 256 *)
Theorem C14_tables : forall c, utf8_to_latin1_ch c = iso_8859_1 c /\ latin1_to_utf8_ch c = iso_8859_1 c.
Proof. intros c. split; [apply utf8_to_latin1_ch_spec|apply latin1_to_utf8_ch_spec]. Qed.
Print Assumptions C14_tables.

Theorem C14_helpers : forall s,
  utf8_to_latin1 s = (if forallb printable s then Some s else None) /\
  latin1_to_utf8 s = (if forallb printable s then Some s else None).
Proof. intros s. split; [apply utf8_to_latin1_spec|apply latin1_to_utf8_spec']. Qed.
Print Assumptions C14_helpers.

(* mutually inverse on their domains *)
Theorem C14_inverse : forall s l, utf8_to_latin1 s = Some l <-> latin1_to_utf8 l = Some s.
Proof. intros s l. split; [apply latin1_inverse_1|apply latin1_inverse_2]. Qed.
Print Assumptions C14_inverse.

(* (ii) the choice: byte-for-byte Latin-1 and no ECI exactly for printable Latin-1 strings; UTF-8 + ECI 26 otherwise *)
Theorem C14_choice : forall sorter text symbols,
  encode_str sorter text symbols =
    if forallb printable text then encode_eci sorter text symbols 63 true false None
    else encode_eci sorter (utf8_encode text) symbols 63 true false (Some 26).
Proof. exact encode_str_choice. Qed.
Print Assumptions C14_choice.

(* (iii) the stream then starts with [macro codeword]? ++ [241; 27] (ECI 26) resp. carries no 241 header *)
Theorem C14_eci_header : forall optimize_fn data symbols modes cw s,
  encode_data_internal optimize_fn data symbols (Some 26) modes true false = Ok (cw, s) ->
  exists macro rest, cw = (match macro with Some m => [m] | None => [] end) ++ [241; 27] ++ rest.
Proof.
  intros o data sy m cw s H. apply encode_internal_ok in H.
  destruct H as (_ & _ & macro & body & e1 & _ & (stream & C1) & _ & C & _).
  exists macro. eexists. rewrite C, C1. unfold header, eci_header. cbn [app]. rewrite <- !app_assoc. reflexivity.
Qed.
Print Assumptions C14_eci_header.

(* (iv) decoding side: an ECI 26 chunk is decoded as UTF-8, chunks without ECI as Latin-1 (see C15) *)
Theorem C14_utf8_roundtrip : forall s, forallb is_scalar s = true -> from_utf8 (utf8_encode s) = Some s.
Proof. exact from_utf8_complete. Qed.
Print Assumptions C14_utf8_roundtrip.

(* NOT a theorem here: the round trip through the mode encoders and decode_str; decided per case. *)
Example C14_example : utf8_to_latin1 [72; 228; 8364] = None /\ utf8_to_latin1 [72; 228; 255] = Some [72; 228; 255].
Proof. split; reflexivity. Qed.
