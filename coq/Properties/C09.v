(* Properties/C09.v -- Error correction never reports success on a word that is not a codeword. *)
From Coq Require Import Arith NArith List Bool.
From DM Require Import Generated.Symbols Spec.GF256 Spec.Poly Spec.RSCode Model.Outcome Model.RSEnc Model.RSDec
  Proofs.RSDecProofs.
Import ListNotations.

(* For every symbol size and EVERY received word of the symbol's length (any number of errors):
   if the model of decode_error returns success, the word it leaves behind (same length, bytes)
   is a codeword of the interleaved code of Spec/RSCode.v, and re-encoding its data part with the
   model of encode_error reproduces its error-correction part. *)
Theorem C09_full : forall s cw c',
  length cw = N.to_nat (num_data_codewords s + num_ecc_blocks s * num_ecc_per_block s) -> Forall byte cw ->
  RSDec.decode cw s = Ok c' ->
  let nd := N.to_nat (num_data_codewords s) in
  length c' = length cw /\ Forall byte c' /\
  is_codeword (N.to_nat (num_ecc_blocks s)) (N.to_nat (num_ecc_per_block s)) (firstn nd c') (skipn nd c') /\
  encode_error s (firstn nd c') = Ok (skipn nd c').
Proof. exact decode_success_codeword. Qed.
Print Assumptions C09_full.

(* the two facts it rests on, of independent interest *)
(* a polynomial of degree < n vanishing at n pairwise different points is zero *)
Theorem C09_roots : forall (xs p : list F), NoDup xs -> length p = length xs ->
  (forall x, In x xs -> peval p x = F0) -> Forall (fun c => c = F0) p.
Proof. exact roots_zero. Qed.
Print Assumptions C09_roots.

(* the loop of primitive_element_evaluation computes c(alpha^1), ..., c(alpha^k) *)
Theorem C09_syndromes : forall c k, Forall byte c ->
  map toF (fst (primitive_element_evaluation c k)) = map (fun j => peval (map toF c) (Fpow Falpha j)) (seq 1 k).
Proof. intros c k H. exact (proj2 (syndromes_spec c k H)). Qed.
Print Assumptions C09_syndromes.

(* non-vacuity: a damaged 10x10 word is accepted (and repaired); the former witness of the defect is refused *)
Example C09_example :
  RSDec.decode [23; 40; 11; 0; 207; 37; 244; 81]%N Square10 = Ok [23; 40; 11; 255; 207; 37; 244; 81]%N /\
  RSDec.decode [38; 44; 61; 37; 11; 205; 96; 27]%N Square10 = Err Malfunction.
Proof. split; vm_compute; reflexivity. Qed.
