(* Properties/C02.v -- Encoder output is a conformant ISO/IEC 16022 data codeword stream (the parts that are theorems). *)
From Coq Require Import Arith NArith List Bool.
From DM Require Import Generated.Symbols Generated.ModeTables Spec.GF256 Spec.RSCode Model.Outcome Model.SymbolList Model.Planner Model.Enc
  Model.RSEnc Model.GF Model.PlannerRun Model.Api Proofs.SymbolListProofs Proofs.RSEncProofs Proofs.RSEncLen Proofs.EncLocal Proofs.EncTop Spec.Stream16022 Spec.Recognise Model.Dec Proofs.EncAscii Proofs.PlanAscii Proofs.EncB256 Proofs.DecScript Proofs.Certify Proofs.EncAB Proofs.EncAX Proofs.EncAC Proofs.EncMulti.
Import ListNotations.
Local Open Scope N_scope.

(* (i) symbol from the supplied list, exactly its number of data codewords -- every input, list, mode set, option, planner *)
Theorem C02_symbol_and_length : forall optimize_fn data symbols eci modes use_macros fnc1 cw s,
  encode_data_internal optimize_fn data symbols eci modes use_macros fnc1 = Ok (cw, s) ->
  In s symbols /\ N.of_nat (length cw) = num_data_codewords s.
Proof. intros o d sy e m u f cw s H. apply encode_internal_ok in H. destruct H as (A & B & _). split; assumption. Qed.
Print Assumptions C02_symbol_and_length.

(* (ii) ... followed by exactly its number of error codewords, forming Reed-Solomon codewords (C06) *)
Theorem C02_error_codewords : forall s d, length d = N.to_nat (num_data_codewords s) -> Forall byte d ->
  exists e, encode_error s d = Ok e /\ length e = (N.to_nat (num_ecc_per_block s) * N.to_nat (num_ecc_blocks s))%nat /\
    is_codeword (N.to_nat (num_ecc_blocks s)) (N.to_nat (num_ecc_per_block s)) d e.
Proof. intros s d L B. destruct (encode_error_codeword s d L B) as (e & A & C & _ & D). exists e. repeat split; assumption. Qed.
Print Assumptions C02_error_codewords.

(* (ii') at the entry point DataMatrixBuilder::encode_eci, for every sort order: the codeword vector is the data
   codewords followed by exactly the symbol's number of error codewords (no byte-range hypothesis needed) *)
Theorem C02_codeword_vector : forall sorter data symbols modes use_macros fnc1 eci s cw all,
  encode_eci sorter data symbols modes use_macros fnc1 eci = Ok (s, cw, all) ->
  In s symbols /\ N.of_nat (length cw) = num_data_codewords s /\
  exists ecc, all = cw ++ ecc /\ length ecc = (N.to_nat (num_ecc_per_block s) * N.to_nat (num_ecc_blocks s))%nat.
Proof.
  intros sorter data symbols modes um fnc1 eci s cw all. unfold encode_eci.
  destruct (encode_data_internal _ _ _ _ _ _ _) as [[cw' s']| |] eqn:E; cbn [bind]; try discriminate.
  destruct (encode_error s' cw') as [ecc| |] eqn:EE; try discriminate. intros [= <- <- <-].
  apply encode_internal_ok in E. destruct E as (A & B & _). split; [exact A|]. split; [exact B|].
  exists ecc. split; [reflexivity|]. eapply encode_error_length; exact EE.
Qed.
Print Assumptions C02_codeword_vector.

(* (iii) unused capacity: nothing is ever removed from what the mode encoders wrote, and what follows it is -- if the
   stream does not fill the symbol -- [254 if the encoder is not in ASCII mode], then 129, then pads randomised with
   the 253-state algorithm at their 1-based positions; `padding` and `pad_byte` are defined in Proofs/EncLocal.v *)
Theorem C02_padding : forall optimize_fn data symbols eci modes use_macros fnc1 cw s,
  encode_data_internal optimize_fn data symbols eci modes use_macros fnc1 = Ok (cw, s) ->
  exists stream ascii, N.of_nat (length stream) <= num_data_codewords s /\
    cw = stream ++ padding ascii (N.of_nat (length stream)) (num_data_codewords s - N.of_nat (length stream)).
Proof.
  intros o d sy e m u f cw s H. apply encode_internal_ok in H.
  destruct H as (_ & _ & macro & body & e1 & _ & _ & FF & C & _).
  exists (e_cw e1), (et_eqb (e_encodation e1) Ascii). split; [|exact C].
  unfold first_symbol_big_enough_for in FF. apply find_some in FF. apply N.leb_le, FF.
Qed.
Print Assumptions C02_padding.

Theorem C02_padding_form : forall ascii len left,
  padding ascii len left =
    if left =? 0 then []
    else if ascii then 129 :: rpads (len + 1) (N.to_nat (left - 1))
    else 254 :: (if 0 <? left - 1 then 129 :: rpads (len + 2) (N.to_nat (left - 2)) else []).
Proof. reflexivity. Qed.
Print Assumptions C02_padding_form.

Theorem C02_randomised_pad : forall len n i, (i < n)%nat ->
  nth i (rpads len n) 0 =
    (let pos := len + N.of_nat i + 1 in let v := 129 + ((149 * pos) mod 253 + 1) in if v <=? 254 then v else v - 254).
Proof.
  intros len n; revert len; induction n as [|n IH]; intros len i Hi; [inversion Hi|].
  destruct i as [|i]; cbn [rpads nth].
  - unfold pad_byte, ascii_PAD. rewrite N.add_0_r. reflexivity.
  - rewrite IH by (apply Nat.succ_lt_mono; exact Hi). cbv zeta.
    replace (len + 1 + N.of_nat i + 1) with (len + N.of_nat (S i) + 1) by (rewrite Nat2N.inj_succ, <- N.add_1_r, !N.add_assoc, (N.add_comm _ 1), !N.add_assoc; f_equal; f_equal; apply N.add_comm).
    reflexivity.
Qed.
Print Assumptions C02_randomised_pad.

(* (iv) the header: FNC1 232, Macro 236/237, ECI 241 + designator come first, in this order (see C16 for the iff) *)
Theorem C02_header : forall optimize_fn data symbols eci modes use_macros fnc1 cw s,
  encode_data_internal optimize_fn data symbols eci modes use_macros fnc1 = Ok (cw, s) ->
  exists macro rest, cw = header fnc1 macro eci ++ rest.
Proof.
  intros o d sy e m u f cw s H. apply encode_internal_ok in H.
  destruct H as (_ & _ & macro & body & e1 & _ & (stream & C1) & _ & C & _).
  exists macro. eexists. rewrite C, C1, <- app_assoc. reflexivity.
Qed.
Print Assumptions C02_header.

(* (v) full conformance in the first case: when the planner answers "stay in ASCII" (plan [(0, Ascii)]) the whole
   stream IS the rendering of a legal script of Spec/Stream16022.v (ASCII values, greedy digit pairs, Upper Shift,
   then the standard's padding), for every byte string and symbol list *)
Theorem C02_ascii_plan_conformant : forall optimize_fn data symbols modes cw s,
  optimize_fn data 0 symbols modes = Ok (Some [(0, Ascii)]) -> bytes_ok data = true ->
  encode_data_internal optimize_fn data symbols None modes false false = Ok (cw, s) ->
  exists npad, script_ok [SAscii (greedy data)] npad = true /\ cw = stream [SAscii (greedy data)] npad.
Proof. intros o d sy m cw s HP OK H. exact (proj1 (ascii_plan_roundtrip o d sy m cw s HP OK H)). Qed.
Print Assumptions C02_ascii_plan_conformant.

Theorem C02_ascii_only_conformant : forall sorter data symbols cw s,
  (forall k l l', sorter symbols k l = Ok l' -> incl l' l) -> bytes_ok data = true ->
  encode_data_internal (optimize_fn sorter) data symbols None 1 false false = Ok (cw, s) ->
  exists npad, script_ok [SAscii (greedy data)] npad = true /\ cw = stream [SAscii (greedy data)] npad.
Proof. intros so d sy cw s HS OK H. exact (proj1 (ascii_only_roundtrip so d sy cw s HS OK H)). Qed.
Print Assumptions C02_ascii_only_conformant.

Theorem C02_base256_only_conformant : forall sorter data symbols cw s,
  (forall k l l', sorter symbols k l = Ok l' -> incl l' l) -> bytes_ok data = true ->
  encode_data_internal (optimize_fn sorter) data symbols None 32 false false = Ok (cw, s) ->
  exists script npad, script_ok script npad = true /\ cw = stream script npad /\ meaning script = data.
Proof. intros so d sy cw s HS OK H. exact (proj1 (b256_only_roundtrip so d sy cw s HS OK H)). Qed.
Print Assumptions C02_base256_only_conformant.

(* full conformance for EVERY plan over ASCII and Base256 (any switch positions; the plan itself is not characterised),
   hence for the crate's optimiser under every mode set within {ASCII, Base256}: the stream is a sequence of ASCII runs
   and Base256 fields with explicit length -- the last field in the run-to-the-end form exactly when it fills the
   symbol -- followed by the standard's padding *)
Theorem C02_ab_plan_conformant : forall optimize_fn data symbols modes cw s,
  (forall p, optimize_fn data 0 symbols modes = Ok (Some p) -> Forall (fun e => snd e = Ascii \/ snd e = Base256) p) ->
  bytes_ok data = true ->
  encode_data_internal optimize_fn data symbols None modes false false = Ok (cw, s) ->
  exists script npad, script_ok script npad = true /\ cw = stream script npad /\ meaning script = data /\ Forall ab_seg script.
Proof. intros o d sy m cw s HP OK H. exact (proj1 (ab_plan_roundtrip o sy m d HP cw s OK H)). Qed.
Print Assumptions C02_ab_plan_conformant.

Theorem C02_ascii_base256_conformant : forall sorter data symbols cw s,
  (forall k l l', sorter symbols k l = Ok l' -> incl l' l) -> bytes_ok data = true ->
  encode_data_internal (optimize_fn sorter) data symbols None 33 false false = Ok (cw, s) ->
  exists script npad, script_ok script npad = true /\ cw = stream script npad /\ meaning script = data /\ Forall ab_seg script.
Proof. intros so d sy cw s HS OK H. exact (proj1 (ascii_base256_roundtrip so d sy cw s HS OK H)). Qed.
Print Assumptions C02_ascii_base256_conformant.

(* the same behind a Macro 05 / 06 codeword or an FNC1 start (one header codeword, then the body under any plan over the two modes) *)
Theorem C02_macro_ab_conformant : forall sorter data symbols modes body m head cw s,
  (forall k l l', sorter symbols k l = Ok l' -> incl l' l) ->
  (forall mo, enabled modes mo = true -> mo = Ascii \/ mo = Base256) -> bytes_ok body = true ->
  (m = 236 /\ head = MACRO05_HEAD) \/ (m = 237 /\ head = MACRO06_HEAD) -> data = head ++ body ++ MACRO_TRAIL ->
  encode_data_internal (optimize_fn sorter) data symbols None modes true false = Ok (cw, s) ->
  exists script npad, script_ok script npad = true /\ cw = stream_with m script npad /\ meaning script = body /\ Forall ab_seg script.
Proof. intros so d sy mo b m h cw s HS HM OK HH HD H. exact (proj1 (macro_ab_roundtrip so d sy mo b m h cw s HS HM OK HH HD H)). Qed.
Print Assumptions C02_macro_ab_conformant.

Theorem C02_fnc1_ab_conformant : forall sorter data symbols modes use_macros cw s,
  (forall k l l', sorter symbols k l = Ok l' -> incl l' l) ->
  (forall mo, enabled modes mo = true -> mo = Ascii \/ mo = Base256) -> bytes_ok data = true ->
  encode_data_internal (optimize_fn sorter) data symbols None modes use_macros true = Ok (cw, s) ->
  exists script npad, script_ok script npad = true /\ cw = stream_with 232 script npad /\ meaning script = data /\ Forall ab_seg script.
Proof. intros so d sy mo um cw s HS HM OK H. exact (proj1 (fnc1_ab_roundtrip so d sy mo um cw s HS HM OK H)). Qed.
Print Assumptions C02_fnc1_ab_conformant.

(* the same for every mode set within {ASCII, X12}: the stream is the rendering of a legal script of ASCII runs and X12 runs
   (Proofs/EncAX.v) *)
Theorem C02_ax_conformant : forall sorter data symbols modes cw s,
  (forall k l l', sorter symbols k l = Ok l' -> incl l' l) ->
  (forall mo, enabled modes mo = true -> mo = Ascii \/ mo = X12) -> bytes_ok data = true ->
  encode_data_internal (optimize_fn sorter) data symbols None modes false false = Ok (cw, s) ->
  exists script npad, script_ok script npad = true /\ cw = stream script npad /\ meaning script = data /\ Forall ax_seg script.
Proof. intros so d sy mo cw s HS HM OK H. exact (proj1 (ax_modes_roundtrip so d sy mo cw s HS HM OK H)). Qed.
Print Assumptions C02_ax_conformant.

Theorem C02_macro_ax_conformant : forall sorter data symbols modes body m head cw s,
  (forall k l l', sorter symbols k l = Ok l' -> incl l' l) ->
  (forall mo, enabled modes mo = true -> mo = Ascii \/ mo = X12) -> bytes_ok body = true ->
  (m = MACRO05 /\ head = MACRO05_HEAD) \/ (m = MACRO06 /\ head = MACRO06_HEAD) ->
  data = head ++ body ++ MACRO_TRAIL ->
  encode_data_internal (optimize_fn sorter) data symbols None modes true false = Ok (cw, s) ->
  exists script npad, script_ok script npad = true /\ cw = stream_with m script npad /\ meaning script = body /\ Forall ax_seg script.
Proof. intros so d sy mo b m h cw s HS HM OK HH HD H. exact (proj1 (macro_ax_roundtrip so d sy mo b m h cw s HS HM OK HH HD H)). Qed.
Print Assumptions C02_macro_ax_conformant.

Theorem C02_fnc1_ax_conformant : forall sorter data symbols modes use_macros cw s,
  (forall k l l', sorter symbols k l = Ok l' -> incl l' l) ->
  (forall mo, enabled modes mo = true -> mo = Ascii \/ mo = X12) -> bytes_ok data = true ->
  encode_data_internal (optimize_fn sorter) data symbols None modes use_macros true = Ok (cw, s) ->
  exists script npad, script_ok script npad = true /\ cw = stream_with 232 script npad /\ meaning script = data /\ Forall ax_seg script.
Proof. intros so d sy mo um cw s HS HM OK H. exact (proj1 (fnc1_ax_roundtrip so d sy mo um cw s HS HM OK H)). Qed.
Print Assumptions C02_fnc1_ax_conformant.

(* the same for every mode set within {ASCII, C40} (text = false) and within {ASCII, Text} (text = true): Proofs/EncAC.v *)
Theorem C02_ac_conformant : forall (text : bool) sorter data symbols modes cw s,
  (forall k l l', sorter symbols k l = Ok l' -> incl l' l) ->
  (forall mo, enabled modes mo = true -> mo = Ascii \/ mo = (if text then Text else C40)) -> bytes_ok data = true ->
  encode_data_internal (optimize_fn sorter) data symbols None modes false false = Ok (cw, s) ->
  exists script npad, script_ok script npad = true /\ cw = stream script npad /\ meaning script = data /\ Forall (ac_seg text) script.
Proof. intros t so d sy mo cw s HS HM OK H. exact (proj1 (ac_modes_roundtrip t so d sy mo cw s HS HM OK H)). Qed.
Print Assumptions C02_ac_conformant.

Theorem C02_macro_ac_conformant : forall (text : bool) sorter data symbols modes body m head cw s,
  (forall k l l', sorter symbols k l = Ok l' -> incl l' l) ->
  (forall mo, enabled modes mo = true -> mo = Ascii \/ mo = (if text then Text else C40)) -> bytes_ok body = true ->
  (m = MACRO05 /\ head = MACRO05_HEAD) \/ (m = MACRO06 /\ head = MACRO06_HEAD) ->
  data = head ++ body ++ MACRO_TRAIL ->
  encode_data_internal (optimize_fn sorter) data symbols None modes true false = Ok (cw, s) ->
  exists script npad, script_ok script npad = true /\ cw = stream_with m script npad /\ meaning script = body /\ Forall (ac_seg text) script.
Proof. intros t so d sy mo b m h cw s HS HM OK HH HD H. exact (proj1 (macro_ac_roundtrip t so d sy mo b m h cw s HS HM OK HH HD H)). Qed.
Print Assumptions C02_macro_ac_conformant.

Theorem C02_fnc1_ac_conformant : forall (text : bool) sorter data symbols modes use_macros cw s,
  (forall k l l', sorter symbols k l = Ok l' -> incl l' l) ->
  (forall mo, enabled modes mo = true -> mo = Ascii \/ mo = (if text then Text else C40)) -> bytes_ok data = true ->
  encode_data_internal (optimize_fn sorter) data symbols None modes use_macros true = Ok (cw, s) ->
  exists script npad, script_ok script npad = true /\ cw = stream_with 232 script npad /\ meaning script = data /\ Forall (ac_seg text) script.
Proof. intros t so d sy mo um cw s HS HM OK H. exact (proj1 (fnc1_ac_roundtrip t so d sy mo um cw s HS HM OK H)). Qed.
Print Assumptions C02_fnc1_ac_conformant.

(* and for plans that mix ASCII, Base256, X12, C40 and Text (any planner, any mode set -- the default configuration included) in which no
   non-ASCII run starts within the last two characters (`p5b`, Proofs/EncMulti.v): the stream is the rendering of a legal script without
   EDIFACT segments *)
Theorem C02_mixed_plan_conformant : forall optimize_fn data symbols modes cw s,
  (forall p, optimize_fn data 0 symbols modes = Ok (Some p) -> p5b p = true) -> bytes_ok data = true ->
  encode_data_internal optimize_fn data symbols None modes false false = Ok (cw, s) ->
  exists script npad, script_ok script npad = true /\ cw = stream script npad /\ meaning script = data /\ Forall seg_no_edi script.
Proof. intros o d sy m cw s HP OK H. exact (proj1 (plan5_roundtrip o sy m d (fun p E => p5b_P5 p (HP p E)) cw s OK H)). Qed.
Print Assumptions C02_mixed_plan_conformant.

Theorem C02_mixed_plan_macro_conformant : forall optimize_fn symbols modes msg body m head cw s,
  (forall p, optimize_fn body 1 symbols modes = Ok (Some p) -> p5b p = true) -> bytes_ok body = true ->
  (m = MACRO05 /\ head = MACRO05_HEAD) \/ (m = MACRO06 /\ head = MACRO06_HEAD) ->
  msg = head ++ body ++ MACRO_TRAIL ->
  encode_data_internal optimize_fn msg symbols None modes true false = Ok (cw, s) ->
  exists script npad, script_ok script npad = true /\ cw = stream_with m script npad /\ meaning script = body /\ Forall seg_no_edi script.
Proof. intros o sy mo msg b m h cw s HP OK HM HD H. exact (proj1 (macro_plan5_roundtrip o sy mo msg b m h cw s (fun p E => p5b_P5 p (HP p E)) OK HM HD H)). Qed.
Print Assumptions C02_mixed_plan_macro_conformant.

Theorem C02_mixed_plan_fnc1_conformant : forall optimize_fn symbols modes msg use_macros cw s,
  (forall p, optimize_fn msg 1 symbols modes = Ok (Some p) -> p5b p = true) -> bytes_ok msg = true ->
  encode_data_internal optimize_fn msg symbols None modes use_macros true = Ok (cw, s) ->
  exists script npad, script_ok script npad = true /\ cw = stream_with 232 script npad /\ meaning script = msg /\ Forall seg_no_edi script.
Proof. intros o sy mo msg um cw s HP OK H. exact (proj1 (fnc1_plan5_roundtrip o sy mo msg um cw s (fun p E => p5b_P5 p (HP p E)) OK H)). Qed.
Print Assumptions C02_mixed_plan_fnc1_conformant.


(* (vi) for the other plans conformance is decided per output by a certificate whose check is proved sound here: the
   check run (extracted) on every stream the implementation produces accepts only if the stream is the rendering of a
   legal script of Spec/Stream16022.v spelling exactly the input bytes -- and then the model of the decoder returns
   them (C04).  Nothing about the recogniser that guesses the script is assumed. *)
Theorem C02_certificate_sound : forall cw data, certify None cw data = true ->
  exists segs npad, script_ok segs npad = true /\ cw = stream segs npad /\ meaning segs = data /\ decode_data cw = Ok data.
Proof. exact certify_sound. Qed.
Print Assumptions C02_certificate_sound.

Theorem C02_certificate_sound_prefixed : forall m cw data, certify (Some m) cw data = true ->
  exists segs npad, script_ok segs npad = true /\ cw = stream_with m segs npad /\ meaning segs = data.
Proof. exact certify_sound_prefix. Qed.
Print Assumptions C02_certificate_sound_prefixed.

Theorem C02_certificate_decodes : forall cw data,
  (certify (Some 236) cw data = true -> decode_data cw = Ok (MACRO05_HEAD ++ data ++ MACRO_TRAIL)) /\
  (certify (Some 237) cw data = true -> decode_data cw = Ok (MACRO06_HEAD ++ data ++ MACRO_TRAIL)) /\
  (certify (Some 232) cw data = true -> decode_data cw = Ok data).
Proof. intros cw data. split; [apply certify_macro05|split; [apply certify_macro06|apply certify_fnc1]]. Qed.
Print Assumptions C02_certificate_decodes.

(* NOT a theorem here: that for EVERY input the part between header and padding is a legal ISO/IEC 16022 mode stream
   (the encoder theorem exists for two configurations only).  It is decided per output by the certificate above; streams
   with an ECI designator (outside the script language) by the independent reference decoder tools/props/refdec.py. *)
(* 3 codewords written, capacity 8: 129 at position 4, then randomised pads at positions 5..8 *)
Example C02_example : padding true 3 5 = [129; 115; 11; 161; 56].
Proof. vm_compute. reflexivity. Qed.
