(* Properties/C13.v -- Disabled encodation modes are never used (the parts that are theorems). *)
From Coq Require Import Arith NArith List Bool.
From DM Require Import Generated.Symbols Generated.ModeTables Model.Outcome Model.SymbolList Model.Planner Model.PlannerRun Model.Enc
  Model.Api Spec.Stream16022 Proofs.PlanShape Proofs.EncLatch Proofs.EncAscii Proofs.AsciiMinimal Proofs.EncAB Proofs.EncAX Proofs.EncAC.
Import ListNotations.
Local Open Scope N_scope.

(* (i) planner: every mode named by a plan is enabled -- for every input, list, mode set, start mode (enabled
   or not) and every admissible sort; `add_switches` guards each spawn, the start plan is used only if enabled *)
Theorem C13_plan_modes_enabled : forall sl sorter, (forall k l l', sorter k l = Ok l' -> incl l' l) ->
  forall data written mode modes res st,
  optimize sl sorter data written mode modes = Ok (Some res, st) ->
  forall p m, In (p, m) res -> enabled modes m = true.
Proof.
  intros sl sorter HS data written mode modes res st H p m Hin.
  destruct (optimize_shape sl sorter HS data written mode modes res st H) as (_ & M & _).
  unfold modes_ok in M. rewrite Forall_forall in M. exact (M _ Hin).
Qed.
Print Assumptions C13_plan_modes_enabled.

(* (ii) encoder: the latch to be written next is set in exactly one place, maybe_switch_mode, and is the latch
   of a (non-ASCII) mode of the plan; the end-of-data fallback set_ascii_until_end only ever selects ASCII *)
Theorem C13_latch_source : forall e b e', maybe_switch_mode e = Ok (b, e') ->
  e_new_mode e' = e_new_mode e \/
  exists p m l, In (p, m) (e_planned e) /\ et_latch_from_ascii m = Some l /\ e_new_mode e' = Some l /\ e_encodation e' = m.
Proof. intros e b e' H. exact (proj2 (proj2 (proj2 (proj2 (maybe_switch_mode_latch e b e' H))))). Qed.
Print Assumptions C13_latch_source.

Theorem C13_fallback_is_ascii : forall e,
  e_new_mode (set_ascii_until_end e) = e_new_mode e /\ e_planned (set_ascii_until_end e) = [(0, Ascii)] /\
  e_encodation (set_ascii_until_end e) = Ascii.
Proof. exact set_ascii_until_end_latch. Qed.
Print Assumptions C13_fallback_is_ascii.

(* (iii) the stream-level statement as a theorem for the ASCII-only configuration: with every mode but ASCII disabled,
   no codeword of the data part of the stream (everything before the padding) is a latch to C40, Base256, X12, Text or
   EDIFACT -- every byte string, every list, every admissible sort *)
Theorem C13_ascii_only_no_latch : forall sorter data symbols cw s,
  (forall k l l', sorter symbols k l = Ok l' -> incl l' l) -> bytes_ok data = true ->
  encode_data_internal (optimize_fn sorter) data symbols None 1 false false = Ok (cw, s) ->
  exists stream_part npad, cw = stream_part ++ pad (N.of_nat (length stream_part)) npad /\
    Forall (fun c => ~ In c [230; 231; 238; 239; 240]) stream_part.
Proof. exact ascii_only_no_latch. Qed.
Print Assumptions C13_ascii_only_no_latch.

(* (iv) the stream-level statement for every mode set within {ASCII, Base256} (in particular the configuration
   {ASCII, Base256}: C40, Text, X12 and EDIFACT disabled): the stream is the rendering of a script all of whose
   segments are ASCII runs or Base256 fields -- in the formal stream language the only latch such a script contains
   is 231 -- and every character is carried by one of these two modes (meaning script = data); every byte string,
   every list, every admissible sort *)
Theorem C13_ascii_base256_only : forall sorter data symbols modes cw s,
  (forall k l l', sorter symbols k l = Ok l' -> incl l' l) ->
  (forall m, enabled modes m = true -> m = Ascii \/ m = Base256) -> bytes_ok data = true ->
  encode_data_internal (optimize_fn sorter) data symbols None modes false false = Ok (cw, s) ->
  exists script npad, script_ok script npad = true /\ cw = stream script npad /\ meaning script = data /\
    Forall (fun sg => match sg with SAscii _ | SB256 _ | SB256End _ => True | _ => False end) script.
Proof. intros so d sy m cw s HS HM OK H. exact (proj1 (ab_modes_roundtrip so d sy m cw s HS HM OK H)). Qed.
Print Assumptions C13_ascii_base256_only.

(* the same with X12 in place of Base256: with only ASCII and X12 enabled the stream is a legal script of ASCII runs and X12 runs --
   the only latch it contains is 238 -- and every character is carried by one of these two modes *)
Theorem C13_ascii_x12_only : forall sorter data symbols modes cw s,
  (forall k l l', sorter symbols k l = Ok l' -> incl l' l) ->
  (forall m, enabled modes m = true -> m = Ascii \/ m = X12) -> bytes_ok data = true ->
  encode_data_internal (optimize_fn sorter) data symbols None modes false false = Ok (cw, s) ->
  exists script npad, script_ok script npad = true /\ cw = stream script npad /\ meaning script = data /\
    Forall (fun sg => match sg with SAscii _ | SX12 _ _ => True | _ => False end) script.
Proof. intros so d sy m cw s HS HM OK H. exact (proj1 (ax_modes_roundtrip so d sy m cw s HS HM OK H)). Qed.
Print Assumptions C13_ascii_x12_only.

(* and with C40 (text = false) or Text (text = true) as the only mode beside ASCII: ASCII runs and runs of that one mode only -- the only
   latch in the script is 230, respectively 239 *)
Theorem C13_ascii_c40_or_text_only : forall (text : bool) sorter data symbols modes cw s,
  (forall k l l', sorter symbols k l = Ok l' -> incl l' l) ->
  (forall m, enabled modes m = true -> m = Ascii \/ m = (if text then Text else C40)) -> bytes_ok data = true ->
  encode_data_internal (optimize_fn sorter) data symbols None modes false false = Ok (cw, s) ->
  exists script npad, script_ok script npad = true /\ cw = stream script npad /\ meaning script = data /\
    Forall (fun sg => match sg with SAscii _ => True | SC40 t _ _ _ => t = text | _ => False end) script.
Proof. intros t so d sy m cw s HS HM OK H. exact (proj1 (ac_modes_roundtrip t so d sy m cw s HS HM OK H)). Qed.
Print Assumptions C13_ascii_c40_or_text_only.

(* what is NOT a theorem yet: that the codewords the six mode encoders write never contain, in ASCII context, a
   value that a reference decoder reads as a latch (this is the stream-level statement C02/T_enc); the check
   evaluates it on every case with the independent reference decoder. *)
Example C13_example :
  match encodation_plan stable_sorter [65; 66; 67; 68; 69; 70; 71; 72; 73; 200; 201; 202; 203; 49; 50]%N sl_default (1 + 32) with
  | Ok (Some res, _) => forallb (fun e => enabled (1 + 32) (snd e)) res && negb (Nat.eqb (length res) 0) | _ => false end = true.
Proof. vm_compute. reflexivity. Qed.
