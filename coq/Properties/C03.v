(* Properties/C03.v -- Guaranteed Reed-Solomon correction capacity: the full statement (C03_corrects) and its parts. *)
From Coq Require Import Arith NArith List Bool.
From DM Require Import Generated.Symbols Spec.GF256 Spec.Poly Spec.RSCode Model.Outcome Model.RSEnc Model.RSDec Proofs.SymbolListProofs Proofs.RSDecProofs Proofs.MinDistance Proofs.LDBound Proofs.NoMiscorrection Proofs.RSComplete.
Import ListNotations.

(* weight 0: every codeword vector of every size passes through the decoder unchanged *)
Theorem C03_weight0 : forall s d e,
  length d = N.to_nat (num_data_codewords s) -> Forall byte d -> encode_error s d = Ok e ->
  RSDec.decode (d ++ e) s = Ok (d ++ e).
Proof. exact decode_codeword_unchanged. Qed.
Print Assumptions C03_weight0.

(* no half-corrected result, for ANY number of errors: success always leaves a codeword (C09) *)
Theorem C03_success_is_codeword : forall s cw c',
  length cw = N.to_nat (num_data_codewords s + num_ecc_blocks s * num_ecc_per_block s) -> Forall byte cw ->
  RSDec.decode cw s = Ok c' ->
  encode_error s (firstn (N.to_nat (num_data_codewords s)) c') = Ok (skipn (N.to_nat (num_data_codewords s)) c').
Proof. intros s cw c' L B H. exact (proj2 (proj2 (proj2 (decode_success_codeword s cw c' L B H)))). Qed.
Print Assumptions C03_success_is_codeword.

(* the mathematical guarantee behind "correction capacity" (BCH bound, proved here for the code of Spec/RSCode.v):
   a block with vanishing syndromes and at most k non-zero positions is zero; two codeword blocks that differ in at
   most k positions are equal; so within distance t <= floor(k/2) of ANY received block there is at most one codeword --
   whatever a decoder returns as a codeword within that distance IS the transmitted one *)
Theorem C03_bch_bound : forall k w, (length w <= 255)%nat -> block_ok k w -> (weight w <= k)%nat -> Forall (fun c => c = F0) w.
Proof. exact bch_bound. Qed.
Print Assumptions C03_bch_bound.

Theorem C03_min_distance : forall k w1 w2, length w1 = length w2 -> (length w1 <= 255)%nat ->
  block_ok k w1 -> block_ok k w2 -> (distance w1 w2 <= k)%nat -> w1 = w2.
Proof. exact min_distance. Qed.
Print Assumptions C03_min_distance.

Theorem C03_unique_within_radius : forall k t r w1 w2, (2 * t <= k)%nat ->
  length w1 = length r -> length w2 = length r -> (length r <= 255)%nat ->
  block_ok k w1 -> block_ok k w2 -> (distance w1 r <= t)%nat -> (distance w2 r <= t)%nat -> w1 = w2.
Proof. exact unique_within_radius. Qed.
Print Assumptions C03_unique_within_radius.

(* every block of every symbol size is short enough for the bound: ceil(data / B) + k <= 255 *)
Theorem C03_block_lengths : forall s,
  ((num_data_codewords s + num_ecc_blocks s - 1) / num_ecc_blocks s + num_ecc_per_block s <= 255)%N.
Proof. intros s. apply N.leb_le. exact (sweep (fun s => ((num_data_codewords s + num_ecc_blocks s - 1) / num_ecc_blocks s + num_ecc_per_block s <=? 255)%N) eq_refl s). Qed.
Print Assumptions C03_block_lengths.

(* soundness within the guaranteed radius, for every size, every codeword and EVERY error pattern of at most floor(k/2)
   wrong codewords per block: if the decoder reports success, what it leaves behind is exactly the transmitted codeword
   (never a different codeword, never a half-corrected word).  Proof: the locator found by the Levinson-Durbin routine
   has at most floor(k/2) roots (C03_locator_bound -- from the loop guard and the asserted length, not from the
   correctness of the recursion), step 4 alters one position per root, success implies codeword (C09), and within
   floor(k/2) of any word there is at most one codeword (C03_unique_within_radius). *)
Theorem C03_locator_bound : forall syn lam, find_inv_error_locations_levinson_durbin syn = Ok lam ->
  (length lam <= length syn / 2 + 1)%nat.
Proof. exact ld_locator_length. Qed.
Print Assumptions C03_locator_bound.

Theorem C03_no_miscorrection : forall s cD cE rcv c',
  let B := N.to_nat (num_ecc_blocks s) in let k := N.to_nat (num_ecc_per_block s) in let nd := N.to_nat (num_data_codewords s) in
  length cD = nd -> length cE = (k * B)%nat -> Forall byte cD -> Forall byte cE -> is_codeword B k cD cE ->
  length rcv = (nd + k * B)%nat -> Forall byte rcv ->
  (forall b, (b < B)%nat ->
     (ham (every B b cD) (every B b (firstn nd rcv)) + ham (every B b cE) (every B b (skipn nd rcv)) <= k / 2)%nat) ->
  RSDec.decode rcv s = Ok c' -> c' = cD ++ cE.
Proof. exact no_miscorrection. Qed.
Print Assumptions C03_no_miscorrection.

(* completeness -- the property itself: for every size, every codeword and EVERY received word that differs from it in
   at most floor(k/2) codewords of each interleaved block, the decoder answers Ok with exactly that codeword.  The proof
   follows the algorithm: the syndromes are the power sums of the error points; the identities (3)/(4) are invariants of
   the Schmidt-Fettweis Levinson-Durbin recursion (Proofs/LDInv.v), and at its exit (3) bounds the order from above, the
   annihilated rows from below, so [w, 1] is the error locator (Proofs/ErrLoc.v, transposed Vandermonde argument); the
   Chien search returns exactly the inverse locators (Proofs/ChienCorrect.v); the Bjoerck-Pereyra stages turn the moments
   into Newton functionals and peel them back to the weights by a telescoping product identity (Proofs/BPMath.v,
   BPCorrect.v); every correction lands inside the block and the corrected word has no non-zero syndrome
   (Proofs/RSComplete.v); uniqueness (C03_no_miscorrection) identifies the result. *)
Theorem C03_corrects : forall s cD cE rcv,
  let B := N.to_nat (num_ecc_blocks s) in let k := N.to_nat (num_ecc_per_block s) in let nd := N.to_nat (num_data_codewords s) in
  length cD = nd -> length cE = (k * B)%nat -> Forall byte cD -> Forall byte cE -> is_codeword B k cD cE ->
  length rcv = (nd + k * B)%nat -> Forall byte rcv ->
  (forall b, (b < B)%nat ->
     (ham (every B b cD) (every B b (firstn nd rcv)) + ham (every B b cE) (every B b (skipn nd rcv)) <= k / 2)%nat) ->
  RSDec.decode rcv s = Ok (cD ++ cE).
Proof. exact decode_complete. Qed.
Print Assumptions C03_corrects.

(* one interleaved block on its own *)
Theorem C03_block_corrects : forall data error cdata cerror stride k,
  stride <> 0%nat -> Forall byte data -> Forall byte error -> Forall byte cdata -> Forall byte cerror ->
  length cdata = length data -> length cerror = length error ->
  let rw := every stride 0 data ++ every stride 0 error in let cw := every stride 0 cdata ++ every stride 0 cerror in
  (1 <= k)%nat -> (k < length rw)%nat -> (length rw <= 255)%nat -> block_ok k (map toF cw) -> (ham cw rw <= k / 2)%nat ->
  exists d' e', decode_gen data error stride k = Ok (d', e').
Proof. exact decode_gen_complete. Qed.
Print Assumptions C03_block_corrects.

Example C03_example :
  RSDec.decode [23; 40; 11; 0; 207; 37; 0; 81]%N Square10 = Ok [23; 40; 11; 255; 207; 37; 244; 81]%N.
Proof. vm_compute. reflexivity. Qed.
