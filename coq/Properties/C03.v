(* Properties/C03.v -- Guaranteed Reed-Solomon correction capacity (what is a theorem so far). *)
From Coq Require Import Arith NArith List Bool.
From DM Require Import Generated.Symbols Spec.GF256 Spec.RSCode Model.Outcome Model.RSEnc Model.RSDec Proofs.RSDecProofs.
Import ListNotations.

(* weight 0: every codeword vector of every size passes through the decoder unchanged *)
Theorem C03_weight0 : forall s d e,
  length d = N.to_nat (num_data_codewords s) -> Forall byte d -> encode_error s d = Ok e ->
  RSDec.decode (d ++ e) s = Ok (d ++ e).
Proof. exact decode_codeword_unchanged. Qed.
Print Assumptions C03_weight0.

(* no half-corrected result, for ANY number of errors: success always leaves a codeword (C09) *)
Theorem C03_success_is_codeword : forall s cw c',
  length cw = N.to_nat (num_data_codewords s + num_ecc_blocks s * num_ecc_per_block s) -> Forall byte cw ->
  RSDec.decode cw s = Ok c' ->
  encode_error s (firstn (N.to_nat (num_data_codewords s)) c') = Ok (skipn (N.to_nat (num_data_codewords s)) c').
Proof. intros s cw c' L B H. exact (proj2 (proj2 (proj2 (decode_success_codeword s cw c' L B H)))). Qed.
Print Assumptions C03_success_is_codeword.

(* NOT theorems: (a) completeness -- that up to floor(k/2) errors per block are always repaired -- is the
   correctness of the Schmidt-Fettweis Levinson-Durbin recursion with its singular-case step and of the
   Bjoerck-Pereyra solver; (b) that a successful result within the radius is the ORIGINAL codeword (needs the
   minimum-distance bound for arbitrary positions).  Both are covered by fault enumeration in the check:
   every weight 0..t, every region of every block of all 48 sizes, every single position, and the same
   damage applied to rendered modules. *)
Example C03_example :
  RSDec.decode [23; 40; 11; 0; 207; 37; 0; 81]%N Square10 = Ok [23; 40; 11; 255; 207; 37; 244; 81]%N.
Proof. vm_compute. reflexivity. Qed.
