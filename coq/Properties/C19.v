(* Properties/C19.v -- Planning work grows at most linearly with the input length. *)
From Coq Require Import Arith NArith List Bool.
From DM Require Import Generated.Symbols Generated.ModeTables Model.Outcome Model.SymbolList Model.Planner Model.PlannerRun
  Proofs.PlannerBound.
Import ListNotations.
Local Open Scope N_scope.

(* Whatever the input bytes, the symbol list, the enabled modes, the start mode and the number
   of codewords already written, and whatever order the (unspecified) unstable sort produces:
   when planning returns, it has executed at most 216*(n+1)+5 calls of Plan::step in at most n+1
   iterations and never kept more than 36 = 6*6 (start mode, current mode) plans alive after pruning.
   The proof uses nothing about costs, symbol sizes or the six Plan implementations. *)
Theorem C19_bound : forall sl sorter data written mode modes res st,
  optimize sl sorter data written mode modes = Ok (res, st) ->
  st_max_live st <= 36 /\ st_iterations st <= N.of_nat (length data) + 1 /\
  st_steps st <= 216 * (N.of_nat (length data) + 1) + 5.
Proof. exact optimize_bound. Qed.
Print Assumptions C19_bound.

(* the pruning step alone: at most one plan per (start mode, current mode) pair survives *)
Theorem C19_live : forall sl sorted r, remove_hopeless_cases sl sorted = Ok r -> (length r <= 36)%nat.
Proof. exact remove_hopeless_bound. Qed.
Print Assumptions C19_live.

(* every live plan causes one step and at most five spawned plans with one step each *)
Theorem C19_steps_per_pass : forall sl plans rc uas modes np ae s np' ae' s',
  step_all sl plans rc uas modes np ae s = Ok (np', ae', s') -> s <= s' <= s + 6 * N.of_nat (length plans).
Proof. exact step_all_bound. Qed.
Print Assumptions C19_steps_per_pass.

(* non-vacuity: planning a mixed input returns, and the counters are what the theorem bounds *)
Example C19_example :
  match encodation_plan stable_sorter [65; 49; 97; 50; 66; 51; 98; 52; 200; 53]%N sl_default 63 with
  | Ok (Some _, st) => (st_steps st <=? 216 * 11 + 5) && (st_max_live st <=? 36) && (1 <=? st_steps st)
  | _ => false
  end = true.
Proof. vm_compute. reflexivity. Qed.
