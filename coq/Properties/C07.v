(* Properties/C07.v -- Module placement conforms to ISO/IEC 16022 Annex F and ISO 21471. *)
From Coq Require Import ZArith NArith List Bool.
From DM Require Import Generated.Symbols Spec.GF256 Spec.AnnexF Model.Outcome Model.Placement Proofs.PlacementProofs Proofs.PlacementValues.
Import ListNotations.
Local Open Scope Z_scope.

(* For each of the 48 sizes the module table of the model -- for every module of the mapping
   matrix, which (codeword, bit) run() assigns to it, or the fixed dark/light corner pattern --
   is the table the standard's placement program computes.  The traversal takes no input but
   the two dimensions, so this covers every codeword vector (value independence is the type
   of `run`). *)
Theorem C07_table : forall s, exists t,
  model_table (zh s) (zw s) (has_padding_modules s) = Some t /\ ecc200 (zh s) (zw s) = Some t.
Proof. exact placement_table. Qed.
Print Assumptions C07_table.

(* The traversal is a bijection between codeword bits and data modules: it visits exactly
   ntotal(s) codewords of 8 modules each, all inside the matrix, no module twice; the modules
   it leaves out are none, or exactly the 2x2 lower right corner of 12x12, 16x16, 20x20, 24x24. *)
Theorem C07_bijection : forall s, exists visits, run (zh s) (zw s) = Ok visits /\
  N.of_nat (length visits) = ntotal s /\
  Forall (fun v => length v = 8%nat) visits /\
  Forall (fun x => 0 <= x < zh s * zw s) (concat visits) /\
  NoDup (concat visits) /\
  unused_of (zh s) (zw s) visits =
    (if has_padding_modules s
     then [(zh s - 2) * zw s + (zw s - 2); (zh s - 2) * zw s + (zw s - 1);
           (zh s - 1) * zw s + (zw s - 2); (zh s - 1) * zw s + (zw s - 1)]
     else []).
Proof. exact placement_bijection. Qed.
Print Assumptions C07_bijection.

(* Reading the codewords back from the matrix inverts writing them, for every size and EVERY codeword vector of the
   symbol's length; the left-over corner modules of 12x12, 16x16, 20x20, 24x24 carry the fixed pattern
   (dark, light / light, dark) whatever the codewords are. *)
Theorem C07_values : forall s cws, length cws = N.to_nat (ntotal s) -> Forall byte cws ->
  exists e, copy_from_codewords (zh s) (zw s) (has_padding_modules s) cws = Ok e /\
    length e = Z.to_nat (zh s * zw s) /\
    codewords (zh s) (zw s) e = Ok cws /\
    (has_padding_modules s = true ->
       nth (Z.to_nat ((zh s - 2) * zw s + (zw s - 2))) e false = true /\
       nth (Z.to_nat ((zh s - 2) * zw s + (zw s - 1))) e false = false /\
       nth (Z.to_nat ((zh s - 1) * zw s + (zw s - 2))) e false = false /\
       nth (Z.to_nat ((zh s - 1) * zw s + (zw s - 1))) e false = true).
Proof. exact placement_roundtrip. Qed.
Print Assumptions C07_values.

(* non-vacuity / worked example: Figure F.1 of the standard is what the model computes *)
Example C07_example_10x10 :
  option_map (map show_cell) (model_table 8 8 false) = option_map (map show_cell) (ecc200 8 8).
Proof. vm_compute. reflexivity. Qed.
