(* Properties/C15.v -- ECI designators and character-set tables are exact. *)
From Coq Require Import NArith List Bool.
From DM Require Import Generated.Charsets Spec.GF256 Spec.Eci Model.Outcome Model.Dec Model.Eci Proofs.EciProofs.
Import ListNotations.
Local Open Scope N_scope.

(* every ECI number 0..999999 is written in the one-, two- or three-codeword form of
   ISO/IEC 16022 Table 6 and read back as the same number, whatever follows *)
Theorem C15_designator : forall c rest n, c <= 999999 ->
  write_eci c = Ok (241 :: Spec.Eci.designator c) /\
  read_eci (mkrd (Spec.Eci.designator c ++ rest) n)
    = Ok (mkrd rest (n + N.of_nat (length (Spec.Eci.designator c))), c).
Proof. intros c rest n H. split; [now apply write_eci_spec|now apply read_write_eci]. Qed.
Print Assumptions C15_designator.

(* numbers above 999999 are refused by the encoder side (documented panic of the hidden API) *)
Theorem C15_designator_range : forall c, 999999 < c -> write_eci c = Panic PAssert.
Proof. exact write_eci_panics. Qed.
Print Assumptions C15_designator_range.

(* read_eci accepts exactly the well-formed designators of the standard and rejects every
   other codeword sequence with an error (never a panic, never a wrong number) *)
Theorem C15_reject : forall r,
  match parse_designator (rd r) with
  | Some (e, k) => read_eci r = Ok (mkrd (skipn k (rd r)) (cnt r + N.of_nat k), e)
  | None => exists err, read_eci r = Err err
  end.
Proof. exact read_eci_spec. Qed.
Print Assumptions C15_reject.

(* ECI 0/3 (ISO 8859-1), 11 (8859-9), 13 (8859-11), 26 (UTF-8), 27 (US-ASCII): the string decoder's
   chunk conversion is the character set's table; control and undefined bytes give CharsetError *)
Theorem C15_charsets : forall bs eci, Forall byte bs -> In eci [0; 3; 11; 13; 26; 27] ->
  convert_chunk bs eci [] = match charset_decode eci bs with Some s => Ok s | None => Err CharsetError end.
Proof. exact convert_chunk_spec. Qed.
Print Assumptions C15_charsets.

Theorem C15_other_eci : forall bs eci, ~ In eci [0; 3; 11; 13; 26; 27] -> convert_chunk bs eci [] = Err NotImplemented.
Proof. exact convert_chunk_other. Qed.
Print Assumptions C15_other_eci.

(* UTF-8 (ECI 26): exactly the valid sequences pass, unchanged: what is accepted re-encodes to the
   same bytes and consists of scalar values; every encoding of a scalar string is accepted *)
Theorem C15_utf8 : (forall l s, from_utf8 l = Some s -> utf8_encode s = l /\ forallb is_scalar s = true) /\
  (forall s, forallb is_scalar s = true -> from_utf8 (utf8_encode s) = Some s).
Proof. split; [exact from_utf8_sound|exact from_utf8_complete]. Qed.
Print Assumptions C15_utf8.

Example C15_example : read_eci (mkrd [207; 63; 129; 66] 1) = Ok (mkrd [66] 4, 999999) /\
  convert_chunk [65; 240; 208] 11 [] = Ok [65; 287; 286].
Proof. split; reflexivity. Qed.
