(* Properties/C04.v -- The decoder accepts every standard-conformant codeword stream (the part that is a theorem). *)
From Coq Require Import NArith List Bool.
From DM Require Import Generated.ModeTables Model.Outcome Model.Dec Spec.Stream16022 Proofs.DecStream.
Import ListNotations.
Local Open Scope N_scope.

(* For the ASCII / Base256 / padding fragment of ISO/IEC 16022 the statement holds for ALL inputs and ALL encoder
   choices: whatever script an independent encoder follows -- any segmentation of the message into ASCII runs
   (each digit pair encoded as a pair or as two single characters, bytes >= 128 via Upper Shift) and Base256 runs
   (any length 1..1555 with a one- or two-codeword length field, or the run-to-the-end-of-symbol form as the
   last segment), in any order and number, followed by any amount of correct padding (i.e. any symbol capacity) --
   the model of data::decode_data returns exactly the bytes the script encodes.  `stream`, `script_ok`, `meaning`
   are defined in Spec/Stream16022.v from the encoder's side of the standard, without reference to the decoder. *)
Theorem C04_ascii_base256 : forall segs npad, script_ok segs npad = true ->
  decode_data (stream segs npad) = Ok (meaning segs).
Proof. exact decode_script. Qed.
Print Assumptions C04_ascii_base256.

(* the two randomising algorithms of Annex B are undone by the decoder at every position *)
Theorem C04_randomisers : forall pos,
  (forall ch, ch < 256 -> derandomize_255_state (rand255 ch pos) pos = ch) /\
  derandomize_253_state (rand253 129 pos) pos = 129.
Proof. intros pos. split; [intros ch H; now apply derand255|apply derand253_pad]. Qed.
Print Assumptions C04_randomisers.

(* NOT a theorem here: the same statement for scripts containing C40, Text, X12 and EDIFACT runs (shift sets,
   3-in-2 and 4-in-3 packing, their end-of-symbol forms) and Macro/FNC1/ECI headers.  Those are decided per case: an
   independent reference encoder (tools/props/refenc.py) draws random legal scripts over all six modes with every
   termination form and capacity, and the implementation (tied to this model by the correspondence) must decode
   each stream to the script's bytes. *)
Example C04_example :
  let script := [SAscii [AChar 65; APair 49 50; AUpper 200]; SB256 [0; 255; 129]; SAscii [AChar 66]; SB256End [7; 8]] in
  script_ok script 0 = true /\ decode_data (stream script 0) = Ok [65; 49; 50; 200; 0; 255; 129; 66; 7; 8] /\
  script_ok [SAscii [AChar 65]] 7 = true /\ length (stream [SAscii [AChar 65]] 7) = 8%nat.
Proof. vm_compute. repeat split. Qed.
