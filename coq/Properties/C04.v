(* Properties/C04.v -- The decoder accepts every standard-conformant codeword stream. *)
From Coq Require Import NArith List Bool.
From DM Require Import Generated.ModeTables Model.Outcome Model.Dec Spec.Stream16022 Proofs.DecStream Proofs.DecStreamC40
  Proofs.DecStreamEdi Proofs.DecScript.
Import ListNotations.
Local Open Scope N_scope.

(* For ALL inputs and ALL encoder choices over all six encodation schemes of ISO/IEC 16022: whatever script an
   independent encoder follows, i.e. any sequence of
     - ASCII runs (each digit pair encoded as a pair or as two single characters, bytes >= 128 via Upper Shift),
     - Base256 runs (any length 1..1555 with a one- or two-codeword length field, or, as the last segment, the
       run-to-the-end-of-symbol form),
     - C40 and Text runs over arbitrary bytes (basic set, Shift 1/2/3, Upper Shift for bytes >= 128; optionally a filler
       completing the last triple: one Shift-1 value, or Shift 2 + Upper Shift), ended by Unlatch or -- at the end of the symbol -- by
       nothing, possibly followed by one last ASCII-encoded codeword,
     - X12 runs over the X12 alphabet with the same two ways of ending,
     - EDIFACT runs over the characters 32..94, ended by the unlatch value 31 in any of the four positions of a group
       (not inside the last two codewords of the symbol, which are ASCII by rule) or -- after complete groups, at the
       end of the symbol -- by nothing, followed by at most two ASCII-encoded codewords,
   followed by any amount of correct padding (i.e. any symbol capacity), the model of data::decode_data returns
   exactly the bytes the script encodes.  `stream`, `script_ok`, `meaning` are defined in Spec/Stream16022.v from the
   encoder's side of the standard (Tables 2 and 3, 5.2.x, Annex B), without reference to the decoder. *)
Theorem C04_scripts : forall segs npad, script_ok segs npad = true ->
  decode_data (stream segs npad) = Ok (meaning segs).
Proof. exact decode_script. Qed.
Print Assumptions C04_scripts.

(* the same scripts behind a Macro 05 / Macro 06 codeword come back inside the macro header and trailer, and behind
   an FNC1 in first position come back unchanged *)
Theorem C04_macro05 : forall segs npad, script_ok segs npad = true ->
  decode_data (stream_with 236 segs npad) = Ok (MACRO05_HEAD ++ meaning segs ++ MACRO_TRAIL).
Proof. intros segs npad OK. apply decode_script_macro; [left; split; reflexivity|exact OK]. Qed.
Print Assumptions C04_macro05.
Theorem C04_macro06 : forall segs npad, script_ok segs npad = true ->
  decode_data (stream_with 237 segs npad) = Ok (MACRO06_HEAD ++ meaning segs ++ MACRO_TRAIL).
Proof. intros segs npad OK. apply decode_script_macro; [right; split; reflexivity|exact OK]. Qed.
Print Assumptions C04_macro06.
Theorem C04_fnc1 : forall segs npad, script_ok segs npad = true ->
  decode_data (stream_with 232 segs npad) = Ok (meaning segs).
Proof. exact decode_script_fnc1. Qed.
Print Assumptions C04_fnc1.

(* the two randomising algorithms of Annex B are undone by the decoder at every position *)
Theorem C04_randomisers : forall pos,
  (forall ch, ch < 256 -> derandomize_255_state (rand255 ch pos) pos = ch) /\
  derandomize_253_state (rand253 129 pos) pos = 129.
Proof. intros pos. split; [intros ch H; now apply derand255|apply derand253_pad]. Qed.
Print Assumptions C04_randomisers.

(* every byte, in both sets, is restored from its Table-2 values by the decoder's shift-state machine *)
Theorem C04_c40_tables : forall text ch out, ch < 256 ->
  run_vals (fst (tabs text)) (snd (tabs text)) (c40_vals text ch) 0 false out = Ok (0, false, out ++ [ch]).
Proof. intros text ch out H. exact (proj2 (c40_char text ch out H)). Qed.
Print Assumptions C04_c40_tables.

(* What the theorem's domain leaves out, and what decides it: encoder freedoms not expressible as a script of
   Spec/Stream16022.v (shift values followed by further shift values, FNC1 inside a run, ECI designators, which
   decode_data rejects by design, several fillers) and the claim that the script language is ALL the standard allows
   rest on the independent reference encoder tools/props/refenc.py, which draws random legal streams with its own
   reading of the standard; the implementation, tied to this model by the correspondence, must decode each. *)
Example C04_example :
  let script := [SAscii [AChar 65; APair 49 50; AUpper 200]; SB256 [0; 255; 129]; SC40 false [72; 105; 33; 200] 1 TUnlatch;
                 SX12 [65; 49; 13] TUnlatch; SEdifact [65; 66; 67; 68; 69; 32] TUnlatch; SEdifact [94; 64; 33; 63] TUnlatch;
                 SC40 true [97; 98; 99] 0 TEnd; SAscii [AChar 66]] in
  script_ok script 0 = true /\
  decode_data (stream script 0) = Ok [65; 49; 50; 200; 0; 255; 129; 72; 105; 33; 200; 65; 49; 13; 65; 66; 67; 68; 69; 32; 94; 64; 33; 63; 97; 98; 99; 66] /\
  script_ok [SEdifact [65; 66; 67; 68] TEnd; SAscii [AChar 69; AChar 70]] 0 = true /\
  decode_data (stream [SEdifact [65; 66; 67; 68] TEnd; SAscii [AChar 69; AChar 70]] 0) = Ok [65; 66; 67; 68; 69; 70] /\
  script_ok [SAscii [AChar 65]] 7 = true /\ length (stream [SAscii [AChar 65]] 7) = 8%nat.
Proof. vm_compute. repeat split. Qed.
