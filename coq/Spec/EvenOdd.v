(* Spec/EvenOdd.v -- what "drawing the path from the top-left corner and filling it with the even-odd
   rule" means, for paths made of relative horizontal / vertical draws, Close and relative Move (SVG / PDF
   semantics: Close draws a straight line back to the start point of the current sub-path and makes that
   point current; a Move is relative to the current point and starts a new sub-path).  A module is the unit
   square [x, x+1] x [y, y+1]; it is inside iff a ray from its centre to the left crosses the drawn outline an
   odd number of times, i.e. iff the number of drawn vertical unit edges (x', y) -> (x', y+1) with x' <= x is
   odd.  Independent of the model of path(). *)
From Coq Require Import ZArith List Bool Lia.
From DM Require Import Model.Path.
Import ListNotations.
Local Open Scope Z_scope.

(* vertical unit edges of the straight line from (x, y0) to (x, y1) *)
Definition vunits (x y0 y1 : Z) : list (Z * Z) :=
  map (fun k => (x, Z.min y0 y1 + Z.of_nat k)) (seq 0 (Z.to_nat (Z.abs (y1 - y0)))).

Record pen := mkpen { cur : Z * Z; sub_start : Z * Z; edges : list (Z * Z); after_close : bool; good : bool }.

Definition in_box (w h : Z) (p : Z * Z) : bool := (0 <=? fst p) && (fst p <=? w) && (0 <=? snd p) && (snd p <=? h).

(* one segment; `good` collects: non-zero length, axis-parallel closing line, stays in the box, a Move comes
   exactly after a Close, nothing but a Move (or the end) follows a Close *)
Definition draw1 (w h : Z) (p : pen) (s : seg) : pen :=
  let '(x, y) := cur p in
  match s with
  | Hor d => mkpen (x + d, y) (sub_start p) (edges p) false
               (good p && negb (after_close p) && negb (d =? 0) && in_box w h (x + d, y))
  | Ver d => mkpen (x, y + d) (sub_start p) (edges p ++ vunits x y (y + d)) false
               (good p && negb (after_close p) && negb (d =? 0) && in_box w h (x, y + d))
  | Close =>
    let '(sx, sy) := sub_start p in
    mkpen (sx, sy) (sx, sy) (edges p ++ (if x =? sx then vunits x y sy else [])) true
      (good p && negb (after_close p) && (((x =? sx) && negb (y =? sy)) || ((y =? sy) && negb (x =? sx))))
  | Move dx dy => mkpen (x + dx, y + dy) (x + dx, y + dy) (edges p) false
                    (good p && after_close p && in_box w h (x + dx, y + dy))
  end.

Definition draw (w h : Z) (segs : list seg) : pen := fold_left (draw1 w h) segs (mkpen (0, 0) (0, 0) [] false true).

(* well-formed: every step good and the last segment is a Close (every sub-path closed) *)
Definition wf_path (w h : Z) (segs : list seg) : bool :=
  let p := draw w h segs in good p && (after_close p || match segs with [] => true | _ => false end).

Definition count_le (es : list (Z * Z)) (x y : Z) : nat :=
  length (filter (fun e => (snd e =? y) && (fst e <=? x)) es).
Definition count_at (es : list (Z * Z)) (x y : Z) : nat :=
  length (filter (fun e => (snd e =? y) && (fst e =? x)) es).

(* even-odd fill of module (column x, row y) *)
Definition inside (w h : Z) (segs : list seg) (x y : Z) : bool := Nat.odd (count_le (edges (draw w h segs)) x y).

(* the executable certificate check: well-formed and the fill equals the bitmap on every module *)
Definition cells (w h : Z) : list (Z * Z) :=
  flat_map (fun i => map (fun j => (Z.of_nat j, Z.of_nat i)) (seq 0 (Z.to_nat w))) (seq 0 (Z.to_nat h)).
Definition check_path (bits : list bool) (w h : Z) (segs : list seg) : bool :=
  wf_path w h segs &&
  forallb (fun c => Bool.eqb (inside w h segs (fst c) (snd c)) (dark (bits_map bits) w h (snd c) (fst c))) (cells w h).

(* the same check, organised so that it runs in time O(edges * (w + h)): the drawing and the bitmap are computed
   once, the edges are bucketed per row.  Proved sound in Proofs/PathProofs.v (check_path_fast_sound). *)
Definition row_xs (es : list (Z * Z)) (y : Z) : list Z := map fst (filter (fun e => snd e =? y) es).
Definition check_path_fast (bits : list bool) (w h : Z) (segs : list seg) : bool :=
  let p := draw w h segs in
  let bm := bits_map bits in
  good p && (after_close p || match segs with [] => true | _ => false end) &&
  forallb (fun i => let y := Z.of_nat i in let xs := row_xs (edges p) y in
    forallb (fun j => let x := Z.of_nat j in
      Bool.eqb (Nat.odd (length (filter (fun ex => ex <=? x) xs))) (dark bm w h y x)) (seq 0 (Z.to_nat w)))
    (seq 0 (Z.to_nat h)).
