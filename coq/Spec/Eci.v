(* Spec/Eci.v -- ECI designators (ISO/IEC 16022:2006, 5.2.4.7, Table 6) and the character sets
   of ECI 3, 11, 13, 27 (ISO/IEC 8859-1, -9, -11, US-ASCII) by formula.  Independent of the code. *)
From Coq Require Import NArith List Bool.
Import ListNotations.
Local Open Scope N_scope.

(* Table 6: codeword sequence following the ECI codeword 241 *)
Definition designator (eci : N) : list N :=
  if eci <=? 126 then [eci + 1]
  else if eci <=? 16382 then [(eci - 127) / 254 + 128; (eci - 127) mod 254 + 1]
  else [(eci - 16383) / 64516 + 192; ((eci - 16383) / 254) mod 254 + 1; (eci - 16383) mod 254 + 1].

(* reading: Some (number, codewords used) for a well-formed designator at the head of bs *)
Definition in_1_254 (c : N) : bool := (1 <=? c) && (c <=? 254).
Definition parse_designator (bs : list N) : option (N * nat) :=
  match bs with
  | c1 :: t =>
    if (1 <=? c1) && (c1 <=? 127) then Some (c1 - 1, 1%nat)
    else if (128 <=? c1) && (c1 <=? 191) then
      match t with
      | c2 :: _ => if in_1_254 c2 then Some ((c1 - 128) * 254 + (c2 - 1) + 127, 2%nat) else None
      | [] => None
      end
    else if (192 <=? c1) && (c1 <=? 207) then
      match t with
      | c2 :: c3 :: _ => if in_1_254 c2 && in_1_254 c3
                         then Some ((c1 - 192) * 64516 + (c2 - 1) * 254 + (c3 - 1) + 16383, 3%nat) else None
      | _ => None
      end
    else None
  | [] => None
  end.

(* ISO/IEC 8859-1: printable part *)
Definition iso_8859_1 (b : N) : option N :=
  if ((32 <=? b) && (b <=? 126)) || ((160 <=? b) && (b <=? 255)) then Some b else None.

(* ISO/IEC 8859-9 (Latin-5): Latin-1 with the six Icelandic letters replaced by Turkish ones *)
Definition iso_8859_9 (b : N) : option N :=
  if b =? 208 then Some 286        (* D0 -> U+011E G BREVE *)
  else if b =? 221 then Some 304   (* DD -> U+0130 I WITH DOT ABOVE *)
  else if b =? 222 then Some 350   (* DE -> U+015E S CEDILLA *)
  else if b =? 240 then Some 287   (* F0 -> U+011F g breve *)
  else if b =? 253 then Some 305   (* FD -> U+0131 dotless i *)
  else if b =? 254 then Some 351   (* FE -> U+015F s cedilla *)
  else iso_8859_1 b.

(* ISO/IEC 8859-11 (Thai): A1..DA -> U+0E01..U+0E3A, DF..FB -> U+0E3F..U+0E5B,
   DB..DE and FC..FF undefined *)
Definition iso_8859_11 (b : N) : option N :=
  if (32 <=? b) && (b <=? 126) then Some b
  else if b =? 160 then Some 160
  else if (161 <=? b) && (b <=? 218) then Some (3585 + (b - 161))
  else if (223 <=? b) && (b <=? 251) then Some (3647 + (b - 223))
  else None.

Definition us_ascii (b : N) : option N := if b <? 128 then Some b else None.

Fixpoint map_opt {A B} (f : A -> option B) (l : list A) : option (list B) :=
  match l with
  | [] => Some []
  | x :: t => match f x, map_opt f t with Some y, Some r => Some (y :: r) | _, _ => None end
  end.

(* Unicode mapping excerpts (unicode.org MAPPINGS/ISO8859/8859-9.TXT, 8859-11.TXT) guarding the formulas *)
Example iso9_excerpt : map iso_8859_9 [160; 208; 209; 221; 222; 223; 240; 253; 254; 255; 127; 159]
  = [Some 160; Some 286; Some 209; Some 304; Some 350; Some 223; Some 287; Some 305; Some 351; Some 255; None; None].
Proof. reflexivity. Qed.
Example iso11_excerpt : map iso_8859_11 [160; 161; 218; 219; 222; 223; 251; 252; 255; 65]
  = [Some 160; Some 3585; Some 3642; None; None; Some 3647; Some 3675; None; None; Some 65].
Proof. reflexivity. Qed.
(* standard's examples for the designator: ECI 000000 -> 1; 000126 -> 127; 000127 -> 128,1; 016382 -> 191,254;
   016383 -> 192,1,1; 999999 -> 207,63,129 *)
Example designator_examples : map designator [0; 126; 127; 16382; 16383; 999999]
  = [[1]; [127]; [128; 1]; [191; 254]; [192; 1; 1]; [207; 63; 129]].
Proof. reflexivity. Qed.
