(* Spec/Poly.v -- polynomials over GF(256) as coefficient lists, highest degree first
   (the order in which codewords are transmitted), Horner evaluation. *)
From Coq Require Import NArith List Bool Lia Ring Field.
From DM Require Import Spec.GF256.
Import ListNotations.

Definition horner (x : F) (acc c : F) : F := Fadd (Fmul acc x) c.
Definition peval (l : list F) (x : F) : F := fold_left (horner x) l F0.

Lemma horner_fold l x a : fold_left (horner x) l a = Fadd (Fmul a (Fpow x (length l))) (peval l x).
Proof.
  unfold peval. revert a. induction l as [|c l IH]; intros a; cbn [fold_left length Fpow].
  - ring.
  - rewrite IH, (IH (horner x F0 c)). unfold horner. ring.
Qed.

Lemma peval_nil x : peval [] x = F0. Proof. reflexivity. Qed.

Lemma peval_cons c l x : peval (c :: l) x = Fadd (Fmul c (Fpow x (length l))) (peval l x).
Proof. unfold peval at 1. cbn [fold_left]. rewrite horner_fold. unfold horner. ring. Qed.

Lemma peval_app l1 l2 x : peval (l1 ++ l2) x = Fadd (Fmul (peval l1 x) (Fpow x (length l2))) (peval l2 x).
Proof. unfold peval at 1. rewrite fold_left_app, horner_fold. reflexivity. Qed.

Lemma peval_snoc l c x : peval (l ++ [c]) x = Fadd (Fmul (peval l x) x) c.
Proof. rewrite peval_app. cbn [length Fpow]. rewrite peval_cons, peval_nil. cbn [length Fpow]. ring. Qed.

Fixpoint zipF (f : F -> F -> F) (l1 l2 : list F) : list F :=
  match l1, l2 with a :: r1, b :: r2 => f a b :: zipF f r1 r2 | _, _ => [] end.

Lemma zipF_length f l1 l2 : length l1 = length l2 -> length (zipF f l1 l2) = length l1.
Proof. revert l2. induction l1 as [|a r IH]; intros [|b r2] H; cbn in *; try lia. rewrite IH; lia. Qed.

Lemma peval_zip_linear c l1 l2 x : length l1 = length l2 ->
  peval (zipF (fun e g => Fadd e (Fmul c g)) l1 l2) x = Fadd (peval l1 x) (Fmul c (peval l2 x)).
Proof.
  revert l2. induction l1 as [|a r IH]; intros [|b r2] H; cbn [zipF length] in *; try lia.
  - rewrite !peval_nil. ring.
  - rewrite !peval_cons, IH by lia. rewrite zipF_length by lia.
    replace (length r2) with (length r) by lia. ring.
Qed.

Lemma peval_zip_add l1 l2 x : length l1 = length l2 ->
  peval (zipF Fadd l1 l2) x = Fadd (peval l1 x) (peval l2 x).
Proof.
  revert l2. induction l1 as [|a r IH]; intros [|b r2] H; cbn [zipF length] in *; try lia.
  - rewrite !peval_nil. ring.
  - rewrite !peval_cons, IH by lia. rewrite zipF_length by lia.
    replace (length r2) with (length r) by lia. ring.
Qed.

Lemma peval_zeros n x : peval (repeat F0 n) x = F0.
Proof. induction n; cbn [repeat]; [reflexivity|]. rewrite peval_cons, IHn. ring. Qed.
