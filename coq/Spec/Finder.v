(* Spec/Finder.v -- finder pattern, clock tracks and alignment patterns of ECC 200 symbols
   (ISO/IEC 16022:2006, 5.2 / 7.1 and Figure 1, Annex / Table 7 for the region geometry):
   a symbol is a grid of regv x regh data regions; each region of rrows x rcols data modules is
   framed by a one-module perimeter: left column and bottom row solid dark, top row and right
   column alternating dark/light such that the upper right corner of the region is light and
   the modules adjacent to the solid lines' ends are dark.  Data modules of all regions,
   frames removed, form the mapping matrix in the obvious row-major way.
   Written from the standard; independent of the Rust code. *)
From Coq Require Import NArith List Bool.
From DM Require Import Spec.Table7.
Import ListNotations.
Local Open Scope N_scope.

Inductive fcell := FDark | FLight | FData (k : N).   (* k = index into the mapping matrix, row-major *)

Definition cell (t : row) (r c : N) : fcell :=
  let ph := t_rrows t + 2 in let pw := t_rcols t + 2 in     (* region pitch *)
  let lr := r mod ph in let lc := c mod pw in                 (* position inside the framed region *)
  if lc =? 0 then FDark                                        (* solid left side of the L *)
  else if lr =? ph - 1 then FDark                              (* solid bottom side of the L *)
  else if lr =? 0 then (if N.even lc then FDark else FLight)   (* alternating top, light at the right end *)
  else if lc =? pw - 1 then (if N.odd lr then FDark else FLight) (* alternating right, dark at the bottom *)
  else FData (((r / ph) * t_rrows t + (lr - 1)) * (t_rcols t * t_regh t) + ((c / pw) * t_rcols t + (lc - 1))).

(* the pixel array, row-major, top row first *)
Definition pixels (t : row) : list fcell :=
  flat_map (fun r => map (fun c => cell t r c) (map N.of_nat (seq 0 (N.to_nat (t_cols t)))))
           (map N.of_nat (seq 0 (N.to_nat (t_rows t)))).

Definition show (f : fcell) : N := match f with FLight => 0 | FDark => 1 | FData k => k + 2 end.

(* the 10x10 symbol: an 8x8 mapping matrix inside one frame *)
Example finder_10 : map show (pixels (mk 10 10 8 8 1 1 3 5 1)) =
 [1;0;1;0;1;0;1;0;1;0;
  1; 2; 3; 4; 5; 6; 7; 8; 9;1;
  1;10;11;12;13;14;15;16;17;0;
  1;18;19;20;21;22;23;24;25;1;
  1;26;27;28;29;30;31;32;33;0;
  1;34;35;36;37;38;39;40;41;1;
  1;42;43;44;45;46;47;48;49;0;
  1;50;51;52;53;54;55;56;57;1;
  1;58;59;60;61;62;63;64;65;0;
  1;1;1;1;1;1;1;1;1;1].
Proof. vm_compute. reflexivity. Qed.

(* 8x32: two regions side by side; the second region's solid left column follows the first
   region's alternating right column *)
Example finder_8x32_row1 :
  firstn 32 (skipn 32 (map show (pixels (mk 8 32 6 14 1 2 10 11 1)))) =
  [1; 2;3;4;5;6;7;8;9;10;11;12;13;14;15; 1; 1; 16;17;18;19;20;21;22;23;24;25;26;27;28;29; 1].
Proof. vm_compute. reflexivity. Qed.
