(* Spec/Stream16022.v -- an independent ENCODER-side description of ISO/IEC 16022 data codeword streams, used as
   the quantification domain of property C04 ("any stream built according to the standard by an independent
   encoder").  A stream is the rendering of a script: a list of mode segments chosen freely by the encoder (not by
   this crate's optimiser), followed by padding up to any capacity.  This file covers the ASCII encodation
   (5.2.3: ASCII values +1, digit pairs 130..229, Upper Shift 235), the Base256 encodation (5.2.9: latch 231, length
   field in one or two codewords or 0 = "to the end of the symbol", every field and data codeword randomised with
   the 255-state algorithm at its position) and padding (5.2.3 / Annex B: 129, then 253-state randomised 129s).
   Nothing of the crate's decoder is used here. *)
From Coq Require Import NArith List Bool.
Import ListNotations.
Local Open Scope N_scope.

Definition is_dig (c : N) : bool := (48 <=? c) && (c <=? 57).

(* ASCII encodation items: the encoder may use a digit pair or two single digits -- its choice *)
Inductive aitem := AChar (b : N) | APair (d1 d2 : N) | AUpper (b : N).
Definition aitem_ok (i : aitem) : bool :=
  match i with
  | AChar b => b <? 128
  | APair d1 d2 => is_dig d1 && is_dig d2
  | AUpper b => (128 <=? b) && (b <? 256)
  end.
Definition aitem_cw (i : aitem) : list N :=
  match i with
  | AChar b => [b + 1]
  | APair d1 d2 => [130 + (10 * (d1 - 48) + (d2 - 48))]
  | AUpper b => [235; b - 127]
  end.
Definition aitem_data (i : aitem) : list N :=
  match i with AChar b => [b] | APair d1 d2 => [d1; d2] | AUpper b => [b] end.

(* the two randomising algorithms of Annex B, `pos` = 1-based position of the codeword in the symbol *)
Definition rand255 (ch pos : N) : N :=
  let pr := (149 * pos) mod 255 + 1 in let t := ch + pr in if t <=? 255 then t else t - 256.
Definition rand253 (ch pos : N) : N :=
  let pr := (149 * pos) mod 253 + 1 in let t := ch + pr in if t <=? 254 then t else t - 254.

(* randomise a run of raw codewords whose first element sits at position first_pos *)
Fixpoint rand255_run (l : list N) (first_pos : N) : list N :=
  match l with [] => [] | x :: r => rand255 x first_pos :: rand255_run r (first_pos + 1) end.

Inductive segment :=
  | SAscii (items : list aitem)
  | SB256 (bytes : list N)          (* explicit length field *)
  | SB256End (bytes : list N).      (* length field 0: runs to the end of the symbol; only as the last segment *)

Definition bytes_ok (l : list N) : bool := forallb (fun b => b <? 256) l.
Definition len_field (n : N) : list N := if n <? 250 then [n] else [n / 250 + 249; n mod 250].
Definition segment_ok (s : segment) : bool :=
  match s with
  | SAscii items => forallb aitem_ok items
  | SB256 bytes => bytes_ok bytes && (1 <=? N.of_nat (length bytes)) && (N.of_nat (length bytes) <=? 1555)
  | SB256End bytes => bytes_ok bytes
  end.

(* codewords of one segment when `before` codewords precede it *)
Definition segment_cw (before : N) (s : segment) : list N :=
  match s with
  | SAscii items => flat_map aitem_cw items
  | SB256 bytes => 231 :: rand255_run (len_field (N.of_nat (length bytes)) ++ bytes) (before + 2)
  | SB256End bytes => 231 :: rand255_run (0 :: bytes) (before + 2)
  end.
Definition segment_data (s : segment) : list N :=
  match s with SAscii items => flat_map aitem_data items | SB256 bytes | SB256End bytes => bytes end.

Fixpoint render (before : N) (segs : list segment) : list N :=
  match segs with
  | [] => []
  | s :: r => let cw := segment_cw before s in cw ++ render (before + N.of_nat (length cw)) r
  end.
Definition meaning (segs : list segment) : list N := flat_map segment_data segs.

(* padding of `n` codewords after `before` codewords *)
Fixpoint rpad (before : N) (n : nat) : list N :=
  match n with O => [] | S k => rand253 129 (before + 1) :: rpad (before + 1) k end.
Definition pad (before : N) (n : nat) : list N :=
  match n with O => [] | S k => 129 :: rpad (before + 1) k end.

(* a script is legal if every segment is, and a run-to-the-end Base256 field is last and unpadded *)
Fixpoint script_ok (segs : list segment) (npad : nat) : bool :=
  match segs with
  | [] => true
  | SB256End b :: r => segment_ok (SB256End b) && match r with [] => Nat.eqb npad 0 | _ => false end
  | s :: r => segment_ok s && script_ok r npad
  end.

Definition stream (segs : list segment) (npad : nat) : list N :=
  let body := render 0 segs in body ++ pad (N.of_nat (length body)) npad.
