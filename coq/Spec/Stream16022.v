(* Spec/Stream16022.v -- an independent ENCODER-side description of ISO/IEC 16022 data codeword streams, used as
   the quantification domain of property C04 ("any stream built according to the standard by an independent
   encoder").  A stream is the rendering of a script: a list of mode segments chosen freely by the encoder (not by
   this crate's optimiser), followed by padding up to any capacity.  This file covers the ASCII encodation
   (5.2.3: ASCII values +1, digit pairs 130..229, Upper Shift 235), the Base256 encodation (5.2.9: latch 231, length
   field in one or two codewords or 0 = "to the end of the symbol", every field and data codeword randomised with
   the 255-state algorithm at its position), the C40 and Text encodations (5.2.5/5.2.6, Table 2: basic set and the
   three shift sets, Upper Shift = Shift 2 value 30, three values packed in two codewords, latch 230/239, unlatch
   254 or the end-of-symbol forms), the ANSI X12 encodation (5.2.7, Table 3, latch 238), the EDIFACT encodation
   (5.2.8: latch 240, four 6-bit values in three codewords, unlatch value 31, at most two ASCII-encoded codewords at
   the end of the symbol) and padding (5.2.3 / Annex B: 129, then 253-state randomised 129s).  Nothing of the crate's decoder is used here. *)
From Coq Require Import NArith List Bool.
Import ListNotations.
Local Open Scope N_scope.

Definition is_dig (c : N) : bool := (48 <=? c) && (c <=? 57).

(* ASCII encodation items: the encoder may use a digit pair or two single digits -- its choice *)
Inductive aitem := AChar (b : N) | APair (d1 d2 : N) | AUpper (b : N).
Definition aitem_ok (i : aitem) : bool :=
  match i with
  | AChar b => b <? 128
  | APair d1 d2 => is_dig d1 && is_dig d2
  | AUpper b => (128 <=? b) && (b <? 256)
  end.
Definition aitem_cw (i : aitem) : list N :=
  match i with
  | AChar b => [b + 1]
  | APair d1 d2 => [130 + (10 * (d1 - 48) + (d2 - 48))]
  | AUpper b => [235; b - 127]
  end.
Definition aitem_data (i : aitem) : list N :=
  match i with AChar b => [b] | APair d1 d2 => [d1; d2] | AUpper b => [b] end.

(* the two randomising algorithms of Annex B, `pos` = 1-based position of the codeword in the symbol *)
Definition rand255 (ch pos : N) : N :=
  let pr := (149 * pos) mod 255 + 1 in let t := ch + pr in if t <=? 255 then t else t - 256.
Definition rand253 (ch pos : N) : N :=
  let pr := (149 * pos) mod 253 + 1 in let t := ch + pr in if t <=? 254 then t else t - 254.

(* randomise a run of raw codewords whose first element sits at position first_pos *)
Fixpoint rand255_run (l : list N) (first_pos : N) : list N :=
  match l with [] => [] | x :: r => rand255 x first_pos :: rand255_run r (first_pos + 1) end.

(* ---- C40 / Text (Table 2) and X12 (Table 3) character values ---- *)
Definition between (lo hi ch : N) : bool := (lo <=? ch) && (ch <=? hi).
Definition c40_basic (text : bool) (ch : N) : option N :=
  if ch =? 32 then Some 3
  else if between 48 57 ch then Some (ch - 48 + 4)
  else if text then (if between 97 122 ch then Some (ch - 97 + 14) else None)
  else (if between 65 90 ch then Some (ch - 65 + 14) else None).
Definition c40_shift2 (ch : N) : option N :=
  if between 33 47 ch then Some (ch - 33)
  else if between 58 64 ch then Some (ch - 58 + 15)
  else if between 91 95 ch then Some (ch - 91 + 22) else None.
Definition c40_shift3 (text : bool) (ch : N) : option N :=
  if ch =? 96 then Some 0
  else if between 123 127 ch then Some (ch - 123 + 27)
  else if text then (if between 65 90 ch then Some (ch - 65 + 1) else None)
  else (if between 97 122 ch then Some (ch - 97 + 1) else None).
(* values of a character below 128: basic set, or Shift 1/2/3 followed by the value in that set *)
Definition c40_vals_low (text : bool) (ch : N) : list N :=
  match c40_basic text ch with
  | Some v => [v]
  | None =>
    if ch <? 32 then [0; ch]
    else match c40_shift2 ch with
         | Some v => [1; v]
         | None => match c40_shift3 text ch with Some v => [2; v] | None => [] end
         end
  end.
(* characters 128..255: Shift 2, Upper Shift (30), then the values of ch - 128 *)
Definition c40_vals (text : bool) (ch : N) : list N :=
  if ch <? 128 then c40_vals_low text ch else [1; 30] ++ c40_vals_low text (ch - 128).

Definition x12_val (ch : N) : option N :=
  if ch =? 13 then Some 0 else if ch =? 42 then Some 1 else if ch =? 62 then Some 2 else if ch =? 32 then Some 3
  else if between 48 57 ch then Some (ch - 48 + 4)
  else if between 65 90 ch then Some (ch - 65 + 14) else None.
Definition x12_ok (ch : N) : bool := match x12_val ch with Some _ => true | None => false end.
Definition x12_v (ch : N) : N := match x12_val ch with Some v => v | None => 0 end.

(* three values in two codewords: 1600 c1 + 40 c2 + c3 + 1, most significant first *)
Definition pack3 (c1 c2 c3 : N) : list N := let v := 1600 * c1 + 40 * c2 + c3 + 1 in [v / 256; v mod 256].
Fixpoint pack_vals (vals : list N) : list N :=
  match vals with c1 :: c2 :: c3 :: r => pack3 c1 c2 c3 ++ pack_vals r | _ => [] end.

(* how a C40 / Text / X12 run ends: explicit Unlatch (254), or nothing because the symbol ends here (possibly
   after one more ASCII-encoded codeword, see script_ok) *)
Inductive term := TUnlatch | TEnd.
Definition term_cw (t : term) : list N := match t with TUnlatch => [254] | TEnd => [] end.

Inductive segment :=
  | SAscii (items : list aitem)
  | SB256 (bytes : list N)          (* explicit length field *)
  | SB256End (bytes : list N)       (* length field 0: runs to the end of the symbol; only as the last segment *)
  | SC40 (text : bool) (chars : list N) (fill : nat) (t : term)   (* fill completing the last triple: 0 none; 1: one Shift-1 value; 2: Shift 2 + Upper Shift; 3: one Shift-2 value; 4: one Shift-3 value; 5/6/7: Shift 2, Upper Shift, then Shift 1/2/3 (dangling shifts decode to nothing) *)
  | SX12 (chars : list N) (t : term)
  | SEdifact (chars : list N) (t : term).

(* EDIFACT: the 6 low bits of the characters 32..94; four values in three codewords, a shorter last group is cut
   after the codeword that holds its last bit (the rest of that codeword is zero) *)
Fixpoint pack_edi (vals : list N) : list N :=
  match vals with
  | v1 :: v2 :: v3 :: v4 :: r => [v1 * 4 + v2 / 16; (v2 mod 16) * 16 + v3 / 4; (v3 mod 4) * 64 + v4] ++ pack_edi r
  | [v1; v2; v3] => [v1 * 4 + v2 / 16; (v2 mod 16) * 16 + v3 / 4; (v3 mod 4) * 64]
  | [v1; v2] => [v1 * 4 + v2 / 16; (v2 mod 16) * 16]
  | [v1] => [v1 * 4]
  | [] => []
  end.
Definition edi_vals (chars : list N) (t : term) : list N :=
  map (fun ch => ch mod 64) chars ++ match t with TUnlatch => [31] | TEnd => [] end.

Definition fill_vals (fill : nat) : list N := match fill with O => [] | S O => [0] | S (S O) => [1; 30] | S (S (S O)) => [1] | S (S (S (S O))) => [2] | S (S (S (S (S O)))) => [1; 30; 0]
  | S (S (S (S (S (S O))))) => [1; 30; 1] | _ => [1; 30; 2] end.
Definition c40_run_vals (text : bool) (chars : list N) (fill : nat) : list N :=
  flat_map (c40_vals text) chars ++ fill_vals fill.

Definition bytes_ok (l : list N) : bool := forallb (fun b => b <? 256) l.
Definition len_field (n : N) : list N := if n <? 250 then [n] else [n / 250 + 249; n mod 250].
Definition segment_ok (s : segment) : bool :=
  match s with
  | SAscii items => forallb aitem_ok items
  | SB256 bytes => bytes_ok bytes && (1 <=? N.of_nat (length bytes)) && (N.of_nat (length bytes) <=? 1555)
  | SB256End bytes => bytes_ok bytes
  | SC40 text chars fill _ => bytes_ok chars && (N.of_nat (length (c40_run_vals text chars fill)) mod 3 =? 0)
  | SX12 chars _ => forallb x12_ok chars && (N.of_nat (length chars) mod 3 =? 0)
  | SEdifact chars t => forallb (between 32 94) chars &&
                        match t with TEnd => N.of_nat (length chars) mod 4 =? 0 | TUnlatch => true end
  end.

(* codewords of one segment when `before` codewords precede it *)
Definition segment_cw (before : N) (s : segment) : list N :=
  match s with
  | SAscii items => flat_map aitem_cw items
  | SB256 bytes => 231 :: rand255_run (len_field (N.of_nat (length bytes)) ++ bytes) (before + 2)
  | SB256End bytes => 231 :: rand255_run (0 :: bytes) (before + 2)
  | SC40 text chars fill t => (if text then 239 else 230) :: pack_vals (c40_run_vals text chars fill) ++ term_cw t
  | SX12 chars t => 238 :: pack_vals (map x12_v chars) ++ term_cw t
  | SEdifact chars t => 240 :: pack_edi (edi_vals chars t)
  end.
Definition segment_data (s : segment) : list N :=
  match s with SAscii items => flat_map aitem_data items | SB256 bytes | SB256End bytes => bytes | SC40 _ chars _ _ => chars | SX12 chars _ => chars | SEdifact chars _ => chars end.

Fixpoint render (before : N) (segs : list segment) : list N :=
  match segs with
  | [] => []
  | s :: r => let cw := segment_cw before s in cw ++ render (before + N.of_nat (length cw)) r
  end.
Definition meaning (segs : list segment) : list N := flat_map segment_data segs.

(* padding of `n` codewords after `before` codewords *)
Fixpoint rpad (before : N) (n : nat) : list N :=
  match n with O => [] | S k => rand253 129 (before + 1) :: rpad (before + 1) k end.
Definition pad (before : N) (n : nat) : list N :=
  match n with O => [] | S k => 129 :: rpad (before + 1) k end.

(* a script is legal if every segment is, a run-to-the-end Base256 field is last and unpadded, and a C40/Text/X12
   run without Unlatch ends the symbol: nothing follows it, or exactly one more ASCII-encoded codeword *)
Definition single_cw (i : aitem) : bool := match i with AUpper _ => false | _ => true end.
(* number of codewords of the rest (does not depend on the position) *)
Definition rest_len (r : list segment) (npad : nat) : nat := (length (render 0 r) + npad)%nat.
Definition ends_symbol (r : list segment) (npad : nat) : bool :=
  Nat.leb (rest_len r npad) 1 &&
  match r with
  | [] => true                                   (* nothing, or one pad codeword *)
  | [SAscii [i]] => aitem_ok i && single_cw i    (* one ASCII-encoded codeword *)
  | _ => false
  end.
Definition term_of (s : segment) : option term :=
  match s with SC40 _ _ _ t | SX12 _ t => Some t | _ => None end.
(* EDIFACT at the end of the symbol: the run stops without unlatch and at most two codewords follow, ASCII-encoded
   characters or padding *)
Definition ends_symbol2 (r : list segment) (npad : nat) : bool :=
  Nat.leb (rest_len r npad) 2 &&
  match r with
  | [] => true
  | [SAscii items] => forallb aitem_ok items
  | _ => false
  end.
(* an explicit EDIFACT unlatch must not sit in the last two codewords of the symbol (those are read as ASCII) *)
Definition unlatch_group_bytes (nchars : nat) : nat := match Nat.modulo nchars 4 with O => 1%nat | S O => 2%nat | _ => 3%nat end.
Fixpoint script_ok (segs : list segment) (npad : nat) : bool :=
  match segs with
  | [] => true
  | SB256End b :: r => segment_ok (SB256End b) && match r with [] => Nat.eqb npad 0 | _ => false end
  | SEdifact chars t :: r =>
      segment_ok (SEdifact chars t) && script_ok r npad &&
      match t with
      | TEnd => ends_symbol2 r npad
      | TUnlatch => Nat.leb 3 (unlatch_group_bytes (length chars) + rest_len r npad)
      end
  | s :: r => segment_ok s && script_ok r npad &&
              match term_of s with Some TEnd => ends_symbol r npad | _ => true end
  end.

Definition stream (segs : list segment) (npad : nat) : list N :=
  let body := render 0 segs in body ++ pad (N.of_nat (length body)) npad.
