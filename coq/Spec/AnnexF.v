(* Spec/AnnexF.v -- ISO/IEC 16022:2006 Annex F.1 "ECC 200 symbol character placement program",
   transcribed statement by statement (array[] = finite map from row*ncol+col to 10*chr+bit,
   here the pair (chr, bit)); with the row wrap ISO/IEC 21471 adds for its rectangular sizes.
   Independent of the Rust code.  chr counts from 1, bit 1 is the most significant bit. *)
From Coq Require Import ZArith NArith List Bool FMapPositive.
Import ListNotations.
Local Open Scope Z_scope.

Module PM := PositiveMap.
Definition arr := PM.t (N * N).

Definition key (idx : Z) : positive := Z.to_pos (idx + 1).
Definition aget (a : arr) (idx : Z) : option (N * N) := if idx <? 0 then None else PM.find (key idx) a.
Definition aset (a : arr) (idx : Z) (v : N * N) : arr := if idx <? 0 then a else PM.add (key idx) v a.

Section Program.
Variables nrow ncol : Z.

(* "module" places "chr+bit" with appropriate wrapping within array[] *)
Definition module (row col : Z) (chr bit : N) (a : arr) : arr :=
  let '(row, col) := if row <? 0 then (row + nrow, col + (4 - ((nrow + 4) mod 8))) else (row, col) in
  let '(row, col) := if col <? 0 then (row + (4 - ((ncol + 4) mod 8)), col + ncol) else (row, col) in
  let row := if row >=? nrow then row - nrow else row in      (* ISO/IEC 21471 *)
  aset a (row * ncol + col) (chr, bit).

Definition utah (row col : Z) (chr : N) (a : arr) : arr :=
  let a := module (row - 2) (col - 2) chr 1 a in
  let a := module (row - 2) (col - 1) chr 2 a in
  let a := module (row - 1) (col - 2) chr 3 a in
  let a := module (row - 1) (col - 1) chr 4 a in
  let a := module (row - 1) col chr 5 a in
  let a := module row (col - 2) chr 6 a in
  let a := module row (col - 1) chr 7 a in
  module row col chr 8 a.

Definition corner1 (chr : N) (a : arr) : arr :=
  let a := module (nrow - 1) 0 chr 1 a in
  let a := module (nrow - 1) 1 chr 2 a in
  let a := module (nrow - 1) 2 chr 3 a in
  let a := module 0 (ncol - 2) chr 4 a in
  let a := module 0 (ncol - 1) chr 5 a in
  let a := module 1 (ncol - 1) chr 6 a in
  let a := module 2 (ncol - 1) chr 7 a in
  module 3 (ncol - 1) chr 8 a.

Definition corner2 (chr : N) (a : arr) : arr :=
  let a := module (nrow - 3) 0 chr 1 a in
  let a := module (nrow - 2) 0 chr 2 a in
  let a := module (nrow - 1) 0 chr 3 a in
  let a := module 0 (ncol - 4) chr 4 a in
  let a := module 0 (ncol - 3) chr 5 a in
  let a := module 0 (ncol - 2) chr 6 a in
  let a := module 0 (ncol - 1) chr 7 a in
  module 1 (ncol - 1) chr 8 a.

Definition corner3 (chr : N) (a : arr) : arr :=
  let a := module (nrow - 3) 0 chr 1 a in
  let a := module (nrow - 2) 0 chr 2 a in
  let a := module (nrow - 1) 0 chr 3 a in
  let a := module 0 (ncol - 2) chr 4 a in
  let a := module 0 (ncol - 1) chr 5 a in
  let a := module 1 (ncol - 1) chr 6 a in
  let a := module 2 (ncol - 1) chr 7 a in
  module 3 (ncol - 1) chr 8 a.

Definition corner4 (chr : N) (a : arr) : arr :=
  let a := module (nrow - 1) 0 chr 1 a in
  let a := module (nrow - 1) (ncol - 1) chr 2 a in
  let a := module 0 (ncol - 3) chr 3 a in
  let a := module 0 (ncol - 2) chr 4 a in
  let a := module 0 (ncol - 1) chr 5 a in
  let a := module 1 (ncol - 3) chr 6 a in
  let a := module 1 (ncol - 2) chr 7 a in
  module 1 (ncol - 1) chr 8 a.

Definition unset (a : arr) (row col : Z) : bool :=
  match aget a (row * ncol + col) with None => true | Some _ => false end.

(* do { if (..) utah(row, col, chr++); row -= 2; col += 2; } while (row >= 0 && col < ncol) *)
Fixpoint sweep_up (fuel : nat) (row col : Z) (chr : N) (a : arr) : option (Z * Z * N * arr) :=
  match fuel with
  | O => None
  | S f =>
    let '(chr, a) := if (row <? nrow) && (col >=? 0) && unset a row col
                     then ((chr + 1)%N, utah row col chr a) else (chr, a) in
    let row := row - 2 in let col := col + 2 in
    if (row >=? 0) && (col <? ncol) then sweep_up f row col chr a else Some (row, col, chr, a)
  end.

Fixpoint sweep_down (fuel : nat) (row col : Z) (chr : N) (a : arr) : option (Z * Z * N * arr) :=
  match fuel with
  | O => None
  | S f =>
    let '(chr, a) := if (row >=? 0) && (col <? ncol) && unset a row col
                     then ((chr + 1)%N, utah row col chr a) else (chr, a) in
    let row := row + 2 in let col := col - 2 in
    if (row <? nrow) && (col >=? 0) then sweep_down f row col chr a else Some (row, col, chr, a)
  end.

Fixpoint outer (fuel : nat) (row col : Z) (chr : N) (a : arr) : option arr :=
  match fuel with
  | O => None
  | S f =>
    let '(chr, a) := if (row =? nrow) && (col =? 0) then ((chr + 1)%N, corner1 chr a) else (chr, a) in
    let '(chr, a) := if (row =? nrow - 2) && (col =? 0) && negb (ncol mod 4 =? 0)
                     then ((chr + 1)%N, corner2 chr a) else (chr, a) in
    let '(chr, a) := if (row =? nrow - 2) && (col =? 0) && (ncol mod 8 =? 4)
                     then ((chr + 1)%N, corner3 chr a) else (chr, a) in
    let '(chr, a) := if (row =? nrow + 4) && (col =? 2) && (ncol mod 8 =? 0)
                     then ((chr + 1)%N, corner4 chr a) else (chr, a) in
    match sweep_up f row col chr a with
    | None => None
    | Some (row, col, chr, a) =>
      let row := row + 1 in let col := col + 3 in
      match sweep_down f row col chr a with
      | None => None
      | Some (row, col, chr, a) =>
        let row := row + 3 in let col := col + 1 in
        if (row <? nrow) || (col <? ncol) then outer f row col chr a else Some a
      end
    end
  end.

Inductive cell := Bit (chr bit : N) | FixedDark | FixedLight.

(* ECC200(): scan, then "if the lower righthand corner is untouched, fill in fixed pattern":
   array[nrow*ncol-1] = array[nrow*ncol-ncol-2] = 1 (dark); the other two stay 0 (light) *)
Definition ecc200 : option (list cell) :=
  let fuel := Z.to_nat (nrow + ncol + 8) in
  match outer fuel 4 0 1%N (PM.empty _) with
  | None => None
  | Some a =>
    let untouched := unset a (nrow - 1) (ncol - 1) in
    Some (map (fun i : nat =>
           let idx := Z.of_nat i in
           match aget a idx with
           | Some (c, b) => Bit c b
           | None => if untouched && ((idx =? nrow * ncol - 1) || (idx =? nrow * ncol - ncol - 2))
                     then FixedDark else FixedLight
           end) (seq 0 (Z.to_nat (nrow * ncol))))
  end.
End Program.

Definition show_cell (c : cell) : N * N :=
  match c with Bit c b => (c, b) | FixedDark => (0%N, 1%N) | FixedLight => (0%N, 0%N) end.

(* the standard's Figure F.1 (8x8 mapping matrix of the 10x10 symbol) *)
Example annex_f_10x10 : option_map (map show_cell) (ecc200 8 8) = Some
 [(2,1); (2,2); (3,6); (3,7); (3,8); (4,3); (4,4); (4,5);
  (2,3); (2,4); (2,5); (5,1); (5,2); (4,6); (4,7); (4,8);
  (2,6); (2,7); (2,8); (5,3); (5,4); (5,5); (1,1); (1,2);
  (1,5); (6,1); (6,2); (5,6); (5,7); (5,8); (1,3); (1,4);
  (1,8); (6,3); (6,4); (6,5); (8,1); (8,2); (1,6); (1,7);
  (7,2); (6,6); (6,7); (6,8); (8,3); (8,4); (8,5); (7,1);
  (7,4); (7,5); (3,1); (3,2); (8,6); (8,7); (8,8); (7,3);
  (7,7); (7,8); (3,3); (3,4); (3,5); (4,1); (4,2); (7,6)]%N.
Proof. vm_compute. reflexivity. Qed.
