(* Spec/RSCode.v -- the Reed-Solomon code of ISO/IEC 16022 (clause 5.7 / Annex E): for a symbol
   with B interleaved blocks and k error codewords per block, block b consists of the data
   codewords at positions b, b+B, b+2B, ... followed by the error codewords at the same stride;
   each block, read as a polynomial (first codeword = highest degree), is a multiple of
   g(x) = (x + alpha)(x + alpha^2)...(x + alpha^k) over GF(256)/301, i.e. vanishes at
   alpha^1..alpha^k.  Written from the standard, not from the Rust code. *)
From Coq Require Import NArith List Bool Lia.
From DM Require Import Spec.GF256 Spec.Poly.
Import ListNotations.

(* elements at positions i with i mod B = b, in order; i0 = absolute index of the head *)
Fixpoint block_from {A} (B b i0 : nat) (l : list A) : list A :=
  match l with
  | [] => []
  | x :: r => if Nat.eqb (Nat.modulo i0 B) b then x :: block_from B b (S i0) r else block_from B b (S i0) r
  end.
Definition block_of {A} (B b : nat) (l : list A) : list A := block_from B b 0 l.

Definition roots (k : nat) : list F := map (fun j => Fpow Falpha j) (seq 1 k).

Definition block_ok (k : nat) (w : list F) : Prop := forall r, In r (roots k) -> peval w r = F0.

(* data, ecc: the two parts of a symbol's codeword sequence *)
Definition is_codeword (B k : nat) (data ecc : list N) : Prop :=
  forall b, (b < B)%nat -> block_ok k (map toF (block_of B b data ++ block_of B b ecc)).

(* the generator polynomial as a product, on N-level coefficients (highest degree first) *)
Open Scope N_scope.
Definition pmul_lin (p : list N) (r : N) : list N :=   (* p(x) * (x + r) *)
  match p with
  | [] => []
  | c :: t => c :: (fix go (prev : N) (t : list N) : list N :=
                      match t with
                      | [] => [gmul prev r]
                      | d :: t' => gadd d (gmul prev r) :: go d t'
                      end) c t
  end.
Definition gen_poly (k : nat) : list N :=
  fold_left (fun p j => pmul_lin p (gpow alpha j)) (seq 1 k) [1].

Example gen_poly_5 : gen_poly 5 = [1; 62; 111; 15; 48; 228].   (* ISO/IEC 16022 Annex E.1 *)
Proof. vm_compute. reflexivity. Qed.
Example gen_poly_7 : gen_poly 7 = [1; 254; 92; 240; 134; 144; 68; 23].
Proof. vm_compute. reflexivity. Qed.
