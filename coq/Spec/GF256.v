(* Spec/GF256.v -- GF(2)[x]/(x^8+x^5+x^3+x^2+1), the field of ISO/IEC 16022 Reed-Solomon
   codes, defined on N < 256 by shift-and-xor ("Russian peasant") multiplication reduced by
   301 = 0x12D; written from the textbook definition, not from the Rust code.
   Proved here: commutative ring laws, inverses, alpha = 2 has order 255; then the field is
   packaged as the type F with `ring`/`field` support. *)
From Coq Require Import NArith List Bool Lia Ring Field Eqdep_dec.
Import ListNotations.
Open Scope N_scope.

Definition xtime (b : N) : N := let s := 2 * b in if 256 <=? s then N.lxor s 301 else s.

Fixpoint gmul_pos (a : positive) (b : N) : N :=
  match a with
  | xH => b
  | xO a' => gmul_pos a' (xtime b)
  | xI a' => N.lxor b (gmul_pos a' (xtime b))
  end.

Definition gmul (a b : N) : N := match a with N0 => 0 | Npos p => gmul_pos p b end.
Definition gadd (a b : N) : N := N.lxor a b.

Fixpoint gpow (a : N) (n : nat) : N := match n with O => 1 | S n' => gmul a (gpow a n') end.
(* a^254 = a^-1 in a field with 256 elements *)
Definition ginv (a : N) : N := gpow a 254.
Definition gdiv (a b : N) : N := gmul a (ginv b).

Definition byte (n : N) : Prop := n < 256.
Definition byteb (n : N) : bool := n <? 256.

Definition bytes : list N := map N.of_nat (seq 0 256).

Lemma bytes_complete n : byte n -> In n bytes.
Proof.
  unfold byte, bytes. intros H. apply in_map_iff. exists (N.to_nat n). split; [lia|].
  apply in_seq. lia.
Qed.

Lemma sweep1 (P : N -> bool) : forallb P bytes = true -> forall a, byte a -> P a = true.
Proof. intros H a Ha. rewrite forallb_forall in H. apply H, bytes_complete, Ha. Qed.

Lemma sweep2 (P : N -> N -> bool) :
  forallb (fun a => forallb (P a) bytes) bytes = true -> forall a b, byte a -> byte b -> P a b = true.
Proof. intros H a b Ha Hb. pose proof (sweep1 _ H a Ha) as H1. cbv beta in H1. apply (sweep1 _ H1 b Hb). Qed.

(* ---- xtime: closed and linear ---- *)
Lemma xtime_byte_sweep : forallb (fun b => byteb (xtime b)) bytes = true.
Proof. vm_compute. reflexivity. Qed.
Lemma xtime_byte b : byte b -> byte (xtime b).
Proof. intros H. apply N.ltb_lt. exact (sweep1 _ xtime_byte_sweep b H). Qed.

Lemma xtime_linear_sweep :
  forallb (fun b => forallb (fun c => xtime (N.lxor b c) =? N.lxor (xtime b) (xtime c)) bytes) bytes = true.
Proof. vm_compute. reflexivity. Qed.
Lemma xtime_linear b c : byte b -> byte c -> xtime (N.lxor b c) = N.lxor (xtime b) (xtime c).
Proof. intros Hb Hc. apply N.eqb_eq. exact (sweep2 _ xtime_linear_sweep b c Hb Hc). Qed.

Lemma byte_bits n : byte n <-> forall m, 8 <= m -> N.testbit n m = false.
Proof.
  unfold byte. change 256 with (2^8). split.
  - intros H m Hm. destruct (N.eq_dec n 0) as [->|Hn]; [apply N.bits_0|].
    apply N.bits_above_log2. apply N.log2_lt_pow2 in H; lia.
  - intros H. destruct (N.lt_ge_cases n (2^8)) as [L|G]; [exact L|exfalso].
    assert (0 < n) as Hp by (change (2^8) with 256 in G; lia).
    apply N.log2_le_pow2 in G; [|exact Hp].
    pose proof (N.bit_log2 n ltac:(lia)) as B. rewrite (H _ G) in B. discriminate.
Qed.

Lemma lxor_byte a b : byte a -> byte b -> byte (N.lxor a b).
Proof.
  rewrite !byte_bits. intros Ha Hb m Hm. rewrite N.lxor_spec, Ha, Hb by assumption. reflexivity.
Qed.

(* ---- gmul: closed, linear in the right argument (induction on the left one) ---- *)
Lemma gmul_pos_byte a : forall b, byte b -> byte (gmul_pos a b).
Proof. induction a as [a IH|a IH|]; intros b Hb; cbn [gmul_pos]; auto using xtime_byte, lxor_byte. Qed.

Lemma gmul_byte a b : byte b -> byte (gmul a b).
Proof. destruct a; cbn [gmul]; [intros _; unfold byte; lia|apply gmul_pos_byte]. Qed.

Lemma gmul_pos_linear a : forall b c, byte b -> byte c ->
  gmul_pos a (N.lxor b c) = N.lxor (gmul_pos a b) (gmul_pos a c).
Proof.
  induction a as [a IH|a IH|]; intros b c Hb Hc; cbn [gmul_pos]; [| |reflexivity].
  - rewrite xtime_linear, IH by auto using xtime_byte.
    rewrite !N.lxor_assoc. f_equal. rewrite <- !N.lxor_assoc. f_equal. apply N.lxor_comm.
  - rewrite xtime_linear, IH by auto using xtime_byte. reflexivity.
Qed.

Lemma gmul_add_r a b c : byte b -> byte c -> gmul a (gadd b c) = gadd (gmul a b) (gmul a c).
Proof. destruct a; cbn [gmul]; [reflexivity|apply gmul_pos_linear]. Qed.

Lemma gmul_comm_sweep : forallb (fun a => forallb (fun b => gmul a b =? gmul b a) bytes) bytes = true.
Proof. vm_compute. reflexivity. Qed.
Lemma gmul_comm a b : byte a -> byte b -> gmul a b = gmul b a.
Proof. intros Ha Hb. apply N.eqb_eq. exact (sweep2 _ gmul_comm_sweep a b Ha Hb). Qed.

Lemma gmul_add_l a b c : byte a -> byte b -> byte c -> gmul (gadd a b) c = gadd (gmul a c) (gmul b c).
Proof. intros Ha Hb Hc. unfold gadd. rewrite gmul_comm, gmul_add_r by auto using lxor_byte.
  unfold gadd. rewrite (gmul_comm c a), (gmul_comm c b) by assumption. reflexivity. Qed.

Lemma xtime_gmul_sweep :
  forallb (fun b => forallb (fun c => xtime (gmul b c) =? gmul (xtime b) c) bytes) bytes = true.
Proof. vm_compute. reflexivity. Qed.
Lemma xtime_gmul b c : byte b -> byte c -> xtime (gmul b c) = gmul (xtime b) c.
Proof. intros Hb Hc. apply N.eqb_eq. exact (sweep2 _ xtime_gmul_sweep b c Hb Hc). Qed.

Lemma gmul_pos_assoc a : forall b c, byte b -> byte c ->
  gmul (gmul_pos a b) c = gmul_pos a (gmul b c).
Proof.
  induction a as [a IH|a IH|]; intros b c Hb Hc; cbn [gmul_pos]; [| |reflexivity].
  - change (N.lxor b (gmul_pos a (xtime b))) with (gadd b (gmul_pos a (xtime b))).
    rewrite gmul_add_l by auto using gmul_pos_byte, xtime_byte.
    rewrite IH by auto using xtime_byte. rewrite xtime_gmul by assumption. reflexivity.
  - rewrite IH by auto using xtime_byte. rewrite xtime_gmul by assumption. reflexivity.
Qed.

Lemma gmul_assoc a b c : byte b -> byte c -> gmul (gmul a b) c = gmul a (gmul b c).
Proof. destruct a; cbn [gmul]; [reflexivity|apply gmul_pos_assoc]. Qed.

Lemma gmul_1_l b : gmul 1 b = b. Proof. reflexivity. Qed.
Lemma gmul_0_l b : gmul 0 b = 0. Proof. reflexivity. Qed.
Lemma gmul_1_r a : byte a -> gmul a 1 = a.
Proof. intros Ha. rewrite gmul_comm by (assumption || (unfold byte; lia)). reflexivity. Qed.
Lemma gmul_0_r a : byte a -> gmul a 0 = 0.
Proof. intros Ha. rewrite gmul_comm by (assumption || (unfold byte; lia)). reflexivity. Qed.

Lemma gpow_byte a n : byte a -> byte (gpow a n).
Proof. intros Ha. induction n; cbn [gpow]; [unfold byte; lia|now apply gmul_byte]. Qed.

Lemma ginv_sweep : forallb (fun a => (a =? 0) || (gmul a (ginv a) =? 1)) bytes = true.
Proof. vm_compute. reflexivity. Qed.
Lemma gmul_inv_r a : byte a -> a <> 0 -> gmul a (ginv a) = 1.
Proof. intros Ha Hn. pose proof (sweep1 _ ginv_sweep a Ha) as H. cbv beta in H.
  apply orb_true_iff in H. destruct H as [H|H]; apply N.eqb_eq in H; congruence. Qed.
Lemma ginv_byte a : byte a -> byte (ginv a).
Proof. apply gpow_byte. Qed.

(* alpha = 2 generates the multiplicative group: its first 255 powers are pairwise different *)
Definition alpha : N := 2.
Definition alog_list : list N := Eval vm_compute in map (fun i => gpow alpha i) (seq 0 255).
Lemma alog_list_spec : alog_list = map (fun i => gpow alpha i) (seq 0 255).
Proof. vm_compute. reflexivity. Qed.
Lemma alpha_order : gpow alpha 255 = 1 /\ NoDup alog_list /\ ~ In 0 alog_list.
Proof.
  split; [vm_compute; reflexivity|]. split.
  - assert (H : forall l : list N,
       (fix nd (l : list N) := match l with [] => true | x :: r => negb (existsb (N.eqb x) r) && nd r end) l = true -> NoDup l).
    { induction l as [|x r IH]; intros H; constructor.
      - apply andb_true_iff in H. destruct H as [H _]. apply negb_true_iff in H.
        intros Hin. assert (existsb (N.eqb x) r = true) as E; [|congruence].
        apply existsb_exists. exists x. split; [assumption|apply N.eqb_refl].
      - apply IH. apply andb_true_iff in H. tauto. }
    apply H. vm_compute. reflexivity.
  - intros Hin. assert (existsb (N.eqb 0) alog_list = true) as E.
    { apply existsb_exists. exists 0. split; [assumption|reflexivity]. }
    vm_compute in E. discriminate.
Qed.

(* ------------------------------------------------------------------ *)
(* the field as a type, for `ring` and `field` *)

Definition F : Set := { n : N | byteb n = true }.
Definition Fval (x : F) : N := proj1_sig x.

Lemma byteb_byte n : byteb n = true <-> byte n.
Proof. unfold byteb, byte. apply N.ltb_lt. Qed.

Lemma Fval_byte x : byte (Fval x).
Proof. destruct x as [n H]. apply byteb_byte, H. Qed.

Lemma F_eq (x y : F) : Fval x = Fval y -> x = y.
Proof.
  destruct x as [n Hn], y as [m Hm]. cbn. intros ->. f_equal.
  apply UIP_dec. apply bool_dec.
Qed.

Lemma mod_byteb n : byteb (n mod 256) = true.
Proof. apply N.ltb_lt. apply N.mod_lt. lia. Qed.
Definition toF (n : N) : F := exist _ (n mod 256) (mod_byteb n).
Lemma Fval_toF n : byte n -> Fval (toF n) = n.
Proof. intros H. cbn. apply N.mod_small, H. Qed.
Lemma toF_Fval x : toF (Fval x) = x.
Proof. apply F_eq. apply Fval_toF, Fval_byte. Qed.

Definition F0 : F := toF 0.
Definition F1 : F := toF 1.
Definition Fadd (x y : F) : F := toF (gadd (Fval x) (Fval y)).
Definition Fmul (x y : F) : F := toF (gmul (Fval x) (Fval y)).
Definition Fopp (x : F) : F := x.
Definition Fsub (x y : F) : F := Fadd x y.
Definition Finv (x : F) : F := toF (ginv (Fval x)).
Definition Fdiv (x y : F) : F := Fmul x (Finv y).

Lemma Fval_add x y : Fval (Fadd x y) = gadd (Fval x) (Fval y).
Proof. apply Fval_toF, lxor_byte; apply Fval_byte. Qed.
Lemma Fval_mul x y : Fval (Fmul x y) = gmul (Fval x) (Fval y).
Proof. apply Fval_toF, gmul_byte, Fval_byte. Qed.
Lemma Fval_inv x : Fval (Finv x) = ginv (Fval x).
Proof. apply Fval_toF, ginv_byte, Fval_byte. Qed.
Lemma Fval_0 : Fval F0 = 0. Proof. reflexivity. Qed.
Lemma Fval_1 : Fval F1 = 1. Proof. reflexivity. Qed.

Lemma F_ring : ring_theory F0 F1 Fadd Fmul Fsub Fopp (@eq F).
Proof.
  constructor.
  - intros x. apply F_eq. rewrite Fval_add. unfold gadd. rewrite Fval_0. apply N.lxor_0_l.
  - intros x y. apply F_eq. rewrite !Fval_add. apply N.lxor_comm.
  - intros x y z. apply F_eq. rewrite !Fval_add. unfold gadd. symmetry. apply N.lxor_assoc.
  - intros x. apply F_eq. rewrite Fval_mul, Fval_1. reflexivity.
  - intros x y. apply F_eq. rewrite !Fval_mul. apply gmul_comm; apply Fval_byte.
  - intros x y z. apply F_eq. rewrite !Fval_mul. symmetry. apply gmul_assoc; apply Fval_byte.
  - intros x y z. apply F_eq. rewrite !Fval_mul, !Fval_add, !Fval_mul. apply gmul_add_l; apply Fval_byte.
  - reflexivity.
  - intros x. apply F_eq. unfold Fopp. rewrite Fval_add. apply N.lxor_nilpotent.
Qed.

Lemma F_field : field_theory F0 F1 Fadd Fmul Fsub Fopp Fdiv Finv (@eq F).
Proof.
  constructor.
  - apply F_ring.
  - intros H. apply (f_equal Fval) in H. discriminate H.
  - reflexivity.
  - intros p Hp. apply F_eq. rewrite Fval_mul, Fval_inv.
    rewrite gmul_comm by (apply ginv_byte, Fval_byte || apply Fval_byte).
    apply gmul_inv_r; [apply Fval_byte|]. intros E. apply Hp. apply F_eq. exact E.
Qed.

Lemma Fadd_self x : Fadd x x = F0.
Proof. apply F_eq. rewrite Fval_add. apply N.lxor_nilpotent. Qed.

(* coefficients are taken in GF(2) = bool, so that `ring` knows the characteristic: x + x = 0 *)
Definition phi (b : bool) : F := if b then F1 else F0.
Lemma F_morph : ring_morph F0 F1 Fadd Fmul Fsub Fopp (@eq F) false true xorb andb xorb (fun b => b) Bool.eqb phi.
Proof.
  constructor; try reflexivity.
  - intros [] []; apply F_eq; reflexivity.
  - intros [] []; apply F_eq; reflexivity.
  - intros [] []; apply F_eq; reflexivity.
  - intros [] [] H; cbn in *; try reflexivity; discriminate.
Qed.

Add Field Ffield : F_field (morphism F_morph).

Lemma Fmul_integral x y : Fmul x y = F0 -> x = F0 \/ y = F0.
Proof.
  intros H. destruct (N.eq_dec (Fval x) 0) as [E|E]; [left; apply F_eq, E|right].
  assert (x <> F0) as Hx by (intros ->; apply E; reflexivity).
  transitivity (Fmul (Finv x) (Fmul x y)); [field; exact Hx|]. rewrite H. ring.
Qed.

Fixpoint Fpow (x : F) (n : nat) : F := match n with O => F1 | S n' => Fmul x (Fpow x n') end.
Definition Falpha : F := toF alpha.

Lemma Fval_pow x n : Fval (Fpow x n) = gpow (Fval x) n.
Proof. induction n; cbn [Fpow gpow]; [reflexivity|]. rewrite Fval_mul, IHn. reflexivity. Qed.

Lemma Fpow_add x n m : Fpow x (n + m) = Fmul (Fpow x n) (Fpow x m).
Proof. induction n; cbn [Fpow Nat.add]; [ring|]. rewrite IHn. ring. Qed.

Lemma Fpow_nonzero x n : x <> F0 -> Fpow x n <> F0.
Proof. intros Hx. induction n; cbn [Fpow]; [intros H; apply (f_equal Fval) in H; discriminate H|].
  intros H. apply Fmul_integral in H. tauto. Qed.

Lemma Falpha_nonzero : Falpha <> F0.
Proof. intros H. apply (f_equal Fval) in H. discriminate H. Qed.

(* alpha^i for 0 <= i < 255 are pairwise different *)
Lemma Falpha_pow_inj i j : (i < 255)%nat -> (j < 255)%nat -> Fpow Falpha i = Fpow Falpha j -> i = j.
Proof.
  intros Hi Hj H. apply (f_equal Fval) in H. rewrite !Fval_pow in H.
  change (Fval Falpha) with alpha in H.
  destruct alpha_order as (_ & ND & _). rewrite alog_list_spec in ND.
  assert (G : forall k, (k < 255)%nat -> nth k (map (fun i => gpow alpha i) (seq 0 255)) 0 = gpow alpha k).
  { intros k Hk. rewrite (nth_indep _ 0 (gpow alpha 0)) by (rewrite map_length, seq_length; exact Hk).
    rewrite (map_nth (fun i => gpow alpha i)), seq_nth by exact Hk. reflexivity. }
  rewrite NoDup_nth in ND. apply ND; rewrite ?map_length, ?seq_length; try assumption.
  rewrite !G by assumption. exact H.
Qed.
