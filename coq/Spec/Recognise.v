(* Spec/Recognise.v -- an (unverified) recogniser that guesses a script of Spec/Stream16022.v for a codeword stream, and
   the certificate check built on it: `certify prefix cw data` re-renders the guessed script and compares it with the
   stream, checks `script_ok` and that the script spells `data`.  Only the comparison is trusted to be evaluated
   correctly; its soundness (Proofs/Certify.v) needs nothing about the recogniser: whatever it guesses, a `true` answer
   means the stream IS the rendering of a legal script for these bytes -- and then, by the decoder theorem C04, the
   crate's decoder returns them. *)
From Coq Require Import NArith List Bool.
From DM Require Import Spec.Stream16022.
Import ListNotations.
Local Open Scope N_scope.

Definition derand255 (v pos : N) : N := let pr := (149 * pos) mod 255 + 1 in (v + 256 - pr) mod 256.

Fixpoint leq (l1 l2 : list N) : bool :=
  match l1, l2 with [], [] => true | a :: r1, b :: r2 => (a =? b) && leq r1 r2 | _, _ => false end.

Definition low_chars : list N := map N.of_nat (seq 0 128).
Definition char_of_vals (text : bool) (pat : list N) : option N := find (fun ch => leq (c40_vals_low text ch) pat) low_chars.
Definition char_of_x12 (v : N) : option N := find (fun ch => match x12_val ch with Some w => w =? v | None => false end) low_chars.

(* one low character from the front of a value list *)
Definition take_low (text : bool) (vals : list N) : option (N * list N) :=
  match vals with
  | v :: r =>
    if 3 <=? v then option_map (fun ch => (ch, r)) (char_of_vals text [v])
    else match r with
         | x :: r' => option_map (fun ch => (ch, r')) (char_of_vals text [v; x])
         | [] => None
         end
  | [] => None
  end.

Fixpoint c40_chars (fuel : nat) (text : bool) (vals : list N) : option (list N * nat) :=
  match fuel with
  | O => None
  | S f =>
    match vals with
    | [] => Some ([], 0%nat)
    | [0] => Some ([], 1%nat)
    | [1; 30] => Some ([], 2%nat)
    | [1] => Some ([], 3%nat)
    | [2] => Some ([], 4%nat)
    | [1; 30; 0] => Some ([], 5%nat)
    | [1; 30; 1] => Some ([], 6%nat)
    | [1; 30; 2] => Some ([], 7%nat)
    | 1 :: 30 :: r =>
      match take_low text r with
      | Some (ch, r') => option_map (fun p => (ch + 128 :: fst p, snd p)) (c40_chars f text r')
      | None => None
      end
    | _ =>
      match take_low text vals with
      | Some (ch, r') => option_map (fun p => (ch :: fst p, snd p)) (c40_chars f text r')
      | None => None
      end
    end
  end.

(* packed triples up to Unlatch / the end: values, terminator, rest *)
Fixpoint unpack3 (fuel : nat) (l : list N) (acc : list N) : list N * term * list N :=
  match fuel with
  | O => (acc, TEnd, l)
  | S f =>
    match l with
    | 254 :: r => (acc, TUnlatch, r)
    | a :: b :: r =>
      let v := a * 256 + b - 1 in
      unpack3 f r (acc ++ [v / 1600; (v mod 1600) / 40; v mod 40])
    | _ => (acc, TEnd, l)
    end
  end.

(* EDIFACT groups: characters, terminator, rest *)
Definition edi_char (v : N) : N := if 32 <=? v then v else v + 64.
Fixpoint unpack_edi (fuel : nat) (l : list N) (acc : list N) : list N * term * list N :=
  match fuel with
  | O => (acc, TEnd, l)
  | S f =>
    if Nat.leb (length l) 2 then (acc, TEnd, l) else
    match l with
    | a :: r1 =>
      let v1 := a / 4 in
      if v1 =? 31 then (acc, TUnlatch, r1) else
      match r1 with
      | b :: r2 =>
        let v2 := (a * 16 + b / 16) mod 64 in
        if v2 =? 31 then (acc ++ [edi_char v1], TUnlatch, r2) else
        match r2 with
        | c :: r3 =>
          let v3 := (b * 4 + c / 64) mod 64 in
          let v4 := c mod 64 in
          if v3 =? 31 then (acc ++ [edi_char v1; edi_char v2], TUnlatch, r3)
          else if v4 =? 31 then (acc ++ [edi_char v1; edi_char v2; edi_char v3], TUnlatch, r3)
          else unpack_edi f r3 (acc ++ [edi_char v1; edi_char v2; edi_char v3; edi_char v4])
        | [] => (acc, TEnd, l)
        end
      | [] => (acc, TEnd, l)
      end
    | [] => (acc, TEnd, l)
    end
  end.

Fixpoint map_opt' {A B} (f : A -> option B) (l : list A) : option (list B) :=
  match l with [] => Some [] | x :: r => match f x, map_opt' f r with Some y, Some ys => Some (y :: ys) | _, _ => None end end.

Fixpoint derand_run (l : list N) (pos : N) : list N :=
  match l with [] => [] | x :: r => derand255 x pos :: derand_run r (pos + 1) end.

(* the recogniser: `before` codewords precede `l`; `items` is the ASCII run being collected *)
Fixpoint recognise (fuel : nat) (before : N) (l : list N) (items : list aitem) : option (list segment * nat) :=
  let flush (rest : option (list segment * nat)) :=
      match items with [] => rest | _ => option_map (fun p => (SAscii items :: fst p, snd p)) rest end in
  match fuel with
  | O => None
  | S f =>
    match l with
    | [] => flush (Some ([], 0%nat))
    | c :: t =>
      if c =? 129 then flush (Some ([], length l))
      else if (1 <=? c) && (c <=? 128) then recognise f (before + 1) t (items ++ [AChar (c - 1)])
      else if (130 <=? c) && (c <=? 229) then
        let d := c - 130 in recognise f (before + 1) t (items ++ [APair (48 + d / 10) (48 + d mod 10)])
      else if c =? 235 then
        match t with
        | x :: t' => recognise f (before + 2) t' (items ++ [AUpper (x + 127)])
        | [] => None
        end
      else if c =? 231 then
        match t with
        | c1 :: t1 =>
          let d1 := derand255 c1 (before + 2) in
          if d1 =? 0 then flush (Some ([SB256End (derand_run t1 (before + 3))], 0%nat))
          else
            let '(n, body, p0) :=
              if d1 <? 250 then (d1, t1, before + 3)
              else match t1 with
                   | c2 :: t2 => (250 * (d1 - 249) + derand255 c2 (before + 3), t2, before + 4)
                   | [] => (0, [], before)
                   end in
            let k := N.to_nat n in
            if Nat.ltb (length body) k then None else
            flush (option_map (fun p => (SB256 (derand_run (firstn k body) p0) :: fst p, snd p))
                              (recognise f (p0 + n - 1) (skipn k body) []))
        | [] => None
        end
      else if (c =? 230) || (c =? 239) then
        let text := c =? 239 in
        let '(vals, tm, rest) := unpack3 (length t) t [] in
        match c40_chars (S (length vals)) text vals with
        | Some (chars, fill) =>
          let used := (length t - length rest)%nat in
          flush (option_map (fun p => (SC40 text chars fill tm :: fst p, snd p))
                            (recognise f (before + 1 + N.of_nat used) rest []))
        | None => None
        end
      else if c =? 238 then
        let '(vals, tm, rest) := unpack3 (length t) t [] in
        match map_opt' char_of_x12 vals with
        | Some chars =>
          let used := (length t - length rest)%nat in
          flush (option_map (fun p => (SX12 chars tm :: fst p, snd p))
                            (recognise f (before + 1 + N.of_nat used) rest []))
        | None => None
        end
      else if c =? 240 then
        let '(chars, tm, rest) := unpack_edi (length t) t [] in
        let used := (length t - length rest)%nat in
        flush (option_map (fun p => (SEdifact chars tm :: fst p, snd p))
                          (recognise f (before + 1 + N.of_nat used) rest []))
      else None
    end
  end.

(* the certificate: optional first codeword (Macro 05/06 or FNC1), then a script *)
Definition certify (prefix : option N) (cw data : list N) : bool :=
  match prefix with
  | None =>
    match recognise (S (length cw)) 0 cw [] with
    | Some (segs, npad) => script_ok segs npad && leq (stream segs npad) cw && leq (meaning segs) data
    | None => false
    end
  | Some m =>
    match cw with
    | c :: t =>
      (c =? m) &&
      match recognise (S (length t)) 1 t [] with
      | Some (segs, npad) =>
        script_ok segs npad && leq (m :: (render 1 segs ++ pad (1 + N.of_nat (length (render 1 segs))) npad)) cw && leq (meaning segs) data
      | None => false
      end
    | [] => false
    end
  end.
