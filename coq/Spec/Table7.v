(* Spec/Table7.v -- ISO/IEC 16022:2006 Table 7 (ECC 200 symbol attributes) and
   ISO/IEC 21471:2020 Table 1 (DMRE), typed in from the standards; never from
   the Rust code.  One row per symbol:
     rows cols  region_rows region_cols  regions_v regions_h  data ec blocks
   (regions_h = number of data regions side by side, regions_v = stacked). *)
From Coq Require Import NArith List Bool.
Import ListNotations.
Open Scope N_scope.

Record row := mk {
  t_rows : N; t_cols : N;
  t_rrows : N; t_rcols : N;      (* data region size in modules *)
  t_regv : N; t_regh : N;        (* number of regions vertically / horizontally *)
  t_data : N; t_ec : N; t_blocks : N }.

(* ISO/IEC 16022 Table 7: 24 squares, 6 rectangles *)
Definition iso16022 : list row := [
  mk 10 10   8  8  1 1     3   5  1;
  mk 12 12  10 10  1 1     5   7  1;
  mk 14 14  12 12  1 1     8  10  1;
  mk 16 16  14 14  1 1    12  12  1;
  mk 18 18  16 16  1 1    18  14  1;
  mk 20 20  18 18  1 1    22  18  1;
  mk 22 22  20 20  1 1    30  20  1;
  mk 24 24  22 22  1 1    36  24  1;
  mk 26 26  24 24  1 1    44  28  1;
  mk 32 32  14 14  2 2    62  36  1;
  mk 36 36  16 16  2 2    86  42  1;
  mk 40 40  18 18  2 2   114  48  1;
  mk 44 44  20 20  2 2   144  56  1;
  mk 48 48  22 22  2 2   174  68  1;
  mk 52 52  24 24  2 2   204  84  2;
  mk 64 64  14 14  4 4   280 112  2;
  mk 72 72  16 16  4 4   368 144  4;
  mk 80 80  18 18  4 4   456 192  4;
  mk 88 88  20 20  4 4   576 224  4;
  mk 96 96  22 22  4 4   696 272  4;
  mk 104 104 24 24 4 4   816 336  6;
  mk 120 120 18 18 6 6  1050 408  6;
  mk 132 132 20 20 6 6  1304 496  8;
  mk 144 144 22 22 6 6  1558 620 10;
  mk  8 18   6 16  1 1     5   7  1;
  mk  8 32   6 14  1 2    10  11  1;
  mk 12 26  10 24  1 1    16  14  1;
  mk 12 36  10 16  1 2    22  18  1;
  mk 16 36  14 16  1 2    32  24  1;
  mk 16 48  14 22  1 2    49  28  1 ].

(* ISO/IEC 21471 Table 1: 18 rectangular extensions *)
Definition iso21471 : list row := [
  mk  8  48  6 22  1 2    18  15  1;
  mk  8  64  6 14  1 4    24  18  1;
  mk  8  80  6 18  1 4    32  22  1;
  mk  8  96  6 22  1 4    38  28  1;
  mk  8 120  6 18  1 6    49  32  1;
  mk  8 144  6 22  1 6    63  36  1;
  mk 12  64 10 14  1 4    43  27  1;
  mk 12  88 10 20  1 4    64  36  1;
  mk 16  64 14 14  1 4    62  36  1;
  mk 20  36 18 16  1 2    44  28  1;
  mk 20  44 18 20  1 2    56  34  1;
  mk 20  64 18 14  1 4    84  42  1;
  mk 22  48 20 22  1 2    72  38  1;
  mk 24  48 22 22  1 2    80  41  1;
  mk 24  64 22 14  1 4   108  46  1;
  mk 26  40 24 18  1 2    70  38  1;
  mk 26  48 24 22  1 2    90  42  1;
  mk 26  64 24 14  1 4   118  50  1 ].

Definition rows : list row := iso16022 ++ iso21471.

(* Redundancy guarding the typing: the symbol is its regions plus a 2-module
   frame per region; the mapping matrix holds exactly 8 modules per codeword,
   plus 4 left-over corner modules for the mapping matrices of side 10, 14,
   18, 22 (symbols 12, 16, 20, 24); EC codewords divide evenly into blocks. *)
Definition mapping_modules (r : row) : N := (t_rrows r * t_regv r) * (t_rcols r * t_regh r).
Definition leftover (r : row) : N := mapping_modules r - 8 * (t_data r + t_ec r).

Definition row_consistent (r : row) : bool :=
  (t_rows r =? t_regv r * (t_rrows r + 2)) && (t_cols r =? t_regh r * (t_rcols r + 2))
  && (8 * (t_data r + t_ec r) <=? mapping_modules r)
  && ((leftover r =? 0) || ((leftover r =? 4) && (t_rows r =? t_cols r) &&
        ((t_rows r =? 12) || (t_rows r =? 16) || (t_rows r =? 20) || (t_rows r =? 24))))
  && (t_ec r mod t_blocks r =? 0).

Example rows_consistent : forallb row_consistent rows = true.
Proof. vm_compute. reflexivity. Qed.
Example rows_count : (length iso16022, length iso21471) = (30%nat, 18%nat).
Proof. reflexivity. Qed.
(* total codewords of the largest symbol and its unequal interleaving: 8 blocks of
   156 and 2 of 155 data codewords *)
Example sq144_blocks : 1558 = 8 * 156 + 2 * 155. Proof. reflexivity. Qed.
