(* Model/Path.v -- mirror of src/placement/path.rs (Bitmap::path: outline graph, Hierholzer tours with
   alternatives / insert bookkeeping, Jump between components, compress_path) and of Bitmap::{new, pixels,
   unicode} in src/placement.rs.  Coordinates are Z; every expect/index/division site is a Panic.
   bits_to_edge_graph is expressed per edge (which cells set it) instead of per cell (which edges it
   sets); the correspondence check compares the resulting paths.  No proofs in this file. *)
From Coq Require Import ZArith NArith List Bool FMapPositive.
From DM Require Import Model.Outcome.
Import ListNotations.
Local Open Scope Z_scope.

Module PM := PositiveMap.

Inductive seg := Move (dx dy : Z) | Hor (d : Z) | Ver (d : Z) | Close.
Inductive micro := Jump (i j : Z) | Step (i j : Z).
Inductive dir := Up | Down | Right | Left.
Record pos := mkpos { p_i : Z; p_j : Z; p_d : dir }.

Definition dflip (d : dir) : dir := match d with Up => Down | Down => Up | Right => Left | Left => Right end.
Definition end_node (p : pos) : Z * Z :=
  match p_d p with Up | Left => (p_i p, p_j p) | Down => (p_i p + 1, p_j p) | Right => (p_i p, p_j p + 1) end.
Definition pflip (p : pos) : pos := mkpos (p_i p) (p_j p) (dflip (p_d p)).
Definition start_node (p : pos) : Z * Z := end_node (pflip p).
Definition straight (p : pos) : pos :=
  match p_d p with
  | Up => mkpos (p_i p - 1) (p_j p) Up | Down => mkpos (p_i p + 1) (p_j p) Down
  | Right => mkpos (p_i p) (p_j p + 1) Right | Left => mkpos (p_i p) (p_j p - 1) Left
  end.
Definition pleft (p : pos) : pos :=
  match p_d p with
  | Up => mkpos (p_i p) (p_j p - 1) Left | Down => mkpos (p_i p + 1) (p_j p) Right
  | Right => mkpos (p_i p - 1) (p_j p + 1) Up | Left => mkpos (p_i p) (p_j p) Down
  end.
Definition pright (p : pos) : pos :=
  match p_d p with
  | Up => mkpos (p_i p) (p_j p) Right | Down => mkpos (p_i p + 1) (p_j p - 1) Left
  | Right => mkpos (p_i p) (p_j p + 1) Down | Left => mkpos (p_i p - 1) (p_j p) Up
  end.

(* the bitmap: bits row-major, width w, height h = len / w *)
Definition dark (bits : PM.t bool) (w h i j : Z) : bool :=
  (0 <=? i) && (i <? h) && (0 <=? j) && (j <? w) &&
  match PM.find (Z.to_pos (i * w + j + 1)) bits with Some b => b | None => false end.

Fixpoint fill_bits (l : list bool) (k : positive) (m : PM.t bool) : PM.t bool :=
  match l with [] => m | b :: r => fill_bits r (Pos.succ k) (if b then PM.add k true m else m) end.
Definition bits_map (l : list bool) : PM.t bool := fill_bits l 1%positive (PM.empty bool).

(* Graph: edges[(i, j)] = (left, top) for 0 <= i <= h, 0 <= j <= w; sets of indices still present *)
Record graph := mkgraph { g_w : Z; g_h : Z; g_left : PM.t unit; g_top : PM.t unit; g_hint : Z }.
Definition eidx (g : graph) (i j : Z) : positive := Z.to_pos (i * (g_w g + 1) + j + 1).
Definition has_cell (g : graph) (i j : Z) : bool := (0 <=? i) && (i <=? g_h g) && (0 <=? j) && (j <=? g_w g).
Definition mem (m : PM.t unit) (k : positive) : bool := match PM.find k m with Some _ => true | None => false end.
Definition gleft (g : graph) (i j : Z) : bool := has_cell g i j && mem (g_left g) (eidx g i j).
Definition gtop (g : graph) (i j : Z) : bool := has_cell g i j && mem (g_top g) (eidx g i j).
Definition has_edge (g : graph) (p : pos) : bool :=
  match p_d p with Left | Right => gtop g (p_i p) (p_j p) | Up | Down => gleft g (p_i p) (p_j p) end.
Definition remove_edge (g : graph) (p : pos) : graph :=
  if has_cell g (p_i p) (p_j p) then
    match p_d p with
    | Left | Right => mkgraph (g_w g) (g_h g) (g_left g) (PM.remove (eidx g (p_i p) (p_j p)) (g_top g)) (g_hint g)
    | Up | Down => mkgraph (g_w g) (g_h g) (PM.remove (eidx g (p_i p) (p_j p)) (g_left g)) (g_top g) (g_hint g)
    end
  else g.

Definition can_step (g : graph) (p : pos) : option pos :=
  if has_edge g (straight p) then Some (straight p)
  else if has_edge g (pleft p) then Some (pleft p)
  else if has_edge g (pright p) then Some (pright p) else None.

Definition follow (g : graph) (p : pos) : option pos * bool :=
  let c := filter (has_edge g) [straight p; pleft p; pright p] in
  match c with [] => (None, false) | [x] => (Some x, false) | x :: _ => (Some x, true) end.

(* edge_left: scan from the hint; the hint is moved to the index found (or to the end) *)
Fixpoint scan (g : graph) (fuel : nat) (idx : Z) : option Z :=
  match fuel with
  | O => None
  | S f =>
    let k := Z.to_pos (idx + 1) in
    if mem (g_left g) k || mem (g_top g) k then Some idx else scan g f (idx + 1)
  end.
Definition edge_left (g : graph) : option pos * graph :=
  let len := (g_w g + 1) * (g_h g + 1) in
  match scan g (Z.to_nat (len - g_hint g)) (g_hint g) with
  | Some idx =>
    let i := idx / (g_w g + 1) in let j := idx mod (g_w g + 1) in
    (Some (mkpos i j (if mem (g_top g) (Z.to_pos (idx + 1)) then Right else Up)),
     mkgraph (g_w g) (g_h g) (g_left g) (g_top g) idx)
  | None => (None, mkgraph (g_w g) (g_h g) (g_left g) (g_top g) len)
  end.

(* bits_to_edge_graph, per edge: the left edge of grid cell (i, j) is set by the dark cell (i, j) when its
   left neighbour is light or absent, and by the dark cell (i, j-1) when its right neighbour is light or absent *)
Definition left_at (bits : PM.t bool) (w h i j : Z) : bool :=
  (dark bits w h i j && ((j =? 0) || negb (dark bits w h i (j - 1)))) ||
  (dark bits w h i (j - 1) && ((j - 1 =? w - 1) || negb (dark bits w h i j))).
Definition top_at (bits : PM.t bool) (w h i j : Z) : bool :=
  (dark bits w h i j && ((i =? 0) || negb (dark bits w h (i - 1) j))) ||
  (dark bits w h (i - 1) j && ((i - 1 =? h - 1) || negb (dark bits w h i j))).

Definition all_idx (w h : Z) : list Z := map Z.of_nat (seq 0 (Z.to_nat ((w + 1) * (h + 1)))).
Definition edge_set (f : Z -> Z -> bool) (w h : Z) : PM.t unit :=
  fold_left (fun m idx => if f (idx / (w + 1)) (idx mod (w + 1)) then PM.add (Z.to_pos (idx + 1)) tt m else m)
            (all_idx w h) (PM.empty unit).
Definition first_dark (l : list bool) : option nat :=
  (fix go (l : list bool) (k : nat) := match l with [] => None | b :: r => if b then Some k else go r (S k) end) l O.

Definition bits_to_edge_graph (l : list bool) (w h : Z) : outcome unit graph :=
  if (32767 <? w + 1) || (32767 <? h + 1) then Panic PAssert else      (* try_into::<i16>().expect("... overflow") *)
  let bits := bits_map l in
  let hint := match first_dark l with
              | Some k => let i := Z.of_nat k / w in let j := Z.of_nat k mod w in i * (w + 1) + j
              | None => (w + 1) * (h + 1) end in
  Ok (mkgraph w h (edge_set (left_at bits w h) w h) (edge_set (top_at bits w h) w h) hint).

(* elements.splice(at..at, local_loop) *)
Definition splice {A} (l : list A) (at_ : nat) (ins : list A) : list A := firstn at_ l ++ ins ++ skipn at_ l.

(* the inner walk: until the start node is reached again *)
Fixpoint walk (fuel : nat) (g : graph) (p : pos) (start : Z * Z) (loop : list micro) (insert : nat)
  (alts : list (nat * pos)) : outcome unit (graph * pos * list micro * nat * list (nat * pos)) :=
  match fuel with
  | O => Panic POutOfFuel
  | S f =>
    let '(np, had) := follow g p in
    let alts := if had then alts ++ [(insert, p)] else alts in
    match np with
    | None => Panic PAssert                   (* expect("must exist because `pos` was valid") *)
    | Some p' =>
      let g := remove_edge g p' in
      let '(ei, ej) := end_node p' in
      let loop := loop ++ [Step ei ej] in
      if (ei =? fst start) && (ej =? snd start) then Ok (g, p', loop, insert, alts)
      else walk f g p' start loop (S insert) alts
    end
  end.

Fixpoint first_alt (g : graph) (alts : list (nat * pos)) : option (nat * pos) :=
  match alts with
  | [] => None
  | (idx, pa) :: r => match can_step g pa with Some np => Some (idx, np) | None => first_alt g r end
  end.

(* 'euler: one Eulerian tour with Hierholzer splicing; alternatives.drain(..) empties the list either way *)
Fixpoint euler (fuel : nat) (efuel : nat) (g : graph) (p : pos) (elements : list micro) (insert : nat)
  : outcome unit (graph * pos * list micro * nat) :=
  match fuel with
  | O => Panic POutOfFuel
  | S f =>
    let insert_pos := insert in
    let g := remove_edge g p in
    let start := start_node p in
    let '(ei, ej) := end_node p in
    let* (g, p, loop, insert, alts) := walk efuel g p start [Step ei ej] (S insert) [] in
    let elements := splice elements insert_pos loop in
    match first_alt g alts with
    | Some (idx, np) => euler f efuel g np elements idx
    | None => Ok (g, p, elements, insert)
    end
  end.

Fixpoint tours (fuel : nat) (efuel : nat) (g : graph) (p : pos) (elements : list micro) (insert : nat)
  : outcome unit (list micro) :=
  match fuel with
  | O => Panic POutOfFuel
  | S f =>
    let* (g, p, elements, insert) := euler efuel efuel g p elements insert in
    match edge_left g with
    | (Some np, g) =>
      let '(si, sj) := start_node np in
      let elements := elements ++ [Jump si sj] in
      tours f efuel g np elements (length elements)
    | (None, _) => Ok elements
    end
  end.

Definition compress_path (ms : list micro) : list seg :=
  let '(steps, _, _) :=
    fold_left (fun (st : list seg * (Z * Z) * option seg) m =>
      let '(steps, (pi, pj), wip) := st in
      match m with
      | Step i j =>
        let '(steps, wip) :=
          match wip with
          | Some (Hor m) => if i =? pi then (steps, Some (Hor (m + (j - pj))))
                            else (steps ++ [Hor m], Some (if i =? pi then Hor (j - pj) else Ver (i - pi)))
          | Some (Ver m) => if j =? pj then (steps, Some (Ver (m + (i - pi))))
                            else (steps ++ [Ver m], Some (if i =? pi then Hor (j - pj) else Ver (i - pi)))
          | Some other => (steps ++ [other], Some (if i =? pi then Hor (j - pj) else Ver (i - pi)))
          | None => (steps, Some (if i =? pi then Hor (j - pj) else Ver (i - pi)))
          end in
        (steps, (i, j), wip)
      | Jump i j => (steps ++ [Close; Move (j - pj) (i - pi)], (i, j), None)
      end) ms ([], (0, 0), None) in
  steps ++ [Close].

(* Bitmap::new(bits, width).path() *)
Definition bitmap_new (l : list bool) (w : Z) : outcome unit Z :=
  if w =? 0 then Panic PDivZero                                  (* bits.len() % width *)
  else if negb (Z.of_nat (length l) mod w =? 0) then Panic PAssert
  else Ok (Z.of_nat (length l) / w).

Definition path (l : list bool) (w : Z) : outcome unit (list seg) :=
  let* h := bitmap_new l w in
  let* g := bits_to_edge_graph l w h in
  match edge_left g with
  | (None, _) => Ok []
  | (Some p, g) =>
    let e := Z.to_nat (2 * (w + 1) * (h + 1) + 2) in
    let* elements := tours e e g p [] O in
    Ok (compress_path elements)
  end.

(* Bitmap::pixels(): (x, y) of the HIGH entries, row-major *)
Definition pixels (l : list bool) (w : Z) : outcome unit (list (Z * Z)) :=
  let* _ := bitmap_new l w in
  Ok (map (fun k => (Z.of_nat k mod w, Z.of_nat k / w))
          (filter (fun k => nth k l false) (seq 0 (length l)))).

(* Bitmap::unicode(): code points; BORDER = 1, two rows per character *)
Definition uchar (idx : Z) : Z :=
  if idx =? 0 then 32 else if idx =? 1 then 9604 else if idx =? 2 then 9600 else 9608.
Definition unicode (l : list bool) (w : Z) : outcome unit (list Z) :=
  let* h := bitmap_new l w in
  let bits := bits_map l in
  let get (i j : Z) : Z := if dark bits w h (i - 1) (j - 1) then 1 else 0 in
  let rows := map (fun r => 2 * Z.of_nat r) (seq 0 (Z.to_nat ((h + 2 + 1) / 2))) in
  Ok (flat_map (fun i => map (fun jn => let j := Z.of_nat jn in uchar (2 * get i j + get (i + 1) j)) (seq 0 (Z.to_nat (w + 2))) ++ [10]) rows).
