(* Model/DriverDec.v -- driver entry points for the data decoder and ECI handling *)
From Coq Require Import NArith List Bool.
From DM Require Import Model.Outcome Model.Dec Model.Eci.
Import ListNotations.
Local Open Scope N_scope.

Definition d_decode_data (cw : list N) := decode_data cw.
Definition d_decode_str (cw : list N) := decode_str cw.
Definition d_read_eci (l : list N) : R (N * N) :=
  let* (r, e) := read_eci (mkrd l 0) in Ok (cnt r, e).
Definition d_write_eci (c : N) := write_eci c.
Definition d_latin1_to_utf8 (l : list N) := latin1_to_utf8 l.
Definition d_utf8_to_latin1 (s : list N) : option (option (list N)) :=
  if forallb is_scalar s then Some (utf8_to_latin1 s) else None.
Definition d_from_utf8 (l : list N) := from_utf8 l.
Definition d_to_utf8 (s : list N) : option (list N) :=
  if forallb is_scalar s then Some (utf8_encode s) else None.
