(* Model/SymbolList.v -- executable mirror of src/symbol_size.rs: `Ord for
   SymbolSize`, `SymbolList` (a BTreeSet, modelled as the strictly sorted list
   that iterating it yields), its filters and the three look-ups.
   No proofs in this file. *)
From Coq Require Import NArith List Bool.
From DM Require Import Generated.Symbols.
Import ListNotations.
Open Scope N_scope.

(* (usize, usize)::cmp is lexicographic *)
Definition key_lt (a b : N * N) : bool :=
  (fst a <? fst b) || ((fst a =? fst b) && (snd a <? snd b)).
Definition key_eqb (a b : N * N) : bool := (fst a =? fst b) && (snd a =? snd b).

Definition ss_lt (a b : SymbolSize) : bool := key_lt (ord_key a) (ord_key b).

Definition ss_eqb (a b : SymbolSize) : bool := variant_index a =? variant_index b.

(* BTreeSet::insert: an element comparing Equal to an existing one is not inserted *)
Fixpoint sl_insert (s : SymbolSize) (l : list SymbolSize) : list SymbolSize :=
  match l with
  | [] => [s]
  | x :: r => if ss_lt s x then s :: x :: r
              else if ss_lt x s then x :: sl_insert s r
              else x :: r
  end.

(* FromIterator / with_whitelist / Extend *)
Definition sl_extend (acc l : list SymbolSize) : list SymbolSize :=
  fold_left (fun a s => sl_insert s a) l acc.
Definition sl_from_iter (l : list SymbolSize) : list SymbolSize := sl_extend [] l.

Definition sl_all : list SymbolSize := sl_from_iter SYMBOL_SIZES.
Definition sl_default : list SymbolSize :=
  sl_from_iter (filter (fun s => negb (is_dmre s)) SYMBOL_SIZES).

(* core::ops::RangeBounds<usize>::contains *)
Inductive bound := Incl (n : N) | Excl (n : N) | Unb.
Definition range_contains (lo hi : bound) (x : N) : bool :=
  (match lo with Incl a => a <=? x | Excl a => a <? x | Unb => true end) &&
  (match hi with Incl b => x <=? b | Excl b => x <? b | Unb => true end).

Definition enforce_square (l : list SymbolSize) := filter is_square l.
Definition enforce_rectangular (l : list SymbolSize) := filter (fun s => negb (is_square s)) l.
Definition enforce_width_in (lo hi : bound) (l : list SymbolSize) :=
  filter (fun s => range_contains lo hi (width s)) l.
Definition enforce_height_in (lo hi : bound) (l : list SymbolSize) :=
  filter (fun s => range_contains lo hi (height s)) l.

Definition sl_contains (l : list SymbolSize) (s : SymbolSize) : bool := existsb (ss_eqb s) l.

Definition max_capacity (l : list SymbolSize) : N :=
  fold_left (fun m s => N.max m (capacity_max s)) l 0.

Definition first_symbol_big_enough_for (l : list SymbolSize) (size_needed : N) : option SymbolSize :=
  find (fun s => size_needed <=? num_data_codewords s) l.

Definition upper_limit_for_number_of_codewords (l : list SymbolSize) (input_len : N) : option N :=
  match l with
  | [s] => Some (num_data_codewords s)
  | _ => option_map num_data_codewords
           (match find (fun s => input_len <=? capacity_min s) l with
            | Some s => Some s
            | None => (fix lst (l : list SymbolSize) : option SymbolSize :=      (* .or_else(|| iter().next_back()) *)
                         match l with [] => None | [x] => Some x | _ :: r => lst r end) l
            end)
  end.
