(* Model/PlannerRun.v -- instances of the sort oracle of Model/Planner.v and the public
   planning entry point data::encodation_plan. *)
From Coq Require Import Arith NArith List Bool.
From DM Require Import Generated.Symbols Generated.ModeTables Model.Outcome Model.SymbolList Model.Planner.
Import ListNotations.
Local Open Scope N_scope.

Section Sorters.
Variable symbol_list : list SymbolSize.

(* (a) a stable insertion sort by cost: one admissible behaviour of sort_unstable_by_key *)
Fixpoint insert_by (x : generic_plan) (cx : N) (l : list (generic_plan * N)) : list (generic_plan * N) :=
  match l with
  | [] => [(x, cx)]
  | (y, cy) :: r => if cx <? cy then (x, cx) :: l else (y, cy) :: insert_by x cx r
  end.
Fixpoint with_costs (l : list generic_plan) : PR (list (generic_plan * N)) :=
  match l with
  | [] => Ok []
  | p :: r => let* c := gp_cost symbol_list p in let* r' := with_costs r in Ok ((p, c) :: r')
  end.
Definition stable_sorter (_ : nat) (l : list generic_plan) : PR (list generic_plan) :=
  let* lc := with_costs l in
  Ok (map fst (fold_left (fun acc pc => insert_by (fst pc) (snd pc) acc) lc [])).

(* (b) the order the implementation produced (hook trace): positions before sorting of each
   sorted element; checked to be a permutation yielding non-decreasing costs *)
Fixpoint sorted_costs (l : list N) : bool :=
  match l with
  | a :: ((b :: _) as r) => (a <=? b) && sorted_costs r
  | _ => true
  end.
Fixpoint is_perm_go (perm : list nat) (seen : list nat) (n : nat) : bool :=
  match perm with
  | [] => true
  | i :: r => (i <? n)%nat && negb (existsb (Nat.eqb i) seen) && is_perm_go r (i :: seen) n
  end.
Definition trace_sorter (trace : list (list nat)) (k : nat) (l : list generic_plan) : PR (list generic_plan) :=
  match nth_error trace k with
  | None => Panic PBadOracle
  | Some perm =>
    let n := length l in
    if negb (Nat.eqb (length perm) n) || negb (is_perm_go perm [] n) then Panic PBadOracle else
    match l with
    | [] => Ok []
    | d :: _ =>
      let res := map (fun i => nth i l d) perm in
      let* lc := with_costs res in
      if sorted_costs (map snd lc) then Ok res else Panic PBadOracle
    end
  end.
End Sorters.

(* data::encodation_plan(data, symbol_list, enabled_modes) = optimize(data, 0, Ascii, ..) *)
Definition encodation_plan (sorter : list SymbolSize -> nat -> list generic_plan -> PR (list generic_plan))
  (data : list N) (symbol_list : list SymbolSize) (modes : N) :=
  optimize symbol_list (sorter symbol_list) data 0 Ascii modes.
