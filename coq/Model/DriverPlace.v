(* Model/DriverPlace.v -- driver entry points for placement, rendering and parsing *)
From Coq Require Import ZArith NArith List Bool.
From DM Require Import Generated.Symbols Model.Outcome Model.Placement Model.Render.
Import ListNotations.

Definition zh (s : SymbolSize) : Z := Z.of_N (content_height s).
Definition zw (s : SymbolSize) : Z := Z.of_N (content_width s).

Definition tag_octet (cw : nat) : list N :=
  map (fun i => ((N.of_nat cw + 1) * 10 + i)%N) [1; 2; 3; 4; 5; 6; 7; 8]%N.

Fixpoint list_eqb_N (l1 l2 : list N) : bool :=
  match l1, l2 with [], [] => true | a :: r1, b :: r2 => N.eqb a b && list_eqb_N r1 r2 | _, _ => false end.

Definition d_place_table (s : SymbolSize) : outcome unit (list N * bool) :=
  let h := zh s in let w := zw s in
  let e0 := arr_new (h * w)%Z 0%N in
  let* e := traverse_mut h w (fun cw _ => tag_octet cw) e0 in
  let* e := write_padding 1%N h w (has_padding_modules s) e in
  let* vals := traverse h w e in
  let same := forallb (fun p => list_eqb_N (fst p) (snd p))
                      (combine vals (map tag_octet (seq 0 (length vals)))) in
  Ok (arr_to_list e, same).

Definition d_place_write (s : SymbolSize) (cws : list N) : outcome unit (list bool * list N) :=
  let* e := copy_from_codewords (zh s) (zw s) (has_padding_modules s) cws in
  let* c := codewords (zh s) (zw s) e in
  Ok (e, c).

(* verif_from_entries asserts the length *)
Definition d_place_read (s : SymbolSize) (e : list bool) : outcome unit (list N) :=
  if negb (Nat.eqb (length e) (Z.to_nat (zh s * zw s))) then Panic PAssert
  else codewords (zh s) (zw s) e.

Definition d_bitmap (s : SymbolSize) (e : list bool) : outcome unit (N * N * list bool) :=
  if negb (Nat.eqb (length e) (Z.to_nat (zh s * zw s))) then Panic PAssert
  else let (w, bits) := bitmap_fast false true s e in Ok (w, N.div (N.of_nat (length bits)) w, bits).

Definition d_bitmap_tag (s : SymbolSize) : N * list N :=
  bitmap_fast 0%N 1%N s (map (fun i => N.of_nat (i + 2)) (seq 0 (Z.to_nat (zh s * zw s)))).

Definition d_from_bits (w : N) (bits : list bool) := try_from_bits_fast bits w.

Definition flip_nth (l : list bool) (k : nat) : list bool :=
  firstn k l ++ match skipn k l with [] => [] | b :: r => negb b :: r end.

Definition d_from_bits_flip (s : SymbolSize) (e : list bool) (k : N) :=
  if negb (Nat.eqb (length e) (Z.to_nat (zh s * zw s))) then Panic PAssert
  else let (w, bits) := bitmap_fast false true s e in try_from_bits_fast (flip_nth bits (N.to_nat k)) w.
