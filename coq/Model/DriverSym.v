(* Model/DriverSym.v -- entry points of the correspondence driver for symbol tables/lists *)
From Coq Require Import NArith List Bool.
From DM Require Import Generated.Symbols Model.SymbolList.
Import ListNotations.
Open Scope N_scope.

Definition ss_of_index (i : N) : option SymbolSize :=
  find (fun s => variant_index s =? i) all_variants.

Definition b2n (b : bool) : N := if b then 1 else 0.

Definition d_sym_attrs (s : SymbolSize) : list N :=
  [num_data_codewords s; capacity_max s; capacity_min s; num_ecc_blocks s; num_ecc_per_block s;
   width s; height s; extra_horizontal_alignments s; extra_vertical_alignments s;
   content_width s; content_height s; b2n (is_square s); b2n (is_dmre s); b2n (has_padding_modules s)].

Definition d_symbol_sizes : list N := map variant_index SYMBOL_SIZES.

Definition mk_bound (k v : N) : bound :=
  match k with 0 => Unb | 1 => Incl v | _ => Excl v end.

Fixpoint apply_filters (fuel : nat) (f : list N) (l : list SymbolSize) : list SymbolSize :=
  match fuel with
  | O => l
  | S fuel' =>
    match f with
    | k :: lk :: lv :: hk :: hv :: rest =>
      let l' := match k with
                | 0 => enforce_square l
                | 1 => enforce_rectangular l
                | 2 => enforce_width_in (mk_bound lk lv) (mk_bound hk hv) l
                | _ => enforce_height_in (mk_bound lk lv) (mk_bound hk hv) l
                end in
      apply_filters fuel' rest l'
    | _ => l
    end
  end.

Fixpoint syms_of (l : list N) : list SymbolSize :=
  match l with
  | [] => []
  | i :: r => match ss_of_index i with Some s => s :: syms_of r | None => syms_of r end
  end.

(* base: 0 default, 1 all, 2 whitelist, 3 default extended by the list *)
Definition d_sl (base : N) (wl : list N) (f : list N) (n : N)
  : list N * list N * N * N * option N * option N :=
  let l0 := match base with
            | 0 => sl_default | 1 => sl_all | 2 => sl_from_iter (syms_of wl)
            | _ => sl_extend sl_default (syms_of wl) end in
  let l := apply_filters (length f) f l0 in
  (map variant_index l, map (fun s => b2n (sl_contains l s)) all_variants,
   b2n (match l with [] => true | _ => false end), max_capacity l,
   option_map variant_index (first_symbol_big_enough_for l n),
   upper_limit_for_number_of_codewords l n).
