(* Model/GF.v -- mirror of src/errorcode/galois.rs: log/antilog tables built by the
   const-fn loop, table multiplication and division. No proofs. *)
From Coq Require Import NArith List Bool.
From DM Require Import Model.Outcome.
Import ListNotations.
Open Scope N_scope.

Fixpoint upd (l : list N) (i : nat) (v : N) : list N :=
  match l, i with
  | [], _ => []
  | _ :: r, O => v :: r
  | x :: r, S i' => x :: upd r i' v
  end.

(* while i < 255 { alog[i] = p; log[p] = i; p *= 2; if p >= 256 { p ^= 0x12D }; i += 1 } *)
Fixpoint alog_log_loop (fuel : nat) (p i : N) (alog log : list N) : list N * list N :=
  match fuel with
  | O => (alog, log)
  | S f =>
    if i <? 255 then
      let alog' := upd alog (N.to_nat i) (p mod 256) in
      let log' := upd log (N.to_nat p) i in
      let p2 := p * 2 in
      let p3 := if 256 <=? p2 then N.lxor p2 301 else p2 in
      alog_log_loop f p3 (i + 1) alog' log'
    else (alog, log)
  end.

Definition compute_alog_log : list N * list N :=
  alog_log_loop 256 1 0 (repeat 0 255) (repeat 0 256).

Definition ANTI_LOG : list N := Eval vm_compute in fst compute_alog_log.
Definition LOG : list N := Eval vm_compute in snd compute_alog_log.

Definition alog (i : N) : N := nth (N.to_nat i) ANTI_LOG 0.
Definition logt (a : N) : N := nth (N.to_nat a) LOG 0.

Definition add (a b : N) : N := N.lxor a b.

Definition mul (a b : N) : N :=
  if (a =? 0) || (b =? 0) then 0 else alog ((logt a + logt b) mod 255).

(* assert_ne!(rhs.0, 0, "division by zero") *)
Definition div (a b : N) : option N :=
  if b =? 0 then None
  else if a =? 0 then Some 0
  else let ia := logt a in let ib := logt b in
       Some (alog (if ia <? ib then ia + 255 - ib else ia - ib)).

(* Mul<usize>: GF(self.0 * (rhs % 2) as u8) *)
Definition mul_usize (a n : N) : N := a * (n mod 2).

(* GF::log: assert!(self != GF(0)) *)
Definition glog (a : N) : option N := if a =? 0 then None else Some (logt a).

(* primitive_powers(): ANTI_LOG.iter().cycle() -- the i-th item *)
Definition primitive_power (i : N) : N := alog (i mod 255).
