(* Model/DriverRS.v -- driver entry points for GF(256) and the RS encoder *)
From Coq Require Import NArith List Bool.
From DM Require Import Generated.Symbols Model.Outcome Model.GF Model.RSEnc Model.RSDec Spec.GF256.
Import ListNotations.
Open Scope N_scope.

Definition bytes256 : list N := map N.of_nat (seq 0 256).
Definition d_gf_mulrow (a : N) : list N * list N := (map (GF.mul a) bytes256, map (GF.add a) bytes256).
Definition d_gf_divrow (a : N) : list (option N) := map (GF.div a) bytes256.
(* GF::log(y) and GF::primitive_power(i: u8) = ANTI_LOG[i] (index 255 is out of bounds) *)
Definition d_gf_misc : list (option N) * list (option N) :=
  (map GF.glog bytes256, map (fun i => nth_error GF.ANTI_LOG (N.to_nat i)) bytes256).
Definition d_generator (k : N) : option (list N) := RSEnc.generator k.
Definition d_rs_encode (s : SymbolSize) (d : list N) : outcome unit (list N) := RSEnc.encode_error s d.
(* spec side, for the direct oracle *)
Definition d_spec_gmulrow (a : N) : list N := map (gmul a) bytes256.

Definition d_rs_decode (s : SymbolSize) (cw : list N) := RSDec.decode cw s.
