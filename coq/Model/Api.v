(* Model/Api.v -- the public entry points: DataMatrixBuilder::{encode_eci, encode_str},
   DataMatrix::{decode, bitmap} (src/lib.rs), composed from the component models. *)
From Coq Require Import Arith ZArith NArith List Bool.
From DM Require Import Generated.Symbols Generated.ModeTables Generated.Charsets Model.Outcome Model.SymbolList
  Model.Planner Model.PlannerRun Model.Enc Model.Eci Model.Dec Model.RSEnc Model.RSDec Model.Placement Model.Render.
Import ListNotations.
Local Open Scope N_scope.

Section WithSorter.
Variable sorter : list SymbolSize -> nat -> list generic_plan -> PR (list generic_plan).

Definition optimize_fn (data : list N) (written : N) (symbols : list SymbolSize) (modes : N)
  : PR (option (list (N * EncodationType))) :=
  let* (p, _) := optimize symbols (sorter symbols) data written Ascii modes in Ok p.

(* DataMatrixBuilder::encode_eci: data codewords, then encode_error's codewords *)
Definition encode_eci (data : list N) (symbols : list SymbolSize) (modes : N) (use_macros fnc1 : bool) (eci : option N)
  : ER (SymbolSize * list N * list N) :=
  let* (cw, size) := encode_data_internal optimize_fn data symbols eci modes use_macros fnc1 in
  match encode_error size cw with
  | Ok ecc => Ok (size, cw, cw ++ ecc)
  | _ => Panic PAssert
  end.

(* DataMatrixBuilder::new(): all modes, macros on, no FNC1; encode_str picks Latin-1 or UTF-8 + ECI 26 *)
Definition encode_str (text : list N) (symbols : list SymbolSize) : ER (SymbolSize * list N * list N) :=
  match utf8_to_latin1 text with
  | Some data => encode_eci data symbols 63 true false None
  | None => encode_eci (utf8_encode text) symbols 63 true false (Some ECI_UTF8)
  end.
End WithSorter.

(* DataMatrix::bitmap(): new_with_codewords(codewords, size).bitmap() *)
Definition dm_bitmap (size : SymbolSize) (codewords : list N) : outcome unit (N * list bool) :=
  let* e := copy_from_codewords (Z.of_N (content_height size)) (Z.of_N (content_width size)) (has_padding_modules size) codewords in
  Ok (bitmap_fast false true size e).

(* DataMatrix::decode(pixels, width) *)
Inductive decoding_error := PixelConversion (e : conv_error) | ErrorCorrection (e : rs_error) | DataDecoding (e : dec_error).

Definition dm_decode (pixels : list bool) (width : N) : outcome decoding_error (list N) :=
  match try_from_bits_fast pixels width with
  | Err e => Err (PixelConversion e)
  | Panic s => Panic s
  | Ok (entries, size) =>
    match codewords (Z.of_N (content_height size)) (Z.of_N (content_width size)) entries with
    | Err _ => Panic PAssert
    | Panic s => Panic s
    | Ok cw =>
      match RSDec.decode cw size with
      | Err e => Err (ErrorCorrection e)
      | Panic s => Panic s
      | Ok cw' =>
        let nd := N.to_nat (num_data_codewords size) in
        if (length cw' <? nd)%nat then Panic PIndex else
        match decode_data (firstn nd cw') with
        | Err e => Err (DataDecoding e)
        | Panic s => Panic s
        | Ok d => Ok d
        end
      end
    end
  end.
