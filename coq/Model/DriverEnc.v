(* Model/DriverEnc.v -- driver entry points for the encoder and the whole-symbol API *)
From Coq Require Import Arith NArith List Bool.
From DM Require Import Generated.Symbols Generated.ModeTables Model.Outcome Model.SymbolList Model.Planner
  Model.PlannerRun Model.Enc Model.Api Model.DriverSym.
Import ListNotations.

Definition pick_sorter (trace : option (list (list nat))) :=
  match trace with
  | None => stable_sorter
  | Some t => fun l => trace_sorter l t
  end.

Definition d_encode (data wl : list N) (modes : N) (macros fnc1 : bool) (eci : option N) (trace : option (list (list nat))) :=
  encode_eci (pick_sorter trace) data (sl_from_iter (syms_of wl)) modes macros fnc1 eci.

Definition d_encode_str (text wl : list N) (trace : option (list (list nat))) :=
  encode_str (pick_sorter trace) text (sl_from_iter (syms_of wl)).

Definition d_dm_decode (pixels : list bool) (w : N) := dm_decode pixels w.
Definition d_dm_bitmap (s : SymbolSize) (cw : list N) := dm_bitmap s cw.
