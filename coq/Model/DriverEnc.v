(* Model/DriverEnc.v -- driver entry points for the encoder and the whole-symbol API *)
From Coq Require Import Arith NArith List Bool.
From DM Require Import Generated.Symbols Generated.ModeTables Model.Outcome Model.SymbolList Model.Planner
  Model.PlannerRun Model.Enc Model.Api Model.DriverSym Model.DriverPlace.
Import ListNotations.
From DM Require Import Spec.Stream16022 Spec.Recognise.

Definition pick_sorter (trace : option (list (list nat))) :=
  match trace with
  | None => stable_sorter
  | Some t => fun l => trace_sorter l t
  end.

Definition d_encode (data wl : list N) (modes : N) (macros fnc1 : bool) (eci : option N) (trace : option (list (list nat))) :=
  encode_eci (pick_sorter trace) data (sl_from_iter (syms_of wl)) modes macros fnc1 eci.

Definition d_encode_str (text wl : list N) (trace : option (list (list nat))) :=
  encode_str (pick_sorter trace) text (sl_from_iter (syms_of wl)).

Definition d_dm_decode (pixels : list bool) (w : N) := dm_decode pixels w.
Definition d_dm_bitmap (s : SymbolSize) (cw : list N) := dm_bitmap s cw.

From DM Require Import Model.Dec Model.Render.
(* rt: encode, decode the data codewords, decode the rendered symbol *)
Definition d_rt (data wl : list N) (modes : N) (macros fnc1 : bool) (eci : option N) (trace : option (list (list nat))) :=
  match d_encode data wl modes macros fnc1 eci trace with
  | Ok (s, dcw, cw) =>
    let d1 := decode_data dcw in
    let d2 := match dm_bitmap s cw with
              | Ok (w, bits) => dm_decode bits w
              | _ => Panic PAssert
              end in
    Ok (s, dcw, d1, d2)
  | Err e => Err e
  | Panic p => Panic p
  end.

Definition flip_all (bits : list bool) (ks : list N) : list bool :=
  fold_left (fun b k => DriverPlace.flip_nth b (N.to_nat k)) ks bits.
Definition d_dm_decode_flips (s : SymbolSize) (cw : list N) (ks : list N) :=
  match dm_bitmap s cw with
  | Ok (w, bits) => dm_decode (flip_all bits ks) w
  | _ => Panic PAssert
  end.

(* plan_enc: data::encodation_plan and data::encode_data (no macro, no FNC1, no ECI) with the planner statistics *)
Definition d_plan_enc (data wl : list N) (modes : N) (trace : option (list (list nat))) :=
  let sl := sl_from_iter (syms_of wl) in
  let* (p, st) := lift (encodation_plan (pick_sorter trace) data sl modes) in
  Ok (p, encode_data_internal (optimize_fn (pick_sorter trace)) data sl None modes false false, st).

From DM Require Import Model.Eci.
Definition d_str_rt (text wl : list N) (trace : option (list (list nat))) :=
  match d_encode_str text wl trace with
  | Ok (s, dcw, cw) => Ok (s, dcw, decode_str dcw)
  | Err e => Err e
  | Panic p => Panic p
  end.

(* dm_flip_codewords: decode the rendering of a codeword vector with one bit flipped in each listed codeword *)
Fixpoint flip_cws (cw : list N) (ks : list N) (n : nat) : list N :=
  match ks with
  | [] => cw
  | k :: r =>
    let cw' := map (fun ic => if Nat.eqb (fst ic) (N.to_nat k) then N.lxor (snd ic) (N.shiftl 1 (N.of_nat (Nat.modulo n 8))) else snd ic)
                   (combine (seq 0 (length cw)) cw) in
    flip_cws cw' r (S n)
  end.
Definition d_dm_flip_codewords (s : SymbolSize) (cw ks : list N) :=
  let dec c := match dm_bitmap s c with Ok (w, bits) => dm_decode bits w | _ => Panic PAssert end in
  (dec cw, dec (flip_cws cw ks 0)).

(* the conformance certificate of Spec/Recognise.v (sound by Proofs/Certify.v) on a stream supplied by the caller *)
Definition d_certify (prefix : option N) (cw data : list N) : bool := certify prefix cw data.
