(* Model/Dec.v -- mirror of src/decodation/mod.rs (decode_parts and the per-mode decoders,
   read_eci, the two de-randomisers).  u8/u16 arithmetic whose range is not evident from the
   enclosing match arm goes through add_u8/sub_u8 (Panic POverflow); table look-ups through
   `get` (Panic PIndex).  No proofs. *)
From Coq Require Import NArith List Bool.
From DM Require Import Generated.ModeTables Generated.Charsets Model.Outcome.
Import ListNotations.
Local Open Scope N_scope.

Inductive dec_error := UnexpectedCharacter | NotImplemented | UnexpectedEnd | CharsetError | ECICode.

Definition R (A : Type) := outcome dec_error A.

Definition add_u8 (a b : N) : R N := if a + b <? 256 then Ok (a + b) else Panic POverflow.
Definition sub_u8 (a b : N) : R N := if b <=? a then Ok (a - b) else Panic POverflow.

(* Reader(&[u8], usize): remaining slice and number of bytes eaten *)
Record reader := mkrd { rd : list N; cnt : N }.
Definition rpos (r : reader) : N := cnt r + 1.
Definition rlen (r : reader) : N := N.of_nat (length (rd r)).

Definition derandomize_253_state (ch pos : N) : N :=
  let pseudo_random := ((149 * pos) mod 253) + 1 in
  if pseudo_random + 1 <=? ch then ch - pseudo_random else ch + 254 - pseudo_random.

Definition derandomize_255_state (ch pos : N) : N :=
  let pseudo_random := ((149 * pos) mod 255) + 1 in
  if pseudo_random <=? ch then ch - pseudo_random else ch + 256 - pseudo_random.

(* read_eci: returns the rest and the ECI number *)
Definition in_1_254 (c : N) : bool := (1 <=? c) && (c <=? 254).

Definition read_eci (r : reader) : R (reader * N) :=
  match rd r with
  | [] => Err UnexpectedEnd
  | ch1 :: t1 =>
    if (1 <=? ch1) && (ch1 <=? 127) then Ok (mkrd t1 (cnt r + 1), ch1 - 1)
    else if (128 <=? ch1) && (ch1 <=? 191) then
      match t1 with
      | [] => Err UnexpectedEnd
      | ch2 :: t2 =>
        if negb (in_1_254 ch2) then Err UnexpectedCharacter
        else Ok (mkrd t2 (cnt r + 2), (ch1 - 128) * 254 + (ch2 - 1) + 127)
      end
    else if (192 <=? ch1) && (ch1 <=? 207) then
      match t1 with
      | [] => Err UnexpectedEnd
      | ch2 :: t2 =>
        if negb (in_1_254 ch2) then Err UnexpectedCharacter
        else match t2 with
             | [] => Err UnexpectedEnd
             | ch3 :: t3 =>
               if negb (in_1_254 ch3) then Err UnexpectedCharacter
               else Ok (mkrd t3 (cnt r + 3), (ch1 - 192) * 64516 + (ch2 - 1) * 254 + (ch3 - 1) + 16383)
             end
      end
    else Err UnexpectedCharacter
  end.

(* the padding area: every later codeword must de-randomise to PAD *)
Fixpoint check_padding (l : list N) (c : N) : R reader :=
  match l with
  | [] => Ok (mkrd [] c)
  | ch :: t =>
    (* data.eat() increments first; data.pos() - 1 = number eaten = 1-based position *)
    if derandomize_253_state ch (c + 1) =? ascii_PAD then check_padding t (c + 1)
    else Err UnexpectedCharacter
  end.

(* decode_ascii; `fuel` bounds the number of loop iterations (each eats >= 1 codeword) *)
Fixpoint decode_ascii (fuel : nat) (r : reader) (upper_shift : bool) (out : list N) (ecis : list (N * N))
  : R (reader * EncodationType * list N * list (N * N)) :=
  match fuel with
  | O => Panic POutOfFuel
  | S f =>
    match rd r with
    | [] => if upper_shift then Err UnexpectedEnd else Ok (r, Ascii, out, ecis)
    | ch :: t =>
      let r' := mkrd t (cnt r + 1) in
      if upper_shift && negb ((1 <=? ch) && (ch <=? 128)) then Err UnexpectedCharacter
      else if (1 <=? ch) && (ch <=? 128) then
        if upper_shift then let* v := add_u8 ch 127 in decode_ascii f r' false (out ++ [v]) ecis
        else decode_ascii f r' false (out ++ [ch - 1]) ecis
      else if ch =? ascii_PAD then
        let* r2 := check_padding t (cnt r + 1) in Ok (r2, Ascii, out, ecis)
      else if (130 <=? ch) && (ch <=? 229) then
        let digit := ch - 130 in
        decode_ascii f r' upper_shift (out ++ [48 + digit / 10; 48 + digit mod 10]) ecis
      else if ch =? ascii_LATCH_C40 then Ok (r', C40, out, ecis)
      else if ch =? ascii_LATCH_BASE256 then Ok (r', Base256, out, ecis)
      else if ch =? ascii_FNC1 then decode_ascii f r' upper_shift (out ++ [29]) ecis
      else if ch =? 233 then Err NotImplemented
      else if ch =? 234 then Err NotImplemented
      else if ch =? ascii_UPPER_SHIFT then decode_ascii f r' true out ecis
      else if ch =? ascii_LATCH_X12 then Ok (r', X12, out, ecis)
      else if ch =? ascii_LATCH_TEXT then Ok (r', Text, out, ecis)
      else if ch =? ascii_LATCH_EDIFACT then Ok (r', Edifact, out, ecis)
      else if ch =? ascii_ECI then
        let* (r2, eci) := read_eci r' in
        decode_ascii f r2 upper_shift out (ecis ++ [(N.of_nat (length out), eci)])
      else Err UnexpectedCharacter
    end
  end.

(* for _ in 0..length { out.push(derandomize(eat()?)) } *)
Fixpoint take_base256 (n : nat) (l : list N) (c : N) (out : list N) : R (reader * list N) :=
  match n with
  | O => Ok (mkrd l c, out)
  | S n' => match l with
            | [] => Err UnexpectedEnd
            | ch :: t => take_base256 n' t (c + 1) (out ++ [derandomize_255_state ch (c + 1)])
            end
  end.

Definition decode_base256 (r : reader) (out : list N) : R (reader * EncodationType * list N) :=
  match rd r with
  | [] => Err UnexpectedEnd
  | c1 :: t1 =>
    let ch1 := derandomize_255_state c1 (cnt r + 1) in
    let* (len_rest) :=
      (if ch1 =? 0 then Ok (N.of_nat (length t1), t1, cnt r + 1)
       else if ch1 <? 250 then Ok (ch1, t1, cnt r + 1)
       else match t1 with
            | [] => Err UnexpectedEnd
            | c2 :: t2 => let ch2 := derandomize_255_state c2 (cnt r + 2) in
                          Ok (250 * (ch1 - 249) + ch2, t2, cnt r + 2)
            end) in
    let '(length, rest, c) := len_rest in
    let* (r2, out2) := take_base256 (N.to_nat length) rest c out in
    Ok (r2, Ascii, out2)
  end.

Definition dec_edifact_char (ch : N) : N := if N.testbit ch 5 then ch else N.lor ch 64.

Fixpoint decode_edifact (fuel : nat) (r : reader) (out : list N) : R (reader * EncodationType * list N) :=
  match fuel with
  | O => Panic POutOfFuel
  | S f =>
    match rd r with
    | [] => Ok (r, Ascii, out)
    | a :: t1 =>
      if rlen r <=? 2 then Ok (r, Ascii, out)
      else if a / 4 =? edifact_UNLATCH then Ok (mkrd t1 (cnt r + 1), Ascii, out)
      else
        let v1 := a / 4 in       (* (chunk >> 18) with chunk = a << 16; never UNLATCH here *)
        if v1 =? edifact_UNLATCH then Ok (mkrd t1 (cnt r + 1), Ascii, out)
        else
        let out := out ++ [dec_edifact_char v1] in
        match t1 with
        | [] => decode_edifact f (mkrd t1 (cnt r + 1)) out
        | b :: t2 =>
          let v2 := ((a * 65536 + b * 256) / 4096) mod 64 in
          if v2 =? edifact_UNLATCH then Ok (mkrd t2 (cnt r + 2), Ascii, out)
          else
          let out := out ++ [dec_edifact_char v2] in
          match t2 with
          | [] => decode_edifact f (mkrd t2 (cnt r + 2)) out
          | c :: t3 =>
            let chunk := a * 65536 + b * 256 + c in
            let v3 := (chunk / 64) mod 64 in
            if v3 =? edifact_UNLATCH then Ok (mkrd t3 (cnt r + 3), Ascii, out)
            else
            let out := out ++ [dec_edifact_char v3] in
            let v4 := chunk mod 64 in
            if v4 =? edifact_UNLATCH then Ok (mkrd t3 (cnt r + 3), Ascii, out)
            else decode_edifact f (mkrd t3 (cnt r + 3)) (out ++ [dec_edifact_char v4])
          end
        end
    end
  end.

Definition decode_c40_tuple (a b : N) : R (N * N * N) :=
  let full := a * 256 + b in
  if full =? 0 then Err UnexpectedCharacter
  else let full := full - 1 in
       let c1 := full / 1600 in
       let full := full - c1 * 1600 in
       let c2 := full / 40 in
       Ok (c1, c2, full - c2 * 40).

Fixpoint decode_x12 (fuel : nat) (r : reader) (out : list N) : R (reader * EncodationType * list N) :=
  match fuel with
  | O => Panic POutOfFuel
  | S f =>
    match rd r with
    | first :: (second :: t2) as t1 =>
      if first =? UNLATCH then Ok (mkrd t1 (cnt r + 1), Ascii, out)   (* break; len may be 1 with UNLATCH: handled below *)
      else
        let* (c12, c3) := decode_c40_tuple first second in
        let (c1, c2) := c12 in
        match dec_x12_val c1, dec_x12_val c2, dec_x12_val c3 with
        | Some v1, Some v2, Some v3 => decode_x12 f (mkrd t2 (cnt r + 2)) (out ++ [v1; v2; v3])
        | _, _, _ => Err UnexpectedCharacter
        end
    | [x] => if x =? UNLATCH then Ok (mkrd [] (cnt r + 1), Ascii, out) else Ok (r, Ascii, out)
    | [] => Ok (r, Ascii, out)
    end
  end.

(* after `break` on UNLATCH inside the while loop the trailing check
   `data.len() == 1 && data.peek(0) == Some(UNLATCH)` still runs *)
Definition after_break (r : reader) : reader :=
  match rd r with
  | [x] => if x =? UNLATCH then mkrd [] (cnt r + 1) else r
  | _ => r
  end.

(* one value of a C40/Text triple: state (shift, upper_shift) *)
Definition c40_value (map_base map_shift3 : list N) (ch shift : N) (upper : bool) (out : list N)
  : R (N * bool * list N) :=
  let emit (text : N) : R (N * bool * list N) :=
      if upper then let* v := add_u8 text 128 in Ok (0, false, out ++ [v]) else Ok (0, false, out ++ [text]) in
  if shift =? 0 then
    if ch <=? 2 then Ok (ch + 1, upper, out)
    else if ch <=? 39 then let* text := get map_base (N.to_nat (ch - 3)) in
                           (if upper then let* v := add_u8 text 128 in Ok (0, false, out ++ [v])
                            else Ok (0, upper, out ++ [text]))
    else Err UnexpectedCharacter
  else if shift =? 1 then
    if ch <=? 31 then emit ch else Err UnexpectedCharacter
  else if shift =? 2 then
    if ch <=? 26 then let* text := get dec_SHIFT2 (N.to_nat ch) in emit text
    else if ch =? 27 then Err NotImplemented
    else if ch =? 30 then Ok (0, true, out)
    else Err UnexpectedCharacter
  else
    if ch <=? 31 then let* text := get map_shift3 (N.to_nat ch) in emit text
    else Err UnexpectedCharacter.

Fixpoint decode_c40_like (fuel : nat) (map_base map_shift3 : list N) (r : reader) (shift : N) (upper : bool)
  (out : list N) : R (reader * EncodationType * list N) :=
  match fuel with
  | O => Panic POutOfFuel
  | S f =>
    match rd r with
    | first :: (second :: t2) as t1 =>
      if first =? UNLATCH then Ok (after_break (mkrd t1 (cnt r + 1)), Ascii, out)
      else
        let* (c12, c3) := decode_c40_tuple first second in
        let (c1, c2) := c12 in
        let* (su, out) := c40_value map_base map_shift3 c1 shift upper out in
        let* (su, out) := c40_value map_base map_shift3 c2 (fst su) (snd su) out in
        let* (su, out) := c40_value map_base map_shift3 c3 (fst su) (snd su) out in
        decode_c40_like f map_base map_shift3 (mkrd t2 (cnt r + 2)) (fst su) (snd su) out
    | [x] => if x =? UNLATCH then Ok (mkrd [] (cnt r + 1), Ascii, out) else Ok (r, Ascii, out)
    | [] => Ok (r, Ascii, out)
    end
  end.

Record decoded_parts := mkparts { p_output : list N; p_eci_spans : list (N * N); p_fnc1 : bool }.

Fixpoint decode_loop (fuel : nat) (r : reader) (mode : EncodationType) (out : list N) (ecis : list (N * N))
  : R (list N * list (N * N)) :=
  match fuel with
  | O => Panic POutOfFuel
  | S f =>
    match rd r with
    | [] => Ok (out, ecis)
    | _ =>
      let n := S (length (rd r)) in
      let* res :=
        match mode with
        | Ascii => decode_ascii n r false out ecis
        | Base256 => let* (rm, o) := decode_base256 r out in Ok (rm, o, ecis)
        | X12 => let* (rm, o) := decode_x12 n r out in
                 Ok (let (r1, m1) := rm in (after_break r1, m1), o, ecis)
        | Edifact => let* (rm, o) := decode_edifact n r out in Ok (rm, o, ecis)
        | C40 => let* (rm, o) := decode_c40_like n dec_BASE_C40 dec_SHIFT3_C40 r 0 false out in Ok (rm, o, ecis)
        | Text => let* (rm, o) := decode_c40_like n dec_BASE_TEXT dec_SHIFT3_TEXT r 0 false out in Ok (rm, o, ecis)
        end in
      let '(rm, out', ecis') := res in
      let (r', mode') := rm in
      decode_loop f r' mode' out' ecis'
    end
  end.

Definition decode_parts (data : list N) (raw : bool) : R decoded_parts :=
  let r := mkrd data 0 in
  let '(r, out, add_macro_trail) :=
    match data with
    | c :: t => if c =? MACRO05 then (mkrd t 1, MACRO05_HEAD, true)
                else if c =? MACRO06 then (mkrd t 1, MACRO06_HEAD, true)
                else (r, [], false)
    | [] => (r, [], false)
    end in
  let ecis := if negb raw && add_macro_trail then [(0, ECI_UTF8); (N.of_nat (length out), 0)] else [] in
  let '(r, fnc1) :=
    match rd r with
    | c :: t => if c =? ascii_FNC1 then (mkrd t (cnt r + 1), true) else (r, false)
    | [] => (r, false)
    end in
  let* (out, ecis) := decode_loop (2 * length (rd r) + 2) r Ascii out ecis in
  let ecis := if add_macro_trail then
                (match ecis with [] => ecis | _ => ecis ++ [(N.of_nat (length out), ECI_UTF8)] end)
              else ecis in
  let out := if add_macro_trail then out ++ MACRO_TRAIL else out in
  Ok (mkparts out ecis fnc1).

Definition decode_data (data : list N) : R (list N) :=
  let* parts := decode_parts data true in
  match p_eci_spans parts with
  | [] => Ok (p_output parts)
  | _ => Err ECICode
  end.
