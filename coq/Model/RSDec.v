(* Model/RSDec.v -- mirror of src/errorcode/decoding/{mod.rs, syndrome_based.rs} after the
   repairs recorded in known_findings.json: decode, decode_gen, primitive_element_evaluation,
   chien_search, find_inv_error_locations_levinson_durbin, find_error_values_bp.
   Vectors of GF(256) elements are lists of N; every slice/index operation is bounds-checked
   (Panic PIndex), every division checks its divisor (Panic PDivZero), the debug assertions of
   the Rust code are Panic PAssert (the model follows a build with debug assertions).
   The unused alternatives (BM, LU, Forney, solve) are not modelled.  No proofs. *)
From Coq Require Import Arith NArith List Bool.
From DM Require Import Generated.Symbols Model.Outcome Model.GF Model.RSEnc.
Import ListNotations.
Local Open Scope nat_scope.

Inductive rs_error := TooManyErrors | ErrorsOutsideRange | Malfunction.
Definition RR (A : Type) := outcome rs_error A.

Definition gdiv (a b : N) : RR N := match GF.div a b with Some x => Ok x | None => Panic PDivZero end.
Definition gsum (l : list N) : N := fold_left GF.add l 0%N.

(* &l[a..=b] *)
Definition slice_incl (l : list N) (a b : nat) : RR (list N) :=
  if (length l <=? b) || (b + 1 <? a) then Panic PIndex else Ok (firstn (b + 1 - a) (skipn a l)).
Definition nth_ok (l : list N) (i : nat) : RR N := get l i.
Fixpoint set_ok (l : list N) (i : nat) (v : N) : RR (list N) :=
  match l, i with
  | [], _ => Panic PIndex
  | _ :: r, O => Ok (v :: r)
  | x :: r, S i' => let* r' := set_ok r i' v in Ok (x :: r')
  end.

(* fn dot(a, b): debug_assert_eq!(a.len(), b.len()); zip-multiply-sum *)
Definition dot (a b : list N) : RR N :=
  if negb (length a =? length b) then Panic PAssert else Ok (gsum (zipw GF.mul a b)).

(* GF::primitive_powers(): ANTI_LOG cycled *)
Definition powers (n : nat) : list N := map (fun i => GF.primitive_power (N.of_nat i)) (seq 0 n).

(* primitive_element_evaluation(c, out): out[j] = c(alpha^(j+1)); true iff some out[j] != 0 *)
Fixpoint pee_go (k : nat) (gamma pw : list N) : list N :=
  match k with
  | O => []
  | S k' => let gamma' := zipw GF.mul gamma pw in gsum gamma' :: pee_go k' gamma' pw
  end.
Definition primitive_element_evaluation (c : list N) (k : nat) : list N * bool :=
  let out := pee_go k (rev c) (powers (length c)) in
  (out, existsb (fun o => negb (N.eqb o 0)) out).

(* chien_search(c) *)
Fixpoint chien_go (fuel : nat) (i : N) (gamma pw out : list N) : list N :=
  match fuel with
  | O => out
  | S f =>
    let out := if N.eqb (gsum gamma) 0 then out ++ [GF.alog i] else out in
    chien_go f (i + 1)%N (zipw GF.mul gamma pw) pw out
  end.
Definition chien_search (c : list N) : RR (list N) :=
  match c with
  | [] => Ok []
  | _ =>
    let out := if N.eqb (last c 1%N) 0 then [0%N] else [] in
    match c with
    | [c0; c1] =>
      if negb (N.eqb c1 0) && negb (N.eqb c0 0) then let* q := gdiv c1 c0 in Ok (out ++ [q]) else Ok out
    | _ => Ok (chien_go 255 0%N (rev c) (powers (length c)) out)
    end
  end.

(* ---- find_inv_error_locations_levinson_durbin ---- *)
Fixpoint take_while_zero (l : list N) : nat :=
  match l with x :: r => if N.eqb x 0 then S (take_while_zero r) else O | [] => O end.

(* initial w: solve the lower right triangular system H_v w = h_v *)
Fixpoint init_w_inner (syn w : list N) (v i : nat) (js : list nat) : RR (list N) :=
  match js with
  | [] => Ok w
  | j :: r =>
    let* wj := nth_ok w j in
    let* s := nth_ok syn (i + j) in
    let* cur := nth_ok w (v - 1 - i) in
    let* w' := set_ok w (v - 1 - i) (GF.add cur (GF.mul s wj)) in
    init_w_inner syn w' v i r
  end.
Fixpoint init_w_outer (syn w : list N) (v : nat) (is_ : list nat) : RR (list N) :=
  match is_ with
  | [] => Ok w
  | i :: r =>
    let* w1 := init_w_inner syn w v i (seq (v - i) i) in    (* for j in v - i..v *)
    let* cur := nth_ok w1 (v - 1 - i) in
    let* d := nth_ok syn (v - 1) in
    let* q := gdiv cur d in
    let* w2 := set_ok w1 (v - 1 - i) q in
    init_w_outer syn w2 v r
  end.

(* `for (x, y) in a.iter_mut().zip(b)` with x updated to f x y: the zipped prefix changes, the rest of a stays *)
Definition zip_upd (f : N -> N -> N) (a b : list N) : list N := zipw f a b ++ skipn (length b) a.

Record ld_state := mkld { ld_v : nat; ld_y : list N; ld_w : list N }.

(* the cfg!(debug_assertions) block at the end of each iteration: lengths, eq. (3) and eq. (4) *)
Definition ld_debug_check (syn : list N) (s : ld_state) : RR unit :=
  let v := ld_v s in
  if negb (length (ld_w s) =? v) || negb (length (ld_y s) =? v) then Panic PAssert
  else if (0 <? v) && (length syn <? 2 * v) then Panic PIndex
  else
    let row i := firstn v (skipn i syn) in
    let ok3 := forallb (fun i => N.eqb (gsum (zipw GF.mul (row i) (ld_y s))) (if i =? v - 1 then 1%N else 0%N)) (seq 0 v) in
    if negb ok3 then Panic PAssertLD else
    let ok4 := forallb (fun i => N.eqb (gsum (zipw GF.mul (row i) (ld_w s))) (nth (v + i) syn 0%N)) (seq 0 v) in
    if negb ok4 then Panic PAssertLD else Ok tt.

(* find m: (1..t - v).find_map(|i| sigma_i != 0) *)
Fixpoint find_m (syn tmp : list N) (v : nat) (is_ : list nat) : RR (option (nat * N)) :=
  match is_ with
  | [] => Ok None
  | i :: r =>
    let* sl := slice_incl syn (v + i) (2 * v + i) in
    let* sigma_i := dot sl tmp in
    if N.eqb sigma_i 0 then find_m syn tmp v r else Ok (Some (i, sigma_i))
  end.

Fixpoint map_ok {A} (f : nat -> RR A) (l : list nat) : RR (list A) :=
  match l with
  | [] => Ok []
  | x :: r => let* y := f x in let* ys := map_ok f r in Ok (y :: ys)
  end.

(* Iterate w^k, eq. (8): for k in 0..=m *)
Fixpoint iter_wk (syn y w tmp : list N) (v : nat) (ks : list nat) : RR (list N) :=
  match ks with
  | [] => Ok tmp
  | k :: r =>
    let* s := nth_ok syn (2 * v + k) in
    let* sl := slice_incl syn v (2 * v - 1) in
    let* d := dot sl tmp in
    let rho := GF.add s d in
    let* eta := nth_ok tmp (v - 1) in
    (* tmp.pop(); tmp.insert(0, 0) *)
    let tmp1 := 0%N :: removelast tmp in
    (* for (wki, (yi, wi)) in tmp.iter_mut().zip(y.iter().zip(w.iter())) *)
    let yw := zipw (fun yi wi => GF.add (GF.mul rho yi) (GF.mul eta wi)) y w in
    let tmp2 := zip_upd GF.add tmp1 yw in
    iter_wk syn y w tmp2 v r
  end.

(* gamma[i] -= sigma[i - j] * gamma[j] for j in 0..i; gamma[i] /= sigma[0] *)
Fixpoint gamma_inner (sigma gamma : list N) (i : nat) (js : list nat) : RR (list N) :=
  match js with
  | [] => Ok gamma
  | j :: r =>
    let* gj := nth_ok gamma j in
    let* sg := nth_ok sigma (i - j) in
    let* cur := nth_ok gamma i in
    let* g' := set_ok gamma i (GF.add cur (GF.mul sg gj)) in
    gamma_inner sigma g' i r
  end.
Fixpoint gamma_outer (sigma gamma : list N) (is_ : list nat) : RR (list N) :=
  match is_ with
  | [] => Ok gamma
  | i :: r =>
    let* g1 := gamma_inner sigma gamma i (seq 0 i) in
    let* cur := nth_ok g1 i in
    let* s0 := nth_ok sigma 0 in
    let* q := gdiv cur s0 in
    let* g2 := set_ok g1 i q in
    gamma_outer sigma g2 r
  end.

(* the cfg!(debug_assertions) re-check of the triangular solve: sum_{j<=i} sigma[i-j] * gamma[j] = target_i, where target_i
   is recomputed exactly as gamma0[i] was *)
Fixpoint gamma_row (sigma gamma : list N) (i : nat) (js : list nat) (acc : N) : RR N :=
  match js with
  | [] => Ok acc
  | j :: r =>
    let* sg := nth_ok sigma (i - j) in
    let* gj := nth_ok gamma j in
    gamma_row sigma gamma i r (GF.add acc (GF.mul sg gj))
  end.
Fixpoint gamma_check (sigma gamma gamma0 : list N) (is_ : list nat) : RR unit :=
  match is_ with
  | [] => Ok tt
  | i :: r =>
    let* row := gamma_row sigma gamma i (seq 0 (i + 1)) 0%N in
    let* target := nth_ok gamma0 i in
    if N.eqb row target then gamma_check sigma gamma gamma0 r else Panic PAssertLD
  end.

(* update w, eq. (9): for (i, gamma_i) in gamma.iter().enumerate() *)
Fixpoint upd_w (tmp w : list N) (m v : nat) (igs : list (nat * N)) : RR (list N) :=
  match igs with
  | [] => Ok tmp
  | (i, gi) :: r =>
    if length tmp <? m - i then Panic PIndex else
    (* for (ti, wj) in tmp[m - i..].iter_mut().zip(w.iter()) { *ti += gamma_i * wj } *)
    let pre := firstn (m - i) tmp in
    let suf := zip_upd (fun t wj => GF.add t (GF.mul gi wj)) (skipn (m - i) tmp) w in
    let tmp1 := pre ++ suf in
    let* cur := nth_ok tmp1 (m - i + v) in
    let* tmp2 := set_ok tmp1 (m - i + v) (GF.add cur gi) in
    upd_w tmp2 w m v r
  end.

Definition resize (l : list N) (n : nat) : list N := firstn n l ++ repeat 0%N (n - length l).

Fixpoint ld_loop (fuel : nat) (syn : list N) (t : nat) (s : ld_state) : RR ld_state :=
  match fuel with
  | O => Panic POutOfFuel
  | S f =>
    let v := ld_v s in let y := ld_y s in let w := ld_w s in
    if negb (v <? t) then Ok s else
    let tmp := w ++ [1%N] in
    let* sl := slice_incl syn v (2 * v) in
    let* eps_v := dot sl tmp in
    if negb (N.eqb eps_v 0) then
      (* the regular case *)
      let w1 := 0%N :: w in
      if length w1 <? v then Panic PIndex else
      let w2 := zip_upd (fun wi yi => GF.add wi (GF.mul eps_v yi)) (firstn v w1) y ++ skipn v w1 in
      let* sl1 := slice_incl syn (v + 1) (2 * v + 1) in
      let* b0 := dot sl1 tmp in
      let* beta := gdiv b0 eps_v in
      let* sl2 := slice_incl syn v (2 * v - 1) in
      let* gamma := dot sl2 y in
      let w3 := zip_upd (fun wi ti => GF.add wi (GF.mul (GF.add beta gamma) ti)) w2 tmp in
      let* eps_inv := gdiv 1%N eps_v in
      let y1 := zip_upd (fun _ ti => GF.mul ti eps_inv) y tmp in
      let s' := mkld (v + 1) (y1 ++ [eps_inv]) w3 in
      let* _ := ld_debug_check syn s' in
      ld_loop f syn t s'
    else
      (* the singular case *)
      let* mo := find_m syn tmp v (seq 1 (t - v - 1)) in
      match mo with
      | None => Ok s          (* break *)
      | Some (m, sigma_m) =>
        let n := m + v in
        let* sig_rest := map_ok (fun k => let* sl := slice_incl syn (v + k) (2 * v + k) in dot sl tmp) (seq (m + 1) m) in
        let sigma := sigma_m :: sig_rest in
        let tmp0 := removelast tmp in                 (* tmp.pop(): tmp = w_v *)
        let* tmp1 := iter_wk syn y w tmp0 v (seq 0 (m + 1)) in
        let* sigma_m_inv := gdiv 1%N sigma_m in
        let y0 := repeat 0%N (n + 1) in
        let y1 := zip_upd (fun _ wi => GF.mul wi sigma_m_inv) y0 w in
        let* y2 := set_ok y1 (length w) sigma_m_inv in
        let* gamma0 := map_ok (fun i =>
                          let* s1 := nth_ok syn (n + v + 1 + i) in
                          let* sl := slice_incl syn (v + i) (2 * v - 1 + i) in
                          let* d := dot sl tmp1 in Ok (GF.add s1 d)) (seq 0 (m + 1)) in
        let* gamma := gamma_outer sigma gamma0 (seq 0 (m + 1)) in
        let* _ := gamma_check sigma gamma gamma0 (seq 0 (m + 1)) in
        let tmp2 := resize tmp1 (n + 1) in
        let* tmp3 := upd_w tmp2 w m v (combine (seq 0 (length gamma)) gamma) in
        let s' := mkld (n + 1) y2 tmp3 in
        let* _ := ld_debug_check syn s' in
        ld_loop f syn t s'
      end
  end.

Definition find_inv_error_locations_levinson_durbin (syn : list N) : RR (list N) :=
  let t := length syn / 2 in
  let v := take_while_zero syn + 1 in
  if t <? v then Err TooManyErrors else
  let* sv := nth_ok syn (v - 1) in
  let* y0 := gdiv 1%N sv in
  let y := y0 :: repeat 0%N (v - 1) in
  let* sl := slice_incl syn v (2 * v - 1) in
  let* w := init_w_outer syn (rev sl) v (seq 0 v) in
  let* s := ld_loop (t + 2) syn t (mkld v y w) in
  Ok (ld_w s ++ [1%N]).

(* ---- find_error_values_bp(x_loc, _lambda, syn) ---- *)
Fixpoint bp1_inner (xk : N) (syn : list N) (js : list nat) : RR (list N) :=   (* for j in (k+1..e).rev() *)
  match js with
  | [] => Ok syn
  | j :: r =>
    let* tmp := nth_ok syn (j - 1) in
    let* cur := nth_ok syn j in
    let* syn' := set_ok syn j (GF.add cur (GF.mul xk tmp)) in
    bp1_inner xk syn' r
  end.
Fixpoint bp1 (x_loc syn : list N) (e : nat) (ks : list nat) : RR (list N) :=
  match ks with
  | [] => Ok syn
  | k :: r =>
    let* xk := nth_ok x_loc k in
    let* syn' := bp1_inner xk syn (rev (seq (k + 1) (e - (k + 1)))) in
    bp1 x_loc syn' e r
  end.
Fixpoint bp2_div (x_loc syn : list N) (k : nat) (js : list nat) : RR (list N) :=
  match js with
  | [] => Ok syn
  | j :: r =>
    let* xj := nth_ok x_loc j in
    let* xo := nth_ok x_loc (j - k - 1) in
    let* cur := nth_ok syn j in
    let* q := gdiv cur (GF.add xj xo) in
    let* syn' := set_ok syn j q in
    bp2_div x_loc syn' k r
  end.
Fixpoint bp2_sub (syn : list N) (js : list nat) : RR (list N) :=
  match js with
  | [] => Ok syn
  | j :: r =>
    let* tmp := nth_ok syn (j + 1) in
    let* cur := nth_ok syn j in
    let* syn' := set_ok syn j (GF.add cur tmp) in
    bp2_sub syn' r
  end.
Fixpoint bp2 (x_loc syn : list N) (e : nat) (ks : list nat) : RR (list N) :=
  match ks with
  | [] => Ok syn
  | k :: r =>
    let* s1 := bp2_div x_loc syn k (seq (k + 1) (e - (k + 1))) in
    let* s2 := bp2_sub s1 (seq k (e - 1 - k)) in
    bp2 x_loc s2 e r
  end.
Fixpoint bp3 (x_loc syn : list N) (is_ : list nat) : RR (list N) :=
  match is_ with
  | [] => Ok syn
  | i :: r =>
    let* xi := nth_ok x_loc i in
    let* cur := nth_ok syn i in
    let* q := gdiv cur xi in
    let* syn' := set_ok syn i q in
    bp3 x_loc syn' r
  end.

(* returns (x_loc inverted = error locations, error values in syn) *)
Definition find_error_values_bp (x_loc syn : list N) : RR (list N * list N) :=
  let e := length x_loc in
  let* xs := (fix inv (l : list N) : RR (list N) :=
                match l with [] => Ok [] | z :: r => let* q := gdiv 1%N z in let* qs := inv r in Ok (q :: qs) end) x_loc in
  (* e - 1 underflows for e = 0 *)
  if e =? 0 then Panic POverflow else
  let* s1 := bp1 xs syn e (seq 0 (e - 1)) in
  let* s2 := bp2 xs s1 e (rev (seq 0 (e - 1))) in
  let* s3 := bp3 xs s2 (seq 0 e) in
  Ok (xs, s3).

(* ---- decode_gen on one interleaved block: data = &mut data[block..], error = &mut error[block..] ---- *)
Fixpoint set_stride (l : list N) (idx : nat) (v : N) : RR (list N) := set_ok l idx v.

Fixpoint apply_corr (data error : list N) (stride n n_data : nat) (locs errs : list N) : RR (list N * list N) :=
  match locs, errs with
  | loc :: lr, err :: er =>
    match GF.glog loc with
    | None => Panic PAssert                    (* GF::log: assert!(self != GF(0)) *)
    | Some iN =>
      let i := N.to_nat iN in
      if n <=? i then Err ErrorsOutsideRange else
      let pos := n - i - 1 in
      if pos <? n_data then
        let idx := pos * stride in
        let* cur := nth_ok data idx in
        let* data' := set_ok data idx (GF.add cur err) in
        apply_corr data' error stride n n_data lr er
      else
        let idx := (pos - n_data) * stride in
        let* cur := nth_ok error idx in
        let* error' := set_ok error idx (GF.add cur err) in
        apply_corr data error' stride n n_data lr er
    end
  | _, _ => Ok (data, error)
  end.

Definition decode_gen (data error : list N) (stride err_len : nat) : RR (list N * list N) :=
  if stride =? 0 then Panic PDivZero else
  let n_data := (length data + stride - 1) / stride in
  let n_error := (length error + stride - 1) / stride in
  let n := n_data + n_error in
  if negb (1 <=? err_len) then Panic PAssert else
  if negb (err_len <? n) then Panic PAssert else
  let received := every stride 0 data ++ every stride 0 error in
  let (syndromes, have_non_zero) := primitive_element_evaluation received err_len in
  if negb have_non_zero then Ok (data, error) else
  let* lambda_coeff := find_inv_error_locations_levinson_durbin syndromes in
  let* inv_error_locations := chien_search lambda_coeff in
  if negb (length inv_error_locations =? length lambda_coeff - 1) then Err Malfunction else
  let* first := nth_ok inv_error_locations 0 in
  if N.eqb first 0 then Err Malfunction else
  let t := err_len / 2 in
  let v := length lambda_coeff - 1 in
  (* for j in t..=2 * t - v - 1 *)
  if 2 * t <? v + 1 then Panic POverflow else
  let* tj := map_ok (fun j =>
               if length syndromes - j <? length lambda_coeff then Panic PAssert else
               Ok (gsum (zipw GF.mul (skipn j syndromes) lambda_coeff))) (seq t (2 * t - v - t)) in
  if existsb (fun x => negb (N.eqb x 0)) tj then Err Malfunction else
  let* (locs, errs) := find_error_values_bp inv_error_locations syndromes in
  let* (data', error') := apply_corr data error stride n n_data locs errs in
  let corrected := every stride 0 data' ++ every stride 0 error' in
  let (_, nz) := primitive_element_evaluation corrected err_len in
  if nz then Err Malfunction else Ok (data', error').

(* decode(codewords, size): blocks 0..B, each on data[block..], error[block..] *)
Fixpoint decode_blocks (data error : list N) (stride err_len : nat) (blocks : list nat) : RR (list N * list N) :=
  match blocks with
  | [] => Ok (data, error)
  | b :: r =>
    if (length data <? b) || (length error <? b) then Panic PIndex else
    let* (d', e') := decode_gen (skipn b data) (skipn b error) stride err_len in
    decode_blocks (firstn b data ++ d') (firstn b error ++ e') stride err_len r
  end.

Definition decode (codewords : list N) (s : SymbolSize) : RR (list N) :=
  let err_len := N.to_nat (num_ecc_per_block s) in
  let stride := N.to_nat (num_ecc_blocks s) in
  let num_data := N.to_nat (num_data_codewords s) in
  if length codewords <? num_data then Panic PIndex else      (* split_at_mut *)
  let data := firstn num_data codewords in
  let error := skipn num_data codewords in
  let* (d, e) := decode_blocks data error stride err_len (seq 0 stride) in
  Ok (d ++ e).
