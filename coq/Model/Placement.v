(* Model/Placement.v -- mirror of src/placement.rs: IndexTraversal::{run, idx, utah, corner1..4},
   MatrixMap::{traverse, traverse_mut/bits_mut, copy_from_codewords, codewords, write_padding}.
   Signed arithmetic (isize) in Z; every slice index is checked (Panic PIndex), the
   debug_assert!s of idx() are Panic PAssert.  No proofs. *)
From Coq Require Import ZArith NArith List Bool FMapPositive.
From DM Require Import Model.Outcome.
Import ListNotations.
Local Open Scope Z_scope.

Module PS := PositiveMap.

Section Traversal.
Variables height width : Z.   (* content (mapping matrix) size: self.height, self.width *)

(* fn idx(&self, mut i: isize, mut j: isize) -> usize *)
Definition idx (i j : Z) : outcome unit Z :=
  let h := height in let w := width in
  let '(i, j) := if i <? 0 then (i + h, j + (4 - ((h + 4) mod 8))) else (i, j) in
  let '(i, j) := if j <? 0 then (i + (4 - ((w + 4) mod 8)), j + w) else (i, j) in
  let i := if i >=? h then i - h else i in
  if negb ((i >=? 0) && (i <? h)) then Panic PAssert
  else if negb ((j >=? 0) && (j <? w)) then Panic PAssert
  else Ok (i * w + j).

Fixpoint all_ok {A} (l : list (outcome unit A)) : outcome unit (list A) :=
  match l with
  | [] => Ok []
  | o :: r => let* x := o in let* xs := all_ok r in Ok (x :: xs)
  end.

Definition utah (i j : Z) : outcome unit (list Z) :=
  all_ok [idx (i - 2) (j - 2); idx (i - 2) (j - 1); idx (i - 1) (j - 2); idx (i - 1) (j - 1);
          idx (i - 1) j; idx i (j - 2); idx i (j - 1); idx i j].

Definition corner1 : outcome unit (list Z) :=
  let h := height in let w := width in
  all_ok [idx (h - 1) 0; idx (h - 1) 1; idx (h - 1) 2; idx 0 (w - 2);
          idx 0 (w - 1); idx 1 (w - 1); idx 2 (w - 1); idx 3 (w - 1)].
Definition corner2 : outcome unit (list Z) :=
  let h := height in let w := width in
  all_ok [idx (h - 3) 0; idx (h - 2) 0; idx (h - 1) 0; idx 0 (w - 4);
          idx 0 (w - 3); idx 0 (w - 2); idx 0 (w - 1); idx 1 (w - 1)].
Definition corner3 : outcome unit (list Z) :=
  let h := height in let w := width in
  all_ok [idx (h - 3) 0; idx (h - 2) 0; idx (h - 1) 0; idx 0 (w - 2);
          idx 0 (w - 1); idx 1 (w - 1); idx 2 (w - 1); idx 3 (w - 1)].
Definition corner4 : outcome unit (list Z) :=
  let h := height in let w := width in
  all_ok [idx (h - 1) 0; idx (h - 1) (w - 1); idx 0 (w - 3); idx 0 (w - 2);
          idx 0 (w - 1); idx 1 (w - 3); idx 1 (w - 2); idx 1 (w - 1)].

(* state of run(): the `visited` vector (as a set of set positions) and the visit log *)
Record st := mkst { vis : PS.t unit; log : list (list Z) }.

Definition nlen : Z := height * width.    (* visited.len() *)

Definition vis_get (s : st) (i : Z) : outcome unit bool :=
  if (i <? 0) || (i >=? nlen) then Panic PIndex
  else Ok (match PS.find (Z.to_pos (i + 1)) (vis s) with Some _ => true | None => false end).

Fixpoint vis_set_all (v : PS.t unit) (l : list Z) : outcome unit (PS.t unit) :=
  match l with
  | [] => Ok v
  | i :: r => if (i <? 0) || (i >=? nlen) then Panic PIndex
              else vis_set_all (PS.add (Z.to_pos (i + 1)) tt v) r
  end.

(* macro visit!: mark the 8 indices, call visit_fn(codeword_idx, ii), codeword_idx += 1 *)
Definition visit (ii : outcome unit (list Z)) (s : st) : outcome unit st :=
  let* l := ii in
  let* v := vis_set_all (vis s) l in
  Ok (mkst v (l :: log s)).

Definition nrow := height.
Definition ncol := width.

Fixpoint sweep_up (fuel : nat) (i j : Z) (s : st) : outcome unit (Z * Z * st) :=
  match fuel with
  | O => Panic POutOfFuel
  | S f =>
    let* s := (if (i <? nrow) && (j >=? 0) then
                 let* b := vis_get s (i * ncol + j) in
                 if negb b then visit (utah i j) s else Ok s
               else Ok s) in
    let i := i - 2 in let j := j + 2 in
    if negb ((i >=? 0) && (j <? ncol)) then Ok (i, j, s) else sweep_up f i j s
  end.

Fixpoint sweep_down (fuel : nat) (i j : Z) (s : st) : outcome unit (Z * Z * st) :=
  match fuel with
  | O => Panic POutOfFuel
  | S f =>
    let* s := (if (i >=? 0) && (j <? ncol) then
                 let* b := vis_get s (i * ncol + j) in
                 if negb b then visit (utah i j) s else Ok s
               else Ok s) in
    let i := i + 2 in let j := j - 2 in
    if negb ((i <? nrow) && (j >=? 0)) then Ok (i, j, s) else sweep_down f i j s
  end.

Fixpoint outer (fuel : nat) (i j : Z) (s : st) : outcome unit st :=
  match fuel with
  | O => Panic POutOfFuel
  | S f =>
    let* s := (if (i =? nrow) && (j =? 0) then visit corner1 s else Ok s) in
    let* s := (if (i =? nrow - 2) && (j =? 0) && negb (ncol mod 4 =? 0) then visit corner2 s else Ok s) in
    let* s := (if (i =? nrow - 2) && (j =? 0) && (ncol mod 8 =? 4) then visit corner3 s else Ok s) in
    let* s := (if (i =? nrow + 4) && (j =? 2) && (ncol mod 8 =? 0) then visit corner4 s else Ok s) in
    let* (i, j, s) := sweep_up f i j s in
    let i := i + 1 in let j := j + 3 in
    let* (i, j, s) := sweep_down f i j s in
    let i := i + 3 in let j := j + 1 in
    if negb ((i <? nrow) || (j <? ncol)) then Ok s else outer f i j s
  end.

(* IndexTraversal::run: the list of index octets in visiting order (codeword_idx = position) *)
Definition run : outcome unit (list (list Z)) :=
  let* s := outer (Z.to_nat (height + width + 8)) 4 0 (mkst (PS.empty _) []) in
  Ok (rev (log s)).
End Traversal.

(* ---- MatrixMap<B> over an arbitrary bit type ---- *)
(* `entries: Vec<B>` as a bounds-checked functional array (length, default, finite map), so
   that the model runs in O(n log n); `arr_of_list`/`arr_to_list` convert at the boundary. *)
Section Map.
Context {B : Type}.

Record arr := mkarr { alen : Z; adef : B; amap : PS.t B }.

Definition arr_new (n : Z) (d : B) : arr := mkarr n d (PS.empty B).     (* vec![d; n] *)

Fixpoint arr_fill (l : list B) (i : positive) (m : PS.t B) : PS.t B :=
  match l with [] => m | x :: r => arr_fill r (Pos.succ i) (PS.add i x m) end.
Definition arr_of_list (d : B) (l : list B) : arr := mkarr (Z.of_nat (length l)) d (arr_fill l 1%positive (PS.empty B)).
Definition arr_to_list (a : arr) : list B :=
  map (fun i : nat => match PS.find (Pos.of_succ_nat i) (amap a) with Some v => v | None => adef a end)
      (seq 0 (Z.to_nat (alen a))).

Definition get_z (a : arr) (i : Z) : outcome unit B :=
  if (i <? 0) || (i >=? alen a) then Panic PIndex
  else Ok (match PS.find (Z.to_pos (i + 1)) (amap a) with Some v => v | None => adef a end).
Definition set_z (a : arr) (i : Z) (v : B) : outcome unit arr :=
  if (i <? 0) || (i >=? alen a) then Panic PIndex
  else Ok (mkarr (alen a) (adef a) (PS.add (Z.to_pos (i + 1)) v (amap a))).

(* traverse_mut(|idx, bits| ..): the closure receives the codeword index and writes the 8
   referenced entries; modelled as an index-directed update with the closure's 8 new values.
   (bits_mut hands out 8 disjoint &mut; it panics (unwrap on split_first_mut / negative
   idx - prev) when two indices coincide -- modelled by PAssert on duplicates.) *)
Fixpoint has_dup (l : list Z) : bool :=
  match l with [] => false | x :: r => existsb (Z.eqb x) r || has_dup r end.

Fixpoint set_all (e : arr) (idxs : list Z) (vals : list B) : outcome unit arr :=
  match idxs, vals with
  | i :: ri, v :: rv => let* e' := set_z e i v in set_all e' ri rv
  | _, _ => Ok e
  end.

Fixpoint traverse_mut_go (f : nat -> list B -> list B) (cw : nat) (visits : list (list Z)) (e : arr)
  : outcome unit arr :=
  match visits with
  | [] => Ok e
  | idxs :: rest =>
    if has_dup idxs then Panic PAssert else
    let* old := all_ok (map (get_z e) idxs) in
    let* e' := set_all e idxs (f cw old) in
    traverse_mut_go f (S cw) rest e'
  end.

Definition traverse_mut (h w : Z) (f : nat -> list B -> list B) (e : arr) : outcome unit arr :=
  let* visits := run h w in traverse_mut_go f 0 visits e.

(* traverse(|idx, bits| ..): the list of value octets in visiting order *)
Definition traverse (h w : Z) (e : arr) : outcome unit (list (list B)) :=
  let* visits := run h w in
  all_ok (map (fun idxs => all_ok (map (get_z e) idxs)) visits).
End Map.
Arguments arr B : clear implicits.

(* ---- MatrixMap<bool> ---- *)
Local Open Scope N_scope.

(* bits of a codeword, most significant first: what the `.rev()` loop of copy_from_codewords writes *)
Definition byte_bits (c : N) : list bool :=
  [N.testbit c 7; N.testbit c 6; N.testbit c 5; N.testbit c 4; N.testbit c 3; N.testbit c 2; N.testbit c 1; N.testbit c 0].
(* codeword = (codeword << 1) | bit, as u8 *)
Definition bits_byte (l : list bool) : N :=
  fold_left (fun (acc : N) (b : bool) => ((acc * 2) mod 256) + (if b then 1 else 0)) l 0.

(* write_padding: entries[(h-2)*w + (w-2)] = HIGH; entries[(h-1)*w + (w-1)] = HIGH *)
Definition write_padding {B} (HIGH : B) (h w : Z) (has_padding : bool) (e : arr B) : outcome unit (arr B) :=
  if has_padding then
    let* e1 := set_z e ((h - 2) * w + (w - 2))%Z HIGH in
    set_z e1 ((h - 1) * w + (w - 1))%Z HIGH
  else Ok e.

(* MatrixMap::new + copy_from_codewords: data[idx] panics when data is too short *)
Definition copy_from_codewords (h w : Z) (has_padding : bool) (data : list N) : outcome unit (list bool) :=
  let e0 := arr_new (h * w)%Z false in
  let* visits := run h w in
  let* _ := (if (length data <? length visits)%nat then Panic PIndex else Ok tt) in
  let* e := traverse_mut_go (fun cw _ => byte_bits (nth cw data 0)) 0 visits e0 in
  let* e := write_padding true h w has_padding e in
  Ok (arr_to_list e).

(* codewords(): data = vec![0; entries.len() / 8]; data[idx] panics if idx is out of range *)
Definition codewords (h w : Z) (e : list bool) : outcome unit (list N) :=
  let* vals := traverse h w (arr_of_list false e) in
  if (length e / 8 <? length vals)%nat then Panic PIndex
  else Ok (map bits_byte vals ++ repeat 0 (length e / 8 - length vals)).
