(* Model/Outcome.v -- results of modelled Rust functions: value, Rust `Err`, or panic site *)
From Coq Require Import NArith List.
Import ListNotations.

Inductive panic_site :=
  | PIndex          (* slice / array index out of bounds, split_at_mut out of range *)
  | POverflow       (* arithmetic overflow (debug) / wrap (release) *)
  | PDivZero        (* GF division by zero (assert_ne) *)
  | PAssert         (* assert!, debug_assert!, unreachable!, panic!, expect/unwrap on None *)
  | PAssertLD       (* the cfg!(debug_assertions) self-checks inside the Levinson-Durbin loop: eq. (3)/(4) after each iteration, the gamma re-check (absent from release builds) *)
  | POutOfFuel      (* model artefact: excluded by fuel lemmas *)
  | PBadOracle.     (* model artefact: an oracle input (sort order of the implementation) fails its contract *)

Inductive outcome (E A : Type) : Type :=
  | Ok (a : A)
  | Err (e : E)
  | Panic (s : panic_site).
Arguments Ok {E A} a.
Arguments Err {E A} e.
Arguments Panic {E A} s.

Definition bind {E A B} (o : outcome E A) (f : A -> outcome E B) : outcome E B :=
  match o with Ok a => f a | Err e => Err e | Panic s => Panic s end.

Notation "'let*' x ':=' o 'in' k" := (bind o (fun x => k)) (at level 200, x pattern, right associativity).

Definition no_panic {E A} (o : outcome E A) : Prop :=
  match o with Panic _ => False | _ => True end.

Definition get {E A} (l : list A) (i : nat) : outcome E A :=
  match nth_error l i with Some x => Ok x | None => Panic PIndex end.

Fixpoint set_nth {A} (l : list A) (i : nat) (v : A) : option (list A) :=
  match l, i with
  | [], _ => None
  | _ :: r, O => Some (v :: r)
  | x :: r, S i' => option_map (cons x) (set_nth r i' v)
  end.

Definition set {E A} (l : list A) (i : nat) (v : A) : outcome E (list A) :=
  match set_nth l i v with Some l' => Ok l' | None => Panic PIndex end.
