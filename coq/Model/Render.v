(* Model/Render.v -- mirror of MatrixMap::{bitmap, try_from_bits} (src/placement.rs).
   Both Rust functions are generic in the bit type: `bitmap` only writes the constants
   LOW/HIGH and copies entries; `try_from_bits` only compares pixels with constants and copies
   pixels, at positions that depend on the symbol's geometry alone.  The model is therefore in
   two stages that follow the Rust loops: the loops produce a geometry-only description
   (`layout`: what each pixel is; `actions`: which pixel is tested against what / copied, in
   loop order) and an interpreter applies it to the actual bits.  No proofs. *)
From Coq Require Import ZArith NArith List Bool FMapPositive.
From DM Require Import Generated.Symbols Model.Outcome Model.SymbolList.
Import ListNotations.
Local Open Scope N_scope.

Module PX := PositiveMap.

Inductive px := Fix (b : bool) | Ent (k : N).

Definition pkey (i : N) : positive := N.succ_pos i.

(* a sequence of writes bits[idx] = v over an array initialised with LOW *)
Definition wr (m : PX.t px) (i : N) (v : px) : PX.t px := PX.add (pkey i) v m.

(* (a..b).step_by(step) *)
Fixpoint range_step (fuel : nat) (a b step : N) : list N :=
  match fuel with
  | O => []
  | S f => if a <? b then a :: range_step f (a + step) b step else []
  end.
Definition range (a b : N) : list N := range_step (N.to_nat (b - a)) a b 1.

Section Geometry.
Variables cw chh ev eh : N.   (* content width/height, extra vertical/horizontal alignments *)

Definition bm_h : N := chh + 2 + 2 * eh.
Definition bm_w : N := cw + 2 + 2 * ev.
Definition blk_h : N := (bm_h - 2 * (eh + 1)) / (eh + 1).
Definition blk_w : N := (bm_w - 2 * (ev + 1)) / (ev + 1).
Definition pidx (i j : N) : N := i * bm_w + j.

Definition layout_map : PX.t px :=
  let h := bm_h in let w := bm_w in
  let m := PX.empty px in
  (* draw horizontal alignments *)
  let m := fold_left (fun m i =>
             let rows_before := 1 + (blk_h + 2) * i + blk_h in
             let m := fold_left (fun m j => wr m (pidx rows_before j) (Fix true)) (range 0 w) m in
             fold_left (fun m j => wr m (pidx (rows_before + 1) j) (Fix true)) (range_step (N.to_nat w) 0 w 2) m)
           (range 0 eh) m in
  (* draw vertical alignments *)
  let m := fold_left (fun m j =>
             let cols_before := 1 + (blk_w + 2) * j + blk_w in
             let m := fold_left (fun m i => wr m (pidx i (cols_before + 1)) (Fix true)) (range 1 h) m in
             fold_left (fun m i => wr m (pidx i cols_before) (Fix true)) (range_step (N.to_nat h) 1 h 2) m)
           (range 0 ev) m in
  (* bottom, top, left, right *)
  let m := fold_left (fun m j => wr m (pidx (h - 1) j) (Fix true)) (range 0 w) m in
  let m := fold_left (fun m j => wr m (pidx 0 j) (Fix true)) (range_step (N.to_nat w) 0 w 2) m in
  let m := fold_left (fun m i => wr m (pidx i 0) (Fix true)) (range 0 h) m in
  let m := fold_left (fun m i => wr m (pidx i (w - 1)) (Fix true)) (range_step (N.to_nat h) 1 h 2) m in
  (* copy the data *)
  fold_left (fun m b_i =>
     let i := b_i / cw in let i := i + 1 + (i / blk_h) * 2 in
     let j := b_i mod cw in let j := j + 1 + (j / blk_w) * 2 in
     wr m (pidx i j) (Ent b_i)) (range 0 (cw * chh)) m.

Definition layout : list px :=
  let m := layout_map in
  map (fun i => match PX.find (pkey i) m with Some v => v | None => Fix false end) (range 0 (bm_h * bm_w)).

(* ---- try_from_bits: the tests and copies of the two nested chunk loops, in order ---- *)
Inductive action := Test (pixel : N) (expected : bool) | Copy (pixel : N).

(* h, w here are derived the way try_from_bits derives them *)
Definition tf_blk_h : N := chh / (eh + 1).
Definition tf_blk_w : N := cw / (ev + 1).

Definition actions : list action :=
  let width := bm_w in
  let bh := tf_blk_h in let bw := tf_blk_w in
  flat_map (fun c =>
    let base := c * (bh + 2) * width in                (* start of row_chunk c *)
    (* last row all HIGH, first row alternating starting with HIGH *)
    map (fun j => Test (base + (bh + 1) * width + j) true) (range 0 width) ++
    map (fun j => Test (base + j) (N.even j)) (range 0 width) ++
    (* rows.chunks(blk_w + 2).enumerate(): chunk j covers region (j mod (ev+1)) of data row (j / (ev+1)) *)
    flat_map (fun j =>
      let start := base + width + j * (bw + 2) in
      (* alignment_bit toggles when j % (ev+1) == 0, starting from LOW: HIGH on even data rows *)
      let alignment_bit := N.even (j / (ev + 1)) in
      [Test start true; Test (start + bw + 1) alignment_bit] ++
      map (fun k => Copy (start + 1 + k)) (range 0 bw))
      (range 0 (bh * (ev + 1))))
    (range 0 (eh + 1)).
End Geometry.

Definition layout_of (s : SymbolSize) : list px :=
  layout (content_width s) (content_height s) (extra_vertical_alignments s) (extra_horizontal_alignments s).
Definition actions_of (s : SymbolSize) : list action :=
  actions (content_width s) (content_height s) (extra_vertical_alignments s) (extra_horizontal_alignments s).

Section Bits.
Context {B : Type}.
Variables LOW HIGH : B.

Definition interp (entries : list B) (p : px) : B :=
  match p with Fix b => if b then HIGH else LOW | Ent k => nth (N.to_nat k) entries LOW end.

(* MatrixMap::bitmap: (width, bits) *)
Definition bitmap (s : SymbolSize) (entries : list B) : N * list B :=
  (bm_w (content_width s) (extra_vertical_alignments s), map (interp entries) (layout_of s)).
End Bits.

Inductive conv_error := EAlignment | EPadding | EZeroWidth | EDataSize | ESymbolSize.

Definition tests_pass (bits : list bool) (acts : list action) : bool :=
  forallb (fun a => match a with
                    | Test p e => match nth_error bits (N.to_nat p) with Some b => Bool.eqb b e | None => false end
                    | Copy _ => true end) acts.

Definition copies (bits : list bool) (acts : list action) : list bool :=
  flat_map (fun a => match a with Copy p => [nth (N.to_nat p) bits false] | Test _ _ => [] end) acts.

(* SymbolList::all().iter().find(|s| bs.width == width && bs.height == height) *)
Definition find_size (width height : N) : option SymbolSize :=
  find (fun s => (Symbols.width s =? width) && (Symbols.height s =? height)) sl_all.

Definition try_from_bits (bits : list bool) (width : N) : outcome conv_error (list bool * SymbolSize) :=
  let blen := N.of_nat (length bits) in
  if width =? 0 then Err EZeroWidth
  else if negb (blen mod width =? 0) then Err EDataSize
  else match find_size width (blen / width) with
       | None => Err ESymbolSize
       | Some s =>
         let acts := actions_of s in
         if negb (tests_pass bits acts) then Err EAlignment
         else
           let entries := copies bits acts in
           let n := length entries in
           let w := N.to_nat (content_width s) in
           if has_padding_modules s then
             (* entries[len-2..] == [LOW, HIGH] && entries[len-w-2..len-w] == [HIGH, LOW] *)
             if (n <? w + 2)%nat then Panic PIndex
             else if Bool.eqb (nth (n - 2) entries false) false && Bool.eqb (nth (n - 1) entries false) true &&
                     Bool.eqb (nth (n - w - 2) entries false) true && Bool.eqb (nth (n - w - 1) entries false) false
                  then Ok (entries, s) else Err EPadding
           else Ok (entries, s)
       end.

(* ---- the same two functions with O(log n) indexing (finite map built once from the slice);
        proved equal to the list-indexed versions in Proofs/RenderProofs.v; used by the driver ---- *)
Section Fast.
Context {B : Type}.
Fixpoint fill (l : list B) (i : positive) (m : PX.t B) : PX.t B :=
  match l with [] => m | x :: r => fill r (Pos.succ i) (PX.add i x m) end.
Definition slice (l : list B) : PX.t B := fill l 1%positive (PX.empty B).
Definition at_ (m : PX.t B) (p : N) : option B := PX.find (pkey p) m.

Definition bitmap_fast (LOW HIGH : B) (s : SymbolSize) (entries : list B) : N * list B :=
  let m := slice entries in
  (bm_w (content_width s) (extra_vertical_alignments s),
   map (fun p => match p with
                 | Fix b => if b then HIGH else LOW
                 | Ent k => match at_ m k with Some v => v | None => LOW end
                 end) (layout_of s)).
End Fast.

Definition try_from_bits_fast (bits : list bool) (width : N) : outcome conv_error (list bool * SymbolSize) :=
  let blen := N.of_nat (length bits) in
  if width =? 0 then Err EZeroWidth
  else if negb (blen mod width =? 0) then Err EDataSize
  else match find_size width (blen / width) with
       | None => Err ESymbolSize
       | Some s =>
         let acts := actions_of s in
         let m := slice bits in
         if negb (forallb (fun a => match a with
                    | Test p e => match at_ m p with Some b => Bool.eqb b e | None => false end
                    | Copy _ => true end) acts) then Err EAlignment
         else
           let entries := flat_map (fun a => match a with
                             | Copy p => [match at_ m p with Some v => v | None => false end]
                             | Test _ _ => [] end) acts in
           let n := length entries in
           let w := N.to_nat (content_width s) in
           if has_padding_modules s then
             if (n <? w + 2)%nat then Panic PIndex
             else if Bool.eqb (nth (n - 2) entries false) false && Bool.eqb (nth (n - 1) entries false) true &&
                     Bool.eqb (nth (n - w - 2) entries false) true && Bool.eqb (nth (n - w - 1) entries false) false
                  then Ok (entries, s) else Err EPadding
           else Ok (entries, s)
       end.
