(* Model/DriverPlan.v -- driver entry point for the planner *)
From Coq Require Import Arith NArith List Bool.
From DM Require Import Generated.Symbols Generated.ModeTables Model.Outcome Model.SymbolList Model.Planner
  Model.PlannerRun Model.DriverSym.
Import ListNotations.

(* trace = None: stable sort; Some t: the implementation's order *)
Definition d_plan (data : list N) (wl : list N) (modes : N) (trace : option (list (list nat))) :=
  let sl := sl_from_iter (syms_of wl) in
  match trace with
  | None => encodation_plan stable_sorter data sl modes
  | Some t => encodation_plan (fun l => trace_sorter l t) data sl modes
  end.
