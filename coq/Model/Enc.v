(* Model/Enc.v -- mirror of src/encodation/{mod,ascii,c40,text,x12,edifact,base256}.rs after
   the repairs recorded in known_findings.json: GenericDataEncoder (EncodingContext), the six
   mode encoders with their end-of-data rules, macro stripping, ECI, padding, and
   data::encode_data_internal.  Every assert!/unwrap/index/arithmetic-underflow site is a Panic.
   The planner is a parameter (its sort oracle is), see Model/Planner.v.  No proofs. *)
From Coq Require Import Arith NArith List Bool.
From DM Require Import Generated.Symbols Generated.ModeTables Model.Outcome Model.SymbolList Model.Planner Model.Eci.
Import ListNotations.
Local Open Scope N_scope.

Inductive enc_error := TooMuchOrIllegalData | SymbolListEmpty.
Definition ER (A : Type) := outcome enc_error A.

Definition lift {A} (o : PR A) : ER A := match o with Ok a => Ok a | Err _ => Panic PAssert | Panic s => Panic s end.

Record enc := mkenc {
  e_data : list N;                (* self.data: the characters not yet consumed *)
  e_input : list N;               (* self.input: the slice backup() re-reads *)
  e_encodation : EncodationType;
  e_planned : list (N * EncodationType);
  e_new_mode : option N;
  e_cw : list N;
  e_modes : N;
  e_symbols : list SymbolSize }.

Definition set_data (e : enc) d := mkenc d (e_input e) (e_encodation e) (e_planned e) (e_new_mode e) (e_cw e) (e_modes e) (e_symbols e).
Definition set_cw (e : enc) cw := mkenc (e_data e) (e_input e) (e_encodation e) (e_planned e) (e_new_mode e) cw (e_modes e) (e_symbols e).
Definition push (e : enc) (ch : N) : enc := set_cw e (e_cw e ++ [ch]).
Definition chars_left (e : enc) : N := N.of_nat (length (e_data e)).
Definition has_more (e : enc) : bool := match e_data e with [] => false | _ => true end.
Definition cw_len (e : enc) : N := N.of_nat (length (e_cw e)).

(* maybe_switch_mode *)
Definition maybe_switch_mode (e : enc) : ER (bool * enc) :=
  match e_planned e with
  | [] => Panic PIndex
  | (p0, m0) :: rest =>
    let cl := chars_left e in
    if negb (p0 <=? cl) then Panic PAssert else
    let '(new_mode, planned) := if (0 <? cl) && (cl =? p0) then (m0, rest) else (e_encodation e, e_planned e) in
    let switch := negb (et_eqb new_mode (e_encodation e)) in
    if switch then
      match et_latch_from_ascii new_mode with
      | Some l => Ok (true, mkenc (e_data e) (e_input e) new_mode planned (Some l) (e_cw e) (e_modes e) (e_symbols e))
      | None => Ok (true, mkenc (e_data e) (e_input e) new_mode planned (e_new_mode e) (e_cw e) (e_modes e) (e_symbols e))
      end
    else Ok (false, mkenc (e_data e) (e_input e) (e_encodation e) planned (e_new_mode e) (e_cw e) (e_modes e) (e_symbols e))
  end.

Definition symbol_for (e : enc) (extra : N) : option SymbolSize :=
  first_symbol_big_enough_for (e_symbols e) (cw_len e + extra).
(* symbol_size_left(extra): None -> the callers map it to TooMuchOrIllegalData *)
Definition symbol_size_left (e : enc) (extra : N) : option N :=
  match symbol_for e extra with
  | Some s => Some (num_data_codewords s - (cw_len e + extra))
  | None => None
  end.
Definition ssl (e : enc) (extra : N) : ER N :=
  match symbol_size_left e extra with Some x => Ok x | None => Err TooMuchOrIllegalData end.

Definition eat (e : enc) : option (N * enc) :=
  match e_data e with ch :: t => Some (ch, set_data e t) | [] => None end.

(* backup(steps): offset = (input.len() - data.len()) - steps; data = &input[offset..] *)
Definition backup (e : enc) (steps : nat) : ER enc :=
  let li := length (e_input e) in let ld := length (e_data e) in
  if (li <? ld)%nat || (li - ld <? steps)%nat then Panic POverflow
  else Ok (set_data e (skipn (li - ld - steps) (e_input e))).

Definition set_ascii_until_end (e : enc) : enc :=
  mkenc (e_data e) (e_input e) Ascii [(0, Ascii)] (e_new_mode e) (e_cw e) (e_modes e) (e_symbols e).

(* ---- ascii::encode ---- *)
Definition two_digits_coming (rest : list N) : bool :=
  match rest with a :: b :: _ => is_digit a && is_digit b | _ => false end.

Fixpoint ascii_encode (fuel : nat) (e : enc) : ER enc :=
  match fuel with
  | O => Panic POutOfFuel
  | S f =>
    let* (sw, e) := maybe_switch_mode e in
    if sw then Ok e else
    match e_data e with
    | a :: b :: t =>
      if is_digit a && is_digit b then ascii_encode f (push (set_data e t) ((a - 48) * 10 + (b - 48) + 130))
      else if a <=? 127 then ascii_encode f (push (set_data e (b :: t)) (a + 1))
      else ascii_encode f (push (push (set_data e (b :: t)) ascii_UPPER_SHIFT) (a - 128 + 1))
    | [a] =>
      if a <=? 127 then ascii_encode f (push (set_data e []) (a + 1))
      else ascii_encode f (push (push (set_data e []) ascii_UPPER_SHIFT) (a - 128 + 1))
    | [] => Ok e
    end
  end.

(* ---- c40 / text ---- *)
(* write_three_values: enc = 1600*c1 + 40*c2 + c3 + 1 as u16 *)
Definition write_three_values (e : enc) (c1 c2 c3 : N) : ER enc :=
  let v := 1600 * c1 + 40 * c2 + c3 + 1 in
  if 65536 <=? v then Panic POverflow else Ok (push (push e (v / 256)) (v mod 256)).

(* to_vals(buf, ch, low_ascii_write): ArrayVec<u8, 6> capacity overflow panics *)
Definition low_ascii (text : bool) (ch : N) : ER (list N) :=
  match low_ascii_to_c40_symbols (if text then text_swap_case ch else ch) with
  | Some l => Ok l
  | None => Panic PAssert       (* unreachable!() *)
  end.
Definition to_vals (text : bool) (buf : list N) (ch : N) : ER (list N) :=
  let* vals := (if ch <=? 127 then low_ascii text ch
                else let* l := low_ascii text (ch - 128) in Ok (c40_SHIFT2 :: c40_UPPER_SHIFT :: l)) in
  let buf' := buf ++ vals in
  if (6 <? length buf')%nat then Panic PAssert else Ok buf'.

Fixpoint drain3 (fuel : nat) (e : enc) (buf : list N) : ER (enc * list N) :=
  match fuel with
  | O => Panic POutOfFuel
  | S f => match buf with
           | a :: b :: c :: r => let* e' := write_three_values e a b c in drain3 f e' r
           | _ => Ok (e, buf)
           end
  end.

Definition c40_handle_end (e : enc) (last_ch : N) (buf : list N) : ER enc :=
  if (2 <? length buf)%nat then Panic PAssert else
  let blen := N.of_nat (length buf) in
  let mode_switch := has_more e in
  (* the end-of-data cases a-d; `Some e'` = returned early *)
  let* early :=
    (if negb (has_more e) then
       let* size_left := ssl e blen in
       if (size_left + blen =? 2) && (blen =? 2) then
         match buf with
         | [b0; b1] => let* e' := write_three_values e b0 b1 c40_SHIFT1 in Ok (Some e')
         | _ => Panic PIndex
         end
       else if (size_left + blen =? 2) && (blen =? 1) then
         let e1 := set_ascii_until_end (push e UNLATCH) in
         let* e2 := backup e1 1 in Ok (Some e2)
       else if (size_left + blen =? 1) && (blen =? 1) then
         if ascii_encoding_size [last_ch] =? 1 then
           let* e2 := backup (set_ascii_until_end e) 1 in Ok (Some e2)
         else Ok None
       else Ok None
     else Ok None) in
  match early with
  | Some e' => Ok e'
  | None =>
    let* e :=
      (match buf with
       | [] => Ok e
       | _ =>
         let buf1 := buf ++ [c40_SHIFT2] in
         let buf2 := if Nat.eqb (length buf1) 2 then buf1 ++ [c40_UPPER_SHIFT] else buf1 in
         match buf2 with
         | [b0; b1; b2] =>
           let* e' := write_three_values e b0 b1 b2 in
           Ok (if negb mode_switch then set_ascii_until_end e' else e')
         | _ => Panic PIndex
         end
       end) in
    let cl := chars_left e in
    if 0 <? cl then
      if (cl =? 2) && two_digits_coming (e_data e) then
        let* space_left := ssl e 1 in
        let e' := set_ascii_until_end e in
        Ok (if 1 <=? space_left then push e' UNLATCH else e')
      else Ok (push e UNLATCH)
    else
      let* sleft := ssl e 0 in
      if 0 <? sleft then
        let e' := push e UNLATCH in
        Ok (if negb mode_switch then set_ascii_until_end e' else e')
      else Ok e
  end.

Fixpoint c40_loop (fuel : nat) (text : bool) (e : enc) (buf : list N) (last_ch : N) : ER (enc * list N * N) :=
  match fuel with
  | O => Panic POutOfFuel
  | S f =>
    match eat e with
    | None => Ok (e, buf, last_ch)
    | Some (ch, e1) =>
      (* buf empty and only two digits remain? *)
      if (match buf with [] => true | _ => false end) && is_digit ch &&
         (match e_data e1 with [ch1] => is_digit ch1 | _ => false end) then
        let* e2 := backup e1 1 in Ok (e2, buf, last_ch)
      else
        let* buf1 := to_vals text buf ch in
        let* (e2, buf2) := drain3 4 e1 buf1 in
        let* (sw, e3) := maybe_switch_mode e2 in
        if sw then Ok (e3, buf2, ch) else c40_loop f text e3 buf2 ch
    end
  end.

Definition c40_encode (text : bool) (e : enc) : ER enc :=
  let* (e1, buf, last_ch) := c40_loop (S (length (e_data e))) text e [] 0 in
  c40_handle_end e1 last_ch buf.

(* ---- x12 ---- *)
Fixpoint x12_loop (fuel : nat) (e : enc) : ER (enc * bool) :=
  match fuel with
  | O => Panic POutOfFuel
  | S f =>
    match e_data e with
    | a :: b :: c :: t =>
      match x12_enc a, x12_enc b, x12_enc c with
      | Some c1, Some c2, Some c3 =>
        let* e1 := write_three_values (set_data e t) c1 c2 c3 in
        let* (sw, e2) := maybe_switch_mode e1 in
        if sw then Ok (e2, true) else x12_loop f e2
      | _, _, _ => Panic PAssert      (* unreachable!() in enc *)
      end
    | _ => Ok (e, false)
    end
  end.

Definition x12_encode (e : enc) : ER enc :=
  let* (e, switch) := x12_loop (S (length (e_data e))) e in
  let one_ascii_remain_maybe := (chars_left e <=? 2) && (ascii_encoding_size (e_data e) =? 1) in
  let* early :=
    (if one_ascii_remain_maybe then let* l := ssl e 1 in Ok (l =? 0) else Ok false) in
  if early then Ok (set_ascii_until_end e)
  else
    let* need := (if has_more e then Ok true else let* l := ssl e 0 in Ok (0 <? l)) in
    if need then Ok (push (if negb switch then set_ascii_until_end e else e) UNLATCH) else Ok e.

(* ---- edifact ---- *)
(* write4(ctx, s): 6-bit values packed; `as u8` arithmetic on u8: shifts truncate *)
Definition write4 (e : enc) (s : list N) : ER enc :=
  match s with
  | [] => Panic PIndex
  | s0 :: r =>
    let s1 := (nth 0 r 0) mod 64 in
    let e := push e (((s0 * 4) mod 256) + s1 / 16) in
    if (2 <=? length s)%nat then
      let s2 := (nth 1 r 0) mod 64 in
      let e := push e (((s1 * 16) mod 256) + s2 / 4) in
      if (3 <=? length s)%nat then
        let s3 := (nth 2 r 0) mod 64 in
        Ok (push e (((s2 * 64) mod 256) + s3))
      else Ok e
    else Ok e
  end.

(* ascii_end_of_data(ctx, symbols) -> bool (and the context change when true) *)
Definition edi_ascii_end_of_data (e : enc) (symbols : list N) : ER (bool * enc) :=
  let rest_chars := N.of_nat (length symbols) + chars_left e in
  if rest_chars <=? 4 then
    let rest := symbols ++ e_data e in
    let ascii_size := ascii_encoding_size rest in
    if ascii_size <=? 2 then
      match symbol_size_left e ascii_size with
      | Some x =>
        let space := x + ascii_size in
        if (space <=? 2) && (ascii_size <=? space) then
          let* e1 := backup e (length symbols) in Ok (true, set_ascii_until_end e1)
        else Ok (false, e)
      | None => Ok (false, e)
      end
    else Ok (false, e)
  else Ok (false, e).

Definition edi_handle_end (e : enc) (symbols : list N) : ER enc :=
  let* (done, e) := edi_ascii_end_of_data e symbols in
  if done then Ok e else
  match symbols with
  | [] =>
    if negb (has_more e) then
      let* space_left := ssl e 0 in
      if 0 <? space_left then
        if negb (2 <? space_left) then Panic PAssert
        else Ok (set_ascii_until_end (push e (edifact_UNLATCH * 4)))
      else Ok e
    else Ok (push e (edifact_UNLATCH * 4))
  | _ =>
    if (3 <? length symbols)%nat then Panic PAssert else
    if negb (has_more e) then
      let* l := ssl e (N.of_nat (length symbols)) in
      let space_left := 0 <? l in
      if space_left || Nat.eqb (length symbols) 3 then
        write4 (set_ascii_until_end e) (symbols ++ [edifact_UNLATCH])
      else write4 e symbols
    else write4 e (symbols ++ [edifact_UNLATCH])
  end.

Fixpoint edi_loop (fuel : nat) (e : enc) (symbols : list N) : ER (option enc * enc * list N) :=
  match fuel with
  | O => Panic POutOfFuel
  | S f =>
    let* (done, e) :=
      (if (match symbols with [] => true | _ => false end) && has_more e then edi_ascii_end_of_data e symbols
       else Ok (false, e)) in
    if done then Ok (Some e, e, symbols) else
    match eat e with
    | None => Ok (None, e, symbols)
    | Some (ch, e1) =>
      let symbols := symbols ++ [ch] in
      if Nat.eqb (length symbols) 4 then
        let* e2 := write4 e1 symbols in
        let* (sw, e3) := maybe_switch_mode e2 in
        if sw then Ok (None, e3, []) else edi_loop f e3 []
      else
        let* (sw, e3) := maybe_switch_mode e1 in
        if sw then Ok (None, e3, symbols) else edi_loop f e3 symbols
    end
  end.

Definition edifact_encode (e : enc) : ER enc :=
  let* (ret, e1, symbols) := edi_loop (S (length (e_data e))) e [] in
  match ret with
  | Some e' => Ok e'
  | None => edi_handle_end e1 symbols
  end.

(* ---- base256 ---- *)
Definition randomize_255_state (ch pos : N) : N :=
  let pseudo_random := ((149 * pos) mod 255) + 1 in
  let tmp := ch + pseudo_random in
  if tmp <=? 255 then tmp else tmp - 256.

Fixpoint set_nth_N (l : list N) (i : nat) (v : N) : ER (list N) :=
  match l, i with
  | [], _ => Panic PIndex
  | _ :: r, O => Ok (v :: r)
  | x :: r, S i' => let* r' := set_nth_N r i' v in Ok (x :: r')
  end.

Definition b256_write_length (e : enc) (start : nat) : ER enc :=
  let* space_left := ssl e 0 in
  if (length (e_cw e) <? start)%nat then Panic POverflow else
  let data_written := (length (e_cw e) - start)%nat in
  let* (cw, data_written) :=
    (if has_more e || (0 <? space_left) then
       if Nat.eqb data_written 0 then Panic POverflow else
       let data_count := N.of_nat (data_written - 1) in
       if data_count <=? 249 then
         let* cw := set_nth_N (e_cw e) start data_count in Ok (cw, data_written)
       else if data_count <=? 1555 then
         let* cw := set_nth_N (e_cw e) start (data_count / 250 + 249) in
         (* insert(start + 1, ..) *)
         if (length cw <? start + 1)%nat then Panic PIndex else
         Ok (firstn (start + 1) cw ++ [data_count mod 250] ++ skipn (start + 1) cw, S data_written)
       else Panic PAssert
     else Ok (e_cw e, data_written)) in
  if (length cw <? start + data_written)%nat then Panic PIndex else
  let pre := firstn start cw in
  let mid := firstn data_written (skipn start cw) in
  let post := skipn (start + data_written) cw in
  let mid' := map (fun ic => randomize_255_state (snd ic) (N.of_nat (start + fst ic + 1))) (combine (seq 0 data_written) mid) in
  Ok (set_cw e (pre ++ mid' ++ post)).

Fixpoint b256_loop (fuel : nat) (e : enc) (start : nat) : ER enc :=
  match fuel with
  | O => Panic POutOfFuel
  | S f =>
    let e1 := match eat e with Some (ch, e') => push e' ch | None => e end in
    if negb (has_more e1) then
      let* e2 := b256_write_length e1 start in
      Ok (if negb (has_more e2) then set_ascii_until_end e2 else e2)
    else
      let* (sw, e2) := maybe_switch_mode e1 in
      if sw then
        let* e3 := b256_write_length e2 start in
        Ok (if negb (has_more e3) then set_ascii_until_end e3 else e3)
      else b256_loop f e2 start
  end.

Definition base256_encode (e : enc) : ER enc :=
  let start := length (e_cw e) in
  b256_loop (S (S (length (e_data e)))) (push e 0) start.

Definition mode_encode (e : enc) : ER enc :=
  match e_encodation e with
  | Ascii => ascii_encode (S (S (length (e_data e)))) e
  | C40 => c40_encode false e
  | Text => c40_encode true e
  | X12 => x12_encode e
  | Edifact => edifact_encode e
  | Base256 => base256_encode e
  end.

(* ---- GenericDataEncoder ---- *)
Definition with_size (data : list N) (symbols : list SymbolSize) (modes : N) (fnc1 : bool) : enc :=
  mkenc data data Ascii [] None (if fnc1 then [ascii_FNC1] else []) modes symbols.

Fixpoint starts_with (l p : list N) : bool :=
  match p, l with
  | [], _ => true
  | x :: pr, y :: lr => (x =? y) && starts_with lr pr
  | _, [] => false
  end.
Definition ends_with (l s : list N) : bool :=
  (length s <=? length l)%nat && starts_with (skipn (length l - length s) l) s.

Definition use_macro_if_possible (e : enc) : ER enc :=
  if negb (match e_cw e with [] => true | _ => false end) || negb (ends_with (e_data e) MACRO_TRAIL) then Ok e
  else
    let strip (head : list N) (cw : N) : ER enc :=
      let d := e_data e in
      let hl := length head in let tl_ := length MACRO_TRAIL in
      if (length d <? tl_)%nat || (length d - tl_ <? hl)%nat then Panic PIndex else
      let body := firstn (length d - tl_ - hl) (skipn hl d) in
      Ok (mkenc body body (e_encodation e) (e_planned e) (e_new_mode e) (e_cw e ++ [cw]) (e_modes e) (e_symbols e)) in
    if starts_with (e_data e) MACRO05_HEAD then strip MACRO05_HEAD MACRO05
    else if starts_with (e_data e) MACRO06_HEAD then strip MACRO06_HEAD MACRO06
    else Ok e.

Definition enc_write_eci (e : enc) (c : N) : ER enc :=
  match write_eci c with
  | Ok l => Ok (set_cw e (e_cw e ++ l))
  | _ => Panic PAssert
  end.

Definition add_padding (e : enc) (size : SymbolSize) : ER enc :=
  let ndc := num_data_codewords size in
  if ndc <? cw_len e then Panic POverflow else
  let size_left := ndc - cw_len e in
  if size_left =? 0 then Ok e else
  let '(e, size_left) :=
    if negb (et_eqb (e_encodation e) Ascii) then
      (push (mkenc (e_data e) (e_input e) Ascii (e_planned e) (e_new_mode e) (e_cw e) (e_modes e) (e_symbols e)) UNLATCH,
       size_left - 1)
    else (e, size_left) in
  let '(e, size_left) := if 0 <? size_left then (push e ascii_PAD, size_left - 1) else (e, size_left) in
  Ok (fold_left (fun e _ =>
        let pos := cw_len e + 1 in
        let pseudo_random := ((149 * pos) mod 253) + 1 in
        let tmp := ascii_PAD + pseudo_random in
        push e (if tmp <=? 254 then tmp else tmp - 254)) (seq 0 (N.to_nat size_left)) e).

Section WithPlanner.
(* planner::optimize with the sort oracle fixed; returns the plan only *)
Variable optimize_fn : list N -> N -> list SymbolSize -> N -> PR (option (list (N * EncodationType))).

Fixpoint main_loop (fuel : nat) (e : enc) (no_write_run : N) : ER enc :=
  match fuel with
  | O => Panic POutOfFuel
  | S f =>
    if negb (has_more e) then Ok e else
    let e := match e_new_mode e with
             | Some m => push (mkenc (e_data e) (e_input e) (e_encodation e) (e_planned e) None (e_cw e) (e_modes e) (e_symbols e)) m
             | None => e
             end in
    let len := length (e_cw e) in
    let* e' := mode_encode e in
    if (length (e_cw e') <? len)%nat then Panic POverflow else
    let words_written := (length (e_cw e') - len)%nat in
    if (words_written <=? 1)%nat then
      let n := no_write_run + 1 in
      if 5 <? n then Panic PAssert else main_loop f e' n
    else main_loop f e' 0
  end.

Definition codewords (e : enc) : ER (list N * SymbolSize) :=
  match e_symbols e with
  | [] => Err SymbolListEmpty
  | _ =>
    if max_capacity (e_symbols e) <? chars_left e then Err TooMuchOrIllegalData else
    match upper_limit_for_number_of_codewords (e_symbols e) (chars_left e) with
    | None => Err SymbolListEmpty
    | Some _ =>
      let* plan := lift (optimize_fn (e_data e) (cw_len e) (e_symbols e) (e_modes e)) in
      match plan with
      | None => Err TooMuchOrIllegalData
      | Some p =>
        let e := mkenc (e_data e) (e_input e) (e_encodation e) p (e_new_mode e) (e_cw e) (e_modes e) (e_symbols e) in
        let* e := main_loop (6 * length (e_data e) + 12) e 0 in
        match symbol_for e 0 with
        | None => Err TooMuchOrIllegalData
        | Some s => let* e := add_padding e s in Ok (e_cw e, s)
        end
      end
    end
  end.

(* data::encode_data_internal *)
Definition encode_data_internal (data : list N) (symbols : list SymbolSize) (eci : option N) (modes : N)
  (use_macros fnc1 : bool) : ER (list N * SymbolSize) :=
  let e := with_size data symbols modes fnc1 in
  let* e := (if use_macros then use_macro_if_possible e else Ok e) in
  let* e := (match eci with Some c => enc_write_eci e c | None => Ok e end) in
  codewords e.
End WithPlanner.
