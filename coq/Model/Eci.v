(* Model/Eci.v -- mirror of src/decodation/eci.rs (convert, convert_chunk, the ISO 8859-9/-11
   decoders), of data::{latin1_to_utf8, utf8_to_latin1}, of GenericDataEncoder::write_eci and
   of decode_str.  A Rust `String` is modelled as its list of Unicode scalar values;
   `core::str::from_utf8` by the UTF-8 decoder below (Unicode Table 3-7).  No proofs. *)
From Coq Require Import NArith List Bool.
From DM Require Import Generated.ModeTables Generated.Charsets Model.Outcome Model.Dec.
Import ListNotations.
Local Open Scope N_scope.

(* ---- UTF-8 ---- *)
Definition cont (b : N) : bool := (128 <=? b) && (b <=? 191).

Fixpoint utf8_decode (fuel : nat) (l : list N) : option (list N) :=
  match fuel with
  | O => None
  | S f =>
    match l with
    | [] => Some []
    | b0 :: t =>
      if b0 <? 128 then option_map (cons b0) (utf8_decode f t)
      else if (194 <=? b0) && (b0 <=? 223) then
        match t with
        | b1 :: t' => if cont b1 then option_map (cons ((b0 - 192) * 64 + (b1 - 128))) (utf8_decode f t') else None
        | _ => None
        end
      else if (224 <=? b0) && (b0 <=? 239) then
        match t with
        | b1 :: b2 :: t' =>
          let lo := if b0 =? 224 then 160 else 128 in
          let hi := if b0 =? 237 then 159 else 191 in
          if (lo <=? b1) && (b1 <=? hi) && cont b2
          then option_map (cons ((b0 - 224) * 4096 + (b1 - 128) * 64 + (b2 - 128))) (utf8_decode f t') else None
        | _ => None
        end
      else if (240 <=? b0) && (b0 <=? 244) then
        match t with
        | b1 :: b2 :: b3 :: t' =>
          let lo := if b0 =? 240 then 144 else 128 in
          let hi := if b0 =? 244 then 143 else 191 in
          if (lo <=? b1) && (b1 <=? hi) && cont b2 && cont b3
          then option_map (cons ((b0 - 240) * 262144 + (b1 - 128) * 4096 + (b2 - 128) * 64 + (b3 - 128))) (utf8_decode f t')
          else None
        | _ => None
        end
      else None
    end
  end.
Definition from_utf8 (l : list N) : option (list N) := utf8_decode (S (length l)) l.

Definition utf8_encode_char (c : N) : list N :=
  if c <? 128 then [c]
  else if c <? 2048 then [192 + c / 64; 128 + c mod 64]
  else if c <? 65536 then [224 + c / 4096; 128 + (c / 64) mod 64; 128 + c mod 64]
  else [240 + c / 262144; 128 + (c / 4096) mod 64; 128 + (c / 64) mod 64; 128 + c mod 64].
Definition utf8_encode (s : list N) : list N := flat_map utf8_encode_char s.

Definition is_scalar (c : N) : bool := (c <? 55296) || ((57344 <=? c) && (c <? 1114112)).

(* ---- data::latin1_to_utf8(_mut), data::utf8_to_latin1 ---- *)
Fixpoint latin1_to_utf8 (l : list N) : option (list N) :=
  match l with
  | [] => Some []
  | ch :: t => match latin1_to_utf8_ch ch with
               | Some c => option_map (cons c) (latin1_to_utf8 t)
               | None => None
               end
  end.

Fixpoint utf8_to_latin1 (s : list N) : option (list N) :=
  match s with
  | [] => Some []
  | c :: t => match utf8_to_latin1_ch c with
              | Some b => option_map (cons b) (utf8_to_latin1 t)
              | None => None
              end
  end.

(* ---- decode_iso_8859_9 / _11 ---- *)
Fixpoint decode_iso_8859_9 (l : list N) (out : list N) : R (list N) :=
  match l with
  | [] => Ok out
  | ch :: t =>
    if (32 <=? ch) && (ch <=? 126) then decode_iso_8859_9 t (out ++ [ch])
    else if (160 <=? ch) && (ch <=? 255) then
      let* c := get ISO_8859_9 (N.to_nat (ch - 160)) in decode_iso_8859_9 t (out ++ [c])
    else Err CharsetError
  end.

Fixpoint decode_iso_8859_11 (l : list N) (out : list N) : R (list N) :=
  match l with
  | [] => Ok out
  | ch :: t =>
    if (32 <=? ch) && (ch <=? 126) then decode_iso_8859_11 t (out ++ [ch])
    else if (160 <=? ch) && (ch <=? 218) then
      let* c := get ISO_8859_11 (N.to_nat (ch - 160)) in decode_iso_8859_11 t (out ++ [c])
    else if (223 <=? ch) && (ch <=? 251) then
      let* c := get ISO_8859_11 (N.to_nat (ch - 160 - 4)) in decode_iso_8859_11 t (out ++ [c])
    else Err CharsetError
  end.

(* convert_chunk (default features: no extended_eci) *)
Definition convert_chunk (bytes : list N) (eci : N) (out : list N) : R (list N) :=
  if (eci =? 0) || (eci =? 3) then
    match latin1_to_utf8 bytes with Some s => Ok (out ++ s) | None => Err CharsetError end
  else if eci =? 11 then decode_iso_8859_9 bytes out
  else if eci =? 13 then decode_iso_8859_11 bytes out
  else if eci =? ECI_UTF8 then
    match from_utf8 bytes with Some s => Ok (out ++ s) | None => Err CharsetError end
  else if eci =? 27 then
    if forallb (fun b => b <? 128) bytes then
      match from_utf8 bytes with Some s => Ok (out ++ s) | None => Err CharsetError end
    else Err CharsetError
  else Err NotImplemented.

(* convert: chunks raw[i..j] between consecutive span starts; slicing panics if i > j or j > len *)
Definition slice_of (raw : list N) (i j : N) : R (list N) :=
  if (j <? i) || (N.of_nat (length raw) <? j) then Panic PIndex
  else Ok (firstn (N.to_nat (j - i)) (skipn (N.to_nat i) raw)).

Fixpoint convert_go (raw : list N) (spans : list (N * N)) (out : list N) : R (list N) :=
  match spans with
  | (i, eci) :: (((j, _) :: _) as rest) =>
    let* chunk := slice_of raw i j in
    let* out' := convert_chunk chunk eci out in
    convert_go raw rest out'
  | _ => Ok out
  end.

Definition convert (raw : list N) (ecis : list (N * N)) : R (list N) :=
  convert_go raw ((0, 0) :: ecis ++ [(N.of_nat (length raw), 0)]) [].

Definition decode_str (data : list N) : R (list N) :=
  let* parts := decode_parts data false in
  convert (p_output parts) (p_eci_spans parts).

(* ---- GenericDataEncoder::write_eci: the codewords pushed (ECI codeword first) ---- *)
Definition write_eci (c : N) : outcome unit (list N) :=
  if c <=? 126 then Ok [ascii_ECI; c + 1]
  else if c <=? 16382 then
    let c := c - 127 in Ok [ascii_ECI; c / 254 + 128; c mod 254 + 1]
  else if c <=? 999999 then
    let c := c - 16383 in Ok [ascii_ECI; c / 64516 + 192; (c / 254) mod 254 + 1; c mod 254 + 1]
  else Panic PAssert.
