(* Model/DriverPath.v -- driver entry points for Bitmap::{path, pixels, unicode} *)
From Coq Require Import ZArith NArith List Bool.
From DM Require Import Model.Outcome Model.Path Spec.EvenOdd.
Import ListNotations.

Definition d_path (w : Z) (bits : list bool) := path bits w.
Definition d_pixels (w : Z) (bits : list bool) := pixels bits w.
Definition d_unicode (w : Z) (bits : list bool) := unicode bits w.

(* the verified certificate check (Spec/EvenOdd.v, Proofs/PathProofs.v: check_path_fast_sound) on a path supplied by the
   caller -- the implementation's answer *)
Definition d_path_check (w : Z) (bits : list bool) (segs : list seg) : outcome unit bool :=
  let* h := bitmap_new bits w in Ok (check_path_fast bits w h segs).
