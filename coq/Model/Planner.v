(* Model/Planner.v -- mirror of src/encodation/planner/*.rs (after the repairs recorded in
   known_findings.json): Frac in twelfths, Context, the five Plan implementations (C40 and Text
   share C40LikePlan), GenericPlan::{for_mode, add_switches, cost_for_switching_to},
   remove_hopeless_cases and optimize.
   `sort_unstable_by_key` is unspecified on equal keys; the sort is a parameter of
   remove_hopeless_cases/optimize (see Model/PlannerRun.v for its instances).
   Counters (steps of Plan::step, live plans, iterations) are threaded for property C19.
   No proofs. *)
From Coq Require Import Arith NArith List Bool.
From DM Require Import Generated.Symbols Generated.ModeTables Model.Outcome Model.SymbolList.
Import ListNotations.
Local Open Scope N_scope.

Definition PR (A : Type) := outcome unit A.

(* ---- Frac: numerator over 12 ---- *)
Definition frac := N.
Definition frac_new (num denum : N) : PR frac :=
  if (denum =? 0) || negb (12 mod denum =? 0) then Panic PAssert else Ok (num * (12 / denum)).
Definition frac_int (c : N) : frac := c * 12.
Definition frac_ceil (x : frac) : frac := let r := x mod 12 in if r =? 0 then x else x + 12 - r.

Definition is_digit (ch : N) : bool := (48 <=? ch) && (ch <=? 57).

(* ascii::encoding_size *)
Fixpoint ascii_encoding_size (rest : list N) : N :=
  match rest with
  | a :: ((b :: t) as t1) =>
    if is_digit a && is_digit b then 1 + ascii_encoding_size t
    else (if a <=? 127 then 1 else 2) + ascii_encoding_size t1
  | [a] => if a <=? 127 then 1 else 2
  | [] => 0
  end.

(* ---- Context ---- *)
Record context := mkctx { c_data : list N; c_consumed : N; c_written : N }.

Section WithList.
Variable symbol_list : list SymbolSize.

Definition ctx_symbol_size_left (c : context) (extra : N) : option N :=
  let size_needed := c_written c + extra in
  match first_symbol_big_enough_for symbol_list size_needed with
  | Some s => Some (num_data_codewords s - size_needed)
  | None => None
  end.
Definition ctx_write (c : context) (n : N) : context := mkctx (c_data c) (c_consumed c) (c_written c + n).
Definition ctx_left (c : context) : N := N.of_nat (length (c_data c)).
Definition ctx_more (c : context) : bool := match c_data c with [] => false | _ => true end.
Definition ctx_eat (c : context) : option (N * context) :=
  match c_data c with
  | ch :: t => Some (ch, mkctx t (c_consumed c + 1) (c_written c))
  | [] => None
  end.

Record step_result := mksr { sr_end : bool; sr_unbeatable : bool }.

(* ---- AsciiPlan ---- *)
Record ascii_plan := mkap { ap_ctx : context; ap_digits_ahead : N; ap_cost : frac }.
Definition ap_new (c : context) : ascii_plan := mkap c 0 0.
Definition ap_mode_switch_cost (p : ascii_plan) : option frac := Some (frac_ceil (ap_cost p)).
Definition ap_cost_ (p : ascii_plan) : frac := ap_cost p.
Definition ap_write_unlatch (p : ascii_plan) : PR context :=
  if negb (ap_digits_ahead p =? 0) then Panic PAssert else Ok (ap_ctx p).
Fixpoint count_while (f : N -> bool) (l : list N) : N :=
  match l with x :: t => if f x then 1 + count_while f t else 0 | [] => 0 end.
Definition ap_step (p : ascii_plan) : PR (option (step_result * ascii_plan)) :=
  let p :=
    if ap_digits_ahead p =? 0 then
      let ascii_digits := count_while is_digit (c_data (ap_ctx p)) in
      let da := (ascii_digits / 2) * 2 in
      mkap (ctx_write (ap_ctx p) (da / 2)) da (ap_cost p)
    else p in
  let unbeatable := 0 <? ap_digits_ahead p in
  match ctx_eat (ap_ctx p) with
  | None => Ok (Some (mksr true unbeatable, p))
  | Some (ch, c') =>
    if 0 <? ap_digits_ahead p then
      if negb (is_digit ch) then Panic PAssert
      else Ok (Some (mksr false unbeatable, mkap c' (ap_digits_ahead p - 1) (ap_cost p + 6)))
    else if ch <=? 127 then Ok (Some (mksr false unbeatable, mkap (ctx_write c' 1) 0 (ap_cost p + 12)))
    else Ok (Some (mksr false unbeatable, mkap (ctx_write c' 2) 0 (ap_cost p + 24)))
  end.

(* ---- C40LikePlan (C40 and Text) ---- *)
Record c40_plan := mkcp { cp_text : bool; cp_ctx : context; cp_values : N; cp_unbeatable_reads : N; cp_ch : N;
                          cp_two_digit_ascii_end : bool; cp_cost : frac }.
Definition cp_new (text : bool) (c : context) : c40_plan := mkcp text c 0 0 0 false 0.
Definition cp_val_size (p : c40_plan) (ch : N) : N := if cp_text p then text_val_size ch else c40_val_size ch.
Definition cp_in_base_set (p : c40_plan) (ch : N) : bool := if cp_text p then text_in_base_set ch else c40_in_base_set ch.

(* unbeatable_strike(rest, nice_char) *)
Fixpoint strike_go (nice : N -> bool) (rest : list N) (consecutive_digits unbeatable_reads : N) : N :=
  match rest with
  | ch :: t =>
    if nice ch then
      let ur := unbeatable_reads + 1 in
      if is_digit ch then
        let cd := consecutive_digits + 1 in
        if cd =? 7 then ur - cd else strike_go nice t cd ur
      else strike_go nice t 0 ur
    else unbeatable_reads
  | [] => unbeatable_reads
  end.
Definition unbeatable_strike (nice : N -> bool) (rest : list N) : N := (strike_go nice rest 0 0 / 3) * 3.

Definition cp_mode_switch_cost (p : c40_plan) : option frac :=
  if cp_values p =? 0 then Some (cp_cost p + 12) else Some (cp_cost p + 24 + 12).
Definition cp_write_unlatch (p : c40_plan) : PR context :=
  if 0 <? cp_values p then
    if negb (cp_values p <=? 2) then Panic PAssert else Ok (ctx_write (ctx_write (cp_ctx p) 2) 1)
  else Ok (ctx_write (cp_ctx p) 1).
Definition cp_cost_ (p : c40_plan) : PR frac :=
  if ctx_more (cp_ctx p) then let* f := frac_new (2 * cp_values p) 3 in Ok (cp_cost p + f)
  else
    let extra :=
      if cp_values p =? 2 then
        let space_left := match ctx_symbol_size_left (cp_ctx p) 2 with Some x => x | None => 0 end in
        if space_left =? 0 then 2 else 3
      else if cp_values p =? 1 then
        let space_left := match ctx_symbol_size_left (cp_ctx p) 1 with Some x => x | None => 0 end in
        let ascii_size := ascii_encoding_size [cp_ch p] in
        if space_left =? 0 then (if ascii_size =? 1 then 1 else 1 + ascii_size) else 1 + ascii_size
      else 0 in
    Ok (cp_cost p + frac_int extra).

(* while self.values >= 3 { cost += 2; if !unbeatable { ctx.write(2) }; values -= 3 } *)
Fixpoint cp_drain (fuel : nat) (unbeatable : bool) (c : context) (values : N) (cost : frac) : context * N * frac :=
  match fuel with
  | O => (c, values, cost)
  | S f => if 3 <=? values then cp_drain f unbeatable (if unbeatable then c else ctx_write c 2) (values - 3) (cost + 24)
           else (c, values, cost)
  end.

Definition cp_step (p : c40_plan) : PR (option (step_result * c40_plan)) :=
  (* look-ahead at a boundary *)
  let r : option c40_plan :=
    if (cp_values p =? 0) && (cp_unbeatable_reads p =? 0) then
      let r1 : option c40_plan :=
        match c_data (cp_ctx p) with
        | [a; b] =>
          if is_digit a && is_digit b then
            match ctx_symbol_size_left (cp_ctx p) 1 with
            | None => None
            | Some space_left =>
              let tde := space_left <=? 1 in
              if space_left =? 1 then Some (mkcp (cp_text p) (ctx_write (cp_ctx p) 2) 0 2 (cp_ch p) tde (cp_cost p))
              else if space_left =? 0 then Some (mkcp (cp_text p) (ctx_write (cp_ctx p) 1) 0 2 (cp_ch p) tde (cp_cost p))
              else Some (mkcp (cp_text p) (cp_ctx p) 0 (cp_unbeatable_reads p) (cp_ch p) tde (cp_cost p))
            end
          else Some p
        | _ => Some p
        end in
      match r1 with
      | None => None
      | Some p1 =>
        if negb (cp_two_digit_ascii_end p1) then
          let ur := unbeatable_strike (cp_in_base_set p1) (c_data (cp_ctx p1)) in
          Some (mkcp (cp_text p1) (ctx_write (cp_ctx p1) ((ur / 3) * 2)) (cp_values p1) ur (cp_ch p1)
                     (cp_two_digit_ascii_end p1) (cp_cost p1))
        else Some p1
      end
    else Some p in
  match r with
  | None => Ok None
  | Some p =>
    let unbeatable := 0 <? cp_unbeatable_reads p in
    match ctx_eat (cp_ctx p) with
    | None => Ok (Some (mksr true unbeatable, p))
    | Some (ch, c') =>
      let '(values, ur) :=
        if 0 <? cp_unbeatable_reads p then
          ((if negb (cp_two_digit_ascii_end p) || (cp_values p =? 0) then cp_values p + 1 else cp_values p),
           cp_unbeatable_reads p - 1)
        else (cp_values p + cp_val_size p ch, cp_unbeatable_reads p) in
      if 256 <=? values then Panic POverflow else
      let '(c2, values2, cost2) := cp_drain 100 unbeatable c' values (cp_cost p) in
      Ok (Some (mksr false unbeatable, mkcp (cp_text p) c2 values2 ur ch (cp_two_digit_ascii_end p) cost2))
    end
  end.

(* ---- X12Plan ---- *)
Record x12_plan := mkxp { xp_ctx : context; xp_values : N; xp_ascii_end : option frac; xp_cost : frac }.
Definition xp_new (c : context) : x12_plan := mkxp c 0 None 0.
Definition xp_mode_switch_cost (p : x12_plan) : option frac := if xp_values p =? 0 then Some (xp_cost p + 12) else None.
Definition xp_write_unlatch (p : x12_plan) : PR context :=
  if negb (xp_values p =? 0) then Panic PAssert
  else match xp_ascii_end p with Some _ => Panic PAssert | None => Ok (ctx_write (xp_ctx p) 1) end.
Definition xp_step (p : x12_plan) : PR (option (step_result * x12_plan)) :=
  if negb (ctx_more (xp_ctx p)) then
    Ok (Some (mksr true (match xp_ascii_end p with Some _ => true | None => false end), p))
  else
    (* end-of-data look-ahead *)
    let* r :=
      (if (xp_values p =? 0) && (ctx_left (xp_ctx p) <=? 2) && (match xp_ascii_end p with None => true | _ => false end) then
         let ascii_size := ascii_encoding_size (c_data (xp_ctx p)) in
         let* r1 :=
           (if ascii_size =? 1 then
              match ctx_symbol_size_left (xp_ctx p) ascii_size with
              | None => Ok None
              | Some space_left =>
                if space_left <=? 1 then
                  let cost := if space_left =? 1 then xp_cost p + 12 else xp_cost p in
                  let* portion := frac_new ascii_size (ctx_left (xp_ctx p)) in
                  Ok (Some (mkxp (xp_ctx p) (xp_values p) (Some portion) cost))
                else Ok (Some p)
              end
            else Ok (Some p)) in
         match r1 with
         | None => Ok None
         | Some p1 =>
           match xp_ascii_end p1 with
           | None =>
             let* portion := frac_new ascii_size (ctx_left (xp_ctx p1)) in
             Ok (Some (mkxp (xp_ctx p1) (xp_values p1) (Some portion) (xp_cost p1 + 12)))
           | Some _ => Ok (Some p1)
           end
         end
       else Ok (Some p)) in
    match r with
    | None => Ok None
    | Some p =>
      match ctx_eat (xp_ctx p) with
      | None => Panic PAssert      (* unwrap on None: unreachable, has_more_characters held *)
      | Some (ch, c') =>
        match xp_ascii_end p with
        | None =>
          if negb (is_native_x12 ch) then Ok None
          else
            let values := (xp_values p + 1) mod 3 in
            let c2 := if values =? 0 then ctx_write c' 2 else c' in
            Ok (Some (mksr false false, mkxp c2 values None (xp_cost p + 8)))
        | Some portion =>
          (* the first eat() is skipped (ascii_end is Some), the second one consumes the character *)
          Ok (Some (mksr false true, mkxp c' (xp_values p) (Some portion) (xp_cost p + portion)))
        end
      end
    end.

(* ---- EdifactPlan ---- *)
Record edi_plan := mkep { ep_ctx : context; ep_written : N; ep_ascii_end : option frac; ep_cost : frac }.
Definition ep_new (c : context) : edi_plan := mkep c 0 None 0.
Definition ep_mode_switch_cost (p : edi_plan) : option frac :=
  if ep_written p =? 3 then Some (frac_ceil (ep_cost p)) else Some (frac_ceil (ep_cost p + 9)).
Definition ep_write_unlatch (p : edi_plan) : PR context :=
  match ep_ascii_end p with
  | Some _ => Panic PAssert
  | None => Ok (ctx_write (ep_ctx p) (N.min (ep_written p + 1) 3))
  end.
Definition ep_step (p : edi_plan) : PR (option (step_result * edi_plan)) :=
  if negb (ctx_more (ep_ctx p)) then
    Ok (Some (mksr true (match ep_ascii_end p with Some _ => true | None => false end), p))
  else
    let* r :=
      (if (ep_written p =? 0) && (ctx_left (ep_ctx p) <=? 4) && (match ep_ascii_end p with None => true | _ => false end) then
         let ascii_size := ascii_encoding_size (c_data (ep_ctx p)) in
         if ascii_size <=? 2 then
           match ctx_symbol_size_left (ep_ctx p) ascii_size with
           | None => Ok None
           | Some space_left =>
             if space_left + ascii_size <=? 2 then
               let* portion := frac_new ascii_size (ctx_left (ep_ctx p)) in
               Ok (Some (mkep (ep_ctx p) (ep_written p) (Some portion) (ep_cost p)))
             else Ok (Some p)
           end
         else Ok (Some p)
       else Ok (Some p)) in
    match r with
    | None => Ok None
    | Some p =>
      match ctx_eat (ep_ctx p) with
      | None => Panic PAssert
      | Some (ch, c') =>
        match ep_ascii_end p with
        | None =>
          if negb (edifact_is_encodable ch) then Ok None
          else
            let written := (ep_written p + 1) mod 4 in
            let c2 := if written =? 0 then ctx_write c' 3 else c' in
            Ok (Some (mksr false false, mkep c2 written None (ep_cost p + 9)))
        | Some portion => Ok (Some (mksr false true, mkep c' (ep_written p) (Some portion) (ep_cost p + portion)))
        end
      end
    end.

(* ---- Base256Plan ---- *)
Record b256_plan := mkbp { bp_ctx : context; bp_written : N; bp_cost : frac }.
Definition bp_new (c : context) : b256_plan := mkbp (ctx_write c 1) 0 12.
Definition bp_mode_switch_cost (p : b256_plan) : option frac :=
  if 1555 <? bp_written p then None
  else if 250 <=? bp_written p then Some (bp_cost p + 12) else Some (bp_cost p).
Definition bp_cost_ (p : b256_plan) : frac :=
  if negb (ctx_more (bp_ctx p)) then
    let left := match ctx_symbol_size_left (bp_ctx p) 0 with Some x => x | None => 1 end in
    if (0 <? left) && (250 <=? bp_written p) then bp_cost p + 12 else bp_cost p
  else bp_cost p.
Definition bp_write_unlatch (p : b256_plan) : context :=
  if 250 <=? bp_written p then ctx_write (bp_ctx p) 1 else bp_ctx p.
Definition bp_step (p : b256_plan) : option (step_result * b256_plan) :=
  match ctx_eat (bp_ctx p) with
  | None => Some (mksr true false, p)
  | Some (_, c') =>
    let written := bp_written p + 1 in
    let c2 := ctx_write c' 1 in
    if (1556 <? written) || ((written =? 1556) && ctx_more c2) then None
    else Some (mksr false false, mkbp c2 written (bp_cost p + 12))
  end.

(* ---- GenericPlan ---- *)
Inductive plan_impl :=
  | PAscii (p : ascii_plan) | PC40 (p : c40_plan) | PText (p : c40_plan) | PX12 (p : x12_plan)
  | PEdifact (p : edi_plan) | PBase256 (p : b256_plan).

Record generic_plan := mkgp { gp_extra : frac; gp_switches : list (N * EncodationType); gp_plan : plan_impl }.

Definition gp_current (g : generic_plan) : EncodationType :=
  match gp_plan g with
  | PAscii _ => Ascii | PC40 _ => C40 | PText _ => Text | PX12 _ => X12 | PEdifact _ => Edifact | PBase256 _ => Base256
  end.
Definition gp_start_mode (g : generic_plan) : PR EncodationType :=
  match gp_switches g with (_, m) :: _ => Ok m | [] => Panic PIndex end.

Definition gp_for_mode (mode : EncodationType) (data : list N) (written : N) : generic_plan :=
  let ctx := ctx_write (mkctx data 0 0) written in
  let plan := match mode with
              | Ascii => PAscii (ap_new ctx) | C40 => PC40 (cp_new false ctx) | Text => PText (cp_new true ctx)
              | Edifact => PEdifact (ep_new ctx) | X12 => PX12 (xp_new ctx) | Base256 => PBase256 (bp_new ctx)
              end in
  mkgp 0 [(N.of_nat (length data), mode)] plan.

Definition gp_mode_switch_cost (g : generic_plan) : option frac :=
  option_map (fun x => x + gp_extra g)
    match gp_plan g with
    | PAscii p => ap_mode_switch_cost p | PC40 p => cp_mode_switch_cost p | PText p => cp_mode_switch_cost p
    | PX12 p => xp_mode_switch_cost p | PEdifact p => ep_mode_switch_cost p | PBase256 p => bp_mode_switch_cost p
    end.
Definition gp_cost (g : generic_plan) : PR frac :=
  let* c := match gp_plan g with
            | PAscii p => Ok (ap_cost_ p) | PC40 p => cp_cost_ p | PText p => cp_cost_ p
            | PX12 p => Ok (xp_cost p) | PEdifact p => Ok (ep_cost p) | PBase256 p => Ok (bp_cost_ p)
            end in
  Ok (c + gp_extra g).
Definition gp_step (g : generic_plan) : PR (option (step_result * generic_plan)) :=
  let wrap {P} (mk : P -> plan_impl) (r : PR (option (step_result * P))) : PR (option (step_result * generic_plan)) :=
      let* o := r in
      Ok (match o with Some (sr, p') => Some (sr, mkgp (gp_extra g) (gp_switches g) (mk p')) | None => None end) in
  match gp_plan g with
  | PAscii p => wrap PAscii (ap_step p) | PC40 p => wrap PC40 (cp_step p) | PText p => wrap PText (cp_step p)
  | PX12 p => wrap PX12 (xp_step p) | PEdifact p => wrap PEdifact (ep_step p)
  | PBase256 p => wrap PBase256 (Ok (bp_step p))
  end.
Definition gp_write_unlatch (g : generic_plan) : PR context :=
  match gp_plan g with
  | PAscii p => ap_write_unlatch p | PC40 p => cp_write_unlatch p | PText p => cp_write_unlatch p
  | PX12 p => xp_write_unlatch p | PEdifact p => ep_write_unlatch p | PBase256 p => Ok (bp_write_unlatch p)
  end.

Definition et_eqb (a b : EncodationType) : bool := et_index a =? et_index b.
Definition enabled (modes : N) (m : EncodationType) : bool := negb (N.land modes (et_flag m) =? 0).

(* state threaded through optimize: number of Plan::step calls *)
Definition counter := N.

(* the macro add_switch!(plan, mode, cost_extra) of add_switches: at most one plan pushed, one step *)
Definition add_switch (g : generic_plan) (ctx : context) (ascii_cost : frac) (rest_len : N) (as_start : bool)
  (mode : EncodationType) (cost_extra : N) (acc : list generic_plan * counter) : PR (list generic_plan * counter) :=
  let (l, st) := acc in
  let* switches :=
    (if as_start then
       if negb (Nat.eqb (length (gp_switches g)) 1) then Panic PAssert else Ok [(rest_len, mode)]
     else Ok (gp_switches g ++ [(rest_len, mode)])) in
  let ctx' := ctx_write ctx cost_extra in
  let* stepped :=
    match mode with
    | Ascii => let* o := ap_step (ap_new ctx') in Ok (option_map (fun x => PAscii (snd x)) o)
    | Base256 => Ok (option_map (fun x => PBase256 (snd x)) (bp_step (bp_new ctx')))
    | Edifact => let* o := ep_step (ep_new ctx') in Ok (option_map (fun x => PEdifact (snd x)) o)
    | X12 => let* o := xp_step (xp_new ctx') in Ok (option_map (fun x => PX12 (snd x)) o)
    | Text => let* o := cp_step (cp_new true ctx') in Ok (option_map (fun x => PText (snd x)) o)
    | C40 => let* o := cp_step (cp_new false ctx') in Ok (option_map (fun x => PC40 (snd x)) o)
    end in
  match stepped with
  | Some pl => Ok (l ++ [mkgp (ascii_cost + frac_int cost_extra) switches pl], st + 1)
  | None => Ok (l, st + 1)
  end.

(* the order in which add_switches tries the modes, with the latch cost of each *)
Definition switch_order : list (EncodationType * N) :=
  [(Ascii, 0); (Base256, 1); (Edifact, 1); (X12, 1); (Text, 1); (C40, 1)].

Fixpoint add_switch_all (g : generic_plan) (ctx : context) (ascii_cost : frac) (rest_len : N) (as_start : bool)
  (todo : list (EncodationType * N)) (acc : list generic_plan * counter) : PR (list generic_plan * counter) :=
  match todo with
  | [] => Ok acc
  | (mode, extra) :: r =>
    let* acc' := add_switch g ctx ascii_cost rest_len as_start mode extra acc in
    add_switch_all g ctx ascii_cost rest_len as_start r acc'
  end.

(* add_switches(self, list, rest_len, as_start, enabled_modes): returns the plans pushed, in order *)
Definition gp_add_switches (g : generic_plan) (rest_len : N) (as_start : bool) (modes : N) (steps : counter)
  : PR (list generic_plan * counter) :=
  match gp_mode_switch_cost g with
  | None => Ok ([], steps)
  | Some ascii_cost =>
    let* ctx := gp_write_unlatch g in
    let cur := gp_current g in
    add_switch_all g ctx ascii_cost rest_len as_start
      (filter (fun me => negb (et_eqb cur (fst me)) && enabled modes (fst me)) switch_order) ([], steps)
  end.

Definition gp_cost_for_switching_to (g : generic_plan) (other : EncodationType) : PR (option frac) :=
  if et_eqb (gp_current g) other then let* c := gp_cost g in Ok (Some c)
  else match other with
       | Ascii => Ok (gp_mode_switch_cost g)
       | Base256 => Ok (option_map (fun x => x + 24) (gp_mode_switch_cost g))
       | _ => Ok (option_map (fun x => x + 12) (gp_mode_switch_cost g))
       end.

(* ---- remove_hopeless_cases ---- *)
Fixpoint dedup (l : list generic_plan) (seen : list N) : PR (list generic_plan) :=
  match l with
  | [] => Ok []
  | pl :: r =>
    let* sm := gp_start_mode pl in
    let idx := et_index sm * 6 + et_index (gp_current pl) in
    if existsb (N.eqb idx) seen then dedup r seen
    else let* r' := dedup r (idx :: seen) in Ok (pl :: r')
  end.

(* inner `for i in start + 1..list.len()`: scan the tail, dropping plans dominated by `first`;
   returns (kept tail, uncomparable) -- after `break` the remaining plans are kept unexamined *)
Fixpoint dominate (first : generic_plan) (tail : list generic_plan) : PR (list generic_plan * bool) :=
  match tail with
  | [] => Ok ([], false)
  | second :: r =>
    let* fc := gp_cost_for_switching_to first (gp_current second) in
    match fc with
    | Some first_cost =>
      let* second_cost := gp_cost second in
      let* (r', unc) := dominate first r in
      if first_cost <? second_cost then Ok (r', unc) else Ok (second :: r', unc)
    | None => Ok (tail, true)
    end
  end.

(* `while start + 1 < list.len()`: advance start while the scan was cut short *)
Fixpoint prune (fuel : nat) (done rest : list generic_plan) : PR (list generic_plan) :=
  match fuel with
  | O => Panic POutOfFuel
  | S f =>
    match rest with
    | first :: ((_ :: _) as tail) =>
      let* (tail', unc) := dominate first tail in
      if unc then prune f (done ++ [first]) tail' else Ok (done ++ first :: tail')
    | _ => Ok (done ++ rest)
    end
  end.

Definition remove_hopeless_cases (sorted : list generic_plan) : PR (list generic_plan) :=
  let* l := dedup sorted [] in
  prune (S (length l)) [] l.

(* ---- optimize ---- *)
Record opt_stats := mkstats { st_steps : N; st_max_live : N; st_iterations : N; st_last_cost : option N }.

(* one pass over `plans.drain(0..)` *)
Fixpoint step_all (plans : list generic_plan) (rest_chars : N) (use_as_start : bool) (modes : N)
  (new_plan : list generic_plan) (at_end : bool) (steps : counter)
  : PR (list generic_plan * bool * counter) :=
  match plans with
  | [] => Ok (new_plan, at_end, steps)
  | plan :: r =>
    let* o := gp_step plan in
    let steps := steps + 1 in
    match o with
    | None =>
      let* (added, steps) := gp_add_switches plan rest_chars use_as_start modes steps in
      step_all r rest_chars use_as_start modes (new_plan ++ added) at_end steps
    | Some (result, plan') =>
      let new_plan := new_plan ++ [plan'] in
      let* (new_plan, steps) :=
        (if negb (sr_unbeatable result) && negb (sr_end result) then
           let* (added, steps) := gp_add_switches plan rest_chars use_as_start modes steps in
           Ok (new_plan ++ added, steps)
         else Ok (new_plan, steps)) in
      let at_end := if sr_end result then true else at_end in
      if negb (Bool.eqb (sr_end result) at_end) then Panic PAssert
      else step_all r rest_chars use_as_start modes new_plan at_end steps
    end
  end.

(* min_by_key: first minimum w.r.t. the lexicographic key (ceil cost, max mode index, #switches) *)
Definition key3_lt (a b : N * N * N) : bool :=
  let '(a1, a2, a3) := a in let '(b1, b2, b3) := b in
  (a1 <? b1) || ((a1 =? b1) && ((a2 <? b2) || ((a2 =? b2) && (a3 <? b3)))).
Fixpoint min_by (best : generic_plan) (bk : N * N * N) (l : list (generic_plan * (N * N * N))) : generic_plan :=
  match l with
  | [] => best
  | (p, k) :: r => if key3_lt k bk then min_by p k r else min_by best bk r
  end.

(* the keys of the final selection: (ceil cost, max mode index, #switches) *)
Fixpoint with_keys (l : list generic_plan) : PR (list (generic_plan * (N * N * N))) :=
  match l with
  | [] => Ok []
  | p :: r =>
    let* c := gp_cost p in
    let max_enc := fold_left N.max (map (fun e => et_index (snd e)) (gp_switches p)) 0 in
    let* _ := (match gp_switches p with [] => Panic PAssert | _ => Ok tt end) in
    let* r' := with_keys r in
    Ok ((p, (frac_ceil c, max_enc, N.of_nat (length (gp_switches p)))) :: r')
  end.

Section Sorted.
(* the sort oracle: given the call number and the list, a permutation of it sorted by cost *)
Variable sorter : nat -> list generic_plan -> PR (list generic_plan).

Fixpoint opt_loop (fuel : nat) (iteration : nat) (data_len : N) (written : N) (modes : N)
  (plans new_plan : list generic_plan) (st : opt_stats)
  : PR (option (list (N * EncodationType)) * opt_stats) :=
  match fuel with
  | O => Panic POutOfFuel
  | S f =>
    let it := N.of_nat iteration in
    let at_end0 := (Nat.eqb iteration 0) && (match plans with [] => true | _ => false end) && (data_len =? 0) in
    if data_len <? it then Panic POverflow else
    let rest_chars := data_len - it in
    let* (np, at_end, steps) := step_all plans rest_chars (Nat.eqb iteration 0) modes new_plan at_end0 (st_steps st) in
    let* sorted := sorter iteration np in
    let* np := remove_hopeless_cases sorted in
    let live := N.of_nat (length np) in
    let st := mkstats steps (N.max (st_max_live st) live) (st_iterations st + 1) None in
    match np with
    | [] => Ok (None, st)
    | p0 :: _ =>
      if at_end then
        let* keyed := with_keys np in
        match keyed with
        | [] => Panic PAssert
        | (p, k) :: r =>
          let best := min_by p k r in
          let* c := gp_cost best in
          let sw := gp_switches best ++ [(0, gp_current best)] in
          let sw := match sw with
                    | (n0, Ascii) :: rest => if (written =? 0) && (n0 =? data_len) then rest else sw
                    | _ => sw
                    end in
          Ok (Some sw, mkstats steps (st_max_live st) (st_iterations st) (Some c))
        end
      else opt_loop f (S iteration) data_len written modes np [] st
    end
  end.

Definition optimize (data : list N) (written : N) (mode : EncodationType) (modes : N)
  : PR (option (list (N * EncodationType)) * opt_stats) :=
  let start_plan := gp_for_mode mode data written in
  let data_len := N.of_nat (length data) in
  let* (plans, new_plan, steps) :=
    (if enabled modes mode then Ok ([start_plan], [], 0)
     else let* (added, steps) := gp_add_switches start_plan data_len true modes 0 in Ok ([], added, steps)) in
  opt_loop (length data + 2) 0 data_len written modes plans new_plan (mkstats steps 0 0 None).
End Sorted.
End WithList.
