(* Model/RSEnc.v -- mirror of src/errorcode/mod.rs: generator, ecc_block, encode_error. *)
From Coq Require Import NArith List Bool.
From DM Require Import Generated.Symbols Generated.Generators Model.Outcome Model.GF.
Import ListNotations.
Open Scope N_scope.

Definition len {A} (l : list A) : N := N.of_nat (length l).

(* GENERATOR_POLYNOMIALS.iter().find(|p| p.len() - 1 == len).expect(..) *)
Definition generator (k : N) : option (list N) :=
  find (fun p => len p - 1 =? k) GENERATOR_POLYNOMIALS.

Fixpoint zipw {A B C} (f : A -> B -> C) (l1 : list A) (l2 : list B) : list C :=
  match l1, l2 with
  | a :: r1, b :: r2 => f a b :: zipw f r1 r2
  | _, _ => []
  end.

Definition lastl {A} (l : list A) : list A := skipn (length l - 1) l.

(* one iteration of `for a in data` in ecc_block:
     let k = ecc[0] + a;  for j in 0..ecc_len { ecc[j] = ecc[j+1] + k * g[j+1] }        *)
Definition ecc_step (g ecc : list N) (a : N) : list N :=
  match ecc, g with
  | e0 :: erest, _ :: grest =>
      let k := GF.add e0 a in
      zipw (fun e gj => GF.add e (GF.mul k gj)) erest grest ++ lastl erest
  | _, _ => ecc
  end.

Definition ecc_block (data g ecc : list N) : list N := fold_left (ecc_step g) data ecc.

(* (block..len).step_by(stride): take an element when the counter is 0 *)
Fixpoint every {A} (stride cnt : nat) (l : list A) : list A :=
  match l with
  | [] => []
  | x :: r => match cnt with
              | O => x :: every stride (stride - 1) r
              | S c => every stride c r
              end
  end.

(* full_ecc.iter_mut().skip(block).step_by(stride).zip(&ecc[..k]) for every block *)
Fixpoint interleave {A} (fuel : nat) (ls : list (list A)) : list A :=
  match fuel with
  | O => []
  | S f => flat_map (fun l => match l with [] => [] | x :: _ => [x] end) ls
           ++ interleave f (map (@tl A) ls)
  end.

Definition encode_error (s : SymbolSize) (data : list N) : outcome unit (list N) :=
  let nblocks := N.to_nat (num_ecc_blocks s) in
  let k := num_ecc_per_block s in
  if negb (len data =? num_data_codewords s) then Panic PAssert
  else match generator k with
       | None => Panic PAssert
       | Some g =>
         let eccs := map (fun block =>
                       firstn (N.to_nat k)
                         (ecc_block (every nblocks block data) g (repeat 0 (N.to_nat k + 1))))
                     (seq 0 nblocks) in
         Ok (interleave (N.to_nat k) eccs)
       end.
